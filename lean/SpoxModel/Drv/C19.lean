import Lean.Data.Json
import SpoxModel.Model.Subgraph
import SpoxModel.Model.SubgraphSpec
import SpoxModel.Model.SubgraphNested
import SpoxModel.Model.SubgraphNames
import SpoxModel.Model.CallForm
import SpoxModel.Generated.SubgraphSpecs
import SpoxModel.Generated.CallbackSites
import SpoxModel.Generated.CallGraphData
/-! Line-protocol handler for C19: run one control-flow constructor call (spec *generated from
    /repo*), followed by a list of later steps, on the model; report what every callback saw. -/
namespace Drv.C19
open Lean Subgraph SubgraphNested

def dimToJson : Dim → Json
  | .n k => toJson k
  | .s nm => Json.str nm
  | .unk => Json.null

partial def tyToJson : Ty → Json
  | .tensor dt sh =>
    Json.mkObj [("t", toJson dt),
      ("s", match sh with | none => Json.null | some ds => Json.arr (ds.map dimToJson).toArray)]
  | .seq e => Json.mkObj [("seq", tyToJson e)]
  | .opt e => Json.mkObj [("opt", tyToJson e)]

def parseDim (j : Json) : Except String Dim :=
  match j with
  | .null => .ok .unk
  | .str s => .ok (.s s)
  | _ => match j.getNat? with
    | .ok k => .ok (.n k)
    | .error e => .error e

partial def parseTy (j : Json) : Except String Ty := do
  match j.getObjVal? "seq" with
  | .ok e => return .seq (← parseTy e)
  | .error _ =>
  match j.getObjVal? "opt" with
  | .ok e => return .opt (← parseTy e)
  | .error _ =>
  let dt ← j.getObjValAs? Nat "t"
  let s ← j.getObjVal? "s"
  match s with
  | .null => return .tensor dt none
  | .arr ds => return .tensor dt (some (← ds.toList.mapM parseDim))
  | _ => throw "bad shape"

def parseOperand (j : Json) : Except String Operand :=
  match j with
  | .null => .ok none
  | _ => (parseTy j).map some

def objPairs (j : Json) : Except String (List (String × Json)) :=
  match j with
  | .obj kvs => .ok (kvs.toList)
  | .null => .ok []
  | _ => .error "object expected"

def lookupD {α} (d : α) (xs : List (String × α)) (nm : String) : α :=
  ((xs.find? (·.1 == nm)).map (·.2)).getD d

def parseBeh (j : Json) : Except String (Nat × CbBehaviour) := do
  let id ← j.getObjValAs? Nat "id"
  let beh ← j.getObjValAs? String "beh"
  let n := (j.getObjValAs? Nat "n").toOption.getD 0
  -- an explicit list of element kinds takes precedence: "var" / "seqOfVars" / anything else
  match j.getObjValAs? (Array String) "elems" with
  | .ok ks =>
    let es := ks.toList.map (fun k => if k == "var" then ElemKind.var
      else if k == "seqOfVars" then ElemKind.seqOfVars else ElemKind.nonVar)
    return (id, behaviourOfElems es)
  | .error _ =>
  match beh with
  | "vars" => return (id, .returnsVars n)
  | "notCallable" => return (id, .notCallable)
  | "nonIterable" => return (id, .nonIterable)
  | "hasNonVar" => return (id, .hasNonVar n)
  | "raises" => return (id, .raises)
  | _ => throw "bad behaviour"

/-- the signature of a callback form, if the request gives one -/
def parseSig (j : Json) : Option CallForm.Sig :=
  match j.getObjVal? "sig" with
  | .ok sj =>
    let nat (k : String) := (sj.getObjValAs? Nat k).toOption.getD 0
    some ⟨nat "npos", nat "ndef", (sj.getObjValAs? Bool "varargs").toOption.getD false, nat "kwreq", nat "kwbound",
      nat "bound"⟩
  | .error _ => none

/-- the behaviour `subgraph` sees when it calls the callback with `n` arguments -/
def withSig (sg : Option CallForm.Sig) (n : Nat) (beh : CbBehaviour) : CbBehaviour :=
  match sg with
  | some s => CallForm.effective s n beh
  | none => beh

def parseStep (s : String) : Except String Step :=
  match s with
  | "build" => .ok .build
  | "infer" => .ok .infer
  | "valueProp" => .ok .valueProp
  | "inspect" => .ok .inspect
  | "copy" => .ok .copy
  | "graphMethod" => .ok .graphMethod
  | "inline" => .ok .inline
  | "varMethod" => .ok .varMethod
  | _ => .error "bad step"

def errName : Err → String
  | .typeError => "TypeError"
  | .attributeError => "AttributeError"
  | .other => "Other"

def extra : List String :=
  SubgraphSpec.extraSites Generated.CallbackSites.invokers Generated.CallbackSites.reconstructCallers
    Generated.CallbackSites.constructorReaders Generated.CallbackSites.subgraphCallers
    Generated.CallbackSites.opsetModules

def findSpec (mod ctor : String) : Option CtorSpec :=
  let defMod := ((Generated.SubgraphSpecs.resolves.find? (fun r => r.1 == mod && r.2.1 == ctor)).map
    (·.2.2)).getD mod
  (Generated.SubgraphSpecs.table.find? (fun e => e.1 == defMod && e.2.1 == ctor)).map (·.2.2)

def eventJson (e : Event) : Json :=
  Json.mkObj [("cb", toJson e.cb), ("args", toJson e.args),
    ("types", Json.arr (e.types.map tyToJson).toArray)]

/-- Expand one constructor call of a nested program into its `subgraph` invocations (one tree per
    `subgraph(…)` call of the *generated* spec, in source order; the children of a tree are the
    invocations of the constructors its callback calls). Also the `out_variadic` of every constructor
    call, in completion order. -/
partial def expandCall (j : Json) : Except String (List TreeE × List Int) := do
  let mod ← j.getObjValAs? String "mod"
  let ctor ← j.getObjValAs? String "ctor"
  let spec ← match findSpec mod ctor with
    | some s => pure s
    | none => throw s!"no spec for {mod}.{ctor}"
  let lists ← (← objPairs (j.getObjValD "lists")).mapM (fun (p : String × Json) => do
    let arr ← p.2.getArr?
    return (p.1, ← arr.toList.mapM parseOperand))
  let singles ← (← objPairs (j.getObjValD "singles")).mapM (fun (p : String × Json) => do
    return (p.1, ← parseOperand p.2))
  let ints ← (← objPairs (j.getObjValD "ints")).mapM (fun (p : String × Json) => do
    return (p.1, ← p.2.getInt?))
  let env : Env := ⟨lookupD [] lists, lookupD none singles, lookupD 0 ints⟩
  let cbs ← j.getObjVal? "cbs"
  let mut trees : List TreeE := []
  let mut outs : List Int := []
  let mut outN : Option Nat := none
  for (nm, e) in spec.subgraphs do
    let types ← match evalList env e with
      | .ok ts => pure ts
      | .error err => throw s!"type expression of {nm} raises {errName err}"
    let cb ← cbs.getObjVal? nm
    let id ← cb.getObjValAs? Nat "id"
    let n ← cb.getObjValAs? Nat "n"
    -- behaviour of the body (default: returns n Vars), through the signature of its callable form
    let beh0 : CbBehaviour := match cb.getObjValAs? String "beh" with
      | .ok _ => match parseBeh cb with | .ok p => p.2 | .error _ => .returnsVars n
      | .error _ => .returnsVars n
    let beh := withSig (parseSig cb) types.length beh0
    let inner := (cb.getObjValAs? (Array Json) "inner").toOption.getD #[]
    let mut children : List TreeE := []
    for c in inner.toList do
      let (ts, os) ← expandCall c
      children := children ++ ts
      outs := outs ++ os
    trees := trees ++ [TreeE.node id types beh children]
    if nm == spec.outGraph then outN := some n
  match outN with
  | none => throw "out graph not among the subgraphs"
  | some n => return (trees, outs ++ [(n : Int) - spec.outMinus])

def handleNested (req call : Json) : Json :=
  match (do
    let (trees, outs) ← expandCall call
    let steps ← ((req.getObjValAs? (Array String) "steps").toOption.getD #[]).toList.mapM parseStep
    let (res, w1) := runForestE trees ⟨[], 0⟩
    -- the node keeps every callback of the tree (for steps that would re-run stored constructors)
    let node : Node := ⟨w1.events.reverse.map (fun (e : Event) => ("cb", (⟨e.cb, e.args, 0⟩ : Graph))), 0⟩
    let w2 := runSteps Generated.CallGraphData.graph node steps w1
    let ids : List Nat := (SubgraphNested.idsFE trees).eraseDups
    return Json.mkObj [
      ("result", match res with | none => Json.mkObj [("ok", toJson true)] | some e => Json.mkObj [("err", errName e)]),
      ("events", Json.arr (w1.events.reverse.map eventJson).toArray),
      ("outs", toJson outs),
      ("counts", Json.mkObj (ids.map (fun i => (toString i, toJson (w2.count i))))),
      ("countsAfterCtor", Json.mkObj (ids.map (fun i => (toString i, toJson (w1.count i)))))]) with
  | .ok j => j
  | .error e => Json.mkObj [("error", e)]

/-- `subgraph(types, fun)` called directly. -/
def handleDirect (d : Json) : Json :=
  match (do
    let kind ← d.getObjValAs? String "types"
    let tys ← ((d.getObjValAs? (Array Json) "tys").toOption.getD #[]).toList.mapM parseTy
    let ta : TypesArg := if kind == "ok" then .ok tys else if kind == "notIterable" then .notIterable else .hasNonType
    let cbj ← d.getObjVal? "cb"
    let (id, beh0) ← parseBeh cbj
    let beh := withSig (parseSig cbj) tys.length beh0
    let (res, w1) := subgraphEntry ta id beh ⟨[], 0⟩
    let resJ := match res with
      | .ok g => Json.mkObj [("ok", toJson g.nResults), ("nargs", toJson g.args.length)]
      | .error e => Json.mkObj [("err", errName e)]
    return Json.mkObj [("result", resJ), ("events", Json.arr (w1.events.reverse.map eventJson).toArray),
      ("count", toJson (w1.count id))]) with
  | .ok j => j
  | .error e => Json.mkObj [("error", e)]

/-- Round 10: the name glue. `{"names": {"pre": "in", "n": 12, "outs": [..]}}` → the dict
    `enum_arguments` / `enum_results` build for `n` infos (values = positions) and the stored state of
    `subgraph`'s tail for these `outs`. -/
def handleNames (d : Json) : Json :=
  match (do
    let pre ← d.getObjValAs? String "pre"
    let n ← d.getObjValAs? Nat "n"
    let outs := ((d.getObjValAs? (Array Nat) "outs").toOption.getD #[]).toList
    let start := (d.getObjValAs? Nat "start").toOption.getD 0
    let dict : List (String × Nat) := SubgraphNames.enumDict pre (List.range n)
    let t : List Nat × List Nat × SubgraphNames.StoredGraph := SubgraphNames.subgraphTail (List.range n) start 0 outs
    let sorted : List (String × Nat) := SubgraphNames.sortedByName dict
    return Json.mkObj [("names", toJson (dict.map (fun (p : String × Nat) => p.1)).toArray), ("order", toJson (dict.map (fun (p : String × Nat) => p.2)).toArray),
      ("sortedOrder", toJson (sorted.map (fun (p : String × Nat) => p.2)).toArray),
      ("args", toJson (SubgraphNames.enumArguments pre (List.range n)).toArray),
      ("ins", toJson t.1.toArray), ("tys", toJson t.2.1.toArray),
      ("results", Json.arr (t.2.2.results.map (fun (p : String × Nat) => Json.arr #[toJson p.1, toJson p.2])).toArray),
      ("arguments", toJson t.2.2.arguments.toArray)]) with
  | .ok j => j
  | .error e => Json.mkObj [("error", e)]

/-- Round 10: `_make_dummy_subgraph`. `{"dummy": {"key": "body", "types": [ty…], "res": [ty…]}}`. -/
def handleDummy (d : Json) : Json :=
  match (do
    let key ← d.getObjValAs? String "key"
    let tys ← ((d.getObjValAs? (Array Json) "types").toOption.getD #[]).toList.mapM parseTy
    let res ← ((d.getObjValAs? (Array Json) "res").toOption.getD #[]).toList.mapM parseTy
    let g : SubgraphNames.DummyGraph Ty := SubgraphNames.dummyOfSubgraph key tys res
    let vis (xs : List (String × Ty)) : Json :=
      Json.arr (xs.map (fun (p : String × Ty) => Json.arr #[toJson p.1, tyToJson p.2])).toArray
    return Json.mkObj [("name", toJson g.name), ("inputs", vis g.inputs), ("outputs", vis g.outputs),
      ("valueInfos", vis g.valueInfos),
      ("nodes", Json.arr (g.nodes.map (fun (p : String × String) => Json.arr #[toJson p.1, toJson p.2])).toArray)]) with
  | .ok j => j
  | .error e => Json.mkObj [("error", e)]

def handle (req : Json) : Json :=
  match req.getObjVal? "dummy" with
  | .ok d => handleDummy d
  | .error _ =>
  match req.getObjVal? "names" with
  | .ok d => handleNames d
  | .error _ =>
  match req.getObjVal? "direct" with
  | .ok d => handleDirect d
  | .error _ =>
  match req.getObjVal? "nested" with
  | .ok call => handleNested req call
  | .error _ =>
  match (do
    let mod ← req.getObjValAs? String "mod"
    let ctor ← req.getObjValAs? String "ctor"
    let spec ← match findSpec mod ctor with
      | some s => pure s
      | none => throw s!"no spec for {mod}.{ctor}"
    let lists ← (← objPairs (req.getObjValD "lists")).mapM (fun (p : String × Json) => do
      let arr ← p.2.getArr?
      return (p.1, ← arr.toList.mapM parseOperand))
    let singles ← (← objPairs (req.getObjValD "singles")).mapM (fun (p : String × Json) => do
      return (p.1, ← parseOperand p.2))
    let ints ← (← objPairs (req.getObjValD "ints")).mapM (fun (p : String × Json) => do
      return (p.1, ← p.2.getInt?))
    let cbl0 ← (← objPairs (req.getObjValD "cbs")).mapM (fun (p : String × Json) => do
      return (p.1, ← parseBeh p.2, parseSig p.2))
    let steps ← ((req.getObjValAs? (Array String) "steps").toOption.getD #[]).toList.mapM parseStep
    let fresh0 := (req.getObjValAs? Nat "fresh").toOption.getD 0
    let env : Env := ⟨lookupD [] lists, lookupD none singles, lookupD 0 ints⟩
    -- a callback form: Python's binding of the prescribed number of arguments decides whether the body is entered
    let nArgsOf (nm : String) : Nat :=
      match spec.subgraphs.find? (fun (q : String × ListExpr) => q.1 == nm) with
      | some q => match evalList env q.2 with | .ok ts => ts.length | .error _ => 0
      | none => 0
    let cbl : List (String × Nat × CbBehaviour) :=
      cbl0.map (fun (p : String × (Nat × CbBehaviour) × Option CallForm.Sig) => (p.1, p.2.1.1, withSig p.2.2 (nArgsOf p.1) p.2.1.2))
    let cbs : Callbacks := lookupD (999, .notCallable) cbl
    -- `repeat`: the same constructor call made again with the very same callback objects
    let reps := (req.getObjValAs? Nat "repeat").toOption.getD 1
    let (res, w1) := (List.range reps).foldl
      (fun (acc : Except Err Node × World) _ => construct spec env cbs acc.2)
      ((.error .other : Except Err Node), (⟨[], fresh0⟩ : World))
    let (resJ, w2) := match res with
      | .ok node => (Json.mkObj [("ok", toJson node.outVariadic)], runSteps Generated.CallGraphData.graph node steps w1)
      | .error e => (Json.mkObj [("err", errName e)], w1)
    let ids : List Nat := (cbl.map (fun (p : String × Nat × CbBehaviour) => p.2.1)).eraseDups
    return Json.mkObj [
      ("result", resJ),
      ("events", Json.arr (w1.events.reverse.map eventJson).toArray),
      ("counts", Json.mkObj (ids.map (fun i => (toString i, toJson (w2.count i))))),
      ("countsAfterCtor", Json.mkObj (ids.map (fun i => (toString i, toJson (w1.count i))))),
      ("order", toJson (spec.subgraphs.map (fun (p : String × ListExpr) => p.1))),
      ("extraSites", toJson extra),
      ("sinkReachable", toJson (Generated.CallGraphData.graph.reachesSink Generated.CallGraphData.graph.allEntries))]) with
  | .ok j => j
  | .error e => Json.mkObj [("error", e)]

end Drv.C19
