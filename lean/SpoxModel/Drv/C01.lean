import Lean.Data.Json
import SpoxModel.Model.Prog
import SpoxModel.Model.ProgUsed
import SpoxModel.Model.Containers
import SpoxModel.Model.Bridge
import SpoxModel.Model.ProgRequest
/-!
Line-protocol handler for C01: the model side of the translation validation.

Request  `{"nodes": [[kind, label, [in…], [[args, results]…]]…]   (oldest first; kind 0 arg, 1 init, 2 op;
                                                                   in = null | [node, idx])
           "main":  [args, results],
           "emit":  EG,            EG = [args, [[id, [EG…]]…], results]   (the nested emission
                                   extracted from the real ModelProto)
           "vals":  [[v…]…],       actual main inputs (several bindings)
           "seed":  n,
           "allArgs": [a…],        (optional) the caller's full input list, in the caller's order: the
                                   answer then carries `used` = `usedArgs` of (allArgs, results) and
                                   `dropValid` = `validG` of the emission against `dropUnused` of it,
                                   `leaf` = `argsLeaf`, `argsOk` = every caller input `isArg` and `notFormal`
                                   (the side conditions of `usedArgs_least`)
           "denote": bool}`        (false: skip `denoteG` — its cost is exponential in the number of
                                   body-bearing nodes, the harness skips it for the few huge programs)
Response `{"wf", "valid", "runs": [{"eval": [v…] | null, "denote": [v…]}…]}` where `eval` is
`evalG` on the emission and `denote` is `denoteG` on the program, both under the fixed integer
semantics `drvSem` (every label a different mixing function, bodies applied to derived arguments).
-/
namespace Drv.C01
open Lean Prog

def P : Nat := 1000003

/-- An arbitrary but discriminating semantics: outputs mix label, inputs (positions and presence)
    and the results of every body applied to arguments derived from the inputs. -/
def drvSem : Sem Nat where
  op l ins subs :=
    let hIns := ins.foldl (fun acc o => (acc * 31 + (match o with | none => 7 | some v => v + 11)) % P) (l + 1)
    let args := (List.range 6).map (fun i => (hIns * (i + 3) + i) % P)
    let hSubs := subs.foldl
      (fun acc f => ((f args).foldl (fun a v => (a * 37 + v + 1) % P) (acc * 41 + 5)) % P) hIns
    (List.range 5).map (fun k => (hSubs * (k + 2) + k * k + l) % P)

def parseRef (j : Json) : Except String VarRef := do
  let a ← j.getArr?
  let n ← (a.getD 0 Json.null).getNat?
  let i ← (a.getD 1 Json.null).getNat?
  return ⟨n, i⟩

def parseOptRef (j : Json) : Except String (Option VarRef) :=
  if j.isNull then return none else do return some (← parseRef j)

def parseNats (j : Json) : Except String (List Nat) := do
  let a ← j.getArr?
  a.toList.mapM (·.getNat?)

def parseRefs (j : Json) : Except String (List VarRef) := do
  let a ← j.getArr?
  a.toList.mapM parseRef

def parsePGraph (j : Json) : Except String PGraph := do
  let a ← j.getArr?
  return ⟨← parseNats (a.getD 0 Json.null), ← parseRefs (a.getD 1 Json.null)⟩

def parseNode (j : Json) : Except String PNode := do
  let a ← j.getArr?
  let k ← (a.getD 0 Json.null).getNat?
  let l ← (a.getD 1 Json.null).getNat?
  let ins ← (← (a.getD 2 Json.null).getArr?).toList.mapM parseOptRef
  let subs ← (← (a.getD 3 Json.null).getArr?).toList.mapM parsePGraph
  let kind ← match k with
    | 0 => pure Kind.arg
    | 1 => pure (Kind.init l)
    | 2 => pure (Kind.op l)
    | _ => throw "bad kind"
  return ⟨kind, ins, subs⟩

mutual
partial def parseEG (j : Json) : Except String EGraph := do
  let a ← j.getArr?
  let args ← parseNats (a.getD 0 Json.null)
  let body ← (← (a.getD 1 Json.null).getArr?).toList.mapM parseEN
  let res ← parseRefs (a.getD 2 Json.null)
  return .mk args body res
partial def parseEN (j : Json) : Except String ENode := do
  let a ← j.getArr?
  let id ← (a.getD 0 Json.null).getNat?
  let subs ← (← (a.getD 1 Json.null).getArr?).toList.mapM parseEG
  return .mk id subs
end

/-- `{"events": [[0, l, [v…]] | [1, l] …]}` → `{"snapshots": [[v…]…]}` (Model/Containers.lean): the operands the
    constructed nodes must have, given what the caller did to its list objects and when the calls happened. -/
def parseEv (j : Json) : Except String Containers.Ev := do
  let a ← j.getArr?
  let tag ← (a.getD 0 Json.null).getNat?
  let l ← (a.getD 1 Json.null).getNat?
  if tag == 0 then
    return Containers.Ev.set l (← parseNats (a.getD 2 Json.null))
  else
    return Containers.Ev.call l

def handleEvents (evs : Json) : Json :=
  match (do
    let arr ← evs.getArr?
    let es ← arr.toList.mapM parseEv
    return Json.mkObj [("snapshots", toJson (Containers.snapshots es (fun _ => [])))]) with
  | .ok j => j
  | .error e => Json.mkObj [("error", e)]

mutual
partial def egJ : EGraph → Json
  | .mk args body res => Json.arr #[toJson args, Json.arr (body.map enJ).toArray,
      Json.arr (res.map (fun r => toJson [r.node, r.idx])).toArray]
partial def enJ : ENode → Json
  | .mk id subs => Json.arr #[toJson id, Json.arr (subs.map egJ).toArray]
end

/-- `{"bridge": {"nodes": [{"a","i","s"}…], "graphs": [{"res", "args"?}…]}}` (C04's program format): run the
    Builder algorithm model on the program and answer the executable hypotheses of
    `C01Build.built_model_computes_dataflow` (`WFb`, `build = ok`, `mainCleanB`), `validG` of the model's
    emission (`Bridge.toEGraph`) and that emission itself (compared by the harness with the emission read
    from the real ModelProto). -/
def handleBridge (j : Json) : Json :=
  match (do
    let ns ← j.getObjValAs? (Array Json) "nodes"
    let gs ← j.getObjValAs? (Array Json) "graphs"
    let nodes ← ns.toList.mapM fun (n : Json) => do
      let a ← n.getObjValAs? Bool "a"
      let i ← n.getObjValAs? (List Nat) "i"
      let s ← n.getObjValAs? (List Nat) "s"
      return (⟨a, i, s⟩ : BuildAlg.PNode)
    let graphs ← gs.toList.mapM fun (g : Json) => do
      let r ← g.getObjValAs? (List Nat) "res"
      let args : Option (List Nat) := match g.getObjValAs? (List Nat) "args" with
        | .ok l => some l
        | .error _ => none
      return (⟨args, r⟩ : BuildAlg.PGraph)
    let p : BuildAlg.Prog := ⟨nodes, graphs⟩
    match BuildAlg.build p with
    | .error _ => return Json.mkObj [("wf", toJson p.WFb), ("built", toJson false)]
    | .ok (b, _) =>
      let q := Bridge.toProg p b.argsOf
      let e := Bridge.toEGraph p b
      return Json.mkObj [("wf", toJson p.WFb), ("built", toJson true),
        ("mainClean", toJson (Bridge.mainCleanB p b)),
        ("valid", toJson (validG q.nodes e q.main [])),
        ("emit", egJ e)]) with
  | .ok j => j
  | .error e => Json.mkObj [("error", e)]

/-- `{"embed": {"p": nodes, "p2": nodes, "sigma": [..], "bound": n, "results": [[node, idx]…], "args": [a…]}}`
    (nodes oldest first, as in the main request): the executable hypotheses of
    `C01.needed_part_decides_values_checked` — `wfCheck` of both programs, `sigmaOk` of the table, `embedsNeeded`
    of the requested results, and that the renamed main graph consists of arguments of `p2`. -/
def handleEmbed (j : Json) : Json :=
  match (do
    let p := (← (← j.getObjValAs? (Array Json) "p").toList.mapM parseNode).reverse
    let p2 := (← (← j.getObjValAs? (Array Json) "p2").toList.mapM parseNode).reverse
    let tbl ← parseNats (← j.getObjVal? "sigma")
    let bound ← j.getObjValAs? Nat "bound"
    let res ← parseRefs (← j.getObjVal? "results")
    let args ← parseNats (← j.getObjVal? "args")
    let σ := sigmaOf tbl bound
    let w := res.map VarRef.node
    return Json.mkObj [("wf", toJson (wfCheck p)), ("wf2", toJson (wfCheck p2)),
      ("sigmaOk", toJson (sigmaOk tbl bound)),
      ("embeds", toJson (embedsNeeded p p2 σ w)),
      ("needed", toJson (needed p w).eraseDups.length),
      ("mainMapped", toJson ((args.map σ).all (isArg p2) && args.all (isArg p)))]) with
  | .ok j => j
  | .error e => Json.mkObj [("error", e)]

def handle (req : Json) : Json :=
  match req.getObjVal? "embed" with
  | .ok j => handleEmbed j
  | .error _ =>
  match req.getObjVal? "events" with
  | .ok evs => handleEvents evs
  | .error _ =>
  match req.getObjVal? "bridge" with
  | .ok j => handleBridge j
  | .error _ =>
  match (do
    let nodesJ ← req.getObjValAs? (Array Json) "nodes"
    let nodes ← nodesJ.toList.mapM parseNode
    let prog := nodes.reverse
    let main ← parsePGraph (← req.getObjVal? "main")
    let e ← parseEG (← req.getObjVal? "emit")
    let valsJ ← req.getObjValAs? (Array Json) "vals"
    let valss ← valsJ.toList.mapM parseNats
    let seed ← req.getObjValAs? Nat "seed"
    let wantDenote := (req.getObjValAs? Bool "denote").toOption.getD true
    let b : Nat → Nat := fun a => (seed * (a + 1) * 7919 + 13) % P
    let runs := valss.map fun vals =>
      let ev := evalG drvSem prog e (fun _ => none) vals
      Json.mkObj [("eval", match ev with | none => Json.null | some l => toJson l),
                  ("denote", if wantDenote then toJson (denoteG drvSem prog b main vals) else Json.null)]
    let allArgs := match req.getObjVal? "allArgs" with
      | .ok j => (parseNats j).toOption
      | .error _ => none
    let usedPart := match allArgs with
      | none => []
      | some aa =>
        let full : PGraph := ⟨aa, main.results⟩
        [("used", toJson (usedArgs prog full)), ("dropValid", toJson (validG prog e (dropUnused prog full) [])),
         ("leaf", toJson (argsLeaf prog)),
         ("argsOk", toJson (aa.all fun a => isArg prog a && notFormal prog a))]
    return Json.mkObj ([
      ("wf", toJson (wfCheck prog)),
      ("valid", toJson (validG prog e main [])),
      ("runs", Json.arr runs.toArray)] ++ usedPart)) with
  | .ok j => j
  | .error e => Json.mkObj [("error", e)]

end Drv.C01
