import Lean.Data.Json
import SpoxModel.Model.Tensor
import SpoxModel.Model.Attr
import SpoxModel.Model.Embed
import SpoxModel.Model.AttrRef
import SpoxModel.Model.VarFields
import SpoxModel.Model.InitTable
import SpoxModel.Generated.Capture
/-! Line-protocol handler for C10: run `fromArray` / `toArray` / `construct` / the heap model on the
    request and report everything (the harness compares with the real code, field by field). -/
namespace Drv.C10
open Lean Tensor Attr Capture Embed

def natList (j : Json) (k : String) : Except String (List Nat) :=
  match j.getObjVal? k with
  | .ok v => do let a ← v.getArr?; a.toList.mapM (fun x => x.getNat?)
  | .error _ => pure []

def intList (j : Json) (k : String) : Except String (List Int) :=
  match j.getObjVal? k with
  | .ok v => do let a ← v.getArr?; a.toList.mapM (fun x => x.getInt?)
  | .error _ => pure []

def natListList (j : Json) (k : String) : Except String (List (List Nat)) :=
  match j.getObjVal? k with
  | .ok v => do
    let a ← v.getArr?
    a.toList.mapM (fun x => do let b ← x.getArr?; b.toList.mapM (fun y => y.getNat?))
  | .error _ => pure []

def bytesOf (l : List Nat) : ByteArray := ⟨(l.map (fun n => UInt8.ofNat n)).toArray⟩
def charsOf (l : List Nat) : List Char := l.map Char.ofNat

def parseArr (j : Json) : Except String Arr := do
  let dn ← j.getObjValAs? String "dtype"
  let some d := DType.ofName? dn | throw s!"bad dtype {dn}"
  let shape ← natList j "shape"
  let words ← natList j "words"
  let strs ← natListList j "strs"
  return ⟨d, shape, words, strs.map charsOf⟩

def arrJson (a : Arr) : Json := Json.mkObj [
  ("dtype", a.dtype.name), ("shape", toJson a.shape), ("words", toJson a.words),
  ("strs", toJson (a.strs.map fun cs => cs.map Char.toNat))]

def protoJson (t : TProto) : Json := Json.mkObj [
  ("data_type", toJson t.dataType), ("dims", toJson t.dims), ("name", t.name),
  ("int32_data", toJson t.int32Data), ("int64_data", toJson t.int64Data),
  ("uint64_data", toJson t.uint64Data), ("float_data", toJson t.floatData),
  ("double_data", toJson t.doubleData),
  ("string_data", toJson (t.stringData.map fun b => b.toList.map UInt8.toNat))]

def parseProto (j : Json) : Except String TProto := do
  let dt ← j.getObjValAs? Nat "data_type"
  let dims ← natList j "dims"
  let i32 ← intList j "int32_data"
  let i64 ← intList j "int64_data"
  let u64 ← natList j "uint64_data"
  let f ← natList j "float_data"
  let d ← natList j "double_data"
  let s ← natListList j "string_data"
  let raw : Option (List Nat) := match j.getObjVal? "raw_data" with
    | .ok v =>
      match (do let a ← v.getArr?; a.toList.mapM (fun x => x.getNat?) : Except String (List Nat)) with
      | .ok l => some l
      | .error _ => none
    | .error _ => none
  return { dataType := dt, dims, int32Data := i32, int64Data := i64, uint64Data := u64,
           floatData := f, doubleData := d, stringData := s.map bytesOf, rawData := raw }

def optJson {α} (f : α → Json) : Option α → Json
  | none => Json.null
  | some a => f a

def parseAtom (j : Json) : Except String Atom := do
  let k ← j.getObjValAs? String "k"
  match k with
  | "none" => return .none
  | "bool" => return .bool (← j.getObjValAs? Bool "v")
  | "int" =>
    return .int (← j.getObjValAs? Int "v")
  | "float" => return .float (← j.getObjValAs? Nat "bits")
  | "str" => return .str (charsOf (← natList j "v"))
  | "bytes" => return .bytes (bytesOf (← natList j "v"))
  | "ndarray" => return .ndarray (← parseArr j)
  | "badarray" => return .badarray
  | "typ" => return .typ
  | "npdtype" =>
    match j.getObjValAs? String "v" with
    | .ok s => match DType.ofName? s with
      | some d => return .npdtype (some d)
      | none => throw s!"bad dtype {s}"
    | .error _ => return .npdtype none
  | "graph" => return .graph
  | "sequence" => return .sequence
  | "obj" => return .obj
  | _ => throw s!"bad atom kind {k}"

def parseVal (j : Json) : Except String PyVal := do
  let k ← j.getObjValAs? String "k"
  if k == "seq" then
    let items ← j.getObjValAs? (Array Json) "items"
    return .seq (← items.toList.mapM parseAtom)
  else return .atom (← parseAtom j)

def aprotoJson (p : AProto) : Json := Json.mkObj [
  ("name", p.name), ("type", toJson p.type), ("f", toJson p.f), ("i", toJson p.i),
  ("s", toJson (p.s.toList.map UInt8.toNat)), ("t", optJson protoJson p.t),
  ("tp", toJson p.hasTypeProto), ("floats", toJson p.floats), ("ints", toJson p.ints),
  ("strings", toJson (p.strings.map fun b => b.toList.map UInt8.toNat)),
  ("tensors", Json.arr (p.tensors.map protoJson).toArray)]

def storedLen : PyVal → Json
  | .atom _ => Json.null
  | .seq items => toJson items.length

def parseScalar (j : Json) : Except String Scalar := do
  let k ← j.getObjValAs? String "k"
  match k with
  | "bool" => return .bool (← j.getObjValAs? Bool "v")
  | "int" => return .int (← j.getObjValAs? Int "v")
  | "float" => return .float (← j.getObjValAs? Nat "bits")
  | "str" => return .str (charsOf (← natList j "v"))
  | _ => throw s!"bad scalar kind {k}"

def parseValue (j : Json) : Except String Value := do
  let k ← j.getObjValAs? String "k"
  match k with
  | "npscalar" =>
    let dn ← j.getObjValAs? String "dtype"
    let some d := DType.ofName? dn | throw s!"bad dtype {dn}"
    return .npScalar d (← natList j "words") (charsOf (← natList j "str"))
  | "array" => return .array (← parseArr j)
  | "list" =>
    let items ← j.getObjValAs? (Array Json) "items"
    return .list (← items.toList.mapM parseScalar)
  | "nested" =>
    let rows ← j.getObjValAs? (Array Json) "rows"
    return .nested (← rows.toList.mapM fun r => do
      let a ← r.getArr?
      a.toList.mapM parseScalar)
  | _ => return .scalar (← parseScalar j)

def embeddedJson (e : Embedded) : Json := Json.mkObj [
  ("route", if e.route == .constantNode then "constant" else "initializer"),
  ("proto", protoJson e.tensor),
  ("type", Json.mkObj [("dtype", e.varType.1.name), ("shape", toJson e.varType.2)]),
  ("prop", optJson arrJson e.propagated)]

def outcomeJson : Option (Except Err Embedded) → Json
  | none => Json.mkObj [("unmodelled", true)]
  | some (.error e) => Json.mkObj [("err", e.name)]
  | some (.ok e) => Json.mkObj [("ok", embeddedJson e)]

def parseMode : String → Except String Mode
  | "alias" => pure .alias | "copy" => pure .copy | "freeze" => pure .freeze | "deep" => pure .deep
  | "opaque" => pure .opaque | s => throw s!"bad mode {s}"

def handleE (req : Json) : Except String Json := do
  let op ← req.getObjValAs? String "op"
  let q := match req.getObjValAs? Bool "q" with | .ok b => b | .error _ => true
  match op with
  | "enc" =>
    let a ← parseArr req
    let name := match req.getObjValAs? String "name" with | .ok s => s | .error _ => ""
    match fromArray q a name with
    | none => return Json.mkObj [("proto", Json.null), ("back", Json.null)]
    | some t =>
      return Json.mkObj [("proto", protoJson t), ("back", optJson arrJson (toArray q t)),
        ("type", optJson (fun (p : DType × List Nat) => Json.mkObj [("dtype", p.1.name), ("shape", toJson p.2)])
          (typeOfProto t))]
  | "dec" =>
    let t ← parseProto (← req.getObjVal? "proto")
    return Json.mkObj [("back", optJson arrJson (toArray q t))]
  | "attr" =>
    let cn ← req.getObjValAs? String "cls"
    let some c := Cls.ofName? cn | throw s!"bad class {cn}"
    let name ← req.getObjValAs? String "name"
    let v ← parseVal (← req.getObjVal? "val")
    match construct q c name v with
    | .ok (sv, p) => return Json.mkObj [("ok", aprotoJson p), ("stored_len", storedLen sv),
        ("in_domain", toJson (inDomain c v)), ("right_kind", toJson (rightKind c v))]
    | .error e => return Json.mkObj [("err", e.name), ("in_domain", toJson (inDomain c v)),
        ("right_kind", toJson (rightKind c v))]
  | "ref" =>
    -- a chain of `AttrX(_Ref(prev, outer, rname), name)` over a concrete root
    let rj ← req.getObjVal? "root"
    let rcn ← rj.getObjValAs? String "cls"
    let some rc := Cls.ofName? rcn | throw s!"bad class {rcn}"
    let rv ← parseVal (← rj.getObjVal? "val")
    if !(inDomain rc rv) then return Json.mkObj [("in_domain", toJson false)]
    match AttrRef.mk q rc (← rj.getObjValAs? String "name") rv with
    | .error e => return Json.mkObj [("root_err", e.name)]
    | .ok root =>
      let chain ← (← req.getObjValAs? (Array Json) "chain").toList.mapM fun (cj : Json) => do
        let cn ← cj.getObjValAs? String "cls"
        let some c := Cls.ofName? cn | throw s!"bad class {cn}"
        return (c, ← cj.getObjValAs? String "name", ← cj.getObjValAs? String "outer", ← cj.getObjValAs? String "rname")
      let rec go (cur : AttrRef.A) (i : Nat) : List (Cls × String × String × String) → Except (Nat × Err) AttrRef.A
        | [] => .ok cur
        | (c, n, o, r) :: rest =>
          match AttrRef.constructRef q c n cur o r with
          | .ok a => go a (i + 1) rest
          | .error e => .error (i, e)
      match go root 0 chain with
      | .error (i, e) => return Json.mkObj [("err", e.name), ("at", toJson i)]
      | .ok a =>
        let rp := a.toOnnx
        let d := match AttrRef.deref q a with
          | .ok (.conc _ _ sv p) => Json.mkObj [("ok", aprotoJson p), ("stored_len", storedLen sv)]
          | .ok _ => Json.mkObj [("err", "other")]
          | .error e => Json.mkObj [("err", e.name)]
        return Json.mkObj [("name", rp.name), ("ref", match rp.refAttrName with | some x => toJson x | none => Json.null),
          ("type", toJson rp.type), ("depth", toJson a.depth), ("deref", d)]
  | "varfields" =>
    let parseItem (j : Json) : Except String VarFields.Item := do
      match j with
      | .str "none" => return .none_
      | .str _ => return .other
      | _ => return .var (← j.getObjValAs? Nat "var")
    let fields ← (← req.getObjValAs? (Array Json) "fields").toList.mapM fun (fj : Json) => do
      let kind ← match (← fj.getObjValAs? String "kind") with
        | "single" => pure VarFields.Kind.single | "optional" => pure .optional | _ => pure .variadic
      let gj ← fj.getObjVal? "given"
      let given ← match (← gj.getObjValAs? String "t") with
        | "obj" => do pure (VarFields.Given.obj (← parseItem (← gj.getObjVal? "item")))
        | _ => do
          let items ← (← gj.getObjValAs? (Array Json) "items").toList.mapM parseItem
          pure (VarFields.Given.iter ⟨items, ← gj.getObjValAs? Bool "one_shot"⟩)
      return (← fj.getObjValAs? String "name", kind, given)
    match VarFields.storeAll fields with
    | .error e => return Json.mkObj [("err", e.name)]
    | .ok st =>
      let pair (p : String × Option Nat) : Json := Json.arr #[toJson p.1, match p.2 with | some n => toJson n | none => Json.null]
      return Json.mkObj [("flat", Json.arr ((VarFields.flatten st).map pair).toArray),
        ("vars", Json.arr ((VarFields.getVars st).map fun p => Json.arr #[toJson p.1, toJson p.2]).toArray)]
  | "capture" =>
    let mode ← parseMode (← req.getObjValAs? String "mode")
    let kind ← req.getObjValAs? String "kind"
    let flat ← natListList req "flat"
    let nest ← natListList req "nest"
    let l ← req.getObjValAs? Nat "arg"
    let h : Heap := ⟨fun k => flat.getD k [], fun k => nest.getD k []⟩
    let a : Arg := if kind == "nest" then .nest l else if kind == "flat" then .flat l else .imm l
    let mutsJ ← req.getObjValAs? (Array Json) "muts"
    let muts ← mutsJ.toList.mapM (fun m => do
      let v ← natList m "v"
      match m.getObjValAs? Nat "flat" with
      | .ok k => pure (Mut.setFlat k v)
      | .error _ => do let k ← m.getObjValAs? Nat "nest"; pure (Mut.setNest k v))
    let st := capture mode h a
    return Json.mkObj [("at_call", toJson (observe h st)), ("after", toJson (observe (mutate h muts) st)),
      ("safe", toJson (safe mode a.kind))]
  | "inits" =>
    -- nodes: {"k": "arg"|"init"|"other", "var": n, "arr": <arr>|null}; names: per var id
    let parseNode (j : Json) : Except String InitTable.Node := do
      let k ← j.getObjValAs? String "k"
      match k with
      | "other" => pure .other
      | _ =>
        let v ← j.getObjValAs? Nat "var"
        let arr ← match j.getObjVal? "arr" with
          | .ok Json.null => pure none
          | .ok aj => do pure (some (← parseArr aj))
          | .error _ => pure none
        match k, arr with
        | "arg", a => pure (.arg v a)
        | "init", some a => pure (.init v a)
        | _, _ => throw "init without array"
    let argsJ ← req.getObjValAs? (Array Json) "args"
    let ownJ ← req.getObjValAs? (Array Json) "own"
    let args ← argsJ.toList.mapM parseNode
    let own ← ownJ.toList.mapM parseNode
    let namesJ ← req.getObjValAs? (Array String) "names"
    let name : Nat → String := fun v => namesJ.toList.getD v ""
    return Json.mkObj [("emitted", optJson (fun ts => Json.arr (ts.map protoJson).toArray) (InitTable.emit q name args own)),
      ("bearing", toJson ((InitTable.bearing args own).map (·.1)))]
  | "embed" =>
    let fn ← req.getObjValAs? String "fn"
    let vj ← req.getObjVal? "val"
    match fn with
    | "const" => return outcomeJson (Embed.const q (← parseValue vj))
    | "future_initializer" => return outcomeJson (futureInitializer q (← parseValue vj))
    | "initializer" => return outcomeJson (some (graphInitializer q (← parseArr vj)))
    | "arg_default" => return outcomeJson (some (argDefault q (← parseArr vj)))
    | _ => throw s!"bad fn {fn}"
  | "constant" =>
    let kn ← req.getObjValAs? String "key"
    let some k := ConstKey.ofName? kn | throw s!"bad key {kn}"
    let v ← parseVal (← req.getObjVal? "val")
    match Embed.constant q k v with
    | .ok (p, pr) => return Json.mkObj [("ok", aprotoJson p), ("prop", optJson arrJson pr),
        ("prop_modelled", toJson pr.isSome)]
    | .error e => return Json.mkObj [("err", e.name)]
  | "r32" =>
    let bs ← natList req "bits"
    return Json.mkObj [("f32", toJson (bs.map FloatBits.r32))]
  | "i2d" =>
    let ns ← intList req "ints"
    return Json.mkObj [("f64", Json.arr (ns.map fun n => optJson (fun (b : Nat) => toJson b) (FloatBits.i2d n)).toArray)]
  | "tables" =>
    return Json.mkObj [
      ("capture", Json.arr (Generated.CaptureTable.table.map fun e =>
        Json.mkObj [("site", e.site), ("ok", toJson e.ok)]).toArray),
      ("kinds", Json.arr (Cls.all.map fun c => Json.mkObj [("cls", c.name),
        ("kind", toJson (Generated.AttrKinds.kindOf c)), ("spec", toJson (specKind c))]).toArray)]
  | _ => throw s!"bad op {op}"

def handle (req : Json) : Json :=
  match handleE req with
  | .ok j => j
  | .error e => Json.mkObj [("error", e)]

end Drv.C10
