import Lean.Data.Json
import SpoxModel.Model.Front
import SpoxModel.Generated.RenamesIR
import SpoxModel.Model.FrontIR
import SpoxModel.Generated.BuildFrontIR
import SpoxModel.Model.FrontSpec
/-! Line-protocol handler for C03 (also used by C12): run `spox.build`'s front-end model on an
    abstract program and a request; report graph inputs/outputs, the error class and the names of
    all Vars afterwards. The IR of `_temporary_renames` is the one generated from /repo, and so is the
    statement list of `build` itself (`Generated/BuildFrontIR.lean`), executed by `FrontIR.run`
    (`"fixed": false` asks for the hand-written pre-fix model `Front.build … false` instead). -/
namespace Drv.C03
open Lean Front

def parseBody (j : Json) : Except String Body := do
  return ⟨(← j.getObjValAs? (List Nat) "formals"), (← j.getObjValAs? (List Nat) "results")⟩

def parseObj (j : Json) : Except String Obj := do
  let subsJ ← j.getObjValAs? (List Json) "subs"
  return { isVar := (← j.getObjValAs? Bool "var"), isArg := (← j.getObjValAs? Bool "arg"),
           ty := (← j.getObjValAs? String "ty"), deps := (← j.getObjValAs? (List Nat) "deps"),
           subs := (← subsJ.mapM parseBody) }

def parseEntry (j : Json) : Except String Entry := do
  match j with
  | .arr #[n, o] => return ⟨(← fromJson? n), (← fromJson? o)⟩
  | _ => throw "bad entry"

def insertSorted (a : Nat) : List Nat → List Nat
  | [] => [a]
  | b :: r => if a ≤ b then a :: b :: r else b :: insertSorted a r

/-- a few permutations standing for Python's set iteration order -/
def perm (k : Nat) (l : List Nat) : List Nat :=
  match k with
  | 0 => l
  | 1 => l.reverse
  | 2 => match l with | [] => [] | a :: r => r ++ [a]
  | 3 => l.foldr insertSorted []
  | _ => (l.foldr insertSorted []).reverse

def storeOf (init : List (Nat × String)) : Renames.Store :=
  fun v => (init.find? (fun e => e.1 == v)).map (·.2)

def parseStore (req : Json) : Except String (List (Nat × String)) := do
  match req.getObjVal? "store" with
  | .ok (.arr a) => a.toList.mapM (fun j => match j with
      | .arr #[i, n] => do return ((← fromJson? i), (← fromJson? n))
      | _ => throw "bad store entry")
  | _ => return []

def errName : Err → String
  | .type => "Type" | .value => "Value" | .key => "Key" | .build => "Build" | .scope => "Scope"

def vinfos (l : List VInfo) : Json := toJson (l.map (fun i => [i.name, i.ty]))

def resJson (r : Except Err Model) : Json :=
  match r with
  | .ok m => Json.mkObj [("inputs", vinfos m.inputs), ("outputs", vinfos m.outputs),
                          ("outVars", toJson m.outVars)]
  | .error e => Json.mkObj [("err", errName e)]

def namesJson (n : Nat) (s : Renames.Store) : Json :=
  Json.arr ((List.range n).map (fun v => match s v with
    | some x => Json.str x | none => Json.null)).toArray

def parseStep (j : Json) : Except String (Nat × Request) := do
  let ins ← (← j.getObjValAs? (List Json) "inputs").mapM parseEntry
  let outs ← (← j.getObjValAs? (List Json) "outputs").mapM parseEntry
  return ((j.getObjValAs? Nat "pi").toOption.getD 0, ⟨ins, outs, (← j.getObjValAs? Bool "drop")⟩)

/-- `"hist": [step, …]`: the requests run one after the other over one name store with `Front.runHist`
    (the object `C12.history_independent` is about), every step = the statement list extracted from
    `_public.py`; returns every result and the names at the end. -/
def handleHist (req : Json) (stepsJ : List Json) : Except String Json := do
  let objs ← (← req.getObjValAs? (List Json) "objs").mapM parseObj
  let P := objs.reverse
  let steps ← stepsJ.mapM parseStep
  let store := storeOf (← parseStore req)
  let (s1, rs) := runHist (fun (st : Nat × Request) s =>
    FrontIR.run Generated.BuildFrontIR.ir Generated.RenamesIR.ir P (perm st.1) st.2 s) steps store
  return Json.mkObj [("results", Json.arr (rs.map resJson).toArray), ("names", namesJson objs.length s1)]

def handle (req : Json) : Json :=
  match (do
    if let .ok stepsJ := req.getObjValAs? (List Json) "hist" then
      return (← handleHist req stepsJ)
    let objsJ ← req.getObjValAs? (List Json) "objs"
    let objs ← objsJ.mapM parseObj
    let P := objs.reverse
    let ins ← (← req.getObjValAs? (List Json) "inputs").mapM parseEntry
    let outs ← (← req.getObjValAs? (List Json) "outputs").mapM parseEntry
    let drop ← req.getObjValAs? Bool "drop"
    let pi := (req.getObjValAs? Nat "pi").toOption.getD 0
    let fixed := (req.getObjValAs? Bool "fixed").toOption.getD true
    let store := storeOf (← parseStore req)
    let (s1, r) := if fixed
      then FrontIR.run Generated.BuildFrontIR.ir Generated.RenamesIR.ir P (perm pi) ⟨ins, outs, drop⟩ store
      else build Generated.RenamesIR.ir P (perm pi) false ⟨ins, outs, drop⟩ store
    let names : List Json := (List.range objs.length).map (fun v => match s1 v with
      | some n => Json.str n | none => Json.null)
    let res := match r with
      | .ok m => Json.mkObj [("inputs", vinfos m.inputs), ("outputs", vinfos m.outputs),
                              ("outVars", toJson m.outVars)]
      | .error e => Json.mkObj [("err", errName e)]
    -- `Front.NoClash` (side condition of inputs_dropped_noclash / missing_input_keyerror_noclash), evaluated:
    -- no unlisted object carries a name that is a key of `inputs` or a requested output name
    let noclash := (List.range objs.length).all (fun v =>
      ins.any (fun e => e.obj == v) ||
      (match store v with
       | none => true
       | some n => !(ins.any (fun e => e.name == n)) && !(outs.any (fun e => e.name == n))))
    return Json.mkObj [("res", res), ("names", Json.arr names.toArray), ("noclash", Json.bool noclash),
                       ("free", toJson (freeArgs P outs)), ("wf", Json.bool (wfb P)),
                       -- `Front.specBuild` / `Front.wfReq`: the abstract result `C03.build_statements_refine_spec`
                       -- equates with `res` whenever `wfreq` and `noclash` hold
                       ("spec", resJson (specBuild P ⟨ins, outs, drop⟩)),
                       ("wfreq", Json.bool (wfReq P ⟨ins, outs, drop⟩))]) with
  | .ok j => j
  | .error e => Json.mkObj [("error", e)]

end Drv.C03
