import Lean.Data.Json
import SpoxModel.Model.Ctx
import SpoxModel.Model.CtxProg
import SpoxModel.Generated.CtxIR
/-! Line-protocol handler for C16: run a block history on the model (with the IR generated from
    /repo) and report the final settings and every snapshot. -/
namespace Drv.C16
open Lean Ctx

partial def parseBlock (j : Json) : Except String Block := do
  let which ← j.getObjValAs? Nat "which"
  let arg ← j.getObjValAs? Nat "arg"
  let raises ← j.getObjValAs? Bool "raises"
  let innerJ ← j.getObjValAs? (Array Json) "inner"
  let inner ← innerJ.toList.mapM parseBlock
  if h : which < 3 then
    return .withB ⟨which, h⟩ arg inner raises
  else throw "bad manager index"

partial def parseCmd (j : Json) : Except String Cmd := do
  let op ← j.getObjValAs? String "op"
  let fin3 (k : String) : Except String (Fin 3) := do
    let n ← j.getObjValAs? Nat k
    if h : n < 3 then return ⟨n, h⟩ else throw "bad setting index"
  let body : Except String (List Cmd) := do
    let bj ← j.getObjValAs? (Array Json) "body"
    bj.toList.mapM parseCmd
  match op with
  | "with" => return .withC (← fin3 "which") (← j.getObjValAs? Nat "arg") (← body)
  | "set" => return .set (← fin3 "which") (← j.getObjValAs? Nat "v")
  | "snap" => return .snap
  | "raise" => return .raise
  | "try" => return .tryC (← body)
  | _ => throw s!"unknown command {op}"

/-- A block *program* (round 10): run through the managers' IR generated from /repo (`runCmds`); the result is
    what `Props/C16.lean` proves equal to the IR-free specification. -/
def handleProg (req : Json) (progJ : Array Json) : Except String Json := do
  let cs ← progJ.toList.mapM parseCmd
  let init ← req.getObjValAs? (Array Nat) "init"
  let g : Globals := fun i => init.getD i.val 0
  let r := runCmds Generated.CtxIR.managers cs ⟨g, []⟩
  return Json.mkObj [
    ("glob", toJson [r.1.glob 0, r.1.glob 1, r.1.glob 2]),
    ("log", toJson r.1.log),
    ("raised", toJson (r.2 == .exn))]

def handle (req : Json) : Json :=
  match (do
    if let .ok progJ := req.getObjValAs? (Array Json) "prog" then
      return ← handleProg req progJ
    let bsJ ← req.getObjValAs? (Array Json) "blocks"
    let bs ← bsJ.toList.mapM parseBlock
    let init ← req.getObjValAs? (Array Nat) "init"
    let g : Globals := fun i => init.getD i.val 0
    let w := runTop Generated.CtxIR.managers bs ⟨g, []⟩
    return Json.mkObj [
      ("glob", toJson [w.glob 0, w.glob 1, w.glob 2]),
      ("log", toJson w.log)]) with
  | .ok j => j
  | .error e => Json.mkObj [("error", e)]

end Drv.C16
