import Lean.Data.Json
import SpoxModel.Model.Ctx
import SpoxModel.Generated.CtxIR
/-! Line-protocol handler for C16: run a block history on the model (with the IR generated from
    /repo) and report the final settings and every snapshot. -/
namespace Drv.C16
open Lean Ctx

partial def parseBlock (j : Json) : Except String Block := do
  let which ← j.getObjValAs? Nat "which"
  let arg ← j.getObjValAs? Nat "arg"
  let raises ← j.getObjValAs? Bool "raises"
  let innerJ ← j.getObjValAs? (Array Json) "inner"
  let inner ← innerJ.toList.mapM parseBlock
  if h : which < 3 then
    return .withB ⟨which, h⟩ arg inner raises
  else throw "bad manager index"

def handle (req : Json) : Json :=
  match (do
    let bsJ ← req.getObjValAs? (Array Json) "blocks"
    let bs ← bsJ.toList.mapM parseBlock
    let init ← req.getObjValAs? (Array Nat) "init"
    let g : Globals := fun i => init.getD i.val 0
    let w := runTop Generated.CtxIR.managers bs ⟨g, []⟩
    return Json.mkObj [
      ("glob", toJson [w.glob 0, w.glob 1, w.glob 2]),
      ("log", toJson w.log)]) with
  | .ok j => j
  | .error e => Json.mkObj [("error", e)]

end Drv.C16
