import Lean.Data.Json
/-! Line-protocol handler for property C11 (model side of the correspondence). -/
namespace Drv.C11
open Lean

/-- One request (a JSON value) in, one response (a JSON value) out. -/
def handle (_req : Json) : Json := Json.mkObj [("error", "unimplemented")]

end Drv.C11
