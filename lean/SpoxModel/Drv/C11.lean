import Lean.Data.Json
import SpoxModel.Model.Emit
import SpoxModel.Model.Conform
import SpoxModel.Model.SchemaSel
/-! Line-protocol handler for C11 (model side of the correspondence).

`{"kind":"emit", …}`  : run `Emit.emitNode` on an explicit node instance (field kinds, presence,
                         minima) — compared with `Node.to_onnx` of the real node.
`{"kind":"call", …}`  : run the constructor-call model (`Conform.callAttrs`, `Conform.callInputs`,
                         then `Emit.emitNode`) on a constructor description and a set of supplied
                         arguments — compared with the NodeProto the real constructor produces. -/
namespace Drv.C11
open Lean Emit Conform

def parseArg (j : Json) : Except String (Arg String) := do
  let k ← j.getObjValAs? String "k"
  match k with
  | "s" => return .single (← j.getObjValAs? String "v")
  | "o" => match j.getObjVal? "v" with
    | .ok (Json.str s) => return .opt (some s)
    | _ => return .opt none
  | "v" => return .variadic (← j.getObjValAs? (List String) "v")
  | _ => throw "bad arg kind"

def parseAttr (j : Json) : Except String (Option (String × String)) :=
  match j with
  | Json.null => return none
  | Json.arr #[Json.str n, Json.str v] => return some (n, v)
  | _ => throw "bad attr"

def slotsJson (l : List (Option String)) : Json := toJson (l.map fun x => x.getD "")

def nodeJson (n : NodeOut String String) (req : String × Nat) : Json :=
  Json.mkObj [("op", n.opType), ("domain", n.domain), ("inputs", slotsJson n.inputs),
    ("outputs", slotsJson n.outputs),
    ("attrs", toJson (n.attrs.map fun a => [a.1, a.2])),
    ("opset", Json.arr #[req.1, req.2])]

def parseMins (req : Json) : Option (Nat × Nat) :=
  match req.getObjValAs? (List Nat) "mins" with
  | .ok [i, o] => some (i, o)
  | _ => none

def handleEmit (req : Json) : Except String Json := do
  let ins ← (← req.getObjValAs? (List Json) "inputs").mapM parseArg
  let outs ← (← req.getObjValAs? (List Json) "outputs").mapM parseArg
  let attrs ← (← req.getObjValAs? (List Json) "attrs").mapM parseAttr
  let n : NodeIn String String :=
    { opType := ← req.getObjValAs? String "op", domain := ← req.getObjValAs? String "domain",
      version := ← req.getObjValAs? Nat "version", mins := parseMins req,
      inputs := ins, outputs := outs, attrs := attrs }
  return nodeJson (emitNode n) (opsetReq n)

def parseVal (j : Json) : Except String Val := do
  let t ← j.getObjValAs? String "t"
  match t with
  | "none" => return .none
  | "int" => return .int (← j.getObjValAs? Int "v")
  | "float" => return .float (← j.getObjValAs? Nat "v")
  | "str" => return .str (← j.getObjValAs? String "v")
  | "ints" => return .ints (← j.getObjValAs? (List Int) "v")
  | "floats" => return .floats (← j.getObjValAs? (List Nat) "v")
  | "strs" => return .strs (← j.getObjValAs? (List String) "v")
  | "dtype" => return .dtype (← j.getObjValAs? String "v")
  | _ => return .other (← j.getObjValAs? String "v")

def valJson : Val → Json
  | .none => Json.mkObj [("t", "none")]
  | .int i => Json.mkObj [("t", "int"), ("v", toJson i)]
  | .float b => Json.mkObj [("t", "float"), ("v", toJson b)]
  | .str s => Json.mkObj [("t", "str"), ("v", s)]
  | .ints l => Json.mkObj [("t", "ints"), ("v", toJson l)]
  | .floats l => Json.mkObj [("t", "floats"), ("v", toJson l)]
  | .strs l => Json.mkObj [("t", "strs"), ("v", toJson l)]
  | .dtype n => Json.mkObj [("t", "dtype"), ("v", n)]
  | .other s => Json.mkObj [("t", "other"), ("v", s)]

def parseFieldKind : String → Except String FieldKind
  | "single" => pure .single | "optional" => pure .optional | "variadic" => pure .variadic
  | _ => throw "bad field kind"

def parseAttrKind : String → AttrKind
  | "float" => .float | "int" => .int | "string" => .string | "tensor" => .tensor
  | "graph" => .graph | "type" => .type | "floats" => .floats | "ints" => .ints
  | "strings" => .strings | "tensors" => .tensors | "dtype" => .dtype | _ => .unknown

def parseFields (j : Json) : Except String (List (String × FieldKind)) := do
  let l ← fromJson? (α := List (List String)) j
  l.mapM fun
    | [n, k] => do return (n, ← parseFieldKind k)
    | _ => throw "bad field"

def parseCtor (j : Json) : Except String Ctor := do
  let cj ← j.getObjVal? "cls"
  let cls : ClassSig :=
    { pyName := ← cj.getObjValAs? String "id", base := ← cj.getObjValAs? String "base",
      opName := ← cj.getObjValAs? String "opName", domain := ← cj.getObjValAs? String "domain",
      version := ← cj.getObjValAs? Nat "version",
      inputs := ← parseFields (← cj.getObjVal? "inputs"),
      outputs := ← parseFields (← cj.getObjVal? "outputs"), attrs := [] }
  let params ← (← j.getObjValAs? (List Json) "params").mapM fun p => do
    let d ← match p.getObjVal? "default" with
      | .ok Json.null => pure none
      | .ok dj => pure (some (← parseVal dj))
      | .error _ => pure none
    return ({ name := ← p.getObjValAs? String "name", kwOnly := ← p.getObjValAs? Bool "kwOnly",
              kind := .attr, default := d } : Param)
  let wires ← (← j.getObjValAs? (List Json) "attrWires").mapM fun w => do
    return ({ field := ← w.getObjValAs? String "field",
              kind := parseAttrKind (← w.getObjValAs? String "kind"),
              maybe := ← w.getObjValAs? Bool "maybe", onnxName := ← w.getObjValAs? String "onnxName",
              param := ← w.getObjValAs? String "param",
              viaSubgraph := ← w.getObjValAs? Bool "viaSubgraph" } : AttrWire)
  let iw ← (← j.getObjValAs? (List (List String)) "inputWires").mapM fun
    | [a, b] => pure (a, b)
    | _ => throw "bad input wire"
  return { pyName := ← j.getObjValAs? String "id", cls := cls, params := params, attrWires := wires,
           inputWires := iw, outVar := .none, ret := .unpack }

def handleCall (req : Json) : Except String Json := do
  let c ← parseCtor (← req.getObjVal? "ctor")
  let supJ ← req.getObjVal? "supplied"
  let supplied : String → Option Val := fun n =>
    match supJ.getObjVal? n with
    | .ok v => (parseVal v).toOption
    | .error _ => none
  let argJ ← req.getObjVal? "args"
  let args : String → Arg String := fun n =>
    match argJ.getObjVal? n with
    | .ok v => match parseArg v with
      | .ok a => a
      | .error _ => .opt none
    | .error _ => .opt none
  -- outputs: `_init_output_vars` (every declared output, `nvar` variadic ones), named by field key
  let nvar ← req.getObjValAs? Nat "nvar"
  let outs := initOutputs c.cls.outputs nvar
  let n : NodeIn String Val :=
    { opType := c.cls.opName, domain := c.cls.domain, version := c.cls.version,
      mins := parseMins req, inputs := callInputs c args, outputs := outs,
      attrs := callAttrs c supplied }
  let o := emitNode n
  return Json.mkObj [("op", o.opType), ("domain", o.domain), ("inputs", slotsJson o.inputs),
    ("outputs", slotsJson o.outputs),
    ("attrs", Json.arr (o.attrs.map fun a => Json.arr #[a.1, valJson a.2]).toArray),
    ("opset", Json.arr #[(opsetReq n).1, (opsetReq n).2])]

/-- `{"kind":"spell","ctor":…,"spelled":{attr: {"s":"omitted"|"none"|"bad"|"ok","v":<val>}}}` :
    `Conform.callAttrsE` — does the `Attributes(...)` expression raise, and if not, what is emitted. -/
def handleSpell (req : Json) : Except String Json := do
  let c ← parseCtor (← req.getObjVal? "ctor")
  let spJ ← req.getObjVal? "spelled"
  let spelled : String → Spell := fun n =>
    match spJ.getObjVal? n with
    | .ok j => match j.getObjValAs? String "s" with
      | .ok "none" => Spell.none
      | .ok "bad" => Spell.bad
      | .ok "ok" => match j.getObjVal? "v" with
        | .ok v => match parseVal v with
          | .ok x => Spell.ok x
          | .error _ => Spell.bad
        | .error _ => Spell.bad
      | _ => Spell.omitted
    | .error _ => Spell.omitted
  match callAttrsE c spelled with
  | none => return Json.mkObj [("raises", true)]
  | some l => return Json.mkObj [("raises", false),
      ("attrs", Json.arr ((emitAttrs l).map fun a => Json.arr #[a.1, valJson a.2]).toArray)]

/-- `{"kind":"inspell","ctor":…,"spelled":{input: {"s":"omitted"|"none"|"bad"|"var"|"vars","v":…}},"mins":[i,o]}` :
    `Conform.callInputsE` followed by `Emit.emitSlots`. -/
def handleInSpell (req : Json) : Except String Json := do
  let c ← parseCtor (← req.getObjVal? "ctor")
  let spJ ← req.getObjVal? "spelled"
  let spelled : String → InSpell String := fun n =>
    match spJ.getObjVal? n with
    | .ok j => match j.getObjValAs? String "s" with
      | .ok "none" => InSpell.none
      | .ok "bad" => InSpell.bad
      | .ok "var" => match j.getObjValAs? String "v" with
        | .ok v => InSpell.var v
        | .error _ => InSpell.bad
      | .ok "vars" => match j.getObjValAs? (List String) "v" with
        | .ok v => InSpell.vars v
        | .error _ => InSpell.bad
      | _ => InSpell.omitted
    | .error _ => InSpell.omitted
  let minI := match parseMins req with
    | some (i, _) => i
    | none => 0
  match callInputsE c spelled with
  | none => return Json.mkObj [("raises", true)]
  | some l => return Json.mkObj [("raises", false), ("inputs", slotsJson (emitSlots minI l))]

/-- `{"kind":"schemasel","sinces":[..],"version":n|null}` : `_current_schema` on schemas identified by their
    position in the list → `{"idx": position | -1}`. -/
def handleSchemaSel (req : Json) : Except String Json := do
  let sinces ← req.getObjValAs? (List Nat) "sinces"
  let version : Option Nat := match req.getObjVal? "version" with
    | .ok (Json.num n) => some n.mantissa.toNat
    | _ => none
  let l := (List.range sinces.length).zip sinces |>.map fun p => (p.2, p.1)
  match SchemaSel.currentSchema l version with
  | some s => return Json.mkObj [("idx", toJson (s.2 : Nat))]
  | none => return Json.mkObj [("idx", toJson (-1 : Int))]

/-- `{"kind":"schemasget","lists":[[name,[since..]]..],"queries":[[version,name]..]}` : the `SCHEMAS[domain]`
    table of one domain → `{"since":[since | -1 ..]}`. -/
def handleSchemasGet (req : Json) : Except String Json := do
  let listsJ ← req.getObjValAs? (Array Json) "lists"
  let lists ← listsJ.toList.mapM fun j => do
    let a ← (fromJson? j : Except String (Array Json))
    let n ← (fromJson? a[0]! : Except String String)
    let ss ← (fromJson? a[1]! : Except String (List Nat))
    pure (n, ss.map fun s => (s, ()))
  let qsJ ← req.getObjValAs? (Array Json) "queries"
  let ans ← qsJ.toList.mapM fun j => do
    let a ← (fromJson? j : Except String (Array Json))
    let v ← (fromJson? a[0]! : Except String Nat)
    let n ← (fromJson? a[1]! : Except String String)
    pure (match SchemaSel.schemasGet lists v n with
      | some s => (s.1 : Int)
      | none => -1)
  return Json.mkObj [("since", toJson ans)]

def handle (req : Json) : Json :=
  match (do
    let kind ← req.getObjValAs? String "kind"
    match kind with
    | "emit" => handleEmit req
    | "call" => handleCall req
    | "spell" => handleSpell req
    | "inspell" => handleInSpell req
    | "schemasel" => handleSchemaSel req
    | "schemasget" => handleSchemasGet req
    | _ => throw "unknown kind") with
  | .ok j => j
  | .error e => Json.mkObj [("error", e)]

end Drv.C11
