import Lean.Data.Json
import SpoxModel.Model.BuildAlg
import SpoxModel.Model.Bridge
import SpoxModel.Model.DfsMany
/-! Line-protocol handler for C04: run the `Builder` model on an abstract program and report
    `graph_topo`, `arguments_of`, `scope_of`, `scope_own`, the flattened nested emission, the
    structural-check verdict and the error class. Vertices: node `n` ↦ `n`, source of graph `g` ↦ `-1-g`. -/
namespace Drv.C04
open Lean BuildAlg

def parseNode (j : Json) : Except String PNode := do
  let a ← j.getObjValAs? Bool "a"
  let i ← j.getObjValAs? (List Nat) "i"
  let s ← j.getObjValAs? (List Nat) "s"
  return ⟨a, i, s⟩

def parseGraph (j : Json) : Except String PGraph := do
  let r ← j.getObjValAs? (List Nat) "res"
  let args : Option (List Nat) := match j.getObjValAs? (List Nat) "args" with
    | .ok l => some l
    | .error _ => none
  return ⟨args, r⟩

def parseProg (req : Json) : Except String Prog := do
  let ns ← req.getObjValAs? (Array Json) "nodes"
  let gs ← req.getObjValAs? (Array Json) "graphs"
  return ⟨← ns.toList.mapM parseNode, ← gs.toList.mapM parseGraph⟩

def vJ : V → Json
  | .node n => toJson (Int.ofNat n)
  | .src g => toJson (-1 - Int.ofNat g)

def evJ : Ev → Json
  | .enter g => toJson [Json.str "enter", toJson g]
  | .leave g => toJson [Json.str "leave", toJson g]
  | .arg a => toJson [Json.str "arg", toJson a]
  | .emit v => toJson [Json.str "emit", vJ v]

def errJ : Err → Json
  | .build why => Json.mkObj [("ok", false), ("err", "Build"), ("why", why)]
  | .scope => Json.mkObj [("ok", false), ("err", "Scope"), ("why", "second-introduction")]
  | .key => Json.mkObj [("ok", false), ("err", "Key"), ("why", "not-introduced")]
  | .fuel => Json.mkObj [("ok", false), ("err", "Fuel"), ("why", "model-out-of-fuel")]

/-- `spox.build(inputs, outputs, drop_unused_inputs=True)` on the same program: verdict and model inputs -/
def pubJ (p : Prog) (req : Json) : List (String × Json) :=
  match req.getObjValAs? (List Nat) "pub_inputs" with
  | .error _ => []
  | .ok inputs =>
    match publicBuild p inputs true with
    | .error (.build e) => [("pub", (errJ e))]
    | .error .missingInput => [("pub", Json.mkObj [("ok", false), ("err", "Key"), ("why", "missing-input")])]
    | .error .validation => [("pub", Json.mkObj [("ok", false), ("err", "Validation"), ("why", "checker")])]
    | .ok (_, tr, kept) =>
      [("pub", Json.mkObj [("ok", true), ("inputs", toJson kept),
                           ("struct_ok", structOk (p.withMainArgs none) tr [])])]

/-- round 10: `iterative_dfs(sources, adj, post_callback)` on an explicit graph (vertex = index into
    `adj`), answered by the model's `visitMany` = `visit` (the definition `visit_spec`, `emitted_iff_reachable`,
    `least_enclosing` … talk about) folded over the sources with one shared post-order/visited list. -/
def dfsJ (j : Json) : Json :=
  match j.getObjValAs? (List (List Nat)) "adj", j.getObjValAs? (List Nat) "sources" with
  | .ok adj, .ok sources =>
    let a : Nat → List Nat := fun v => (adj[v]?).getD []
    let post := visitMany a (adj.length + 2) sources []
    Json.mkObj [("post", toJson post)]
  | _, _ => Json.mkObj [("error", "dfs: adj/sources expected")]

def handle (req : Json) : Json :=
  match req.getObjVal? "dfs" with
  | .ok j => dfsJ j
  | .error _ =>
  match parseProg req with
  | .error e => Json.mkObj [("error", e)]
  | .ok p =>
    let wf := p.WFb
    match build p with
    | .error e => ((errJ e).setObjVal! "wf" wf).mergeObj (Json.mkObj (pubJ p req))
    | .ok (b, tr) =>
      Json.mkObj (([
        ("ok", true), ("wf", wf),
        ("graph_topo", toJson b.graphTopo),
        -- `scope_tree.subgraph_owner` (round 10; `owner_unique`)
        ("owner", toJson (b.owner.map (fun e => [e.1, e.2]))),
        ("args_of", toJson (b.graphTopo.map (fun g => (g, lookupL b.argsOf g)))),
        ("scope_of", Json.arr (b.scopeOf.map (fun e => Json.arr #[vJ e.1, toJson e.2])).toArray),
        ("scope_own", Json.arr (b.graphTopo.map (fun g =>
            Json.arr #[toJson g, Json.arr ((b.scopeOwn g).map vJ).toArray])).toArray),
        ("trace", Json.arr (tr.map evJ).toArray),
        ("struct_ok", structOk p tr []),
        -- the position of every emitted vertex as the ModelProto shows it (`placed_in_scope`)
        ("placed", Json.arr ((placed tr []).map (fun e => Json.arr #[vJ e.1, toJson e.2])).toArray),
        -- the bridge to the shared program model (C01): the emission as a `Prog.EGraph`
        ("bridge_valid", let q := Bridge.toProg p b.argsOf
                         Prog.validG q.nodes (Bridge.toEGraph p b) q.main []),
        ("leak_free", Bridge.leakFreeB p b),
        -- the static condition on the main graph (`build_valid_mainClean_checked`); cubic: small programs only
        ("main_clean", if p.nodes.length ≤ 400 then toJson (Bridge.mainCleanB p b) else Json.null),
        -- the lexical condition on the program alone (`build_valid_lexical_checked`)
        ("lexical", if p.nodes.length ≤ 400 then toJson (Bridge.lexicalB p) else Json.null),
        ("bridge_wf", Prog.wfCheck (Bridge.toProg p b.argsOf).nodes),
        ("bridge_same_emission", decide (Bridge.flatG (Bridge.toEGraph p b) = Bridge.flatTrace tr))] : List (String × Json))
        ++ pubJ p req)

end Drv.C04
