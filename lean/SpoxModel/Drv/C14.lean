import Lean.Data.Json
import SpoxModel.Model.Func
import SpoxModel.Model.FuncSem
import SpoxModel.Model.FuncProg
/-! Line-protocol handler for C14: (a) function collection + de-duplication on the structure of a real
    build, (b) the max opset policy for a function's imports, (c) direct vs ONNX reading of programs
    with function calls (integers; operator labels 0 add 1 sub 2 mul 3 neg 4 abs). -/
namespace Drv.C14
open Lean Func FuncSem

mutual
partial def parseFNode (j : Json) : Except String FNode := do
  match j with
  | .str "op" => return .op
  | _ =>
    match j.getObjVal? "call" with
    | .ok c =>
      let d ← c.getObjValAs? String "domain"
      let n ← c.getObjValAs? String "name"
      let fp ← c.getObjValAs? Nat "fp"
      let body ← parseFGraph (← c.getObjVal? "body")
      return .call (d, n) fp body
    | .error _ =>
      let subsJ ← j.getObjValAs? (Array Json) "ctrl"
      let subs ← subsJ.toList.mapM parseFGraph
      return .ctrl subs
partial def parseFGraph (j : Json) : Except String FGraph := do
  let nodesJ ← j.getObjValAs? (Array Json) "nodes"
  let nodes ← nodesJ.toList.mapM parseFNode
  return .mk nodes
end

partial def parseRGraph (j : Json) : Except String RGraph := do
  let nodesJ ← j.getObjValAs? (Array Json) "nodes"
  let nodes ← nodesJ.toList.mapM (fun nj => do
    let reqJ ← nj.getObjValAs? (Array Json) "req"
    let req ← reqJ.toList.mapM (fun p => do
      let x ← p.getArr?
      return (← (x[0]!).getStr?, ← (x[1]!).getNat?))
    let subsJ ← nj.getObjValAs? (Array Json) "subs"
    let subs ← subsJ.toList.mapM parseRGraph
    return RNode.mk req subs)
  return .mk nodes

def pairsOf (j : Json) : Except String (List (String × Nat)) := do
  let a ← j.getArr?
  a.toList.mapM (fun p => do
    let x ← p.getArr?
    return (← (x[0]!).getStr?, ← (x[1]!).getNat?))

mutual
partial def parsePNode (j : Json) : Except String PNode := do
  match j.getObjVal? "op" with
  | .ok r => return .op (← pairsOf r)
  | .error _ =>
    match j.getObjVal? "call" with
    | .ok c =>
      let own ← pairsOf (← c.getObjVal? "own")
      let d ← c.getObjValAs? String "domain"
      let n ← c.getObjValAs? String "name"
      let fp ← c.getObjValAs? Nat "fp"
      let body ← parsePGraph (← c.getObjVal? "body")
      return .call own (d, n) fp body
    | .error _ =>
      let c ← j.getObjVal? "ctrl"
      let r ← pairsOf (← c.getObjVal? "req")
      let subsJ ← c.getObjValAs? (Array Json) "subs"
      let subs ← subsJ.toList.mapM parsePGraph
      return .ctrl r subs
partial def parsePGraph (j : Json) : Except String PGraph := do
  let nodesJ ← j.getObjValAs? (Array Json) "nodes"
  let nodes ← nodesJ.toList.mapM parsePNode
  return .mk nodes
end

def instJson (e : Inst) : Json := Json.arr #[e.1.1, e.1.2, toJson e.2]
def pairJson (p : String × Nat) : Json := Json.arr #[p.1, toJson p.2]

def pairs (j : Json) (k : String) : Except String (List (String × Nat)) := do
  let a ← j.getObjValAs? (Array Json) k
  a.toList.mapM (fun p => do
    let x ← p.getArr?
    return (← (x[0]!).getStr?, ← (x[1]!).getNat?))

mutual
partial def parseSNode (j : Json) : Except String SNode := do
  let a ← j.getArr?
  let k ← (a[0]!).getStr?
  if k == "op" then
    let l ← (a[1]!).getNat?
    let ins ← fromJson? (a[2]!)
    return .op l ins
  else
    let inst ← parseSInst (a[1]!)
    let ins ← fromJson? (a[2]!)
    return .call inst ins
partial def parseSInst (j : Json) : Except String SInst := do
  let key ← j.getObjValAs? Nat "key"
  let out ← j.getObjValAs? (List Nat) "outs"
  let bodyJ ← j.getObjValAs? (Array Json) "body"
  let body ← bodyJ.toList.mapM parseSNode
  return .mk key body out
end

def semInt (l : Nat) (xs : List Int) : Int :=
  match l, xs with
  | 0, [a, b] => a + b
  | 1, [a, b] => a - b
  | 2, [a, b] => a * b
  | 3, [a] => -a
  | 4, [a] => Int.ofNat a.natAbs
  | _, _ => 0

def handle (req : Json) : Json :=
  match (do
    let k ← req.getObjValAs? String "k"
    match k with
    | "collect" =>
      let g ← parseFGraph (← req.getObjVal? "g")
      let used := (usedG g).map instJson
      match toModel g with
      | some tbl => return Json.mkObj [("functions", Json.arr (tbl.map instJson).toArray),
                                       ("collected", Json.arr ((collectG g).map instJson).toArray),
                                       ("used", Json.arr used.toArray)]
      | none => return Json.mkObj [("err", "runtime"), ("used", Json.arr used.toArray)]
    | "reqs" =>
      -- requirement collection of a (function body) build over nested bodies, and the imports from it
      let g ← parseRGraph (← req.getObjVal? "g")
      let model ← pairs req "model"
      let imp := funcImports (reqG g) (policy model)
      return Json.mkObj [("req", Json.arr ((reqG g).map pairJson).toArray),
                         ("imports", Json.arr (imp.map pairJson).toArray)]
    | "preq" =>
      -- the whole program as one requirement tree: what the program's build collects, every reachable
      -- function body with what ITS build collects and the imports computed from both
      let g ← parsePGraph (← req.getObjVal? "g")
      let extra ← pairs req "extra"
      let model := policy (preqG g ++ extra)
      let bodies := (bodiesG g).map (fun (eb : Inst × PGraph) =>
        Json.mkObj [("inst", instJson eb.1),
                    ("req", Json.arr ((preqG eb.2).map pairJson).toArray),
                    ("imports", Json.arr ((funcImports (preqG eb.2) model).map pairJson).toArray)])
      return Json.mkObj [("req", Json.arr ((preqG g).map pairJson).toArray),
                         ("model", Json.arr (model.map pairJson).toArray),
                         ("bodies", Json.arr bodies.toArray),
                         ("used", Json.arr ((usedG (toF g)).map instJson).toArray)]
    | "policy" =>
      let body ← pairs req "body"
      let model ← pairs req "model"
      let imp := funcImports body (policy model)
      return Json.mkObj [("imports", Json.arr (imp.map pairJson).toArray),
                         ("model", Json.arr ((policy model).map pairJson).toArray)]
    | "sem" =>
      let progJ ← req.getObjValAs? (Array Json) "prog"
      let prog ← progJ.toList.mapM parseSNode
      let env ← req.getObjValAs? (List Int) "env"
      let direct := evalNodes semInt 0 prog env
      match buildTable prog with
      | none => return Json.mkObj [("direct", toJson direct), ("err", "runtime")]
      | some tbl =>
        let onnx := evalO semInt 0 tbl (depthNs prog) (eraseNs prog) env
        return Json.mkObj [("direct", toJson direct), ("onnx", toJson onnx),
                           ("keys", toJson (tbl.map (fun (p : Nat × ODef) => p.1))), ("depth", toJson (depthNs prog))]
    | _ => throw "bad request kind") with
  | .ok j => j
  | .error e => Json.mkObj [("error", e)]

end Drv.C14
