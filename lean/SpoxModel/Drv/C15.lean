import Lean.Data.Json
import SpoxModel.Drv.VPCodec
/-! Line-protocol handler for property C15 (model side of the correspondence): conversions,
    `check` and node construction under a scripted backend, on the *fixed* variant unless the
    request says `"variant": "pinned"`. -/
namespace Drv.C15
open Lean

def handle (req : Json) : Json := Drv.VPCodec.handle req

end Drv.C15
