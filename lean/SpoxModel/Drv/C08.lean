import Lean.Data.Json
import SpoxModel.Model.Inline
import SpoxModel.Model.InlineSeq
/-! Line-protocol handler for property C08 (model side of the correspondence).

Request  `{"model": M, "call": {"npos": n, "kws": [..]}, "argTypes": [ty|"untyped"..]?, "ctx": C?,
           "pinned": bool?}`  or  `{"eval": G, "vals": [int..]}`.
Response: the outcome of every stage of `inline(m)(call)` + `_Inline.to_onnx` on the model. -/
namespace Drv.C08
open Lean Inline

def parseLit (j : Json) : Except String Lit := do
  let a ← j.getArr?
  let k ← (a.getD 0 Json.null).getStr?
  let i ← (a.getD 1 Json.null).getNat?
  if k == "d" then return .dense i else return .sparse i

def parseInit (j : Json) : Except String (String × Lit) := do
  let a ← j.getArr?
  let n ← (a.getD 0 Json.null).getStr?
  let k ← (a.getD 1 Json.null).getStr?
  let i ← (a.getD 2 Json.null).getNat?
  return (n, if k == "d" then .dense i else .sparse i)

mutual
partial def parseGraph (j : Json) : Except String Graph := do
  let inputs ← j.getObjValAs? (List String) "inputs"
  let initsJ ← j.getObjValAs? (Array Json) "inits"
  let inits ← initsJ.toList.mapM parseInit
  let nodesJ ← j.getObjValAs? (Array Json) "nodes"
  let nodes ← nodesJ.toList.mapM parseNode
  let outputs ← j.getObjValAs? (List String) "outputs"
  let vi ← j.getObjValAs? (List String) "vi"
  return .mk inputs inits nodes outputs vi
partial def parseNode (j : Json) : Except String Node := do
  let name ← j.getObjValAs? String "name"
  let domain ← j.getObjValAs? String "domain"
  let op ← j.getObjValAs? String "op"
  let attrs ← j.getObjValAs? String "attrs"
  let litJ := (j.getObjVal? "lit").toOption.getD Json.null
  let lit ← if litJ.isNull then pure none else (some <$> parseLit litJ)
  let ins ← j.getObjValAs? (List String) "ins"
  let outs ← j.getObjValAs? (List String) "outs"
  let subsJ ← j.getObjValAs? (Array Json) "subs"
  let subs ← subsJ.toList.mapM parseGraph
  return .mk name ⟨domain, op, attrs, lit⟩ ins outs subs
end

def parseDim (j : Json) : Dim :=
  match j with
  | .null => .unk
  | .str s => .sym s
  | _ => match j.getNat? with
    | .ok n => .known n
    | .error _ => .unk

partial def parseTy (j : Json) : Except String Ty := do
  if j.isNull then return .unknown
  match j.getObjVal? "t" with
  | .ok t =>
    let a ← t.getArr?
    let e ← (a.getD 0 Json.null).getNat?
    let sh := a.getD 1 Json.null
    if sh.isNull then return .tensor e none
    let ds ← sh.getArr?
    return .tensor e (some (ds.toList.map parseDim))
  | .error _ =>
    match j.getObjVal? "seq" with
    | .ok t => return .seq (← parseTy t)
    | .error _ =>
      match j.getObjVal? "opt" with
      | .ok t => return .opt (← parseTy t)
      | .error _ => throw "bad type"

def litJson : Lit → Json
  | .dense i => toJson [Json.str "d", toJson i]
  | .sparse i => toJson [Json.str "s", toJson i]

mutual
partial def graphJson : Graph → Json
  | .mk inputs inits nodes outputs vi => Json.mkObj [
      ("inputs", toJson inputs),
      ("inits", Json.arr (inits.map fun p =>
        Json.arr #[Json.str p.1, Json.str (if p.2.isDense then "d" else "s"),
          toJson (match p.2 with | .dense i => i | .sparse i => i)]).toArray),
      ("nodes", Json.arr (nodes.map nodeJson).toArray),
      ("outputs", toJson outputs), ("vi", toJson vi)]
partial def nodeJson : Node → Json
  | .mk name op ins outs subs => Json.mkObj [
      ("name", name), ("domain", op.domain), ("op", op.opType), ("attrs", op.attrs),
      ("lit", match op.lit with | none => Json.null | some l => litJson l),
      ("ins", toJson ins), ("outs", toJson outs),
      ("subs", Json.arr (subs.map graphJson).toArray)]
end

def dimJson : Dim → Json
  | .known n => toJson n
  | .sym s => Json.str s
  | .unk => Json.null

def tyJson : Ty → Json
  | .unknown => Json.null
  | .tensor e sh => Json.mkObj [("t", Json.arr #[toJson e,
      match sh with | none => Json.null | some ds => Json.arr (ds.map dimJson).toArray])]
  | .seq t => Json.mkObj [("seq", tyJson t)]
  | .opt t => Json.mkObj [("opt", tyJson t)]

def errJson : Err → Json
  | .typeError => "TypeError" | .valueError => "ValueError"
  | .scopeError => "ScopeError" | .buildError => "BuildError"

def slotJson : Slot → Json
  | .pos i => Json.arr #[Json.str "pos", toJson i]
  | .kw n => Json.arr #[Json.str "kw", Json.str n]
  | .dflt n => Json.arr #[Json.str "dflt", Json.str n]

def parseSpace (j : Json) : Except String Space := do
  let used ← j.getObjValAs? (List String) "used"
  let cj ← j.getObjValAs? (Array Json) "counters"
  let cs ← cj.toList.mapM fun p => do
    let a ← p.getArr?
    let b ← (a.getD 0 Json.null).getStr?
    let c ← (a.getD 1 Json.null).getNat?
    pure (b, c)
  return ⟨used, cs⟩

/-- current counters only (the first entry for each base) -/
def dedupCounters : List (String × Nat) → List (String × Nat) → List (String × Nat)
  | [], acc => acc.reverse
  | p :: ps, acc => if acc.any (·.1 == p.1) then dedupCounters ps acc else dedupCounters ps (p :: acc)

def spaceJson (s : Space) : Json := Json.mkObj [
  ("used", toJson s.used),
  ("counters", Json.arr ((dedupCounters s.counters []).map fun p =>
    Json.arr #[Json.str p.1, toJson p.2]).toArray)]

/-! a small integer interpreter for the evaluator correspondence (`V = Int`) -/
def intSem : OpSem Int := fun op ins bodies =>
  match op.opType, ins with
  | "Identity", [some a] => some [some a]
  | "Neg", [some a] => some [some (-a)]
  | "Abs", [some a] => some [some (Int.ofNat a.natAbs)]
  | "Add", [some a, some b] => some [some (a + b)]
  | "Sub", [some a, some b] => some [some (a - b)]
  | "Mul", [some a, some b] => some [some (a * b)]
  | "Max", [some a, some b] => some [some (max a b)]
  | "Less", [some a, some b] => some [some (if a < b then 1 else 0)]
  | "Constant", [] => match op.lit with
    | some (.dense i) => some [some (Int.ofNat i - 1000)]
    | some (.sparse i) => some [some (Int.ofNat i - 1000)]
    | none => none
  | "If", [some c] =>
    (match bodies with
     | [b0, b1] =>
       -- subgraphs come in attribute order; the attribute key records which is which
       if op.attrs.startsWith "else_branch" then (if c ≠ 0 then b1 [] else b0 [])
       else (if c ≠ 0 then b0 [] else b1 [])
     | _ => none)
  | _, _ => none

def intLit : Lit → Int
  | .dense i => Int.ofNat i - 1000
  | .sparse i => Int.ofNat i - 1000

def handleEval (req : Json) : Except String Json := do
  let g ← parseGraph (← req.getObjVal? "eval")
  let vals ← req.getObjValAs? (List Int) "vals"
  match evalModel intSem intLit g vals with
  | none => return Json.mkObj [("out", Json.null)]
  | some outs => return Json.mkObj [("out", Json.arr (outs.map fun o =>
      match o with | none => Json.null | some v => toJson v).toArray)]

/-- the premise of `C08.toOnnxSeq_total` on the node names -/
def pairwiseB {α : Type} (r : α → α → Bool) : List α → Bool
  | [] => true
  | a :: l => l.all (r a) && pairwiseB r l

def handleInline (req : Json) : Except String Json := do
  let mj ← req.getObjVal? "model"
  let g ← parseGraph (← mj.getObjVal? "graph")
  let hasF ← mj.getObjValAs? Bool "functions"
  let inT ← (← mj.getObjValAs? (Array Json) "inTypes").toList.mapM parseTy
  let outT ← (← mj.getObjValAs? (Array Json) "outTypes").toList.mapM parseTy
  let m : Model := ⟨g, hasF, [], inT, outT⟩
  let pinned := ((req.getObjValAs? Bool "pinned").toOption).getD false
  match prepare m with
  | .error e => return Json.mkObj [("prepare", errJson e)]
  | .ok p =>
    let mut out : List (String × Json) := [("prepare", Json.mkObj [
      ("inNames", toJson p.inNames), ("defaults", toJson p.defaults),
      ("outNames", toJson p.outNames),
      ("inTypes", Json.arr (p.inTypes.map tyJson).toArray),
      ("outTypes", Json.arr (p.outTypes.map tyJson).toArray),
      ("graph", graphJson p.graph)])]
    match req.getObjVal? "call" with
    | .error _ => pure ()
    | .ok cj =>
      let npos ← cj.getObjValAs? Nat "npos"
      let kws ← cj.getObjValAs? (List String) "kws"
      let posT ← (← cj.getObjValAs? (Array Json) "posTypes").toList.mapM parseTy
      let kwT ← (← cj.getObjValAs? (Array Json) "kwTypes").toList.mapM parseTy
      let r := if pinned then bindPinned p.inNames p.defaults ⟨npos, kws⟩
               else bind p.inNames p.defaults ⟨npos, kws⟩
      out := out ++ [("bind", match r with
        | .error e => errJson e
        | .ok slots => Json.arr (slots.map slotJson).toArray)]
      if !pinned then
        out := out ++ [("call", match call p ⟨npos, kws⟩ posT (kws.zip kwT) with
          | .error e => errJson e
          | .ok slots => Json.arr (slots.map slotJson).toArray)]
    match req.getObjVal? "ctx" with
    | .error _ => pure ()
    | .ok xj =>
      let c : Ctx := {
        nodeName := ← xj.getObjValAs? String "nodeName"
        argNames := ← xj.getObjValAs? (List String) "argNames"
        resNames := ← xj.getObjValAs? (List String) "resNames"
        var := ← parseSpace (← xj.getObjVal? "var")
        node := ← parseSpace (← xj.getObjVal? "node") }
      let r := if pinned then toOnnxPinned c p.graph else toOnnx c p.graph
      match req.getObjVal? "adapt", r with
      | .ok aj, .ok em =>
        let varNames ← aj.getObjValAs? (List String) "varNames"
        -- all opset imports of the inlined model as [domain, version] pairs; the model filters them
        let importsAll ← aj.getObjValAs? (List (String × Nat)) "importsAll"
        let imports := defaultImports importsAll
        let target ← aj.getObjValAs? Nat "target"
        let convJ := (aj.getObjVal? "converted").toOption.getD Json.null
        let conv ← if convJ.isNull then pure p.graph else parseGraph convJ
        out := out ++ [("adapt", match adaptInline (fun _ => conv) c varNames p.graph em.nodes imports target with
          | .error e => errJson e
          | .ok ns => Json.mkObj [("nodes", Json.arr (ns.map nodeJson).toArray),
              ("converts", toJson (needsConversion (em.nodes.map fun n => n.op.domain) imports target)),
              ("convInits", toJson (conv.inits.length)),
              ("contract", toJson (contractCheck conv p.graph))])]
      | _, _ => pure ()
      out := out ++ [("prefixFree", toJson (c.var.prefixFree c.nodeName && c.node.prefixFree c.nodeName))]
      out := out ++ [("emit", match r with
        | .error e => errJson e
        | .ok em => Json.mkObj [
            ("nodes", Json.arr (em.nodes.map nodeJson).toArray),
            ("var", spaceJson em.var), ("node", spaceJson em.node)])]
    -- several Inline nodes emitted one after the other in ONE scope (`toOnnxSeq`, theorem `inline_compose`)
    match req.getObjVal? "seq" with
    | .error _ => pure ()
    | .ok sj =>
      let var ← parseSpace (← sj.getObjVal? "var")
      let node ← parseSpace (← sj.getObjVal? "node")
      let sitesJ ← sj.getObjValAs? (Array Json) "sites"
      let mut sites : List Site := []
      for j in sitesJ.toList do
        let k ← j.getObjValAs? String "nodeName"
        let a ← j.getObjValAs? (List String) "argNames"
        let r ← j.getObjValAs? (List String) "resNames"
        -- a site may carry its own model graph (another inlined model); default: the request's model
        let sg ← match j.getObjVal? "graph" with
          | .ok gj => parseGraph gj
          | .error _ => pure g
        sites := sites ++ [Site.mk sg k a r]
      let safe := pairwiseB (fun s t => incomp (s.nodeName ++ "__") (t.nodeName ++ "__")) sites &&
        sites.all (fun s => var.prefixFree s.nodeName && node.prefixFree s.nodeName)
      out := out ++ [("seqSafe", toJson safe)]
      out := out ++ [("seq", match toOnnxSeq sites var node with
        | .error e => errJson e
        | .ok (ns, v, n) => Json.mkObj [
            ("nodes", Json.arr (ns.map nodeJson).toArray),
            ("var", spaceJson v), ("node", spaceJson n)])]
    return Json.mkObj out

def handleNames (req : Json) : Except String Json := do
  let j ← req.getObjVal? "nameData"
  let k ← j.getObjValAs? String "k"
  let d : NameData := {
    users := ← j.getObjValAs? (List String) "users"
    varBases := ← j.getObjValAs? (List String) "varBases"
    inlines := ← j.getObjValAs? (List String) "inlines"
    nodeNames := ← j.getObjValAs? (List String) "nodeNames" }
  return Json.mkObj [("safe", toJson (d.safe k))]

/-- One request (a JSON value) in, one response (a JSON value) out. -/
def handle (req : Json) : Json :=
  let r := match req.getObjVal? "eval" with
    | .ok _ => handleEval req
    | .error _ =>
      match req.getObjVal? "nameData" with
      | .ok _ => handleNames req
      | .error _ => handleInline req
  match r with
  | .ok j => j
  | .error e => Json.mkObj [("error", e)]

end Drv.C08
