import Lean.Data.Json
import SpoxModel.Model.Opset
import SpoxModel.Model.OpsetQualify
import SpoxModel.Model.OpsetInits
/-! Line-protocol handler for property C09 (model side of the correspondence).

Requests (`t`):
* `policy`  `{reqs:[[d,v]…]}`                → `{policy:[[d,v]…]}`             (`max_opset_policy`)
* `since`   `{d,o,v}`                        → `{since: n | null}`             (generated SCHEMAS lookup)
* `accepts` `{d,o,s,v}`                      → `{accepts: bool}`
* `model`   `{graph: G}`                     → imports, every node's opsets and decision, function imports
  with `G = {nodes:[N…]}`, `N = {k, d, o, v, np, c, subs:[G…], id, imports, hd}`.
* `qualify` `{p, ins:[s…], outs:[s…], nodes:[{ins:[s…], outs:[s…]}…]}` → `{nodes:[{ins,outs}…], introduced:[s…], endsClean: bool, noSep:[bool…]}`
  (the renaming step of `adapt_node`, `Opset.Qualify.qualify`; `endsClean` = `endsCleanB p`, `noSep` = `noSepB` of every introduced name)
* `inits`   `{inputs:[s…], inits:[s…], n}` → `{inputs, inits, nodes:[["c",name]|["o",k]…]}` (`_initializers_to_constants`
  on a graph with `n` original nodes)
-/
namespace Drv.C09
open Lean Opset

def opId (d name : String) : Nat :=
  match Generated.OpsetFacts.opNames.idxOf? (fold d, name) with
  | some i => i
  | none => Generated.OpsetFacts.opNames.length

def parseReq (j : Json) : Except String Req := do
  let a ← j.getArr?
  let d ← (a.getD 0 Json.null).getStr?
  let v ← (a.getD 1 Json.null).getNat?
  return (d, v)

def parseReqs (j : Json) : Except String (List Req) := do
  let a ← j.getArr?
  a.toList.mapM parseReq

mutual
partial def parseNode (j : Json) : Except String PNode := do
  let k ← j.getObjValAs? String "k"
  let np := (j.getObjValAs? Nat "np").toOption.getD 1
  let c := (j.getObjValAs? Bool "c").toOption.getD true
  let id := (j.getObjValAs? Nat "id").toOption.getD 0
  let subsJ := (j.getObjValAs? (Array Json) "subs").toOption.getD #[]
  let subs ← subsJ.toList.mapM parseGraph
  let d := (j.getObjValAs? String "d").toOption.getD ""
  let v := (j.getObjValAs? Nat "v").toOption.getD 0
  let kind ← match k with
    | "internal" => pure Kind.internal
    | "intro" => pure Kind.intro
    | "introopt" => pure Kind.introOpt
    | "inline" => do
        let imps ← parseReqs (← j.getObjVal? "imports")
        let hd ← j.getObjValAs? Bool "hd"
        pure (Kind.inline imps hd)
    | "op" => do
        let o ← j.getObjValAs? String "o"
        pure (Kind.op d (opId d o) v)
    | "func" => pure (Kind.func d v ((j.getObjValAs? String "nm").toOption.getD ""))
    | _ => throw s!"bad kind {k}"
  return .mk kind np c subs id
partial def parseGraph (j : Json) : Except String PGraph := do
  let ns ← j.getObjValAs? (Array Json) "nodes"
  return .mk (← ns.toList.mapM parseNode)
end

def reqsJson (l : List Req) : Json := Json.arr (l.map (fun r => Json.arr #[Json.str r.1, toJson r.2])).toArray

def decJson : Decision → List (String × Json)
  | .keepInline => [("dec", "keepInline")]
  | .convertInline s t => [("dec", "convertInline"), ("src", toJson s), ("tgt", toJson t)]
  | .keepInternal => [("dec", "keepInternal")]
  | .keepProtos => [("dec", "keepProtos")]
  | .keepSubgraph => [("dec", "keepSubgraph")]
  | .keepSameVersion => [("dec", "keepSameVersion")]
  | .keepSameSchema => [("dec", "keepSameSchema")]
  | .keepNonDefault s t => [("dec", "keepNonDefault"), ("src", toJson s), ("tgt", toJson t)]
  | .convert s t => [("dec", "convert"), ("src", toJson s), ("tgt", toJson t)]
  | .convertError s t => [("dec", "convertError"), ("src", toJson s), ("tgt", toJson t)]
  | .pyError => [("dec", "pyError")]

/-- for a converted node: the old form is not accepted at the target (the converter has to change it) -/
def mustChangeJson (e : Entry) : List (String × Json) :=
  match e.node.kind, e.decision with
  | .op d o v, .convert _ t => [("mustChange", toJson (!genAccepts (fold d) o v t))]
  | _, _ => []

def entryJson (e : Entry) : Json :=
  Json.mkObj ([("id", toJson e.node.id), ("opsets", reqsJson e.opsets),
               ("qualified", toJson true)] ++ decJson e.decision ++ mustChangeJson e)

def parseStrs (j : Json) : Except String (List Qualify.Nm) := do
  let a ← j.getArr?
  a.toList.mapM (fun x => do return (← x.getStr?).toList)

def parseQNode (j : Json) : Except String Qualify.QNode := do
  return ⟨← parseStrs (← j.getObjVal? "ins"), ← parseStrs (← j.getObjVal? "outs")⟩

def strsJson (l : List Qualify.Nm) : Json := Json.arr (l.map (fun n => Json.str (String.ofList n))).toArray

def handle (req : Json) : Json :=
  match (do
    let t ← req.getObjValAs? String "t"
    match t with
    | "policy" =>
        let reqs ← parseReqs (← req.getObjVal? "reqs")
        return Json.mkObj [("policy", reqsJson (policy reqs))]
    | "since" =>
        let d ← req.getObjValAs? String "d"
        let o ← req.getObjValAs? String "o"
        let v ← req.getObjValAs? Nat "v"
        return Json.mkObj [("since", match genSchemaSince (fold d) (opId d o) v with
                                      | some s => toJson s | none => Json.null)]
    | "accepts" =>
        let d ← req.getObjValAs? String "d"
        let o ← req.getObjValAs? String "o"
        let s ← req.getObjValAs? Nat "s"
        let v ← req.getObjValAs? Nat "v"
        return Json.mkObj [("accepts", toJson (genAccepts (fold d) (opId d o) s v))]
    | "model" =>
        let g ← parseGraph (← req.getObjVal? "graph")
        let extra ← match req.getObjVal? "extra" with
          | .ok j => parseReqs j
          | .error _ => pure []
        let m := buildModelWith genFacts extra g
        return Json.mkObj [
          ("imports", reqsJson m.imports),
          ("main", Json.arr (m.main.map entryJson).toArray),
          ("funcs", Json.arr (m.funcs.map (fun (f : List Req × List Entry) =>
              Json.mkObj [("imports", reqsJson f.1), ("entries", Json.arr (f.2.map entryJson).toArray)])).toArray),
          ("funcKeys", Json.arr ((funcKeysOfGraph g).map (fun (k : FKey) => Json.arr #[Json.str k.1, Json.str k.2])).toArray),
          ("merged", match emittedFunctions genFacts extra g with
                     | none => Json.null
                     | some r => Json.arr (r.map (fun (p : FKey × FuncDef) => Json.arr #[Json.str p.1.1, Json.str p.1.2])).toArray)]
    | "qualify" =>
        let p := (← req.getObjValAs? String "p").toList
        let ins ← parseStrs (← req.getObjVal? "ins")
        let outs ← parseStrs (← req.getObjVal? "outs")
        let nodes ← (← (← req.getObjVal? "nodes").getArr?).toList.mapM parseQNode
        return Json.mkObj [
          ("nodes", Json.arr ((Qualify.qualify p ins outs nodes).map (fun (nd : Qualify.QNode) =>
              Json.mkObj [("ins", strsJson nd.ins), ("outs", strsJson nd.outs)])).toArray),
          ("introduced", strsJson (Qualify.introduced (ins ++ outs) nodes).eraseDups),
          ("endsClean", toJson (Qualify.endsCleanB p)),
          ("noSep", Json.arr ((Qualify.introduced (ins ++ outs) nodes).eraseDups.map (fun n => toJson (Qualify.noSepB n))).toArray)]
    | "inits" =>
        let inputs ← parseStrs (← req.getObjVal? "inputs")
        let inits ← parseStrs (← req.getObjVal? "inits")
        let n ← req.getObjValAs? Nat "n"
        let r := Inits.toConstants ⟨inputs, inits, (List.range n).map Inits.INode.orig⟩
        return Json.mkObj [
          ("inputs", strsJson r.inputs), ("inits", strsJson r.inits),
          ("nodes", Json.arr (r.nodes.map (fun (nd : Inits.INode) => match nd with
              | .const nm => Json.arr #[Json.str "c", Json.str (String.ofList nm)]
              | .orig k => Json.arr #[Json.str "o", toJson k])).toArray)]
    | _ => throw s!"unknown request {t}") with
  | .ok j => j
  | .error e => Json.mkObj [("error", e)]

end Drv.C09
