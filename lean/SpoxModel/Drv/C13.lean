import Lean.Data.Json
import SpoxModel.Model.Types
import SpoxModel.Model.TypesGlue
import SpoxModel.Generated.Dtypes
/-! Line-protocol handler for C13: runs the model's `subtype`, `Shape.le`, `broadcast`, `toOnnx`,
    `fromOnnx`, `compat`, `npBroadcast` on batches of types / shapes (with the generated table).

    Encoding: dimension = number | string (named) | null (anonymous); shape = null | [dims];
    type = ["any"] | ["t", classId, shape] | ["s", type] | ["o", type];
    proto = ["empty"] | ["t", code, null | [number | string (dim_param) | null (unset)]] | ["s", p] | ["o", p]. -/
namespace Drv.C13
open Lean Types

def tbl : DtypeTable := Generated.Dtypes.table

def parseDim (j : Json) : Except String Natural :=
  match j with
  | .null => pure (.unk "")
  | .str s => pure (.unk s)
  | .num _ => do let n ← fromJson? (α := Nat) j; pure (.const n)
  | _ => throw "bad dim"

def parseShape (j : Json) : Except String Shape :=
  match j with
  | .null => pure none
  | .arr a => do let ds ← a.toList.mapM parseDim; pure (some ds)
  | _ => throw "bad shape"

partial def parseTy (j : Json) : Except String Ty := do
  let a ← fromJson? (α := Array Json) j
  match a.toList with
  | [.str "any"] => pure .any
  | [.str "t", e, s] => do
      let e ← fromJson? (α := Nat) e
      let s ← parseShape s
      pure (.tensor e s)
  | [.str "s", t] => do pure (.seq (← parseTy t))
  | [.str "o", t] => do pure (.opt (← parseTy t))
  | _ => throw "bad type"

def parseDimP (j : Json) : Except String DimP :=
  match j with
  | .null => pure .unset
  | .str s => pure (.param s)
  | .num _ => do let n ← fromJson? (α := Nat) j; pure (.value n)
  | _ => throw "bad proto dim"

partial def parseProto (j : Json) : Except String TypeProto := do
  let a ← fromJson? (α := Array Json) j
  match a.toList with
  | [.str "empty"] => pure .empty
  | [.str "t", c, s] => do
      let c ← fromJson? (α := Nat) c
      match s with
      | .null => pure (.tensor c none)
      | .arr ds => do pure (.tensor c (some (← ds.toList.mapM parseDimP)))
      | _ => throw "bad proto shape"
  | [.str "s", t] => do pure (.seq (← parseProto t))
  | [.str "o", t] => do pure (.opt (← parseProto t))
  | _ => throw "bad proto"

def parseSDim (j : Json) : Except String SDim :=
  match j with
  | .null => pure .none
  | .str s => pure (.str s)
  | .num _ => do let n ← fromJson? (α := Nat) j; pure (.int n)
  | _ => throw "bad simple dim"

def parseSimple (j : Json) : Except String SimpleShape :=
  match j with
  | .null => pure none
  | .arr a => do let ds ← a.toList.mapM parseSDim; pure (some ds)
  | _ => throw "bad simple shape"

/-- `["shape", s]` = a `Shape` object, `["simple", s]` = anything else (tuple / list / `None`). -/
def parseArg (j : Json) : Except String ShapeArg := do
  let a ← fromJson? (α := Array Json) j
  match a.toList with
  | [.str "shape", s] => do pure (.shape (← parseShape s))
  | [.str "simple", s] => do pure (.simple (← parseSimple s))
  | _ => throw "bad shape argument"

def sdimJ : SDim → Json
  | .int n => toJson n
  | .str s => Json.str s
  | .none => Json.null

def simpleJ : SimpleShape → Json
  | none => Json.null
  | some ds => Json.arr (ds.map sdimJ).toArray

def dimJ : Natural → Json
  | .const n => toJson n
  | .unk l => if l = "" then Json.null else Json.str l

def shapeJ : Shape → Json
  | none => Json.null
  | some ds => Json.arr (ds.map dimJ).toArray

def tyJ : Ty → Json
  | .any => Json.arr #[Json.str "any"]
  | .tensor e s => Json.arr #[Json.str "t", toJson e, shapeJ s]
  | .seq t => Json.arr #[Json.str "s", tyJ t]
  | .opt t => Json.arr #[Json.str "o", tyJ t]

def dimPJ : DimP → Json
  | .value n => toJson n
  | .param s => Json.str s
  | .unset => Json.null

def protoJ : TypeProto → Json
  | .empty => Json.arr #[Json.str "empty"]
  | .tensor c sh => Json.arr #[Json.str "t", toJson c,
      match sh with | none => Json.null | some ds => Json.arr (ds.map dimPJ).toArray]
  | .seq t => Json.arr #[Json.str "s", protoJ t]
  | .opt t => Json.arr #[Json.str "o", protoJ t]

def optJ (f : α → Json) : Option α → Json
  | none => Json.null
  | some x => f x

def bits (l : List Bool) : String := String.ofList (l.map (fun b => if b then '1' else '0'))

def matrix (xs : List α) (f : α → α → Bool) : String :=
  bits (xs.flatMap (fun a => xs.map (fun b => f a b)))

def handleE (req : Json) : Except String Json := do
  let op ← req.getObjValAs? String "op"
  match op with
  | "sub" =>
      let ts ← (← req.getObjValAs? (Array Json) "types").toList.mapM parseTy
      pure (Json.mkObj [("sub", matrix ts (subtype tbl)), ("compat", matrix ts compat)])
  | "le" =>
      let ss ← (← req.getObjValAs? (Array Json) "shapes").toList.mapM parseShape
      pure (Json.mkObj [("le", matrix ss Shape.le)])
  | "bc" =>
      let ss ← (← req.getObjValAs? (Array Json) "shapes").toList.mapM parseShape
      let out := ss.flatMap (fun a => ss.map (fun b =>
        match broadcast a b with
        | none => Json.str "ShapeError"
        | some c => Json.arr #[shapeJ c]))
      pure (Json.mkObj [("bc", Json.arr out.toArray)])
  | "bcs" =>
      -- Shape.broadcast / can_broadcast with the operand in a given spelling: items [self, arg]
      let items ← (← req.getObjValAs? (Array Json) "items").toList.mapM (fun j => do
        let a ← fromJson? (α := Array Json) j
        match a.toList with
        | [s, o] => do pure ((← parseShape s), (← parseArg o))
        | _ => throw "bad item")
      let out := items.map (fun (s, o) =>
        Json.mkObj [("bc", match broadcastArg s o with
                           | none => Json.str "ShapeError"
                           | some c => Json.arr #[shapeJ c]),
                    ("can", toJson (canBroadcast s o))])
      pure (Json.mkObj [("bcs", Json.arr out.toArray)])
  | "call" =>
      -- inline call boundary: items {decl: [[name, ty]], dflt: [[name, ty]], pos: [ty], kw: [[name, ty]]}
      let named (j : Json) : Except String (String × Ty) := do
        let a ← fromJson? (α := Array Json) j
        match a.toList with
        | [.str n, t] => do pure (n, (← parseTy t))
        | _ => throw "bad named type"
      let items ← (← req.getObjValAs? (Array Json) "items").toList.mapM (fun j => do
        let decl ← (← j.getObjValAs? (Array Json) "decl").toList.mapM named
        let dflt ← (← j.getObjValAs? (Array Json) "dflt").toList.mapM named
        let pos ← (← j.getObjValAs? (Array Json) "pos").toList.mapM parseTy
        let kw ← (← j.getObjValAs? (Array Json) "kw").toList.mapM named
        pure (decl, dflt, pos, kw))
      pure (Json.mkObj [("call", Json.arr (items.map (fun (decl, dflt, pos, kw) =>
        toJson (callAccepted tbl decl dflt pos kw))).toArray)])
  | "rank" =>
      let ss ← (← req.getObjValAs? (Array Json) "shapes").toList.mapM parseShape
      pure (Json.mkObj [("rank", Json.arr (ss.map (fun x => optJ (fun (n : Nat) => toJson n) (Shape.maybeRank x))).toArray)])
  | "simple" =>
      -- Shape.from_simple(x).to_simple()
      let ss ← (← req.getObjValAs? (Array Json) "shapes").toList.mapM parseSimple
      pure (Json.mkObj [("simple", Json.arr (ss.map (fun x =>
        Json.arr #[simpleJ (Shape.toSimple (Shape.fromSimple x))])).toArray)])
  | "rt" =>
      let ts ← (← req.getObjValAs? (Array Json) "types").toList.mapM parseTy
      let out := ts.map (fun t =>
        let p := toOnnx tbl t
        Json.mkObj [("p", optJ protoJ p), ("t", optJ tyJ (p.bind (fromOnnx tbl)))])
      pure (Json.mkObj [("rt", Json.arr out.toArray)])
  | "from" =>
      let ps ← (← req.getObjValAs? (Array Json) "protos").toList.mapM parseProto
      pure (Json.mkObj [("from", Json.arr (ps.map (fun p => optJ tyJ (fromOnnx tbl p))).toArray)])
  | "np" =>
      let ss ← (← req.getObjValAs? (Array (Array Nat)) "shapes").toList.mapM (fun a => pure a.toList)
      let out := ss.flatMap (fun a => ss.map (fun b => optJ (fun (l : List Nat) => toJson l) (npBroadcast a b)))
      pure (Json.mkObj [("np", Json.arr out.toArray)])
  | "glue" =>
      -- round 10: Shape.__getitem__ (int indices), __bool__, shape[-1-i] or 1, unwrap_*, _is_concrete
      let ts ← (← req.getObjValAs? (Array Json) "types").toList.mapM parseTy
      let ss ← (← req.getObjValAs? (Array Json) "shapes").toList.mapM parseShape
      let idx ← (← req.getObjValAs? (Array Json) "idx").toList.mapM (fun j => fromJson? (α := Int) j)
      let nr ← req.getObjValAs? Nat "nrdim"
      let unw (t : Ty) (r : Option Ty) : Json :=
        match r with
        | none => Json.str "TypeError"
        | some t' => Json.str (if t' == t then "self" else "other")
      let tout := ts.map (fun t => Json.mkObj [("tensor", unw t (unwrapTensor t)), ("sequence", unw t (unwrapSeq t)),
        ("optional", unw t (unwrapOpt t)), ("concrete", toJson (isConcrete t))])
      let sout := ss.map (fun s => Json.mkObj [("truthy", toJson (Shape.truthy s)),
        ("items", Json.arr (idx.map (fun i =>
          match s with
          | none => Json.str "ShapeError"
          | some _ => (match Shape.getItem s i with
                       | none => Json.str "IndexError"
                       | some d => Json.arr #[dimJ d]))).toArray),
        ("rdim", match s with
                 | none => Json.null
                 | some l => Json.arr ((List.range nr).map (fun i => dimJ (rdim l i))).toArray)])
      pure (Json.mkObj [("types", Json.arr tout.toArray), ("shapes", Json.arr sout.toArray)])
  | _ => throw "unknown op"

/-- One request (a JSON value) in, one response (a JSON value) out. -/
def handle (req : Json) : Json :=
  match handleE req with
  | .ok j => j
  | .error e => Json.mkObj [("error", e)]

end Drv.C13
