import Lean.Data.Json
import SpoxModel.Model.Renames
import SpoxModel.Generated.RenamesIR
/-! Line-protocol handler for C12: run `with _temporary_renames(**kw): body` on the model (IR
    generated from /repo) and report every Var's `_name` inside the block and afterwards. -/
namespace Drv.C12
open Lean Renames

def storeOf (init : List (Nat × String)) : Store :=
  fun v => (init.find? (fun e => e.1 == v)).map (·.2)

def names (n : Nat) (s : Store) : Json :=
  Json.arr ((List.range n).map (fun v => match s v with | some x => Json.str x | none => Json.null)).toArray

def pair (j : Json) : Except String (String × Nat) :=
  match j with
  | .arr #[k, v] => do return ((← fromJson? k), (← fromJson? v))
  | _ => throw "bad kw entry"

def spair (j : Json) : Except String (Nat × String) :=
  match j with
  | .arr #[k, v] => do return ((← fromJson? k), (← fromJson? v))
  | _ => throw "bad store entry"

def handle (req : Json) : Json :=
  match (do
    let n ← req.getObjValAs? Nat "n"
    let kw ← (← req.getObjValAs? (List Json) "kw").mapM pair
    let st ← (← req.getObjValAs? (List Json) "store").mapM spair
    let raises ← req.getObjValAs? Bool "raises"
    let (s1, o, inside) := run Generated.RenamesIR.ir kw
      (fun s => (s, (if raises then Outcome.exn else Outcome.ok), s)) (storeOf st)
    return Json.mkObj [
      ("inside", match inside with | some s => names n s | none => Json.null),
      ("after", names n s1),
      ("raised", Json.bool (o == Outcome.exn))]) with
  | .ok j => j
  | .error e => Json.mkObj [("error", e)]

end Drv.C12
