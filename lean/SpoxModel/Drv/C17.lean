import Lean.Data.Json
import SpoxModel.Model.Dispatch
import SpoxModel.Generated.ResultType
/-! Line-protocol handler for C17.

    request  {"settings": null | [tp, cp], "op": "add" | … , "a": operand, "b": operand,
              optional "xs": [ints], "ys": [ints]}
    operand  ["var", d] | ["int", v] | ["float"] | ["bool", b] | ["np", d] | ["other"]
    answer   {"err": "TypeError" | "OverflowError" | "InferenceError"}
           | {"tree": "<expression>", "dtype": d, optional "vals": [[int | null]]}   (eval over xs × ys) -/
namespace Drv.C17
open Lean Dispatch

def np : NpInfo := Generated.ResultType.info

def parseOperand (j : Json) : Except String Operand := do
  let a ← fromJson? (α := Array Json) j
  match a.toList with
  | [.str "var", d] => do pure (.var (← fromJson? (α := Nat) d))
  | [.str "int", v] => do pure (.pyInt (← fromJson? (α := Int) v))
  | [.str "float"] => pure .pyFloat
  | [.str "bool", b] => do pure (.pyBool (← fromJson? (α := Bool) b))
  | [.str "np", d] => do pure (.npScalar (← fromJson? (α := Nat) d))
  | [.str "other"] => pure .other
  | _ => throw "bad operand"

def parseOp : String → Except String Op
  | "add" => pure .add | "sub" => pure .sub | "mul" => pure .mul | "truediv" => pure .truediv
  | "floordiv" => pure .floordiv | "neg" => pure .neg | "and_" => pure .and_ | "or_" => pure .or_
  | "xor" => pure .xor | "not_" => pure .not_
  | _ => throw "bad op"

def render : Tree → String
  | .arg i => s!"arg{i}"
  | .cast to t => s!"Cast[{to}]({render t})"
  | .constOf i dt => s!"Constant[{dt}:#{i}]"
  | .zero dt => s!"Constant[{dt}:0]"
  | .un op t => s!"{op.name}({render t})"
  | .bin op l r => s!"{op.name}({render l},{render r})"

def errName : Err → String
  | .typeError => "TypeError" | .overflowError => "OverflowError" | .inferenceError => "InferenceError"

/-- an option of the call: `null` = omitted -/
def parseOpt (j : Json) : Except String (Option Bool) :=
  match j with
  | .null => pure none
  | _ => do pure (some (← fromJson? (α := Bool) j))

/-- `["b", [tp | null, cp | null], body]`: the call as written (an omitted option takes the generated default) -/
partial def parseScoped (j : Json) : Except String Scoped :=
  match j with
  | .str "p" => pure .probe
  | .arr #[.str "b", .arr #[tp, cp], .arr body] => do
      let c : OOCall := ⟨← parseOpt tp, ← parseOpt cp⟩
      let body ← body.toList.mapM parseScoped
      pure (.block (c.settings Generated.ResultType.ooDefaults) body)
  | _ => throw "bad scoped program"

def settingsJ : Option (Bool × Bool) → Json
  | none => Json.null
  | some (tp, cp) => Json.arr #[toJson tp, toJson cp]

def handleE (req : Json) : Except String Json := do
  if let .ok (.arr prog) := req.getObjVal? "scoped" then
    let nodes ← prog.toList.mapM parseScoped
    return Json.mkObj [("probes", Json.arr ((probesList none nodes).map settingsJ).toArray)]
  let settings : Option (Bool × Bool) ←
    match req.getObjVal? "settings" with
    | .ok (.arr #[tp, cp]) => do pure (some (← fromJson? (α := Bool) tp, ← fromJson? (α := Bool) cp))
    | _ => pure none
  let op ← parseOp (← req.getObjValAs? String "op")
  let a ← parseOperand (← req.getObjVal? "a")
  let b ← parseOperand (← req.getObjVal? "b")
  match dispatch np settings op a b with
  | .error e => pure (Json.mkObj [("err", errName e)])
  | .ok (tree, d) =>
      let base := [("tree", Json.str (render tree)), ("dtype", toJson d)]
      match req.getObjValAs? (Array Int) "xs", req.getObjValAs? (Array Int) "ys" with
      | .ok xs, .ok ys =>
          let vals := xs.toList.map (fun x => Json.arr (ys.toList.map (fun y =>
            match eval np a b x y tree with
            | some (_, v) => toJson v
            | none => Json.null)).toArray)
          pure (Json.mkObj (base ++ [("vals", Json.arr vals.toArray)]))
      | _, _ => pure (Json.mkObj base)

/-- One request (a JSON value) in, one response (a JSON value) out. -/
def handle (req : Json) : Json :=
  match handleE req with
  | .ok j => j
  | .error e => Json.mkObj [("error", e)]

end Drv.C17
