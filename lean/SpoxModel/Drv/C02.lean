import Lean.Data.Json
import SpoxModel.Model.Scope
import SpoxModel.Model.Named
import SpoxModel.Model.Naming
import SpoxModel.Model.InlineCheck
import SpoxModel.Generated.Dtypes
import SpoxModel.Model.InternalReq
import SpoxModel.Model.Func
/-! Line-protocol handler for C02: (a) `ScopeSpace` operation sequences, (b) the structural checker on
    a named graph (the real ModelProto), (c) the naming model on an emission tree. -/
namespace Drv.C02
open Lean Scope Named Naming

def errStr : Err → String
  | .scope => "scope"
  | .key => "key"

def strs (j : Json) (k : String) : Except String (List String) := do
  let a ← j.getObjValAs? (Array String) k
  return a.toList

partial def parseNGraph (j : Json) : Except String NGraph := do
  let ins ← strs j "inputs"
  let inits ← strs j "inits"
  let outs ← strs j "outputs"
  let nodesJ ← j.getObjValAs? (Array Json) "nodes"
  let nodes ← nodesJ.toList.mapM (fun nj => do
    let name ← nj.getObjValAs? String "name"
    let i ← strs nj "ins"
    let o ← strs nj "outs"
    let subsJ ← nj.getObjValAs? (Array Json) "subs"
    let subs ← subsJ.toList.mapM parseNGraph
    return NNode.mk name i o subs)
  return .mk ins inits nodes outs

partial def ngraphJson : NGraph → Json
  | .mk ins inits nodes outs =>
    Json.mkObj [("inputs", toJson ins), ("inits", toJson inits), ("outputs", toJson outs),
      ("nodes", Json.arr (nodes.map (fun n => match n with
        | .mk name i o subs => Json.mkObj [("name", name), ("ins", toJson i), ("outs", toJson o),
            ("subs", Json.arr (subs.map ngraphJson).toArray)])).toArray)]

def frameJson (f : Frame) : Json :=
  Json.mkObj [("pairs", Json.arr (f.pairs.map (fun p => Json.arr #[toJson p.1, toJson p.2])).toArray),
              ("reserved", toJson f.reserved)]

def spaceJson (s : Space) : Json :=
  Json.mkObj [("frames", Json.arr (s.frames.map frameJson).toArray),
              ("counters", Json.arr (s.counters.map (fun p => Json.arr #[toJson p.1, toJson p.2])).toArray)]

def runOps (ops : List Json) : Except String Json := do
  let mut s : Space := {}
  let mut outs : Array Json := #[]
  for oj in ops do
    let a ← (oj.getArr?)
    let k ← (a[0]!).getStr?
    match k with
    | "set" =>
      let n ← (a[1]!).getStr?
      let o ← (a[2]!).getNat?
      match s.setitem n o with
      | .ok s' => s := s'; outs := outs.push "ok"
      | .error e => outs := outs.push (errStr e)
    | "reserve" =>
      let n ← (a[1]!).getStr?
      match s.reserve n with
      | .ok s' => s := s'; outs := outs.push "ok"
      | .error e => outs := outs.push (errStr e)
    | "del" =>
      let n ← (a[1]!).getStr?
      match s.delName n with
      | .ok s' => s := s'; outs := outs.push "ok"
      | .error e => outs := outs.push (errStr e)
    | "enum" =>
      let b ← (a[1]!).getStr?
      let (n, s') := s.enum b
      s := s'; outs := outs.push n
    | "maybe" =>
      let b ← (a[1]!).getStr?
      let (n, s') := s.maybeEnum b
      s := s'; outs := outs.push n
    | "push" => s := s.push; outs := outs.push "ok"
    | "pop" => s := s.pop; outs := outs.push "ok"
    | "getname" =>
      let n ← (a[1]!).getStr?
      outs := outs.push (if s.hasName n then
        (match getName s.frames n with | some o => toJson o | none => "key") else "absent")
    | "getobj" =>
      let o ← (a[1]!).getNat?
      outs := outs.push (if s.hasObj o then
        (match getObj s.frames o with | some n => Json.str n | none => "key") else "absent")
    | _ => throw s!"bad op {k}"
  return Json.mkObj [("outs", Json.arr outs), ("final", spaceJson s)]

def parseOut (j : Json) : Except String OutVar := do
  let id ← j.getObjValAs? Nat "id"
  let field ← j.getObjValAs? String "field"
  let preset := match j.getObjValAs? String "preset" with
    | .ok p => some p
    | .error _ => none
  return { id, field, preset }

mutual
partial def parseENode (j : Json) : Except String ENode := do
  let id ← j.getObjValAs? Nat "id"
  let opId ← j.getObjValAs? String "op"
  let kindS ← j.getObjValAs? String "kind"
  let insJ ← j.getObjValAs? (Array Json) "ins"
  let ins := insJ.toList.map (fun x => match x.getNat? with | .ok n => some n | .error _ => none)
  let outsJ ← j.getObjValAs? (Array Json) "outs"
  let outs ← outsJ.toList.mapM parseOut
  let subKeys ← strs j "subkeys"
  let subsJ ← j.getObjValAs? (Array Json) "subs"
  let subs ← subsJ.toList.mapM parseEGraph
  let kind ← (match kindS with
    | "plain" => do
      let m ← j.getObjValAs? Nat "min_in"
      return Kind.plain m
    | "arg" => do
      let d ← j.getObjValAs? Bool "has_default"
      return Kind.arg d
    | "init" => return Kind.init
    | "intro" => return Kind.intro
    | "inline" => do
      let ti ← strs j "top_in"
      let to ← strs j "top_out"
      let g ← parseNGraph (← j.getObjVal? "inner")
      return Kind.inline ti to g
    | _ => throw "bad kind" : Except String Kind)
  return .mk id opId kind ins outs subKeys subs
partial def parseEGraph (j : Json) : Except String EGraph := do
  let argsJ ← j.getObjValAs? (Array Json) "args"
  let args ← argsJ.toList.mapM parseENode
  let nodesJ ← j.getObjValAs? (Array Json) "nodes"
  let nodes ← nodesJ.toList.mapM parseENode
  let resJ ← j.getObjValAs? (Array Nat) "results"
  return .mk args nodes resJ.toList
end

def scopeEq (a b : Scope) : Bool :=
  let fe (x y : Space) : Bool :=
    x.frames.map (fun f => (f.pairs, f.reserved)) == y.frames.map (fun f => (f.pairs, f.reserved)) &&
      x.counters == y.counters
  fe a.var b.var && fe a.node b.node

/-- run-time confirmation of what is not proved: every value the rendered graph defines has a name
    issued by the var namespace (a Var's name or a reserved internal), every non-empty node name one
    issued by the node namespace or `<node name>_id<i>` of an `_Introduce` -/
def namesInScope (ng : NGraph) (sc : Scope) : Bool :=
  let vnames := (allPairs sc.var.frames).map (·.2) ++ allReserved sc.var.frames
  let nnames := (allPairs sc.node.frames).map (·.2) ++ allReserved sc.node.frames
  let ds := defsG ng
  (valueNames ds).all (fun v => vnames.contains v) &&
  (nodeNames ds).all (fun n => nnames.contains n || nnames.any (fun m => n.startsWith (m ++ "_id")))

/-! (d) the argument check of an inlined model. Encoding as in Drv/C13: dimension = number | string |
    null; shape = null | [dims]; tensor type = [classId, shape]; argument = type | null (no type). -/
def parseDim (j : Json) : Except String Types.Natural :=
  match j with
  | .null => pure (.unk "")
  | .str s => pure (.unk s)
  | .num _ => do let n ← fromJson? (α := Nat) j; pure (.const n)
  | _ => throw "bad dim"

def parseTensor (j : Json) : Except String Types.Ty := do
  let a ← fromJson? (α := Array Json) j
  match a.toList with
  | [e, s] => do
      let e ← fromJson? (α := Nat) e
      let sh ← (match s with
        | Json.null => pure none
        | Json.arr ds => do let l ← ds.toList.mapM parseDim; pure (some l)
        | _ => throw "bad shape" : Except String Types.Shape)
      pure (.tensor e sh)
  | _ => throw "bad tensor type"

def handle (req : Json) : Json :=
  match (do
    let k ← req.getObjValAs? String "k"
    match k with
    | "ops" =>
      let ops ← req.getObjValAs? (Array Json) "ops"
      runOps ops.toList
    | "check" =>
      let g ← parseNGraph (← req.getObjVal? "g")
      return Json.mkObj [("accept", checkStructural g), ("wf", wfB g)]
    | "compile" =>
      let t ← parseEGraph (← req.getObjVal? "tree")
      match compile t with
      | .error e => return Json.mkObj [("err", errStr e)]
      | .ok (ng, st) =>
        let replayOk := match replay {} st.trace.reverse with
          | .ok sc => scopeEq sc st.sc
          | .error _ => false
        return Json.mkObj [("graph", ngraphJson ng), ("trace_ok", replayOk),
          ("accept", checkStructural ng), ("trace_len", st.trace.length),
          ("names_in_scope", namesInScope ng st.sc)]
    | "inline_check" =>
      let declsJ ← req.getObjValAs? (Array Json) "decls"
      let argsJ ← req.getObjValAs? (Array Json) "args"
      let decls ← declsJ.toList.mapM parseTensor
      let args ← argsJ.toList.mapM (fun j => match j with
        | Json.null => (pure none : Except String (Option Types.Ty))
        | _ => do let t ← parseTensor j; pure (some t))
      return Json.mkObj [("accept", InlineCheck.accepts Generated.Dtypes.table decls args)]
    | "policy" =>
      let rJ ← req.getObjValAs? (Array Json) "req"
      let rs ← rJ.toList.mapM (fun j => do
        let a ← fromJson? (α := Array Json) j
        let d ← (a[0]!).getStr?
        let v ← (a[1]!).getNat?
        pure (d, v))
      return Json.mkObj [("policy", Json.arr ((Func.policy rs).map (fun (p : String × Nat) => Json.arr #[toJson p.1, toJson p.2])).toArray)]
    | "inline_req" =>
      let rJ ← req.getObjValAs? (Array Json) "imports"
      let imps ← rJ.toList.mapM (fun j => do
        let a ← fromJson? (α := Array Json) j
        let d ← (a[0]!).getStr?
        let v ← (a[1]!).getNat?
        pure (d, v))
      let ksJ ← req.getObjValAs? (Array String) "pass"
      let ks := ksJ.toList.map (fun s => if s == "optional" then InternalReq.Kind.optional
        else if s == "seq" then InternalReq.Kind.seq else InternalReq.Kind.tensor)
      return Json.mkObj [("req", Json.arr ((InternalReq.inlineReq imps ks).map
        (fun (p : String × Nat) => Json.arr #[toJson p.1, toJson p.2])).toArray)]
    | "intro_req" =>
      let ksJ ← req.getObjValAs? (Array String) "kinds"
      let ks ← ksJ.toList.mapM (fun s => match s with
        | "untyped" => pure InternalReq.Kind.untyped
        | "tensor" => pure InternalReq.Kind.tensor
        | "seq" => pure InternalReq.Kind.seq
        | "optional" => pure InternalReq.Kind.optional
        | _ => (throw "bad kind" : Except String InternalReq.Kind))
      return Json.mkObj [("req", InternalReq.introReq ks)]
    | _ => throw "bad request kind") with
  | .ok j => j
  | .error e => Json.mkObj [("error", e)]

end Drv.C02
