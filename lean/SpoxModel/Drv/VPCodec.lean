import Lean.Data.Json
import SpoxModel.Model.ValueProp
/-! JSON codec for the value-propagation model (shared by the C07 and C15 handlers). -/
namespace Drv.VPCodec
open Lean VP

def dtNames : List (String × DT) :=
  [("bool", .bool), ("i8", .i8), ("i16", .i16), ("i32", .i32), ("i64", .i64), ("u8", .u8),
   ("u16", .u16), ("u32", .u32), ("u64", .u64), ("f16", .f16), ("f32", .f32), ("f64", .f64),
   ("c64", .c64), ("c128", .c128), ("str", .str), ("object", .object), ("objmixed", .objmixed), ("longlong", .longlong),
   ("ulonglong", .ulonglong), ("other", .other)]

def parseDT (s : String) : Except String DT :=
  match dtNames.find? (·.1 == s) with
  | some p => .ok p.2
  | none => .error s!"bad dtype {s}"

def dtName (d : DT) : String :=
  match dtNames.find? (·.2 == d) with
  | some p => p.1
  | none => "?"

def parseDim (j : Json) : Dim :=
  match j.getNat? with
  | .ok n => .const n
  | .error _ => .unk

def parseShape (j : Json) : Shape :=
  match j with
  | .arr a => some (a.toList.map parseDim)
  | _ => none

partial def parseTy (j : Json) : Except String Ty := do
  let t ← j.getObjValAs? String "t"
  match t with
  | "tensor" =>
    let e ← j.getObjValAs? String "e"
    let s := (j.getObjVal? "s").toOption.getD Json.null
    return .tensor (← parseDT e) (parseShape s)
  | "seq" => return .seq (← parseTy (← j.getObjVal? "of"))
  | "opt" => return .opt (← parseTy (← j.getObjVal? "of"))
  | _ => throw s!"bad type tag {t}"

def parseOptTy (j : Json) : Except String (Option Ty) :=
  match j with
  | .null => .ok none
  | _ => do return some (← parseTy j)

def dimJson : Dim → Json
  | .const n => toJson n
  | .unk => Json.null

def shapeJson : Shape → Json
  | none => Json.null
  | some ds => Json.arr (ds.map dimJson).toArray

def tyJson : Ty → Json
  | .tensor e s => Json.mkObj [("t", "tensor"), ("e", dtName e), ("s", shapeJson s)]
  | .seq t => Json.mkObj [("t", "seq"), ("of", tyJson t)]
  | .opt t => Json.mkObj [("t", "opt"), ("of", tyJson t)]

partial def parseRef (j : Json) : Except String RefVal := do
  let r ← j.getObjValAs? String "r"
  match r with
  | "arr" =>
    return .arr (← parseDT (← j.getObjValAs? String "dt")) (← j.getObjValAs? (List Nat) "shape")
      (← j.getObjValAs? Nat "pid")
  | "list" =>
    let xs ← j.getObjValAs? (Array Json) "xs"
    return .list (← xs.toList.mapM parseRef)
  | "none" => return .none
  | "scalar" => return .scalar (← parseDT (← j.getObjValAs? String "dt")) (← j.getObjValAs? Nat "pid")
  | "opaque" => return .opaque (← j.getObjValAs? Nat "pid")
  | "ragged" => return .ragged
  | _ => throw s!"bad ref tag {r}"

mutual
partial def payloadJson : Payload → Json
  | .arr dt sh pid =>
    Json.mkObj [("p", "arr"), ("dt", dtName dt), ("shape", toJson sh), ("pid", toJson pid)]
  | .list xs => Json.mkObj [("p", "list"), ("xs", Json.arr (xs.map pvJson).toArray)]
  | .some v => Json.mkObj [("p", "some"), ("v", pvJson v)]
  | .none => Json.mkObj [("p", "none")]
partial def pvJson : PropValue → Json
  | .mk t v => Json.mkObj [("ty", tyJson t), ("val", payloadJson v)]
end

def excName : Exc → String
  | .typeError => "TypeError"
  | .keyError => "KeyError"
  | .valueError => "ValueError"
  | .runtimeError => "RuntimeError"
  | .backend b id => s!"Backend:{b}:{id}"

def parseSel (s : String) : Except String BackendSel :=
  match s with
  | "none" => .ok .none
  | "reference" => .ok .reference
  | "onnxruntime" => .ok .onnxruntime
  | _ => .error s!"bad backend {s}"

def parseBackend (j : Json) : Except String Backend := do
  match j.getObjVal? "raise" with
  | .ok r =>
    return .raise (.backend (← r.getObjValAs? Bool "isExc") (← r.getObjValAs? Nat "id"))
  | .error _ =>
    let names ← j.getObjValAs? (List String) "names"
    let vals ← j.getObjValAs? (Array Json) "vals"
    return .ret names (← vals.toList.mapM parseRef)

def parseOptStr (j : Json) : Option String :=
  match j with
  | .str s => some s
  | _ => none

def parseInVar (j : Json) : Except String InVar := do
  return { name := ← j.getObjValAs? String "name",
           whichOutput := parseOptStr ((j.getObjVal? "which").toOption.getD Json.null),
           type := ← parseOptTy ((j.getObjVal? "type").toOption.getD Json.null),
           hasValue := ← j.getObjValAs? Bool "hasValue" }

def parseOutVar (j : Json) : Except String OutVar := do
  return { key := ← j.getObjValAs? String "key",
           type := ← parseOptTy ((j.getObjVal? "type").toOption.getD Json.null),
           value := none }

def parseCtx (j : Json) : Except String NodeCtx := do
  let ins ← j.getObjValAs? (Array Json) "inputs"
  let outs ← j.getObjValAs? (Array Json) "outputs"
  return { inputs := ← ins.toList.mapM parseInVar,
           outputs := ← outs.toList.mapM parseOutVar,
           hasSubgraph := ← j.getObjValAs? Bool "hasSubgraph" }

def parseKind (j : Json) : Except String Kind :=
  match j.getObjValAs? (List String) "inline" with
  | .ok g => .ok (.inline g)
  | .error _ => .ok .standard

def parseVariant (j : Json) : Variant :=
  match j.getObjValAs? String "variant" with
  | .ok "pinned" => Variant.pinned
  | _ => Variant.fixed

def optPvJson : Option PropValue → Json
  | none => Json.null
  | some p => pvJson p

def outJson (p : OutVar × Bool) : Json :=
  Json.mkObj [("key", p.1.key), ("value", optPvJson p.1.value), ("warn", p.2)]

def resultJson : Except Exc (List (OutVar × Bool)) → Json
  | .error e => Json.mkObj [("raised", excName e)]
  | .ok outs => Json.mkObj [("outs", Json.arr (outs.map outJson).toArray)]

def convJson (v : Variant) (ty : Ty) : Except Exc PropValue → Json
  | .error e => Json.mkObj [("raised", excName e)]
  | .ok pv =>
    Json.mkObj [("ok", pvJson pv), ("check", check v (PropValue.new ty pv.value))]

/-- `{"fn": "conv", sel, ty, val}` → conversion result and `check`;
    `{"fn": "node", sel, kind, ctx, backend}` → construction outcome. -/
def handle (req : Json) : Json :=
  match (do
    let fn ← req.getObjValAs? String "fn"
    let v := parseVariant req
    let sel ← parseSel (← req.getObjValAs? String "sel")
    match fn with
    | "conv" =>
      let ty ← parseTy (← req.getObjVal? "ty")
      let r ← parseRef (← req.getObjVal? "val")
      return convJson v ty (unwrapFeed sel ty r)
    | "node" =>
      let ctx ← parseCtx (← req.getObjVal? "ctx")
      let k ← parseKind ((req.getObjVal? "kind").toOption.getD Json.null)
      let b ← parseBackend (← req.getObjVal? "backend")
      return resultJson (construct v sel k ctx b)
    | _ => throw s!"bad fn {fn}") with
  | .ok j => j
  | .error e => Json.mkObj [("error", e)]

end Drv.VPCodec
