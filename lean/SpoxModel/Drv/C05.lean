import Lean.Data.Json
import SpoxModel.Model.Singleton
import SpoxModel.Model.MLOnnx
import SpoxModel.Model.Subtype
/-! Line-protocol handler for property C05 (model side of the correspondence): a constructor call in,
    the model's singleton one-node model, the hand-built form, and `construct` (with the inference
    answer observed on the real run plugged in as the judgement) out. -/
namespace Drv.C05
open Lean Sing

partial def parseTy (j : Json) : Except String Ty := do
  if let .ok e := j.getObjValAs? Nat "t" then
    let sj ← j.getObjVal? "s"
    match sj with
    | .null => return .tensor e none
    | .arr ds =>
      let dims ← ds.toList.mapM (fun d => match d with
        | .null => pure Dim.unk
        | .str s => pure (Dim.sym s)
        | .num _ => match d.getInt? with
          | .ok n => pure (Dim.const n)
          | .error e => throw e
        | _ => throw "bad dim")
      return .tensor e (some dims)
    | _ => throw "bad shape"
  else if let .ok t := j.getObjVal? "seq" then
    return .seq (← parseTy t)
  else if let .ok t := j.getObjVal? "opt" then
    return .opt (← parseTy t)
  else throw "bad type"

def dimJ : Dim → Json
  | .const n => toJson n
  | .sym s => Json.str s
  | .unk => Json.null

partial def tyJ : Ty → Json
  | .tensor e sh => Json.mkObj [("t", toJson e),
      ("s", match sh with | none => Json.null | some ds => Json.arr (ds.map dimJ).toArray)]
  | .seq t => Json.mkObj [("seq", tyJ t)]
  | .opt t => Json.mkObj [("opt", tyJ t)]

def otyJ : Option Ty → Json
  | none => Json.null
  | some t => tyJ t

def parseOptTy (j : Json) : Except String (Option Ty) :=
  match j with
  | .null => pure none
  | _ => some <$> parseTy j

def parseKind (s : String) : Except String Kind :=
  match s with
  | "single" => pure .single
  | "optional" => pure .optional
  | "variadic" => pure .variadic
  | _ => throw "bad kind"

def parseSlot (j : Json) : Except String Slot := do
  let a ← j.getArr?
  let n ← (a.getD 0 Json.null).getStr?
  let k ← (a.getD 1 Json.null).getStr?
  return ⟨n, ← parseKind k⟩

def parseArg (j : Json) : Except String Arg :=
  match j with
  | .null => pure .none
  | .arr vs => do
    let l ← vs.toList.mapM (fun v => v.getNat?)
    return .list l
  | _ => do return .var (← j.getNat?)

def parseSig (j : Json) : Except String Sig := do
  let ins ← j.getObjValAs? (Array Json) "inputs"
  let outs ← j.getObjValAs? (Array Json) "outputs"
  return {
    op := ← j.getObjValAs? String "op"
    domain := ← j.getObjValAs? String "domain"
    version := ← j.getObjValAs? Nat "version"
    inputs := ← ins.toList.mapM parseSlot
    outputs := ← outs.toList.mapM parseSlot
    minInput := ← j.getObjValAs? Nat "min_in"
    minOutput := ← j.getObjValAs? Nat "min_out" }

def parseOptStr (j : Json) : Except String (Option String) :=
  match j with
  | .null => pure none
  | .str s => pure (some s)
  | _ => throw "bad optional string"

def parseCall (j : Json) : Except String Call := do
  let sig ← parseSig (← j.getObjVal? "sig")
  let args ← (← j.getObjValAs? (Array Json) "args").toList.mapM parseArg
  let attrs ← (← j.getObjValAs? (Array Json) "attrs").toList.mapM (fun a => do
    let p ← a.getArr?
    let n ← (p.getD 0 Json.null).getStr?
    let v ← parseOptStr (p.getD 1 Json.null)
    return (n, v))
  let vars ← (← j.getObjValAs? (Array Json) "vars").toList.mapM (fun a => do
    let p ← a.getArr?
    let id ← (p.getD 0 Json.null).getNat?
    let ty ← parseOptTy (p.getD 1 Json.null)
    let val ← parseOptStr (p.getD 2 Json.null)
    return (id, ({ ty := ty, val := val } : VarInfo)))
  let ov ← j.getObjValAs? Nat "out_variadic"
  return {
    sig := sig, args := args, attrs := attrs, outVariadic := ov
    info := fun v => ((vars.lookup v).getD { ty := none, val := none }) }

def nodeJ (n : NodeView) : Json := Json.mkObj [
  ("op", n.op), ("domain", n.domain), ("inputs", toJson n.inputs), ("outputs", toJson n.outputs),
  ("attrs", Json.arr (n.attrs.map (fun p => Json.arr #[Json.str p.1, Json.str p.2])).toArray)]

def modelJ (m : OneNodeModel) : Json := Json.mkObj [
  ("node", nodeJ m.node), ("node_name", m.nodeName),
  ("ginputs", Json.arr (m.graphInputs.map (fun p => Json.arr #[Json.str p.1, otyJ p.2])).toArray),
  ("inits", Json.arr (m.inits.map (fun p => Json.arr #[Json.str p.1, Json.str p.2])).toArray),
  ("goutputs", toJson m.graphOutputs),
  ("opset", Json.arr #[Json.str m.opset.1, toJson m.opset.2])]

/-- the names the harness' own hand-built node uses: `i<var id>` / `o<index>` -/
def handNames : Ref → String
  | .inp v => "i" ++ toString v
  | .out i => "o" ++ toString i

def parseInfer (j : Json) : Except String (Option (List (String × Option Ty))) :=
  match j with
  | .str _ => pure none   -- "reject"
  | .arr es => do
    let l ← es.toList.mapM (fun e => do
      let p ← e.getArr?
      let n ← (p.getD 0 Json.null).getStr?
      let t ← parseOptTy (p.getD 1 Json.null)
      return (n, t))
    return some l
  | _ => throw "bad infer"

def pdimJ : PDim → Json
  | .value n => Json.mkObj [("v", toJson n)]
  | .param s => Json.mkObj [("p", Json.str s)]
  | .unset => Json.mkObj []

partial def ptyJ : PTy → Json
  | .tensor e sh => Json.mkObj [("elem", toJson e),
      ("shape", match sh with | none => Json.null | some ds => Json.arr (ds.map pdimJ).toArray)]
  | .seq t => Json.mkObj [("seq", ptyJ t)]
  | .opt t => Json.mkObj [("opt", ptyJ t)]

def parsePDim (j : Json) : Except String PDim :=
  match (j.getObjVal? "v").toOption, (j.getObjVal? "p").toOption with
  | some v, _ => do return .value (← v.getInt?)
  | none, some p => do return .param (← p.getStr?)
  | none, none => pure .unset

partial def parsePTy (j : Json) : Except String PTy := do
  if let .ok e := j.getObjValAs? Nat "elem" then
    match ← j.getObjVal? "shape" with
    | .null => return .tensor e none
    | .arr ds => return .tensor e (some (← ds.toList.mapM parsePDim))
    | _ => throw "bad proto shape"
  else if let .ok t := j.getObjVal? "seq" then
    return .seq (← parsePTy t)
  else if let .ok t := j.getObjVal? "opt" then
    return .opt (← parsePTy t)
  else throw "bad proto type"

def elemOfCode : Nat → Option C06M.Elem
  | 1 => some .f32 | 11 => some .f64 | 6 => some .i32 | 7 => some .i64 | 9 => some .bool | 8 => some .str
  | _ => none

def codeOfElem : C06M.Elem → Nat
  | .f32 => 1 | .f64 => 11 | .i32 => 6 | .i64 => 7 | .bool => 9 | .str => 8

/-- hypothesis of `supplemented_refines_partial` for one Compress call: the own answer refines the standard one -/
def compressHyp (r : Except Err Ty) (std : List (String × Option Ty)) : List (String × Json) :=
  match r, std with
  | .ok t, [(k, st)] => [("own_refines_std", toJson (refinesAll [(k, some t)] [(k, st)]))]
  | _, _ => []

/-! round 10: `Type._subtype` / `Shape.__le__` / `PropValue.check` / the attach loop of `Node.inference`
    on generated inputs (request `{"rel": [...]}`, no call attached) -/
def shapeOfTy : Ty → Option (List Dim)
  | .tensor _ sh => sh
  | _ => none

def relOne (j : Json) : Except String Json := do
  let k ← j.getObjValAs? String "k"
  match k with
  | "subtype" => do
    let a ← parseTy (← j.getObjVal? "a")
    let b ← parseTy (← j.getObjVal? "b")
    return Json.mkObj [("subtype", toJson (subtype a b)), ("compatible", toJson (compatible a b)),
      ("tyle", toJson (tyLe a b))]
  | "shape" => do
    let a ← parseTy (← j.getObjVal? "a")
    let b ← parseTy (← j.getObjVal? "b")
    return toJson (shapeLe (shapeOfTy a) (shapeOfTy b))
  | "check" => do
    let e ← j.getObjValAs? Nat "e"
    let vs ← j.getObjValAs? (List Nat) "shape"
    let t ← parseTy (← j.getObjVal? "ty")
    return toJson (propCheck e vs t)
  | "attach" => do
    let raw ← (← j.getObjValAs? (Array Json) "raw").toList.mapM (fun r => do
      let key ← r.getObjValAs? String "key"
      let e ← r.getObjValAs? Nat "e"
      let vs ← r.getObjValAs? (List Nat) "shape"
      let d ← r.getObjValAs? String "digest"
      pure (key, ({ elem := e, shape := vs, digest := d } : RawVal)))
    let tys ← (← j.getObjValAs? (Array Json) "tys").toList.mapM (fun r => do
      let a ← r.getArr?
      let key ← (a.getD 0 Json.null).getStr?
      let t ← parseOptTy (a.getD 1 Json.null)
      pure (key, t))
    let one := tys.filterMap (fun p => (attachOne raw p).raw.map (fun v => (p.1, v.digest)))
    let pj (l : List (String × String)) : Json := Json.arr (l.map (fun p => Json.arr #[Json.str p.1, Json.str p.2])).toArray
    return Json.mkObj [("checked", pj (checkedProp raw tys)), ("one", pj one)]
  | _ => throw "bad relation request"

def handleRel (reqs : Array Json) : Json :=
  Json.mkObj [("rel", Json.arr (reqs.map (fun j => match relOne j with
    | .ok r => r
    | .error e => Json.mkObj [("error", e)])))]

def handle (req : Json) : Json :=
  match req.getObjValAs? (Array Json) "rel" with
  | .ok reqs => handleRel reqs
  | .error _ =>
  match (do
    let c ← parseCall req
    let inferJ := (req.getObjVal? "infer").toOption.getD Json.null
    let base : List (String × Json) := [
      ("kinds_ok", toJson (kindsOk c.sig.inputs c.args)),
      ("wf", toJson c.wfB),
      ("clash", toJson (scopeClash c.items [])),
      ("untyped", toJson (anyUntyped c)),
      ("singleton", modelJ (singleton c)),
      ("pruned", modelJ (prune (singleton c))),
      ("hand", modelJ (handModel handNames c))]
    let extra ← match inferJ with
      | .null => pure []
      | _ => do
        let ans ← parseInfer inferJ
        let r := construct (fun _ => ans) c
        pure [("construct", match r with
          | .error .kind => Json.str "kind"
          | .error .inference => Json.str "inference"
          | .ok l => Json.arr (l.map (fun (p : String × Option Ty) =>
              Json.arr #[Json.str p.1, otyJ p.2])).toArray)]
    -- value propagation: the values observed on the real output Vars are offered as the backend's answer
    let vpExtra ← match (req.getObjVal? "values").toOption, inferJ with
      | some (.arr vs), .arr _ => do
        let offered ← vs.toList.mapM (fun (e : Json) => do
          let p ← e.getArr?
          let k ← (p.getD 0 Json.null).getStr?
          let v ← (p.getD 1 Json.null).getStr?
          return (k, v))
        let ans ← parseInfer inferJ
        match constructVP (fun _ => ans) (fun _ _ => offered) c with
        | .error _ => pure [("vp", Json.str "error")]
        | .ok outs => pure [("vp", Json.arr (outs.map (fun (o : OutVar) =>
            Json.arr #[Json.str o.key, otyJ o.ty, match o.val with | none => Json.null | some v => Json.str v])).toArray)]
      | _, _ => pure []
    -- round 10: every attached ndarray value (element type, shape) against the type `construct` reports
    let fitExtra ← match (req.getObjVal? "value_facts").toOption, inferJ with
      | some (.arr fs), .arr _ => do
        let ans ← parseInfer inferJ
        match construct (fun _ => ans) c with
        | .error _ => pure []
        | .ok tys => do
          let l ← fs.toList.mapM (fun (f : Json) => do
            let a ← f.getArr?
            let k ← (a.getD 0 Json.null).getStr?
            let e ← (a.getD 1 Json.null).getNat?
            let vs : List Nat ← fromJson? (a.getD 2 Json.null)
            let fit := match (tys.find? (fun (p : String × Option Ty) => p.1 == k)).bind (fun p => p.2) with
              | some t => propCheck e vs t
              | none => false
            pure (Json.arr #[Json.str k, toJson fit]))
          pure [("values_fit", Json.arr l.toArray)]
      | _, _ => pure []
    -- the supplements' own rules on top of the observed standard answer
    let tyList (j : Json) : Except String (List (Option Ty)) := do
      (← j.getArr?).toList.mapM parseOptTy
    let pairsJ (l : List (String × Option Ty)) : Json :=
      Json.arr (l.map (fun (p : String × Option Ty) => Json.arr #[Json.str p.1, otyJ p.2])).toArray
    let suppExtra ← match inferJ with
      | .arr _ => do
        let ans ← parseInfer inferJ
        match construct (fun _ => ans) c with
        | .ok std =>
          let lp ← match (req.getObjVal? "loop").toOption with
            | some lj => do
              let rs ← tyList (← lj.getObjVal? "results")
              let as ← tyList (← lj.getObjVal? "args")
              pure [("loop_own", pairsJ (loopOwn rs as std)),
                    -- hypothesis of `supplemented_refines_partial`, evaluated on this very call
                    ("own_refines_std", toJson (refinesAll (loopOwn rs as std) std))]
            | none => pure []
          let cp ← match (req.getObjVal? "compress").toOption with
            | some cj => do
              let axis : Option Int := match (cj.getObjVal? "axis").toOption with
                | some aj => aj.getInt?.toOption
                | none => none
              let tys := c.inPairs.map (fun (p : String × Nat) => (c.info p.2).ty)
              match tys with
              | [some inp, some cond] => do
                let ownJ : Json := match compressOwn inp cond axis with
                  | .ok t => tyJ t
                  | .error _ => Json.str "inference"
                pure ([("compress_own", ownJ)] ++ compressHyp (compressOwn inp cond axis) std)
              | _ => pure []
            | none => pure []
          pure (lp ++ cp)
        | .error _ => pure []
      | _ => pure []
    -- Type._to_onnx / Type._from_onnx
    let protoExtra ← do
      let a ← match (req.getObjVal? "to_proto").toOption with
        | some (.arr ts) => do
          let l ← ts.toList.mapM parseTy
          pure [("to_proto", Json.arr (l.map (fun t => ptyJ (toProto t))).toArray)]
        | _ => pure []
      let b ← match (req.getObjVal? "from_proto").toOption with
        | some (.arr ps) => do
          let l ← ps.toList.mapM parsePTy
          pure [("from_proto", Json.arr (l.map (fun t => tyJ (fromProto t))).toArray)]
        | _ => pure []
      pure (a ++ b)
    -- the body's formal argument types of loop / scan / sequence_map (computed from the operands)
    let tysOf (vs : List Nat) : Option (List Ty) := allSome (vs.map (fun v => (c.info v).ty))
    let formalsJ (o : Option (List Ty)) : Json := match o with
      | some l => Json.arr (l.map tyJ).toArray
      | none => Json.str "raises"
    let formalsExtra ← match (req.getObjVal? "formals").toOption with
      | some fj => do
        let kind ← fj.getObjValAs? String "kind"
        match kind, c.args with
        | "loop", [_, _, .list vs] => pure [("formals", formalsJ ((tysOf vs).map loopFormals))]
        | "scan", [.list vs] => do
          let n ← fj.getObjValAs? Int "num_scan"
          pure [("formals", formalsJ ((tysOf vs).bind (fun ts => scanFormals ts n)))]
        | "seqmap", [.var v, .list vs] =>
          pure [("formals", formalsJ (match (c.info v).ty, tysOf vs with
            | some t, some ts => seqMapFormals t ts
            | _, _ => none))]
        | "if", _ => pure [("formals", formalsJ (some []))]
        | _, _ => pure []
      | none => pure []
    -- ONNX's own answer for the ml operators whose inference spox replaces (element type of the output)
    let mlExtra ← match (req.getObjVal? "ml_onnx").toOption with
      | some mj => do
        let opn ← mj.getObjValAs? String "op"
        let code ← mj.getObjValAs? Nat "elem"
        match elemOfCode code with
        | some e => pure [("ml_onnx", toJson (codeOfElem (MLOnnx.onnxMlElem opn e)))]
        | none => pure []
      | none => pure []
    return Json.mkObj (base ++ extra ++ vpExtra ++ fitExtra ++ suppExtra ++ protoExtra ++ formalsExtra ++ mlExtra)) with
  | .ok j => j
  | .error e => Json.mkObj [("error", e)]

end Drv.C05
