import Lean.Data.Json
import SpoxModel.Drv.VPCodec
import SpoxModel.Model.VPHistory
import SpoxModel.Model.VPFeed
/-! Line-protocol handler for property C07: `{"fn": "history", "steps": [...]}` runs a construction
    history on the model (`VP.run`, fixed variant) and reports every node's output values; the other
    requests (`conv`, `node`) are those of the shared codec. -/
namespace Drv.C07
open Lean VP Drv.VPCodec

partial def parsePayload (j : Json) : Except String Payload := do
  let p ← j.getObjValAs? String "p"
  match p with
  | "arr" =>
    return .arr (← parseDT (← j.getObjValAs? String "dt")) (← j.getObjValAs? (List Nat) "shape")
      (← j.getObjValAs? Nat "pid")
  | _ => throw s!"constant payloads are arrays, got {p}"

mutual
/-- A payload of any nesting; nested PropValues go through the constructor (`PropValue.new`) as in Python. -/
partial def parsePayloadFull (j : Json) : Except String Payload := do
  let p ← j.getObjValAs? String "p"
  match p with
  | "arr" =>
    return .arr (← parseDT (← j.getObjValAs? String "dt")) (← j.getObjValAs? (List Nat) "shape")
      (← j.getObjValAs? Nat "pid")
  | "list" =>
    let xs ← j.getObjValAs? (Array Json) "xs"
    return .list (← xs.toList.mapM parsePvFull)
  | "some" => return .some (← parsePvFull (← j.getObjVal? "v"))
  | "none" => return .none
  | _ => throw s!"bad payload tag {p}"
partial def parsePvFull (j : Json) : Except String PropValue := do
  return PropValue.new (← parseTy (← j.getObjVal? "ty")) (← parsePayloadFull (← j.getObjVal? "val"))
end

partial def refJson : RefVal → Json
  | .arr dt sh pid => Json.mkObj [("r", "arr"), ("dt", dtName dt), ("shape", toJson sh), ("pid", toJson pid)]
  | .list xs => Json.mkObj [("r", "list"), ("xs", Json.arr (xs.map refJson).toArray)]
  | .none => Json.mkObj [("r", "none")]
  | .scalar dt pid => Json.mkObj [("r", "scalar"), ("dt", dtName dt), ("pid", toJson pid)]
  | .opaque pid => Json.mkObj [("r", "opaque"), ("pid", toJson pid)]
  | .ragged => Json.mkObj [("r", "ragged")]

/-- `{"fn": "feed", sel, ty, val}`: the value `PropValue(ty, val)` as `wrap_feed` hands it to the backend, what
    `unwrap_feed` makes of that under the same type, `check` of the value, and (theorem side) whether the type is
    in the round-trip class and what `retype` predicts. -/
def feedJson (sel : BackendSel) (ty : Ty) (p : Payload) : Json :=
  let pv := PropValue.new ty p
  match wrapFeed sel pv.value with
  | .error e => Json.mkObj [("raised", excName e)]
  | .ok r =>
    Json.mkObj [("fed", refJson r), ("back", convJson Variant.fixed ty (unwrapFeed sel ty r)),
      ("check", check Variant.fixed pv), ("feedOk", feedOk sel ty), ("retype", payloadJson (retype ty pv.value))]

def parseRefs (j : Json) : Except String (List VarRef) := do
  let a ← j.getArr?
  a.toList.mapM fun x => do
    return { node := ← x.getObjValAs? Nat "node", out := ← x.getObjValAs? Nat "out" }

def parseOuts (j : Json) : Except String (List (String × Option Ty)) := do
  let a ← j.getArr?
  a.toList.mapM fun x => do
    return (← x.getObjValAs? String "key", ← parseOptTy ((x.getObjVal? "type").toOption.getD Json.null))

def noSem : List Payload → String → Option Payload := fun _ _ => none

/-- The three observed facts; the model combines them (`Traits.skips`). Older requests carry only
    `hasSubgraph`. -/
def parseTraits (j : Json) : Traits :=
  let b := fun (k : String) => (j.getObjValAs? Bool k).toOption.getD false
  { sampling := b "sampling", subgraph := b "hasSubgraph", inlineControlFlow := b "inlineControlFlow" }

def parseStep (j : Json) : Except String Step := do
  let k ← j.getObjValAs? String "k"
  match k with
  | "argument" => return .argument (← j.getObjValAs? String "key") (← parseTy (← j.getObjVal? "type"))
  | "constant" =>
    return .constant (← j.getObjValAs? String "key")
      (← parseOptTy ((j.getObjVal? "type").toOption.getD Json.null)) (← parsePayload (← j.getObjVal? "payload"))
  | "standard" =>
    return .standard (← parseSel (← j.getObjValAs? String "sel")) (← parseRefs (← j.getObjVal? "inputs"))
      (← j.getObjValAs? (List String) "inNames") (← parseOuts (← j.getObjVal? "outs"))
      (parseTraits j) (← parseBackend (← j.getObjVal? "backend")) noSem
  | "inline" =>
    return .inline (← parseSel (← j.getObjValAs? String "sel")) (← parseRefs (← j.getObjVal? "inputs"))
      (← j.getObjValAs? (List String) "inNames") (← j.getObjValAs? (List String) "gnames")
      (← parseOuts (← j.getObjVal? "outs")) (parseTraits j) (← parseBackend (← j.getObjVal? "backend")) noSem
  | _ => throw s!"bad step {k}"

def nodeJson (n : NodeRec) : Json :=
  Json.arr (n.outputs.map fun o => Json.mkObj [("key", o.key), ("value", optPvJson o.value)]).toArray

def handle (req : Json) : Json :=
  match req.getObjValAs? String "fn" with
  | .ok "history" =>
    match (do
      let stepsJ ← req.getObjValAs? (Array Json) "steps"
      let steps ← stepsJ.toList.mapM parseStep
      let st := run Variant.fixed [] steps
      return Json.mkObj [("nodes", Json.arr (st.map nodeJson).toArray)]) with
    | .ok j => j
    | .error e => Json.mkObj [("error", e)]
  | .ok "feed" =>
    match (do
      let sel ← parseSel (← req.getObjValAs? String "sel")
      let ty ← parseTy (← req.getObjVal? "ty")
      let p ← parsePayloadFull (← req.getObjVal? "val")
      return feedJson sel ty p) with
    | .ok j => j
    | .error e => Json.mkObj [("error", e)]
  | _ => Drv.VPCodec.handle req

end Drv.C07
