-- GENERATED from src/spox/opset/ai/onnx/ml/v4.py + onnx.defs by translator/constructors.py on every run; do not edit.
import SpoxModel.Generated.Constructors_ml_v4
import SpoxModel.Generated.Schemas_ml_v4
import SpoxModel.Generated.Conforms_ml_v3
namespace Generated.Conforms.ml_v4
open Conform

theorem conforms_ml_v4_ArrayFeatureExtractor : entryOK ("ml_v3._ArrayFeatureExtractor", Generated.Ctors.ml_v3.f_array_feature_extractor, Generated.Schemas.ml_v3.s_ArrayFeatureExtractor_1) = true := Generated.Conforms.ml_v3.conforms_ml_v3_ArrayFeatureExtractor

theorem slots_ml_v4_ArrayFeatureExtractor : slotOK ("ml_v3._ArrayFeatureExtractor", Generated.Ctors.ml_v3.f_array_feature_extractor, Generated.Schemas.ml_v3.s_ArrayFeatureExtractor_1) = true := Generated.Conforms.ml_v3.slots_ml_v3_ArrayFeatureExtractor

theorem conforms_ml_v4_Binarizer : entryOK ("ml_v3._Binarizer", Generated.Ctors.ml_v3.f_binarizer, Generated.Schemas.ml_v3.s_Binarizer_1) = true := Generated.Conforms.ml_v3.conforms_ml_v3_Binarizer

theorem slots_ml_v4_Binarizer : slotOK ("ml_v3._Binarizer", Generated.Ctors.ml_v3.f_binarizer, Generated.Schemas.ml_v3.s_Binarizer_1) = true := Generated.Conforms.ml_v3.slots_ml_v3_Binarizer

theorem conforms_ml_v4_CastMap : entryOK ("ml_v3._CastMap", Generated.Ctors.ml_v3.f_cast_map, Generated.Schemas.ml_v3.s_CastMap_1) = true := Generated.Conforms.ml_v3.conforms_ml_v3_CastMap

theorem slots_ml_v4_CastMap : slotOK ("ml_v3._CastMap", Generated.Ctors.ml_v3.f_cast_map, Generated.Schemas.ml_v3.s_CastMap_1) = true := Generated.Conforms.ml_v3.slots_ml_v3_CastMap

theorem conforms_ml_v4_CategoryMapper : entryOK ("ml_v3._CategoryMapper", Generated.Ctors.ml_v3.f_category_mapper, Generated.Schemas.ml_v3.s_CategoryMapper_1) = true := Generated.Conforms.ml_v3.conforms_ml_v3_CategoryMapper

theorem slots_ml_v4_CategoryMapper : slotOK ("ml_v3._CategoryMapper", Generated.Ctors.ml_v3.f_category_mapper, Generated.Schemas.ml_v3.s_CategoryMapper_1) = true := Generated.Conforms.ml_v3.slots_ml_v3_CategoryMapper

theorem conforms_ml_v4_DictVectorizer : entryOK ("ml_v3._DictVectorizer", Generated.Ctors.ml_v3.f_dict_vectorizer, Generated.Schemas.ml_v3.s_DictVectorizer_1) = true := Generated.Conforms.ml_v3.conforms_ml_v3_DictVectorizer

theorem slots_ml_v4_DictVectorizer : slotOK ("ml_v3._DictVectorizer", Generated.Ctors.ml_v3.f_dict_vectorizer, Generated.Schemas.ml_v3.s_DictVectorizer_1) = true := Generated.Conforms.ml_v3.slots_ml_v3_DictVectorizer

theorem conforms_ml_v4_FeatureVectorizer : entryOK ("ml_v3._FeatureVectorizer", Generated.Ctors.ml_v3.f_feature_vectorizer, Generated.Schemas.ml_v3.s_FeatureVectorizer_1) = true := Generated.Conforms.ml_v3.conforms_ml_v3_FeatureVectorizer

theorem slots_ml_v4_FeatureVectorizer : slotOK ("ml_v3._FeatureVectorizer", Generated.Ctors.ml_v3.f_feature_vectorizer, Generated.Schemas.ml_v3.s_FeatureVectorizer_1) = true := Generated.Conforms.ml_v3.slots_ml_v3_FeatureVectorizer

theorem conforms_ml_v4_Imputer : entryOK ("ml_v3._Imputer", Generated.Ctors.ml_v3.f_imputer, Generated.Schemas.ml_v3.s_Imputer_1) = true := Generated.Conforms.ml_v3.conforms_ml_v3_Imputer

theorem slots_ml_v4_Imputer : slotOK ("ml_v3._Imputer", Generated.Ctors.ml_v3.f_imputer, Generated.Schemas.ml_v3.s_Imputer_1) = true := Generated.Conforms.ml_v3.slots_ml_v3_Imputer

theorem conforms_ml_v4_LabelEncoder : entryOK ("ml_v4._LabelEncoder", Generated.Ctors.ml_v4.f_label_encoder, Generated.Schemas.ml_v4.s_LabelEncoder_4) = true := by decide +kernel

theorem slots_ml_v4_LabelEncoder : slotOK ("ml_v4._LabelEncoder", Generated.Ctors.ml_v4.f_label_encoder, Generated.Schemas.ml_v4.s_LabelEncoder_4) = true := by decide +kernel

theorem conforms_ml_v4_LinearClassifier : entryOK ("ml_v3._LinearClassifier", Generated.Ctors.ml_v3.f_linear_classifier, Generated.Schemas.ml_v3.s_LinearClassifier_1) = true := Generated.Conforms.ml_v3.conforms_ml_v3_LinearClassifier

theorem slots_ml_v4_LinearClassifier : slotOK ("ml_v3._LinearClassifier", Generated.Ctors.ml_v3.f_linear_classifier, Generated.Schemas.ml_v3.s_LinearClassifier_1) = true := Generated.Conforms.ml_v3.slots_ml_v3_LinearClassifier

theorem conforms_ml_v4_LinearRegressor : entryOK ("ml_v3._LinearRegressor", Generated.Ctors.ml_v3.f_linear_regressor, Generated.Schemas.ml_v3.s_LinearRegressor_1) = true := Generated.Conforms.ml_v3.conforms_ml_v3_LinearRegressor

theorem slots_ml_v4_LinearRegressor : slotOK ("ml_v3._LinearRegressor", Generated.Ctors.ml_v3.f_linear_regressor, Generated.Schemas.ml_v3.s_LinearRegressor_1) = true := Generated.Conforms.ml_v3.slots_ml_v3_LinearRegressor

theorem conforms_ml_v4_Normalizer : entryOK ("ml_v3._Normalizer", Generated.Ctors.ml_v3.f_normalizer, Generated.Schemas.ml_v3.s_Normalizer_1) = true := Generated.Conforms.ml_v3.conforms_ml_v3_Normalizer

theorem slots_ml_v4_Normalizer : slotOK ("ml_v3._Normalizer", Generated.Ctors.ml_v3.f_normalizer, Generated.Schemas.ml_v3.s_Normalizer_1) = true := Generated.Conforms.ml_v3.slots_ml_v3_Normalizer

theorem conforms_ml_v4_OneHotEncoder : entryOK ("ml_v3._OneHotEncoder", Generated.Ctors.ml_v3.f_one_hot_encoder, Generated.Schemas.ml_v3.s_OneHotEncoder_1) = true := Generated.Conforms.ml_v3.conforms_ml_v3_OneHotEncoder

theorem slots_ml_v4_OneHotEncoder : slotOK ("ml_v3._OneHotEncoder", Generated.Ctors.ml_v3.f_one_hot_encoder, Generated.Schemas.ml_v3.s_OneHotEncoder_1) = true := Generated.Conforms.ml_v3.slots_ml_v3_OneHotEncoder

theorem conforms_ml_v4_SVMClassifier : entryOK ("ml_v3._SVMClassifier", Generated.Ctors.ml_v3.f_svmclassifier, Generated.Schemas.ml_v3.s_SVMClassifier_1) = true := Generated.Conforms.ml_v3.conforms_ml_v3_SVMClassifier

theorem slots_ml_v4_SVMClassifier : slotOK ("ml_v3._SVMClassifier", Generated.Ctors.ml_v3.f_svmclassifier, Generated.Schemas.ml_v3.s_SVMClassifier_1) = true := Generated.Conforms.ml_v3.slots_ml_v3_SVMClassifier

theorem conforms_ml_v4_SVMRegressor : entryOK ("ml_v3._SVMRegressor", Generated.Ctors.ml_v3.f_svmregressor, Generated.Schemas.ml_v3.s_SVMRegressor_1) = true := Generated.Conforms.ml_v3.conforms_ml_v3_SVMRegressor

theorem slots_ml_v4_SVMRegressor : slotOK ("ml_v3._SVMRegressor", Generated.Ctors.ml_v3.f_svmregressor, Generated.Schemas.ml_v3.s_SVMRegressor_1) = true := Generated.Conforms.ml_v3.slots_ml_v3_SVMRegressor

theorem conforms_ml_v4_Scaler : entryOK ("ml_v3._Scaler", Generated.Ctors.ml_v3.f_scaler, Generated.Schemas.ml_v3.s_Scaler_1) = true := Generated.Conforms.ml_v3.conforms_ml_v3_Scaler

theorem slots_ml_v4_Scaler : slotOK ("ml_v3._Scaler", Generated.Ctors.ml_v3.f_scaler, Generated.Schemas.ml_v3.s_Scaler_1) = true := Generated.Conforms.ml_v3.slots_ml_v3_Scaler

theorem conforms_ml_v4_TreeEnsembleClassifier : entryOK ("ml_v3._TreeEnsembleClassifier", Generated.Ctors.ml_v3.f_tree_ensemble_classifier, Generated.Schemas.ml_v3.s_TreeEnsembleClassifier_3) = true := Generated.Conforms.ml_v3.conforms_ml_v3_TreeEnsembleClassifier

theorem slots_ml_v4_TreeEnsembleClassifier : slotOK ("ml_v3._TreeEnsembleClassifier", Generated.Ctors.ml_v3.f_tree_ensemble_classifier, Generated.Schemas.ml_v3.s_TreeEnsembleClassifier_3) = true := Generated.Conforms.ml_v3.slots_ml_v3_TreeEnsembleClassifier

theorem conforms_ml_v4_TreeEnsembleRegressor : entryOK ("ml_v3._TreeEnsembleRegressor", Generated.Ctors.ml_v3.f_tree_ensemble_regressor, Generated.Schemas.ml_v3.s_TreeEnsembleRegressor_3) = true := Generated.Conforms.ml_v3.conforms_ml_v3_TreeEnsembleRegressor

theorem slots_ml_v4_TreeEnsembleRegressor : slotOK ("ml_v3._TreeEnsembleRegressor", Generated.Ctors.ml_v3.f_tree_ensemble_regressor, Generated.Schemas.ml_v3.s_TreeEnsembleRegressor_3) = true := Generated.Conforms.ml_v3.slots_ml_v3_TreeEnsembleRegressor

theorem conforms_ml_v4_ZipMap : entryOK ("ml_v3._ZipMap", Generated.Ctors.ml_v3.f_zip_map, Generated.Schemas.ml_v3.s_ZipMap_1) = true := Generated.Conforms.ml_v3.conforms_ml_v3_ZipMap

theorem slots_ml_v4_ZipMap : slotOK ("ml_v3._ZipMap", Generated.Ctors.ml_v3.f_zip_map, Generated.Schemas.ml_v3.s_ZipMap_1) = true := Generated.Conforms.ml_v3.slots_ml_v3_ZipMap

/-- every operator/module pair of this module without a listed deviation -/
def table : List Entry :=
  [
   ("ml_v3._ArrayFeatureExtractor", Generated.Ctors.ml_v3.f_array_feature_extractor, Generated.Schemas.ml_v3.s_ArrayFeatureExtractor_1), 
   ("ml_v3._Binarizer", Generated.Ctors.ml_v3.f_binarizer, Generated.Schemas.ml_v3.s_Binarizer_1), 
   ("ml_v3._CastMap", Generated.Ctors.ml_v3.f_cast_map, Generated.Schemas.ml_v3.s_CastMap_1), 
   ("ml_v3._CategoryMapper", Generated.Ctors.ml_v3.f_category_mapper, Generated.Schemas.ml_v3.s_CategoryMapper_1), 
   ("ml_v3._DictVectorizer", Generated.Ctors.ml_v3.f_dict_vectorizer, Generated.Schemas.ml_v3.s_DictVectorizer_1), 
   ("ml_v3._FeatureVectorizer", Generated.Ctors.ml_v3.f_feature_vectorizer, Generated.Schemas.ml_v3.s_FeatureVectorizer_1), 
   ("ml_v3._Imputer", Generated.Ctors.ml_v3.f_imputer, Generated.Schemas.ml_v3.s_Imputer_1), 
   ("ml_v4._LabelEncoder", Generated.Ctors.ml_v4.f_label_encoder, Generated.Schemas.ml_v4.s_LabelEncoder_4), 
   ("ml_v3._LinearClassifier", Generated.Ctors.ml_v3.f_linear_classifier, Generated.Schemas.ml_v3.s_LinearClassifier_1), 
   ("ml_v3._LinearRegressor", Generated.Ctors.ml_v3.f_linear_regressor, Generated.Schemas.ml_v3.s_LinearRegressor_1), 
   ("ml_v3._Normalizer", Generated.Ctors.ml_v3.f_normalizer, Generated.Schemas.ml_v3.s_Normalizer_1), 
   ("ml_v3._OneHotEncoder", Generated.Ctors.ml_v3.f_one_hot_encoder, Generated.Schemas.ml_v3.s_OneHotEncoder_1), 
   ("ml_v3._SVMClassifier", Generated.Ctors.ml_v3.f_svmclassifier, Generated.Schemas.ml_v3.s_SVMClassifier_1), 
   ("ml_v3._SVMRegressor", Generated.Ctors.ml_v3.f_svmregressor, Generated.Schemas.ml_v3.s_SVMRegressor_1), 
   ("ml_v3._Scaler", Generated.Ctors.ml_v3.f_scaler, Generated.Schemas.ml_v3.s_Scaler_1), 
   ("ml_v3._TreeEnsembleClassifier", Generated.Ctors.ml_v3.f_tree_ensemble_classifier, Generated.Schemas.ml_v3.s_TreeEnsembleClassifier_3), 
   ("ml_v3._TreeEnsembleRegressor", Generated.Ctors.ml_v3.f_tree_ensemble_regressor, Generated.Schemas.ml_v3.s_TreeEnsembleRegressor_3), 
   ("ml_v3._ZipMap", Generated.Ctors.ml_v3.f_zip_map, Generated.Schemas.ml_v3.s_ZipMap_1)]

theorem table_all : table.all entryOK = true :=
  all_cons conforms_ml_v4_ArrayFeatureExtractor (
  all_cons conforms_ml_v4_Binarizer (
  all_cons conforms_ml_v4_CastMap (
  all_cons conforms_ml_v4_CategoryMapper (
  all_cons conforms_ml_v4_DictVectorizer (
  all_cons conforms_ml_v4_FeatureVectorizer (
  all_cons conforms_ml_v4_Imputer (
  all_cons conforms_ml_v4_LabelEncoder (
  all_cons conforms_ml_v4_LinearClassifier (
  all_cons conforms_ml_v4_LinearRegressor (
  all_cons conforms_ml_v4_Normalizer (
  all_cons conforms_ml_v4_OneHotEncoder (
  all_cons conforms_ml_v4_SVMClassifier (
  all_cons conforms_ml_v4_SVMRegressor (
  all_cons conforms_ml_v4_Scaler (
  all_cons conforms_ml_v4_TreeEnsembleClassifier (
  all_cons conforms_ml_v4_TreeEnsembleRegressor (
  all_cons conforms_ml_v4_ZipMap (
  all_nil))))))))))))))))))

theorem table_conforms : ∀ e ∈ table, entryOK e = true :=
  fun e he => List.all_eq_true.mp table_all e he

/-- every operator/module pair of this module (deviating ones included: deviations concern attributes) -/
def allEntries : List Entry :=
  [
   ("ml_v3._ArrayFeatureExtractor", Generated.Ctors.ml_v3.f_array_feature_extractor, Generated.Schemas.ml_v3.s_ArrayFeatureExtractor_1), 
   ("ml_v3._Binarizer", Generated.Ctors.ml_v3.f_binarizer, Generated.Schemas.ml_v3.s_Binarizer_1), 
   ("ml_v3._CastMap", Generated.Ctors.ml_v3.f_cast_map, Generated.Schemas.ml_v3.s_CastMap_1), 
   ("ml_v3._CategoryMapper", Generated.Ctors.ml_v3.f_category_mapper, Generated.Schemas.ml_v3.s_CategoryMapper_1), 
   ("ml_v3._DictVectorizer", Generated.Ctors.ml_v3.f_dict_vectorizer, Generated.Schemas.ml_v3.s_DictVectorizer_1), 
   ("ml_v3._FeatureVectorizer", Generated.Ctors.ml_v3.f_feature_vectorizer, Generated.Schemas.ml_v3.s_FeatureVectorizer_1), 
   ("ml_v3._Imputer", Generated.Ctors.ml_v3.f_imputer, Generated.Schemas.ml_v3.s_Imputer_1), 
   ("ml_v4._LabelEncoder", Generated.Ctors.ml_v4.f_label_encoder, Generated.Schemas.ml_v4.s_LabelEncoder_4), 
   ("ml_v3._LinearClassifier", Generated.Ctors.ml_v3.f_linear_classifier, Generated.Schemas.ml_v3.s_LinearClassifier_1), 
   ("ml_v3._LinearRegressor", Generated.Ctors.ml_v3.f_linear_regressor, Generated.Schemas.ml_v3.s_LinearRegressor_1), 
   ("ml_v3._Normalizer", Generated.Ctors.ml_v3.f_normalizer, Generated.Schemas.ml_v3.s_Normalizer_1), 
   ("ml_v3._OneHotEncoder", Generated.Ctors.ml_v3.f_one_hot_encoder, Generated.Schemas.ml_v3.s_OneHotEncoder_1), 
   ("ml_v3._SVMClassifier", Generated.Ctors.ml_v3.f_svmclassifier, Generated.Schemas.ml_v3.s_SVMClassifier_1), 
   ("ml_v3._SVMRegressor", Generated.Ctors.ml_v3.f_svmregressor, Generated.Schemas.ml_v3.s_SVMRegressor_1), 
   ("ml_v3._Scaler", Generated.Ctors.ml_v3.f_scaler, Generated.Schemas.ml_v3.s_Scaler_1), 
   ("ml_v3._TreeEnsembleClassifier", Generated.Ctors.ml_v3.f_tree_ensemble_classifier, Generated.Schemas.ml_v3.s_TreeEnsembleClassifier_3), 
   ("ml_v3._TreeEnsembleRegressor", Generated.Ctors.ml_v3.f_tree_ensemble_regressor, Generated.Schemas.ml_v3.s_TreeEnsembleRegressor_3), 
   ("ml_v3._ZipMap", Generated.Ctors.ml_v3.f_zip_map, Generated.Schemas.ml_v3.s_ZipMap_1)]

theorem slots_all : allEntries.all slotOK = true :=
  all_cons slots_ml_v4_ArrayFeatureExtractor (
  all_cons slots_ml_v4_Binarizer (
  all_cons slots_ml_v4_CastMap (
  all_cons slots_ml_v4_CategoryMapper (
  all_cons slots_ml_v4_DictVectorizer (
  all_cons slots_ml_v4_FeatureVectorizer (
  all_cons slots_ml_v4_Imputer (
  all_cons slots_ml_v4_LabelEncoder (
  all_cons slots_ml_v4_LinearClassifier (
  all_cons slots_ml_v4_LinearRegressor (
  all_cons slots_ml_v4_Normalizer (
  all_cons slots_ml_v4_OneHotEncoder (
  all_cons slots_ml_v4_SVMClassifier (
  all_cons slots_ml_v4_SVMRegressor (
  all_cons slots_ml_v4_Scaler (
  all_cons slots_ml_v4_TreeEnsembleClassifier (
  all_cons slots_ml_v4_TreeEnsembleRegressor (
  all_cons slots_ml_v4_ZipMap (
  all_nil))))))))))))))))))

theorem table_slots : ∀ e ∈ allEntries, slotOK e = true :=
  fun e he => List.all_eq_true.mp slots_all e he

/-- pairs with listed deviations (known findings), each with what is excepted -/
def deviating : List (List String × Entry) :=
  []

theorem deviating_conforms : ∀ d ∈ deviating, entryOKExcept d.1 d.2 = true := by decide +kernel

end Generated.Conforms.ml_v4
