-- GENERATED from src/spox/opset/ai/onnx/v20.py + onnx.defs by translator/constructors.py on every run; do not edit.
import SpoxModel.Generated.Constructors_v20
import SpoxModel.Generated.Schemas_v20
import SpoxModel.Generated.Conforms_v19
namespace Generated.Conforms.v20
open Conform

theorem conforms_v20_Abs : entryOK ("v17._Abs", Generated.Ctors.v17.f_abs, Generated.Schemas.v17.s_Abs_13) = true := Generated.Conforms.v17.conforms_v17_Abs

theorem slots_v20_Abs : slotOK ("v17._Abs", Generated.Ctors.v17.f_abs, Generated.Schemas.v17.s_Abs_13) = true := Generated.Conforms.v17.slots_v17_Abs

theorem conforms_v20_Acos : entryOK ("v17._Acos", Generated.Ctors.v17.f_acos, Generated.Schemas.v17.s_Acos_7) = true := Generated.Conforms.v17.conforms_v17_Acos

theorem slots_v20_Acos : slotOK ("v17._Acos", Generated.Ctors.v17.f_acos, Generated.Schemas.v17.s_Acos_7) = true := Generated.Conforms.v17.slots_v17_Acos

theorem conforms_v20_Acosh : entryOK ("v17._Acosh", Generated.Ctors.v17.f_acosh, Generated.Schemas.v17.s_Acosh_9) = true := Generated.Conforms.v17.conforms_v17_Acosh

theorem slots_v20_Acosh : slotOK ("v17._Acosh", Generated.Ctors.v17.f_acosh, Generated.Schemas.v17.s_Acosh_9) = true := Generated.Conforms.v17.slots_v17_Acosh

theorem conforms_v20_Add : entryOK ("v17._Add", Generated.Ctors.v17.f_add, Generated.Schemas.v17.s_Add_14) = true := Generated.Conforms.v17.conforms_v17_Add

theorem slots_v20_Add : slotOK ("v17._Add", Generated.Ctors.v17.f_add, Generated.Schemas.v17.s_Add_14) = true := Generated.Conforms.v17.slots_v17_Add

theorem conforms_v20_AffineGrid : entryOK ("v20._AffineGrid", Generated.Ctors.v20.f_affine_grid, Generated.Schemas.v20.s_AffineGrid_20) = true := by decide +kernel

theorem slots_v20_AffineGrid : slotOK ("v20._AffineGrid", Generated.Ctors.v20.f_affine_grid, Generated.Schemas.v20.s_AffineGrid_20) = true := by decide +kernel

theorem conforms_v20_And : entryOK ("v17._And", Generated.Ctors.v17.f_and_, Generated.Schemas.v17.s_And_7) = true := Generated.Conforms.v17.conforms_v17_And

theorem slots_v20_And : slotOK ("v17._And", Generated.Ctors.v17.f_and_, Generated.Schemas.v17.s_And_7) = true := Generated.Conforms.v17.slots_v17_And

theorem conforms_v20_ArgMax : entryOK ("v17._ArgMax", Generated.Ctors.v17.f_arg_max, Generated.Schemas.v17.s_ArgMax_13) = true := Generated.Conforms.v17.conforms_v17_ArgMax

theorem slots_v20_ArgMax : slotOK ("v17._ArgMax", Generated.Ctors.v17.f_arg_max, Generated.Schemas.v17.s_ArgMax_13) = true := Generated.Conforms.v17.slots_v17_ArgMax

theorem conforms_v20_ArgMin : entryOK ("v17._ArgMin", Generated.Ctors.v17.f_arg_min, Generated.Schemas.v17.s_ArgMin_13) = true := Generated.Conforms.v17.conforms_v17_ArgMin

theorem slots_v20_ArgMin : slotOK ("v17._ArgMin", Generated.Ctors.v17.f_arg_min, Generated.Schemas.v17.s_ArgMin_13) = true := Generated.Conforms.v17.slots_v17_ArgMin

theorem conforms_v20_Asin : entryOK ("v17._Asin", Generated.Ctors.v17.f_asin, Generated.Schemas.v17.s_Asin_7) = true := Generated.Conforms.v17.conforms_v17_Asin

theorem slots_v20_Asin : slotOK ("v17._Asin", Generated.Ctors.v17.f_asin, Generated.Schemas.v17.s_Asin_7) = true := Generated.Conforms.v17.slots_v17_Asin

theorem conforms_v20_Asinh : entryOK ("v17._Asinh", Generated.Ctors.v17.f_asinh, Generated.Schemas.v17.s_Asinh_9) = true := Generated.Conforms.v17.conforms_v17_Asinh

theorem slots_v20_Asinh : slotOK ("v17._Asinh", Generated.Ctors.v17.f_asinh, Generated.Schemas.v17.s_Asinh_9) = true := Generated.Conforms.v17.slots_v17_Asinh

theorem conforms_v20_Atan : entryOK ("v17._Atan", Generated.Ctors.v17.f_atan, Generated.Schemas.v17.s_Atan_7) = true := Generated.Conforms.v17.conforms_v17_Atan

theorem slots_v20_Atan : slotOK ("v17._Atan", Generated.Ctors.v17.f_atan, Generated.Schemas.v17.s_Atan_7) = true := Generated.Conforms.v17.slots_v17_Atan

theorem conforms_v20_Atanh : entryOK ("v17._Atanh", Generated.Ctors.v17.f_atanh, Generated.Schemas.v17.s_Atanh_9) = true := Generated.Conforms.v17.conforms_v17_Atanh

theorem slots_v20_Atanh : slotOK ("v17._Atanh", Generated.Ctors.v17.f_atanh, Generated.Schemas.v17.s_Atanh_9) = true := Generated.Conforms.v17.slots_v17_Atanh

theorem conforms_v20_AveragePool : entryOK ("v19._AveragePool", Generated.Ctors.v19.f_average_pool, Generated.Schemas.v19.s_AveragePool_19) = true := Generated.Conforms.v19.conforms_v19_AveragePool

theorem slots_v20_AveragePool : slotOK ("v19._AveragePool", Generated.Ctors.v19.f_average_pool, Generated.Schemas.v19.s_AveragePool_19) = true := Generated.Conforms.v19.slots_v19_AveragePool

theorem conforms_v20_BatchNormalization : entryOK ("v17._BatchNormalization", Generated.Ctors.v17.f_batch_normalization, Generated.Schemas.v17.s_BatchNormalization_15) = true := Generated.Conforms.v17.conforms_v17_BatchNormalization

theorem slots_v20_BatchNormalization : slotOK ("v17._BatchNormalization", Generated.Ctors.v17.f_batch_normalization, Generated.Schemas.v17.s_BatchNormalization_15) = true := Generated.Conforms.v17.slots_v17_BatchNormalization

theorem conforms_v20_Bernoulli : entryOK ("v17._Bernoulli", Generated.Ctors.v17.f_bernoulli, Generated.Schemas.v17.s_Bernoulli_15) = true := Generated.Conforms.v17.conforms_v17_Bernoulli

theorem slots_v20_Bernoulli : slotOK ("v17._Bernoulli", Generated.Ctors.v17.f_bernoulli, Generated.Schemas.v17.s_Bernoulli_15) = true := Generated.Conforms.v17.slots_v17_Bernoulli

theorem conforms_v20_BitShift : entryOK ("v17._BitShift", Generated.Ctors.v17.f_bit_shift, Generated.Schemas.v17.s_BitShift_11) = true := Generated.Conforms.v17.conforms_v17_BitShift

theorem slots_v20_BitShift : slotOK ("v17._BitShift", Generated.Ctors.v17.f_bit_shift, Generated.Schemas.v17.s_BitShift_11) = true := Generated.Conforms.v17.slots_v17_BitShift

theorem conforms_v20_BitwiseAnd : entryOK ("v18._BitwiseAnd", Generated.Ctors.v18.f_bitwise_and, Generated.Schemas.v18.s_BitwiseAnd_18) = true := Generated.Conforms.v18.conforms_v18_BitwiseAnd

theorem slots_v20_BitwiseAnd : slotOK ("v18._BitwiseAnd", Generated.Ctors.v18.f_bitwise_and, Generated.Schemas.v18.s_BitwiseAnd_18) = true := Generated.Conforms.v18.slots_v18_BitwiseAnd

theorem conforms_v20_BitwiseNot : entryOK ("v18._BitwiseNot", Generated.Ctors.v18.f_bitwise_not, Generated.Schemas.v18.s_BitwiseNot_18) = true := Generated.Conforms.v18.conforms_v18_BitwiseNot

theorem slots_v20_BitwiseNot : slotOK ("v18._BitwiseNot", Generated.Ctors.v18.f_bitwise_not, Generated.Schemas.v18.s_BitwiseNot_18) = true := Generated.Conforms.v18.slots_v18_BitwiseNot

theorem conforms_v20_BitwiseOr : entryOK ("v18._BitwiseOr", Generated.Ctors.v18.f_bitwise_or, Generated.Schemas.v18.s_BitwiseOr_18) = true := Generated.Conforms.v18.conforms_v18_BitwiseOr

theorem slots_v20_BitwiseOr : slotOK ("v18._BitwiseOr", Generated.Ctors.v18.f_bitwise_or, Generated.Schemas.v18.s_BitwiseOr_18) = true := Generated.Conforms.v18.slots_v18_BitwiseOr

theorem conforms_v20_BitwiseXor : entryOK ("v18._BitwiseXor", Generated.Ctors.v18.f_bitwise_xor, Generated.Schemas.v18.s_BitwiseXor_18) = true := Generated.Conforms.v18.conforms_v18_BitwiseXor

theorem slots_v20_BitwiseXor : slotOK ("v18._BitwiseXor", Generated.Ctors.v18.f_bitwise_xor, Generated.Schemas.v18.s_BitwiseXor_18) = true := Generated.Conforms.v18.slots_v18_BitwiseXor

theorem conforms_v20_BlackmanWindow : entryOK ("v17._BlackmanWindow", Generated.Ctors.v17.f_blackman_window, Generated.Schemas.v17.s_BlackmanWindow_17) = true := Generated.Conforms.v17.conforms_v17_BlackmanWindow

theorem slots_v20_BlackmanWindow : slotOK ("v17._BlackmanWindow", Generated.Ctors.v17.f_blackman_window, Generated.Schemas.v17.s_BlackmanWindow_17) = true := Generated.Conforms.v17.slots_v17_BlackmanWindow

theorem conforms_v20_Cast : entryOK ("v19._Cast", Generated.Ctors.v19.f_cast, Generated.Schemas.v19.s_Cast_19) = true := Generated.Conforms.v19.conforms_v19_Cast

theorem slots_v20_Cast : slotOK ("v19._Cast", Generated.Ctors.v19.f_cast, Generated.Schemas.v19.s_Cast_19) = true := Generated.Conforms.v19.slots_v19_Cast

theorem conforms_v20_CastLike : entryOK ("v19._CastLike", Generated.Ctors.v19.f_cast_like, Generated.Schemas.v19.s_CastLike_19) = true := Generated.Conforms.v19.conforms_v19_CastLike

theorem slots_v20_CastLike : slotOK ("v19._CastLike", Generated.Ctors.v19.f_cast_like, Generated.Schemas.v19.s_CastLike_19) = true := Generated.Conforms.v19.slots_v19_CastLike

theorem conforms_v20_Ceil : entryOK ("v17._Ceil", Generated.Ctors.v17.f_ceil, Generated.Schemas.v17.s_Ceil_13) = true := Generated.Conforms.v17.conforms_v17_Ceil

theorem slots_v20_Ceil : slotOK ("v17._Ceil", Generated.Ctors.v17.f_ceil, Generated.Schemas.v17.s_Ceil_13) = true := Generated.Conforms.v17.slots_v17_Ceil

theorem conforms_v20_Celu : entryOK ("v17._Celu", Generated.Ctors.v17.f_celu, Generated.Schemas.v17.s_Celu_12) = true := Generated.Conforms.v17.conforms_v17_Celu

theorem slots_v20_Celu : slotOK ("v17._Celu", Generated.Ctors.v17.f_celu, Generated.Schemas.v17.s_Celu_12) = true := Generated.Conforms.v17.slots_v17_Celu

theorem conforms_v20_CenterCropPad : entryOK ("v18._CenterCropPad", Generated.Ctors.v18.f_center_crop_pad, Generated.Schemas.v18.s_CenterCropPad_18) = true := Generated.Conforms.v18.conforms_v18_CenterCropPad

theorem slots_v20_CenterCropPad : slotOK ("v18._CenterCropPad", Generated.Ctors.v18.f_center_crop_pad, Generated.Schemas.v18.s_CenterCropPad_18) = true := Generated.Conforms.v18.slots_v18_CenterCropPad

theorem conforms_v20_Clip : entryOK ("v17._Clip", Generated.Ctors.v17.f_clip, Generated.Schemas.v17.s_Clip_13) = true := Generated.Conforms.v17.conforms_v17_Clip

theorem slots_v20_Clip : slotOK ("v17._Clip", Generated.Ctors.v17.f_clip, Generated.Schemas.v17.s_Clip_13) = true := Generated.Conforms.v17.slots_v17_Clip

theorem conforms_v20_Col2Im : entryOK ("v18._Col2Im", Generated.Ctors.v18.f_col2_im, Generated.Schemas.v18.s_Col2Im_18) = true := Generated.Conforms.v18.conforms_v18_Col2Im

theorem slots_v20_Col2Im : slotOK ("v18._Col2Im", Generated.Ctors.v18.f_col2_im, Generated.Schemas.v18.s_Col2Im_18) = true := Generated.Conforms.v18.slots_v18_Col2Im

theorem conforms_v20_Compress : entryOK ("v17._Compress", Generated.Ctors.v17.f_compress, Generated.Schemas.v17.s_Compress_11) = true := Generated.Conforms.v17.conforms_v17_Compress

theorem slots_v20_Compress : slotOK ("v17._Compress", Generated.Ctors.v17.f_compress, Generated.Schemas.v17.s_Compress_11) = true := Generated.Conforms.v17.slots_v17_Compress

theorem conforms_v20_Concat : entryOK ("v17._Concat", Generated.Ctors.v17.f_concat, Generated.Schemas.v17.s_Concat_13) = true := Generated.Conforms.v17.conforms_v17_Concat

theorem slots_v20_Concat : slotOK ("v17._Concat", Generated.Ctors.v17.f_concat, Generated.Schemas.v17.s_Concat_13) = true := Generated.Conforms.v17.slots_v17_Concat

theorem conforms_v20_ConcatFromSequence : entryOK ("v17._ConcatFromSequence", Generated.Ctors.v17.f_concat_from_sequence, Generated.Schemas.v17.s_ConcatFromSequence_11) = true := Generated.Conforms.v17.conforms_v17_ConcatFromSequence

theorem slots_v20_ConcatFromSequence : slotOK ("v17._ConcatFromSequence", Generated.Ctors.v17.f_concat_from_sequence, Generated.Schemas.v17.s_ConcatFromSequence_11) = true := Generated.Conforms.v17.slots_v17_ConcatFromSequence

/-- known deviation (findings.d/C11.json): conforms in everything but the absent attribute(s) -/
theorem conforms_v20_Constant : entryOKExcept ["sparse_value"] ("v19._Constant", Generated.Ctors.v19.f_constant, Generated.Schemas.v19.s_Constant_19) = true := Generated.Conforms.v19.conforms_v19_Constant

theorem slots_v20_Constant : slotOK ("v19._Constant", Generated.Ctors.v19.f_constant, Generated.Schemas.v19.s_Constant_19) = true := Generated.Conforms.v19.slots_v19_Constant

theorem conforms_v20_ConstantOfShape : entryOK ("v20._ConstantOfShape", Generated.Ctors.v20.f_constant_of_shape, Generated.Schemas.v20.s_ConstantOfShape_20) = true := by decide +kernel

theorem slots_v20_ConstantOfShape : slotOK ("v20._ConstantOfShape", Generated.Ctors.v20.f_constant_of_shape, Generated.Schemas.v20.s_ConstantOfShape_20) = true := by decide +kernel

theorem conforms_v20_Conv : entryOK ("v17._Conv", Generated.Ctors.v17.f_conv, Generated.Schemas.v17.s_Conv_11) = true := Generated.Conforms.v17.conforms_v17_Conv

theorem slots_v20_Conv : slotOK ("v17._Conv", Generated.Ctors.v17.f_conv, Generated.Schemas.v17.s_Conv_11) = true := Generated.Conforms.v17.slots_v17_Conv

theorem conforms_v20_ConvInteger : entryOK ("v17._ConvInteger", Generated.Ctors.v17.f_conv_integer, Generated.Schemas.v17.s_ConvInteger_10) = true := Generated.Conforms.v17.conforms_v17_ConvInteger

theorem slots_v20_ConvInteger : slotOK ("v17._ConvInteger", Generated.Ctors.v17.f_conv_integer, Generated.Schemas.v17.s_ConvInteger_10) = true := Generated.Conforms.v17.slots_v17_ConvInteger

theorem conforms_v20_ConvTranspose : entryOK ("v17._ConvTranspose", Generated.Ctors.v17.f_conv_transpose, Generated.Schemas.v17.s_ConvTranspose_11) = true := Generated.Conforms.v17.conforms_v17_ConvTranspose

theorem slots_v20_ConvTranspose : slotOK ("v17._ConvTranspose", Generated.Ctors.v17.f_conv_transpose, Generated.Schemas.v17.s_ConvTranspose_11) = true := Generated.Conforms.v17.slots_v17_ConvTranspose

theorem conforms_v20_Cos : entryOK ("v17._Cos", Generated.Ctors.v17.f_cos, Generated.Schemas.v17.s_Cos_7) = true := Generated.Conforms.v17.conforms_v17_Cos

theorem slots_v20_Cos : slotOK ("v17._Cos", Generated.Ctors.v17.f_cos, Generated.Schemas.v17.s_Cos_7) = true := Generated.Conforms.v17.slots_v17_Cos

theorem conforms_v20_Cosh : entryOK ("v17._Cosh", Generated.Ctors.v17.f_cosh, Generated.Schemas.v17.s_Cosh_9) = true := Generated.Conforms.v17.conforms_v17_Cosh

theorem slots_v20_Cosh : slotOK ("v17._Cosh", Generated.Ctors.v17.f_cosh, Generated.Schemas.v17.s_Cosh_9) = true := Generated.Conforms.v17.slots_v17_Cosh

theorem conforms_v20_CumSum : entryOK ("v17._CumSum", Generated.Ctors.v17.f_cumsum, Generated.Schemas.v17.s_CumSum_14) = true := Generated.Conforms.v17.conforms_v17_CumSum

theorem slots_v20_CumSum : slotOK ("v17._CumSum", Generated.Ctors.v17.f_cumsum, Generated.Schemas.v17.s_CumSum_14) = true := Generated.Conforms.v17.slots_v17_CumSum

theorem conforms_v20_DFT : entryOK ("v20._DFT", Generated.Ctors.v20.f_dft, Generated.Schemas.v20.s_DFT_20) = true := by decide +kernel

theorem slots_v20_DFT : slotOK ("v20._DFT", Generated.Ctors.v20.f_dft, Generated.Schemas.v20.s_DFT_20) = true := by decide +kernel

theorem conforms_v20_DeformConv : entryOK ("v19._DeformConv", Generated.Ctors.v19.f_deform_conv, Generated.Schemas.v19.s_DeformConv_19) = true := Generated.Conforms.v19.conforms_v19_DeformConv

theorem slots_v20_DeformConv : slotOK ("v19._DeformConv", Generated.Ctors.v19.f_deform_conv, Generated.Schemas.v19.s_DeformConv_19) = true := Generated.Conforms.v19.slots_v19_DeformConv

theorem conforms_v20_DepthToSpace : entryOK ("v17._DepthToSpace", Generated.Ctors.v17.f_depth_to_space, Generated.Schemas.v17.s_DepthToSpace_13) = true := Generated.Conforms.v17.conforms_v17_DepthToSpace

theorem slots_v20_DepthToSpace : slotOK ("v17._DepthToSpace", Generated.Ctors.v17.f_depth_to_space, Generated.Schemas.v17.s_DepthToSpace_13) = true := Generated.Conforms.v17.slots_v17_DepthToSpace

theorem conforms_v20_DequantizeLinear : entryOK ("v19._DequantizeLinear", Generated.Ctors.v19.f_dequantize_linear, Generated.Schemas.v19.s_DequantizeLinear_19) = true := Generated.Conforms.v19.conforms_v19_DequantizeLinear

theorem slots_v20_DequantizeLinear : slotOK ("v19._DequantizeLinear", Generated.Ctors.v19.f_dequantize_linear, Generated.Schemas.v19.s_DequantizeLinear_19) = true := Generated.Conforms.v19.slots_v19_DequantizeLinear

theorem conforms_v20_Det : entryOK ("v17._Det", Generated.Ctors.v17.f_det, Generated.Schemas.v17.s_Det_11) = true := Generated.Conforms.v17.conforms_v17_Det

theorem slots_v20_Det : slotOK ("v17._Det", Generated.Ctors.v17.f_det, Generated.Schemas.v17.s_Det_11) = true := Generated.Conforms.v17.slots_v17_Det

theorem conforms_v20_Div : entryOK ("v17._Div", Generated.Ctors.v17.f_div, Generated.Schemas.v17.s_Div_14) = true := Generated.Conforms.v17.conforms_v17_Div

theorem slots_v20_Div : slotOK ("v17._Div", Generated.Ctors.v17.f_div, Generated.Schemas.v17.s_Div_14) = true := Generated.Conforms.v17.slots_v17_Div

theorem conforms_v20_Dropout : entryOK ("v17._Dropout", Generated.Ctors.v17.f_dropout, Generated.Schemas.v17.s_Dropout_13) = true := Generated.Conforms.v17.conforms_v17_Dropout

theorem slots_v20_Dropout : slotOK ("v17._Dropout", Generated.Ctors.v17.f_dropout, Generated.Schemas.v17.s_Dropout_13) = true := Generated.Conforms.v17.slots_v17_Dropout

theorem conforms_v20_DynamicQuantizeLinear : entryOK ("v17._DynamicQuantizeLinear", Generated.Ctors.v17.f_dynamic_quantize_linear, Generated.Schemas.v17.s_DynamicQuantizeLinear_11) = true := Generated.Conforms.v17.conforms_v17_DynamicQuantizeLinear

theorem slots_v20_DynamicQuantizeLinear : slotOK ("v17._DynamicQuantizeLinear", Generated.Ctors.v17.f_dynamic_quantize_linear, Generated.Schemas.v17.s_DynamicQuantizeLinear_11) = true := Generated.Conforms.v17.slots_v17_DynamicQuantizeLinear

theorem conforms_v20_Einsum : entryOK ("v17._Einsum", Generated.Ctors.v17.f_einsum, Generated.Schemas.v17.s_Einsum_12) = true := Generated.Conforms.v17.conforms_v17_Einsum

theorem slots_v20_Einsum : slotOK ("v17._Einsum", Generated.Ctors.v17.f_einsum, Generated.Schemas.v17.s_Einsum_12) = true := Generated.Conforms.v17.slots_v17_Einsum

theorem conforms_v20_Elu : entryOK ("v17._Elu", Generated.Ctors.v17.f_elu, Generated.Schemas.v17.s_Elu_6) = true := Generated.Conforms.v17.conforms_v17_Elu

theorem slots_v20_Elu : slotOK ("v17._Elu", Generated.Ctors.v17.f_elu, Generated.Schemas.v17.s_Elu_6) = true := Generated.Conforms.v17.slots_v17_Elu

theorem conforms_v20_Equal : entryOK ("v19._Equal", Generated.Ctors.v19.f_equal, Generated.Schemas.v19.s_Equal_19) = true := Generated.Conforms.v19.conforms_v19_Equal

theorem slots_v20_Equal : slotOK ("v19._Equal", Generated.Ctors.v19.f_equal, Generated.Schemas.v19.s_Equal_19) = true := Generated.Conforms.v19.slots_v19_Equal

theorem conforms_v20_Erf : entryOK ("v17._Erf", Generated.Ctors.v17.f_erf, Generated.Schemas.v17.s_Erf_13) = true := Generated.Conforms.v17.conforms_v17_Erf

theorem slots_v20_Erf : slotOK ("v17._Erf", Generated.Ctors.v17.f_erf, Generated.Schemas.v17.s_Erf_13) = true := Generated.Conforms.v17.slots_v17_Erf

theorem conforms_v20_Exp : entryOK ("v17._Exp", Generated.Ctors.v17.f_exp, Generated.Schemas.v17.s_Exp_13) = true := Generated.Conforms.v17.conforms_v17_Exp

theorem slots_v20_Exp : slotOK ("v17._Exp", Generated.Ctors.v17.f_exp, Generated.Schemas.v17.s_Exp_13) = true := Generated.Conforms.v17.slots_v17_Exp

theorem conforms_v20_Expand : entryOK ("v17._Expand", Generated.Ctors.v17.f_expand, Generated.Schemas.v17.s_Expand_13) = true := Generated.Conforms.v17.conforms_v17_Expand

theorem slots_v20_Expand : slotOK ("v17._Expand", Generated.Ctors.v17.f_expand, Generated.Schemas.v17.s_Expand_13) = true := Generated.Conforms.v17.slots_v17_Expand

theorem conforms_v20_EyeLike : entryOK ("v17._EyeLike", Generated.Ctors.v17.f_eye_like, Generated.Schemas.v17.s_EyeLike_9) = true := Generated.Conforms.v17.conforms_v17_EyeLike

theorem slots_v20_EyeLike : slotOK ("v17._EyeLike", Generated.Ctors.v17.f_eye_like, Generated.Schemas.v17.s_EyeLike_9) = true := Generated.Conforms.v17.slots_v17_EyeLike

theorem conforms_v20_Flatten : entryOK ("v17._Flatten", Generated.Ctors.v17.f_flatten, Generated.Schemas.v17.s_Flatten_13) = true := Generated.Conforms.v17.conforms_v17_Flatten

theorem slots_v20_Flatten : slotOK ("v17._Flatten", Generated.Ctors.v17.f_flatten, Generated.Schemas.v17.s_Flatten_13) = true := Generated.Conforms.v17.slots_v17_Flatten

theorem conforms_v20_Floor : entryOK ("v17._Floor", Generated.Ctors.v17.f_floor, Generated.Schemas.v17.s_Floor_13) = true := Generated.Conforms.v17.conforms_v17_Floor

theorem slots_v20_Floor : slotOK ("v17._Floor", Generated.Ctors.v17.f_floor, Generated.Schemas.v17.s_Floor_13) = true := Generated.Conforms.v17.slots_v17_Floor

theorem conforms_v20_GRU : entryOK ("v17._GRU", Generated.Ctors.v17.f_gru, Generated.Schemas.v17.s_GRU_14) = true := Generated.Conforms.v17.conforms_v17_GRU

theorem slots_v20_GRU : slotOK ("v17._GRU", Generated.Ctors.v17.f_gru, Generated.Schemas.v17.s_GRU_14) = true := Generated.Conforms.v17.slots_v17_GRU

theorem conforms_v20_Gather : entryOK ("v17._Gather", Generated.Ctors.v17.f_gather, Generated.Schemas.v17.s_Gather_13) = true := Generated.Conforms.v17.conforms_v17_Gather

theorem slots_v20_Gather : slotOK ("v17._Gather", Generated.Ctors.v17.f_gather, Generated.Schemas.v17.s_Gather_13) = true := Generated.Conforms.v17.slots_v17_Gather

theorem conforms_v20_GatherElements : entryOK ("v17._GatherElements", Generated.Ctors.v17.f_gather_elements, Generated.Schemas.v17.s_GatherElements_13) = true := Generated.Conforms.v17.conforms_v17_GatherElements

theorem slots_v20_GatherElements : slotOK ("v17._GatherElements", Generated.Ctors.v17.f_gather_elements, Generated.Schemas.v17.s_GatherElements_13) = true := Generated.Conforms.v17.slots_v17_GatherElements

theorem conforms_v20_GatherND : entryOK ("v17._GatherND", Generated.Ctors.v17.f_gather_nd, Generated.Schemas.v17.s_GatherND_13) = true := Generated.Conforms.v17.conforms_v17_GatherND

theorem slots_v20_GatherND : slotOK ("v17._GatherND", Generated.Ctors.v17.f_gather_nd, Generated.Schemas.v17.s_GatherND_13) = true := Generated.Conforms.v17.slots_v17_GatherND

theorem conforms_v20_Gelu : entryOK ("v20._Gelu", Generated.Ctors.v20.f_gelu, Generated.Schemas.v20.s_Gelu_20) = true := by decide +kernel

theorem slots_v20_Gelu : slotOK ("v20._Gelu", Generated.Ctors.v20.f_gelu, Generated.Schemas.v20.s_Gelu_20) = true := by decide +kernel

theorem conforms_v20_Gemm : entryOK ("v17._Gemm", Generated.Ctors.v17.f_gemm, Generated.Schemas.v17.s_Gemm_13) = true := Generated.Conforms.v17.conforms_v17_Gemm

theorem slots_v20_Gemm : slotOK ("v17._Gemm", Generated.Ctors.v17.f_gemm, Generated.Schemas.v17.s_Gemm_13) = true := Generated.Conforms.v17.slots_v17_Gemm

theorem conforms_v20_GlobalAveragePool : entryOK ("v17._GlobalAveragePool", Generated.Ctors.v17.f_global_average_pool, Generated.Schemas.v17.s_GlobalAveragePool_1) = true := Generated.Conforms.v17.conforms_v17_GlobalAveragePool

theorem slots_v20_GlobalAveragePool : slotOK ("v17._GlobalAveragePool", Generated.Ctors.v17.f_global_average_pool, Generated.Schemas.v17.s_GlobalAveragePool_1) = true := Generated.Conforms.v17.slots_v17_GlobalAveragePool

theorem conforms_v20_GlobalLpPool : entryOK ("v17._GlobalLpPool", Generated.Ctors.v17.f_global_lp_pool, Generated.Schemas.v17.s_GlobalLpPool_2) = true := Generated.Conforms.v17.conforms_v17_GlobalLpPool

theorem slots_v20_GlobalLpPool : slotOK ("v17._GlobalLpPool", Generated.Ctors.v17.f_global_lp_pool, Generated.Schemas.v17.s_GlobalLpPool_2) = true := Generated.Conforms.v17.slots_v17_GlobalLpPool

theorem conforms_v20_GlobalMaxPool : entryOK ("v17._GlobalMaxPool", Generated.Ctors.v17.f_global_max_pool, Generated.Schemas.v17.s_GlobalMaxPool_1) = true := Generated.Conforms.v17.conforms_v17_GlobalMaxPool

theorem slots_v20_GlobalMaxPool : slotOK ("v17._GlobalMaxPool", Generated.Ctors.v17.f_global_max_pool, Generated.Schemas.v17.s_GlobalMaxPool_1) = true := Generated.Conforms.v17.slots_v17_GlobalMaxPool

theorem conforms_v20_Greater : entryOK ("v17._Greater", Generated.Ctors.v17.f_greater, Generated.Schemas.v17.s_Greater_13) = true := Generated.Conforms.v17.conforms_v17_Greater

theorem slots_v20_Greater : slotOK ("v17._Greater", Generated.Ctors.v17.f_greater, Generated.Schemas.v17.s_Greater_13) = true := Generated.Conforms.v17.slots_v17_Greater

theorem conforms_v20_GreaterOrEqual : entryOK ("v17._GreaterOrEqual", Generated.Ctors.v17.f_greater_or_equal, Generated.Schemas.v17.s_GreaterOrEqual_16) = true := Generated.Conforms.v17.conforms_v17_GreaterOrEqual

theorem slots_v20_GreaterOrEqual : slotOK ("v17._GreaterOrEqual", Generated.Ctors.v17.f_greater_or_equal, Generated.Schemas.v17.s_GreaterOrEqual_16) = true := Generated.Conforms.v17.slots_v17_GreaterOrEqual

theorem conforms_v20_GridSample : entryOK ("v20._GridSample", Generated.Ctors.v20.f_grid_sample, Generated.Schemas.v20.s_GridSample_20) = true := by decide +kernel

theorem slots_v20_GridSample : slotOK ("v20._GridSample", Generated.Ctors.v20.f_grid_sample, Generated.Schemas.v20.s_GridSample_20) = true := by decide +kernel

/-- known deviation (findings.d/C11.json): conforms in everything but the absent attribute(s) -/
theorem conforms_v20_GroupNormalization : entryOKExcept ["@deprecated"] ("v18._GroupNormalization", Generated.Ctors.v18.f_group_normalization, Generated.Schemas.v18.s_GroupNormalization_18) = true := Generated.Conforms.v18.conforms_v18_GroupNormalization

theorem slots_v20_GroupNormalization : slotOK ("v18._GroupNormalization", Generated.Ctors.v18.f_group_normalization, Generated.Schemas.v18.s_GroupNormalization_18) = true := Generated.Conforms.v18.slots_v18_GroupNormalization

theorem conforms_v20_HammingWindow : entryOK ("v17._HammingWindow", Generated.Ctors.v17.f_hamming_window, Generated.Schemas.v17.s_HammingWindow_17) = true := Generated.Conforms.v17.conforms_v17_HammingWindow

theorem slots_v20_HammingWindow : slotOK ("v17._HammingWindow", Generated.Ctors.v17.f_hamming_window, Generated.Schemas.v17.s_HammingWindow_17) = true := Generated.Conforms.v17.slots_v17_HammingWindow

theorem conforms_v20_HannWindow : entryOK ("v17._HannWindow", Generated.Ctors.v17.f_hann_window, Generated.Schemas.v17.s_HannWindow_17) = true := Generated.Conforms.v17.conforms_v17_HannWindow

theorem slots_v20_HannWindow : slotOK ("v17._HannWindow", Generated.Ctors.v17.f_hann_window, Generated.Schemas.v17.s_HannWindow_17) = true := Generated.Conforms.v17.slots_v17_HannWindow

theorem conforms_v20_HardSigmoid : entryOK ("v17._HardSigmoid", Generated.Ctors.v17.f_hard_sigmoid, Generated.Schemas.v17.s_HardSigmoid_6) = true := Generated.Conforms.v17.conforms_v17_HardSigmoid

theorem slots_v20_HardSigmoid : slotOK ("v17._HardSigmoid", Generated.Ctors.v17.f_hard_sigmoid, Generated.Schemas.v17.s_HardSigmoid_6) = true := Generated.Conforms.v17.slots_v17_HardSigmoid

theorem conforms_v20_HardSwish : entryOK ("v17._HardSwish", Generated.Ctors.v17.f_hard_swish, Generated.Schemas.v17.s_HardSwish_14) = true := Generated.Conforms.v17.conforms_v17_HardSwish

theorem slots_v20_HardSwish : slotOK ("v17._HardSwish", Generated.Ctors.v17.f_hard_swish, Generated.Schemas.v17.s_HardSwish_14) = true := Generated.Conforms.v17.slots_v17_HardSwish

theorem conforms_v20_Hardmax : entryOK ("v17._Hardmax", Generated.Ctors.v17.f_hardmax, Generated.Schemas.v17.s_Hardmax_13) = true := Generated.Conforms.v17.conforms_v17_Hardmax

theorem slots_v20_Hardmax : slotOK ("v17._Hardmax", Generated.Ctors.v17.f_hardmax, Generated.Schemas.v17.s_Hardmax_13) = true := Generated.Conforms.v17.slots_v17_Hardmax

theorem conforms_v20_Identity : entryOK ("v19._Identity", Generated.Ctors.v19.f_identity, Generated.Schemas.v19.s_Identity_19) = true := Generated.Conforms.v19.conforms_v19_Identity

theorem slots_v20_Identity : slotOK ("v19._Identity", Generated.Ctors.v19.f_identity, Generated.Schemas.v19.s_Identity_19) = true := Generated.Conforms.v19.slots_v19_Identity

theorem conforms_v20_If : entryOK ("v19._If", Generated.Ctors.v19.f_if_, Generated.Schemas.v19.s_If_19) = true := Generated.Conforms.v19.conforms_v19_If

theorem slots_v20_If : slotOK ("v19._If", Generated.Ctors.v19.f_if_, Generated.Schemas.v19.s_If_19) = true := Generated.Conforms.v19.slots_v19_If

theorem conforms_v20_ImageDecoder : entryOK ("v20._ImageDecoder", Generated.Ctors.v20.f_image_decoder, Generated.Schemas.v20.s_ImageDecoder_20) = true := by decide +kernel

theorem slots_v20_ImageDecoder : slotOK ("v20._ImageDecoder", Generated.Ctors.v20.f_image_decoder, Generated.Schemas.v20.s_ImageDecoder_20) = true := by decide +kernel

theorem conforms_v20_InstanceNormalization : entryOK ("v17._InstanceNormalization", Generated.Ctors.v17.f_instance_normalization, Generated.Schemas.v17.s_InstanceNormalization_6) = true := Generated.Conforms.v17.conforms_v17_InstanceNormalization

theorem slots_v20_InstanceNormalization : slotOK ("v17._InstanceNormalization", Generated.Ctors.v17.f_instance_normalization, Generated.Schemas.v17.s_InstanceNormalization_6) = true := Generated.Conforms.v17.slots_v17_InstanceNormalization

theorem conforms_v20_IsInf : entryOK ("v20._IsInf", Generated.Ctors.v20.f_isinf, Generated.Schemas.v20.s_IsInf_20) = true := by decide +kernel

theorem slots_v20_IsInf : slotOK ("v20._IsInf", Generated.Ctors.v20.f_isinf, Generated.Schemas.v20.s_IsInf_20) = true := by decide +kernel

theorem conforms_v20_IsNaN : entryOK ("v20._IsNaN", Generated.Ctors.v20.f_isnan, Generated.Schemas.v20.s_IsNaN_20) = true := by decide +kernel

theorem slots_v20_IsNaN : slotOK ("v20._IsNaN", Generated.Ctors.v20.f_isnan, Generated.Schemas.v20.s_IsNaN_20) = true := by decide +kernel

theorem conforms_v20_LRN : entryOK ("v17._LRN", Generated.Ctors.v17.f_lrn, Generated.Schemas.v17.s_LRN_13) = true := Generated.Conforms.v17.conforms_v17_LRN

theorem slots_v20_LRN : slotOK ("v17._LRN", Generated.Ctors.v17.f_lrn, Generated.Schemas.v17.s_LRN_13) = true := Generated.Conforms.v17.slots_v17_LRN

theorem conforms_v20_LSTM : entryOK ("v17._LSTM", Generated.Ctors.v17.f_lstm, Generated.Schemas.v17.s_LSTM_14) = true := Generated.Conforms.v17.conforms_v17_LSTM

theorem slots_v20_LSTM : slotOK ("v17._LSTM", Generated.Ctors.v17.f_lstm, Generated.Schemas.v17.s_LSTM_14) = true := Generated.Conforms.v17.slots_v17_LSTM

theorem conforms_v20_LayerNormalization : entryOK ("v17._LayerNormalization", Generated.Ctors.v17.f_layer_normalization, Generated.Schemas.v17.s_LayerNormalization_17) = true := Generated.Conforms.v17.conforms_v17_LayerNormalization

theorem slots_v20_LayerNormalization : slotOK ("v17._LayerNormalization", Generated.Ctors.v17.f_layer_normalization, Generated.Schemas.v17.s_LayerNormalization_17) = true := Generated.Conforms.v17.slots_v17_LayerNormalization

theorem conforms_v20_LeakyRelu : entryOK ("v17._LeakyRelu", Generated.Ctors.v17.f_leaky_relu, Generated.Schemas.v17.s_LeakyRelu_16) = true := Generated.Conforms.v17.conforms_v17_LeakyRelu

theorem slots_v20_LeakyRelu : slotOK ("v17._LeakyRelu", Generated.Ctors.v17.f_leaky_relu, Generated.Schemas.v17.s_LeakyRelu_16) = true := Generated.Conforms.v17.slots_v17_LeakyRelu

theorem conforms_v20_Less : entryOK ("v17._Less", Generated.Ctors.v17.f_less, Generated.Schemas.v17.s_Less_13) = true := Generated.Conforms.v17.conforms_v17_Less

theorem slots_v20_Less : slotOK ("v17._Less", Generated.Ctors.v17.f_less, Generated.Schemas.v17.s_Less_13) = true := Generated.Conforms.v17.slots_v17_Less

theorem conforms_v20_LessOrEqual : entryOK ("v17._LessOrEqual", Generated.Ctors.v17.f_less_or_equal, Generated.Schemas.v17.s_LessOrEqual_16) = true := Generated.Conforms.v17.conforms_v17_LessOrEqual

theorem slots_v20_LessOrEqual : slotOK ("v17._LessOrEqual", Generated.Ctors.v17.f_less_or_equal, Generated.Schemas.v17.s_LessOrEqual_16) = true := Generated.Conforms.v17.slots_v17_LessOrEqual

theorem conforms_v20_Log : entryOK ("v17._Log", Generated.Ctors.v17.f_log, Generated.Schemas.v17.s_Log_13) = true := Generated.Conforms.v17.conforms_v17_Log

theorem slots_v20_Log : slotOK ("v17._Log", Generated.Ctors.v17.f_log, Generated.Schemas.v17.s_Log_13) = true := Generated.Conforms.v17.slots_v17_Log

theorem conforms_v20_LogSoftmax : entryOK ("v17._LogSoftmax", Generated.Ctors.v17.f_log_softmax, Generated.Schemas.v17.s_LogSoftmax_13) = true := Generated.Conforms.v17.conforms_v17_LogSoftmax

theorem slots_v20_LogSoftmax : slotOK ("v17._LogSoftmax", Generated.Ctors.v17.f_log_softmax, Generated.Schemas.v17.s_LogSoftmax_13) = true := Generated.Conforms.v17.slots_v17_LogSoftmax

theorem conforms_v20_Loop : entryOK ("v19._Loop", Generated.Ctors.v19.f_loop, Generated.Schemas.v19.s_Loop_19) = true := Generated.Conforms.v19.conforms_v19_Loop

theorem slots_v20_Loop : slotOK ("v19._Loop", Generated.Ctors.v19.f_loop, Generated.Schemas.v19.s_Loop_19) = true := Generated.Conforms.v19.slots_v19_Loop

theorem conforms_v20_LpNormalization : entryOK ("v17._LpNormalization", Generated.Ctors.v17.f_lp_normalization, Generated.Schemas.v17.s_LpNormalization_1) = true := Generated.Conforms.v17.conforms_v17_LpNormalization

theorem slots_v20_LpNormalization : slotOK ("v17._LpNormalization", Generated.Ctors.v17.f_lp_normalization, Generated.Schemas.v17.s_LpNormalization_1) = true := Generated.Conforms.v17.slots_v17_LpNormalization

theorem conforms_v20_LpPool : entryOK ("v18._LpPool", Generated.Ctors.v18.f_lp_pool, Generated.Schemas.v18.s_LpPool_18) = true := Generated.Conforms.v18.conforms_v18_LpPool

theorem slots_v20_LpPool : slotOK ("v18._LpPool", Generated.Ctors.v18.f_lp_pool, Generated.Schemas.v18.s_LpPool_18) = true := Generated.Conforms.v18.slots_v18_LpPool

theorem conforms_v20_MatMul : entryOK ("v17._MatMul", Generated.Ctors.v17.f_matmul, Generated.Schemas.v17.s_MatMul_13) = true := Generated.Conforms.v17.conforms_v17_MatMul

theorem slots_v20_MatMul : slotOK ("v17._MatMul", Generated.Ctors.v17.f_matmul, Generated.Schemas.v17.s_MatMul_13) = true := Generated.Conforms.v17.slots_v17_MatMul

theorem conforms_v20_MatMulInteger : entryOK ("v17._MatMulInteger", Generated.Ctors.v17.f_matmul_integer, Generated.Schemas.v17.s_MatMulInteger_10) = true := Generated.Conforms.v17.conforms_v17_MatMulInteger

theorem slots_v20_MatMulInteger : slotOK ("v17._MatMulInteger", Generated.Ctors.v17.f_matmul_integer, Generated.Schemas.v17.s_MatMulInteger_10) = true := Generated.Conforms.v17.slots_v17_MatMulInteger

theorem conforms_v20_Max : entryOK ("v17._Max", Generated.Ctors.v17.f_max, Generated.Schemas.v17.s_Max_13) = true := Generated.Conforms.v17.conforms_v17_Max

theorem slots_v20_Max : slotOK ("v17._Max", Generated.Ctors.v17.f_max, Generated.Schemas.v17.s_Max_13) = true := Generated.Conforms.v17.slots_v17_Max

theorem conforms_v20_MaxPool : entryOK ("v17._MaxPool", Generated.Ctors.v17.f_max_pool, Generated.Schemas.v17.s_MaxPool_12) = true := Generated.Conforms.v17.conforms_v17_MaxPool

theorem slots_v20_MaxPool : slotOK ("v17._MaxPool", Generated.Ctors.v17.f_max_pool, Generated.Schemas.v17.s_MaxPool_12) = true := Generated.Conforms.v17.slots_v17_MaxPool

theorem conforms_v20_MaxRoiPool : entryOK ("v17._MaxRoiPool", Generated.Ctors.v17.f_max_roi_pool, Generated.Schemas.v17.s_MaxRoiPool_1) = true := Generated.Conforms.v17.conforms_v17_MaxRoiPool

theorem slots_v20_MaxRoiPool : slotOK ("v17._MaxRoiPool", Generated.Ctors.v17.f_max_roi_pool, Generated.Schemas.v17.s_MaxRoiPool_1) = true := Generated.Conforms.v17.slots_v17_MaxRoiPool

theorem conforms_v20_MaxUnpool : entryOK ("v17._MaxUnpool", Generated.Ctors.v17.f_max_unpool, Generated.Schemas.v17.s_MaxUnpool_11) = true := Generated.Conforms.v17.conforms_v17_MaxUnpool

theorem slots_v20_MaxUnpool : slotOK ("v17._MaxUnpool", Generated.Ctors.v17.f_max_unpool, Generated.Schemas.v17.s_MaxUnpool_11) = true := Generated.Conforms.v17.slots_v17_MaxUnpool

theorem conforms_v20_Mean : entryOK ("v17._Mean", Generated.Ctors.v17.f_mean, Generated.Schemas.v17.s_Mean_13) = true := Generated.Conforms.v17.conforms_v17_Mean

theorem slots_v20_Mean : slotOK ("v17._Mean", Generated.Ctors.v17.f_mean, Generated.Schemas.v17.s_Mean_13) = true := Generated.Conforms.v17.slots_v17_Mean

theorem conforms_v20_MeanVarianceNormalization : entryOK ("v17._MeanVarianceNormalization", Generated.Ctors.v17.f_mean_variance_normalization, Generated.Schemas.v17.s_MeanVarianceNormalization_13) = true := Generated.Conforms.v17.conforms_v17_MeanVarianceNormalization

theorem slots_v20_MeanVarianceNormalization : slotOK ("v17._MeanVarianceNormalization", Generated.Ctors.v17.f_mean_variance_normalization, Generated.Schemas.v17.s_MeanVarianceNormalization_13) = true := Generated.Conforms.v17.slots_v17_MeanVarianceNormalization

theorem conforms_v20_MelWeightMatrix : entryOK ("v17._MelWeightMatrix", Generated.Ctors.v17.f_mel_weight_matrix, Generated.Schemas.v17.s_MelWeightMatrix_17) = true := Generated.Conforms.v17.conforms_v17_MelWeightMatrix

theorem slots_v20_MelWeightMatrix : slotOK ("v17._MelWeightMatrix", Generated.Ctors.v17.f_mel_weight_matrix, Generated.Schemas.v17.s_MelWeightMatrix_17) = true := Generated.Conforms.v17.slots_v17_MelWeightMatrix

theorem conforms_v20_Min : entryOK ("v17._Min", Generated.Ctors.v17.f_min, Generated.Schemas.v17.s_Min_13) = true := Generated.Conforms.v17.conforms_v17_Min

theorem slots_v20_Min : slotOK ("v17._Min", Generated.Ctors.v17.f_min, Generated.Schemas.v17.s_Min_13) = true := Generated.Conforms.v17.slots_v17_Min

theorem conforms_v20_Mish : entryOK ("v18._Mish", Generated.Ctors.v18.f_mish, Generated.Schemas.v18.s_Mish_18) = true := Generated.Conforms.v18.conforms_v18_Mish

theorem slots_v20_Mish : slotOK ("v18._Mish", Generated.Ctors.v18.f_mish, Generated.Schemas.v18.s_Mish_18) = true := Generated.Conforms.v18.slots_v18_Mish

theorem conforms_v20_Mod : entryOK ("v17._Mod", Generated.Ctors.v17.f_mod, Generated.Schemas.v17.s_Mod_13) = true := Generated.Conforms.v17.conforms_v17_Mod

theorem slots_v20_Mod : slotOK ("v17._Mod", Generated.Ctors.v17.f_mod, Generated.Schemas.v17.s_Mod_13) = true := Generated.Conforms.v17.slots_v17_Mod

theorem conforms_v20_Mul : entryOK ("v17._Mul", Generated.Ctors.v17.f_mul, Generated.Schemas.v17.s_Mul_14) = true := Generated.Conforms.v17.conforms_v17_Mul

theorem slots_v20_Mul : slotOK ("v17._Mul", Generated.Ctors.v17.f_mul, Generated.Schemas.v17.s_Mul_14) = true := Generated.Conforms.v17.slots_v17_Mul

theorem conforms_v20_Multinomial : entryOK ("v17._Multinomial", Generated.Ctors.v17.f_multinomial, Generated.Schemas.v17.s_Multinomial_7) = true := Generated.Conforms.v17.conforms_v17_Multinomial

theorem slots_v20_Multinomial : slotOK ("v17._Multinomial", Generated.Ctors.v17.f_multinomial, Generated.Schemas.v17.s_Multinomial_7) = true := Generated.Conforms.v17.slots_v17_Multinomial

theorem conforms_v20_Neg : entryOK ("v17._Neg", Generated.Ctors.v17.f_neg, Generated.Schemas.v17.s_Neg_13) = true := Generated.Conforms.v17.conforms_v17_Neg

theorem slots_v20_Neg : slotOK ("v17._Neg", Generated.Ctors.v17.f_neg, Generated.Schemas.v17.s_Neg_13) = true := Generated.Conforms.v17.slots_v17_Neg

theorem conforms_v20_NegativeLogLikelihoodLoss : entryOK ("v17._NegativeLogLikelihoodLoss", Generated.Ctors.v17.f_negative_log_likelihood_loss, Generated.Schemas.v17.s_NegativeLogLikelihoodLoss_13) = true := Generated.Conforms.v17.conforms_v17_NegativeLogLikelihoodLoss

theorem slots_v20_NegativeLogLikelihoodLoss : slotOK ("v17._NegativeLogLikelihoodLoss", Generated.Ctors.v17.f_negative_log_likelihood_loss, Generated.Schemas.v17.s_NegativeLogLikelihoodLoss_13) = true := Generated.Conforms.v17.slots_v17_NegativeLogLikelihoodLoss

theorem conforms_v20_NonMaxSuppression : entryOK ("v17._NonMaxSuppression", Generated.Ctors.v17.f_non_max_suppression, Generated.Schemas.v17.s_NonMaxSuppression_11) = true := Generated.Conforms.v17.conforms_v17_NonMaxSuppression

theorem slots_v20_NonMaxSuppression : slotOK ("v17._NonMaxSuppression", Generated.Ctors.v17.f_non_max_suppression, Generated.Schemas.v17.s_NonMaxSuppression_11) = true := Generated.Conforms.v17.slots_v17_NonMaxSuppression

theorem conforms_v20_NonZero : entryOK ("v17._NonZero", Generated.Ctors.v17.f_non_zero, Generated.Schemas.v17.s_NonZero_13) = true := Generated.Conforms.v17.conforms_v17_NonZero

theorem slots_v20_NonZero : slotOK ("v17._NonZero", Generated.Ctors.v17.f_non_zero, Generated.Schemas.v17.s_NonZero_13) = true := Generated.Conforms.v17.slots_v17_NonZero

theorem conforms_v20_Not : entryOK ("v17._Not", Generated.Ctors.v17.f_not_, Generated.Schemas.v17.s_Not_1) = true := Generated.Conforms.v17.conforms_v17_Not

theorem slots_v20_Not : slotOK ("v17._Not", Generated.Ctors.v17.f_not_, Generated.Schemas.v17.s_Not_1) = true := Generated.Conforms.v17.slots_v17_Not

theorem conforms_v20_OneHot : entryOK ("v17._OneHot", Generated.Ctors.v17.f_one_hot, Generated.Schemas.v17.s_OneHot_11) = true := Generated.Conforms.v17.conforms_v17_OneHot

theorem slots_v20_OneHot : slotOK ("v17._OneHot", Generated.Ctors.v17.f_one_hot, Generated.Schemas.v17.s_OneHot_11) = true := Generated.Conforms.v17.slots_v17_OneHot

theorem conforms_v20_Optional : entryOK ("v17._Optional", Generated.Ctors.v17.f_optional, Generated.Schemas.v17.s_Optional_15) = true := Generated.Conforms.v17.conforms_v17_Optional

theorem slots_v20_Optional : slotOK ("v17._Optional", Generated.Ctors.v17.f_optional, Generated.Schemas.v17.s_Optional_15) = true := Generated.Conforms.v17.slots_v17_Optional

theorem conforms_v20_OptionalGetElement : entryOK ("v18._OptionalGetElement", Generated.Ctors.v18.f_optional_get_element, Generated.Schemas.v18.s_OptionalGetElement_18) = true := Generated.Conforms.v18.conforms_v18_OptionalGetElement

theorem slots_v20_OptionalGetElement : slotOK ("v18._OptionalGetElement", Generated.Ctors.v18.f_optional_get_element, Generated.Schemas.v18.s_OptionalGetElement_18) = true := Generated.Conforms.v18.slots_v18_OptionalGetElement

theorem conforms_v20_OptionalHasElement : entryOK ("v18._OptionalHasElement", Generated.Ctors.v18.f_optional_has_element, Generated.Schemas.v18.s_OptionalHasElement_18) = true := Generated.Conforms.v18.conforms_v18_OptionalHasElement

theorem slots_v20_OptionalHasElement : slotOK ("v18._OptionalHasElement", Generated.Ctors.v18.f_optional_has_element, Generated.Schemas.v18.s_OptionalHasElement_18) = true := Generated.Conforms.v18.slots_v18_OptionalHasElement

theorem conforms_v20_Or : entryOK ("v17._Or", Generated.Ctors.v17.f_or_, Generated.Schemas.v17.s_Or_7) = true := Generated.Conforms.v17.conforms_v17_Or

theorem slots_v20_Or : slotOK ("v17._Or", Generated.Ctors.v17.f_or_, Generated.Schemas.v17.s_Or_7) = true := Generated.Conforms.v17.slots_v17_Or

theorem conforms_v20_PRelu : entryOK ("v17._PRelu", Generated.Ctors.v17.f_prelu, Generated.Schemas.v17.s_PRelu_16) = true := Generated.Conforms.v17.conforms_v17_PRelu

theorem slots_v20_PRelu : slotOK ("v17._PRelu", Generated.Ctors.v17.f_prelu, Generated.Schemas.v17.s_PRelu_16) = true := Generated.Conforms.v17.slots_v17_PRelu

theorem conforms_v20_Pad : entryOK ("v19._Pad", Generated.Ctors.v19.f_pad, Generated.Schemas.v19.s_Pad_19) = true := Generated.Conforms.v19.conforms_v19_Pad

theorem slots_v20_Pad : slotOK ("v19._Pad", Generated.Ctors.v19.f_pad, Generated.Schemas.v19.s_Pad_19) = true := Generated.Conforms.v19.slots_v19_Pad

theorem conforms_v20_Pow : entryOK ("v17._Pow", Generated.Ctors.v17.f_pow, Generated.Schemas.v17.s_Pow_15) = true := Generated.Conforms.v17.conforms_v17_Pow

theorem slots_v20_Pow : slotOK ("v17._Pow", Generated.Ctors.v17.f_pow, Generated.Schemas.v17.s_Pow_15) = true := Generated.Conforms.v17.slots_v17_Pow

theorem conforms_v20_QLinearConv : entryOK ("v17._QLinearConv", Generated.Ctors.v17.f_qlinear_conv, Generated.Schemas.v17.s_QLinearConv_10) = true := Generated.Conforms.v17.conforms_v17_QLinearConv

theorem slots_v20_QLinearConv : slotOK ("v17._QLinearConv", Generated.Ctors.v17.f_qlinear_conv, Generated.Schemas.v17.s_QLinearConv_10) = true := Generated.Conforms.v17.slots_v17_QLinearConv

theorem conforms_v20_QLinearMatMul : entryOK ("v17._QLinearMatMul", Generated.Ctors.v17.f_qlinear_matmul, Generated.Schemas.v17.s_QLinearMatMul_10) = true := Generated.Conforms.v17.conforms_v17_QLinearMatMul

theorem slots_v20_QLinearMatMul : slotOK ("v17._QLinearMatMul", Generated.Ctors.v17.f_qlinear_matmul, Generated.Schemas.v17.s_QLinearMatMul_10) = true := Generated.Conforms.v17.slots_v17_QLinearMatMul

theorem conforms_v20_QuantizeLinear : entryOK ("v19._QuantizeLinear", Generated.Ctors.v19.f_quantize_linear, Generated.Schemas.v19.s_QuantizeLinear_19) = true := Generated.Conforms.v19.conforms_v19_QuantizeLinear

theorem slots_v20_QuantizeLinear : slotOK ("v19._QuantizeLinear", Generated.Ctors.v19.f_quantize_linear, Generated.Schemas.v19.s_QuantizeLinear_19) = true := Generated.Conforms.v19.slots_v19_QuantizeLinear

theorem conforms_v20_RNN : entryOK ("v17._RNN", Generated.Ctors.v17.f_rnn, Generated.Schemas.v17.s_RNN_14) = true := Generated.Conforms.v17.conforms_v17_RNN

theorem slots_v20_RNN : slotOK ("v17._RNN", Generated.Ctors.v17.f_rnn, Generated.Schemas.v17.s_RNN_14) = true := Generated.Conforms.v17.slots_v17_RNN

theorem conforms_v20_RandomNormal : entryOK ("v17._RandomNormal", Generated.Ctors.v17.f_random_normal, Generated.Schemas.v17.s_RandomNormal_1) = true := Generated.Conforms.v17.conforms_v17_RandomNormal

theorem slots_v20_RandomNormal : slotOK ("v17._RandomNormal", Generated.Ctors.v17.f_random_normal, Generated.Schemas.v17.s_RandomNormal_1) = true := Generated.Conforms.v17.slots_v17_RandomNormal

theorem conforms_v20_RandomNormalLike : entryOK ("v17._RandomNormalLike", Generated.Ctors.v17.f_random_normal_like, Generated.Schemas.v17.s_RandomNormalLike_1) = true := Generated.Conforms.v17.conforms_v17_RandomNormalLike

theorem slots_v20_RandomNormalLike : slotOK ("v17._RandomNormalLike", Generated.Ctors.v17.f_random_normal_like, Generated.Schemas.v17.s_RandomNormalLike_1) = true := Generated.Conforms.v17.slots_v17_RandomNormalLike

theorem conforms_v20_RandomUniform : entryOK ("v17._RandomUniform", Generated.Ctors.v17.f_random_uniform, Generated.Schemas.v17.s_RandomUniform_1) = true := Generated.Conforms.v17.conforms_v17_RandomUniform

theorem slots_v20_RandomUniform : slotOK ("v17._RandomUniform", Generated.Ctors.v17.f_random_uniform, Generated.Schemas.v17.s_RandomUniform_1) = true := Generated.Conforms.v17.slots_v17_RandomUniform

theorem conforms_v20_RandomUniformLike : entryOK ("v17._RandomUniformLike", Generated.Ctors.v17.f_random_uniform_like, Generated.Schemas.v17.s_RandomUniformLike_1) = true := Generated.Conforms.v17.conforms_v17_RandomUniformLike

theorem slots_v20_RandomUniformLike : slotOK ("v17._RandomUniformLike", Generated.Ctors.v17.f_random_uniform_like, Generated.Schemas.v17.s_RandomUniformLike_1) = true := Generated.Conforms.v17.slots_v17_RandomUniformLike

theorem conforms_v20_Range : entryOK ("v17._Range", Generated.Ctors.v17.f_range, Generated.Schemas.v17.s_Range_11) = true := Generated.Conforms.v17.conforms_v17_Range

theorem slots_v20_Range : slotOK ("v17._Range", Generated.Ctors.v17.f_range, Generated.Schemas.v17.s_Range_11) = true := Generated.Conforms.v17.slots_v17_Range

theorem conforms_v20_Reciprocal : entryOK ("v17._Reciprocal", Generated.Ctors.v17.f_reciprocal, Generated.Schemas.v17.s_Reciprocal_13) = true := Generated.Conforms.v17.conforms_v17_Reciprocal

theorem slots_v20_Reciprocal : slotOK ("v17._Reciprocal", Generated.Ctors.v17.f_reciprocal, Generated.Schemas.v17.s_Reciprocal_13) = true := Generated.Conforms.v17.slots_v17_Reciprocal

theorem conforms_v20_ReduceL1 : entryOK ("v18._ReduceL1", Generated.Ctors.v18.f_reduce_l1, Generated.Schemas.v18.s_ReduceL1_18) = true := Generated.Conforms.v18.conforms_v18_ReduceL1

theorem slots_v20_ReduceL1 : slotOK ("v18._ReduceL1", Generated.Ctors.v18.f_reduce_l1, Generated.Schemas.v18.s_ReduceL1_18) = true := Generated.Conforms.v18.slots_v18_ReduceL1

theorem conforms_v20_ReduceL2 : entryOK ("v18._ReduceL2", Generated.Ctors.v18.f_reduce_l2, Generated.Schemas.v18.s_ReduceL2_18) = true := Generated.Conforms.v18.conforms_v18_ReduceL2

theorem slots_v20_ReduceL2 : slotOK ("v18._ReduceL2", Generated.Ctors.v18.f_reduce_l2, Generated.Schemas.v18.s_ReduceL2_18) = true := Generated.Conforms.v18.slots_v18_ReduceL2

theorem conforms_v20_ReduceLogSum : entryOK ("v18._ReduceLogSum", Generated.Ctors.v18.f_reduce_log_sum, Generated.Schemas.v18.s_ReduceLogSum_18) = true := Generated.Conforms.v18.conforms_v18_ReduceLogSum

theorem slots_v20_ReduceLogSum : slotOK ("v18._ReduceLogSum", Generated.Ctors.v18.f_reduce_log_sum, Generated.Schemas.v18.s_ReduceLogSum_18) = true := Generated.Conforms.v18.slots_v18_ReduceLogSum

theorem conforms_v20_ReduceLogSumExp : entryOK ("v18._ReduceLogSumExp", Generated.Ctors.v18.f_reduce_log_sum_exp, Generated.Schemas.v18.s_ReduceLogSumExp_18) = true := Generated.Conforms.v18.conforms_v18_ReduceLogSumExp

theorem slots_v20_ReduceLogSumExp : slotOK ("v18._ReduceLogSumExp", Generated.Ctors.v18.f_reduce_log_sum_exp, Generated.Schemas.v18.s_ReduceLogSumExp_18) = true := Generated.Conforms.v18.slots_v18_ReduceLogSumExp

theorem conforms_v20_ReduceMax : entryOK ("v20._ReduceMax", Generated.Ctors.v20.f_reduce_max, Generated.Schemas.v20.s_ReduceMax_20) = true := by decide +kernel

theorem slots_v20_ReduceMax : slotOK ("v20._ReduceMax", Generated.Ctors.v20.f_reduce_max, Generated.Schemas.v20.s_ReduceMax_20) = true := by decide +kernel

theorem conforms_v20_ReduceMean : entryOK ("v18._ReduceMean", Generated.Ctors.v18.f_reduce_mean, Generated.Schemas.v18.s_ReduceMean_18) = true := Generated.Conforms.v18.conforms_v18_ReduceMean

theorem slots_v20_ReduceMean : slotOK ("v18._ReduceMean", Generated.Ctors.v18.f_reduce_mean, Generated.Schemas.v18.s_ReduceMean_18) = true := Generated.Conforms.v18.slots_v18_ReduceMean

theorem conforms_v20_ReduceMin : entryOK ("v20._ReduceMin", Generated.Ctors.v20.f_reduce_min, Generated.Schemas.v20.s_ReduceMin_20) = true := by decide +kernel

theorem slots_v20_ReduceMin : slotOK ("v20._ReduceMin", Generated.Ctors.v20.f_reduce_min, Generated.Schemas.v20.s_ReduceMin_20) = true := by decide +kernel

theorem conforms_v20_ReduceProd : entryOK ("v18._ReduceProd", Generated.Ctors.v18.f_reduce_prod, Generated.Schemas.v18.s_ReduceProd_18) = true := Generated.Conforms.v18.conforms_v18_ReduceProd

theorem slots_v20_ReduceProd : slotOK ("v18._ReduceProd", Generated.Ctors.v18.f_reduce_prod, Generated.Schemas.v18.s_ReduceProd_18) = true := Generated.Conforms.v18.slots_v18_ReduceProd

theorem conforms_v20_ReduceSum : entryOK ("v17._ReduceSum", Generated.Ctors.v17.f_reduce_sum, Generated.Schemas.v17.s_ReduceSum_13) = true := Generated.Conforms.v17.conforms_v17_ReduceSum

theorem slots_v20_ReduceSum : slotOK ("v17._ReduceSum", Generated.Ctors.v17.f_reduce_sum, Generated.Schemas.v17.s_ReduceSum_13) = true := Generated.Conforms.v17.slots_v17_ReduceSum

theorem conforms_v20_ReduceSumSquare : entryOK ("v18._ReduceSumSquare", Generated.Ctors.v18.f_reduce_sum_square, Generated.Schemas.v18.s_ReduceSumSquare_18) = true := Generated.Conforms.v18.conforms_v18_ReduceSumSquare

theorem slots_v20_ReduceSumSquare : slotOK ("v18._ReduceSumSquare", Generated.Ctors.v18.f_reduce_sum_square, Generated.Schemas.v18.s_ReduceSumSquare_18) = true := Generated.Conforms.v18.slots_v18_ReduceSumSquare

theorem conforms_v20_RegexFullMatch : entryOK ("v20._RegexFullMatch", Generated.Ctors.v20.f_regex_full_match, Generated.Schemas.v20.s_RegexFullMatch_20) = true := by decide +kernel

theorem slots_v20_RegexFullMatch : slotOK ("v20._RegexFullMatch", Generated.Ctors.v20.f_regex_full_match, Generated.Schemas.v20.s_RegexFullMatch_20) = true := by decide +kernel

theorem conforms_v20_Relu : entryOK ("v17._Relu", Generated.Ctors.v17.f_relu, Generated.Schemas.v17.s_Relu_14) = true := Generated.Conforms.v17.conforms_v17_Relu

theorem slots_v20_Relu : slotOK ("v17._Relu", Generated.Ctors.v17.f_relu, Generated.Schemas.v17.s_Relu_14) = true := Generated.Conforms.v17.slots_v17_Relu

theorem conforms_v20_Reshape : entryOK ("v19._Reshape", Generated.Ctors.v19.f_reshape, Generated.Schemas.v19.s_Reshape_19) = true := Generated.Conforms.v19.conforms_v19_Reshape

theorem slots_v20_Reshape : slotOK ("v19._Reshape", Generated.Ctors.v19.f_reshape, Generated.Schemas.v19.s_Reshape_19) = true := Generated.Conforms.v19.slots_v19_Reshape

theorem conforms_v20_Resize : entryOK ("v19._Resize", Generated.Ctors.v19.f_resize, Generated.Schemas.v19.s_Resize_19) = true := Generated.Conforms.v19.conforms_v19_Resize

theorem slots_v20_Resize : slotOK ("v19._Resize", Generated.Ctors.v19.f_resize, Generated.Schemas.v19.s_Resize_19) = true := Generated.Conforms.v19.slots_v19_Resize

theorem conforms_v20_ReverseSequence : entryOK ("v17._ReverseSequence", Generated.Ctors.v17.f_reverse_sequence, Generated.Schemas.v17.s_ReverseSequence_10) = true := Generated.Conforms.v17.conforms_v17_ReverseSequence

theorem slots_v20_ReverseSequence : slotOK ("v17._ReverseSequence", Generated.Ctors.v17.f_reverse_sequence, Generated.Schemas.v17.s_ReverseSequence_10) = true := Generated.Conforms.v17.slots_v17_ReverseSequence

theorem conforms_v20_RoiAlign : entryOK ("v17._RoiAlign", Generated.Ctors.v17.f_roi_align, Generated.Schemas.v17.s_RoiAlign_16) = true := Generated.Conforms.v17.conforms_v17_RoiAlign

theorem slots_v20_RoiAlign : slotOK ("v17._RoiAlign", Generated.Ctors.v17.f_roi_align, Generated.Schemas.v17.s_RoiAlign_16) = true := Generated.Conforms.v17.slots_v17_RoiAlign

theorem conforms_v20_Round : entryOK ("v17._Round", Generated.Ctors.v17.f_round, Generated.Schemas.v17.s_Round_11) = true := Generated.Conforms.v17.conforms_v17_Round

theorem slots_v20_Round : slotOK ("v17._Round", Generated.Ctors.v17.f_round, Generated.Schemas.v17.s_Round_11) = true := Generated.Conforms.v17.slots_v17_Round

theorem conforms_v20_STFT : entryOK ("v17._STFT", Generated.Ctors.v17.f_stft, Generated.Schemas.v17.s_STFT_17) = true := Generated.Conforms.v17.conforms_v17_STFT

theorem slots_v20_STFT : slotOK ("v17._STFT", Generated.Ctors.v17.f_stft, Generated.Schemas.v17.s_STFT_17) = true := Generated.Conforms.v17.slots_v17_STFT

theorem conforms_v20_Scan : entryOK ("v19._Scan", Generated.Ctors.v19.f_scan, Generated.Schemas.v19.s_Scan_19) = true := Generated.Conforms.v19.conforms_v19_Scan

theorem slots_v20_Scan : slotOK ("v19._Scan", Generated.Ctors.v19.f_scan, Generated.Schemas.v19.s_Scan_19) = true := Generated.Conforms.v19.slots_v19_Scan

theorem conforms_v20_ScatterElements : entryOK ("v18._ScatterElements", Generated.Ctors.v18.f_scatter_elements, Generated.Schemas.v18.s_ScatterElements_18) = true := Generated.Conforms.v18.conforms_v18_ScatterElements

theorem slots_v20_ScatterElements : slotOK ("v18._ScatterElements", Generated.Ctors.v18.f_scatter_elements, Generated.Schemas.v18.s_ScatterElements_18) = true := Generated.Conforms.v18.slots_v18_ScatterElements

theorem conforms_v20_ScatterND : entryOK ("v18._ScatterND", Generated.Ctors.v18.f_scatter_nd, Generated.Schemas.v18.s_ScatterND_18) = true := Generated.Conforms.v18.conforms_v18_ScatterND

theorem slots_v20_ScatterND : slotOK ("v18._ScatterND", Generated.Ctors.v18.f_scatter_nd, Generated.Schemas.v18.s_ScatterND_18) = true := Generated.Conforms.v18.slots_v18_ScatterND

theorem conforms_v20_Selu : entryOK ("v17._Selu", Generated.Ctors.v17.f_selu, Generated.Schemas.v17.s_Selu_6) = true := Generated.Conforms.v17.conforms_v17_Selu

theorem slots_v20_Selu : slotOK ("v17._Selu", Generated.Ctors.v17.f_selu, Generated.Schemas.v17.s_Selu_6) = true := Generated.Conforms.v17.slots_v17_Selu

theorem conforms_v20_SequenceAt : entryOK ("v17._SequenceAt", Generated.Ctors.v17.f_sequence_at, Generated.Schemas.v17.s_SequenceAt_11) = true := Generated.Conforms.v17.conforms_v17_SequenceAt

theorem slots_v20_SequenceAt : slotOK ("v17._SequenceAt", Generated.Ctors.v17.f_sequence_at, Generated.Schemas.v17.s_SequenceAt_11) = true := Generated.Conforms.v17.slots_v17_SequenceAt

theorem conforms_v20_SequenceConstruct : entryOK ("v17._SequenceConstruct", Generated.Ctors.v17.f_sequence_construct, Generated.Schemas.v17.s_SequenceConstruct_11) = true := Generated.Conforms.v17.conforms_v17_SequenceConstruct

theorem slots_v20_SequenceConstruct : slotOK ("v17._SequenceConstruct", Generated.Ctors.v17.f_sequence_construct, Generated.Schemas.v17.s_SequenceConstruct_11) = true := Generated.Conforms.v17.slots_v17_SequenceConstruct

theorem conforms_v20_SequenceEmpty : entryOK ("v17._SequenceEmpty", Generated.Ctors.v17.f_sequence_empty, Generated.Schemas.v17.s_SequenceEmpty_11) = true := Generated.Conforms.v17.conforms_v17_SequenceEmpty

theorem slots_v20_SequenceEmpty : slotOK ("v17._SequenceEmpty", Generated.Ctors.v17.f_sequence_empty, Generated.Schemas.v17.s_SequenceEmpty_11) = true := Generated.Conforms.v17.slots_v17_SequenceEmpty

theorem conforms_v20_SequenceErase : entryOK ("v17._SequenceErase", Generated.Ctors.v17.f_sequence_erase, Generated.Schemas.v17.s_SequenceErase_11) = true := Generated.Conforms.v17.conforms_v17_SequenceErase

theorem slots_v20_SequenceErase : slotOK ("v17._SequenceErase", Generated.Ctors.v17.f_sequence_erase, Generated.Schemas.v17.s_SequenceErase_11) = true := Generated.Conforms.v17.slots_v17_SequenceErase

theorem conforms_v20_SequenceInsert : entryOK ("v17._SequenceInsert", Generated.Ctors.v17.f_sequence_insert, Generated.Schemas.v17.s_SequenceInsert_11) = true := Generated.Conforms.v17.conforms_v17_SequenceInsert

theorem slots_v20_SequenceInsert : slotOK ("v17._SequenceInsert", Generated.Ctors.v17.f_sequence_insert, Generated.Schemas.v17.s_SequenceInsert_11) = true := Generated.Conforms.v17.slots_v17_SequenceInsert

theorem conforms_v20_SequenceLength : entryOK ("v17._SequenceLength", Generated.Ctors.v17.f_sequence_length, Generated.Schemas.v17.s_SequenceLength_11) = true := Generated.Conforms.v17.conforms_v17_SequenceLength

theorem slots_v20_SequenceLength : slotOK ("v17._SequenceLength", Generated.Ctors.v17.f_sequence_length, Generated.Schemas.v17.s_SequenceLength_11) = true := Generated.Conforms.v17.slots_v17_SequenceLength

theorem conforms_v20_SequenceMap : entryOK ("v17._SequenceMap", Generated.Ctors.v17.f_sequence_map, Generated.Schemas.v17.s_SequenceMap_17) = true := Generated.Conforms.v17.conforms_v17_SequenceMap

theorem slots_v20_SequenceMap : slotOK ("v17._SequenceMap", Generated.Ctors.v17.f_sequence_map, Generated.Schemas.v17.s_SequenceMap_17) = true := Generated.Conforms.v17.slots_v17_SequenceMap

theorem conforms_v20_Shape : entryOK ("v19._Shape", Generated.Ctors.v19.f_shape, Generated.Schemas.v19.s_Shape_19) = true := Generated.Conforms.v19.conforms_v19_Shape

theorem slots_v20_Shape : slotOK ("v19._Shape", Generated.Ctors.v19.f_shape, Generated.Schemas.v19.s_Shape_19) = true := Generated.Conforms.v19.slots_v19_Shape

theorem conforms_v20_Shrink : entryOK ("v17._Shrink", Generated.Ctors.v17.f_shrink, Generated.Schemas.v17.s_Shrink_9) = true := Generated.Conforms.v17.conforms_v17_Shrink

theorem slots_v20_Shrink : slotOK ("v17._Shrink", Generated.Ctors.v17.f_shrink, Generated.Schemas.v17.s_Shrink_9) = true := Generated.Conforms.v17.slots_v17_Shrink

theorem conforms_v20_Sigmoid : entryOK ("v17._Sigmoid", Generated.Ctors.v17.f_sigmoid, Generated.Schemas.v17.s_Sigmoid_13) = true := Generated.Conforms.v17.conforms_v17_Sigmoid

theorem slots_v20_Sigmoid : slotOK ("v17._Sigmoid", Generated.Ctors.v17.f_sigmoid, Generated.Schemas.v17.s_Sigmoid_13) = true := Generated.Conforms.v17.slots_v17_Sigmoid

theorem conforms_v20_Sign : entryOK ("v17._Sign", Generated.Ctors.v17.f_sign, Generated.Schemas.v17.s_Sign_13) = true := Generated.Conforms.v17.conforms_v17_Sign

theorem slots_v20_Sign : slotOK ("v17._Sign", Generated.Ctors.v17.f_sign, Generated.Schemas.v17.s_Sign_13) = true := Generated.Conforms.v17.slots_v17_Sign

theorem conforms_v20_Sin : entryOK ("v17._Sin", Generated.Ctors.v17.f_sin, Generated.Schemas.v17.s_Sin_7) = true := Generated.Conforms.v17.conforms_v17_Sin

theorem slots_v20_Sin : slotOK ("v17._Sin", Generated.Ctors.v17.f_sin, Generated.Schemas.v17.s_Sin_7) = true := Generated.Conforms.v17.slots_v17_Sin

theorem conforms_v20_Sinh : entryOK ("v17._Sinh", Generated.Ctors.v17.f_sinh, Generated.Schemas.v17.s_Sinh_9) = true := Generated.Conforms.v17.conforms_v17_Sinh

theorem slots_v20_Sinh : slotOK ("v17._Sinh", Generated.Ctors.v17.f_sinh, Generated.Schemas.v17.s_Sinh_9) = true := Generated.Conforms.v17.slots_v17_Sinh

theorem conforms_v20_Size : entryOK ("v19._Size", Generated.Ctors.v19.f_size, Generated.Schemas.v19.s_Size_19) = true := Generated.Conforms.v19.conforms_v19_Size

theorem slots_v20_Size : slotOK ("v19._Size", Generated.Ctors.v19.f_size, Generated.Schemas.v19.s_Size_19) = true := Generated.Conforms.v19.slots_v19_Size

theorem conforms_v20_Slice : entryOK ("v17._Slice", Generated.Ctors.v17.f_slice, Generated.Schemas.v17.s_Slice_13) = true := Generated.Conforms.v17.conforms_v17_Slice

theorem slots_v20_Slice : slotOK ("v17._Slice", Generated.Ctors.v17.f_slice, Generated.Schemas.v17.s_Slice_13) = true := Generated.Conforms.v17.slots_v17_Slice

theorem conforms_v20_Softmax : entryOK ("v17._Softmax", Generated.Ctors.v17.f_softmax, Generated.Schemas.v17.s_Softmax_13) = true := Generated.Conforms.v17.conforms_v17_Softmax

theorem slots_v20_Softmax : slotOK ("v17._Softmax", Generated.Ctors.v17.f_softmax, Generated.Schemas.v17.s_Softmax_13) = true := Generated.Conforms.v17.slots_v17_Softmax

theorem conforms_v20_SoftmaxCrossEntropyLoss : entryOK ("v17._SoftmaxCrossEntropyLoss", Generated.Ctors.v17.f_softmax_cross_entropy_loss, Generated.Schemas.v17.s_SoftmaxCrossEntropyLoss_13) = true := Generated.Conforms.v17.conforms_v17_SoftmaxCrossEntropyLoss

theorem slots_v20_SoftmaxCrossEntropyLoss : slotOK ("v17._SoftmaxCrossEntropyLoss", Generated.Ctors.v17.f_softmax_cross_entropy_loss, Generated.Schemas.v17.s_SoftmaxCrossEntropyLoss_13) = true := Generated.Conforms.v17.slots_v17_SoftmaxCrossEntropyLoss

theorem conforms_v20_Softplus : entryOK ("v17._Softplus", Generated.Ctors.v17.f_softplus, Generated.Schemas.v17.s_Softplus_1) = true := Generated.Conforms.v17.conforms_v17_Softplus

theorem slots_v20_Softplus : slotOK ("v17._Softplus", Generated.Ctors.v17.f_softplus, Generated.Schemas.v17.s_Softplus_1) = true := Generated.Conforms.v17.slots_v17_Softplus

theorem conforms_v20_Softsign : entryOK ("v17._Softsign", Generated.Ctors.v17.f_softsign, Generated.Schemas.v17.s_Softsign_1) = true := Generated.Conforms.v17.conforms_v17_Softsign

theorem slots_v20_Softsign : slotOK ("v17._Softsign", Generated.Ctors.v17.f_softsign, Generated.Schemas.v17.s_Softsign_1) = true := Generated.Conforms.v17.slots_v17_Softsign

theorem conforms_v20_SpaceToDepth : entryOK ("v17._SpaceToDepth", Generated.Ctors.v17.f_space_to_depth, Generated.Schemas.v17.s_SpaceToDepth_13) = true := Generated.Conforms.v17.conforms_v17_SpaceToDepth

theorem slots_v20_SpaceToDepth : slotOK ("v17._SpaceToDepth", Generated.Ctors.v17.f_space_to_depth, Generated.Schemas.v17.s_SpaceToDepth_13) = true := Generated.Conforms.v17.slots_v17_SpaceToDepth

theorem conforms_v20_Split : entryOK ("v18._Split", Generated.Ctors.v18.f_split, Generated.Schemas.v18.s_Split_18) = true := Generated.Conforms.v18.conforms_v18_Split

theorem slots_v20_Split : slotOK ("v18._Split", Generated.Ctors.v18.f_split, Generated.Schemas.v18.s_Split_18) = true := Generated.Conforms.v18.slots_v18_Split

theorem conforms_v20_SplitToSequence : entryOK ("v17._SplitToSequence", Generated.Ctors.v17.f_split_to_sequence, Generated.Schemas.v17.s_SplitToSequence_11) = true := Generated.Conforms.v17.conforms_v17_SplitToSequence

theorem slots_v20_SplitToSequence : slotOK ("v17._SplitToSequence", Generated.Ctors.v17.f_split_to_sequence, Generated.Schemas.v17.s_SplitToSequence_11) = true := Generated.Conforms.v17.slots_v17_SplitToSequence

theorem conforms_v20_Sqrt : entryOK ("v17._Sqrt", Generated.Ctors.v17.f_sqrt, Generated.Schemas.v17.s_Sqrt_13) = true := Generated.Conforms.v17.conforms_v17_Sqrt

theorem slots_v20_Sqrt : slotOK ("v17._Sqrt", Generated.Ctors.v17.f_sqrt, Generated.Schemas.v17.s_Sqrt_13) = true := Generated.Conforms.v17.slots_v17_Sqrt

theorem conforms_v20_Squeeze : entryOK ("v17._Squeeze", Generated.Ctors.v17.f_squeeze, Generated.Schemas.v17.s_Squeeze_13) = true := Generated.Conforms.v17.conforms_v17_Squeeze

theorem slots_v20_Squeeze : slotOK ("v17._Squeeze", Generated.Ctors.v17.f_squeeze, Generated.Schemas.v17.s_Squeeze_13) = true := Generated.Conforms.v17.slots_v17_Squeeze

theorem conforms_v20_StringConcat : entryOK ("v20._StringConcat", Generated.Ctors.v20.f_string_concat, Generated.Schemas.v20.s_StringConcat_20) = true := by decide +kernel

theorem slots_v20_StringConcat : slotOK ("v20._StringConcat", Generated.Ctors.v20.f_string_concat, Generated.Schemas.v20.s_StringConcat_20) = true := by decide +kernel

theorem conforms_v20_StringNormalizer : entryOK ("v17._StringNormalizer", Generated.Ctors.v17.f_string_normalizer, Generated.Schemas.v17.s_StringNormalizer_10) = true := Generated.Conforms.v17.conforms_v17_StringNormalizer

theorem slots_v20_StringNormalizer : slotOK ("v17._StringNormalizer", Generated.Ctors.v17.f_string_normalizer, Generated.Schemas.v17.s_StringNormalizer_10) = true := Generated.Conforms.v17.slots_v17_StringNormalizer

theorem conforms_v20_StringSplit : entryOK ("v20._StringSplit", Generated.Ctors.v20.f_string_split, Generated.Schemas.v20.s_StringSplit_20) = true := by decide +kernel

theorem slots_v20_StringSplit : slotOK ("v20._StringSplit", Generated.Ctors.v20.f_string_split, Generated.Schemas.v20.s_StringSplit_20) = true := by decide +kernel

theorem conforms_v20_Sub : entryOK ("v17._Sub", Generated.Ctors.v17.f_sub, Generated.Schemas.v17.s_Sub_14) = true := Generated.Conforms.v17.conforms_v17_Sub

theorem slots_v20_Sub : slotOK ("v17._Sub", Generated.Ctors.v17.f_sub, Generated.Schemas.v17.s_Sub_14) = true := Generated.Conforms.v17.slots_v17_Sub

theorem conforms_v20_Sum : entryOK ("v17._Sum", Generated.Ctors.v17.f_sum, Generated.Schemas.v17.s_Sum_13) = true := Generated.Conforms.v17.conforms_v17_Sum

theorem slots_v20_Sum : slotOK ("v17._Sum", Generated.Ctors.v17.f_sum, Generated.Schemas.v17.s_Sum_13) = true := Generated.Conforms.v17.slots_v17_Sum

theorem conforms_v20_Tan : entryOK ("v17._Tan", Generated.Ctors.v17.f_tan, Generated.Schemas.v17.s_Tan_7) = true := Generated.Conforms.v17.conforms_v17_Tan

theorem slots_v20_Tan : slotOK ("v17._Tan", Generated.Ctors.v17.f_tan, Generated.Schemas.v17.s_Tan_7) = true := Generated.Conforms.v17.slots_v17_Tan

theorem conforms_v20_Tanh : entryOK ("v17._Tanh", Generated.Ctors.v17.f_tanh, Generated.Schemas.v17.s_Tanh_13) = true := Generated.Conforms.v17.conforms_v17_Tanh

theorem slots_v20_Tanh : slotOK ("v17._Tanh", Generated.Ctors.v17.f_tanh, Generated.Schemas.v17.s_Tanh_13) = true := Generated.Conforms.v17.slots_v17_Tanh

theorem conforms_v20_TfIdfVectorizer : entryOK ("v17._TfIdfVectorizer", Generated.Ctors.v17.f_tf_idf_vectorizer, Generated.Schemas.v17.s_TfIdfVectorizer_9) = true := Generated.Conforms.v17.conforms_v17_TfIdfVectorizer

theorem slots_v20_TfIdfVectorizer : slotOK ("v17._TfIdfVectorizer", Generated.Ctors.v17.f_tf_idf_vectorizer, Generated.Schemas.v17.s_TfIdfVectorizer_9) = true := Generated.Conforms.v17.slots_v17_TfIdfVectorizer

theorem conforms_v20_ThresholdedRelu : entryOK ("v17._ThresholdedRelu", Generated.Ctors.v17.f_thresholded_relu, Generated.Schemas.v17.s_ThresholdedRelu_10) = true := Generated.Conforms.v17.conforms_v17_ThresholdedRelu

theorem slots_v20_ThresholdedRelu : slotOK ("v17._ThresholdedRelu", Generated.Ctors.v17.f_thresholded_relu, Generated.Schemas.v17.s_ThresholdedRelu_10) = true := Generated.Conforms.v17.slots_v17_ThresholdedRelu

theorem conforms_v20_Tile : entryOK ("v17._Tile", Generated.Ctors.v17.f_tile, Generated.Schemas.v17.s_Tile_13) = true := Generated.Conforms.v17.conforms_v17_Tile

theorem slots_v20_Tile : slotOK ("v17._Tile", Generated.Ctors.v17.f_tile, Generated.Schemas.v17.s_Tile_13) = true := Generated.Conforms.v17.slots_v17_Tile

theorem conforms_v20_TopK : entryOK ("v17._TopK", Generated.Ctors.v17.f_top_k, Generated.Schemas.v17.s_TopK_11) = true := Generated.Conforms.v17.conforms_v17_TopK

theorem slots_v20_TopK : slotOK ("v17._TopK", Generated.Ctors.v17.f_top_k, Generated.Schemas.v17.s_TopK_11) = true := Generated.Conforms.v17.slots_v17_TopK

theorem conforms_v20_Transpose : entryOK ("v17._Transpose", Generated.Ctors.v17.f_transpose, Generated.Schemas.v17.s_Transpose_13) = true := Generated.Conforms.v17.conforms_v17_Transpose

theorem slots_v20_Transpose : slotOK ("v17._Transpose", Generated.Ctors.v17.f_transpose, Generated.Schemas.v17.s_Transpose_13) = true := Generated.Conforms.v17.slots_v17_Transpose

theorem conforms_v20_Trilu : entryOK ("v17._Trilu", Generated.Ctors.v17.f_trilu, Generated.Schemas.v17.s_Trilu_14) = true := Generated.Conforms.v17.conforms_v17_Trilu

theorem slots_v20_Trilu : slotOK ("v17._Trilu", Generated.Ctors.v17.f_trilu, Generated.Schemas.v17.s_Trilu_14) = true := Generated.Conforms.v17.slots_v17_Trilu

theorem conforms_v20_Unique : entryOK ("v17._Unique", Generated.Ctors.v17.f_unique, Generated.Schemas.v17.s_Unique_11) = true := Generated.Conforms.v17.conforms_v17_Unique

theorem slots_v20_Unique : slotOK ("v17._Unique", Generated.Ctors.v17.f_unique, Generated.Schemas.v17.s_Unique_11) = true := Generated.Conforms.v17.slots_v17_Unique

theorem conforms_v20_Unsqueeze : entryOK ("v17._Unsqueeze", Generated.Ctors.v17.f_unsqueeze, Generated.Schemas.v17.s_Unsqueeze_13) = true := Generated.Conforms.v17.conforms_v17_Unsqueeze

theorem slots_v20_Unsqueeze : slotOK ("v17._Unsqueeze", Generated.Ctors.v17.f_unsqueeze, Generated.Schemas.v17.s_Unsqueeze_13) = true := Generated.Conforms.v17.slots_v17_Unsqueeze

theorem conforms_v20_Where : entryOK ("v17._Where", Generated.Ctors.v17.f_where, Generated.Schemas.v17.s_Where_16) = true := Generated.Conforms.v17.conforms_v17_Where

theorem slots_v20_Where : slotOK ("v17._Where", Generated.Ctors.v17.f_where, Generated.Schemas.v17.s_Where_16) = true := Generated.Conforms.v17.slots_v17_Where

theorem conforms_v20_Xor : entryOK ("v17._Xor", Generated.Ctors.v17.f_xor, Generated.Schemas.v17.s_Xor_7) = true := Generated.Conforms.v17.conforms_v17_Xor

theorem slots_v20_Xor : slotOK ("v17._Xor", Generated.Ctors.v17.f_xor, Generated.Schemas.v17.s_Xor_7) = true := Generated.Conforms.v17.slots_v17_Xor

/-- every operator/module pair of this module without a listed deviation -/
def table : List Entry :=
  [
   ("v17._Abs", Generated.Ctors.v17.f_abs, Generated.Schemas.v17.s_Abs_13), 
   ("v17._Acos", Generated.Ctors.v17.f_acos, Generated.Schemas.v17.s_Acos_7), 
   ("v17._Acosh", Generated.Ctors.v17.f_acosh, Generated.Schemas.v17.s_Acosh_9), 
   ("v17._Add", Generated.Ctors.v17.f_add, Generated.Schemas.v17.s_Add_14), 
   ("v20._AffineGrid", Generated.Ctors.v20.f_affine_grid, Generated.Schemas.v20.s_AffineGrid_20), 
   ("v17._And", Generated.Ctors.v17.f_and_, Generated.Schemas.v17.s_And_7), 
   ("v17._ArgMax", Generated.Ctors.v17.f_arg_max, Generated.Schemas.v17.s_ArgMax_13), 
   ("v17._ArgMin", Generated.Ctors.v17.f_arg_min, Generated.Schemas.v17.s_ArgMin_13), 
   ("v17._Asin", Generated.Ctors.v17.f_asin, Generated.Schemas.v17.s_Asin_7), 
   ("v17._Asinh", Generated.Ctors.v17.f_asinh, Generated.Schemas.v17.s_Asinh_9), 
   ("v17._Atan", Generated.Ctors.v17.f_atan, Generated.Schemas.v17.s_Atan_7), 
   ("v17._Atanh", Generated.Ctors.v17.f_atanh, Generated.Schemas.v17.s_Atanh_9), 
   ("v19._AveragePool", Generated.Ctors.v19.f_average_pool, Generated.Schemas.v19.s_AveragePool_19), 
   ("v17._BatchNormalization", Generated.Ctors.v17.f_batch_normalization, Generated.Schemas.v17.s_BatchNormalization_15), 
   ("v17._Bernoulli", Generated.Ctors.v17.f_bernoulli, Generated.Schemas.v17.s_Bernoulli_15), 
   ("v17._BitShift", Generated.Ctors.v17.f_bit_shift, Generated.Schemas.v17.s_BitShift_11), 
   ("v18._BitwiseAnd", Generated.Ctors.v18.f_bitwise_and, Generated.Schemas.v18.s_BitwiseAnd_18), 
   ("v18._BitwiseNot", Generated.Ctors.v18.f_bitwise_not, Generated.Schemas.v18.s_BitwiseNot_18), 
   ("v18._BitwiseOr", Generated.Ctors.v18.f_bitwise_or, Generated.Schemas.v18.s_BitwiseOr_18), 
   ("v18._BitwiseXor", Generated.Ctors.v18.f_bitwise_xor, Generated.Schemas.v18.s_BitwiseXor_18), 
   ("v17._BlackmanWindow", Generated.Ctors.v17.f_blackman_window, Generated.Schemas.v17.s_BlackmanWindow_17), 
   ("v19._Cast", Generated.Ctors.v19.f_cast, Generated.Schemas.v19.s_Cast_19), 
   ("v19._CastLike", Generated.Ctors.v19.f_cast_like, Generated.Schemas.v19.s_CastLike_19), 
   ("v17._Ceil", Generated.Ctors.v17.f_ceil, Generated.Schemas.v17.s_Ceil_13), 
   ("v17._Celu", Generated.Ctors.v17.f_celu, Generated.Schemas.v17.s_Celu_12), 
   ("v18._CenterCropPad", Generated.Ctors.v18.f_center_crop_pad, Generated.Schemas.v18.s_CenterCropPad_18), 
   ("v17._Clip", Generated.Ctors.v17.f_clip, Generated.Schemas.v17.s_Clip_13), 
   ("v18._Col2Im", Generated.Ctors.v18.f_col2_im, Generated.Schemas.v18.s_Col2Im_18), 
   ("v17._Compress", Generated.Ctors.v17.f_compress, Generated.Schemas.v17.s_Compress_11), 
   ("v17._Concat", Generated.Ctors.v17.f_concat, Generated.Schemas.v17.s_Concat_13), 
   ("v17._ConcatFromSequence", Generated.Ctors.v17.f_concat_from_sequence, Generated.Schemas.v17.s_ConcatFromSequence_11), 
   ("v20._ConstantOfShape", Generated.Ctors.v20.f_constant_of_shape, Generated.Schemas.v20.s_ConstantOfShape_20), 
   ("v17._Conv", Generated.Ctors.v17.f_conv, Generated.Schemas.v17.s_Conv_11), 
   ("v17._ConvInteger", Generated.Ctors.v17.f_conv_integer, Generated.Schemas.v17.s_ConvInteger_10), 
   ("v17._ConvTranspose", Generated.Ctors.v17.f_conv_transpose, Generated.Schemas.v17.s_ConvTranspose_11), 
   ("v17._Cos", Generated.Ctors.v17.f_cos, Generated.Schemas.v17.s_Cos_7), 
   ("v17._Cosh", Generated.Ctors.v17.f_cosh, Generated.Schemas.v17.s_Cosh_9), 
   ("v17._CumSum", Generated.Ctors.v17.f_cumsum, Generated.Schemas.v17.s_CumSum_14), 
   ("v20._DFT", Generated.Ctors.v20.f_dft, Generated.Schemas.v20.s_DFT_20), 
   ("v19._DeformConv", Generated.Ctors.v19.f_deform_conv, Generated.Schemas.v19.s_DeformConv_19), 
   ("v17._DepthToSpace", Generated.Ctors.v17.f_depth_to_space, Generated.Schemas.v17.s_DepthToSpace_13), 
   ("v19._DequantizeLinear", Generated.Ctors.v19.f_dequantize_linear, Generated.Schemas.v19.s_DequantizeLinear_19), 
   ("v17._Det", Generated.Ctors.v17.f_det, Generated.Schemas.v17.s_Det_11), 
   ("v17._Div", Generated.Ctors.v17.f_div, Generated.Schemas.v17.s_Div_14), 
   ("v17._Dropout", Generated.Ctors.v17.f_dropout, Generated.Schemas.v17.s_Dropout_13), 
   ("v17._DynamicQuantizeLinear", Generated.Ctors.v17.f_dynamic_quantize_linear, Generated.Schemas.v17.s_DynamicQuantizeLinear_11), 
   ("v17._Einsum", Generated.Ctors.v17.f_einsum, Generated.Schemas.v17.s_Einsum_12), 
   ("v17._Elu", Generated.Ctors.v17.f_elu, Generated.Schemas.v17.s_Elu_6), 
   ("v19._Equal", Generated.Ctors.v19.f_equal, Generated.Schemas.v19.s_Equal_19), 
   ("v17._Erf", Generated.Ctors.v17.f_erf, Generated.Schemas.v17.s_Erf_13), 
   ("v17._Exp", Generated.Ctors.v17.f_exp, Generated.Schemas.v17.s_Exp_13), 
   ("v17._Expand", Generated.Ctors.v17.f_expand, Generated.Schemas.v17.s_Expand_13), 
   ("v17._EyeLike", Generated.Ctors.v17.f_eye_like, Generated.Schemas.v17.s_EyeLike_9), 
   ("v17._Flatten", Generated.Ctors.v17.f_flatten, Generated.Schemas.v17.s_Flatten_13), 
   ("v17._Floor", Generated.Ctors.v17.f_floor, Generated.Schemas.v17.s_Floor_13), 
   ("v17._GRU", Generated.Ctors.v17.f_gru, Generated.Schemas.v17.s_GRU_14), 
   ("v17._Gather", Generated.Ctors.v17.f_gather, Generated.Schemas.v17.s_Gather_13), 
   ("v17._GatherElements", Generated.Ctors.v17.f_gather_elements, Generated.Schemas.v17.s_GatherElements_13), 
   ("v17._GatherND", Generated.Ctors.v17.f_gather_nd, Generated.Schemas.v17.s_GatherND_13), 
   ("v20._Gelu", Generated.Ctors.v20.f_gelu, Generated.Schemas.v20.s_Gelu_20), 
   ("v17._Gemm", Generated.Ctors.v17.f_gemm, Generated.Schemas.v17.s_Gemm_13), 
   ("v17._GlobalAveragePool", Generated.Ctors.v17.f_global_average_pool, Generated.Schemas.v17.s_GlobalAveragePool_1), 
   ("v17._GlobalLpPool", Generated.Ctors.v17.f_global_lp_pool, Generated.Schemas.v17.s_GlobalLpPool_2), 
   ("v17._GlobalMaxPool", Generated.Ctors.v17.f_global_max_pool, Generated.Schemas.v17.s_GlobalMaxPool_1), 
   ("v17._Greater", Generated.Ctors.v17.f_greater, Generated.Schemas.v17.s_Greater_13), 
   ("v17._GreaterOrEqual", Generated.Ctors.v17.f_greater_or_equal, Generated.Schemas.v17.s_GreaterOrEqual_16), 
   ("v20._GridSample", Generated.Ctors.v20.f_grid_sample, Generated.Schemas.v20.s_GridSample_20), 
   ("v17._HammingWindow", Generated.Ctors.v17.f_hamming_window, Generated.Schemas.v17.s_HammingWindow_17), 
   ("v17._HannWindow", Generated.Ctors.v17.f_hann_window, Generated.Schemas.v17.s_HannWindow_17), 
   ("v17._HardSigmoid", Generated.Ctors.v17.f_hard_sigmoid, Generated.Schemas.v17.s_HardSigmoid_6), 
   ("v17._HardSwish", Generated.Ctors.v17.f_hard_swish, Generated.Schemas.v17.s_HardSwish_14), 
   ("v17._Hardmax", Generated.Ctors.v17.f_hardmax, Generated.Schemas.v17.s_Hardmax_13), 
   ("v19._Identity", Generated.Ctors.v19.f_identity, Generated.Schemas.v19.s_Identity_19), 
   ("v19._If", Generated.Ctors.v19.f_if_, Generated.Schemas.v19.s_If_19), 
   ("v20._ImageDecoder", Generated.Ctors.v20.f_image_decoder, Generated.Schemas.v20.s_ImageDecoder_20), 
   ("v17._InstanceNormalization", Generated.Ctors.v17.f_instance_normalization, Generated.Schemas.v17.s_InstanceNormalization_6), 
   ("v20._IsInf", Generated.Ctors.v20.f_isinf, Generated.Schemas.v20.s_IsInf_20), 
   ("v20._IsNaN", Generated.Ctors.v20.f_isnan, Generated.Schemas.v20.s_IsNaN_20), 
   ("v17._LRN", Generated.Ctors.v17.f_lrn, Generated.Schemas.v17.s_LRN_13), 
   ("v17._LSTM", Generated.Ctors.v17.f_lstm, Generated.Schemas.v17.s_LSTM_14), 
   ("v17._LayerNormalization", Generated.Ctors.v17.f_layer_normalization, Generated.Schemas.v17.s_LayerNormalization_17), 
   ("v17._LeakyRelu", Generated.Ctors.v17.f_leaky_relu, Generated.Schemas.v17.s_LeakyRelu_16), 
   ("v17._Less", Generated.Ctors.v17.f_less, Generated.Schemas.v17.s_Less_13), 
   ("v17._LessOrEqual", Generated.Ctors.v17.f_less_or_equal, Generated.Schemas.v17.s_LessOrEqual_16), 
   ("v17._Log", Generated.Ctors.v17.f_log, Generated.Schemas.v17.s_Log_13), 
   ("v17._LogSoftmax", Generated.Ctors.v17.f_log_softmax, Generated.Schemas.v17.s_LogSoftmax_13), 
   ("v19._Loop", Generated.Ctors.v19.f_loop, Generated.Schemas.v19.s_Loop_19), 
   ("v17._LpNormalization", Generated.Ctors.v17.f_lp_normalization, Generated.Schemas.v17.s_LpNormalization_1), 
   ("v18._LpPool", Generated.Ctors.v18.f_lp_pool, Generated.Schemas.v18.s_LpPool_18), 
   ("v17._MatMul", Generated.Ctors.v17.f_matmul, Generated.Schemas.v17.s_MatMul_13), 
   ("v17._MatMulInteger", Generated.Ctors.v17.f_matmul_integer, Generated.Schemas.v17.s_MatMulInteger_10), 
   ("v17._Max", Generated.Ctors.v17.f_max, Generated.Schemas.v17.s_Max_13), 
   ("v17._MaxPool", Generated.Ctors.v17.f_max_pool, Generated.Schemas.v17.s_MaxPool_12), 
   ("v17._MaxRoiPool", Generated.Ctors.v17.f_max_roi_pool, Generated.Schemas.v17.s_MaxRoiPool_1), 
   ("v17._MaxUnpool", Generated.Ctors.v17.f_max_unpool, Generated.Schemas.v17.s_MaxUnpool_11), 
   ("v17._Mean", Generated.Ctors.v17.f_mean, Generated.Schemas.v17.s_Mean_13), 
   ("v17._MeanVarianceNormalization", Generated.Ctors.v17.f_mean_variance_normalization, Generated.Schemas.v17.s_MeanVarianceNormalization_13), 
   ("v17._MelWeightMatrix", Generated.Ctors.v17.f_mel_weight_matrix, Generated.Schemas.v17.s_MelWeightMatrix_17), 
   ("v17._Min", Generated.Ctors.v17.f_min, Generated.Schemas.v17.s_Min_13), 
   ("v18._Mish", Generated.Ctors.v18.f_mish, Generated.Schemas.v18.s_Mish_18), 
   ("v17._Mod", Generated.Ctors.v17.f_mod, Generated.Schemas.v17.s_Mod_13), 
   ("v17._Mul", Generated.Ctors.v17.f_mul, Generated.Schemas.v17.s_Mul_14), 
   ("v17._Multinomial", Generated.Ctors.v17.f_multinomial, Generated.Schemas.v17.s_Multinomial_7), 
   ("v17._Neg", Generated.Ctors.v17.f_neg, Generated.Schemas.v17.s_Neg_13), 
   ("v17._NegativeLogLikelihoodLoss", Generated.Ctors.v17.f_negative_log_likelihood_loss, Generated.Schemas.v17.s_NegativeLogLikelihoodLoss_13), 
   ("v17._NonMaxSuppression", Generated.Ctors.v17.f_non_max_suppression, Generated.Schemas.v17.s_NonMaxSuppression_11), 
   ("v17._NonZero", Generated.Ctors.v17.f_non_zero, Generated.Schemas.v17.s_NonZero_13), 
   ("v17._Not", Generated.Ctors.v17.f_not_, Generated.Schemas.v17.s_Not_1), 
   ("v17._OneHot", Generated.Ctors.v17.f_one_hot, Generated.Schemas.v17.s_OneHot_11), 
   ("v17._Optional", Generated.Ctors.v17.f_optional, Generated.Schemas.v17.s_Optional_15), 
   ("v18._OptionalGetElement", Generated.Ctors.v18.f_optional_get_element, Generated.Schemas.v18.s_OptionalGetElement_18), 
   ("v18._OptionalHasElement", Generated.Ctors.v18.f_optional_has_element, Generated.Schemas.v18.s_OptionalHasElement_18), 
   ("v17._Or", Generated.Ctors.v17.f_or_, Generated.Schemas.v17.s_Or_7), 
   ("v17._PRelu", Generated.Ctors.v17.f_prelu, Generated.Schemas.v17.s_PRelu_16), 
   ("v19._Pad", Generated.Ctors.v19.f_pad, Generated.Schemas.v19.s_Pad_19), 
   ("v17._Pow", Generated.Ctors.v17.f_pow, Generated.Schemas.v17.s_Pow_15), 
   ("v17._QLinearConv", Generated.Ctors.v17.f_qlinear_conv, Generated.Schemas.v17.s_QLinearConv_10), 
   ("v17._QLinearMatMul", Generated.Ctors.v17.f_qlinear_matmul, Generated.Schemas.v17.s_QLinearMatMul_10), 
   ("v19._QuantizeLinear", Generated.Ctors.v19.f_quantize_linear, Generated.Schemas.v19.s_QuantizeLinear_19), 
   ("v17._RNN", Generated.Ctors.v17.f_rnn, Generated.Schemas.v17.s_RNN_14), 
   ("v17._RandomNormal", Generated.Ctors.v17.f_random_normal, Generated.Schemas.v17.s_RandomNormal_1), 
   ("v17._RandomNormalLike", Generated.Ctors.v17.f_random_normal_like, Generated.Schemas.v17.s_RandomNormalLike_1), 
   ("v17._RandomUniform", Generated.Ctors.v17.f_random_uniform, Generated.Schemas.v17.s_RandomUniform_1), 
   ("v17._RandomUniformLike", Generated.Ctors.v17.f_random_uniform_like, Generated.Schemas.v17.s_RandomUniformLike_1), 
   ("v17._Range", Generated.Ctors.v17.f_range, Generated.Schemas.v17.s_Range_11), 
   ("v17._Reciprocal", Generated.Ctors.v17.f_reciprocal, Generated.Schemas.v17.s_Reciprocal_13), 
   ("v18._ReduceL1", Generated.Ctors.v18.f_reduce_l1, Generated.Schemas.v18.s_ReduceL1_18), 
   ("v18._ReduceL2", Generated.Ctors.v18.f_reduce_l2, Generated.Schemas.v18.s_ReduceL2_18), 
   ("v18._ReduceLogSum", Generated.Ctors.v18.f_reduce_log_sum, Generated.Schemas.v18.s_ReduceLogSum_18), 
   ("v18._ReduceLogSumExp", Generated.Ctors.v18.f_reduce_log_sum_exp, Generated.Schemas.v18.s_ReduceLogSumExp_18), 
   ("v20._ReduceMax", Generated.Ctors.v20.f_reduce_max, Generated.Schemas.v20.s_ReduceMax_20), 
   ("v18._ReduceMean", Generated.Ctors.v18.f_reduce_mean, Generated.Schemas.v18.s_ReduceMean_18), 
   ("v20._ReduceMin", Generated.Ctors.v20.f_reduce_min, Generated.Schemas.v20.s_ReduceMin_20), 
   ("v18._ReduceProd", Generated.Ctors.v18.f_reduce_prod, Generated.Schemas.v18.s_ReduceProd_18), 
   ("v17._ReduceSum", Generated.Ctors.v17.f_reduce_sum, Generated.Schemas.v17.s_ReduceSum_13), 
   ("v18._ReduceSumSquare", Generated.Ctors.v18.f_reduce_sum_square, Generated.Schemas.v18.s_ReduceSumSquare_18), 
   ("v20._RegexFullMatch", Generated.Ctors.v20.f_regex_full_match, Generated.Schemas.v20.s_RegexFullMatch_20), 
   ("v17._Relu", Generated.Ctors.v17.f_relu, Generated.Schemas.v17.s_Relu_14), 
   ("v19._Reshape", Generated.Ctors.v19.f_reshape, Generated.Schemas.v19.s_Reshape_19), 
   ("v19._Resize", Generated.Ctors.v19.f_resize, Generated.Schemas.v19.s_Resize_19), 
   ("v17._ReverseSequence", Generated.Ctors.v17.f_reverse_sequence, Generated.Schemas.v17.s_ReverseSequence_10), 
   ("v17._RoiAlign", Generated.Ctors.v17.f_roi_align, Generated.Schemas.v17.s_RoiAlign_16), 
   ("v17._Round", Generated.Ctors.v17.f_round, Generated.Schemas.v17.s_Round_11), 
   ("v17._STFT", Generated.Ctors.v17.f_stft, Generated.Schemas.v17.s_STFT_17), 
   ("v19._Scan", Generated.Ctors.v19.f_scan, Generated.Schemas.v19.s_Scan_19), 
   ("v18._ScatterElements", Generated.Ctors.v18.f_scatter_elements, Generated.Schemas.v18.s_ScatterElements_18), 
   ("v18._ScatterND", Generated.Ctors.v18.f_scatter_nd, Generated.Schemas.v18.s_ScatterND_18), 
   ("v17._Selu", Generated.Ctors.v17.f_selu, Generated.Schemas.v17.s_Selu_6), 
   ("v17._SequenceAt", Generated.Ctors.v17.f_sequence_at, Generated.Schemas.v17.s_SequenceAt_11), 
   ("v17._SequenceConstruct", Generated.Ctors.v17.f_sequence_construct, Generated.Schemas.v17.s_SequenceConstruct_11), 
   ("v17._SequenceEmpty", Generated.Ctors.v17.f_sequence_empty, Generated.Schemas.v17.s_SequenceEmpty_11), 
   ("v17._SequenceErase", Generated.Ctors.v17.f_sequence_erase, Generated.Schemas.v17.s_SequenceErase_11), 
   ("v17._SequenceInsert", Generated.Ctors.v17.f_sequence_insert, Generated.Schemas.v17.s_SequenceInsert_11), 
   ("v17._SequenceLength", Generated.Ctors.v17.f_sequence_length, Generated.Schemas.v17.s_SequenceLength_11), 
   ("v17._SequenceMap", Generated.Ctors.v17.f_sequence_map, Generated.Schemas.v17.s_SequenceMap_17), 
   ("v19._Shape", Generated.Ctors.v19.f_shape, Generated.Schemas.v19.s_Shape_19), 
   ("v17._Shrink", Generated.Ctors.v17.f_shrink, Generated.Schemas.v17.s_Shrink_9), 
   ("v17._Sigmoid", Generated.Ctors.v17.f_sigmoid, Generated.Schemas.v17.s_Sigmoid_13), 
   ("v17._Sign", Generated.Ctors.v17.f_sign, Generated.Schemas.v17.s_Sign_13), 
   ("v17._Sin", Generated.Ctors.v17.f_sin, Generated.Schemas.v17.s_Sin_7), 
   ("v17._Sinh", Generated.Ctors.v17.f_sinh, Generated.Schemas.v17.s_Sinh_9), 
   ("v19._Size", Generated.Ctors.v19.f_size, Generated.Schemas.v19.s_Size_19), 
   ("v17._Slice", Generated.Ctors.v17.f_slice, Generated.Schemas.v17.s_Slice_13), 
   ("v17._Softmax", Generated.Ctors.v17.f_softmax, Generated.Schemas.v17.s_Softmax_13), 
   ("v17._SoftmaxCrossEntropyLoss", Generated.Ctors.v17.f_softmax_cross_entropy_loss, Generated.Schemas.v17.s_SoftmaxCrossEntropyLoss_13), 
   ("v17._Softplus", Generated.Ctors.v17.f_softplus, Generated.Schemas.v17.s_Softplus_1), 
   ("v17._Softsign", Generated.Ctors.v17.f_softsign, Generated.Schemas.v17.s_Softsign_1), 
   ("v17._SpaceToDepth", Generated.Ctors.v17.f_space_to_depth, Generated.Schemas.v17.s_SpaceToDepth_13), 
   ("v18._Split", Generated.Ctors.v18.f_split, Generated.Schemas.v18.s_Split_18), 
   ("v17._SplitToSequence", Generated.Ctors.v17.f_split_to_sequence, Generated.Schemas.v17.s_SplitToSequence_11), 
   ("v17._Sqrt", Generated.Ctors.v17.f_sqrt, Generated.Schemas.v17.s_Sqrt_13), 
   ("v17._Squeeze", Generated.Ctors.v17.f_squeeze, Generated.Schemas.v17.s_Squeeze_13), 
   ("v20._StringConcat", Generated.Ctors.v20.f_string_concat, Generated.Schemas.v20.s_StringConcat_20), 
   ("v17._StringNormalizer", Generated.Ctors.v17.f_string_normalizer, Generated.Schemas.v17.s_StringNormalizer_10), 
   ("v20._StringSplit", Generated.Ctors.v20.f_string_split, Generated.Schemas.v20.s_StringSplit_20), 
   ("v17._Sub", Generated.Ctors.v17.f_sub, Generated.Schemas.v17.s_Sub_14), 
   ("v17._Sum", Generated.Ctors.v17.f_sum, Generated.Schemas.v17.s_Sum_13), 
   ("v17._Tan", Generated.Ctors.v17.f_tan, Generated.Schemas.v17.s_Tan_7), 
   ("v17._Tanh", Generated.Ctors.v17.f_tanh, Generated.Schemas.v17.s_Tanh_13), 
   ("v17._TfIdfVectorizer", Generated.Ctors.v17.f_tf_idf_vectorizer, Generated.Schemas.v17.s_TfIdfVectorizer_9), 
   ("v17._ThresholdedRelu", Generated.Ctors.v17.f_thresholded_relu, Generated.Schemas.v17.s_ThresholdedRelu_10), 
   ("v17._Tile", Generated.Ctors.v17.f_tile, Generated.Schemas.v17.s_Tile_13), 
   ("v17._TopK", Generated.Ctors.v17.f_top_k, Generated.Schemas.v17.s_TopK_11), 
   ("v17._Transpose", Generated.Ctors.v17.f_transpose, Generated.Schemas.v17.s_Transpose_13), 
   ("v17._Trilu", Generated.Ctors.v17.f_trilu, Generated.Schemas.v17.s_Trilu_14), 
   ("v17._Unique", Generated.Ctors.v17.f_unique, Generated.Schemas.v17.s_Unique_11), 
   ("v17._Unsqueeze", Generated.Ctors.v17.f_unsqueeze, Generated.Schemas.v17.s_Unsqueeze_13), 
   ("v17._Where", Generated.Ctors.v17.f_where, Generated.Schemas.v17.s_Where_16), 
   ("v17._Xor", Generated.Ctors.v17.f_xor, Generated.Schemas.v17.s_Xor_7)]

theorem table_all : table.all entryOK = true :=
  all_cons conforms_v20_Abs (
  all_cons conforms_v20_Acos (
  all_cons conforms_v20_Acosh (
  all_cons conforms_v20_Add (
  all_cons conforms_v20_AffineGrid (
  all_cons conforms_v20_And (
  all_cons conforms_v20_ArgMax (
  all_cons conforms_v20_ArgMin (
  all_cons conforms_v20_Asin (
  all_cons conforms_v20_Asinh (
  all_cons conforms_v20_Atan (
  all_cons conforms_v20_Atanh (
  all_cons conforms_v20_AveragePool (
  all_cons conforms_v20_BatchNormalization (
  all_cons conforms_v20_Bernoulli (
  all_cons conforms_v20_BitShift (
  all_cons conforms_v20_BitwiseAnd (
  all_cons conforms_v20_BitwiseNot (
  all_cons conforms_v20_BitwiseOr (
  all_cons conforms_v20_BitwiseXor (
  all_cons conforms_v20_BlackmanWindow (
  all_cons conforms_v20_Cast (
  all_cons conforms_v20_CastLike (
  all_cons conforms_v20_Ceil (
  all_cons conforms_v20_Celu (
  all_cons conforms_v20_CenterCropPad (
  all_cons conforms_v20_Clip (
  all_cons conforms_v20_Col2Im (
  all_cons conforms_v20_Compress (
  all_cons conforms_v20_Concat (
  all_cons conforms_v20_ConcatFromSequence (
  all_cons conforms_v20_ConstantOfShape (
  all_cons conforms_v20_Conv (
  all_cons conforms_v20_ConvInteger (
  all_cons conforms_v20_ConvTranspose (
  all_cons conforms_v20_Cos (
  all_cons conforms_v20_Cosh (
  all_cons conforms_v20_CumSum (
  all_cons conforms_v20_DFT (
  all_cons conforms_v20_DeformConv (
  all_cons conforms_v20_DepthToSpace (
  all_cons conforms_v20_DequantizeLinear (
  all_cons conforms_v20_Det (
  all_cons conforms_v20_Div (
  all_cons conforms_v20_Dropout (
  all_cons conforms_v20_DynamicQuantizeLinear (
  all_cons conforms_v20_Einsum (
  all_cons conforms_v20_Elu (
  all_cons conforms_v20_Equal (
  all_cons conforms_v20_Erf (
  all_cons conforms_v20_Exp (
  all_cons conforms_v20_Expand (
  all_cons conforms_v20_EyeLike (
  all_cons conforms_v20_Flatten (
  all_cons conforms_v20_Floor (
  all_cons conforms_v20_GRU (
  all_cons conforms_v20_Gather (
  all_cons conforms_v20_GatherElements (
  all_cons conforms_v20_GatherND (
  all_cons conforms_v20_Gelu (
  all_cons conforms_v20_Gemm (
  all_cons conforms_v20_GlobalAveragePool (
  all_cons conforms_v20_GlobalLpPool (
  all_cons conforms_v20_GlobalMaxPool (
  all_cons conforms_v20_Greater (
  all_cons conforms_v20_GreaterOrEqual (
  all_cons conforms_v20_GridSample (
  all_cons conforms_v20_HammingWindow (
  all_cons conforms_v20_HannWindow (
  all_cons conforms_v20_HardSigmoid (
  all_cons conforms_v20_HardSwish (
  all_cons conforms_v20_Hardmax (
  all_cons conforms_v20_Identity (
  all_cons conforms_v20_If (
  all_cons conforms_v20_ImageDecoder (
  all_cons conforms_v20_InstanceNormalization (
  all_cons conforms_v20_IsInf (
  all_cons conforms_v20_IsNaN (
  all_cons conforms_v20_LRN (
  all_cons conforms_v20_LSTM (
  all_cons conforms_v20_LayerNormalization (
  all_cons conforms_v20_LeakyRelu (
  all_cons conforms_v20_Less (
  all_cons conforms_v20_LessOrEqual (
  all_cons conforms_v20_Log (
  all_cons conforms_v20_LogSoftmax (
  all_cons conforms_v20_Loop (
  all_cons conforms_v20_LpNormalization (
  all_cons conforms_v20_LpPool (
  all_cons conforms_v20_MatMul (
  all_cons conforms_v20_MatMulInteger (
  all_cons conforms_v20_Max (
  all_cons conforms_v20_MaxPool (
  all_cons conforms_v20_MaxRoiPool (
  all_cons conforms_v20_MaxUnpool (
  all_cons conforms_v20_Mean (
  all_cons conforms_v20_MeanVarianceNormalization (
  all_cons conforms_v20_MelWeightMatrix (
  all_cons conforms_v20_Min (
  all_cons conforms_v20_Mish (
  all_cons conforms_v20_Mod (
  all_cons conforms_v20_Mul (
  all_cons conforms_v20_Multinomial (
  all_cons conforms_v20_Neg (
  all_cons conforms_v20_NegativeLogLikelihoodLoss (
  all_cons conforms_v20_NonMaxSuppression (
  all_cons conforms_v20_NonZero (
  all_cons conforms_v20_Not (
  all_cons conforms_v20_OneHot (
  all_cons conforms_v20_Optional (
  all_cons conforms_v20_OptionalGetElement (
  all_cons conforms_v20_OptionalHasElement (
  all_cons conforms_v20_Or (
  all_cons conforms_v20_PRelu (
  all_cons conforms_v20_Pad (
  all_cons conforms_v20_Pow (
  all_cons conforms_v20_QLinearConv (
  all_cons conforms_v20_QLinearMatMul (
  all_cons conforms_v20_QuantizeLinear (
  all_cons conforms_v20_RNN (
  all_cons conforms_v20_RandomNormal (
  all_cons conforms_v20_RandomNormalLike (
  all_cons conforms_v20_RandomUniform (
  all_cons conforms_v20_RandomUniformLike (
  all_cons conforms_v20_Range (
  all_cons conforms_v20_Reciprocal (
  all_cons conforms_v20_ReduceL1 (
  all_cons conforms_v20_ReduceL2 (
  all_cons conforms_v20_ReduceLogSum (
  all_cons conforms_v20_ReduceLogSumExp (
  all_cons conforms_v20_ReduceMax (
  all_cons conforms_v20_ReduceMean (
  all_cons conforms_v20_ReduceMin (
  all_cons conforms_v20_ReduceProd (
  all_cons conforms_v20_ReduceSum (
  all_cons conforms_v20_ReduceSumSquare (
  all_cons conforms_v20_RegexFullMatch (
  all_cons conforms_v20_Relu (
  all_cons conforms_v20_Reshape (
  all_cons conforms_v20_Resize (
  all_cons conforms_v20_ReverseSequence (
  all_cons conforms_v20_RoiAlign (
  all_cons conforms_v20_Round (
  all_cons conforms_v20_STFT (
  all_cons conforms_v20_Scan (
  all_cons conforms_v20_ScatterElements (
  all_cons conforms_v20_ScatterND (
  all_cons conforms_v20_Selu (
  all_cons conforms_v20_SequenceAt (
  all_cons conforms_v20_SequenceConstruct (
  all_cons conforms_v20_SequenceEmpty (
  all_cons conforms_v20_SequenceErase (
  all_cons conforms_v20_SequenceInsert (
  all_cons conforms_v20_SequenceLength (
  all_cons conforms_v20_SequenceMap (
  all_cons conforms_v20_Shape (
  all_cons conforms_v20_Shrink (
  all_cons conforms_v20_Sigmoid (
  all_cons conforms_v20_Sign (
  all_cons conforms_v20_Sin (
  all_cons conforms_v20_Sinh (
  all_cons conforms_v20_Size (
  all_cons conforms_v20_Slice (
  all_cons conforms_v20_Softmax (
  all_cons conforms_v20_SoftmaxCrossEntropyLoss (
  all_cons conforms_v20_Softplus (
  all_cons conforms_v20_Softsign (
  all_cons conforms_v20_SpaceToDepth (
  all_cons conforms_v20_Split (
  all_cons conforms_v20_SplitToSequence (
  all_cons conforms_v20_Sqrt (
  all_cons conforms_v20_Squeeze (
  all_cons conforms_v20_StringConcat (
  all_cons conforms_v20_StringNormalizer (
  all_cons conforms_v20_StringSplit (
  all_cons conforms_v20_Sub (
  all_cons conforms_v20_Sum (
  all_cons conforms_v20_Tan (
  all_cons conforms_v20_Tanh (
  all_cons conforms_v20_TfIdfVectorizer (
  all_cons conforms_v20_ThresholdedRelu (
  all_cons conforms_v20_Tile (
  all_cons conforms_v20_TopK (
  all_cons conforms_v20_Transpose (
  all_cons conforms_v20_Trilu (
  all_cons conforms_v20_Unique (
  all_cons conforms_v20_Unsqueeze (
  all_cons conforms_v20_Where (
  all_cons conforms_v20_Xor (
  all_nil)))))))))))))))))))))))))))))))))))))))))))))))))))))))))))))))))))))))))))))))))))))))))))))))))))))))))))))))))))))))))))))))))))))))))))))))))))))))))))))))))))))))))))))))))))))))))))))

theorem table_conforms : ∀ e ∈ table, entryOK e = true :=
  fun e he => List.all_eq_true.mp table_all e he

/-- every operator/module pair of this module (deviating ones included: deviations concern attributes) -/
def allEntries : List Entry :=
  [
   ("v17._Abs", Generated.Ctors.v17.f_abs, Generated.Schemas.v17.s_Abs_13), 
   ("v17._Acos", Generated.Ctors.v17.f_acos, Generated.Schemas.v17.s_Acos_7), 
   ("v17._Acosh", Generated.Ctors.v17.f_acosh, Generated.Schemas.v17.s_Acosh_9), 
   ("v17._Add", Generated.Ctors.v17.f_add, Generated.Schemas.v17.s_Add_14), 
   ("v20._AffineGrid", Generated.Ctors.v20.f_affine_grid, Generated.Schemas.v20.s_AffineGrid_20), 
   ("v17._And", Generated.Ctors.v17.f_and_, Generated.Schemas.v17.s_And_7), 
   ("v17._ArgMax", Generated.Ctors.v17.f_arg_max, Generated.Schemas.v17.s_ArgMax_13), 
   ("v17._ArgMin", Generated.Ctors.v17.f_arg_min, Generated.Schemas.v17.s_ArgMin_13), 
   ("v17._Asin", Generated.Ctors.v17.f_asin, Generated.Schemas.v17.s_Asin_7), 
   ("v17._Asinh", Generated.Ctors.v17.f_asinh, Generated.Schemas.v17.s_Asinh_9), 
   ("v17._Atan", Generated.Ctors.v17.f_atan, Generated.Schemas.v17.s_Atan_7), 
   ("v17._Atanh", Generated.Ctors.v17.f_atanh, Generated.Schemas.v17.s_Atanh_9), 
   ("v19._AveragePool", Generated.Ctors.v19.f_average_pool, Generated.Schemas.v19.s_AveragePool_19), 
   ("v17._BatchNormalization", Generated.Ctors.v17.f_batch_normalization, Generated.Schemas.v17.s_BatchNormalization_15), 
   ("v17._Bernoulli", Generated.Ctors.v17.f_bernoulli, Generated.Schemas.v17.s_Bernoulli_15), 
   ("v17._BitShift", Generated.Ctors.v17.f_bit_shift, Generated.Schemas.v17.s_BitShift_11), 
   ("v18._BitwiseAnd", Generated.Ctors.v18.f_bitwise_and, Generated.Schemas.v18.s_BitwiseAnd_18), 
   ("v18._BitwiseNot", Generated.Ctors.v18.f_bitwise_not, Generated.Schemas.v18.s_BitwiseNot_18), 
   ("v18._BitwiseOr", Generated.Ctors.v18.f_bitwise_or, Generated.Schemas.v18.s_BitwiseOr_18), 
   ("v18._BitwiseXor", Generated.Ctors.v18.f_bitwise_xor, Generated.Schemas.v18.s_BitwiseXor_18), 
   ("v17._BlackmanWindow", Generated.Ctors.v17.f_blackman_window, Generated.Schemas.v17.s_BlackmanWindow_17), 
   ("v19._Cast", Generated.Ctors.v19.f_cast, Generated.Schemas.v19.s_Cast_19), 
   ("v19._CastLike", Generated.Ctors.v19.f_cast_like, Generated.Schemas.v19.s_CastLike_19), 
   ("v17._Ceil", Generated.Ctors.v17.f_ceil, Generated.Schemas.v17.s_Ceil_13), 
   ("v17._Celu", Generated.Ctors.v17.f_celu, Generated.Schemas.v17.s_Celu_12), 
   ("v18._CenterCropPad", Generated.Ctors.v18.f_center_crop_pad, Generated.Schemas.v18.s_CenterCropPad_18), 
   ("v17._Clip", Generated.Ctors.v17.f_clip, Generated.Schemas.v17.s_Clip_13), 
   ("v18._Col2Im", Generated.Ctors.v18.f_col2_im, Generated.Schemas.v18.s_Col2Im_18), 
   ("v17._Compress", Generated.Ctors.v17.f_compress, Generated.Schemas.v17.s_Compress_11), 
   ("v17._Concat", Generated.Ctors.v17.f_concat, Generated.Schemas.v17.s_Concat_13), 
   ("v17._ConcatFromSequence", Generated.Ctors.v17.f_concat_from_sequence, Generated.Schemas.v17.s_ConcatFromSequence_11), 
   ("v19._Constant", Generated.Ctors.v19.f_constant, Generated.Schemas.v19.s_Constant_19), 
   ("v20._ConstantOfShape", Generated.Ctors.v20.f_constant_of_shape, Generated.Schemas.v20.s_ConstantOfShape_20), 
   ("v17._Conv", Generated.Ctors.v17.f_conv, Generated.Schemas.v17.s_Conv_11), 
   ("v17._ConvInteger", Generated.Ctors.v17.f_conv_integer, Generated.Schemas.v17.s_ConvInteger_10), 
   ("v17._ConvTranspose", Generated.Ctors.v17.f_conv_transpose, Generated.Schemas.v17.s_ConvTranspose_11), 
   ("v17._Cos", Generated.Ctors.v17.f_cos, Generated.Schemas.v17.s_Cos_7), 
   ("v17._Cosh", Generated.Ctors.v17.f_cosh, Generated.Schemas.v17.s_Cosh_9), 
   ("v17._CumSum", Generated.Ctors.v17.f_cumsum, Generated.Schemas.v17.s_CumSum_14), 
   ("v20._DFT", Generated.Ctors.v20.f_dft, Generated.Schemas.v20.s_DFT_20), 
   ("v19._DeformConv", Generated.Ctors.v19.f_deform_conv, Generated.Schemas.v19.s_DeformConv_19), 
   ("v17._DepthToSpace", Generated.Ctors.v17.f_depth_to_space, Generated.Schemas.v17.s_DepthToSpace_13), 
   ("v19._DequantizeLinear", Generated.Ctors.v19.f_dequantize_linear, Generated.Schemas.v19.s_DequantizeLinear_19), 
   ("v17._Det", Generated.Ctors.v17.f_det, Generated.Schemas.v17.s_Det_11), 
   ("v17._Div", Generated.Ctors.v17.f_div, Generated.Schemas.v17.s_Div_14), 
   ("v17._Dropout", Generated.Ctors.v17.f_dropout, Generated.Schemas.v17.s_Dropout_13), 
   ("v17._DynamicQuantizeLinear", Generated.Ctors.v17.f_dynamic_quantize_linear, Generated.Schemas.v17.s_DynamicQuantizeLinear_11), 
   ("v17._Einsum", Generated.Ctors.v17.f_einsum, Generated.Schemas.v17.s_Einsum_12), 
   ("v17._Elu", Generated.Ctors.v17.f_elu, Generated.Schemas.v17.s_Elu_6), 
   ("v19._Equal", Generated.Ctors.v19.f_equal, Generated.Schemas.v19.s_Equal_19), 
   ("v17._Erf", Generated.Ctors.v17.f_erf, Generated.Schemas.v17.s_Erf_13), 
   ("v17._Exp", Generated.Ctors.v17.f_exp, Generated.Schemas.v17.s_Exp_13), 
   ("v17._Expand", Generated.Ctors.v17.f_expand, Generated.Schemas.v17.s_Expand_13), 
   ("v17._EyeLike", Generated.Ctors.v17.f_eye_like, Generated.Schemas.v17.s_EyeLike_9), 
   ("v17._Flatten", Generated.Ctors.v17.f_flatten, Generated.Schemas.v17.s_Flatten_13), 
   ("v17._Floor", Generated.Ctors.v17.f_floor, Generated.Schemas.v17.s_Floor_13), 
   ("v17._GRU", Generated.Ctors.v17.f_gru, Generated.Schemas.v17.s_GRU_14), 
   ("v17._Gather", Generated.Ctors.v17.f_gather, Generated.Schemas.v17.s_Gather_13), 
   ("v17._GatherElements", Generated.Ctors.v17.f_gather_elements, Generated.Schemas.v17.s_GatherElements_13), 
   ("v17._GatherND", Generated.Ctors.v17.f_gather_nd, Generated.Schemas.v17.s_GatherND_13), 
   ("v20._Gelu", Generated.Ctors.v20.f_gelu, Generated.Schemas.v20.s_Gelu_20), 
   ("v17._Gemm", Generated.Ctors.v17.f_gemm, Generated.Schemas.v17.s_Gemm_13), 
   ("v17._GlobalAveragePool", Generated.Ctors.v17.f_global_average_pool, Generated.Schemas.v17.s_GlobalAveragePool_1), 
   ("v17._GlobalLpPool", Generated.Ctors.v17.f_global_lp_pool, Generated.Schemas.v17.s_GlobalLpPool_2), 
   ("v17._GlobalMaxPool", Generated.Ctors.v17.f_global_max_pool, Generated.Schemas.v17.s_GlobalMaxPool_1), 
   ("v17._Greater", Generated.Ctors.v17.f_greater, Generated.Schemas.v17.s_Greater_13), 
   ("v17._GreaterOrEqual", Generated.Ctors.v17.f_greater_or_equal, Generated.Schemas.v17.s_GreaterOrEqual_16), 
   ("v20._GridSample", Generated.Ctors.v20.f_grid_sample, Generated.Schemas.v20.s_GridSample_20), 
   ("v18._GroupNormalization", Generated.Ctors.v18.f_group_normalization, Generated.Schemas.v18.s_GroupNormalization_18), 
   ("v17._HammingWindow", Generated.Ctors.v17.f_hamming_window, Generated.Schemas.v17.s_HammingWindow_17), 
   ("v17._HannWindow", Generated.Ctors.v17.f_hann_window, Generated.Schemas.v17.s_HannWindow_17), 
   ("v17._HardSigmoid", Generated.Ctors.v17.f_hard_sigmoid, Generated.Schemas.v17.s_HardSigmoid_6), 
   ("v17._HardSwish", Generated.Ctors.v17.f_hard_swish, Generated.Schemas.v17.s_HardSwish_14), 
   ("v17._Hardmax", Generated.Ctors.v17.f_hardmax, Generated.Schemas.v17.s_Hardmax_13), 
   ("v19._Identity", Generated.Ctors.v19.f_identity, Generated.Schemas.v19.s_Identity_19), 
   ("v19._If", Generated.Ctors.v19.f_if_, Generated.Schemas.v19.s_If_19), 
   ("v20._ImageDecoder", Generated.Ctors.v20.f_image_decoder, Generated.Schemas.v20.s_ImageDecoder_20), 
   ("v17._InstanceNormalization", Generated.Ctors.v17.f_instance_normalization, Generated.Schemas.v17.s_InstanceNormalization_6), 
   ("v20._IsInf", Generated.Ctors.v20.f_isinf, Generated.Schemas.v20.s_IsInf_20), 
   ("v20._IsNaN", Generated.Ctors.v20.f_isnan, Generated.Schemas.v20.s_IsNaN_20), 
   ("v17._LRN", Generated.Ctors.v17.f_lrn, Generated.Schemas.v17.s_LRN_13), 
   ("v17._LSTM", Generated.Ctors.v17.f_lstm, Generated.Schemas.v17.s_LSTM_14), 
   ("v17._LayerNormalization", Generated.Ctors.v17.f_layer_normalization, Generated.Schemas.v17.s_LayerNormalization_17), 
   ("v17._LeakyRelu", Generated.Ctors.v17.f_leaky_relu, Generated.Schemas.v17.s_LeakyRelu_16), 
   ("v17._Less", Generated.Ctors.v17.f_less, Generated.Schemas.v17.s_Less_13), 
   ("v17._LessOrEqual", Generated.Ctors.v17.f_less_or_equal, Generated.Schemas.v17.s_LessOrEqual_16), 
   ("v17._Log", Generated.Ctors.v17.f_log, Generated.Schemas.v17.s_Log_13), 
   ("v17._LogSoftmax", Generated.Ctors.v17.f_log_softmax, Generated.Schemas.v17.s_LogSoftmax_13), 
   ("v19._Loop", Generated.Ctors.v19.f_loop, Generated.Schemas.v19.s_Loop_19), 
   ("v17._LpNormalization", Generated.Ctors.v17.f_lp_normalization, Generated.Schemas.v17.s_LpNormalization_1), 
   ("v18._LpPool", Generated.Ctors.v18.f_lp_pool, Generated.Schemas.v18.s_LpPool_18), 
   ("v17._MatMul", Generated.Ctors.v17.f_matmul, Generated.Schemas.v17.s_MatMul_13), 
   ("v17._MatMulInteger", Generated.Ctors.v17.f_matmul_integer, Generated.Schemas.v17.s_MatMulInteger_10), 
   ("v17._Max", Generated.Ctors.v17.f_max, Generated.Schemas.v17.s_Max_13), 
   ("v17._MaxPool", Generated.Ctors.v17.f_max_pool, Generated.Schemas.v17.s_MaxPool_12), 
   ("v17._MaxRoiPool", Generated.Ctors.v17.f_max_roi_pool, Generated.Schemas.v17.s_MaxRoiPool_1), 
   ("v17._MaxUnpool", Generated.Ctors.v17.f_max_unpool, Generated.Schemas.v17.s_MaxUnpool_11), 
   ("v17._Mean", Generated.Ctors.v17.f_mean, Generated.Schemas.v17.s_Mean_13), 
   ("v17._MeanVarianceNormalization", Generated.Ctors.v17.f_mean_variance_normalization, Generated.Schemas.v17.s_MeanVarianceNormalization_13), 
   ("v17._MelWeightMatrix", Generated.Ctors.v17.f_mel_weight_matrix, Generated.Schemas.v17.s_MelWeightMatrix_17), 
   ("v17._Min", Generated.Ctors.v17.f_min, Generated.Schemas.v17.s_Min_13), 
   ("v18._Mish", Generated.Ctors.v18.f_mish, Generated.Schemas.v18.s_Mish_18), 
   ("v17._Mod", Generated.Ctors.v17.f_mod, Generated.Schemas.v17.s_Mod_13), 
   ("v17._Mul", Generated.Ctors.v17.f_mul, Generated.Schemas.v17.s_Mul_14), 
   ("v17._Multinomial", Generated.Ctors.v17.f_multinomial, Generated.Schemas.v17.s_Multinomial_7), 
   ("v17._Neg", Generated.Ctors.v17.f_neg, Generated.Schemas.v17.s_Neg_13), 
   ("v17._NegativeLogLikelihoodLoss", Generated.Ctors.v17.f_negative_log_likelihood_loss, Generated.Schemas.v17.s_NegativeLogLikelihoodLoss_13), 
   ("v17._NonMaxSuppression", Generated.Ctors.v17.f_non_max_suppression, Generated.Schemas.v17.s_NonMaxSuppression_11), 
   ("v17._NonZero", Generated.Ctors.v17.f_non_zero, Generated.Schemas.v17.s_NonZero_13), 
   ("v17._Not", Generated.Ctors.v17.f_not_, Generated.Schemas.v17.s_Not_1), 
   ("v17._OneHot", Generated.Ctors.v17.f_one_hot, Generated.Schemas.v17.s_OneHot_11), 
   ("v17._Optional", Generated.Ctors.v17.f_optional, Generated.Schemas.v17.s_Optional_15), 
   ("v18._OptionalGetElement", Generated.Ctors.v18.f_optional_get_element, Generated.Schemas.v18.s_OptionalGetElement_18), 
   ("v18._OptionalHasElement", Generated.Ctors.v18.f_optional_has_element, Generated.Schemas.v18.s_OptionalHasElement_18), 
   ("v17._Or", Generated.Ctors.v17.f_or_, Generated.Schemas.v17.s_Or_7), 
   ("v17._PRelu", Generated.Ctors.v17.f_prelu, Generated.Schemas.v17.s_PRelu_16), 
   ("v19._Pad", Generated.Ctors.v19.f_pad, Generated.Schemas.v19.s_Pad_19), 
   ("v17._Pow", Generated.Ctors.v17.f_pow, Generated.Schemas.v17.s_Pow_15), 
   ("v17._QLinearConv", Generated.Ctors.v17.f_qlinear_conv, Generated.Schemas.v17.s_QLinearConv_10), 
   ("v17._QLinearMatMul", Generated.Ctors.v17.f_qlinear_matmul, Generated.Schemas.v17.s_QLinearMatMul_10), 
   ("v19._QuantizeLinear", Generated.Ctors.v19.f_quantize_linear, Generated.Schemas.v19.s_QuantizeLinear_19), 
   ("v17._RNN", Generated.Ctors.v17.f_rnn, Generated.Schemas.v17.s_RNN_14), 
   ("v17._RandomNormal", Generated.Ctors.v17.f_random_normal, Generated.Schemas.v17.s_RandomNormal_1), 
   ("v17._RandomNormalLike", Generated.Ctors.v17.f_random_normal_like, Generated.Schemas.v17.s_RandomNormalLike_1), 
   ("v17._RandomUniform", Generated.Ctors.v17.f_random_uniform, Generated.Schemas.v17.s_RandomUniform_1), 
   ("v17._RandomUniformLike", Generated.Ctors.v17.f_random_uniform_like, Generated.Schemas.v17.s_RandomUniformLike_1), 
   ("v17._Range", Generated.Ctors.v17.f_range, Generated.Schemas.v17.s_Range_11), 
   ("v17._Reciprocal", Generated.Ctors.v17.f_reciprocal, Generated.Schemas.v17.s_Reciprocal_13), 
   ("v18._ReduceL1", Generated.Ctors.v18.f_reduce_l1, Generated.Schemas.v18.s_ReduceL1_18), 
   ("v18._ReduceL2", Generated.Ctors.v18.f_reduce_l2, Generated.Schemas.v18.s_ReduceL2_18), 
   ("v18._ReduceLogSum", Generated.Ctors.v18.f_reduce_log_sum, Generated.Schemas.v18.s_ReduceLogSum_18), 
   ("v18._ReduceLogSumExp", Generated.Ctors.v18.f_reduce_log_sum_exp, Generated.Schemas.v18.s_ReduceLogSumExp_18), 
   ("v20._ReduceMax", Generated.Ctors.v20.f_reduce_max, Generated.Schemas.v20.s_ReduceMax_20), 
   ("v18._ReduceMean", Generated.Ctors.v18.f_reduce_mean, Generated.Schemas.v18.s_ReduceMean_18), 
   ("v20._ReduceMin", Generated.Ctors.v20.f_reduce_min, Generated.Schemas.v20.s_ReduceMin_20), 
   ("v18._ReduceProd", Generated.Ctors.v18.f_reduce_prod, Generated.Schemas.v18.s_ReduceProd_18), 
   ("v17._ReduceSum", Generated.Ctors.v17.f_reduce_sum, Generated.Schemas.v17.s_ReduceSum_13), 
   ("v18._ReduceSumSquare", Generated.Ctors.v18.f_reduce_sum_square, Generated.Schemas.v18.s_ReduceSumSquare_18), 
   ("v20._RegexFullMatch", Generated.Ctors.v20.f_regex_full_match, Generated.Schemas.v20.s_RegexFullMatch_20), 
   ("v17._Relu", Generated.Ctors.v17.f_relu, Generated.Schemas.v17.s_Relu_14), 
   ("v19._Reshape", Generated.Ctors.v19.f_reshape, Generated.Schemas.v19.s_Reshape_19), 
   ("v19._Resize", Generated.Ctors.v19.f_resize, Generated.Schemas.v19.s_Resize_19), 
   ("v17._ReverseSequence", Generated.Ctors.v17.f_reverse_sequence, Generated.Schemas.v17.s_ReverseSequence_10), 
   ("v17._RoiAlign", Generated.Ctors.v17.f_roi_align, Generated.Schemas.v17.s_RoiAlign_16), 
   ("v17._Round", Generated.Ctors.v17.f_round, Generated.Schemas.v17.s_Round_11), 
   ("v17._STFT", Generated.Ctors.v17.f_stft, Generated.Schemas.v17.s_STFT_17), 
   ("v19._Scan", Generated.Ctors.v19.f_scan, Generated.Schemas.v19.s_Scan_19), 
   ("v18._ScatterElements", Generated.Ctors.v18.f_scatter_elements, Generated.Schemas.v18.s_ScatterElements_18), 
   ("v18._ScatterND", Generated.Ctors.v18.f_scatter_nd, Generated.Schemas.v18.s_ScatterND_18), 
   ("v17._Selu", Generated.Ctors.v17.f_selu, Generated.Schemas.v17.s_Selu_6), 
   ("v17._SequenceAt", Generated.Ctors.v17.f_sequence_at, Generated.Schemas.v17.s_SequenceAt_11), 
   ("v17._SequenceConstruct", Generated.Ctors.v17.f_sequence_construct, Generated.Schemas.v17.s_SequenceConstruct_11), 
   ("v17._SequenceEmpty", Generated.Ctors.v17.f_sequence_empty, Generated.Schemas.v17.s_SequenceEmpty_11), 
   ("v17._SequenceErase", Generated.Ctors.v17.f_sequence_erase, Generated.Schemas.v17.s_SequenceErase_11), 
   ("v17._SequenceInsert", Generated.Ctors.v17.f_sequence_insert, Generated.Schemas.v17.s_SequenceInsert_11), 
   ("v17._SequenceLength", Generated.Ctors.v17.f_sequence_length, Generated.Schemas.v17.s_SequenceLength_11), 
   ("v17._SequenceMap", Generated.Ctors.v17.f_sequence_map, Generated.Schemas.v17.s_SequenceMap_17), 
   ("v19._Shape", Generated.Ctors.v19.f_shape, Generated.Schemas.v19.s_Shape_19), 
   ("v17._Shrink", Generated.Ctors.v17.f_shrink, Generated.Schemas.v17.s_Shrink_9), 
   ("v17._Sigmoid", Generated.Ctors.v17.f_sigmoid, Generated.Schemas.v17.s_Sigmoid_13), 
   ("v17._Sign", Generated.Ctors.v17.f_sign, Generated.Schemas.v17.s_Sign_13), 
   ("v17._Sin", Generated.Ctors.v17.f_sin, Generated.Schemas.v17.s_Sin_7), 
   ("v17._Sinh", Generated.Ctors.v17.f_sinh, Generated.Schemas.v17.s_Sinh_9), 
   ("v19._Size", Generated.Ctors.v19.f_size, Generated.Schemas.v19.s_Size_19), 
   ("v17._Slice", Generated.Ctors.v17.f_slice, Generated.Schemas.v17.s_Slice_13), 
   ("v17._Softmax", Generated.Ctors.v17.f_softmax, Generated.Schemas.v17.s_Softmax_13), 
   ("v17._SoftmaxCrossEntropyLoss", Generated.Ctors.v17.f_softmax_cross_entropy_loss, Generated.Schemas.v17.s_SoftmaxCrossEntropyLoss_13), 
   ("v17._Softplus", Generated.Ctors.v17.f_softplus, Generated.Schemas.v17.s_Softplus_1), 
   ("v17._Softsign", Generated.Ctors.v17.f_softsign, Generated.Schemas.v17.s_Softsign_1), 
   ("v17._SpaceToDepth", Generated.Ctors.v17.f_space_to_depth, Generated.Schemas.v17.s_SpaceToDepth_13), 
   ("v18._Split", Generated.Ctors.v18.f_split, Generated.Schemas.v18.s_Split_18), 
   ("v17._SplitToSequence", Generated.Ctors.v17.f_split_to_sequence, Generated.Schemas.v17.s_SplitToSequence_11), 
   ("v17._Sqrt", Generated.Ctors.v17.f_sqrt, Generated.Schemas.v17.s_Sqrt_13), 
   ("v17._Squeeze", Generated.Ctors.v17.f_squeeze, Generated.Schemas.v17.s_Squeeze_13), 
   ("v20._StringConcat", Generated.Ctors.v20.f_string_concat, Generated.Schemas.v20.s_StringConcat_20), 
   ("v17._StringNormalizer", Generated.Ctors.v17.f_string_normalizer, Generated.Schemas.v17.s_StringNormalizer_10), 
   ("v20._StringSplit", Generated.Ctors.v20.f_string_split, Generated.Schemas.v20.s_StringSplit_20), 
   ("v17._Sub", Generated.Ctors.v17.f_sub, Generated.Schemas.v17.s_Sub_14), 
   ("v17._Sum", Generated.Ctors.v17.f_sum, Generated.Schemas.v17.s_Sum_13), 
   ("v17._Tan", Generated.Ctors.v17.f_tan, Generated.Schemas.v17.s_Tan_7), 
   ("v17._Tanh", Generated.Ctors.v17.f_tanh, Generated.Schemas.v17.s_Tanh_13), 
   ("v17._TfIdfVectorizer", Generated.Ctors.v17.f_tf_idf_vectorizer, Generated.Schemas.v17.s_TfIdfVectorizer_9), 
   ("v17._ThresholdedRelu", Generated.Ctors.v17.f_thresholded_relu, Generated.Schemas.v17.s_ThresholdedRelu_10), 
   ("v17._Tile", Generated.Ctors.v17.f_tile, Generated.Schemas.v17.s_Tile_13), 
   ("v17._TopK", Generated.Ctors.v17.f_top_k, Generated.Schemas.v17.s_TopK_11), 
   ("v17._Transpose", Generated.Ctors.v17.f_transpose, Generated.Schemas.v17.s_Transpose_13), 
   ("v17._Trilu", Generated.Ctors.v17.f_trilu, Generated.Schemas.v17.s_Trilu_14), 
   ("v17._Unique", Generated.Ctors.v17.f_unique, Generated.Schemas.v17.s_Unique_11), 
   ("v17._Unsqueeze", Generated.Ctors.v17.f_unsqueeze, Generated.Schemas.v17.s_Unsqueeze_13), 
   ("v17._Where", Generated.Ctors.v17.f_where, Generated.Schemas.v17.s_Where_16), 
   ("v17._Xor", Generated.Ctors.v17.f_xor, Generated.Schemas.v17.s_Xor_7)]

theorem slots_all : allEntries.all slotOK = true :=
  all_cons slots_v20_Abs (
  all_cons slots_v20_Acos (
  all_cons slots_v20_Acosh (
  all_cons slots_v20_Add (
  all_cons slots_v20_AffineGrid (
  all_cons slots_v20_And (
  all_cons slots_v20_ArgMax (
  all_cons slots_v20_ArgMin (
  all_cons slots_v20_Asin (
  all_cons slots_v20_Asinh (
  all_cons slots_v20_Atan (
  all_cons slots_v20_Atanh (
  all_cons slots_v20_AveragePool (
  all_cons slots_v20_BatchNormalization (
  all_cons slots_v20_Bernoulli (
  all_cons slots_v20_BitShift (
  all_cons slots_v20_BitwiseAnd (
  all_cons slots_v20_BitwiseNot (
  all_cons slots_v20_BitwiseOr (
  all_cons slots_v20_BitwiseXor (
  all_cons slots_v20_BlackmanWindow (
  all_cons slots_v20_Cast (
  all_cons slots_v20_CastLike (
  all_cons slots_v20_Ceil (
  all_cons slots_v20_Celu (
  all_cons slots_v20_CenterCropPad (
  all_cons slots_v20_Clip (
  all_cons slots_v20_Col2Im (
  all_cons slots_v20_Compress (
  all_cons slots_v20_Concat (
  all_cons slots_v20_ConcatFromSequence (
  all_cons slots_v20_Constant (
  all_cons slots_v20_ConstantOfShape (
  all_cons slots_v20_Conv (
  all_cons slots_v20_ConvInteger (
  all_cons slots_v20_ConvTranspose (
  all_cons slots_v20_Cos (
  all_cons slots_v20_Cosh (
  all_cons slots_v20_CumSum (
  all_cons slots_v20_DFT (
  all_cons slots_v20_DeformConv (
  all_cons slots_v20_DepthToSpace (
  all_cons slots_v20_DequantizeLinear (
  all_cons slots_v20_Det (
  all_cons slots_v20_Div (
  all_cons slots_v20_Dropout (
  all_cons slots_v20_DynamicQuantizeLinear (
  all_cons slots_v20_Einsum (
  all_cons slots_v20_Elu (
  all_cons slots_v20_Equal (
  all_cons slots_v20_Erf (
  all_cons slots_v20_Exp (
  all_cons slots_v20_Expand (
  all_cons slots_v20_EyeLike (
  all_cons slots_v20_Flatten (
  all_cons slots_v20_Floor (
  all_cons slots_v20_GRU (
  all_cons slots_v20_Gather (
  all_cons slots_v20_GatherElements (
  all_cons slots_v20_GatherND (
  all_cons slots_v20_Gelu (
  all_cons slots_v20_Gemm (
  all_cons slots_v20_GlobalAveragePool (
  all_cons slots_v20_GlobalLpPool (
  all_cons slots_v20_GlobalMaxPool (
  all_cons slots_v20_Greater (
  all_cons slots_v20_GreaterOrEqual (
  all_cons slots_v20_GridSample (
  all_cons slots_v20_GroupNormalization (
  all_cons slots_v20_HammingWindow (
  all_cons slots_v20_HannWindow (
  all_cons slots_v20_HardSigmoid (
  all_cons slots_v20_HardSwish (
  all_cons slots_v20_Hardmax (
  all_cons slots_v20_Identity (
  all_cons slots_v20_If (
  all_cons slots_v20_ImageDecoder (
  all_cons slots_v20_InstanceNormalization (
  all_cons slots_v20_IsInf (
  all_cons slots_v20_IsNaN (
  all_cons slots_v20_LRN (
  all_cons slots_v20_LSTM (
  all_cons slots_v20_LayerNormalization (
  all_cons slots_v20_LeakyRelu (
  all_cons slots_v20_Less (
  all_cons slots_v20_LessOrEqual (
  all_cons slots_v20_Log (
  all_cons slots_v20_LogSoftmax (
  all_cons slots_v20_Loop (
  all_cons slots_v20_LpNormalization (
  all_cons slots_v20_LpPool (
  all_cons slots_v20_MatMul (
  all_cons slots_v20_MatMulInteger (
  all_cons slots_v20_Max (
  all_cons slots_v20_MaxPool (
  all_cons slots_v20_MaxRoiPool (
  all_cons slots_v20_MaxUnpool (
  all_cons slots_v20_Mean (
  all_cons slots_v20_MeanVarianceNormalization (
  all_cons slots_v20_MelWeightMatrix (
  all_cons slots_v20_Min (
  all_cons slots_v20_Mish (
  all_cons slots_v20_Mod (
  all_cons slots_v20_Mul (
  all_cons slots_v20_Multinomial (
  all_cons slots_v20_Neg (
  all_cons slots_v20_NegativeLogLikelihoodLoss (
  all_cons slots_v20_NonMaxSuppression (
  all_cons slots_v20_NonZero (
  all_cons slots_v20_Not (
  all_cons slots_v20_OneHot (
  all_cons slots_v20_Optional (
  all_cons slots_v20_OptionalGetElement (
  all_cons slots_v20_OptionalHasElement (
  all_cons slots_v20_Or (
  all_cons slots_v20_PRelu (
  all_cons slots_v20_Pad (
  all_cons slots_v20_Pow (
  all_cons slots_v20_QLinearConv (
  all_cons slots_v20_QLinearMatMul (
  all_cons slots_v20_QuantizeLinear (
  all_cons slots_v20_RNN (
  all_cons slots_v20_RandomNormal (
  all_cons slots_v20_RandomNormalLike (
  all_cons slots_v20_RandomUniform (
  all_cons slots_v20_RandomUniformLike (
  all_cons slots_v20_Range (
  all_cons slots_v20_Reciprocal (
  all_cons slots_v20_ReduceL1 (
  all_cons slots_v20_ReduceL2 (
  all_cons slots_v20_ReduceLogSum (
  all_cons slots_v20_ReduceLogSumExp (
  all_cons slots_v20_ReduceMax (
  all_cons slots_v20_ReduceMean (
  all_cons slots_v20_ReduceMin (
  all_cons slots_v20_ReduceProd (
  all_cons slots_v20_ReduceSum (
  all_cons slots_v20_ReduceSumSquare (
  all_cons slots_v20_RegexFullMatch (
  all_cons slots_v20_Relu (
  all_cons slots_v20_Reshape (
  all_cons slots_v20_Resize (
  all_cons slots_v20_ReverseSequence (
  all_cons slots_v20_RoiAlign (
  all_cons slots_v20_Round (
  all_cons slots_v20_STFT (
  all_cons slots_v20_Scan (
  all_cons slots_v20_ScatterElements (
  all_cons slots_v20_ScatterND (
  all_cons slots_v20_Selu (
  all_cons slots_v20_SequenceAt (
  all_cons slots_v20_SequenceConstruct (
  all_cons slots_v20_SequenceEmpty (
  all_cons slots_v20_SequenceErase (
  all_cons slots_v20_SequenceInsert (
  all_cons slots_v20_SequenceLength (
  all_cons slots_v20_SequenceMap (
  all_cons slots_v20_Shape (
  all_cons slots_v20_Shrink (
  all_cons slots_v20_Sigmoid (
  all_cons slots_v20_Sign (
  all_cons slots_v20_Sin (
  all_cons slots_v20_Sinh (
  all_cons slots_v20_Size (
  all_cons slots_v20_Slice (
  all_cons slots_v20_Softmax (
  all_cons slots_v20_SoftmaxCrossEntropyLoss (
  all_cons slots_v20_Softplus (
  all_cons slots_v20_Softsign (
  all_cons slots_v20_SpaceToDepth (
  all_cons slots_v20_Split (
  all_cons slots_v20_SplitToSequence (
  all_cons slots_v20_Sqrt (
  all_cons slots_v20_Squeeze (
  all_cons slots_v20_StringConcat (
  all_cons slots_v20_StringNormalizer (
  all_cons slots_v20_StringSplit (
  all_cons slots_v20_Sub (
  all_cons slots_v20_Sum (
  all_cons slots_v20_Tan (
  all_cons slots_v20_Tanh (
  all_cons slots_v20_TfIdfVectorizer (
  all_cons slots_v20_ThresholdedRelu (
  all_cons slots_v20_Tile (
  all_cons slots_v20_TopK (
  all_cons slots_v20_Transpose (
  all_cons slots_v20_Trilu (
  all_cons slots_v20_Unique (
  all_cons slots_v20_Unsqueeze (
  all_cons slots_v20_Where (
  all_cons slots_v20_Xor (
  all_nil)))))))))))))))))))))))))))))))))))))))))))))))))))))))))))))))))))))))))))))))))))))))))))))))))))))))))))))))))))))))))))))))))))))))))))))))))))))))))))))))))))))))))))))))))))))))))))))))

theorem table_slots : ∀ e ∈ allEntries, slotOK e = true :=
  fun e he => List.all_eq_true.mp slots_all e he

/-- pairs with listed deviations (known findings), each with what is excepted -/
def deviating : List (List String × Entry) :=
  [
   (["sparse_value"], ("v19._Constant", Generated.Ctors.v19.f_constant, Generated.Schemas.v19.s_Constant_19)), 
   (["@deprecated"], ("v18._GroupNormalization", Generated.Ctors.v18.f_group_normalization, Generated.Schemas.v18.s_GroupNormalization_18))]

theorem deviating_conforms : ∀ d ∈ deviating, entryOKExcept d.1 d.2 = true := by decide +kernel

end Generated.Conforms.v20
