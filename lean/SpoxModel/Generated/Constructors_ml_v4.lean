-- GENERATED from src/spox/opset/ai/onnx/ml/v4.py by translator/constructors.py on every run; do not edit.
import SpoxModel.Model.Conform
import SpoxModel.Generated.Constructors_ml_v3
namespace Generated.Ctors.ml_v4
open Conform

def cls_LabelEncoder : ClassSig :=
  { pyName := "ml_v4._LabelEncoder", base := "StandardNode", opName := "LabelEncoder", domain := "ai.onnx.ml", version := 4,
    inputs := [("X", .single)],
    outputs := [("Y", .single)],
    attrs := [⟨"default_float", .float, false⟩, ⟨"default_int64", .int, false⟩, ⟨"default_string", .string, false⟩, ⟨"default_tensor", .tensor, true⟩, ⟨"keys_floats", .floats, true⟩, ⟨"keys_int64s", .ints, true⟩, ⟨"keys_strings", .strings, true⟩, ⟨"keys_tensor", .tensor, true⟩, ⟨"values_floats", .floats, true⟩, ⟨"values_int64s", .ints, true⟩, ⟨"values_strings", .strings, true⟩, ⟨"values_tensor", .tensor, true⟩] }

def f_label_encoder : Ctor :=
  { pyName := "ml_v4.label_encoder", cls := Generated.Ctors.ml_v4.cls_LabelEncoder,
    params := [⟨"X", false, .var, none⟩, ⟨"default_float", true, .attr, some (Val.float 2147483648)⟩, ⟨"default_int64", true, .attr, some (Val.int (-1))⟩, ⟨"default_string", true, .attr, some (Val.str "_Unused")⟩, ⟨"default_tensor", true, .attr, some Val.none⟩, ⟨"keys_floats", true, .attr, some Val.none⟩, ⟨"keys_int64s", true, .attr, some Val.none⟩, ⟨"keys_strings", true, .attr, some Val.none⟩, ⟨"keys_tensor", true, .attr, some Val.none⟩, ⟨"values_floats", true, .attr, some Val.none⟩, ⟨"values_int64s", true, .attr, some Val.none⟩, ⟨"values_strings", true, .attr, some Val.none⟩, ⟨"values_tensor", true, .attr, some Val.none⟩],
    attrWires := [⟨"default_float", .float, false, "default_float", "default_float", false⟩, ⟨"default_int64", .int, false, "default_int64", "default_int64", false⟩, ⟨"default_string", .string, false, "default_string", "default_string", false⟩, ⟨"default_tensor", .tensor, true, "default_tensor", "default_tensor", false⟩, ⟨"keys_floats", .floats, true, "keys_floats", "keys_floats", false⟩, ⟨"keys_int64s", .ints, true, "keys_int64s", "keys_int64s", false⟩, ⟨"keys_strings", .strings, true, "keys_strings", "keys_strings", false⟩, ⟨"keys_tensor", .tensor, true, "keys_tensor", "keys_tensor", false⟩, ⟨"values_floats", .floats, true, "values_floats", "values_floats", false⟩, ⟨"values_int64s", .ints, true, "values_int64s", "values_int64s", false⟩, ⟨"values_strings", .strings, true, "values_strings", "values_strings", false⟩, ⟨"values_tensor", .tensor, true, "values_tensor", "values_tensor", false⟩],
    inputWires := [("X", "X")],
    outVar := .none, ret := .field "Y" }

end Generated.Ctors.ml_v4
