-- GENERATED from src/spox/**/*.py by translator/ctx_writes.py on every run; do not edit.

namespace Generated.CtxWrites

/-- One site that writes / deletes / re-binds / copies a scoped setting. -/
structure Site where
  setting : Nat
  file : String
  scope : String
  kind : String
deriving DecidableEq, Repr

def sites : List Site := [⟨0, "src/spox/_future.py", "set_type_warning_level", "assign"⟩, ⟨0, "src/spox/_future.py", "type_warning_level", "setter-call"⟩, ⟨0, "src/spox/_node.py", "<module>", "default"⟩, ⟨1, "src/spox/_future.py", "set_value_prop_backend", "assign"⟩, ⟨1, "src/spox/_future.py", "value_prop_backend", "setter-call"⟩, ⟨1, "src/spox/_value_prop.py", "<module>", "default"⟩, ⟨2, "src/spox/_future.py", "operator_overloading", "assign"⟩, ⟨2, "src/spox/_var.py", "Var", "default"⟩]

/-- One-line setter functions of `_future.py` (`def f(x): G = x`) as resolved by translator/ctx_ir.py. -/
def setters : List String := ["set_type_warning_level", "set_value_prop_backend"]

end Generated.CtxWrites
