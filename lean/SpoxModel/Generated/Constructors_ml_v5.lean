-- GENERATED from src/spox/opset/ai/onnx/ml/v5.py by translator/constructors.py on every run; do not edit.
import SpoxModel.Model.Conform
import SpoxModel.Generated.Constructors_ml_v4
namespace Generated.Ctors.ml_v5
open Conform

def cls_TreeEnsemble : ClassSig :=
  { pyName := "ml_v5._TreeEnsemble", base := "StandardNode", opName := "TreeEnsemble", domain := "ai.onnx.ml", version := 5,
    inputs := [("X", .single)],
    outputs := [("Y", .single)],
    attrs := [⟨"aggregate_function", .int, false⟩, ⟨"leaf_targetids", .ints, false⟩, ⟨"leaf_weights", .tensor, false⟩, ⟨"membership_values", .tensor, true⟩, ⟨"n_targets", .int, true⟩, ⟨"nodes_falseleafs", .ints, false⟩, ⟨"nodes_falsenodeids", .ints, false⟩, ⟨"nodes_featureids", .ints, false⟩, ⟨"nodes_hitrates", .tensor, true⟩, ⟨"nodes_missing_value_tracks_true", .ints, true⟩, ⟨"nodes_modes", .tensor, false⟩, ⟨"nodes_splits", .tensor, false⟩, ⟨"nodes_trueleafs", .ints, false⟩, ⟨"nodes_truenodeids", .ints, false⟩, ⟨"post_transform", .int, false⟩, ⟨"tree_roots", .ints, false⟩] }

def f_tree_ensemble : Ctor :=
  { pyName := "ml_v5.tree_ensemble", cls := Generated.Ctors.ml_v5.cls_TreeEnsemble,
    params := [⟨"X", false, .var, none⟩, ⟨"aggregate_function", true, .attr, some (Val.int 1)⟩, ⟨"leaf_targetids", true, .attr, none⟩, ⟨"leaf_weights", true, .attr, none⟩, ⟨"membership_values", true, .attr, some Val.none⟩, ⟨"n_targets", true, .attr, some Val.none⟩, ⟨"nodes_falseleafs", true, .attr, none⟩, ⟨"nodes_falsenodeids", true, .attr, none⟩, ⟨"nodes_featureids", true, .attr, none⟩, ⟨"nodes_hitrates", true, .attr, some Val.none⟩, ⟨"nodes_missing_value_tracks_true", true, .attr, some Val.none⟩, ⟨"nodes_modes", true, .attr, none⟩, ⟨"nodes_splits", true, .attr, none⟩, ⟨"nodes_trueleafs", true, .attr, none⟩, ⟨"nodes_truenodeids", true, .attr, none⟩, ⟨"post_transform", true, .attr, some (Val.int 0)⟩, ⟨"tree_roots", true, .attr, none⟩],
    attrWires := [⟨"aggregate_function", .int, false, "aggregate_function", "aggregate_function", false⟩, ⟨"leaf_targetids", .ints, false, "leaf_targetids", "leaf_targetids", false⟩, ⟨"leaf_weights", .tensor, false, "leaf_weights", "leaf_weights", false⟩, ⟨"membership_values", .tensor, true, "membership_values", "membership_values", false⟩, ⟨"n_targets", .int, true, "n_targets", "n_targets", false⟩, ⟨"nodes_falseleafs", .ints, false, "nodes_falseleafs", "nodes_falseleafs", false⟩, ⟨"nodes_falsenodeids", .ints, false, "nodes_falsenodeids", "nodes_falsenodeids", false⟩, ⟨"nodes_featureids", .ints, false, "nodes_featureids", "nodes_featureids", false⟩, ⟨"nodes_hitrates", .tensor, true, "nodes_hitrates", "nodes_hitrates", false⟩, ⟨"nodes_missing_value_tracks_true", .ints, true, "nodes_missing_value_tracks_true", "nodes_missing_value_tracks_true", false⟩, ⟨"nodes_modes", .tensor, false, "nodes_modes", "nodes_modes", false⟩, ⟨"nodes_splits", .tensor, false, "nodes_splits", "nodes_splits", false⟩, ⟨"nodes_trueleafs", .ints, false, "nodes_trueleafs", "nodes_trueleafs", false⟩, ⟨"nodes_truenodeids", .ints, false, "nodes_truenodeids", "nodes_truenodeids", false⟩, ⟨"post_transform", .int, false, "post_transform", "post_transform", false⟩, ⟨"tree_roots", .ints, false, "tree_roots", "tree_roots", false⟩],
    inputWires := [("X", "X")],
    outVar := .none, ret := .field "Y" }

end Generated.Ctors.ml_v5
