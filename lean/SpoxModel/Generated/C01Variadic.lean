-- GENERATED from src/spox/opset/**/v*.py by translator/c01_variadic.py on every run; do not edit.

namespace Generated.C01Variadic

/-- `<constructor>.<parameter>` of every public constructor parameter annotated `Sequence[Var]` -/
def sequenceParams : List String := ["concat.inputs", "einsum.Inputs", "feature_vectorizer.X", "loop.v_initial", "max.data_0", "mean.data_0", "min.data_0", "scan.initial_state_and_scan_inputs", "sequence_construct.inputs", "sequence_map.additional_inputs", "sum.data_0"]

end Generated.C01Variadic
