-- GENERATED from src/spox/**/*.py (opset modules excluded) by translator/module_state.py on every run; do not edit.

namespace Generated.ModuleState

/-- (file, scope, name, kind): a name bound to a mutable container at module / class level, a caching
    decorator, a `global` re-binding, state kept on a function object. -/
def items : List (String × String × String × String) := [
  ("src/spox/_schemas.py", "<module>", "DOMAINS", "set"),
  ("src/spox/_schemas.py", "<module>", "DOMAIN_VERSIONS", "dict")]

end Generated.ModuleState
