-- GENERATED from src/spox/_graph.py (Graph.to_onnx_model), src/spox/_public.py (build) by translator/build_flags.py on every run; do not edit.

import SpoxModel.Model.BuildIR

namespace Generated.BuildFlags
open BuildIR

/-- `Graph.to_onnx_model`, with parameters as `build` passes them: {'check_model': 1, 'concrete': True, 'infer_shapes': False, 'ir_version': 8, 'model_doc_string': '', 'producer_name': 'spox'} -/
def toOnnxModelIR : List Stmt := [.assign 0, .ifUnknown [.raise] [], .touch 0, .assign 1, .assign 2, .ifUnknown [.touch 1, .touch 3, .assign 4, .ifUnknown [.other] [], .assign 5, .ifUnknown [.raise] [], .touch 2] [], .touch 2, .touch 6, .touch 7, .touch 0, .assign 8, .ifKnown false [.touch 8, .assign 8], .ifKnown true [.check 8], .ret (some 8)]

/-- `spox.build` -/
def buildIR : List Stmt := [.touch 0, .ifUnknown [.touch 1, .assign 2, .raise] [], .touch 0, .ifUnknown [.touch 1, .assign 2, .raise] [], .ifUnknown [.raise] [], .ifUnknown [.raise] [], .assign 3, .ifUnknown [.touch 3, .assign 3] [], .touch 3, .assignCallee 4, .ifUnknown [.raise] [], .ifUnknown [.assign 5, .assign 6, .touch 4, .touch 6, .touch 4, .touch 6, .assign 7, .touch 7, .touch 7, .assign 8, .touch 4, .touch 8, .touch 4, .check 4] [], .ret (some 4)]

/-- number of `.to_onnx_model(...)` calls in `build` -/
def toModelCalls : Nat := 1

/-- `full_check` of the final checker call under build's parameters -/
def fullCheck : Bool := false

/-- `to_onnx(concrete=...)` under build's parameters: inputs/outputs must have concrete types -/
def concreteIO : Bool := true

end Generated.BuildFlags
