-- GENERATED from src/spox/_future.py by translator/ctx_ir.py on every run; do not edit.

import SpoxModel.Model.Ctx

namespace Generated.CtxIR
open Ctx

/-- `type_warning_level` (global `spox._node._TYPE_WARNING_LEVEL`) -/
def ir0 : List Stmt := [.savePrev, .setArg, .tryFinally [.yield_] [.restorePrev]]

/-- `value_prop_backend` (global `spox._value_prop._VALUE_PROP_BACKEND`) -/
def ir1 : List Stmt := [.savePrev, .setArg, .tryFinally [.yield_] [.restorePrev]]

/-- `operator_overloading` (global `Var._operator_dispatcher`) -/
def ir2 : List Stmt := [.savePrev, .setArg, .tryFinally [.yield_] [.restorePrev]]

def managerNames : List String := ["type_warning_level", "value_prop_backend", "operator_overloading"]
def otherContextManagers : List String := []
def managers : Managers := ⟨fun i => match i with | 0 => ir0 | 1 => ir1 | 2 => ir2⟩

end Generated.CtxIR
