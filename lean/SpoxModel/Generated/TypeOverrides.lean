-- GENERATED from src/spox/_type_system.py, src/spox/_shape.py by translator/type_overrides.py on every run; do not edit.

namespace Generated.TypeOverrides

/-- A class of the type layer: name, file, bases, decorators, the watched methods it defines. -/
structure Cls where
  name : String
  file : String
  bases : List String
  decorators : List String
  methods : List String
deriving DecidableEq, Repr

def classes : List Cls := [
  ⟨"Constant", "src/spox/_shape.py", ["Natural"], ["dataclass(frozen=True)"], ["__le__", "to_simple"]⟩,
  ⟨"Natural", "src/spox/_shape.py", [], ["dataclass(frozen=True)"], ["__le__", "from_onnx", "from_simple", "simple_from_onnx", "simple_to_onnx", "to_onnx", "to_simple"]⟩,
  ⟨"Shape", "src/spox/_shape.py", [], ["dataclass(frozen=True)"], ["__bool__", "__getitem__", "__le__", "broadcast", "can_broadcast", "from_onnx", "from_simple", "maybe_rank", "rank", "to_onnx", "to_simple"]⟩,
  ⟨"Unknown", "src/spox/_shape.py", ["Natural"], ["dataclass(frozen=True)"], ["__le__", "attr:label", "to_simple"]⟩,
  ⟨"Optional", "src/spox/_type_system.py", ["Type"], ["dataclass(frozen=True)"], ["_subtype", "_to_onnx"]⟩,
  ⟨"Sequence", "src/spox/_type_system.py", ["Type"], ["dataclass(frozen=True)"], ["_subtype", "_to_onnx"]⟩,
  ⟨"Tensor", "src/spox/_type_system.py", ["Type"], ["dataclass(frozen=True)"], ["__init__", "_subtype", "_to_onnx", "dtype", "shape"]⟩,
  ⟨"Type", "src/spox/_type_system.py", [], ["dataclass(frozen=True)"], ["_from_onnx", "_subtype", "_to_onnx"]⟩]

/-- Module-level functions of `_type_system.py` / `_shape.py`. -/
def functions : List (String × String) := [("_broadcast_elem", "src/spox/_shape.py")]

def opaqueFiles : List String := []

end Generated.TypeOverrides
