-- GENERATED from src/spox/_build.py by translator/buildalg_facts.py on every run; do not edit.
/-! Inventory of `spox/_build.py`: functions, module-level names, class-level attributes, write sites of
    Builder state (method, `self.` chain, how), call targets per function. -/
namespace Generated.BuildAlgFacts

def methods : List String :=
  ["Cached.__init__",
   "Cached.value",
   "Cached.value",
   "Builder.ScopeTree.__init__",
   "Builder.ScopeTree.parent",
   "Builder.ScopeTree.lca",
   "Builder.__init__",
   "Builder.build_main",
   "Builder.get_intro_results",
   "Builder.discover",
   "Builder.update_scope_tree",
   "Builder.resolve_scopes",
   "Builder.get_build_subgraph_callback",
   "Builder.compile_graph"]

def moduleNames : List String :=
  ["T",
   "Cached",
   "BuildResult",
   "Builder"]

def classAttrs : List (String × String × String) :=
  [("Cached", "_value", "annotated"),
   ("BuildResult", "scope", "annotated"),
   ("BuildResult", "nodes", "annotated"),
   ("BuildResult", "arguments", "annotated"),
   ("BuildResult", "results", "annotated"),
   ("BuildResult", "opset_req", "annotated"),
   ("BuildResult", "functions", "annotated"),
   ("BuildResult", "initializers", "annotated"),
   ("Builder", "main", "annotated"),
   ("Builder", "graphs", "annotated"),
   ("Builder", "graph_topo", "annotated"),
   ("Builder", "arguments_of", "annotated"),
   ("Builder", "results_of", "annotated"),
   ("Builder", "source_of", "annotated"),
   ("Builder", "all_arguments_in", "annotated"),
   ("Builder", "claimed_arguments_in", "annotated"),
   ("Builder", "scope_tree", "annotated"),
   ("Builder", "scope_own", "annotated"),
   ("Builder.ScopeTree", "subgraph_owner", "annotated"),
   ("Builder.ScopeTree", "scope_of", "annotated")]

def writes : List (String × String × String) :=
  [("Cached.__init__", "_value", "assign"),
   ("Cached.value", "_value", "assign"),
   ("Builder.ScopeTree.__init__", "scope_of", "assign"),
   ("Builder.ScopeTree.__init__", "subgraph_owner", "assign"),
   ("Builder.__init__", "all_arguments_in", "assign"),
   ("Builder.__init__", "arguments_of", "assign"),
   ("Builder.__init__", "claimed_arguments_in", "assign"),
   ("Builder.__init__", "graph_topo", "assign"),
   ("Builder.__init__", "graphs", "assign"),
   ("Builder.__init__", "main", "assign"),
   ("Builder.__init__", "results_of", "assign"),
   ("Builder.__init__", "scope_own", "assign"),
   ("Builder.__init__", "scope_tree", "assign"),
   ("Builder.__init__", "source_of", "assign"),
   ("Builder.build_main", "graph_topo", "reverse"),
   ("Builder.build_main", "model_opset_req", "assign"),
   ("Builder.discover", "all_arguments_in", "subscript"),
   ("Builder.discover", "arguments_of", "subscript"),
   ("Builder.discover", "claimed_arguments_in", "subscript"),
   ("Builder.discover", "graph_topo", "append"),
   ("Builder.discover", "graphs", "add"),
   ("Builder.discover", "results_of", "subscript"),
   ("Builder.discover", "scope_tree.subgraph_owner", "subscript"),
   ("Builder.discover", "source_of", "subscript"),
   ("Builder.update_scope_tree", "scope_tree.scope_of", "setdefault"),
   ("Builder.update_scope_tree", "scope_tree.scope_of", "subscript"),
   ("Builder.resolve_scopes", "scope_own", "subscript")]

def calls : List (String × List String) :=
  [("Cached.__init__", []),
   ("Cached.value", ["ValueError"]),
   ("Cached.value", []),
   ("Builder.ScopeTree.__init__", []),
   ("Builder.ScopeTree.parent", []),
   ("Builder.ScopeTree.lca", ["self.parent", "vis_a.add"]),
   ("Builder.__init__", ["self.ScopeTree"]),
   ("Builder.build_main", ["?.union", "BuildError", "Scope", "self.compile_graph", "self.discover", "self.graph_topo.reverse", "self.resolve_scopes", "self.update_scope_tree"]),
   ("Builder.get_intro_results", ["intros", "request_results.values", "var._rename"]),
   ("Builder.discover", ["BuildError", "all_arguments.add", "iterative_dfs", "self.discover", "self.get_intro_results", "self.graph_topo.append", "self.graphs.add", "used_arguments.add"]),
   ("Builder.update_scope_tree", ["iterative_dfs", "self.scope_tree.lca", "self.scope_tree.scope_of.setdefault"]),
   ("Builder.resolve_scopes", ["?.add", "BuildError", "iterative_dfs", "itertools.chain", "self.scope_tree.scope_of.items"]),
   ("Builder.get_build_subgraph_callback", ["?._inject_build_result", "?.with_opset", "self.compile_graph", "subgraph._get_build_result", "subgraph.to_onnx", "subgraph.with_name", "subgraph_functions.extend"]),
   ("Builder.compile_graph", ["BuildResult", "functions.extend", "node.to_onnx", "node.update_metadata", "scope.update", "self.get_build_subgraph_callback"])]

/-- names bound at module level in the other modules the build path passes through -/
def otherModuleNames : List (String × String) :=
  [("_graph.py", "arguments_dict"),
   ("_graph.py", "arguments"),
   ("_graph.py", "enum_arguments"),
   ("_graph.py", "initializer"),
   ("_graph.py", "Graph"),
   ("_graph.py", "results"),
   ("_graph.py", "enum_results"),
   ("_graph.py", "subgraph"),
   ("_internal_op.py", "INTERNAL_MIN_OPSET"),
   ("_internal_op.py", "IDENTITY_OPTIONAL_MIN_OPSET"),
   ("_internal_op.py", "_InternalNode"),
   ("_internal_op.py", "Argument"),
   ("_internal_op.py", "_Initializer"),
   ("_internal_op.py", "_Introduce"),
   ("_internal_op.py", "intros"),
   ("_internal_op.py", "intro"),
   ("_internal_op.py", "unsafe_cast"),
   ("_internal_op.py", "unsafe_reshape"),
   ("_traverse.py", "V"),
   ("_traverse.py", "iterative_dfs")]

end Generated.BuildAlgFacts
