-- GENERATED from onnx.defs (domain 'ai.onnx', version 17) by translator/constructors.py on every run; do not edit.
import SpoxModel.Model.Conform
namespace Generated.Schemas.v17
open Conform

def s_Abs_13 : Schema :=
  { name := "Abs", domain := "", since := 13, deprecated := false, minInput := 1, minOutput := 1,
    inputs := [("X", .single)],
    outputs := [("Y", .single)],
    attrs := [] }

def s_Acos_7 : Schema :=
  { name := "Acos", domain := "", since := 7, deprecated := false, minInput := 1, minOutput := 1,
    inputs := [("input", .single)],
    outputs := [("output", .single)],
    attrs := [] }

def s_Acosh_9 : Schema :=
  { name := "Acosh", domain := "", since := 9, deprecated := false, minInput := 1, minOutput := 1,
    inputs := [("input", .single)],
    outputs := [("output", .single)],
    attrs := [] }

def s_Add_14 : Schema :=
  { name := "Add", domain := "", since := 14, deprecated := false, minInput := 2, minOutput := 1,
    inputs := [("A", .single), ("B", .single)],
    outputs := [("C", .single)],
    attrs := [] }

def s_And_7 : Schema :=
  { name := "And", domain := "", since := 7, deprecated := false, minInput := 2, minOutput := 1,
    inputs := [("A", .single), ("B", .single)],
    outputs := [("C", .single)],
    attrs := [] }

def s_ArgMax_13 : Schema :=
  { name := "ArgMax", domain := "", since := 13, deprecated := false, minInput := 1, minOutput := 1,
    inputs := [("data", .single)],
    outputs := [("reduced", .single)],
    attrs := [⟨"axis", .INT, false, (Val.int 0)⟩, ⟨"keepdims", .INT, false, (Val.int 1)⟩, ⟨"select_last_index", .INT, false, (Val.int 0)⟩] }

def s_ArgMin_13 : Schema :=
  { name := "ArgMin", domain := "", since := 13, deprecated := false, minInput := 1, minOutput := 1,
    inputs := [("data", .single)],
    outputs := [("reduced", .single)],
    attrs := [⟨"axis", .INT, false, (Val.int 0)⟩, ⟨"keepdims", .INT, false, (Val.int 1)⟩, ⟨"select_last_index", .INT, false, (Val.int 0)⟩] }

def s_Asin_7 : Schema :=
  { name := "Asin", domain := "", since := 7, deprecated := false, minInput := 1, minOutput := 1,
    inputs := [("input", .single)],
    outputs := [("output", .single)],
    attrs := [] }

def s_Asinh_9 : Schema :=
  { name := "Asinh", domain := "", since := 9, deprecated := false, minInput := 1, minOutput := 1,
    inputs := [("input", .single)],
    outputs := [("output", .single)],
    attrs := [] }

def s_Atan_7 : Schema :=
  { name := "Atan", domain := "", since := 7, deprecated := false, minInput := 1, minOutput := 1,
    inputs := [("input", .single)],
    outputs := [("output", .single)],
    attrs := [] }

def s_Atanh_9 : Schema :=
  { name := "Atanh", domain := "", since := 9, deprecated := false, minInput := 1, minOutput := 1,
    inputs := [("input", .single)],
    outputs := [("output", .single)],
    attrs := [] }

def s_AveragePool_11 : Schema :=
  { name := "AveragePool", domain := "", since := 11, deprecated := false, minInput := 1, minOutput := 1,
    inputs := [("X", .single)],
    outputs := [("Y", .single)],
    attrs := [⟨"auto_pad", .STRING, false, (Val.str "NOTSET")⟩, ⟨"ceil_mode", .INT, false, (Val.int 0)⟩, ⟨"count_include_pad", .INT, false, (Val.int 0)⟩, ⟨"kernel_shape", .INTS, true, Val.none⟩, ⟨"pads", .INTS, false, Val.none⟩, ⟨"strides", .INTS, false, Val.none⟩] }

def s_BatchNormalization_15 : Schema :=
  { name := "BatchNormalization", domain := "", since := 15, deprecated := false, minInput := 5, minOutput := 1,
    inputs := [("X", .single), ("scale", .single), ("B", .single), ("input_mean", .single), ("input_var", .single)],
    outputs := [("Y", .single), ("running_mean", .optional), ("running_var", .optional)],
    attrs := [⟨"epsilon", .FLOAT, false, (Val.float 925353388)⟩, ⟨"momentum", .FLOAT, false, (Val.float 1063675494)⟩, ⟨"training_mode", .INT, false, (Val.int 0)⟩] }

def s_Bernoulli_15 : Schema :=
  { name := "Bernoulli", domain := "", since := 15, deprecated := false, minInput := 1, minOutput := 1,
    inputs := [("input", .single)],
    outputs := [("output", .single)],
    attrs := [⟨"dtype", .INT, false, Val.none⟩, ⟨"seed", .FLOAT, false, Val.none⟩] }

def s_BitShift_11 : Schema :=
  { name := "BitShift", domain := "", since := 11, deprecated := false, minInput := 2, minOutput := 1,
    inputs := [("X", .single), ("Y", .single)],
    outputs := [("Z", .single)],
    attrs := [⟨"direction", .STRING, true, Val.none⟩] }

def s_BlackmanWindow_17 : Schema :=
  { name := "BlackmanWindow", domain := "", since := 17, deprecated := false, minInput := 1, minOutput := 1,
    inputs := [("size", .single)],
    outputs := [("output", .single)],
    attrs := [⟨"output_datatype", .INT, false, (Val.int 1)⟩, ⟨"periodic", .INT, false, (Val.int 1)⟩] }

def s_Cast_13 : Schema :=
  { name := "Cast", domain := "", since := 13, deprecated := false, minInput := 1, minOutput := 1,
    inputs := [("input", .single)],
    outputs := [("output", .single)],
    attrs := [⟨"to", .INT, true, Val.none⟩] }

def s_CastLike_15 : Schema :=
  { name := "CastLike", domain := "", since := 15, deprecated := false, minInput := 2, minOutput := 1,
    inputs := [("input", .single), ("target_type", .single)],
    outputs := [("output", .single)],
    attrs := [] }

def s_Ceil_13 : Schema :=
  { name := "Ceil", domain := "", since := 13, deprecated := false, minInput := 1, minOutput := 1,
    inputs := [("X", .single)],
    outputs := [("Y", .single)],
    attrs := [] }

def s_Celu_12 : Schema :=
  { name := "Celu", domain := "", since := 12, deprecated := false, minInput := 1, minOutput := 1,
    inputs := [("X", .single)],
    outputs := [("Y", .single)],
    attrs := [⟨"alpha", .FLOAT, false, (Val.float 1065353216)⟩] }

def s_Clip_13 : Schema :=
  { name := "Clip", domain := "", since := 13, deprecated := false, minInput := 1, minOutput := 1,
    inputs := [("input", .single), ("min", .optional), ("max", .optional)],
    outputs := [("output", .single)],
    attrs := [] }

def s_Compress_11 : Schema :=
  { name := "Compress", domain := "", since := 11, deprecated := false, minInput := 2, minOutput := 1,
    inputs := [("input", .single), ("condition", .single)],
    outputs := [("output", .single)],
    attrs := [⟨"axis", .INT, false, Val.none⟩] }

def s_Concat_13 : Schema :=
  { name := "Concat", domain := "", since := 13, deprecated := false, minInput := 1, minOutput := 1,
    inputs := [("inputs", .variadic)],
    outputs := [("concat_result", .single)],
    attrs := [⟨"axis", .INT, true, Val.none⟩] }

def s_ConcatFromSequence_11 : Schema :=
  { name := "ConcatFromSequence", domain := "", since := 11, deprecated := false, minInput := 1, minOutput := 1,
    inputs := [("input_sequence", .single)],
    outputs := [("concat_result", .single)],
    attrs := [⟨"axis", .INT, true, Val.none⟩, ⟨"new_axis", .INT, false, (Val.int 0)⟩] }

def s_Constant_13 : Schema :=
  { name := "Constant", domain := "", since := 13, deprecated := false, minInput := 0, minOutput := 1,
    inputs := [],
    outputs := [("output", .single)],
    attrs := [⟨"sparse_value", .SPARSE_TENSOR, false, Val.none⟩, ⟨"value", .TENSOR, false, Val.none⟩, ⟨"value_float", .FLOAT, false, Val.none⟩, ⟨"value_floats", .FLOATS, false, Val.none⟩, ⟨"value_int", .INT, false, Val.none⟩, ⟨"value_ints", .INTS, false, Val.none⟩, ⟨"value_string", .STRING, false, Val.none⟩, ⟨"value_strings", .STRINGS, false, Val.none⟩] }

def s_ConstantOfShape_9 : Schema :=
  { name := "ConstantOfShape", domain := "", since := 9, deprecated := false, minInput := 1, minOutput := 1,
    inputs := [("input", .single)],
    outputs := [("output", .single)],
    attrs := [⟨"value", .TENSOR, false, Val.none⟩] }

def s_Conv_11 : Schema :=
  { name := "Conv", domain := "", since := 11, deprecated := false, minInput := 2, minOutput := 1,
    inputs := [("X", .single), ("W", .single), ("B", .optional)],
    outputs := [("Y", .single)],
    attrs := [⟨"auto_pad", .STRING, false, (Val.str "NOTSET")⟩, ⟨"dilations", .INTS, false, Val.none⟩, ⟨"group", .INT, false, (Val.int 1)⟩, ⟨"kernel_shape", .INTS, false, Val.none⟩, ⟨"pads", .INTS, false, Val.none⟩, ⟨"strides", .INTS, false, Val.none⟩] }

def s_ConvInteger_10 : Schema :=
  { name := "ConvInteger", domain := "", since := 10, deprecated := false, minInput := 2, minOutput := 1,
    inputs := [("x", .single), ("w", .single), ("x_zero_point", .optional), ("w_zero_point", .optional)],
    outputs := [("y", .single)],
    attrs := [⟨"auto_pad", .STRING, false, (Val.str "NOTSET")⟩, ⟨"dilations", .INTS, false, Val.none⟩, ⟨"group", .INT, false, (Val.int 1)⟩, ⟨"kernel_shape", .INTS, false, Val.none⟩, ⟨"pads", .INTS, false, Val.none⟩, ⟨"strides", .INTS, false, Val.none⟩] }

def s_ConvTranspose_11 : Schema :=
  { name := "ConvTranspose", domain := "", since := 11, deprecated := false, minInput := 2, minOutput := 1,
    inputs := [("X", .single), ("W", .single), ("B", .optional)],
    outputs := [("Y", .single)],
    attrs := [⟨"auto_pad", .STRING, false, (Val.str "NOTSET")⟩, ⟨"dilations", .INTS, false, Val.none⟩, ⟨"group", .INT, false, (Val.int 1)⟩, ⟨"kernel_shape", .INTS, false, Val.none⟩, ⟨"output_padding", .INTS, false, Val.none⟩, ⟨"output_shape", .INTS, false, Val.none⟩, ⟨"pads", .INTS, false, Val.none⟩, ⟨"strides", .INTS, false, Val.none⟩] }

def s_Cos_7 : Schema :=
  { name := "Cos", domain := "", since := 7, deprecated := false, minInput := 1, minOutput := 1,
    inputs := [("input", .single)],
    outputs := [("output", .single)],
    attrs := [] }

def s_Cosh_9 : Schema :=
  { name := "Cosh", domain := "", since := 9, deprecated := false, minInput := 1, minOutput := 1,
    inputs := [("input", .single)],
    outputs := [("output", .single)],
    attrs := [] }

def s_CumSum_14 : Schema :=
  { name := "CumSum", domain := "", since := 14, deprecated := false, minInput := 2, minOutput := 1,
    inputs := [("x", .single), ("axis", .single)],
    outputs := [("y", .single)],
    attrs := [⟨"exclusive", .INT, false, (Val.int 0)⟩, ⟨"reverse", .INT, false, (Val.int 0)⟩] }

def s_DFT_17 : Schema :=
  { name := "DFT", domain := "", since := 17, deprecated := false, minInput := 1, minOutput := 1,
    inputs := [("input", .single), ("dft_length", .optional)],
    outputs := [("output", .single)],
    attrs := [⟨"axis", .INT, false, (Val.int 1)⟩, ⟨"inverse", .INT, false, (Val.int 0)⟩, ⟨"onesided", .INT, false, (Val.int 0)⟩] }

def s_DepthToSpace_13 : Schema :=
  { name := "DepthToSpace", domain := "", since := 13, deprecated := false, minInput := 1, minOutput := 1,
    inputs := [("input", .single)],
    outputs := [("output", .single)],
    attrs := [⟨"blocksize", .INT, true, Val.none⟩, ⟨"mode", .STRING, false, (Val.str "DCR")⟩] }

def s_DequantizeLinear_13 : Schema :=
  { name := "DequantizeLinear", domain := "", since := 13, deprecated := false, minInput := 2, minOutput := 1,
    inputs := [("x", .single), ("x_scale", .single), ("x_zero_point", .optional)],
    outputs := [("y", .single)],
    attrs := [⟨"axis", .INT, false, (Val.int 1)⟩] }

def s_Det_11 : Schema :=
  { name := "Det", domain := "", since := 11, deprecated := false, minInput := 1, minOutput := 1,
    inputs := [("X", .single)],
    outputs := [("Y", .single)],
    attrs := [] }

def s_Div_14 : Schema :=
  { name := "Div", domain := "", since := 14, deprecated := false, minInput := 2, minOutput := 1,
    inputs := [("A", .single), ("B", .single)],
    outputs := [("C", .single)],
    attrs := [] }

def s_Dropout_13 : Schema :=
  { name := "Dropout", domain := "", since := 13, deprecated := false, minInput := 1, minOutput := 1,
    inputs := [("data", .single), ("ratio", .optional), ("training_mode", .optional)],
    outputs := [("output", .single), ("mask", .optional)],
    attrs := [⟨"seed", .INT, false, Val.none⟩] }

def s_DynamicQuantizeLinear_11 : Schema :=
  { name := "DynamicQuantizeLinear", domain := "", since := 11, deprecated := false, minInput := 1, minOutput := 3,
    inputs := [("x", .single)],
    outputs := [("y", .single), ("y_scale", .single), ("y_zero_point", .single)],
    attrs := [] }

def s_Einsum_12 : Schema :=
  { name := "Einsum", domain := "", since := 12, deprecated := false, minInput := 1, minOutput := 1,
    inputs := [("Inputs", .variadic)],
    outputs := [("Output", .single)],
    attrs := [⟨"equation", .STRING, true, Val.none⟩] }

def s_Elu_6 : Schema :=
  { name := "Elu", domain := "", since := 6, deprecated := false, minInput := 1, minOutput := 1,
    inputs := [("X", .single)],
    outputs := [("Y", .single)],
    attrs := [⟨"alpha", .FLOAT, false, (Val.float 1065353216)⟩] }

def s_Equal_13 : Schema :=
  { name := "Equal", domain := "", since := 13, deprecated := false, minInput := 2, minOutput := 1,
    inputs := [("A", .single), ("B", .single)],
    outputs := [("C", .single)],
    attrs := [] }

def s_Erf_13 : Schema :=
  { name := "Erf", domain := "", since := 13, deprecated := false, minInput := 1, minOutput := 1,
    inputs := [("input", .single)],
    outputs := [("output", .single)],
    attrs := [] }

def s_Exp_13 : Schema :=
  { name := "Exp", domain := "", since := 13, deprecated := false, minInput := 1, minOutput := 1,
    inputs := [("input", .single)],
    outputs := [("output", .single)],
    attrs := [] }

def s_Expand_13 : Schema :=
  { name := "Expand", domain := "", since := 13, deprecated := false, minInput := 2, minOutput := 1,
    inputs := [("input", .single), ("shape", .single)],
    outputs := [("output", .single)],
    attrs := [] }

def s_EyeLike_9 : Schema :=
  { name := "EyeLike", domain := "", since := 9, deprecated := false, minInput := 1, minOutput := 1,
    inputs := [("input", .single)],
    outputs := [("output", .single)],
    attrs := [⟨"dtype", .INT, false, Val.none⟩, ⟨"k", .INT, false, (Val.int 0)⟩] }

def s_Flatten_13 : Schema :=
  { name := "Flatten", domain := "", since := 13, deprecated := false, minInput := 1, minOutput := 1,
    inputs := [("input", .single)],
    outputs := [("output", .single)],
    attrs := [⟨"axis", .INT, false, (Val.int 1)⟩] }

def s_Floor_13 : Schema :=
  { name := "Floor", domain := "", since := 13, deprecated := false, minInput := 1, minOutput := 1,
    inputs := [("X", .single)],
    outputs := [("Y", .single)],
    attrs := [] }

def s_GRU_14 : Schema :=
  { name := "GRU", domain := "", since := 14, deprecated := false, minInput := 3, minOutput := 0,
    inputs := [("X", .single), ("W", .single), ("R", .single), ("B", .optional), ("sequence_lens", .optional), ("initial_h", .optional)],
    outputs := [("Y", .optional), ("Y_h", .optional)],
    attrs := [⟨"activation_alpha", .FLOATS, false, Val.none⟩, ⟨"activation_beta", .FLOATS, false, Val.none⟩, ⟨"activations", .STRINGS, false, Val.none⟩, ⟨"clip", .FLOAT, false, Val.none⟩, ⟨"direction", .STRING, false, (Val.str "forward")⟩, ⟨"hidden_size", .INT, false, Val.none⟩, ⟨"layout", .INT, false, (Val.int 0)⟩, ⟨"linear_before_reset", .INT, false, (Val.int 0)⟩] }

def s_Gather_13 : Schema :=
  { name := "Gather", domain := "", since := 13, deprecated := false, minInput := 2, minOutput := 1,
    inputs := [("data", .single), ("indices", .single)],
    outputs := [("output", .single)],
    attrs := [⟨"axis", .INT, false, (Val.int 0)⟩] }

def s_GatherElements_13 : Schema :=
  { name := "GatherElements", domain := "", since := 13, deprecated := false, minInput := 2, minOutput := 1,
    inputs := [("data", .single), ("indices", .single)],
    outputs := [("output", .single)],
    attrs := [⟨"axis", .INT, false, (Val.int 0)⟩] }

def s_GatherND_13 : Schema :=
  { name := "GatherND", domain := "", since := 13, deprecated := false, minInput := 2, minOutput := 1,
    inputs := [("data", .single), ("indices", .single)],
    outputs := [("output", .single)],
    attrs := [⟨"batch_dims", .INT, false, (Val.int 0)⟩] }

def s_Gemm_13 : Schema :=
  { name := "Gemm", domain := "", since := 13, deprecated := false, minInput := 2, minOutput := 1,
    inputs := [("A", .single), ("B", .single), ("C", .optional)],
    outputs := [("Y", .single)],
    attrs := [⟨"alpha", .FLOAT, false, (Val.float 1065353216)⟩, ⟨"beta", .FLOAT, false, (Val.float 1065353216)⟩, ⟨"transA", .INT, false, (Val.int 0)⟩, ⟨"transB", .INT, false, (Val.int 0)⟩] }

def s_GlobalAveragePool_1 : Schema :=
  { name := "GlobalAveragePool", domain := "", since := 1, deprecated := false, minInput := 1, minOutput := 1,
    inputs := [("X", .single)],
    outputs := [("Y", .single)],
    attrs := [] }

def s_GlobalLpPool_2 : Schema :=
  { name := "GlobalLpPool", domain := "", since := 2, deprecated := false, minInput := 1, minOutput := 1,
    inputs := [("X", .single)],
    outputs := [("Y", .single)],
    attrs := [⟨"p", .INT, false, (Val.int 2)⟩] }

def s_GlobalMaxPool_1 : Schema :=
  { name := "GlobalMaxPool", domain := "", since := 1, deprecated := false, minInput := 1, minOutput := 1,
    inputs := [("X", .single)],
    outputs := [("Y", .single)],
    attrs := [] }

def s_Greater_13 : Schema :=
  { name := "Greater", domain := "", since := 13, deprecated := false, minInput := 2, minOutput := 1,
    inputs := [("A", .single), ("B", .single)],
    outputs := [("C", .single)],
    attrs := [] }

def s_GreaterOrEqual_16 : Schema :=
  { name := "GreaterOrEqual", domain := "", since := 16, deprecated := false, minInput := 2, minOutput := 1,
    inputs := [("A", .single), ("B", .single)],
    outputs := [("C", .single)],
    attrs := [] }

def s_GridSample_16 : Schema :=
  { name := "GridSample", domain := "", since := 16, deprecated := false, minInput := 2, minOutput := 1,
    inputs := [("X", .single), ("grid", .single)],
    outputs := [("Y", .single)],
    attrs := [⟨"align_corners", .INT, false, (Val.int 0)⟩, ⟨"mode", .STRING, false, (Val.str "bilinear")⟩, ⟨"padding_mode", .STRING, false, (Val.str "zeros")⟩] }

def s_HammingWindow_17 : Schema :=
  { name := "HammingWindow", domain := "", since := 17, deprecated := false, minInput := 1, minOutput := 1,
    inputs := [("size", .single)],
    outputs := [("output", .single)],
    attrs := [⟨"output_datatype", .INT, false, (Val.int 1)⟩, ⟨"periodic", .INT, false, (Val.int 1)⟩] }

def s_HannWindow_17 : Schema :=
  { name := "HannWindow", domain := "", since := 17, deprecated := false, minInput := 1, minOutput := 1,
    inputs := [("size", .single)],
    outputs := [("output", .single)],
    attrs := [⟨"output_datatype", .INT, false, (Val.int 1)⟩, ⟨"periodic", .INT, false, (Val.int 1)⟩] }

def s_HardSigmoid_6 : Schema :=
  { name := "HardSigmoid", domain := "", since := 6, deprecated := false, minInput := 1, minOutput := 1,
    inputs := [("X", .single)],
    outputs := [("Y", .single)],
    attrs := [⟨"alpha", .FLOAT, false, (Val.float 1045220557)⟩, ⟨"beta", .FLOAT, false, (Val.float 1056964608)⟩] }

def s_HardSwish_14 : Schema :=
  { name := "HardSwish", domain := "", since := 14, deprecated := false, minInput := 1, minOutput := 1,
    inputs := [("X", .single)],
    outputs := [("Y", .single)],
    attrs := [] }

def s_Hardmax_13 : Schema :=
  { name := "Hardmax", domain := "", since := 13, deprecated := false, minInput := 1, minOutput := 1,
    inputs := [("input", .single)],
    outputs := [("output", .single)],
    attrs := [⟨"axis", .INT, false, (Val.int (-1))⟩] }

def s_Identity_16 : Schema :=
  { name := "Identity", domain := "", since := 16, deprecated := false, minInput := 1, minOutput := 1,
    inputs := [("input", .single)],
    outputs := [("output", .single)],
    attrs := [] }

def s_If_16 : Schema :=
  { name := "If", domain := "", since := 16, deprecated := false, minInput := 1, minOutput := 1,
    inputs := [("cond", .single)],
    outputs := [("outputs", .variadic)],
    attrs := [⟨"else_branch", .GRAPH, true, Val.none⟩, ⟨"then_branch", .GRAPH, true, Val.none⟩] }

def s_InstanceNormalization_6 : Schema :=
  { name := "InstanceNormalization", domain := "", since := 6, deprecated := false, minInput := 3, minOutput := 1,
    inputs := [("input", .single), ("scale", .single), ("B", .single)],
    outputs := [("output", .single)],
    attrs := [⟨"epsilon", .FLOAT, false, (Val.float 925353388)⟩] }

def s_IsInf_10 : Schema :=
  { name := "IsInf", domain := "", since := 10, deprecated := false, minInput := 1, minOutput := 1,
    inputs := [("X", .single)],
    outputs := [("Y", .single)],
    attrs := [⟨"detect_negative", .INT, false, (Val.int 1)⟩, ⟨"detect_positive", .INT, false, (Val.int 1)⟩] }

def s_IsNaN_13 : Schema :=
  { name := "IsNaN", domain := "", since := 13, deprecated := false, minInput := 1, minOutput := 1,
    inputs := [("X", .single)],
    outputs := [("Y", .single)],
    attrs := [] }

def s_LRN_13 : Schema :=
  { name := "LRN", domain := "", since := 13, deprecated := false, minInput := 1, minOutput := 1,
    inputs := [("X", .single)],
    outputs := [("Y", .single)],
    attrs := [⟨"alpha", .FLOAT, false, (Val.float 953267991)⟩, ⟨"beta", .FLOAT, false, (Val.float 1061158912)⟩, ⟨"bias", .FLOAT, false, (Val.float 1065353216)⟩, ⟨"size", .INT, true, Val.none⟩] }

def s_LSTM_14 : Schema :=
  { name := "LSTM", domain := "", since := 14, deprecated := false, minInput := 3, minOutput := 0,
    inputs := [("X", .single), ("W", .single), ("R", .single), ("B", .optional), ("sequence_lens", .optional), ("initial_h", .optional), ("initial_c", .optional), ("P", .optional)],
    outputs := [("Y", .optional), ("Y_h", .optional), ("Y_c", .optional)],
    attrs := [⟨"activation_alpha", .FLOATS, false, Val.none⟩, ⟨"activation_beta", .FLOATS, false, Val.none⟩, ⟨"activations", .STRINGS, false, Val.none⟩, ⟨"clip", .FLOAT, false, Val.none⟩, ⟨"direction", .STRING, false, (Val.str "forward")⟩, ⟨"hidden_size", .INT, false, Val.none⟩, ⟨"input_forget", .INT, false, (Val.int 0)⟩, ⟨"layout", .INT, false, (Val.int 0)⟩] }

def s_LayerNormalization_17 : Schema :=
  { name := "LayerNormalization", domain := "", since := 17, deprecated := false, minInput := 2, minOutput := 1,
    inputs := [("X", .single), ("Scale", .single), ("B", .optional)],
    outputs := [("Y", .single), ("Mean", .optional), ("InvStdDev", .optional)],
    attrs := [⟨"axis", .INT, false, (Val.int (-1))⟩, ⟨"epsilon", .FLOAT, false, (Val.float 925353388)⟩, ⟨"stash_type", .INT, false, (Val.int 1)⟩] }

def s_LeakyRelu_16 : Schema :=
  { name := "LeakyRelu", domain := "", since := 16, deprecated := false, minInput := 1, minOutput := 1,
    inputs := [("X", .single)],
    outputs := [("Y", .single)],
    attrs := [⟨"alpha", .FLOAT, false, (Val.float 1008981770)⟩] }

def s_Less_13 : Schema :=
  { name := "Less", domain := "", since := 13, deprecated := false, minInput := 2, minOutput := 1,
    inputs := [("A", .single), ("B", .single)],
    outputs := [("C", .single)],
    attrs := [] }

def s_LessOrEqual_16 : Schema :=
  { name := "LessOrEqual", domain := "", since := 16, deprecated := false, minInput := 2, minOutput := 1,
    inputs := [("A", .single), ("B", .single)],
    outputs := [("C", .single)],
    attrs := [] }

def s_Log_13 : Schema :=
  { name := "Log", domain := "", since := 13, deprecated := false, minInput := 1, minOutput := 1,
    inputs := [("input", .single)],
    outputs := [("output", .single)],
    attrs := [] }

def s_LogSoftmax_13 : Schema :=
  { name := "LogSoftmax", domain := "", since := 13, deprecated := false, minInput := 1, minOutput := 1,
    inputs := [("input", .single)],
    outputs := [("output", .single)],
    attrs := [⟨"axis", .INT, false, (Val.int (-1))⟩] }

def s_Loop_16 : Schema :=
  { name := "Loop", domain := "", since := 16, deprecated := false, minInput := 2, minOutput := 1,
    inputs := [("M", .optional), ("cond", .optional), ("v_initial", .variadic)],
    outputs := [("v_final_and_scan_outputs", .variadic)],
    attrs := [⟨"body", .GRAPH, true, Val.none⟩] }

def s_LpNormalization_1 : Schema :=
  { name := "LpNormalization", domain := "", since := 1, deprecated := false, minInput := 1, minOutput := 1,
    inputs := [("input", .single)],
    outputs := [("output", .single)],
    attrs := [⟨"axis", .INT, false, (Val.int (-1))⟩, ⟨"p", .INT, false, (Val.int 2)⟩] }

def s_LpPool_11 : Schema :=
  { name := "LpPool", domain := "", since := 11, deprecated := false, minInput := 1, minOutput := 1,
    inputs := [("X", .single)],
    outputs := [("Y", .single)],
    attrs := [⟨"auto_pad", .STRING, false, (Val.str "NOTSET")⟩, ⟨"kernel_shape", .INTS, true, Val.none⟩, ⟨"p", .INT, false, (Val.int 2)⟩, ⟨"pads", .INTS, false, Val.none⟩, ⟨"strides", .INTS, false, Val.none⟩] }

def s_MatMul_13 : Schema :=
  { name := "MatMul", domain := "", since := 13, deprecated := false, minInput := 2, minOutput := 1,
    inputs := [("A", .single), ("B", .single)],
    outputs := [("Y", .single)],
    attrs := [] }

def s_MatMulInteger_10 : Schema :=
  { name := "MatMulInteger", domain := "", since := 10, deprecated := false, minInput := 2, minOutput := 1,
    inputs := [("A", .single), ("B", .single), ("a_zero_point", .optional), ("b_zero_point", .optional)],
    outputs := [("Y", .single)],
    attrs := [] }

def s_Max_13 : Schema :=
  { name := "Max", domain := "", since := 13, deprecated := false, minInput := 1, minOutput := 1,
    inputs := [("data_0", .variadic)],
    outputs := [("max", .single)],
    attrs := [] }

def s_MaxPool_12 : Schema :=
  { name := "MaxPool", domain := "", since := 12, deprecated := false, minInput := 1, minOutput := 1,
    inputs := [("X", .single)],
    outputs := [("Y", .single), ("Indices", .optional)],
    attrs := [⟨"auto_pad", .STRING, false, (Val.str "NOTSET")⟩, ⟨"ceil_mode", .INT, false, (Val.int 0)⟩, ⟨"dilations", .INTS, false, Val.none⟩, ⟨"kernel_shape", .INTS, true, Val.none⟩, ⟨"pads", .INTS, false, Val.none⟩, ⟨"storage_order", .INT, false, (Val.int 0)⟩, ⟨"strides", .INTS, false, Val.none⟩] }

def s_MaxRoiPool_1 : Schema :=
  { name := "MaxRoiPool", domain := "", since := 1, deprecated := false, minInput := 2, minOutput := 1,
    inputs := [("X", .single), ("rois", .single)],
    outputs := [("Y", .single)],
    attrs := [⟨"pooled_shape", .INTS, true, Val.none⟩, ⟨"spatial_scale", .FLOAT, false, (Val.float 1065353216)⟩] }

def s_MaxUnpool_11 : Schema :=
  { name := "MaxUnpool", domain := "", since := 11, deprecated := false, minInput := 2, minOutput := 1,
    inputs := [("X", .single), ("I", .single), ("output_shape", .optional)],
    outputs := [("output", .single)],
    attrs := [⟨"kernel_shape", .INTS, true, Val.none⟩, ⟨"pads", .INTS, false, Val.none⟩, ⟨"strides", .INTS, false, Val.none⟩] }

def s_Mean_13 : Schema :=
  { name := "Mean", domain := "", since := 13, deprecated := false, minInput := 1, minOutput := 1,
    inputs := [("data_0", .variadic)],
    outputs := [("mean", .single)],
    attrs := [] }

def s_MeanVarianceNormalization_13 : Schema :=
  { name := "MeanVarianceNormalization", domain := "", since := 13, deprecated := false, minInput := 1, minOutput := 1,
    inputs := [("X", .single)],
    outputs := [("Y", .single)],
    attrs := [⟨"axes", .INTS, false, (Val.ints [0, 2, 3])⟩] }

def s_MelWeightMatrix_17 : Schema :=
  { name := "MelWeightMatrix", domain := "", since := 17, deprecated := false, minInput := 5, minOutput := 1,
    inputs := [("num_mel_bins", .single), ("dft_length", .single), ("sample_rate", .single), ("lower_edge_hertz", .single), ("upper_edge_hertz", .single)],
    outputs := [("output", .single)],
    attrs := [⟨"output_datatype", .INT, false, (Val.int 1)⟩] }

def s_Min_13 : Schema :=
  { name := "Min", domain := "", since := 13, deprecated := false, minInput := 1, minOutput := 1,
    inputs := [("data_0", .variadic)],
    outputs := [("min", .single)],
    attrs := [] }

def s_Mod_13 : Schema :=
  { name := "Mod", domain := "", since := 13, deprecated := false, minInput := 2, minOutput := 1,
    inputs := [("A", .single), ("B", .single)],
    outputs := [("C", .single)],
    attrs := [⟨"fmod", .INT, false, (Val.int 0)⟩] }

def s_Mul_14 : Schema :=
  { name := "Mul", domain := "", since := 14, deprecated := false, minInput := 2, minOutput := 1,
    inputs := [("A", .single), ("B", .single)],
    outputs := [("C", .single)],
    attrs := [] }

def s_Multinomial_7 : Schema :=
  { name := "Multinomial", domain := "", since := 7, deprecated := false, minInput := 1, minOutput := 1,
    inputs := [("input", .single)],
    outputs := [("output", .single)],
    attrs := [⟨"dtype", .INT, false, (Val.int 6)⟩, ⟨"sample_size", .INT, false, (Val.int 1)⟩, ⟨"seed", .FLOAT, false, Val.none⟩] }

def s_Neg_13 : Schema :=
  { name := "Neg", domain := "", since := 13, deprecated := false, minInput := 1, minOutput := 1,
    inputs := [("X", .single)],
    outputs := [("Y", .single)],
    attrs := [] }

def s_NegativeLogLikelihoodLoss_13 : Schema :=
  { name := "NegativeLogLikelihoodLoss", domain := "", since := 13, deprecated := false, minInput := 2, minOutput := 1,
    inputs := [("input", .single), ("target", .single), ("weight", .optional)],
    outputs := [("loss", .single)],
    attrs := [⟨"ignore_index", .INT, false, Val.none⟩, ⟨"reduction", .STRING, false, (Val.str "mean")⟩] }

def s_NonMaxSuppression_11 : Schema :=
  { name := "NonMaxSuppression", domain := "", since := 11, deprecated := false, minInput := 2, minOutput := 1,
    inputs := [("boxes", .single), ("scores", .single), ("max_output_boxes_per_class", .optional), ("iou_threshold", .optional), ("score_threshold", .optional)],
    outputs := [("selected_indices", .single)],
    attrs := [⟨"center_point_box", .INT, false, (Val.int 0)⟩] }

def s_NonZero_13 : Schema :=
  { name := "NonZero", domain := "", since := 13, deprecated := false, minInput := 1, minOutput := 1,
    inputs := [("X", .single)],
    outputs := [("Y", .single)],
    attrs := [] }

def s_Not_1 : Schema :=
  { name := "Not", domain := "", since := 1, deprecated := false, minInput := 1, minOutput := 1,
    inputs := [("X", .single)],
    outputs := [("Y", .single)],
    attrs := [] }

def s_OneHot_11 : Schema :=
  { name := "OneHot", domain := "", since := 11, deprecated := false, minInput := 3, minOutput := 1,
    inputs := [("indices", .single), ("depth", .single), ("values", .single)],
    outputs := [("output", .single)],
    attrs := [⟨"axis", .INT, false, (Val.int (-1))⟩] }

def s_Optional_15 : Schema :=
  { name := "Optional", domain := "", since := 15, deprecated := false, minInput := 0, minOutput := 1,
    inputs := [("input", .optional)],
    outputs := [("output", .single)],
    attrs := [⟨"type", .TYPE_PROTO, false, Val.none⟩] }

def s_OptionalGetElement_15 : Schema :=
  { name := "OptionalGetElement", domain := "", since := 15, deprecated := false, minInput := 1, minOutput := 1,
    inputs := [("input", .single)],
    outputs := [("output", .single)],
    attrs := [] }

def s_OptionalHasElement_15 : Schema :=
  { name := "OptionalHasElement", domain := "", since := 15, deprecated := false, minInput := 1, minOutput := 1,
    inputs := [("input", .single)],
    outputs := [("output", .single)],
    attrs := [] }

def s_Or_7 : Schema :=
  { name := "Or", domain := "", since := 7, deprecated := false, minInput := 2, minOutput := 1,
    inputs := [("A", .single), ("B", .single)],
    outputs := [("C", .single)],
    attrs := [] }

def s_PRelu_16 : Schema :=
  { name := "PRelu", domain := "", since := 16, deprecated := false, minInput := 2, minOutput := 1,
    inputs := [("X", .single), ("slope", .single)],
    outputs := [("Y", .single)],
    attrs := [] }

def s_Pad_13 : Schema :=
  { name := "Pad", domain := "", since := 13, deprecated := false, minInput := 2, minOutput := 1,
    inputs := [("data", .single), ("pads", .single), ("constant_value", .optional)],
    outputs := [("output", .single)],
    attrs := [⟨"mode", .STRING, false, (Val.str "constant")⟩] }

def s_Pow_15 : Schema :=
  { name := "Pow", domain := "", since := 15, deprecated := false, minInput := 2, minOutput := 1,
    inputs := [("X", .single), ("Y", .single)],
    outputs := [("Z", .single)],
    attrs := [] }

def s_QLinearConv_10 : Schema :=
  { name := "QLinearConv", domain := "", since := 10, deprecated := false, minInput := 8, minOutput := 1,
    inputs := [("x", .single), ("x_scale", .single), ("x_zero_point", .single), ("w", .single), ("w_scale", .single), ("w_zero_point", .single), ("y_scale", .single), ("y_zero_point", .single), ("B", .optional)],
    outputs := [("y", .single)],
    attrs := [⟨"auto_pad", .STRING, false, (Val.str "NOTSET")⟩, ⟨"dilations", .INTS, false, Val.none⟩, ⟨"group", .INT, false, (Val.int 1)⟩, ⟨"kernel_shape", .INTS, false, Val.none⟩, ⟨"pads", .INTS, false, Val.none⟩, ⟨"strides", .INTS, false, Val.none⟩] }

def s_QLinearMatMul_10 : Schema :=
  { name := "QLinearMatMul", domain := "", since := 10, deprecated := false, minInput := 8, minOutput := 1,
    inputs := [("a", .single), ("a_scale", .single), ("a_zero_point", .single), ("b", .single), ("b_scale", .single), ("b_zero_point", .single), ("y_scale", .single), ("y_zero_point", .single)],
    outputs := [("y", .single)],
    attrs := [] }

def s_QuantizeLinear_13 : Schema :=
  { name := "QuantizeLinear", domain := "", since := 13, deprecated := false, minInput := 2, minOutput := 1,
    inputs := [("x", .single), ("y_scale", .single), ("y_zero_point", .optional)],
    outputs := [("y", .single)],
    attrs := [⟨"axis", .INT, false, (Val.int 1)⟩] }

def s_RNN_14 : Schema :=
  { name := "RNN", domain := "", since := 14, deprecated := false, minInput := 3, minOutput := 0,
    inputs := [("X", .single), ("W", .single), ("R", .single), ("B", .optional), ("sequence_lens", .optional), ("initial_h", .optional)],
    outputs := [("Y", .optional), ("Y_h", .optional)],
    attrs := [⟨"activation_alpha", .FLOATS, false, Val.none⟩, ⟨"activation_beta", .FLOATS, false, Val.none⟩, ⟨"activations", .STRINGS, false, (Val.strs ["Tanh", "Tanh"])⟩, ⟨"clip", .FLOAT, false, Val.none⟩, ⟨"direction", .STRING, false, (Val.str "forward")⟩, ⟨"hidden_size", .INT, false, Val.none⟩, ⟨"layout", .INT, false, (Val.int 0)⟩] }

def s_RandomNormal_1 : Schema :=
  { name := "RandomNormal", domain := "", since := 1, deprecated := false, minInput := 0, minOutput := 1,
    inputs := [],
    outputs := [("output", .single)],
    attrs := [⟨"dtype", .INT, false, (Val.int 1)⟩, ⟨"mean", .FLOAT, false, (Val.float 0)⟩, ⟨"scale", .FLOAT, false, (Val.float 1065353216)⟩, ⟨"seed", .FLOAT, false, Val.none⟩, ⟨"shape", .INTS, true, Val.none⟩] }

def s_RandomNormalLike_1 : Schema :=
  { name := "RandomNormalLike", domain := "", since := 1, deprecated := false, minInput := 1, minOutput := 1,
    inputs := [("input", .single)],
    outputs := [("output", .single)],
    attrs := [⟨"dtype", .INT, false, Val.none⟩, ⟨"mean", .FLOAT, false, (Val.float 0)⟩, ⟨"scale", .FLOAT, false, (Val.float 1065353216)⟩, ⟨"seed", .FLOAT, false, Val.none⟩] }

def s_RandomUniform_1 : Schema :=
  { name := "RandomUniform", domain := "", since := 1, deprecated := false, minInput := 0, minOutput := 1,
    inputs := [],
    outputs := [("output", .single)],
    attrs := [⟨"dtype", .INT, false, (Val.int 1)⟩, ⟨"high", .FLOAT, false, (Val.float 1065353216)⟩, ⟨"low", .FLOAT, false, (Val.float 0)⟩, ⟨"seed", .FLOAT, false, Val.none⟩, ⟨"shape", .INTS, true, Val.none⟩] }

def s_RandomUniformLike_1 : Schema :=
  { name := "RandomUniformLike", domain := "", since := 1, deprecated := false, minInput := 1, minOutput := 1,
    inputs := [("input", .single)],
    outputs := [("output", .single)],
    attrs := [⟨"dtype", .INT, false, Val.none⟩, ⟨"high", .FLOAT, false, (Val.float 1065353216)⟩, ⟨"low", .FLOAT, false, (Val.float 0)⟩, ⟨"seed", .FLOAT, false, Val.none⟩] }

def s_Range_11 : Schema :=
  { name := "Range", domain := "", since := 11, deprecated := false, minInput := 3, minOutput := 1,
    inputs := [("start", .single), ("limit", .single), ("delta", .single)],
    outputs := [("output", .single)],
    attrs := [] }

def s_Reciprocal_13 : Schema :=
  { name := "Reciprocal", domain := "", since := 13, deprecated := false, minInput := 1, minOutput := 1,
    inputs := [("X", .single)],
    outputs := [("Y", .single)],
    attrs := [] }

def s_ReduceL1_13 : Schema :=
  { name := "ReduceL1", domain := "", since := 13, deprecated := false, minInput := 1, minOutput := 1,
    inputs := [("data", .single)],
    outputs := [("reduced", .single)],
    attrs := [⟨"axes", .INTS, false, Val.none⟩, ⟨"keepdims", .INT, false, (Val.int 1)⟩] }

def s_ReduceL2_13 : Schema :=
  { name := "ReduceL2", domain := "", since := 13, deprecated := false, minInput := 1, minOutput := 1,
    inputs := [("data", .single)],
    outputs := [("reduced", .single)],
    attrs := [⟨"axes", .INTS, false, Val.none⟩, ⟨"keepdims", .INT, false, (Val.int 1)⟩] }

def s_ReduceLogSum_13 : Schema :=
  { name := "ReduceLogSum", domain := "", since := 13, deprecated := false, minInput := 1, minOutput := 1,
    inputs := [("data", .single)],
    outputs := [("reduced", .single)],
    attrs := [⟨"axes", .INTS, false, Val.none⟩, ⟨"keepdims", .INT, false, (Val.int 1)⟩] }

def s_ReduceLogSumExp_13 : Schema :=
  { name := "ReduceLogSumExp", domain := "", since := 13, deprecated := false, minInput := 1, minOutput := 1,
    inputs := [("data", .single)],
    outputs := [("reduced", .single)],
    attrs := [⟨"axes", .INTS, false, Val.none⟩, ⟨"keepdims", .INT, false, (Val.int 1)⟩] }

def s_ReduceMax_13 : Schema :=
  { name := "ReduceMax", domain := "", since := 13, deprecated := false, minInput := 1, minOutput := 1,
    inputs := [("data", .single)],
    outputs := [("reduced", .single)],
    attrs := [⟨"axes", .INTS, false, Val.none⟩, ⟨"keepdims", .INT, false, (Val.int 1)⟩] }

def s_ReduceMean_13 : Schema :=
  { name := "ReduceMean", domain := "", since := 13, deprecated := false, minInput := 1, minOutput := 1,
    inputs := [("data", .single)],
    outputs := [("reduced", .single)],
    attrs := [⟨"axes", .INTS, false, Val.none⟩, ⟨"keepdims", .INT, false, (Val.int 1)⟩] }

def s_ReduceMin_13 : Schema :=
  { name := "ReduceMin", domain := "", since := 13, deprecated := false, minInput := 1, minOutput := 1,
    inputs := [("data", .single)],
    outputs := [("reduced", .single)],
    attrs := [⟨"axes", .INTS, false, Val.none⟩, ⟨"keepdims", .INT, false, (Val.int 1)⟩] }

def s_ReduceProd_13 : Schema :=
  { name := "ReduceProd", domain := "", since := 13, deprecated := false, minInput := 1, minOutput := 1,
    inputs := [("data", .single)],
    outputs := [("reduced", .single)],
    attrs := [⟨"axes", .INTS, false, Val.none⟩, ⟨"keepdims", .INT, false, (Val.int 1)⟩] }

def s_ReduceSum_13 : Schema :=
  { name := "ReduceSum", domain := "", since := 13, deprecated := false, minInput := 1, minOutput := 1,
    inputs := [("data", .single), ("axes", .optional)],
    outputs := [("reduced", .single)],
    attrs := [⟨"keepdims", .INT, false, (Val.int 1)⟩, ⟨"noop_with_empty_axes", .INT, false, (Val.int 0)⟩] }

def s_ReduceSumSquare_13 : Schema :=
  { name := "ReduceSumSquare", domain := "", since := 13, deprecated := false, minInput := 1, minOutput := 1,
    inputs := [("data", .single)],
    outputs := [("reduced", .single)],
    attrs := [⟨"axes", .INTS, false, Val.none⟩, ⟨"keepdims", .INT, false, (Val.int 1)⟩] }

def s_Relu_14 : Schema :=
  { name := "Relu", domain := "", since := 14, deprecated := false, minInput := 1, minOutput := 1,
    inputs := [("X", .single)],
    outputs := [("Y", .single)],
    attrs := [] }

def s_Reshape_14 : Schema :=
  { name := "Reshape", domain := "", since := 14, deprecated := false, minInput := 2, minOutput := 1,
    inputs := [("data", .single), ("shape", .single)],
    outputs := [("reshaped", .single)],
    attrs := [⟨"allowzero", .INT, false, (Val.int 0)⟩] }

def s_Resize_13 : Schema :=
  { name := "Resize", domain := "", since := 13, deprecated := false, minInput := 1, minOutput := 1,
    inputs := [("X", .single), ("roi", .optional), ("scales", .optional), ("sizes", .optional)],
    outputs := [("Y", .single)],
    attrs := [⟨"coordinate_transformation_mode", .STRING, false, (Val.str "half_pixel")⟩, ⟨"cubic_coeff_a", .FLOAT, false, (Val.float 3208642560)⟩, ⟨"exclude_outside", .INT, false, (Val.int 0)⟩, ⟨"extrapolation_value", .FLOAT, false, (Val.float 0)⟩, ⟨"mode", .STRING, false, (Val.str "nearest")⟩, ⟨"nearest_mode", .STRING, false, (Val.str "round_prefer_floor")⟩] }

def s_ReverseSequence_10 : Schema :=
  { name := "ReverseSequence", domain := "", since := 10, deprecated := false, minInput := 2, minOutput := 1,
    inputs := [("input", .single), ("sequence_lens", .single)],
    outputs := [("Y", .single)],
    attrs := [⟨"batch_axis", .INT, false, (Val.int 1)⟩, ⟨"time_axis", .INT, false, (Val.int 0)⟩] }

def s_RoiAlign_16 : Schema :=
  { name := "RoiAlign", domain := "", since := 16, deprecated := false, minInput := 3, minOutput := 1,
    inputs := [("X", .single), ("rois", .single), ("batch_indices", .single)],
    outputs := [("Y", .single)],
    attrs := [⟨"coordinate_transformation_mode", .STRING, false, (Val.str "half_pixel")⟩, ⟨"mode", .STRING, false, (Val.str "avg")⟩, ⟨"output_height", .INT, false, (Val.int 1)⟩, ⟨"output_width", .INT, false, (Val.int 1)⟩, ⟨"sampling_ratio", .INT, false, (Val.int 0)⟩, ⟨"spatial_scale", .FLOAT, false, (Val.float 1065353216)⟩] }

def s_Round_11 : Schema :=
  { name := "Round", domain := "", since := 11, deprecated := false, minInput := 1, minOutput := 1,
    inputs := [("X", .single)],
    outputs := [("Y", .single)],
    attrs := [] }

def s_STFT_17 : Schema :=
  { name := "STFT", domain := "", since := 17, deprecated := false, minInput := 2, minOutput := 1,
    inputs := [("signal", .single), ("frame_step", .single), ("window", .optional), ("frame_length", .optional)],
    outputs := [("output", .single)],
    attrs := [⟨"onesided", .INT, false, (Val.int 1)⟩] }

def s_Scan_16 : Schema :=
  { name := "Scan", domain := "", since := 16, deprecated := false, minInput := 1, minOutput := 1,
    inputs := [("initial_state_and_scan_inputs", .variadic)],
    outputs := [("final_state_and_scan_outputs", .variadic)],
    attrs := [⟨"body", .GRAPH, true, Val.none⟩, ⟨"num_scan_inputs", .INT, true, Val.none⟩, ⟨"scan_input_axes", .INTS, false, Val.none⟩, ⟨"scan_input_directions", .INTS, false, Val.none⟩, ⟨"scan_output_axes", .INTS, false, Val.none⟩, ⟨"scan_output_directions", .INTS, false, Val.none⟩] }

def s_ScatterElements_16 : Schema :=
  { name := "ScatterElements", domain := "", since := 16, deprecated := false, minInput := 3, minOutput := 1,
    inputs := [("data", .single), ("indices", .single), ("updates", .single)],
    outputs := [("output", .single)],
    attrs := [⟨"axis", .INT, false, (Val.int 0)⟩, ⟨"reduction", .STRING, false, (Val.str "none")⟩] }

def s_ScatterND_16 : Schema :=
  { name := "ScatterND", domain := "", since := 16, deprecated := false, minInput := 3, minOutput := 1,
    inputs := [("data", .single), ("indices", .single), ("updates", .single)],
    outputs := [("output", .single)],
    attrs := [⟨"reduction", .STRING, false, (Val.str "none")⟩] }

def s_Selu_6 : Schema :=
  { name := "Selu", domain := "", since := 6, deprecated := false, minInput := 1, minOutput := 1,
    inputs := [("X", .single)],
    outputs := [("Y", .single)],
    attrs := [⟨"alpha", .FLOAT, false, (Val.float 1071000957)⟩, ⟨"gamma", .FLOAT, false, (Val.float 1065778527)⟩] }

def s_SequenceAt_11 : Schema :=
  { name := "SequenceAt", domain := "", since := 11, deprecated := false, minInput := 2, minOutput := 1,
    inputs := [("input_sequence", .single), ("position", .single)],
    outputs := [("tensor", .single)],
    attrs := [] }

def s_SequenceConstruct_11 : Schema :=
  { name := "SequenceConstruct", domain := "", since := 11, deprecated := false, minInput := 1, minOutput := 1,
    inputs := [("inputs", .variadic)],
    outputs := [("output_sequence", .single)],
    attrs := [] }

def s_SequenceEmpty_11 : Schema :=
  { name := "SequenceEmpty", domain := "", since := 11, deprecated := false, minInput := 0, minOutput := 1,
    inputs := [],
    outputs := [("output", .single)],
    attrs := [⟨"dtype", .INT, false, Val.none⟩] }

def s_SequenceErase_11 : Schema :=
  { name := "SequenceErase", domain := "", since := 11, deprecated := false, minInput := 1, minOutput := 1,
    inputs := [("input_sequence", .single), ("position", .optional)],
    outputs := [("output_sequence", .single)],
    attrs := [] }

def s_SequenceInsert_11 : Schema :=
  { name := "SequenceInsert", domain := "", since := 11, deprecated := false, minInput := 2, minOutput := 1,
    inputs := [("input_sequence", .single), ("tensor", .single), ("position", .optional)],
    outputs := [("output_sequence", .single)],
    attrs := [] }

def s_SequenceLength_11 : Schema :=
  { name := "SequenceLength", domain := "", since := 11, deprecated := false, minInput := 1, minOutput := 1,
    inputs := [("input_sequence", .single)],
    outputs := [("length", .single)],
    attrs := [] }

def s_SequenceMap_17 : Schema :=
  { name := "SequenceMap", domain := "", since := 17, deprecated := false, minInput := 1, minOutput := 1,
    inputs := [("input_sequence", .single), ("additional_inputs", .variadic)],
    outputs := [("out_sequence", .variadic)],
    attrs := [⟨"body", .GRAPH, true, Val.none⟩] }

def s_Shape_15 : Schema :=
  { name := "Shape", domain := "", since := 15, deprecated := false, minInput := 1, minOutput := 1,
    inputs := [("data", .single)],
    outputs := [("shape", .single)],
    attrs := [⟨"end", .INT, false, Val.none⟩, ⟨"start", .INT, false, (Val.int 0)⟩] }

def s_Shrink_9 : Schema :=
  { name := "Shrink", domain := "", since := 9, deprecated := false, minInput := 1, minOutput := 1,
    inputs := [("input", .single)],
    outputs := [("output", .single)],
    attrs := [⟨"bias", .FLOAT, false, (Val.float 0)⟩, ⟨"lambd", .FLOAT, false, (Val.float 1056964608)⟩] }

def s_Sigmoid_13 : Schema :=
  { name := "Sigmoid", domain := "", since := 13, deprecated := false, minInput := 1, minOutput := 1,
    inputs := [("X", .single)],
    outputs := [("Y", .single)],
    attrs := [] }

def s_Sign_13 : Schema :=
  { name := "Sign", domain := "", since := 13, deprecated := false, minInput := 1, minOutput := 1,
    inputs := [("input", .single)],
    outputs := [("output", .single)],
    attrs := [] }

def s_Sin_7 : Schema :=
  { name := "Sin", domain := "", since := 7, deprecated := false, minInput := 1, minOutput := 1,
    inputs := [("input", .single)],
    outputs := [("output", .single)],
    attrs := [] }

def s_Sinh_9 : Schema :=
  { name := "Sinh", domain := "", since := 9, deprecated := false, minInput := 1, minOutput := 1,
    inputs := [("input", .single)],
    outputs := [("output", .single)],
    attrs := [] }

def s_Size_13 : Schema :=
  { name := "Size", domain := "", since := 13, deprecated := false, minInput := 1, minOutput := 1,
    inputs := [("data", .single)],
    outputs := [("size", .single)],
    attrs := [] }

def s_Slice_13 : Schema :=
  { name := "Slice", domain := "", since := 13, deprecated := false, minInput := 3, minOutput := 1,
    inputs := [("data", .single), ("starts", .single), ("ends", .single), ("axes", .optional), ("steps", .optional)],
    outputs := [("output", .single)],
    attrs := [] }

def s_Softmax_13 : Schema :=
  { name := "Softmax", domain := "", since := 13, deprecated := false, minInput := 1, minOutput := 1,
    inputs := [("input", .single)],
    outputs := [("output", .single)],
    attrs := [⟨"axis", .INT, false, (Val.int (-1))⟩] }

def s_SoftmaxCrossEntropyLoss_13 : Schema :=
  { name := "SoftmaxCrossEntropyLoss", domain := "", since := 13, deprecated := false, minInput := 2, minOutput := 1,
    inputs := [("scores", .single), ("labels", .single), ("weights", .optional)],
    outputs := [("output", .single), ("log_prob", .optional)],
    attrs := [⟨"ignore_index", .INT, false, Val.none⟩, ⟨"reduction", .STRING, false, (Val.str "mean")⟩] }

def s_Softplus_1 : Schema :=
  { name := "Softplus", domain := "", since := 1, deprecated := false, minInput := 1, minOutput := 1,
    inputs := [("X", .single)],
    outputs := [("Y", .single)],
    attrs := [] }

def s_Softsign_1 : Schema :=
  { name := "Softsign", domain := "", since := 1, deprecated := false, minInput := 1, minOutput := 1,
    inputs := [("input", .single)],
    outputs := [("output", .single)],
    attrs := [] }

def s_SpaceToDepth_13 : Schema :=
  { name := "SpaceToDepth", domain := "", since := 13, deprecated := false, minInput := 1, minOutput := 1,
    inputs := [("input", .single)],
    outputs := [("output", .single)],
    attrs := [⟨"blocksize", .INT, true, Val.none⟩] }

def s_Split_13 : Schema :=
  { name := "Split", domain := "", since := 13, deprecated := false, minInput := 1, minOutput := 1,
    inputs := [("input", .single), ("split", .optional)],
    outputs := [("outputs", .variadic)],
    attrs := [⟨"axis", .INT, false, (Val.int 0)⟩] }

def s_SplitToSequence_11 : Schema :=
  { name := "SplitToSequence", domain := "", since := 11, deprecated := false, minInput := 1, minOutput := 1,
    inputs := [("input", .single), ("split", .optional)],
    outputs := [("output_sequence", .single)],
    attrs := [⟨"axis", .INT, false, (Val.int 0)⟩, ⟨"keepdims", .INT, false, (Val.int 1)⟩] }

def s_Sqrt_13 : Schema :=
  { name := "Sqrt", domain := "", since := 13, deprecated := false, minInput := 1, minOutput := 1,
    inputs := [("X", .single)],
    outputs := [("Y", .single)],
    attrs := [] }

def s_Squeeze_13 : Schema :=
  { name := "Squeeze", domain := "", since := 13, deprecated := false, minInput := 1, minOutput := 1,
    inputs := [("data", .single), ("axes", .optional)],
    outputs := [("squeezed", .single)],
    attrs := [] }

def s_StringNormalizer_10 : Schema :=
  { name := "StringNormalizer", domain := "", since := 10, deprecated := false, minInput := 1, minOutput := 1,
    inputs := [("X", .single)],
    outputs := [("Y", .single)],
    attrs := [⟨"case_change_action", .STRING, false, (Val.str "NONE")⟩, ⟨"is_case_sensitive", .INT, false, (Val.int 0)⟩, ⟨"locale", .STRING, false, Val.none⟩, ⟨"stopwords", .STRINGS, false, Val.none⟩] }

def s_Sub_14 : Schema :=
  { name := "Sub", domain := "", since := 14, deprecated := false, minInput := 2, minOutput := 1,
    inputs := [("A", .single), ("B", .single)],
    outputs := [("C", .single)],
    attrs := [] }

def s_Sum_13 : Schema :=
  { name := "Sum", domain := "", since := 13, deprecated := false, minInput := 1, minOutput := 1,
    inputs := [("data_0", .variadic)],
    outputs := [("sum", .single)],
    attrs := [] }

def s_Tan_7 : Schema :=
  { name := "Tan", domain := "", since := 7, deprecated := false, minInput := 1, minOutput := 1,
    inputs := [("input", .single)],
    outputs := [("output", .single)],
    attrs := [] }

def s_Tanh_13 : Schema :=
  { name := "Tanh", domain := "", since := 13, deprecated := false, minInput := 1, minOutput := 1,
    inputs := [("input", .single)],
    outputs := [("output", .single)],
    attrs := [] }

def s_TfIdfVectorizer_9 : Schema :=
  { name := "TfIdfVectorizer", domain := "", since := 9, deprecated := false, minInput := 1, minOutput := 1,
    inputs := [("X", .single)],
    outputs := [("Y", .single)],
    attrs := [⟨"max_gram_length", .INT, true, Val.none⟩, ⟨"max_skip_count", .INT, true, Val.none⟩, ⟨"min_gram_length", .INT, true, Val.none⟩, ⟨"mode", .STRING, true, Val.none⟩, ⟨"ngram_counts", .INTS, true, Val.none⟩, ⟨"ngram_indexes", .INTS, true, Val.none⟩, ⟨"pool_int64s", .INTS, false, Val.none⟩, ⟨"pool_strings", .STRINGS, false, Val.none⟩, ⟨"weights", .FLOATS, false, Val.none⟩] }

def s_ThresholdedRelu_10 : Schema :=
  { name := "ThresholdedRelu", domain := "", since := 10, deprecated := false, minInput := 1, minOutput := 1,
    inputs := [("X", .single)],
    outputs := [("Y", .single)],
    attrs := [⟨"alpha", .FLOAT, false, (Val.float 1065353216)⟩] }

def s_Tile_13 : Schema :=
  { name := "Tile", domain := "", since := 13, deprecated := false, minInput := 2, minOutput := 1,
    inputs := [("input", .single), ("repeats", .single)],
    outputs := [("output", .single)],
    attrs := [] }

def s_TopK_11 : Schema :=
  { name := "TopK", domain := "", since := 11, deprecated := false, minInput := 2, minOutput := 2,
    inputs := [("X", .single), ("K", .single)],
    outputs := [("Values", .single), ("Indices", .single)],
    attrs := [⟨"axis", .INT, false, (Val.int (-1))⟩, ⟨"largest", .INT, false, (Val.int 1)⟩, ⟨"sorted", .INT, false, (Val.int 1)⟩] }

def s_Transpose_13 : Schema :=
  { name := "Transpose", domain := "", since := 13, deprecated := false, minInput := 1, minOutput := 1,
    inputs := [("data", .single)],
    outputs := [("transposed", .single)],
    attrs := [⟨"perm", .INTS, false, Val.none⟩] }

def s_Trilu_14 : Schema :=
  { name := "Trilu", domain := "", since := 14, deprecated := false, minInput := 1, minOutput := 1,
    inputs := [("input", .single), ("k", .optional)],
    outputs := [("output", .single)],
    attrs := [⟨"upper", .INT, false, (Val.int 1)⟩] }

def s_Unique_11 : Schema :=
  { name := "Unique", domain := "", since := 11, deprecated := false, minInput := 1, minOutput := 1,
    inputs := [("X", .single)],
    outputs := [("Y", .single), ("indices", .optional), ("inverse_indices", .optional), ("counts", .optional)],
    attrs := [⟨"axis", .INT, false, Val.none⟩, ⟨"sorted", .INT, false, (Val.int 1)⟩] }

def s_Unsqueeze_13 : Schema :=
  { name := "Unsqueeze", domain := "", since := 13, deprecated := false, minInput := 2, minOutput := 1,
    inputs := [("data", .single), ("axes", .single)],
    outputs := [("expanded", .single)],
    attrs := [] }

def s_Where_16 : Schema :=
  { name := "Where", domain := "", since := 16, deprecated := false, minInput := 3, minOutput := 1,
    inputs := [("condition", .single), ("X", .single), ("Y", .single)],
    outputs := [("output", .single)],
    attrs := [] }

def s_Xor_7 : Schema :=
  { name := "Xor", domain := "", since := 7, deprecated := false, minInput := 2, minOutput := 1,
    inputs := [("A", .single), ("B", .single)],
    outputs := [("C", .single)],
    attrs := [] }

end Generated.Schemas.v17
