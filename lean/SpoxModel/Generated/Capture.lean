-- GENERATED from src/spox/{_attributes,_fields,_graph,_future}.py, opset/ai/onnx/v17.py by translator/c10_tables.py on every run; do not edit.
import SpoxModel.Model.AttrBase
namespace Generated.CaptureTable
open _root_.Capture

def table : List Entry := [
  ⟨"Attr.__init__", .imm, .alias, .alias⟩,
  ⟨"AttrFloat32", .imm, .alias, .alias⟩,
  ⟨"AttrInt64", .imm, .alias, .alias⟩,
  ⟨"AttrString", .imm, .alias, .alias⟩,
  ⟨"AttrDtype", .imm, .alias, .alias⟩,
  ⟨"AttrType", .imm, .alias, .alias⟩,
  ⟨"AttrGraph", .imm, .alias, .alias⟩,
  ⟨"AttrTensor", .flat, .copy, .copy⟩,
  ⟨"AttrFloat32s", .flat, .freeze, .freeze⟩,
  ⟨"AttrInt64s", .flat, .freeze, .freeze⟩,
  ⟨"AttrStrings", .flat, .freeze, .freeze⟩,
  ⟨"AttrTensors", .nest, .deep, .deep⟩,
  ⟨"_AttrIterable.maybe", .flat, .freeze, .freeze⟩,
  ⟨"BaseVars.variadic", .flat, .freeze, .freeze⟩,
  ⟨"initializer", .flat, .copy, .copy⟩,
  ⟨"arguments(default)", .flat, .copy, .copy⟩,
  ⟨"constant(value)", .flat, .copy, .copy⟩,
  ⟨"constant(value_ints)", .flat, .freeze, .freeze⟩,
  ⟨"Tensor(shape)", .flat, .opaque, .freeze⟩,
  ⟨"const(ndarray)", .flat, .deep, .copy⟩,
  ⟨"const(nested list)", .nest, .deep, .deep⟩,
  ⟨"_future.initializer(ndarray)", .flat, .deep, .copy⟩,
  ⟨"_future.initializer(nested list)", .nest, .deep, .deep⟩
]

/-- Every place found by the AST scan of the core modules where a caller-provided mutable object could be
    stored (every subclass of Attr; every __init__/__post_init__ storing a container-typed parameter or
    field; every public function with an array parameter), with the table row that covers it
    ("internal" = no caller-owned object can arrive there, reasons in translator/c10_tables.py). -/
def discovered : List (String × String) := [
  ("_attributes.AttrFloat32", "AttrFloat32"),
  ("_attributes.AttrInt64", "AttrInt64"),
  ("_attributes.AttrString", "AttrString"),
  ("_attributes.AttrTensor", "AttrTensor"),
  ("_attributes.AttrType", "AttrType"),
  ("_attributes.AttrDtype", "AttrDtype"),
  ("_attributes.AttrGraph", "AttrGraph"),
  ("_attributes._AttrIterable", "internal"),
  ("_attributes.AttrFloat32s", "AttrFloat32s"),
  ("_attributes.AttrInt64s", "AttrInt64s"),
  ("_attributes.AttrStrings", "AttrStrings"),
  ("_attributes.AttrTensors", "AttrTensors"),
  ("_attributes.Attr.__init__", "Attr.__init__"),
  ("_attributes._Ref.__init__", "internal"),
  ("_attributes.AttrTensor.__init__", "AttrTensor"),
  ("_attributes._AttrIterable.__init__", "AttrInt64s"),
  ("_attributes.AttrTensors.__init__", "AttrTensors"),
  ("_fields.BaseVars.__post_init__", "BaseVars.variadic"),
  ("_type_system.Tensor.__init__", "Tensor(shape)"),
  ("_node.Node.__init__", "internal"),
  ("_graph.Graph.__post_init__", "internal"),
  ("_graph.arguments_dict(kwargs)", "arguments(default)"),
  ("_graph.arguments(kwargs)", "arguments(default)"),
  ("_graph.enum_arguments(infos)", "arguments(default)"),
  ("_graph.initializer(arr)", "initializer"),
  ("_future.initializer(value)", "_future.initializer(ndarray)")
]

/-- discovered sites without a row: a new class / constructor the table does not know -/
def uncoveredSites : List String := []

/-- operator-module constructor parameters (arrays / iterables) used otherwise than as an argument of an
    Attr class, an Inputs dataclass or np.array -/
def opsetDirectUses : List String := []

end Generated.CaptureTable
