-- GENERATED from src/spox/{_attributes,_fields,_graph,_future}.py, opset/ai/onnx/v17.py by translator/c10_tables.py on every run; do not edit.
import SpoxModel.Model.AttrBase
namespace Generated.CaptureTable
open _root_.Capture

def table : List Entry := [
  ⟨"Attr.__init__", .imm, .alias, .alias⟩,
  ⟨"AttrFloat32", .imm, .alias, .alias⟩,
  ⟨"AttrInt64", .imm, .alias, .alias⟩,
  ⟨"AttrString", .imm, .alias, .alias⟩,
  ⟨"AttrDtype", .imm, .alias, .alias⟩,
  ⟨"AttrType", .imm, .alias, .alias⟩,
  ⟨"AttrGraph", .imm, .alias, .alias⟩,
  ⟨"AttrTensor", .flat, .copy, .copy⟩,
  ⟨"AttrFloat32s", .flat, .freeze, .freeze⟩,
  ⟨"AttrInt64s", .flat, .freeze, .freeze⟩,
  ⟨"AttrStrings", .flat, .freeze, .freeze⟩,
  ⟨"AttrTensors", .nest, .deep, .deep⟩,
  ⟨"_AttrIterable.maybe", .flat, .freeze, .freeze⟩,
  ⟨"BaseVars.variadic", .flat, .freeze, .freeze⟩,
  ⟨"initializer", .flat, .copy, .copy⟩,
  ⟨"arguments(default)", .flat, .copy, .copy⟩,
  ⟨"constant(value)", .flat, .copy, .copy⟩,
  ⟨"constant(value_ints)", .flat, .freeze, .freeze⟩,
  ⟨"const(ndarray)", .flat, .deep, .copy⟩,
  ⟨"const(nested list)", .nest, .deep, .deep⟩,
  ⟨"_future.initializer(ndarray)", .flat, .deep, .copy⟩,
  ⟨"_future.initializer(nested list)", .nest, .deep, .deep⟩
]

end Generated.CaptureTable
