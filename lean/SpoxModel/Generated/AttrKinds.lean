-- GENERATED from src/spox/_attributes.py, _utils.py by translator/c10_tables.py on every run; do not edit.
import SpoxModel.Model.AttrBase
namespace Generated.AttrKinds
open Attr

/-- `cls._attribute_proto_type` (introspection; 0 = class missing). -/
def kindOf : Cls → Nat
  | .float32 => 1
  | .int64 => 2
  | .string => 3
  | .tensor => 4
  | .type_ => 13
  | .dtype => 2
  | .graph => 5
  | .float32s => 6
  | .int64s => 7
  | .strings => 8
  | .tensors => 9

/-- `cls._validate is Attr._validate` -/
def genericValidate : Cls → Bool
  | .float32 => true
  | .int64 => true
  | .string => true
  | .tensor => true
  | .type_ => true
  | .dtype => false
  | .graph => false
  | .float32s => true
  | .int64s => true
  | .strings => true
  | .tensors => true

/-- `issubclass(cls, _AttrIterable)` -/
def iterable : Cls → Bool
  | .float32 => false
  | .int64 => false
  | .string => false
  | .tensor => false
  | .type_ => false
  | .dtype => false
  | .graph => false
  | .float32s => true
  | .int64s => true
  | .strings => true
  | .tensors => true

/-- public `Attr` subclasses of the module that the model does not know / that are gone -/
def unknownClasses : List String := []
def missingClasses : List String := []

/-- `AttrTensor.__init__` raises TypeError for a non-array before it calls `value.copy()` (AST) -/
def tensorGuard : Bool := true

/-- `Attr._validate` re-raises every exception of the conversion as TypeError (AST) -/
def validateCatchAll : Bool := true

/-- exception classes `dtype_to_tensor_type` turns into TypeError around onnx's table lookup (AST) -/
def dtypeCatches : List String := ["KeyError", "ValueError"]

/-- … and around `np.dtype(dtype_like)` itself (malformed specifications such as `(int, -1)`) (AST) -/
def dtypeSpecCatches : List String := ["ValueError"]

end Generated.AttrKinds
