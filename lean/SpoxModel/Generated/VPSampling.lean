-- GENERATED from src/spox/_standard.py, src/spox/_inline.py, src/spox/opset/**, onnx.defs by translator/vp_sampling.py on every run; do not edit.
/-! The guards that make a node skip value propagation, and the sampling operators of the installed onnx. -/
namespace Generated.VPSampling

def listed : List String :=
  ["Bernoulli", "Dropout", "Multinomial", "RandomNormal", "RandomNormalLike", "RandomUniform", "RandomUniformLike"]

def guardCalled : Bool := true

def inlineGuard : Bool := true

def inlineSamplingGuard : Bool := true

/-- (domain, name) of every schema with a `seed` attribute or a sampling name. -/
def sampling : List (String × String) :=
  [("", "Bernoulli"), ("", "Dropout"), ("", "Multinomial"), ("", "RandomNormal"), ("", "RandomNormalLike"), ("", "RandomUniform"), ("", "RandomUniformLike")]

/-- the sampling operators spox ships a constructor for. -/
def shipped : List (String × String) :=
  [("", "Bernoulli"), ("", "Dropout"), ("", "Multinomial"), ("", "RandomNormal"), ("", "RandomNormalLike"), ("", "RandomUniform"), ("", "RandomUniformLike")]

end Generated.VPSampling
