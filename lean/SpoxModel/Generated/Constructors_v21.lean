-- GENERATED from src/spox/opset/ai/onnx/v21.py by translator/constructors.py on every run; do not edit.
import SpoxModel.Model.Conform
import SpoxModel.Generated.Constructors_v20
namespace Generated.Ctors.v21
open Conform

def cls_Cast : ClassSig :=
  { pyName := "v21._Cast", base := "StandardNode", opName := "Cast", domain := "", version := 21,
    inputs := [("input", .single)],
    outputs := [("output", .single)],
    attrs := [⟨"saturate", .int, false⟩, ⟨"to", .dtype, false⟩] }

def cls_CastLike : ClassSig :=
  { pyName := "v21._CastLike", base := "StandardNode", opName := "CastLike", domain := "", version := 21,
    inputs := [("input", .single), ("target_type", .single)],
    outputs := [("output", .single)],
    attrs := [⟨"saturate", .int, false⟩] }

def cls_Constant : ClassSig :=
  { pyName := "v21._Constant", base := "StandardNode", opName := "Constant", domain := "", version := 21,
    inputs := [],
    outputs := [("output", .single)],
    attrs := [⟨"value", .tensor, true⟩, ⟨"value_float", .float, true⟩, ⟨"value_floats", .floats, true⟩, ⟨"value_int", .int, true⟩, ⟨"value_ints", .ints, true⟩, ⟨"value_string", .string, true⟩, ⟨"value_strings", .strings, true⟩] }

def cls_ConstantOfShape : ClassSig :=
  { pyName := "v21._ConstantOfShape", base := "StandardNode", opName := "ConstantOfShape", domain := "", version := 21,
    inputs := [("input", .single)],
    outputs := [("output", .single)],
    attrs := [⟨"value", .tensor, true⟩] }

def cls_DequantizeLinear : ClassSig :=
  { pyName := "v21._DequantizeLinear", base := "StandardNode", opName := "DequantizeLinear", domain := "", version := 21,
    inputs := [("x", .single), ("x_scale", .single), ("x_zero_point", .optional)],
    outputs := [("y", .single)],
    attrs := [⟨"axis", .int, false⟩, ⟨"block_size", .int, false⟩] }

def cls_Flatten : ClassSig :=
  { pyName := "v21._Flatten", base := "StandardNode", opName := "Flatten", domain := "", version := 21,
    inputs := [("input", .single)],
    outputs := [("output", .single)],
    attrs := [⟨"axis", .int, false⟩] }

def cls_GroupNormalization : ClassSig :=
  { pyName := "v21._GroupNormalization", base := "StandardNode", opName := "GroupNormalization", domain := "", version := 21,
    inputs := [("X", .single), ("scale", .single), ("bias", .single)],
    outputs := [("Y", .single)],
    attrs := [⟨"epsilon", .float, false⟩, ⟨"num_groups", .int, false⟩, ⟨"stash_type", .int, false⟩] }

def cls_Identity : ClassSig :=
  { pyName := "v21._Identity", base := "StandardNode", opName := "Identity", domain := "", version := 21,
    inputs := [("input", .single)],
    outputs := [("output", .single)],
    attrs := [] }

def cls_If : ClassSig :=
  { pyName := "v21._If", base := "StandardNode", opName := "If", domain := "", version := 21,
    inputs := [("cond", .single)],
    outputs := [("outputs", .variadic)],
    attrs := [⟨"else_branch", .graph, false⟩, ⟨"then_branch", .graph, false⟩] }

def cls_Loop : ClassSig :=
  { pyName := "v21._Loop", base := "StandardNode", opName := "Loop", domain := "", version := 21,
    inputs := [("M", .optional), ("cond", .optional), ("v_initial", .variadic)],
    outputs := [("v_final_and_scan_outputs", .variadic)],
    attrs := [⟨"body", .graph, false⟩] }

def cls_Pad : ClassSig :=
  { pyName := "v21._Pad", base := "StandardNode", opName := "Pad", domain := "", version := 21,
    inputs := [("data", .single), ("pads", .single), ("constant_value", .optional), ("axes", .optional)],
    outputs := [("output", .single)],
    attrs := [⟨"mode", .string, false⟩] }

def cls_QLinearMatMul : ClassSig :=
  { pyName := "v21._QLinearMatMul", base := "StandardNode", opName := "QLinearMatMul", domain := "", version := 21,
    inputs := [("a", .single), ("a_scale", .single), ("a_zero_point", .single), ("b", .single), ("b_scale", .single), ("b_zero_point", .single), ("y_scale", .single), ("y_zero_point", .single)],
    outputs := [("y", .single)],
    attrs := [] }

def cls_QuantizeLinear : ClassSig :=
  { pyName := "v21._QuantizeLinear", base := "StandardNode", opName := "QuantizeLinear", domain := "", version := 21,
    inputs := [("x", .single), ("y_scale", .single), ("y_zero_point", .optional)],
    outputs := [("y", .single)],
    attrs := [⟨"axis", .int, false⟩, ⟨"block_size", .int, false⟩, ⟨"output_dtype", .int, false⟩, ⟨"saturate", .int, false⟩] }

def cls_Reshape : ClassSig :=
  { pyName := "v21._Reshape", base := "StandardNode", opName := "Reshape", domain := "", version := 21,
    inputs := [("data", .single), ("shape", .single)],
    outputs := [("reshaped", .single)],
    attrs := [⟨"allowzero", .int, false⟩] }

def cls_Scan : ClassSig :=
  { pyName := "v21._Scan", base := "StandardNode", opName := "Scan", domain := "", version := 21,
    inputs := [("initial_state_and_scan_inputs", .variadic)],
    outputs := [("final_state_and_scan_outputs", .variadic)],
    attrs := [⟨"body", .graph, false⟩, ⟨"num_scan_inputs", .int, false⟩, ⟨"scan_input_axes", .ints, true⟩, ⟨"scan_input_directions", .ints, true⟩, ⟨"scan_output_axes", .ints, true⟩, ⟨"scan_output_directions", .ints, true⟩] }

def cls_Shape : ClassSig :=
  { pyName := "v21._Shape", base := "StandardNode", opName := "Shape", domain := "", version := 21,
    inputs := [("data", .single)],
    outputs := [("shape", .single)],
    attrs := [⟨"end", .int, true⟩, ⟨"start", .int, false⟩] }

def cls_Size : ClassSig :=
  { pyName := "v21._Size", base := "StandardNode", opName := "Size", domain := "", version := 21,
    inputs := [("data", .single)],
    outputs := [("size", .single)],
    attrs := [] }

def cls_Squeeze : ClassSig :=
  { pyName := "v21._Squeeze", base := "StandardNode", opName := "Squeeze", domain := "", version := 21,
    inputs := [("data", .single), ("axes", .optional)],
    outputs := [("squeezed", .single)],
    attrs := [] }

def cls_Transpose : ClassSig :=
  { pyName := "v21._Transpose", base := "StandardNode", opName := "Transpose", domain := "", version := 21,
    inputs := [("data", .single)],
    outputs := [("transposed", .single)],
    attrs := [⟨"perm", .ints, true⟩] }

def cls_Unsqueeze : ClassSig :=
  { pyName := "v21._Unsqueeze", base := "StandardNode", opName := "Unsqueeze", domain := "", version := 21,
    inputs := [("data", .single), ("axes", .single)],
    outputs := [("expanded", .single)],
    attrs := [] }

def f_cast : Ctor :=
  { pyName := "v21.cast", cls := Generated.Ctors.v21.cls_Cast,
    params := [⟨"input", false, .var, none⟩, ⟨"saturate", true, .attr, some (Val.int 1)⟩, ⟨"to", true, .attr, none⟩],
    attrWires := [⟨"saturate", .int, false, "saturate", "saturate", false⟩, ⟨"to", .dtype, false, "to", "to", false⟩],
    inputWires := [("input", "input")],
    outVar := .none, ret := .field "output" }

def f_cast_like : Ctor :=
  { pyName := "v21.cast_like", cls := Generated.Ctors.v21.cls_CastLike,
    params := [⟨"input", false, .var, none⟩, ⟨"target_type", false, .var, none⟩, ⟨"saturate", true, .attr, some (Val.int 1)⟩],
    attrWires := [⟨"saturate", .int, false, "saturate", "saturate", false⟩],
    inputWires := [("input", "input"), ("target_type", "target_type")],
    outVar := .none, ret := .field "output" }

def f_constant : Ctor :=
  { pyName := "v21.constant", cls := Generated.Ctors.v21.cls_Constant,
    params := [⟨"value", true, .attr, some Val.none⟩, ⟨"value_float", true, .attr, some Val.none⟩, ⟨"value_floats", true, .attr, some Val.none⟩, ⟨"value_int", true, .attr, some Val.none⟩, ⟨"value_ints", true, .attr, some Val.none⟩, ⟨"value_string", true, .attr, some Val.none⟩, ⟨"value_strings", true, .attr, some Val.none⟩],
    attrWires := [⟨"value", .tensor, true, "value", "value", false⟩, ⟨"value_float", .float, true, "value_float", "value_float", false⟩, ⟨"value_floats", .floats, true, "value_floats", "value_floats", false⟩, ⟨"value_int", .int, true, "value_int", "value_int", false⟩, ⟨"value_ints", .ints, true, "value_ints", "value_ints", false⟩, ⟨"value_string", .string, true, "value_string", "value_string", false⟩, ⟨"value_strings", .strings, true, "value_strings", "value_strings", false⟩],
    inputWires := [],
    outVar := .none, ret := .field "output" }

def f_constant_of_shape : Ctor :=
  { pyName := "v21.constant_of_shape", cls := Generated.Ctors.v21.cls_ConstantOfShape,
    params := [⟨"input", false, .var, none⟩, ⟨"value", true, .attr, some Val.none⟩],
    attrWires := [⟨"value", .tensor, true, "value", "value", false⟩],
    inputWires := [("input", "input")],
    outVar := .none, ret := .field "output" }

def f_dequantize_linear : Ctor :=
  { pyName := "v21.dequantize_linear", cls := Generated.Ctors.v21.cls_DequantizeLinear,
    params := [⟨"x", false, .var, none⟩, ⟨"x_scale", false, .var, none⟩, ⟨"x_zero_point", false, .optVar, some Val.none⟩, ⟨"axis", true, .attr, some (Val.int 1)⟩, ⟨"block_size", true, .attr, some (Val.int 0)⟩],
    attrWires := [⟨"axis", .int, false, "axis", "axis", false⟩, ⟨"block_size", .int, false, "block_size", "block_size", false⟩],
    inputWires := [("x", "x"), ("x_scale", "x_scale"), ("x_zero_point", "x_zero_point")],
    outVar := .none, ret := .field "y" }

def f_flatten : Ctor :=
  { pyName := "v21.flatten", cls := Generated.Ctors.v21.cls_Flatten,
    params := [⟨"input", false, .var, none⟩, ⟨"axis", true, .attr, some (Val.int 1)⟩],
    attrWires := [⟨"axis", .int, false, "axis", "axis", false⟩],
    inputWires := [("input", "input")],
    outVar := .none, ret := .field "output" }

def f_group_normalization : Ctor :=
  { pyName := "v21.group_normalization", cls := Generated.Ctors.v21.cls_GroupNormalization,
    params := [⟨"X", false, .var, none⟩, ⟨"scale", false, .var, none⟩, ⟨"bias", false, .var, none⟩, ⟨"epsilon", true, .attr, some (Val.float 925353388)⟩, ⟨"num_groups", true, .attr, none⟩, ⟨"stash_type", true, .attr, some (Val.int 1)⟩],
    attrWires := [⟨"epsilon", .float, false, "epsilon", "epsilon", false⟩, ⟨"num_groups", .int, false, "num_groups", "num_groups", false⟩, ⟨"stash_type", .int, false, "stash_type", "stash_type", false⟩],
    inputWires := [("X", "X"), ("scale", "scale"), ("bias", "bias")],
    outVar := .none, ret := .field "Y" }

def f_identity : Ctor :=
  { pyName := "v21.identity", cls := Generated.Ctors.v21.cls_Identity,
    params := [⟨"input", false, .var, none⟩],
    attrWires := [],
    inputWires := [("input", "input")],
    outVar := .none, ret := .field "output" }

def f_if_ : Ctor :=
  { pyName := "v21.if_", cls := Generated.Ctors.v21.cls_If,
    params := [⟨"cond", false, .var, none⟩, ⟨"else_branch", true, .callback, none⟩, ⟨"then_branch", true, .callback, none⟩],
    attrWires := [⟨"else_branch", .graph, false, "else_branch", "else_branch", true⟩, ⟨"then_branch", .graph, false, "then_branch", "then_branch", true⟩],
    inputWires := [("cond", "cond")],
    outVar := .lenResults "else_branch" 0, ret := .field "outputs" }

def f_loop : Ctor :=
  { pyName := "v21.loop", cls := Generated.Ctors.v21.cls_Loop,
    params := [⟨"M", false, .optVar, some Val.none⟩, ⟨"cond", false, .optVar, some Val.none⟩, ⟨"v_initial", false, .seqVar, some (Val.other "()")⟩, ⟨"body", true, .callback, none⟩],
    attrWires := [⟨"body", .graph, false, "body", "body", true⟩],
    inputWires := [("M", "M"), ("cond", "cond"), ("v_initial", "v_initial")],
    outVar := .lenResults "body" 1, ret := .field "v_final_and_scan_outputs" }

def f_pad : Ctor :=
  { pyName := "v21.pad", cls := Generated.Ctors.v21.cls_Pad,
    params := [⟨"data", false, .var, none⟩, ⟨"pads", false, .var, none⟩, ⟨"constant_value", false, .optVar, some Val.none⟩, ⟨"axes", false, .optVar, some Val.none⟩, ⟨"mode", true, .attr, some (Val.str "constant")⟩],
    attrWires := [⟨"mode", .string, false, "mode", "mode", false⟩],
    inputWires := [("data", "data"), ("pads", "pads"), ("constant_value", "constant_value"), ("axes", "axes")],
    outVar := .none, ret := .field "output" }

def f_qlinear_matmul : Ctor :=
  { pyName := "v21.qlinear_matmul", cls := Generated.Ctors.v21.cls_QLinearMatMul,
    params := [⟨"a", false, .var, none⟩, ⟨"a_scale", false, .var, none⟩, ⟨"a_zero_point", false, .var, none⟩, ⟨"b", false, .var, none⟩, ⟨"b_scale", false, .var, none⟩, ⟨"b_zero_point", false, .var, none⟩, ⟨"y_scale", false, .var, none⟩, ⟨"y_zero_point", false, .var, none⟩],
    attrWires := [],
    inputWires := [("a", "a"), ("a_scale", "a_scale"), ("a_zero_point", "a_zero_point"), ("b", "b"), ("b_scale", "b_scale"), ("b_zero_point", "b_zero_point"), ("y_scale", "y_scale"), ("y_zero_point", "y_zero_point")],
    outVar := .none, ret := .field "y" }

def f_quantize_linear : Ctor :=
  { pyName := "v21.quantize_linear", cls := Generated.Ctors.v21.cls_QuantizeLinear,
    params := [⟨"x", false, .var, none⟩, ⟨"y_scale", false, .var, none⟩, ⟨"y_zero_point", false, .optVar, some Val.none⟩, ⟨"axis", true, .attr, some (Val.int 1)⟩, ⟨"block_size", true, .attr, some (Val.int 0)⟩, ⟨"output_dtype", true, .attr, some (Val.int 0)⟩, ⟨"saturate", true, .attr, some (Val.int 1)⟩],
    attrWires := [⟨"axis", .int, false, "axis", "axis", false⟩, ⟨"block_size", .int, false, "block_size", "block_size", false⟩, ⟨"output_dtype", .int, false, "output_dtype", "output_dtype", false⟩, ⟨"saturate", .int, false, "saturate", "saturate", false⟩],
    inputWires := [("x", "x"), ("y_scale", "y_scale"), ("y_zero_point", "y_zero_point")],
    outVar := .none, ret := .field "y" }

def f_reshape : Ctor :=
  { pyName := "v21.reshape", cls := Generated.Ctors.v21.cls_Reshape,
    params := [⟨"data", false, .var, none⟩, ⟨"shape", false, .var, none⟩, ⟨"allowzero", true, .attr, some (Val.int 0)⟩],
    attrWires := [⟨"allowzero", .int, false, "allowzero", "allowzero", false⟩],
    inputWires := [("data", "data"), ("shape", "shape")],
    outVar := .none, ret := .field "reshaped" }

def f_scan : Ctor :=
  { pyName := "v21.scan", cls := Generated.Ctors.v21.cls_Scan,
    params := [⟨"initial_state_and_scan_inputs", false, .seqVar, none⟩, ⟨"body", true, .callback, none⟩, ⟨"num_scan_inputs", true, .attr, none⟩, ⟨"scan_input_axes", true, .attr, some Val.none⟩, ⟨"scan_input_directions", true, .attr, some Val.none⟩, ⟨"scan_output_axes", true, .attr, some Val.none⟩, ⟨"scan_output_directions", true, .attr, some Val.none⟩],
    attrWires := [⟨"body", .graph, false, "body", "body", true⟩, ⟨"num_scan_inputs", .int, false, "num_scan_inputs", "num_scan_inputs", false⟩, ⟨"scan_input_axes", .ints, true, "scan_input_axes", "scan_input_axes", false⟩, ⟨"scan_input_directions", .ints, true, "scan_input_directions", "scan_input_directions", false⟩, ⟨"scan_output_axes", .ints, true, "scan_output_axes", "scan_output_axes", false⟩, ⟨"scan_output_directions", .ints, true, "scan_output_directions", "scan_output_directions", false⟩],
    inputWires := [("initial_state_and_scan_inputs", "initial_state_and_scan_inputs")],
    outVar := .lenResults "body" 0, ret := .field "final_state_and_scan_outputs" }

def f_shape : Ctor :=
  { pyName := "v21.shape", cls := Generated.Ctors.v21.cls_Shape,
    params := [⟨"data", false, .var, none⟩, ⟨"end", true, .attr, some Val.none⟩, ⟨"start", true, .attr, some (Val.int 0)⟩],
    attrWires := [⟨"end", .int, true, "end", "end", false⟩, ⟨"start", .int, false, "start", "start", false⟩],
    inputWires := [("data", "data")],
    outVar := .none, ret := .field "shape" }

def f_size : Ctor :=
  { pyName := "v21.size", cls := Generated.Ctors.v21.cls_Size,
    params := [⟨"data", false, .var, none⟩],
    attrWires := [],
    inputWires := [("data", "data")],
    outVar := .none, ret := .field "size" }

def f_squeeze : Ctor :=
  { pyName := "v21.squeeze", cls := Generated.Ctors.v21.cls_Squeeze,
    params := [⟨"data", false, .var, none⟩, ⟨"axes", false, .optVar, some Val.none⟩],
    attrWires := [],
    inputWires := [("data", "data"), ("axes", "axes")],
    outVar := .none, ret := .field "squeezed" }

def f_transpose : Ctor :=
  { pyName := "v21.transpose", cls := Generated.Ctors.v21.cls_Transpose,
    params := [⟨"data", false, .var, none⟩, ⟨"perm", true, .attr, some Val.none⟩],
    attrWires := [⟨"perm", .ints, true, "perm", "perm", false⟩],
    inputWires := [("data", "data")],
    outVar := .none, ret := .field "transposed" }

def f_unsqueeze : Ctor :=
  { pyName := "v21.unsqueeze", cls := Generated.Ctors.v21.cls_Unsqueeze,
    params := [⟨"data", false, .var, none⟩, ⟨"axes", false, .var, none⟩],
    attrWires := [],
    inputWires := [("data", "data"), ("axes", "axes")],
    outVar := .none, ret := .field "expanded" }

end Generated.Ctors.v21
