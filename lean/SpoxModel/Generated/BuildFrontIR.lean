-- GENERATED from src/spox/_public.py by translator/build_front_ir.py on every run; do not edit.

import SpoxModel.Model.FrontIR

namespace Generated.BuildFrontIR
open FrontIR

/-- `build` -/
def ir : List Stmt := [.guard (.notAllVar .inputs) .type, .guard (.notAllVar .outputs) .type, .guard .notAllArg .type, .guard .emptyOutputs .value, .withRenames [.results, .withArgsUnlessDrop, .toModel], .guard .extraInput .key, .relistIfDrop, .ret]

end Generated.BuildFrontIR
