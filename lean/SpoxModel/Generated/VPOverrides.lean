-- GENERATED from src/spox/**/*.py by translator/vp_overrides.py on every run; do not edit.
/-! Every class that overrides `propagate_values` (area, file relative to src/spox, class). -/
namespace Generated.VPOverrides

def overrides : List (String × String × String) :=
  [("core", "_inline.py", "_Inline"),
   ("core", "_internal_op.py", "_Initializer"),
   ("core", "_node.py", "Node"),
   ("core", "_standard.py", "StandardNode"),
   ("opset", "opset/ai/onnx/v17.py", "_Constant"),
   ("opset", "opset/ai/onnx/v19.py", "_Constant"),
   ("opset", "opset/ai/onnx/v21.py", "_Constant")]

end Generated.VPOverrides
