-- GENERATED from src/spox/_var.py, src/spox/_future.py by translator/var_dunders.py on every run; do not edit.

namespace Generated.VarDunders

/-- `Var.<dunder>` delegates to `Var._operator_dispatcher.<method>`; `swapped`: the call is `(other, self)`;
    `arity`: number of operands passed. `method = "opaque"`: the body is not a bare delegation. -/
structure Wire where
  dunder : String
  method : String
  swapped : Bool
  arity : Nat
deriving DecidableEq, Repr

def wires : List Wire := [
  ⟨"__add__", "add", false, 2⟩,
  ⟨"__and__", "and_", false, 2⟩,
  ⟨"__floordiv__", "floordiv", false, 2⟩,
  ⟨"__invert__", "not_", false, 1⟩,
  ⟨"__mul__", "mul", false, 2⟩,
  ⟨"__neg__", "neg", false, 1⟩,
  ⟨"__or__", "or_", false, 2⟩,
  ⟨"__radd__", "add", true, 2⟩,
  ⟨"__rand__", "and_", true, 2⟩,
  ⟨"__rfloordiv__", "floordiv", true, 2⟩,
  ⟨"__rmul__", "mul", true, 2⟩,
  ⟨"__ror__", "or_", true, 2⟩,
  ⟨"__rsub__", "sub", true, 2⟩,
  ⟨"__rtruediv__", "truediv", true, 2⟩,
  ⟨"__rxor__", "xor", true, 2⟩,
  ⟨"__sub__", "sub", false, 2⟩,
  ⟨"__truediv__", "truediv", false, 2⟩,
  ⟨"__xor__", "xor", false, 2⟩]

/-- methods (and aliases `name=target`) defined by the two dispatcher classes -/
def defaultDispatcher : List String := ["_not_impl", "_not_impl_unary", "add=_not_impl", "and_=_not_impl", "floordiv=_not_impl", "mul=_not_impl", "neg=_not_impl_unary", "not_=_not_impl_unary", "or_=_not_impl", "sub=_not_impl", "truediv=_not_impl", "xor=_not_impl"]
def numpyDispatcher : List String := ["__init__", "_promote", "add", "and_", "floordiv", "mul", "neg", "not_", "or_", "sub", "truediv", "xor"]

/-- instance attributes the numpy-like dispatcher ever assigns (`self.<attr> = ...` anywhere in the class) -/
def numpyDispatcherAttrs : List String := ["constant_promotion", "op", "type_promotion"]

end Generated.VarDunders
