-- GENERATED from src/spox/_utils.py by translator/c10_tables.py on every run; do not edit.
import SpoxModel.Model.TensorBase
namespace Generated.TensorEnum
open Tensor

/-- `spox._utils.dtype_to_tensor_type(np.dtype(d))` as executed on this run (0 = raised). -/
def enumOf : DType → Nat
  | .bool => 9
  | .int8 => 3
  | .int16 => 5
  | .int32 => 6
  | .int64 => 7
  | .uint8 => 2
  | .uint16 => 4
  | .uint32 => 12
  | .uint64 => 13
  | .float16 => 10
  | .bfloat16 => 16
  | .float32 => 1
  | .float64 => 11
  | .complex64 => 14
  | .complex128 => 15
  | .str => 8

/-- `onnx.helper.tensor_dtype_to_field(enumOf d)` as executed on this run. -/
def fieldOf : DType → Field
  | .bool => .int32Data
  | .int8 => .int32Data
  | .int16 => .int32Data
  | .int32 => .int32Data
  | .int64 => .int64Data
  | .uint8 => .int32Data
  | .uint16 => .int32Data
  | .uint32 => .uint64Data
  | .uint64 => .uint64Data
  | .float16 => .int32Data
  | .bfloat16 => .int32Data
  | .float32 => .floatData
  | .float64 => .doubleData
  | .complex64 => .floatData
  | .complex128 => .doubleData
  | .str => .stringData

/-- `spox._utils.tensor_type_to_dtype(e)` as executed on this run for e = 0..31 (`none`: raised, or a numpy
    element type outside the 16 of the statement - those enums are listed in `otherEnums`). -/
def dtypeOfEnum : Nat → Option DType
  | 1 => some .float32
  | 2 => some .uint8
  | 3 => some .int8
  | 4 => some .uint16
  | 5 => some .int16
  | 6 => some .int32
  | 7 => some .int64
  | 8 => some .str
  | 9 => some .bool
  | 10 => some .float16
  | 11 => some .float64
  | 12 => some .uint32
  | 13 => some .uint64
  | 14 => some .complex64
  | 15 => some .complex128
  | 16 => some .bfloat16
  | _ => none

def otherEnums : List Nat := [17, 18, 19, 20, 21, 22, 23, 24, 25, 26]

/-- `dtype_to_tensor_type(<spelling>)` as executed on this run: aliases, byte orders, string widths, Python
    builtins (spelling, canonical element type, enum; 0 = raised). -/
def aliases : List (String × DType × Nat) := [
  ("int", .int64, 7),
  ("float", .float64, 11),
  ("bool", .bool, 9),
  ("str", .str, 8),
  ("np.longlong", .int64, 7),
  ("np.intc", .int32, 6),
  ("np.short", .int16, 5),
  ("np.byte", .int8, 3),
  ("np.ubyte", .uint8, 2),
  ("np.ushort", .uint16, 4),
  ("np.uintc", .uint32, 12),
  ("np.ulonglong", .uint64, 13),
  ("np.half", .float16, 10),
  ("np.single", .float32, 1),
  ("np.double", .float64, 11),
  ("np.csingle", .complex64, 14),
  ("np.cdouble", .complex128, 15),
  ("np.bool_", .bool, 9),
  ("np.str_", .str, 8),
  ("'i8'", .int64, 7),
  ("'>i4'", .int32, 6),
  ("'<f4'", .float32, 1),
  ("'>f8'", .float64, 11),
  ("'U3'", .str, 8),
  ("'<U1'", .str, 8),
  ("'?'", .bool, 9),
  ("'e'", .float16, 10),
  ("np.dtype('>u2')", .uint16, 4),
  ("np.zeros(1, np.int8).dtype", .int8, 3),
  ("np.float32(1).dtype", .float32, 1),
  ("np.int_", .int64, 7),
  ("np.uint", .uint64, 13)
]

end Generated.TensorEnum
