-- GENERATED from src/spox/_utils.py by translator/c10_tables.py on every run; do not edit.
import SpoxModel.Model.TensorBase
namespace Generated.TensorEnum
open Tensor

/-- `spox._utils.dtype_to_tensor_type(np.dtype(d))` as executed on this run (0 = raised). -/
def enumOf : DType → Nat
  | .bool => 9
  | .int8 => 3
  | .int16 => 5
  | .int32 => 6
  | .int64 => 7
  | .uint8 => 2
  | .uint16 => 4
  | .uint32 => 12
  | .uint64 => 13
  | .float16 => 10
  | .bfloat16 => 16
  | .float32 => 1
  | .float64 => 11
  | .complex64 => 14
  | .complex128 => 15
  | .str => 8

/-- `onnx.helper.tensor_dtype_to_field(enumOf d)` as executed on this run. -/
def fieldOf : DType → Field
  | .bool => .int32Data
  | .int8 => .int32Data
  | .int16 => .int32Data
  | .int32 => .int32Data
  | .int64 => .int64Data
  | .uint8 => .int32Data
  | .uint16 => .int32Data
  | .uint32 => .uint64Data
  | .uint64 => .uint64Data
  | .float16 => .int32Data
  | .bfloat16 => .int32Data
  | .float32 => .floatData
  | .float64 => .doubleData
  | .complex64 => .floatData
  | .complex128 => .doubleData
  | .str => .stringData

end Generated.TensorEnum
