-- GENERATED from src/spox/opset/ai/onnx/v19.py by translator/constructors.py on every run; do not edit.
import SpoxModel.Model.Conform
import SpoxModel.Generated.Constructors_v18
namespace Generated.Ctors.v19
open Conform

def cls_AveragePool : ClassSig :=
  { pyName := "v19._AveragePool", base := "StandardNode", opName := "AveragePool", domain := "", version := 19,
    inputs := [("X", .single)],
    outputs := [("Y", .single)],
    attrs := [⟨"auto_pad", .string, false⟩, ⟨"ceil_mode", .int, false⟩, ⟨"count_include_pad", .int, false⟩, ⟨"dilations", .ints, true⟩, ⟨"kernel_shape", .ints, false⟩, ⟨"pads", .ints, true⟩, ⟨"strides", .ints, true⟩] }

def cls_Cast : ClassSig :=
  { pyName := "v19._Cast", base := "StandardNode", opName := "Cast", domain := "", version := 19,
    inputs := [("input", .single)],
    outputs := [("output", .single)],
    attrs := [⟨"saturate", .int, false⟩, ⟨"to", .dtype, false⟩] }

def cls_CastLike : ClassSig :=
  { pyName := "v19._CastLike", base := "StandardNode", opName := "CastLike", domain := "", version := 19,
    inputs := [("input", .single), ("target_type", .single)],
    outputs := [("output", .single)],
    attrs := [⟨"saturate", .int, false⟩] }

def cls_Constant : ClassSig :=
  { pyName := "v19._Constant", base := "StandardNode", opName := "Constant", domain := "", version := 19,
    inputs := [],
    outputs := [("output", .single)],
    attrs := [⟨"value", .tensor, true⟩, ⟨"value_float", .float, true⟩, ⟨"value_floats", .floats, true⟩, ⟨"value_int", .int, true⟩, ⟨"value_ints", .ints, true⟩, ⟨"value_string", .string, true⟩, ⟨"value_strings", .strings, true⟩] }

def cls_DeformConv : ClassSig :=
  { pyName := "v19._DeformConv", base := "StandardNode", opName := "DeformConv", domain := "", version := 19,
    inputs := [("X", .single), ("W", .single), ("offset", .single), ("B", .optional), ("mask", .optional)],
    outputs := [("Y", .single)],
    attrs := [⟨"dilations", .ints, true⟩, ⟨"group", .int, false⟩, ⟨"kernel_shape", .ints, true⟩, ⟨"offset_group", .int, false⟩, ⟨"pads", .ints, true⟩, ⟨"strides", .ints, true⟩] }

def cls_DequantizeLinear : ClassSig :=
  { pyName := "v19._DequantizeLinear", base := "StandardNode", opName := "DequantizeLinear", domain := "", version := 19,
    inputs := [("x", .single), ("x_scale", .single), ("x_zero_point", .optional)],
    outputs := [("y", .single)],
    attrs := [⟨"axis", .int, false⟩] }

def cls_Equal : ClassSig :=
  { pyName := "v19._Equal", base := "StandardNode", opName := "Equal", domain := "", version := 19,
    inputs := [("A", .single), ("B", .single)],
    outputs := [("C", .single)],
    attrs := [] }

def cls_Identity : ClassSig :=
  { pyName := "v19._Identity", base := "StandardNode", opName := "Identity", domain := "", version := 19,
    inputs := [("input", .single)],
    outputs := [("output", .single)],
    attrs := [] }

def cls_If : ClassSig :=
  { pyName := "v19._If", base := "StandardNode", opName := "If", domain := "", version := 19,
    inputs := [("cond", .single)],
    outputs := [("outputs", .variadic)],
    attrs := [⟨"else_branch", .graph, false⟩, ⟨"then_branch", .graph, false⟩] }

def cls_Loop : ClassSig :=
  { pyName := "v19._Loop", base := "StandardNode", opName := "Loop", domain := "", version := 19,
    inputs := [("M", .optional), ("cond", .optional), ("v_initial", .variadic)],
    outputs := [("v_final_and_scan_outputs", .variadic)],
    attrs := [⟨"body", .graph, false⟩] }

def cls_Pad : ClassSig :=
  { pyName := "v19._Pad", base := "StandardNode", opName := "Pad", domain := "", version := 19,
    inputs := [("data", .single), ("pads", .single), ("constant_value", .optional), ("axes", .optional)],
    outputs := [("output", .single)],
    attrs := [⟨"mode", .string, false⟩] }

def cls_QuantizeLinear : ClassSig :=
  { pyName := "v19._QuantizeLinear", base := "StandardNode", opName := "QuantizeLinear", domain := "", version := 19,
    inputs := [("x", .single), ("y_scale", .single), ("y_zero_point", .optional)],
    outputs := [("y", .single)],
    attrs := [⟨"axis", .int, false⟩, ⟨"saturate", .int, false⟩] }

def cls_Reshape : ClassSig :=
  { pyName := "v19._Reshape", base := "StandardNode", opName := "Reshape", domain := "", version := 19,
    inputs := [("data", .single), ("shape", .single)],
    outputs := [("reshaped", .single)],
    attrs := [⟨"allowzero", .int, false⟩] }

def cls_Resize : ClassSig :=
  { pyName := "v19._Resize", base := "StandardNode", opName := "Resize", domain := "", version := 19,
    inputs := [("X", .single), ("roi", .optional), ("scales", .optional), ("sizes", .optional)],
    outputs := [("Y", .single)],
    attrs := [⟨"antialias", .int, false⟩, ⟨"axes", .ints, true⟩, ⟨"coordinate_transformation_mode", .string, false⟩, ⟨"cubic_coeff_a", .float, false⟩, ⟨"exclude_outside", .int, false⟩, ⟨"extrapolation_value", .float, false⟩, ⟨"keep_aspect_ratio_policy", .string, false⟩, ⟨"mode", .string, false⟩, ⟨"nearest_mode", .string, false⟩] }

def cls_Scan : ClassSig :=
  { pyName := "v19._Scan", base := "StandardNode", opName := "Scan", domain := "", version := 19,
    inputs := [("initial_state_and_scan_inputs", .variadic)],
    outputs := [("final_state_and_scan_outputs", .variadic)],
    attrs := [⟨"body", .graph, false⟩, ⟨"num_scan_inputs", .int, false⟩, ⟨"scan_input_axes", .ints, true⟩, ⟨"scan_input_directions", .ints, true⟩, ⟨"scan_output_axes", .ints, true⟩, ⟨"scan_output_directions", .ints, true⟩] }

def cls_Shape : ClassSig :=
  { pyName := "v19._Shape", base := "StandardNode", opName := "Shape", domain := "", version := 19,
    inputs := [("data", .single)],
    outputs := [("shape", .single)],
    attrs := [⟨"end", .int, true⟩, ⟨"start", .int, false⟩] }

def cls_Size : ClassSig :=
  { pyName := "v19._Size", base := "StandardNode", opName := "Size", domain := "", version := 19,
    inputs := [("data", .single)],
    outputs := [("size", .single)],
    attrs := [] }

def f_average_pool : Ctor :=
  { pyName := "v19.average_pool", cls := Generated.Ctors.v19.cls_AveragePool,
    params := [⟨"X", false, .var, none⟩, ⟨"auto_pad", true, .attr, some (Val.str "NOTSET")⟩, ⟨"ceil_mode", true, .attr, some (Val.int 0)⟩, ⟨"count_include_pad", true, .attr, some (Val.int 0)⟩, ⟨"dilations", true, .attr, some Val.none⟩, ⟨"kernel_shape", true, .attr, none⟩, ⟨"pads", true, .attr, some Val.none⟩, ⟨"strides", true, .attr, some Val.none⟩],
    attrWires := [⟨"auto_pad", .string, false, "auto_pad", "auto_pad", false⟩, ⟨"ceil_mode", .int, false, "ceil_mode", "ceil_mode", false⟩, ⟨"count_include_pad", .int, false, "count_include_pad", "count_include_pad", false⟩, ⟨"dilations", .ints, true, "dilations", "dilations", false⟩, ⟨"kernel_shape", .ints, false, "kernel_shape", "kernel_shape", false⟩, ⟨"pads", .ints, true, "pads", "pads", false⟩, ⟨"strides", .ints, true, "strides", "strides", false⟩],
    inputWires := [("X", "X")],
    outVar := .none, ret := .field "Y" }

def f_cast : Ctor :=
  { pyName := "v19.cast", cls := Generated.Ctors.v19.cls_Cast,
    params := [⟨"input", false, .var, none⟩, ⟨"saturate", true, .attr, some (Val.int 1)⟩, ⟨"to", true, .attr, none⟩],
    attrWires := [⟨"saturate", .int, false, "saturate", "saturate", false⟩, ⟨"to", .dtype, false, "to", "to", false⟩],
    inputWires := [("input", "input")],
    outVar := .none, ret := .field "output" }

def f_cast_like : Ctor :=
  { pyName := "v19.cast_like", cls := Generated.Ctors.v19.cls_CastLike,
    params := [⟨"input", false, .var, none⟩, ⟨"target_type", false, .var, none⟩, ⟨"saturate", true, .attr, some (Val.int 1)⟩],
    attrWires := [⟨"saturate", .int, false, "saturate", "saturate", false⟩],
    inputWires := [("input", "input"), ("target_type", "target_type")],
    outVar := .none, ret := .field "output" }

def f_constant : Ctor :=
  { pyName := "v19.constant", cls := Generated.Ctors.v19.cls_Constant,
    params := [⟨"value", true, .attr, some Val.none⟩, ⟨"value_float", true, .attr, some Val.none⟩, ⟨"value_floats", true, .attr, some Val.none⟩, ⟨"value_int", true, .attr, some Val.none⟩, ⟨"value_ints", true, .attr, some Val.none⟩, ⟨"value_string", true, .attr, some Val.none⟩, ⟨"value_strings", true, .attr, some Val.none⟩],
    attrWires := [⟨"value", .tensor, true, "value", "value", false⟩, ⟨"value_float", .float, true, "value_float", "value_float", false⟩, ⟨"value_floats", .floats, true, "value_floats", "value_floats", false⟩, ⟨"value_int", .int, true, "value_int", "value_int", false⟩, ⟨"value_ints", .ints, true, "value_ints", "value_ints", false⟩, ⟨"value_string", .string, true, "value_string", "value_string", false⟩, ⟨"value_strings", .strings, true, "value_strings", "value_strings", false⟩],
    inputWires := [],
    outVar := .none, ret := .field "output" }

def f_deform_conv : Ctor :=
  { pyName := "v19.deform_conv", cls := Generated.Ctors.v19.cls_DeformConv,
    params := [⟨"X", false, .var, none⟩, ⟨"W", false, .var, none⟩, ⟨"offset", false, .var, none⟩, ⟨"B", false, .optVar, some Val.none⟩, ⟨"mask", false, .optVar, some Val.none⟩, ⟨"dilations", true, .attr, some Val.none⟩, ⟨"group", true, .attr, some (Val.int 1)⟩, ⟨"kernel_shape", true, .attr, some Val.none⟩, ⟨"offset_group", true, .attr, some (Val.int 1)⟩, ⟨"pads", true, .attr, some Val.none⟩, ⟨"strides", true, .attr, some Val.none⟩],
    attrWires := [⟨"dilations", .ints, true, "dilations", "dilations", false⟩, ⟨"group", .int, false, "group", "group", false⟩, ⟨"kernel_shape", .ints, true, "kernel_shape", "kernel_shape", false⟩, ⟨"offset_group", .int, false, "offset_group", "offset_group", false⟩, ⟨"pads", .ints, true, "pads", "pads", false⟩, ⟨"strides", .ints, true, "strides", "strides", false⟩],
    inputWires := [("X", "X"), ("W", "W"), ("offset", "offset"), ("B", "B"), ("mask", "mask")],
    outVar := .none, ret := .field "Y" }

def f_dequantize_linear : Ctor :=
  { pyName := "v19.dequantize_linear", cls := Generated.Ctors.v19.cls_DequantizeLinear,
    params := [⟨"x", false, .var, none⟩, ⟨"x_scale", false, .var, none⟩, ⟨"x_zero_point", false, .optVar, some Val.none⟩, ⟨"axis", true, .attr, some (Val.int 1)⟩],
    attrWires := [⟨"axis", .int, false, "axis", "axis", false⟩],
    inputWires := [("x", "x"), ("x_scale", "x_scale"), ("x_zero_point", "x_zero_point")],
    outVar := .none, ret := .field "y" }

def f_equal : Ctor :=
  { pyName := "v19.equal", cls := Generated.Ctors.v19.cls_Equal,
    params := [⟨"A", false, .var, none⟩, ⟨"B", false, .var, none⟩],
    attrWires := [],
    inputWires := [("A", "A"), ("B", "B")],
    outVar := .none, ret := .field "C" }

def f_identity : Ctor :=
  { pyName := "v19.identity", cls := Generated.Ctors.v19.cls_Identity,
    params := [⟨"input", false, .var, none⟩],
    attrWires := [],
    inputWires := [("input", "input")],
    outVar := .none, ret := .field "output" }

def f_if_ : Ctor :=
  { pyName := "v19.if_", cls := Generated.Ctors.v19.cls_If,
    params := [⟨"cond", false, .var, none⟩, ⟨"else_branch", true, .callback, none⟩, ⟨"then_branch", true, .callback, none⟩],
    attrWires := [⟨"else_branch", .graph, false, "else_branch", "else_branch", true⟩, ⟨"then_branch", .graph, false, "then_branch", "then_branch", true⟩],
    inputWires := [("cond", "cond")],
    outVar := .lenResults "else_branch" 0, ret := .field "outputs" }

def f_loop : Ctor :=
  { pyName := "v19.loop", cls := Generated.Ctors.v19.cls_Loop,
    params := [⟨"M", false, .optVar, some Val.none⟩, ⟨"cond", false, .optVar, some Val.none⟩, ⟨"v_initial", false, .seqVar, some (Val.other "()")⟩, ⟨"body", true, .callback, none⟩],
    attrWires := [⟨"body", .graph, false, "body", "body", true⟩],
    inputWires := [("M", "M"), ("cond", "cond"), ("v_initial", "v_initial")],
    outVar := .lenResults "body" 1, ret := .field "v_final_and_scan_outputs" }

def f_pad : Ctor :=
  { pyName := "v19.pad", cls := Generated.Ctors.v19.cls_Pad,
    params := [⟨"data", false, .var, none⟩, ⟨"pads", false, .var, none⟩, ⟨"constant_value", false, .optVar, some Val.none⟩, ⟨"axes", false, .optVar, some Val.none⟩, ⟨"mode", true, .attr, some (Val.str "constant")⟩],
    attrWires := [⟨"mode", .string, false, "mode", "mode", false⟩],
    inputWires := [("data", "data"), ("pads", "pads"), ("constant_value", "constant_value"), ("axes", "axes")],
    outVar := .none, ret := .field "output" }

def f_quantize_linear : Ctor :=
  { pyName := "v19.quantize_linear", cls := Generated.Ctors.v19.cls_QuantizeLinear,
    params := [⟨"x", false, .var, none⟩, ⟨"y_scale", false, .var, none⟩, ⟨"y_zero_point", false, .optVar, some Val.none⟩, ⟨"axis", true, .attr, some (Val.int 1)⟩, ⟨"saturate", true, .attr, some (Val.int 1)⟩],
    attrWires := [⟨"axis", .int, false, "axis", "axis", false⟩, ⟨"saturate", .int, false, "saturate", "saturate", false⟩],
    inputWires := [("x", "x"), ("y_scale", "y_scale"), ("y_zero_point", "y_zero_point")],
    outVar := .none, ret := .field "y" }

def f_reshape : Ctor :=
  { pyName := "v19.reshape", cls := Generated.Ctors.v19.cls_Reshape,
    params := [⟨"data", false, .var, none⟩, ⟨"shape", false, .var, none⟩, ⟨"allowzero", true, .attr, some (Val.int 0)⟩],
    attrWires := [⟨"allowzero", .int, false, "allowzero", "allowzero", false⟩],
    inputWires := [("data", "data"), ("shape", "shape")],
    outVar := .none, ret := .field "reshaped" }

def f_resize : Ctor :=
  { pyName := "v19.resize", cls := Generated.Ctors.v19.cls_Resize,
    params := [⟨"X", false, .var, none⟩, ⟨"roi", false, .optVar, some Val.none⟩, ⟨"scales", false, .optVar, some Val.none⟩, ⟨"sizes", false, .optVar, some Val.none⟩, ⟨"antialias", true, .attr, some (Val.int 0)⟩, ⟨"axes", true, .attr, some Val.none⟩, ⟨"coordinate_transformation_mode", true, .attr, some (Val.str "half_pixel")⟩, ⟨"cubic_coeff_a", true, .attr, some (Val.float 3208642560)⟩, ⟨"exclude_outside", true, .attr, some (Val.int 0)⟩, ⟨"extrapolation_value", true, .attr, some (Val.float 0)⟩, ⟨"keep_aspect_ratio_policy", true, .attr, some (Val.str "stretch")⟩, ⟨"mode", true, .attr, some (Val.str "nearest")⟩, ⟨"nearest_mode", true, .attr, some (Val.str "round_prefer_floor")⟩],
    attrWires := [⟨"antialias", .int, false, "antialias", "antialias", false⟩, ⟨"axes", .ints, true, "axes", "axes", false⟩, ⟨"coordinate_transformation_mode", .string, false, "coordinate_transformation_mode", "coordinate_transformation_mode", false⟩, ⟨"cubic_coeff_a", .float, false, "cubic_coeff_a", "cubic_coeff_a", false⟩, ⟨"exclude_outside", .int, false, "exclude_outside", "exclude_outside", false⟩, ⟨"extrapolation_value", .float, false, "extrapolation_value", "extrapolation_value", false⟩, ⟨"keep_aspect_ratio_policy", .string, false, "keep_aspect_ratio_policy", "keep_aspect_ratio_policy", false⟩, ⟨"mode", .string, false, "mode", "mode", false⟩, ⟨"nearest_mode", .string, false, "nearest_mode", "nearest_mode", false⟩],
    inputWires := [("X", "X"), ("roi", "roi"), ("scales", "scales"), ("sizes", "sizes")],
    outVar := .none, ret := .field "Y" }

def f_scan : Ctor :=
  { pyName := "v19.scan", cls := Generated.Ctors.v19.cls_Scan,
    params := [⟨"initial_state_and_scan_inputs", false, .seqVar, none⟩, ⟨"body", true, .callback, none⟩, ⟨"num_scan_inputs", true, .attr, none⟩, ⟨"scan_input_axes", true, .attr, some Val.none⟩, ⟨"scan_input_directions", true, .attr, some Val.none⟩, ⟨"scan_output_axes", true, .attr, some Val.none⟩, ⟨"scan_output_directions", true, .attr, some Val.none⟩],
    attrWires := [⟨"body", .graph, false, "body", "body", true⟩, ⟨"num_scan_inputs", .int, false, "num_scan_inputs", "num_scan_inputs", false⟩, ⟨"scan_input_axes", .ints, true, "scan_input_axes", "scan_input_axes", false⟩, ⟨"scan_input_directions", .ints, true, "scan_input_directions", "scan_input_directions", false⟩, ⟨"scan_output_axes", .ints, true, "scan_output_axes", "scan_output_axes", false⟩, ⟨"scan_output_directions", .ints, true, "scan_output_directions", "scan_output_directions", false⟩],
    inputWires := [("initial_state_and_scan_inputs", "initial_state_and_scan_inputs")],
    outVar := .lenResults "body" 0, ret := .field "final_state_and_scan_outputs" }

def f_shape : Ctor :=
  { pyName := "v19.shape", cls := Generated.Ctors.v19.cls_Shape,
    params := [⟨"data", false, .var, none⟩, ⟨"end", true, .attr, some Val.none⟩, ⟨"start", true, .attr, some (Val.int 0)⟩],
    attrWires := [⟨"end", .int, true, "end", "end", false⟩, ⟨"start", .int, false, "start", "start", false⟩],
    inputWires := [("data", "data")],
    outVar := .none, ret := .field "shape" }

def f_size : Ctor :=
  { pyName := "v19.size", cls := Generated.Ctors.v19.cls_Size,
    params := [⟨"data", false, .var, none⟩],
    attrWires := [],
    inputWires := [("data", "data")],
    outVar := .none, ret := .field "size" }

end Generated.Ctors.v19
