-- GENERATED from src/spox/opset/ai/onnx/v18.py by translator/constructors.py on every run; do not edit.
import SpoxModel.Model.Conform
import SpoxModel.Generated.Constructors_v17
namespace Generated.Ctors.v18
open Conform

def cls_BitwiseAnd : ClassSig :=
  { pyName := "v18._BitwiseAnd", base := "StandardNode", opName := "BitwiseAnd", domain := "", version := 18,
    inputs := [("A", .single), ("B", .single)],
    outputs := [("C", .single)],
    attrs := [] }

def cls_BitwiseNot : ClassSig :=
  { pyName := "v18._BitwiseNot", base := "StandardNode", opName := "BitwiseNot", domain := "", version := 18,
    inputs := [("X", .single)],
    outputs := [("Y", .single)],
    attrs := [] }

def cls_BitwiseOr : ClassSig :=
  { pyName := "v18._BitwiseOr", base := "StandardNode", opName := "BitwiseOr", domain := "", version := 18,
    inputs := [("A", .single), ("B", .single)],
    outputs := [("C", .single)],
    attrs := [] }

def cls_BitwiseXor : ClassSig :=
  { pyName := "v18._BitwiseXor", base := "StandardNode", opName := "BitwiseXor", domain := "", version := 18,
    inputs := [("A", .single), ("B", .single)],
    outputs := [("C", .single)],
    attrs := [] }

def cls_CenterCropPad : ClassSig :=
  { pyName := "v18._CenterCropPad", base := "StandardNode", opName := "CenterCropPad", domain := "", version := 18,
    inputs := [("input_data", .single), ("shape", .single)],
    outputs := [("output_data", .single)],
    attrs := [⟨"axes", .ints, true⟩] }

def cls_Col2Im : ClassSig :=
  { pyName := "v18._Col2Im", base := "StandardNode", opName := "Col2Im", domain := "", version := 18,
    inputs := [("input", .single), ("image_shape", .single), ("block_shape", .single)],
    outputs := [("output", .single)],
    attrs := [⟨"dilations", .ints, true⟩, ⟨"pads", .ints, true⟩, ⟨"strides", .ints, true⟩] }

def cls_GroupNormalization : ClassSig :=
  { pyName := "v18._GroupNormalization", base := "StandardNode", opName := "GroupNormalization", domain := "", version := 18,
    inputs := [("X", .single), ("scale", .single), ("bias", .single)],
    outputs := [("Y", .single)],
    attrs := [⟨"epsilon", .float, false⟩, ⟨"num_groups", .int, false⟩] }

def cls_LpPool : ClassSig :=
  { pyName := "v18._LpPool", base := "StandardNode", opName := "LpPool", domain := "", version := 18,
    inputs := [("X", .single)],
    outputs := [("Y", .single)],
    attrs := [⟨"auto_pad", .string, false⟩, ⟨"ceil_mode", .int, false⟩, ⟨"dilations", .ints, true⟩, ⟨"kernel_shape", .ints, false⟩, ⟨"p", .int, false⟩, ⟨"pads", .ints, true⟩, ⟨"strides", .ints, true⟩] }

def cls_Mish : ClassSig :=
  { pyName := "v18._Mish", base := "StandardNode", opName := "Mish", domain := "", version := 18,
    inputs := [("X", .single)],
    outputs := [("Y", .single)],
    attrs := [] }

def cls_OptionalGetElement : ClassSig :=
  { pyName := "v18._OptionalGetElement", base := "StandardNode", opName := "OptionalGetElement", domain := "", version := 18,
    inputs := [("input", .single)],
    outputs := [("output", .single)],
    attrs := [] }

def cls_OptionalHasElement : ClassSig :=
  { pyName := "v18._OptionalHasElement", base := "StandardNode", opName := "OptionalHasElement", domain := "", version := 18,
    inputs := [("input", .optional)],
    outputs := [("output", .single)],
    attrs := [] }

def cls_Pad : ClassSig :=
  { pyName := "v18._Pad", base := "StandardNode", opName := "Pad", domain := "", version := 18,
    inputs := [("data", .single), ("pads", .single), ("constant_value", .optional), ("axes", .optional)],
    outputs := [("output", .single)],
    attrs := [⟨"mode", .string, false⟩] }

def cls_ReduceL1 : ClassSig :=
  { pyName := "v18._ReduceL1", base := "StandardNode", opName := "ReduceL1", domain := "", version := 18,
    inputs := [("data", .single), ("axes", .optional)],
    outputs := [("reduced", .single)],
    attrs := [⟨"keepdims", .int, false⟩, ⟨"noop_with_empty_axes", .int, false⟩] }

def cls_ReduceL2 : ClassSig :=
  { pyName := "v18._ReduceL2", base := "StandardNode", opName := "ReduceL2", domain := "", version := 18,
    inputs := [("data", .single), ("axes", .optional)],
    outputs := [("reduced", .single)],
    attrs := [⟨"keepdims", .int, false⟩, ⟨"noop_with_empty_axes", .int, false⟩] }

def cls_ReduceLogSum : ClassSig :=
  { pyName := "v18._ReduceLogSum", base := "StandardNode", opName := "ReduceLogSum", domain := "", version := 18,
    inputs := [("data", .single), ("axes", .optional)],
    outputs := [("reduced", .single)],
    attrs := [⟨"keepdims", .int, false⟩, ⟨"noop_with_empty_axes", .int, false⟩] }

def cls_ReduceLogSumExp : ClassSig :=
  { pyName := "v18._ReduceLogSumExp", base := "StandardNode", opName := "ReduceLogSumExp", domain := "", version := 18,
    inputs := [("data", .single), ("axes", .optional)],
    outputs := [("reduced", .single)],
    attrs := [⟨"keepdims", .int, false⟩, ⟨"noop_with_empty_axes", .int, false⟩] }

def cls_ReduceMax : ClassSig :=
  { pyName := "v18._ReduceMax", base := "StandardNode", opName := "ReduceMax", domain := "", version := 18,
    inputs := [("data", .single), ("axes", .optional)],
    outputs := [("reduced", .single)],
    attrs := [⟨"keepdims", .int, false⟩, ⟨"noop_with_empty_axes", .int, false⟩] }

def cls_ReduceMean : ClassSig :=
  { pyName := "v18._ReduceMean", base := "StandardNode", opName := "ReduceMean", domain := "", version := 18,
    inputs := [("data", .single), ("axes", .optional)],
    outputs := [("reduced", .single)],
    attrs := [⟨"keepdims", .int, false⟩, ⟨"noop_with_empty_axes", .int, false⟩] }

def cls_ReduceMin : ClassSig :=
  { pyName := "v18._ReduceMin", base := "StandardNode", opName := "ReduceMin", domain := "", version := 18,
    inputs := [("data", .single), ("axes", .optional)],
    outputs := [("reduced", .single)],
    attrs := [⟨"keepdims", .int, false⟩, ⟨"noop_with_empty_axes", .int, false⟩] }

def cls_ReduceProd : ClassSig :=
  { pyName := "v18._ReduceProd", base := "StandardNode", opName := "ReduceProd", domain := "", version := 18,
    inputs := [("data", .single), ("axes", .optional)],
    outputs := [("reduced", .single)],
    attrs := [⟨"keepdims", .int, false⟩, ⟨"noop_with_empty_axes", .int, false⟩] }

def cls_ReduceSumSquare : ClassSig :=
  { pyName := "v18._ReduceSumSquare", base := "StandardNode", opName := "ReduceSumSquare", domain := "", version := 18,
    inputs := [("data", .single), ("axes", .optional)],
    outputs := [("reduced", .single)],
    attrs := [⟨"keepdims", .int, false⟩, ⟨"noop_with_empty_axes", .int, false⟩] }

def cls_Resize : ClassSig :=
  { pyName := "v18._Resize", base := "StandardNode", opName := "Resize", domain := "", version := 18,
    inputs := [("X", .single), ("roi", .optional), ("scales", .optional), ("sizes", .optional)],
    outputs := [("Y", .single)],
    attrs := [⟨"antialias", .int, false⟩, ⟨"axes", .ints, true⟩, ⟨"coordinate_transformation_mode", .string, false⟩, ⟨"cubic_coeff_a", .float, false⟩, ⟨"exclude_outside", .int, false⟩, ⟨"extrapolation_value", .float, false⟩, ⟨"keep_aspect_ratio_policy", .string, false⟩, ⟨"mode", .string, false⟩, ⟨"nearest_mode", .string, false⟩] }

def cls_ScatterElements : ClassSig :=
  { pyName := "v18._ScatterElements", base := "StandardNode", opName := "ScatterElements", domain := "", version := 18,
    inputs := [("data", .single), ("indices", .single), ("updates", .single)],
    outputs := [("output", .single)],
    attrs := [⟨"axis", .int, false⟩, ⟨"reduction", .string, false⟩] }

def cls_ScatterND : ClassSig :=
  { pyName := "v18._ScatterND", base := "StandardNode", opName := "ScatterND", domain := "", version := 18,
    inputs := [("data", .single), ("indices", .single), ("updates", .single)],
    outputs := [("output", .single)],
    attrs := [⟨"reduction", .string, false⟩] }

def cls_Split : ClassSig :=
  { pyName := "v18._Split", base := "StandardNode", opName := "Split", domain := "", version := 18,
    inputs := [("input", .single), ("split", .optional)],
    outputs := [("outputs", .variadic)],
    attrs := [⟨"axis", .int, false⟩, ⟨"num_outputs", .int, true⟩] }

def f_bitwise_and : Ctor :=
  { pyName := "v18.bitwise_and", cls := Generated.Ctors.v18.cls_BitwiseAnd,
    params := [⟨"A", false, .var, none⟩, ⟨"B", false, .var, none⟩],
    attrWires := [],
    inputWires := [("A", "A"), ("B", "B")],
    outVar := .none, ret := .field "C" }

def f_bitwise_not : Ctor :=
  { pyName := "v18.bitwise_not", cls := Generated.Ctors.v18.cls_BitwiseNot,
    params := [⟨"X", false, .var, none⟩],
    attrWires := [],
    inputWires := [("X", "X")],
    outVar := .none, ret := .field "Y" }

def f_bitwise_or : Ctor :=
  { pyName := "v18.bitwise_or", cls := Generated.Ctors.v18.cls_BitwiseOr,
    params := [⟨"A", false, .var, none⟩, ⟨"B", false, .var, none⟩],
    attrWires := [],
    inputWires := [("A", "A"), ("B", "B")],
    outVar := .none, ret := .field "C" }

def f_bitwise_xor : Ctor :=
  { pyName := "v18.bitwise_xor", cls := Generated.Ctors.v18.cls_BitwiseXor,
    params := [⟨"A", false, .var, none⟩, ⟨"B", false, .var, none⟩],
    attrWires := [],
    inputWires := [("A", "A"), ("B", "B")],
    outVar := .none, ret := .field "C" }

def f_center_crop_pad : Ctor :=
  { pyName := "v18.center_crop_pad", cls := Generated.Ctors.v18.cls_CenterCropPad,
    params := [⟨"input_data", false, .var, none⟩, ⟨"shape", false, .var, none⟩, ⟨"axes", true, .attr, some Val.none⟩],
    attrWires := [⟨"axes", .ints, true, "axes", "axes", false⟩],
    inputWires := [("input_data", "input_data"), ("shape", "shape")],
    outVar := .none, ret := .field "output_data" }

def f_col2_im : Ctor :=
  { pyName := "v18.col2_im", cls := Generated.Ctors.v18.cls_Col2Im,
    params := [⟨"input", false, .var, none⟩, ⟨"image_shape", false, .var, none⟩, ⟨"block_shape", false, .var, none⟩, ⟨"dilations", true, .attr, some Val.none⟩, ⟨"pads", true, .attr, some Val.none⟩, ⟨"strides", true, .attr, some Val.none⟩],
    attrWires := [⟨"dilations", .ints, true, "dilations", "dilations", false⟩, ⟨"pads", .ints, true, "pads", "pads", false⟩, ⟨"strides", .ints, true, "strides", "strides", false⟩],
    inputWires := [("input", "input"), ("image_shape", "image_shape"), ("block_shape", "block_shape")],
    outVar := .none, ret := .field "output" }

def f_group_normalization : Ctor :=
  { pyName := "v18.group_normalization", cls := Generated.Ctors.v18.cls_GroupNormalization,
    params := [⟨"X", false, .var, none⟩, ⟨"scale", false, .var, none⟩, ⟨"bias", false, .var, none⟩, ⟨"epsilon", true, .attr, some (Val.float 925353388)⟩, ⟨"num_groups", true, .attr, none⟩],
    attrWires := [⟨"epsilon", .float, false, "epsilon", "epsilon", false⟩, ⟨"num_groups", .int, false, "num_groups", "num_groups", false⟩],
    inputWires := [("X", "X"), ("scale", "scale"), ("bias", "bias")],
    outVar := .none, ret := .field "Y" }

def f_lp_pool : Ctor :=
  { pyName := "v18.lp_pool", cls := Generated.Ctors.v18.cls_LpPool,
    params := [⟨"X", false, .var, none⟩, ⟨"auto_pad", true, .attr, some (Val.str "NOTSET")⟩, ⟨"ceil_mode", true, .attr, some (Val.int 0)⟩, ⟨"dilations", true, .attr, some Val.none⟩, ⟨"kernel_shape", true, .attr, none⟩, ⟨"p", true, .attr, some (Val.int 2)⟩, ⟨"pads", true, .attr, some Val.none⟩, ⟨"strides", true, .attr, some Val.none⟩],
    attrWires := [⟨"auto_pad", .string, false, "auto_pad", "auto_pad", false⟩, ⟨"ceil_mode", .int, false, "ceil_mode", "ceil_mode", false⟩, ⟨"dilations", .ints, true, "dilations", "dilations", false⟩, ⟨"kernel_shape", .ints, false, "kernel_shape", "kernel_shape", false⟩, ⟨"p", .int, false, "p", "p", false⟩, ⟨"pads", .ints, true, "pads", "pads", false⟩, ⟨"strides", .ints, true, "strides", "strides", false⟩],
    inputWires := [("X", "X")],
    outVar := .none, ret := .field "Y" }

def f_mish : Ctor :=
  { pyName := "v18.mish", cls := Generated.Ctors.v18.cls_Mish,
    params := [⟨"X", false, .var, none⟩],
    attrWires := [],
    inputWires := [("X", "X")],
    outVar := .none, ret := .field "Y" }

def f_optional_get_element : Ctor :=
  { pyName := "v18.optional_get_element", cls := Generated.Ctors.v18.cls_OptionalGetElement,
    params := [⟨"input", false, .var, none⟩],
    attrWires := [],
    inputWires := [("input", "input")],
    outVar := .none, ret := .field "output" }

def f_optional_has_element : Ctor :=
  { pyName := "v18.optional_has_element", cls := Generated.Ctors.v18.cls_OptionalHasElement,
    params := [⟨"input", false, .optVar, some Val.none⟩],
    attrWires := [],
    inputWires := [("input", "input")],
    outVar := .none, ret := .field "output" }

def f_pad : Ctor :=
  { pyName := "v18.pad", cls := Generated.Ctors.v18.cls_Pad,
    params := [⟨"data", false, .var, none⟩, ⟨"pads", false, .var, none⟩, ⟨"constant_value", false, .optVar, some Val.none⟩, ⟨"axes", false, .optVar, some Val.none⟩, ⟨"mode", true, .attr, some (Val.str "constant")⟩],
    attrWires := [⟨"mode", .string, false, "mode", "mode", false⟩],
    inputWires := [("data", "data"), ("pads", "pads"), ("constant_value", "constant_value"), ("axes", "axes")],
    outVar := .none, ret := .field "output" }

def f_reduce_l1 : Ctor :=
  { pyName := "v18.reduce_l1", cls := Generated.Ctors.v18.cls_ReduceL1,
    params := [⟨"data", false, .var, none⟩, ⟨"axes", false, .optVar, some Val.none⟩, ⟨"keepdims", true, .attr, some (Val.int 1)⟩, ⟨"noop_with_empty_axes", true, .attr, some (Val.int 0)⟩],
    attrWires := [⟨"keepdims", .int, false, "keepdims", "keepdims", false⟩, ⟨"noop_with_empty_axes", .int, false, "noop_with_empty_axes", "noop_with_empty_axes", false⟩],
    inputWires := [("data", "data"), ("axes", "axes")],
    outVar := .none, ret := .field "reduced" }

def f_reduce_l2 : Ctor :=
  { pyName := "v18.reduce_l2", cls := Generated.Ctors.v18.cls_ReduceL2,
    params := [⟨"data", false, .var, none⟩, ⟨"axes", false, .optVar, some Val.none⟩, ⟨"keepdims", true, .attr, some (Val.int 1)⟩, ⟨"noop_with_empty_axes", true, .attr, some (Val.int 0)⟩],
    attrWires := [⟨"keepdims", .int, false, "keepdims", "keepdims", false⟩, ⟨"noop_with_empty_axes", .int, false, "noop_with_empty_axes", "noop_with_empty_axes", false⟩],
    inputWires := [("data", "data"), ("axes", "axes")],
    outVar := .none, ret := .field "reduced" }

def f_reduce_log_sum : Ctor :=
  { pyName := "v18.reduce_log_sum", cls := Generated.Ctors.v18.cls_ReduceLogSum,
    params := [⟨"data", false, .var, none⟩, ⟨"axes", false, .optVar, some Val.none⟩, ⟨"keepdims", true, .attr, some (Val.int 1)⟩, ⟨"noop_with_empty_axes", true, .attr, some (Val.int 0)⟩],
    attrWires := [⟨"keepdims", .int, false, "keepdims", "keepdims", false⟩, ⟨"noop_with_empty_axes", .int, false, "noop_with_empty_axes", "noop_with_empty_axes", false⟩],
    inputWires := [("data", "data"), ("axes", "axes")],
    outVar := .none, ret := .field "reduced" }

def f_reduce_log_sum_exp : Ctor :=
  { pyName := "v18.reduce_log_sum_exp", cls := Generated.Ctors.v18.cls_ReduceLogSumExp,
    params := [⟨"data", false, .var, none⟩, ⟨"axes", false, .optVar, some Val.none⟩, ⟨"keepdims", true, .attr, some (Val.int 1)⟩, ⟨"noop_with_empty_axes", true, .attr, some (Val.int 0)⟩],
    attrWires := [⟨"keepdims", .int, false, "keepdims", "keepdims", false⟩, ⟨"noop_with_empty_axes", .int, false, "noop_with_empty_axes", "noop_with_empty_axes", false⟩],
    inputWires := [("data", "data"), ("axes", "axes")],
    outVar := .none, ret := .field "reduced" }

def f_reduce_max : Ctor :=
  { pyName := "v18.reduce_max", cls := Generated.Ctors.v18.cls_ReduceMax,
    params := [⟨"data", false, .var, none⟩, ⟨"axes", false, .optVar, some Val.none⟩, ⟨"keepdims", true, .attr, some (Val.int 1)⟩, ⟨"noop_with_empty_axes", true, .attr, some (Val.int 0)⟩],
    attrWires := [⟨"keepdims", .int, false, "keepdims", "keepdims", false⟩, ⟨"noop_with_empty_axes", .int, false, "noop_with_empty_axes", "noop_with_empty_axes", false⟩],
    inputWires := [("data", "data"), ("axes", "axes")],
    outVar := .none, ret := .field "reduced" }

def f_reduce_mean : Ctor :=
  { pyName := "v18.reduce_mean", cls := Generated.Ctors.v18.cls_ReduceMean,
    params := [⟨"data", false, .var, none⟩, ⟨"axes", false, .optVar, some Val.none⟩, ⟨"keepdims", true, .attr, some (Val.int 1)⟩, ⟨"noop_with_empty_axes", true, .attr, some (Val.int 0)⟩],
    attrWires := [⟨"keepdims", .int, false, "keepdims", "keepdims", false⟩, ⟨"noop_with_empty_axes", .int, false, "noop_with_empty_axes", "noop_with_empty_axes", false⟩],
    inputWires := [("data", "data"), ("axes", "axes")],
    outVar := .none, ret := .field "reduced" }

def f_reduce_min : Ctor :=
  { pyName := "v18.reduce_min", cls := Generated.Ctors.v18.cls_ReduceMin,
    params := [⟨"data", false, .var, none⟩, ⟨"axes", false, .optVar, some Val.none⟩, ⟨"keepdims", true, .attr, some (Val.int 1)⟩, ⟨"noop_with_empty_axes", true, .attr, some (Val.int 0)⟩],
    attrWires := [⟨"keepdims", .int, false, "keepdims", "keepdims", false⟩, ⟨"noop_with_empty_axes", .int, false, "noop_with_empty_axes", "noop_with_empty_axes", false⟩],
    inputWires := [("data", "data"), ("axes", "axes")],
    outVar := .none, ret := .field "reduced" }

def f_reduce_prod : Ctor :=
  { pyName := "v18.reduce_prod", cls := Generated.Ctors.v18.cls_ReduceProd,
    params := [⟨"data", false, .var, none⟩, ⟨"axes", false, .optVar, some Val.none⟩, ⟨"keepdims", true, .attr, some (Val.int 1)⟩, ⟨"noop_with_empty_axes", true, .attr, some (Val.int 0)⟩],
    attrWires := [⟨"keepdims", .int, false, "keepdims", "keepdims", false⟩, ⟨"noop_with_empty_axes", .int, false, "noop_with_empty_axes", "noop_with_empty_axes", false⟩],
    inputWires := [("data", "data"), ("axes", "axes")],
    outVar := .none, ret := .field "reduced" }

def f_reduce_sum_square : Ctor :=
  { pyName := "v18.reduce_sum_square", cls := Generated.Ctors.v18.cls_ReduceSumSquare,
    params := [⟨"data", false, .var, none⟩, ⟨"axes", false, .optVar, some Val.none⟩, ⟨"keepdims", true, .attr, some (Val.int 1)⟩, ⟨"noop_with_empty_axes", true, .attr, some (Val.int 0)⟩],
    attrWires := [⟨"keepdims", .int, false, "keepdims", "keepdims", false⟩, ⟨"noop_with_empty_axes", .int, false, "noop_with_empty_axes", "noop_with_empty_axes", false⟩],
    inputWires := [("data", "data"), ("axes", "axes")],
    outVar := .none, ret := .field "reduced" }

def f_resize : Ctor :=
  { pyName := "v18.resize", cls := Generated.Ctors.v18.cls_Resize,
    params := [⟨"X", false, .var, none⟩, ⟨"roi", false, .optVar, some Val.none⟩, ⟨"scales", false, .optVar, some Val.none⟩, ⟨"sizes", false, .optVar, some Val.none⟩, ⟨"antialias", true, .attr, some (Val.int 0)⟩, ⟨"axes", true, .attr, some Val.none⟩, ⟨"coordinate_transformation_mode", true, .attr, some (Val.str "half_pixel")⟩, ⟨"cubic_coeff_a", true, .attr, some (Val.float 3208642560)⟩, ⟨"exclude_outside", true, .attr, some (Val.int 0)⟩, ⟨"extrapolation_value", true, .attr, some (Val.float 0)⟩, ⟨"keep_aspect_ratio_policy", true, .attr, some (Val.str "stretch")⟩, ⟨"mode", true, .attr, some (Val.str "nearest")⟩, ⟨"nearest_mode", true, .attr, some (Val.str "round_prefer_floor")⟩],
    attrWires := [⟨"antialias", .int, false, "antialias", "antialias", false⟩, ⟨"axes", .ints, true, "axes", "axes", false⟩, ⟨"coordinate_transformation_mode", .string, false, "coordinate_transformation_mode", "coordinate_transformation_mode", false⟩, ⟨"cubic_coeff_a", .float, false, "cubic_coeff_a", "cubic_coeff_a", false⟩, ⟨"exclude_outside", .int, false, "exclude_outside", "exclude_outside", false⟩, ⟨"extrapolation_value", .float, false, "extrapolation_value", "extrapolation_value", false⟩, ⟨"keep_aspect_ratio_policy", .string, false, "keep_aspect_ratio_policy", "keep_aspect_ratio_policy", false⟩, ⟨"mode", .string, false, "mode", "mode", false⟩, ⟨"nearest_mode", .string, false, "nearest_mode", "nearest_mode", false⟩],
    inputWires := [("X", "X"), ("roi", "roi"), ("scales", "scales"), ("sizes", "sizes")],
    outVar := .none, ret := .field "Y" }

def f_scatter_elements : Ctor :=
  { pyName := "v18.scatter_elements", cls := Generated.Ctors.v18.cls_ScatterElements,
    params := [⟨"data", false, .var, none⟩, ⟨"indices", false, .var, none⟩, ⟨"updates", false, .var, none⟩, ⟨"axis", true, .attr, some (Val.int 0)⟩, ⟨"reduction", true, .attr, some (Val.str "none")⟩],
    attrWires := [⟨"axis", .int, false, "axis", "axis", false⟩, ⟨"reduction", .string, false, "reduction", "reduction", false⟩],
    inputWires := [("data", "data"), ("indices", "indices"), ("updates", "updates")],
    outVar := .none, ret := .field "output" }

def f_scatter_nd : Ctor :=
  { pyName := "v18.scatter_nd", cls := Generated.Ctors.v18.cls_ScatterND,
    params := [⟨"data", false, .var, none⟩, ⟨"indices", false, .var, none⟩, ⟨"updates", false, .var, none⟩, ⟨"reduction", true, .attr, some (Val.str "none")⟩],
    attrWires := [⟨"reduction", .string, false, "reduction", "reduction", false⟩],
    inputWires := [("data", "data"), ("indices", "indices"), ("updates", "updates")],
    outVar := .none, ret := .field "output" }

def f_split : Ctor :=
  { pyName := "v18.split", cls := Generated.Ctors.v18.cls_Split,
    params := [⟨"input", false, .var, none⟩, ⟨"split", false, .optVar, some Val.none⟩, ⟨"axis", true, .attr, some (Val.int 0)⟩, ⟨"num_outputs", true, .attr, some Val.none⟩],
    attrWires := [⟨"axis", .int, false, "axis", "axis", false⟩, ⟨"num_outputs", .int, true, "num_outputs", "num_outputs", false⟩],
    inputWires := [("input", "input"), ("split", "split")],
    outVar := .param "num_outputs", ret := .field "outputs" }

end Generated.Ctors.v18
