-- GENERATED from src/spox/opset/ai/onnx/ml/v3.py by translator/constructors.py on every run; do not edit.
import SpoxModel.Model.Conform
namespace Generated.Ctors.ml_v3
open Conform

def cls_ArrayFeatureExtractor : ClassSig :=
  { pyName := "ml_v3._ArrayFeatureExtractor", base := "StandardNode", opName := "ArrayFeatureExtractor", domain := "ai.onnx.ml", version := 1,
    inputs := [("X", .single), ("Y", .single)],
    outputs := [("Z", .single)],
    attrs := [] }

def cls_Binarizer : ClassSig :=
  { pyName := "ml_v3._Binarizer", base := "StandardNode", opName := "Binarizer", domain := "ai.onnx.ml", version := 1,
    inputs := [("X", .single)],
    outputs := [("Y", .single)],
    attrs := [⟨"threshold", .float, false⟩] }

def cls_CastMap : ClassSig :=
  { pyName := "ml_v3._CastMap", base := "StandardNode", opName := "CastMap", domain := "ai.onnx.ml", version := 1,
    inputs := [("X", .single)],
    outputs := [("Y", .single)],
    attrs := [⟨"cast_to", .string, false⟩, ⟨"map_form", .string, false⟩, ⟨"max_map", .int, false⟩] }

def cls_CategoryMapper : ClassSig :=
  { pyName := "ml_v3._CategoryMapper", base := "StandardNode", opName := "CategoryMapper", domain := "ai.onnx.ml", version := 1,
    inputs := [("X", .single)],
    outputs := [("Y", .single)],
    attrs := [⟨"cats_int64s", .ints, true⟩, ⟨"cats_strings", .strings, true⟩, ⟨"default_int64", .int, false⟩, ⟨"default_string", .string, false⟩] }

def cls_DictVectorizer : ClassSig :=
  { pyName := "ml_v3._DictVectorizer", base := "StandardNode", opName := "DictVectorizer", domain := "ai.onnx.ml", version := 1,
    inputs := [("X", .single)],
    outputs := [("Y", .single)],
    attrs := [⟨"int64_vocabulary", .ints, true⟩, ⟨"string_vocabulary", .strings, true⟩] }

def cls_FeatureVectorizer : ClassSig :=
  { pyName := "ml_v3._FeatureVectorizer", base := "StandardNode", opName := "FeatureVectorizer", domain := "ai.onnx.ml", version := 1,
    inputs := [("X", .variadic)],
    outputs := [("Y", .single)],
    attrs := [⟨"inputdimensions", .ints, true⟩] }

def cls_Imputer : ClassSig :=
  { pyName := "ml_v3._Imputer", base := "StandardNode", opName := "Imputer", domain := "ai.onnx.ml", version := 1,
    inputs := [("X", .single)],
    outputs := [("Y", .single)],
    attrs := [⟨"imputed_value_floats", .floats, true⟩, ⟨"imputed_value_int64s", .ints, true⟩, ⟨"replaced_value_float", .float, false⟩, ⟨"replaced_value_int64", .int, false⟩] }

def cls_LabelEncoder : ClassSig :=
  { pyName := "ml_v3._LabelEncoder", base := "StandardNode", opName := "LabelEncoder", domain := "ai.onnx.ml", version := 2,
    inputs := [("X", .single)],
    outputs := [("Y", .single)],
    attrs := [⟨"default_float", .float, false⟩, ⟨"default_int64", .int, false⟩, ⟨"default_string", .string, false⟩, ⟨"keys_floats", .floats, true⟩, ⟨"keys_int64s", .ints, true⟩, ⟨"keys_strings", .strings, true⟩, ⟨"values_floats", .floats, true⟩, ⟨"values_int64s", .ints, true⟩, ⟨"values_strings", .strings, true⟩] }

def cls_LinearClassifier : ClassSig :=
  { pyName := "ml_v3._LinearClassifier", base := "StandardNode", opName := "LinearClassifier", domain := "ai.onnx.ml", version := 1,
    inputs := [("X", .single)],
    outputs := [("Y", .single), ("Z", .single)],
    attrs := [⟨"classlabels_ints", .ints, true⟩, ⟨"classlabels_strings", .strings, true⟩, ⟨"coefficients", .floats, false⟩, ⟨"intercepts", .floats, true⟩, ⟨"multi_class", .int, false⟩, ⟨"post_transform", .string, false⟩] }

def cls_LinearRegressor : ClassSig :=
  { pyName := "ml_v3._LinearRegressor", base := "StandardNode", opName := "LinearRegressor", domain := "ai.onnx.ml", version := 1,
    inputs := [("X", .single)],
    outputs := [("Y", .single)],
    attrs := [⟨"coefficients", .floats, true⟩, ⟨"intercepts", .floats, true⟩, ⟨"post_transform", .string, false⟩, ⟨"targets", .int, false⟩] }

def cls_Normalizer : ClassSig :=
  { pyName := "ml_v3._Normalizer", base := "StandardNode", opName := "Normalizer", domain := "ai.onnx.ml", version := 1,
    inputs := [("X", .single)],
    outputs := [("Y", .single)],
    attrs := [⟨"norm", .string, false⟩] }

def cls_OneHotEncoder : ClassSig :=
  { pyName := "ml_v3._OneHotEncoder", base := "StandardNode", opName := "OneHotEncoder", domain := "ai.onnx.ml", version := 1,
    inputs := [("X", .single)],
    outputs := [("Y", .single)],
    attrs := [⟨"cats_int64s", .ints, true⟩, ⟨"cats_strings", .strings, true⟩, ⟨"zeros", .int, false⟩] }

def cls_SVMClassifier : ClassSig :=
  { pyName := "ml_v3._SVMClassifier", base := "StandardNode", opName := "SVMClassifier", domain := "ai.onnx.ml", version := 1,
    inputs := [("X", .single)],
    outputs := [("Y", .single), ("Z", .single)],
    attrs := [⟨"classlabels_ints", .ints, true⟩, ⟨"classlabels_strings", .strings, true⟩, ⟨"coefficients", .floats, true⟩, ⟨"kernel_params", .floats, true⟩, ⟨"kernel_type", .string, false⟩, ⟨"post_transform", .string, false⟩, ⟨"prob_a", .floats, true⟩, ⟨"prob_b", .floats, true⟩, ⟨"rho", .floats, true⟩, ⟨"support_vectors", .floats, true⟩, ⟨"vectors_per_class", .ints, true⟩] }

def cls_SVMRegressor : ClassSig :=
  { pyName := "ml_v3._SVMRegressor", base := "StandardNode", opName := "SVMRegressor", domain := "ai.onnx.ml", version := 1,
    inputs := [("X", .single)],
    outputs := [("Y", .single)],
    attrs := [⟨"coefficients", .floats, true⟩, ⟨"kernel_params", .floats, true⟩, ⟨"kernel_type", .string, false⟩, ⟨"n_supports", .int, false⟩, ⟨"one_class", .int, false⟩, ⟨"post_transform", .string, false⟩, ⟨"rho", .floats, true⟩, ⟨"support_vectors", .floats, true⟩] }

def cls_Scaler : ClassSig :=
  { pyName := "ml_v3._Scaler", base := "StandardNode", opName := "Scaler", domain := "ai.onnx.ml", version := 1,
    inputs := [("X", .single)],
    outputs := [("Y", .single)],
    attrs := [⟨"offset", .floats, true⟩, ⟨"scale", .floats, true⟩] }

def cls_TreeEnsembleClassifier : ClassSig :=
  { pyName := "ml_v3._TreeEnsembleClassifier", base := "StandardNode", opName := "TreeEnsembleClassifier", domain := "ai.onnx.ml", version := 3,
    inputs := [("X", .single)],
    outputs := [("Y", .single), ("Z", .single)],
    attrs := [⟨"base_values", .floats, true⟩, ⟨"base_values_as_tensor", .tensor, true⟩, ⟨"class_ids", .ints, true⟩, ⟨"class_nodeids", .ints, true⟩, ⟨"class_treeids", .ints, true⟩, ⟨"class_weights", .floats, true⟩, ⟨"class_weights_as_tensor", .tensor, true⟩, ⟨"classlabels_int64s", .ints, true⟩, ⟨"classlabels_strings", .strings, true⟩, ⟨"nodes_falsenodeids", .ints, true⟩, ⟨"nodes_featureids", .ints, true⟩, ⟨"nodes_hitrates", .floats, true⟩, ⟨"nodes_hitrates_as_tensor", .tensor, true⟩, ⟨"nodes_missing_value_tracks_true", .ints, true⟩, ⟨"nodes_modes", .strings, true⟩, ⟨"nodes_nodeids", .ints, true⟩, ⟨"nodes_treeids", .ints, true⟩, ⟨"nodes_truenodeids", .ints, true⟩, ⟨"nodes_values", .floats, true⟩, ⟨"nodes_values_as_tensor", .tensor, true⟩, ⟨"post_transform", .string, false⟩] }

def cls_TreeEnsembleRegressor : ClassSig :=
  { pyName := "ml_v3._TreeEnsembleRegressor", base := "StandardNode", opName := "TreeEnsembleRegressor", domain := "ai.onnx.ml", version := 3,
    inputs := [("X", .single)],
    outputs := [("Y", .single)],
    attrs := [⟨"aggregate_function", .string, false⟩, ⟨"base_values", .floats, true⟩, ⟨"base_values_as_tensor", .tensor, true⟩, ⟨"n_targets", .int, true⟩, ⟨"nodes_falsenodeids", .ints, true⟩, ⟨"nodes_featureids", .ints, true⟩, ⟨"nodes_hitrates", .floats, true⟩, ⟨"nodes_hitrates_as_tensor", .tensor, true⟩, ⟨"nodes_missing_value_tracks_true", .ints, true⟩, ⟨"nodes_modes", .strings, true⟩, ⟨"nodes_nodeids", .ints, true⟩, ⟨"nodes_treeids", .ints, true⟩, ⟨"nodes_truenodeids", .ints, true⟩, ⟨"nodes_values", .floats, true⟩, ⟨"nodes_values_as_tensor", .tensor, true⟩, ⟨"post_transform", .string, false⟩, ⟨"target_ids", .ints, true⟩, ⟨"target_nodeids", .ints, true⟩, ⟨"target_treeids", .ints, true⟩, ⟨"target_weights", .floats, true⟩, ⟨"target_weights_as_tensor", .tensor, true⟩] }

def cls_ZipMap : ClassSig :=
  { pyName := "ml_v3._ZipMap", base := "StandardNode", opName := "ZipMap", domain := "ai.onnx.ml", version := 1,
    inputs := [("X", .single)],
    outputs := [("Z", .single)],
    attrs := [⟨"classlabels_int64s", .ints, true⟩, ⟨"classlabels_strings", .strings, true⟩] }

def f_array_feature_extractor : Ctor :=
  { pyName := "ml_v3.array_feature_extractor", cls := Generated.Ctors.ml_v3.cls_ArrayFeatureExtractor,
    params := [⟨"X", false, .var, none⟩, ⟨"Y", false, .var, none⟩],
    attrWires := [],
    inputWires := [("X", "X"), ("Y", "Y")],
    outVar := .none, ret := .field "Z" }

def f_binarizer : Ctor :=
  { pyName := "ml_v3.binarizer", cls := Generated.Ctors.ml_v3.cls_Binarizer,
    params := [⟨"X", false, .var, none⟩, ⟨"threshold", true, .attr, some (Val.float 0)⟩],
    attrWires := [⟨"threshold", .float, false, "threshold", "threshold", false⟩],
    inputWires := [("X", "X")],
    outVar := .none, ret := .field "Y" }

def f_cast_map : Ctor :=
  { pyName := "ml_v3.cast_map", cls := Generated.Ctors.ml_v3.cls_CastMap,
    params := [⟨"X", false, .var, none⟩, ⟨"cast_to", true, .attr, some (Val.str "TO_FLOAT")⟩, ⟨"map_form", true, .attr, some (Val.str "DENSE")⟩, ⟨"max_map", true, .attr, some (Val.int 1)⟩],
    attrWires := [⟨"cast_to", .string, false, "cast_to", "cast_to", false⟩, ⟨"map_form", .string, false, "map_form", "map_form", false⟩, ⟨"max_map", .int, false, "max_map", "max_map", false⟩],
    inputWires := [("X", "X")],
    outVar := .none, ret := .field "Y" }

def f_category_mapper : Ctor :=
  { pyName := "ml_v3.category_mapper", cls := Generated.Ctors.ml_v3.cls_CategoryMapper,
    params := [⟨"X", false, .var, none⟩, ⟨"cats_int64s", true, .attr, some Val.none⟩, ⟨"cats_strings", true, .attr, some Val.none⟩, ⟨"default_int64", true, .attr, some (Val.int (-1))⟩, ⟨"default_string", true, .attr, some (Val.str "_Unused")⟩],
    attrWires := [⟨"cats_int64s", .ints, true, "cats_int64s", "cats_int64s", false⟩, ⟨"cats_strings", .strings, true, "cats_strings", "cats_strings", false⟩, ⟨"default_int64", .int, false, "default_int64", "default_int64", false⟩, ⟨"default_string", .string, false, "default_string", "default_string", false⟩],
    inputWires := [("X", "X")],
    outVar := .none, ret := .field "Y" }

def f_dict_vectorizer : Ctor :=
  { pyName := "ml_v3.dict_vectorizer", cls := Generated.Ctors.ml_v3.cls_DictVectorizer,
    params := [⟨"X", false, .var, none⟩, ⟨"int64_vocabulary", true, .attr, some Val.none⟩, ⟨"string_vocabulary", true, .attr, some Val.none⟩],
    attrWires := [⟨"int64_vocabulary", .ints, true, "int64_vocabulary", "int64_vocabulary", false⟩, ⟨"string_vocabulary", .strings, true, "string_vocabulary", "string_vocabulary", false⟩],
    inputWires := [("X", "X")],
    outVar := .none, ret := .field "Y" }

def f_feature_vectorizer : Ctor :=
  { pyName := "ml_v3.feature_vectorizer", cls := Generated.Ctors.ml_v3.cls_FeatureVectorizer,
    params := [⟨"X", false, .seqVar, none⟩, ⟨"inputdimensions", true, .attr, some Val.none⟩],
    attrWires := [⟨"inputdimensions", .ints, true, "inputdimensions", "inputdimensions", false⟩],
    inputWires := [("X", "X")],
    outVar := .none, ret := .field "Y" }

def f_imputer : Ctor :=
  { pyName := "ml_v3.imputer", cls := Generated.Ctors.ml_v3.cls_Imputer,
    params := [⟨"X", false, .var, none⟩, ⟨"imputed_value_floats", true, .attr, some Val.none⟩, ⟨"imputed_value_int64s", true, .attr, some Val.none⟩, ⟨"replaced_value_float", true, .attr, some (Val.float 0)⟩, ⟨"replaced_value_int64", true, .attr, some (Val.int 0)⟩],
    attrWires := [⟨"imputed_value_floats", .floats, true, "imputed_value_floats", "imputed_value_floats", false⟩, ⟨"imputed_value_int64s", .ints, true, "imputed_value_int64s", "imputed_value_int64s", false⟩, ⟨"replaced_value_float", .float, false, "replaced_value_float", "replaced_value_float", false⟩, ⟨"replaced_value_int64", .int, false, "replaced_value_int64", "replaced_value_int64", false⟩],
    inputWires := [("X", "X")],
    outVar := .none, ret := .field "Y" }

def f_label_encoder : Ctor :=
  { pyName := "ml_v3.label_encoder", cls := Generated.Ctors.ml_v3.cls_LabelEncoder,
    params := [⟨"X", false, .var, none⟩, ⟨"default_float", true, .attr, some (Val.float 2147483648)⟩, ⟨"default_int64", true, .attr, some (Val.int (-1))⟩, ⟨"default_string", true, .attr, some (Val.str "_Unused")⟩, ⟨"keys_floats", true, .attr, some Val.none⟩, ⟨"keys_int64s", true, .attr, some Val.none⟩, ⟨"keys_strings", true, .attr, some Val.none⟩, ⟨"values_floats", true, .attr, some Val.none⟩, ⟨"values_int64s", true, .attr, some Val.none⟩, ⟨"values_strings", true, .attr, some Val.none⟩],
    attrWires := [⟨"default_float", .float, false, "default_float", "default_float", false⟩, ⟨"default_int64", .int, false, "default_int64", "default_int64", false⟩, ⟨"default_string", .string, false, "default_string", "default_string", false⟩, ⟨"keys_floats", .floats, true, "keys_floats", "keys_floats", false⟩, ⟨"keys_int64s", .ints, true, "keys_int64s", "keys_int64s", false⟩, ⟨"keys_strings", .strings, true, "keys_strings", "keys_strings", false⟩, ⟨"values_floats", .floats, true, "values_floats", "values_floats", false⟩, ⟨"values_int64s", .ints, true, "values_int64s", "values_int64s", false⟩, ⟨"values_strings", .strings, true, "values_strings", "values_strings", false⟩],
    inputWires := [("X", "X")],
    outVar := .none, ret := .field "Y" }

def f_linear_classifier : Ctor :=
  { pyName := "ml_v3.linear_classifier", cls := Generated.Ctors.ml_v3.cls_LinearClassifier,
    params := [⟨"X", false, .var, none⟩, ⟨"classlabels_ints", true, .attr, some Val.none⟩, ⟨"classlabels_strings", true, .attr, some Val.none⟩, ⟨"coefficients", true, .attr, none⟩, ⟨"intercepts", true, .attr, some Val.none⟩, ⟨"multi_class", true, .attr, some (Val.int 0)⟩, ⟨"post_transform", true, .attr, some (Val.str "NONE")⟩],
    attrWires := [⟨"classlabels_ints", .ints, true, "classlabels_ints", "classlabels_ints", false⟩, ⟨"classlabels_strings", .strings, true, "classlabels_strings", "classlabels_strings", false⟩, ⟨"coefficients", .floats, false, "coefficients", "coefficients", false⟩, ⟨"intercepts", .floats, true, "intercepts", "intercepts", false⟩, ⟨"multi_class", .int, false, "multi_class", "multi_class", false⟩, ⟨"post_transform", .string, false, "post_transform", "post_transform", false⟩],
    inputWires := [("X", "X")],
    outVar := .none, ret := .unpack }

def f_linear_regressor : Ctor :=
  { pyName := "ml_v3.linear_regressor", cls := Generated.Ctors.ml_v3.cls_LinearRegressor,
    params := [⟨"X", false, .var, none⟩, ⟨"coefficients", true, .attr, some Val.none⟩, ⟨"intercepts", true, .attr, some Val.none⟩, ⟨"post_transform", true, .attr, some (Val.str "NONE")⟩, ⟨"targets", true, .attr, some (Val.int 1)⟩],
    attrWires := [⟨"coefficients", .floats, true, "coefficients", "coefficients", false⟩, ⟨"intercepts", .floats, true, "intercepts", "intercepts", false⟩, ⟨"post_transform", .string, false, "post_transform", "post_transform", false⟩, ⟨"targets", .int, false, "targets", "targets", false⟩],
    inputWires := [("X", "X")],
    outVar := .none, ret := .field "Y" }

def f_normalizer : Ctor :=
  { pyName := "ml_v3.normalizer", cls := Generated.Ctors.ml_v3.cls_Normalizer,
    params := [⟨"X", false, .var, none⟩, ⟨"norm", true, .attr, some (Val.str "MAX")⟩],
    attrWires := [⟨"norm", .string, false, "norm", "norm", false⟩],
    inputWires := [("X", "X")],
    outVar := .none, ret := .field "Y" }

def f_one_hot_encoder : Ctor :=
  { pyName := "ml_v3.one_hot_encoder", cls := Generated.Ctors.ml_v3.cls_OneHotEncoder,
    params := [⟨"X", false, .var, none⟩, ⟨"cats_int64s", true, .attr, some Val.none⟩, ⟨"cats_strings", true, .attr, some Val.none⟩, ⟨"zeros", true, .attr, some (Val.int 1)⟩],
    attrWires := [⟨"cats_int64s", .ints, true, "cats_int64s", "cats_int64s", false⟩, ⟨"cats_strings", .strings, true, "cats_strings", "cats_strings", false⟩, ⟨"zeros", .int, false, "zeros", "zeros", false⟩],
    inputWires := [("X", "X")],
    outVar := .none, ret := .field "Y" }

def f_svmclassifier : Ctor :=
  { pyName := "ml_v3.svmclassifier", cls := Generated.Ctors.ml_v3.cls_SVMClassifier,
    params := [⟨"X", false, .var, none⟩, ⟨"classlabels_ints", true, .attr, some Val.none⟩, ⟨"classlabels_strings", true, .attr, some Val.none⟩, ⟨"coefficients", true, .attr, some Val.none⟩, ⟨"kernel_params", true, .attr, some Val.none⟩, ⟨"kernel_type", true, .attr, some (Val.str "LINEAR")⟩, ⟨"post_transform", true, .attr, some (Val.str "NONE")⟩, ⟨"prob_a", true, .attr, some Val.none⟩, ⟨"prob_b", true, .attr, some Val.none⟩, ⟨"rho", true, .attr, some Val.none⟩, ⟨"support_vectors", true, .attr, some Val.none⟩, ⟨"vectors_per_class", true, .attr, some Val.none⟩],
    attrWires := [⟨"classlabels_ints", .ints, true, "classlabels_ints", "classlabels_ints", false⟩, ⟨"classlabels_strings", .strings, true, "classlabels_strings", "classlabels_strings", false⟩, ⟨"coefficients", .floats, true, "coefficients", "coefficients", false⟩, ⟨"kernel_params", .floats, true, "kernel_params", "kernel_params", false⟩, ⟨"kernel_type", .string, false, "kernel_type", "kernel_type", false⟩, ⟨"post_transform", .string, false, "post_transform", "post_transform", false⟩, ⟨"prob_a", .floats, true, "prob_a", "prob_a", false⟩, ⟨"prob_b", .floats, true, "prob_b", "prob_b", false⟩, ⟨"rho", .floats, true, "rho", "rho", false⟩, ⟨"support_vectors", .floats, true, "support_vectors", "support_vectors", false⟩, ⟨"vectors_per_class", .ints, true, "vectors_per_class", "vectors_per_class", false⟩],
    inputWires := [("X", "X")],
    outVar := .none, ret := .unpack }

def f_svmregressor : Ctor :=
  { pyName := "ml_v3.svmregressor", cls := Generated.Ctors.ml_v3.cls_SVMRegressor,
    params := [⟨"X", false, .var, none⟩, ⟨"coefficients", true, .attr, some Val.none⟩, ⟨"kernel_params", true, .attr, some Val.none⟩, ⟨"kernel_type", true, .attr, some (Val.str "LINEAR")⟩, ⟨"n_supports", true, .attr, some (Val.int 0)⟩, ⟨"one_class", true, .attr, some (Val.int 0)⟩, ⟨"post_transform", true, .attr, some (Val.str "NONE")⟩, ⟨"rho", true, .attr, some Val.none⟩, ⟨"support_vectors", true, .attr, some Val.none⟩],
    attrWires := [⟨"coefficients", .floats, true, "coefficients", "coefficients", false⟩, ⟨"kernel_params", .floats, true, "kernel_params", "kernel_params", false⟩, ⟨"kernel_type", .string, false, "kernel_type", "kernel_type", false⟩, ⟨"n_supports", .int, false, "n_supports", "n_supports", false⟩, ⟨"one_class", .int, false, "one_class", "one_class", false⟩, ⟨"post_transform", .string, false, "post_transform", "post_transform", false⟩, ⟨"rho", .floats, true, "rho", "rho", false⟩, ⟨"support_vectors", .floats, true, "support_vectors", "support_vectors", false⟩],
    inputWires := [("X", "X")],
    outVar := .none, ret := .field "Y" }

def f_scaler : Ctor :=
  { pyName := "ml_v3.scaler", cls := Generated.Ctors.ml_v3.cls_Scaler,
    params := [⟨"X", false, .var, none⟩, ⟨"offset", true, .attr, some Val.none⟩, ⟨"scale", true, .attr, some Val.none⟩],
    attrWires := [⟨"offset", .floats, true, "offset", "offset", false⟩, ⟨"scale", .floats, true, "scale", "scale", false⟩],
    inputWires := [("X", "X")],
    outVar := .none, ret := .field "Y" }

def f_tree_ensemble_classifier : Ctor :=
  { pyName := "ml_v3.tree_ensemble_classifier", cls := Generated.Ctors.ml_v3.cls_TreeEnsembleClassifier,
    params := [⟨"X", false, .var, none⟩, ⟨"base_values", true, .attr, some Val.none⟩, ⟨"base_values_as_tensor", true, .attr, some Val.none⟩, ⟨"class_ids", true, .attr, some Val.none⟩, ⟨"class_nodeids", true, .attr, some Val.none⟩, ⟨"class_treeids", true, .attr, some Val.none⟩, ⟨"class_weights", true, .attr, some Val.none⟩, ⟨"class_weights_as_tensor", true, .attr, some Val.none⟩, ⟨"classlabels_int64s", true, .attr, some Val.none⟩, ⟨"classlabels_strings", true, .attr, some Val.none⟩, ⟨"nodes_falsenodeids", true, .attr, some Val.none⟩, ⟨"nodes_featureids", true, .attr, some Val.none⟩, ⟨"nodes_hitrates", true, .attr, some Val.none⟩, ⟨"nodes_hitrates_as_tensor", true, .attr, some Val.none⟩, ⟨"nodes_missing_value_tracks_true", true, .attr, some Val.none⟩, ⟨"nodes_modes", true, .attr, some Val.none⟩, ⟨"nodes_nodeids", true, .attr, some Val.none⟩, ⟨"nodes_treeids", true, .attr, some Val.none⟩, ⟨"nodes_truenodeids", true, .attr, some Val.none⟩, ⟨"nodes_values", true, .attr, some Val.none⟩, ⟨"nodes_values_as_tensor", true, .attr, some Val.none⟩, ⟨"post_transform", true, .attr, some (Val.str "NONE")⟩],
    attrWires := [⟨"base_values", .floats, true, "base_values", "base_values", false⟩, ⟨"base_values_as_tensor", .tensor, true, "base_values_as_tensor", "base_values_as_tensor", false⟩, ⟨"class_ids", .ints, true, "class_ids", "class_ids", false⟩, ⟨"class_nodeids", .ints, true, "class_nodeids", "class_nodeids", false⟩, ⟨"class_treeids", .ints, true, "class_treeids", "class_treeids", false⟩, ⟨"class_weights", .floats, true, "class_weights", "class_weights", false⟩, ⟨"class_weights_as_tensor", .tensor, true, "class_weights_as_tensor", "class_weights_as_tensor", false⟩, ⟨"classlabels_int64s", .ints, true, "classlabels_int64s", "classlabels_int64s", false⟩, ⟨"classlabels_strings", .strings, true, "classlabels_strings", "classlabels_strings", false⟩, ⟨"nodes_falsenodeids", .ints, true, "nodes_falsenodeids", "nodes_falsenodeids", false⟩, ⟨"nodes_featureids", .ints, true, "nodes_featureids", "nodes_featureids", false⟩, ⟨"nodes_hitrates", .floats, true, "nodes_hitrates", "nodes_hitrates", false⟩, ⟨"nodes_hitrates_as_tensor", .tensor, true, "nodes_hitrates_as_tensor", "nodes_hitrates_as_tensor", false⟩, ⟨"nodes_missing_value_tracks_true", .ints, true, "nodes_missing_value_tracks_true", "nodes_missing_value_tracks_true", false⟩, ⟨"nodes_modes", .strings, true, "nodes_modes", "nodes_modes", false⟩, ⟨"nodes_nodeids", .ints, true, "nodes_nodeids", "nodes_nodeids", false⟩, ⟨"nodes_treeids", .ints, true, "nodes_treeids", "nodes_treeids", false⟩, ⟨"nodes_truenodeids", .ints, true, "nodes_truenodeids", "nodes_truenodeids", false⟩, ⟨"nodes_values", .floats, true, "nodes_values", "nodes_values", false⟩, ⟨"nodes_values_as_tensor", .tensor, true, "nodes_values_as_tensor", "nodes_values_as_tensor", false⟩, ⟨"post_transform", .string, false, "post_transform", "post_transform", false⟩],
    inputWires := [("X", "X")],
    outVar := .none, ret := .unpack }

def f_tree_ensemble_regressor : Ctor :=
  { pyName := "ml_v3.tree_ensemble_regressor", cls := Generated.Ctors.ml_v3.cls_TreeEnsembleRegressor,
    params := [⟨"X", false, .var, none⟩, ⟨"aggregate_function", true, .attr, some (Val.str "SUM")⟩, ⟨"base_values", true, .attr, some Val.none⟩, ⟨"base_values_as_tensor", true, .attr, some Val.none⟩, ⟨"n_targets", true, .attr, some Val.none⟩, ⟨"nodes_falsenodeids", true, .attr, some Val.none⟩, ⟨"nodes_featureids", true, .attr, some Val.none⟩, ⟨"nodes_hitrates", true, .attr, some Val.none⟩, ⟨"nodes_hitrates_as_tensor", true, .attr, some Val.none⟩, ⟨"nodes_missing_value_tracks_true", true, .attr, some Val.none⟩, ⟨"nodes_modes", true, .attr, some Val.none⟩, ⟨"nodes_nodeids", true, .attr, some Val.none⟩, ⟨"nodes_treeids", true, .attr, some Val.none⟩, ⟨"nodes_truenodeids", true, .attr, some Val.none⟩, ⟨"nodes_values", true, .attr, some Val.none⟩, ⟨"nodes_values_as_tensor", true, .attr, some Val.none⟩, ⟨"post_transform", true, .attr, some (Val.str "NONE")⟩, ⟨"target_ids", true, .attr, some Val.none⟩, ⟨"target_nodeids", true, .attr, some Val.none⟩, ⟨"target_treeids", true, .attr, some Val.none⟩, ⟨"target_weights", true, .attr, some Val.none⟩, ⟨"target_weights_as_tensor", true, .attr, some Val.none⟩],
    attrWires := [⟨"aggregate_function", .string, false, "aggregate_function", "aggregate_function", false⟩, ⟨"base_values", .floats, true, "base_values", "base_values", false⟩, ⟨"base_values_as_tensor", .tensor, true, "base_values_as_tensor", "base_values_as_tensor", false⟩, ⟨"n_targets", .int, true, "n_targets", "n_targets", false⟩, ⟨"nodes_falsenodeids", .ints, true, "nodes_falsenodeids", "nodes_falsenodeids", false⟩, ⟨"nodes_featureids", .ints, true, "nodes_featureids", "nodes_featureids", false⟩, ⟨"nodes_hitrates", .floats, true, "nodes_hitrates", "nodes_hitrates", false⟩, ⟨"nodes_hitrates_as_tensor", .tensor, true, "nodes_hitrates_as_tensor", "nodes_hitrates_as_tensor", false⟩, ⟨"nodes_missing_value_tracks_true", .ints, true, "nodes_missing_value_tracks_true", "nodes_missing_value_tracks_true", false⟩, ⟨"nodes_modes", .strings, true, "nodes_modes", "nodes_modes", false⟩, ⟨"nodes_nodeids", .ints, true, "nodes_nodeids", "nodes_nodeids", false⟩, ⟨"nodes_treeids", .ints, true, "nodes_treeids", "nodes_treeids", false⟩, ⟨"nodes_truenodeids", .ints, true, "nodes_truenodeids", "nodes_truenodeids", false⟩, ⟨"nodes_values", .floats, true, "nodes_values", "nodes_values", false⟩, ⟨"nodes_values_as_tensor", .tensor, true, "nodes_values_as_tensor", "nodes_values_as_tensor", false⟩, ⟨"post_transform", .string, false, "post_transform", "post_transform", false⟩, ⟨"target_ids", .ints, true, "target_ids", "target_ids", false⟩, ⟨"target_nodeids", .ints, true, "target_nodeids", "target_nodeids", false⟩, ⟨"target_treeids", .ints, true, "target_treeids", "target_treeids", false⟩, ⟨"target_weights", .floats, true, "target_weights", "target_weights", false⟩, ⟨"target_weights_as_tensor", .tensor, true, "target_weights_as_tensor", "target_weights_as_tensor", false⟩],
    inputWires := [("X", "X")],
    outVar := .none, ret := .field "Y" }

def f_zip_map : Ctor :=
  { pyName := "ml_v3.zip_map", cls := Generated.Ctors.ml_v3.cls_ZipMap,
    params := [⟨"X", false, .var, none⟩, ⟨"classlabels_int64s", true, .attr, some Val.none⟩, ⟨"classlabels_strings", true, .attr, some Val.none⟩],
    attrWires := [⟨"classlabels_int64s", .ints, true, "classlabels_int64s", "classlabels_int64s", false⟩, ⟨"classlabels_strings", .strings, true, "classlabels_strings", "classlabels_strings", false⟩],
    inputWires := [("X", "X")],
    outVar := .none, ret := .field "Z" }

end Generated.Ctors.ml_v3
