-- GENERATED from src/spox/opset/ai/onnx/v21.py + onnx.defs by translator/constructors.py on every run; do not edit.
import SpoxModel.Generated.Constructors_v21
import SpoxModel.Generated.Schemas_v21
import SpoxModel.Generated.Conforms_v20
namespace Generated.Conforms.v21
open Conform

theorem conforms_v21_Abs : entryOK ("v17._Abs", Generated.Ctors.v17.f_abs, Generated.Schemas.v17.s_Abs_13) = true := Generated.Conforms.v17.conforms_v17_Abs

theorem slots_v21_Abs : slotOK ("v17._Abs", Generated.Ctors.v17.f_abs, Generated.Schemas.v17.s_Abs_13) = true := Generated.Conforms.v17.slots_v17_Abs

theorem conforms_v21_Acos : entryOK ("v17._Acos", Generated.Ctors.v17.f_acos, Generated.Schemas.v17.s_Acos_7) = true := Generated.Conforms.v17.conforms_v17_Acos

theorem slots_v21_Acos : slotOK ("v17._Acos", Generated.Ctors.v17.f_acos, Generated.Schemas.v17.s_Acos_7) = true := Generated.Conforms.v17.slots_v17_Acos

theorem conforms_v21_Acosh : entryOK ("v17._Acosh", Generated.Ctors.v17.f_acosh, Generated.Schemas.v17.s_Acosh_9) = true := Generated.Conforms.v17.conforms_v17_Acosh

theorem slots_v21_Acosh : slotOK ("v17._Acosh", Generated.Ctors.v17.f_acosh, Generated.Schemas.v17.s_Acosh_9) = true := Generated.Conforms.v17.slots_v17_Acosh

theorem conforms_v21_Add : entryOK ("v17._Add", Generated.Ctors.v17.f_add, Generated.Schemas.v17.s_Add_14) = true := Generated.Conforms.v17.conforms_v17_Add

theorem slots_v21_Add : slotOK ("v17._Add", Generated.Ctors.v17.f_add, Generated.Schemas.v17.s_Add_14) = true := Generated.Conforms.v17.slots_v17_Add

theorem conforms_v21_AffineGrid : entryOK ("v20._AffineGrid", Generated.Ctors.v20.f_affine_grid, Generated.Schemas.v20.s_AffineGrid_20) = true := Generated.Conforms.v20.conforms_v20_AffineGrid

theorem slots_v21_AffineGrid : slotOK ("v20._AffineGrid", Generated.Ctors.v20.f_affine_grid, Generated.Schemas.v20.s_AffineGrid_20) = true := Generated.Conforms.v20.slots_v20_AffineGrid

theorem conforms_v21_And : entryOK ("v17._And", Generated.Ctors.v17.f_and_, Generated.Schemas.v17.s_And_7) = true := Generated.Conforms.v17.conforms_v17_And

theorem slots_v21_And : slotOK ("v17._And", Generated.Ctors.v17.f_and_, Generated.Schemas.v17.s_And_7) = true := Generated.Conforms.v17.slots_v17_And

theorem conforms_v21_ArgMax : entryOK ("v17._ArgMax", Generated.Ctors.v17.f_arg_max, Generated.Schemas.v17.s_ArgMax_13) = true := Generated.Conforms.v17.conforms_v17_ArgMax

theorem slots_v21_ArgMax : slotOK ("v17._ArgMax", Generated.Ctors.v17.f_arg_max, Generated.Schemas.v17.s_ArgMax_13) = true := Generated.Conforms.v17.slots_v17_ArgMax

theorem conforms_v21_ArgMin : entryOK ("v17._ArgMin", Generated.Ctors.v17.f_arg_min, Generated.Schemas.v17.s_ArgMin_13) = true := Generated.Conforms.v17.conforms_v17_ArgMin

theorem slots_v21_ArgMin : slotOK ("v17._ArgMin", Generated.Ctors.v17.f_arg_min, Generated.Schemas.v17.s_ArgMin_13) = true := Generated.Conforms.v17.slots_v17_ArgMin

theorem conforms_v21_Asin : entryOK ("v17._Asin", Generated.Ctors.v17.f_asin, Generated.Schemas.v17.s_Asin_7) = true := Generated.Conforms.v17.conforms_v17_Asin

theorem slots_v21_Asin : slotOK ("v17._Asin", Generated.Ctors.v17.f_asin, Generated.Schemas.v17.s_Asin_7) = true := Generated.Conforms.v17.slots_v17_Asin

theorem conforms_v21_Asinh : entryOK ("v17._Asinh", Generated.Ctors.v17.f_asinh, Generated.Schemas.v17.s_Asinh_9) = true := Generated.Conforms.v17.conforms_v17_Asinh

theorem slots_v21_Asinh : slotOK ("v17._Asinh", Generated.Ctors.v17.f_asinh, Generated.Schemas.v17.s_Asinh_9) = true := Generated.Conforms.v17.slots_v17_Asinh

theorem conforms_v21_Atan : entryOK ("v17._Atan", Generated.Ctors.v17.f_atan, Generated.Schemas.v17.s_Atan_7) = true := Generated.Conforms.v17.conforms_v17_Atan

theorem slots_v21_Atan : slotOK ("v17._Atan", Generated.Ctors.v17.f_atan, Generated.Schemas.v17.s_Atan_7) = true := Generated.Conforms.v17.slots_v17_Atan

theorem conforms_v21_Atanh : entryOK ("v17._Atanh", Generated.Ctors.v17.f_atanh, Generated.Schemas.v17.s_Atanh_9) = true := Generated.Conforms.v17.conforms_v17_Atanh

theorem slots_v21_Atanh : slotOK ("v17._Atanh", Generated.Ctors.v17.f_atanh, Generated.Schemas.v17.s_Atanh_9) = true := Generated.Conforms.v17.slots_v17_Atanh

theorem conforms_v21_AveragePool : entryOK ("v19._AveragePool", Generated.Ctors.v19.f_average_pool, Generated.Schemas.v19.s_AveragePool_19) = true := Generated.Conforms.v19.conforms_v19_AveragePool

theorem slots_v21_AveragePool : slotOK ("v19._AveragePool", Generated.Ctors.v19.f_average_pool, Generated.Schemas.v19.s_AveragePool_19) = true := Generated.Conforms.v19.slots_v19_AveragePool

theorem conforms_v21_BatchNormalization : entryOK ("v17._BatchNormalization", Generated.Ctors.v17.f_batch_normalization, Generated.Schemas.v17.s_BatchNormalization_15) = true := Generated.Conforms.v17.conforms_v17_BatchNormalization

theorem slots_v21_BatchNormalization : slotOK ("v17._BatchNormalization", Generated.Ctors.v17.f_batch_normalization, Generated.Schemas.v17.s_BatchNormalization_15) = true := Generated.Conforms.v17.slots_v17_BatchNormalization

theorem conforms_v21_Bernoulli : entryOK ("v17._Bernoulli", Generated.Ctors.v17.f_bernoulli, Generated.Schemas.v17.s_Bernoulli_15) = true := Generated.Conforms.v17.conforms_v17_Bernoulli

theorem slots_v21_Bernoulli : slotOK ("v17._Bernoulli", Generated.Ctors.v17.f_bernoulli, Generated.Schemas.v17.s_Bernoulli_15) = true := Generated.Conforms.v17.slots_v17_Bernoulli

theorem conforms_v21_BitShift : entryOK ("v17._BitShift", Generated.Ctors.v17.f_bit_shift, Generated.Schemas.v17.s_BitShift_11) = true := Generated.Conforms.v17.conforms_v17_BitShift

theorem slots_v21_BitShift : slotOK ("v17._BitShift", Generated.Ctors.v17.f_bit_shift, Generated.Schemas.v17.s_BitShift_11) = true := Generated.Conforms.v17.slots_v17_BitShift

theorem conforms_v21_BitwiseAnd : entryOK ("v18._BitwiseAnd", Generated.Ctors.v18.f_bitwise_and, Generated.Schemas.v18.s_BitwiseAnd_18) = true := Generated.Conforms.v18.conforms_v18_BitwiseAnd

theorem slots_v21_BitwiseAnd : slotOK ("v18._BitwiseAnd", Generated.Ctors.v18.f_bitwise_and, Generated.Schemas.v18.s_BitwiseAnd_18) = true := Generated.Conforms.v18.slots_v18_BitwiseAnd

theorem conforms_v21_BitwiseNot : entryOK ("v18._BitwiseNot", Generated.Ctors.v18.f_bitwise_not, Generated.Schemas.v18.s_BitwiseNot_18) = true := Generated.Conforms.v18.conforms_v18_BitwiseNot

theorem slots_v21_BitwiseNot : slotOK ("v18._BitwiseNot", Generated.Ctors.v18.f_bitwise_not, Generated.Schemas.v18.s_BitwiseNot_18) = true := Generated.Conforms.v18.slots_v18_BitwiseNot

theorem conforms_v21_BitwiseOr : entryOK ("v18._BitwiseOr", Generated.Ctors.v18.f_bitwise_or, Generated.Schemas.v18.s_BitwiseOr_18) = true := Generated.Conforms.v18.conforms_v18_BitwiseOr

theorem slots_v21_BitwiseOr : slotOK ("v18._BitwiseOr", Generated.Ctors.v18.f_bitwise_or, Generated.Schemas.v18.s_BitwiseOr_18) = true := Generated.Conforms.v18.slots_v18_BitwiseOr

theorem conforms_v21_BitwiseXor : entryOK ("v18._BitwiseXor", Generated.Ctors.v18.f_bitwise_xor, Generated.Schemas.v18.s_BitwiseXor_18) = true := Generated.Conforms.v18.conforms_v18_BitwiseXor

theorem slots_v21_BitwiseXor : slotOK ("v18._BitwiseXor", Generated.Ctors.v18.f_bitwise_xor, Generated.Schemas.v18.s_BitwiseXor_18) = true := Generated.Conforms.v18.slots_v18_BitwiseXor

theorem conforms_v21_BlackmanWindow : entryOK ("v17._BlackmanWindow", Generated.Ctors.v17.f_blackman_window, Generated.Schemas.v17.s_BlackmanWindow_17) = true := Generated.Conforms.v17.conforms_v17_BlackmanWindow

theorem slots_v21_BlackmanWindow : slotOK ("v17._BlackmanWindow", Generated.Ctors.v17.f_blackman_window, Generated.Schemas.v17.s_BlackmanWindow_17) = true := Generated.Conforms.v17.slots_v17_BlackmanWindow

theorem conforms_v21_Cast : entryOK ("v21._Cast", Generated.Ctors.v21.f_cast, Generated.Schemas.v21.s_Cast_21) = true := by decide +kernel

theorem slots_v21_Cast : slotOK ("v21._Cast", Generated.Ctors.v21.f_cast, Generated.Schemas.v21.s_Cast_21) = true := by decide +kernel

theorem conforms_v21_CastLike : entryOK ("v21._CastLike", Generated.Ctors.v21.f_cast_like, Generated.Schemas.v21.s_CastLike_21) = true := by decide +kernel

theorem slots_v21_CastLike : slotOK ("v21._CastLike", Generated.Ctors.v21.f_cast_like, Generated.Schemas.v21.s_CastLike_21) = true := by decide +kernel

theorem conforms_v21_Ceil : entryOK ("v17._Ceil", Generated.Ctors.v17.f_ceil, Generated.Schemas.v17.s_Ceil_13) = true := Generated.Conforms.v17.conforms_v17_Ceil

theorem slots_v21_Ceil : slotOK ("v17._Ceil", Generated.Ctors.v17.f_ceil, Generated.Schemas.v17.s_Ceil_13) = true := Generated.Conforms.v17.slots_v17_Ceil

theorem conforms_v21_Celu : entryOK ("v17._Celu", Generated.Ctors.v17.f_celu, Generated.Schemas.v17.s_Celu_12) = true := Generated.Conforms.v17.conforms_v17_Celu

theorem slots_v21_Celu : slotOK ("v17._Celu", Generated.Ctors.v17.f_celu, Generated.Schemas.v17.s_Celu_12) = true := Generated.Conforms.v17.slots_v17_Celu

theorem conforms_v21_CenterCropPad : entryOK ("v18._CenterCropPad", Generated.Ctors.v18.f_center_crop_pad, Generated.Schemas.v18.s_CenterCropPad_18) = true := Generated.Conforms.v18.conforms_v18_CenterCropPad

theorem slots_v21_CenterCropPad : slotOK ("v18._CenterCropPad", Generated.Ctors.v18.f_center_crop_pad, Generated.Schemas.v18.s_CenterCropPad_18) = true := Generated.Conforms.v18.slots_v18_CenterCropPad

theorem conforms_v21_Clip : entryOK ("v17._Clip", Generated.Ctors.v17.f_clip, Generated.Schemas.v17.s_Clip_13) = true := Generated.Conforms.v17.conforms_v17_Clip

theorem slots_v21_Clip : slotOK ("v17._Clip", Generated.Ctors.v17.f_clip, Generated.Schemas.v17.s_Clip_13) = true := Generated.Conforms.v17.slots_v17_Clip

theorem conforms_v21_Col2Im : entryOK ("v18._Col2Im", Generated.Ctors.v18.f_col2_im, Generated.Schemas.v18.s_Col2Im_18) = true := Generated.Conforms.v18.conforms_v18_Col2Im

theorem slots_v21_Col2Im : slotOK ("v18._Col2Im", Generated.Ctors.v18.f_col2_im, Generated.Schemas.v18.s_Col2Im_18) = true := Generated.Conforms.v18.slots_v18_Col2Im

theorem conforms_v21_Compress : entryOK ("v17._Compress", Generated.Ctors.v17.f_compress, Generated.Schemas.v17.s_Compress_11) = true := Generated.Conforms.v17.conforms_v17_Compress

theorem slots_v21_Compress : slotOK ("v17._Compress", Generated.Ctors.v17.f_compress, Generated.Schemas.v17.s_Compress_11) = true := Generated.Conforms.v17.slots_v17_Compress

theorem conforms_v21_Concat : entryOK ("v17._Concat", Generated.Ctors.v17.f_concat, Generated.Schemas.v17.s_Concat_13) = true := Generated.Conforms.v17.conforms_v17_Concat

theorem slots_v21_Concat : slotOK ("v17._Concat", Generated.Ctors.v17.f_concat, Generated.Schemas.v17.s_Concat_13) = true := Generated.Conforms.v17.slots_v17_Concat

theorem conforms_v21_ConcatFromSequence : entryOK ("v17._ConcatFromSequence", Generated.Ctors.v17.f_concat_from_sequence, Generated.Schemas.v17.s_ConcatFromSequence_11) = true := Generated.Conforms.v17.conforms_v17_ConcatFromSequence

theorem slots_v21_ConcatFromSequence : slotOK ("v17._ConcatFromSequence", Generated.Ctors.v17.f_concat_from_sequence, Generated.Schemas.v17.s_ConcatFromSequence_11) = true := Generated.Conforms.v17.slots_v17_ConcatFromSequence

/-- known deviation (findings.d/C11.json): conforms in everything but the absent attribute(s) -/
theorem conforms_v21_Constant : entryOKExcept ["sparse_value"] ("v21._Constant", Generated.Ctors.v21.f_constant, Generated.Schemas.v21.s_Constant_21) = true := by decide +kernel

theorem slots_v21_Constant : slotOK ("v21._Constant", Generated.Ctors.v21.f_constant, Generated.Schemas.v21.s_Constant_21) = true := by decide +kernel

theorem conforms_v21_ConstantOfShape : entryOK ("v21._ConstantOfShape", Generated.Ctors.v21.f_constant_of_shape, Generated.Schemas.v21.s_ConstantOfShape_21) = true := by decide +kernel

theorem slots_v21_ConstantOfShape : slotOK ("v21._ConstantOfShape", Generated.Ctors.v21.f_constant_of_shape, Generated.Schemas.v21.s_ConstantOfShape_21) = true := by decide +kernel

theorem conforms_v21_Conv : entryOK ("v17._Conv", Generated.Ctors.v17.f_conv, Generated.Schemas.v17.s_Conv_11) = true := Generated.Conforms.v17.conforms_v17_Conv

theorem slots_v21_Conv : slotOK ("v17._Conv", Generated.Ctors.v17.f_conv, Generated.Schemas.v17.s_Conv_11) = true := Generated.Conforms.v17.slots_v17_Conv

theorem conforms_v21_ConvInteger : entryOK ("v17._ConvInteger", Generated.Ctors.v17.f_conv_integer, Generated.Schemas.v17.s_ConvInteger_10) = true := Generated.Conforms.v17.conforms_v17_ConvInteger

theorem slots_v21_ConvInteger : slotOK ("v17._ConvInteger", Generated.Ctors.v17.f_conv_integer, Generated.Schemas.v17.s_ConvInteger_10) = true := Generated.Conforms.v17.slots_v17_ConvInteger

theorem conforms_v21_ConvTranspose : entryOK ("v17._ConvTranspose", Generated.Ctors.v17.f_conv_transpose, Generated.Schemas.v17.s_ConvTranspose_11) = true := Generated.Conforms.v17.conforms_v17_ConvTranspose

theorem slots_v21_ConvTranspose : slotOK ("v17._ConvTranspose", Generated.Ctors.v17.f_conv_transpose, Generated.Schemas.v17.s_ConvTranspose_11) = true := Generated.Conforms.v17.slots_v17_ConvTranspose

theorem conforms_v21_Cos : entryOK ("v17._Cos", Generated.Ctors.v17.f_cos, Generated.Schemas.v17.s_Cos_7) = true := Generated.Conforms.v17.conforms_v17_Cos

theorem slots_v21_Cos : slotOK ("v17._Cos", Generated.Ctors.v17.f_cos, Generated.Schemas.v17.s_Cos_7) = true := Generated.Conforms.v17.slots_v17_Cos

theorem conforms_v21_Cosh : entryOK ("v17._Cosh", Generated.Ctors.v17.f_cosh, Generated.Schemas.v17.s_Cosh_9) = true := Generated.Conforms.v17.conforms_v17_Cosh

theorem slots_v21_Cosh : slotOK ("v17._Cosh", Generated.Ctors.v17.f_cosh, Generated.Schemas.v17.s_Cosh_9) = true := Generated.Conforms.v17.slots_v17_Cosh

theorem conforms_v21_CumSum : entryOK ("v17._CumSum", Generated.Ctors.v17.f_cumsum, Generated.Schemas.v17.s_CumSum_14) = true := Generated.Conforms.v17.conforms_v17_CumSum

theorem slots_v21_CumSum : slotOK ("v17._CumSum", Generated.Ctors.v17.f_cumsum, Generated.Schemas.v17.s_CumSum_14) = true := Generated.Conforms.v17.slots_v17_CumSum

theorem conforms_v21_DFT : entryOK ("v20._DFT", Generated.Ctors.v20.f_dft, Generated.Schemas.v20.s_DFT_20) = true := Generated.Conforms.v20.conforms_v20_DFT

theorem slots_v21_DFT : slotOK ("v20._DFT", Generated.Ctors.v20.f_dft, Generated.Schemas.v20.s_DFT_20) = true := Generated.Conforms.v20.slots_v20_DFT

theorem conforms_v21_DeformConv : entryOK ("v19._DeformConv", Generated.Ctors.v19.f_deform_conv, Generated.Schemas.v19.s_DeformConv_19) = true := Generated.Conforms.v19.conforms_v19_DeformConv

theorem slots_v21_DeformConv : slotOK ("v19._DeformConv", Generated.Ctors.v19.f_deform_conv, Generated.Schemas.v19.s_DeformConv_19) = true := Generated.Conforms.v19.slots_v19_DeformConv

theorem conforms_v21_DepthToSpace : entryOK ("v17._DepthToSpace", Generated.Ctors.v17.f_depth_to_space, Generated.Schemas.v17.s_DepthToSpace_13) = true := Generated.Conforms.v17.conforms_v17_DepthToSpace

theorem slots_v21_DepthToSpace : slotOK ("v17._DepthToSpace", Generated.Ctors.v17.f_depth_to_space, Generated.Schemas.v17.s_DepthToSpace_13) = true := Generated.Conforms.v17.slots_v17_DepthToSpace

theorem conforms_v21_DequantizeLinear : entryOK ("v21._DequantizeLinear", Generated.Ctors.v21.f_dequantize_linear, Generated.Schemas.v21.s_DequantizeLinear_21) = true := by decide +kernel

theorem slots_v21_DequantizeLinear : slotOK ("v21._DequantizeLinear", Generated.Ctors.v21.f_dequantize_linear, Generated.Schemas.v21.s_DequantizeLinear_21) = true := by decide +kernel

theorem conforms_v21_Det : entryOK ("v17._Det", Generated.Ctors.v17.f_det, Generated.Schemas.v17.s_Det_11) = true := Generated.Conforms.v17.conforms_v17_Det

theorem slots_v21_Det : slotOK ("v17._Det", Generated.Ctors.v17.f_det, Generated.Schemas.v17.s_Det_11) = true := Generated.Conforms.v17.slots_v17_Det

theorem conforms_v21_Div : entryOK ("v17._Div", Generated.Ctors.v17.f_div, Generated.Schemas.v17.s_Div_14) = true := Generated.Conforms.v17.conforms_v17_Div

theorem slots_v21_Div : slotOK ("v17._Div", Generated.Ctors.v17.f_div, Generated.Schemas.v17.s_Div_14) = true := Generated.Conforms.v17.slots_v17_Div

theorem conforms_v21_Dropout : entryOK ("v17._Dropout", Generated.Ctors.v17.f_dropout, Generated.Schemas.v17.s_Dropout_13) = true := Generated.Conforms.v17.conforms_v17_Dropout

theorem slots_v21_Dropout : slotOK ("v17._Dropout", Generated.Ctors.v17.f_dropout, Generated.Schemas.v17.s_Dropout_13) = true := Generated.Conforms.v17.slots_v17_Dropout

theorem conforms_v21_DynamicQuantizeLinear : entryOK ("v17._DynamicQuantizeLinear", Generated.Ctors.v17.f_dynamic_quantize_linear, Generated.Schemas.v17.s_DynamicQuantizeLinear_11) = true := Generated.Conforms.v17.conforms_v17_DynamicQuantizeLinear

theorem slots_v21_DynamicQuantizeLinear : slotOK ("v17._DynamicQuantizeLinear", Generated.Ctors.v17.f_dynamic_quantize_linear, Generated.Schemas.v17.s_DynamicQuantizeLinear_11) = true := Generated.Conforms.v17.slots_v17_DynamicQuantizeLinear

theorem conforms_v21_Einsum : entryOK ("v17._Einsum", Generated.Ctors.v17.f_einsum, Generated.Schemas.v17.s_Einsum_12) = true := Generated.Conforms.v17.conforms_v17_Einsum

theorem slots_v21_Einsum : slotOK ("v17._Einsum", Generated.Ctors.v17.f_einsum, Generated.Schemas.v17.s_Einsum_12) = true := Generated.Conforms.v17.slots_v17_Einsum

theorem conforms_v21_Elu : entryOK ("v17._Elu", Generated.Ctors.v17.f_elu, Generated.Schemas.v17.s_Elu_6) = true := Generated.Conforms.v17.conforms_v17_Elu

theorem slots_v21_Elu : slotOK ("v17._Elu", Generated.Ctors.v17.f_elu, Generated.Schemas.v17.s_Elu_6) = true := Generated.Conforms.v17.slots_v17_Elu

theorem conforms_v21_Equal : entryOK ("v19._Equal", Generated.Ctors.v19.f_equal, Generated.Schemas.v19.s_Equal_19) = true := Generated.Conforms.v19.conforms_v19_Equal

theorem slots_v21_Equal : slotOK ("v19._Equal", Generated.Ctors.v19.f_equal, Generated.Schemas.v19.s_Equal_19) = true := Generated.Conforms.v19.slots_v19_Equal

theorem conforms_v21_Erf : entryOK ("v17._Erf", Generated.Ctors.v17.f_erf, Generated.Schemas.v17.s_Erf_13) = true := Generated.Conforms.v17.conforms_v17_Erf

theorem slots_v21_Erf : slotOK ("v17._Erf", Generated.Ctors.v17.f_erf, Generated.Schemas.v17.s_Erf_13) = true := Generated.Conforms.v17.slots_v17_Erf

theorem conforms_v21_Exp : entryOK ("v17._Exp", Generated.Ctors.v17.f_exp, Generated.Schemas.v17.s_Exp_13) = true := Generated.Conforms.v17.conforms_v17_Exp

theorem slots_v21_Exp : slotOK ("v17._Exp", Generated.Ctors.v17.f_exp, Generated.Schemas.v17.s_Exp_13) = true := Generated.Conforms.v17.slots_v17_Exp

theorem conforms_v21_Expand : entryOK ("v17._Expand", Generated.Ctors.v17.f_expand, Generated.Schemas.v17.s_Expand_13) = true := Generated.Conforms.v17.conforms_v17_Expand

theorem slots_v21_Expand : slotOK ("v17._Expand", Generated.Ctors.v17.f_expand, Generated.Schemas.v17.s_Expand_13) = true := Generated.Conforms.v17.slots_v17_Expand

theorem conforms_v21_EyeLike : entryOK ("v17._EyeLike", Generated.Ctors.v17.f_eye_like, Generated.Schemas.v17.s_EyeLike_9) = true := Generated.Conforms.v17.conforms_v17_EyeLike

theorem slots_v21_EyeLike : slotOK ("v17._EyeLike", Generated.Ctors.v17.f_eye_like, Generated.Schemas.v17.s_EyeLike_9) = true := Generated.Conforms.v17.slots_v17_EyeLike

theorem conforms_v21_Flatten : entryOK ("v21._Flatten", Generated.Ctors.v21.f_flatten, Generated.Schemas.v21.s_Flatten_21) = true := by decide +kernel

theorem slots_v21_Flatten : slotOK ("v21._Flatten", Generated.Ctors.v21.f_flatten, Generated.Schemas.v21.s_Flatten_21) = true := by decide +kernel

theorem conforms_v21_Floor : entryOK ("v17._Floor", Generated.Ctors.v17.f_floor, Generated.Schemas.v17.s_Floor_13) = true := Generated.Conforms.v17.conforms_v17_Floor

theorem slots_v21_Floor : slotOK ("v17._Floor", Generated.Ctors.v17.f_floor, Generated.Schemas.v17.s_Floor_13) = true := Generated.Conforms.v17.slots_v17_Floor

theorem conforms_v21_GRU : entryOK ("v17._GRU", Generated.Ctors.v17.f_gru, Generated.Schemas.v17.s_GRU_14) = true := Generated.Conforms.v17.conforms_v17_GRU

theorem slots_v21_GRU : slotOK ("v17._GRU", Generated.Ctors.v17.f_gru, Generated.Schemas.v17.s_GRU_14) = true := Generated.Conforms.v17.slots_v17_GRU

theorem conforms_v21_Gather : entryOK ("v17._Gather", Generated.Ctors.v17.f_gather, Generated.Schemas.v17.s_Gather_13) = true := Generated.Conforms.v17.conforms_v17_Gather

theorem slots_v21_Gather : slotOK ("v17._Gather", Generated.Ctors.v17.f_gather, Generated.Schemas.v17.s_Gather_13) = true := Generated.Conforms.v17.slots_v17_Gather

theorem conforms_v21_GatherElements : entryOK ("v17._GatherElements", Generated.Ctors.v17.f_gather_elements, Generated.Schemas.v17.s_GatherElements_13) = true := Generated.Conforms.v17.conforms_v17_GatherElements

theorem slots_v21_GatherElements : slotOK ("v17._GatherElements", Generated.Ctors.v17.f_gather_elements, Generated.Schemas.v17.s_GatherElements_13) = true := Generated.Conforms.v17.slots_v17_GatherElements

theorem conforms_v21_GatherND : entryOK ("v17._GatherND", Generated.Ctors.v17.f_gather_nd, Generated.Schemas.v17.s_GatherND_13) = true := Generated.Conforms.v17.conforms_v17_GatherND

theorem slots_v21_GatherND : slotOK ("v17._GatherND", Generated.Ctors.v17.f_gather_nd, Generated.Schemas.v17.s_GatherND_13) = true := Generated.Conforms.v17.slots_v17_GatherND

theorem conforms_v21_Gelu : entryOK ("v20._Gelu", Generated.Ctors.v20.f_gelu, Generated.Schemas.v20.s_Gelu_20) = true := Generated.Conforms.v20.conforms_v20_Gelu

theorem slots_v21_Gelu : slotOK ("v20._Gelu", Generated.Ctors.v20.f_gelu, Generated.Schemas.v20.s_Gelu_20) = true := Generated.Conforms.v20.slots_v20_Gelu

theorem conforms_v21_Gemm : entryOK ("v17._Gemm", Generated.Ctors.v17.f_gemm, Generated.Schemas.v17.s_Gemm_13) = true := Generated.Conforms.v17.conforms_v17_Gemm

theorem slots_v21_Gemm : slotOK ("v17._Gemm", Generated.Ctors.v17.f_gemm, Generated.Schemas.v17.s_Gemm_13) = true := Generated.Conforms.v17.slots_v17_Gemm

theorem conforms_v21_GlobalAveragePool : entryOK ("v17._GlobalAveragePool", Generated.Ctors.v17.f_global_average_pool, Generated.Schemas.v17.s_GlobalAveragePool_1) = true := Generated.Conforms.v17.conforms_v17_GlobalAveragePool

theorem slots_v21_GlobalAveragePool : slotOK ("v17._GlobalAveragePool", Generated.Ctors.v17.f_global_average_pool, Generated.Schemas.v17.s_GlobalAveragePool_1) = true := Generated.Conforms.v17.slots_v17_GlobalAveragePool

theorem conforms_v21_GlobalLpPool : entryOK ("v17._GlobalLpPool", Generated.Ctors.v17.f_global_lp_pool, Generated.Schemas.v17.s_GlobalLpPool_2) = true := Generated.Conforms.v17.conforms_v17_GlobalLpPool

theorem slots_v21_GlobalLpPool : slotOK ("v17._GlobalLpPool", Generated.Ctors.v17.f_global_lp_pool, Generated.Schemas.v17.s_GlobalLpPool_2) = true := Generated.Conforms.v17.slots_v17_GlobalLpPool

theorem conforms_v21_GlobalMaxPool : entryOK ("v17._GlobalMaxPool", Generated.Ctors.v17.f_global_max_pool, Generated.Schemas.v17.s_GlobalMaxPool_1) = true := Generated.Conforms.v17.conforms_v17_GlobalMaxPool

theorem slots_v21_GlobalMaxPool : slotOK ("v17._GlobalMaxPool", Generated.Ctors.v17.f_global_max_pool, Generated.Schemas.v17.s_GlobalMaxPool_1) = true := Generated.Conforms.v17.slots_v17_GlobalMaxPool

theorem conforms_v21_Greater : entryOK ("v17._Greater", Generated.Ctors.v17.f_greater, Generated.Schemas.v17.s_Greater_13) = true := Generated.Conforms.v17.conforms_v17_Greater

theorem slots_v21_Greater : slotOK ("v17._Greater", Generated.Ctors.v17.f_greater, Generated.Schemas.v17.s_Greater_13) = true := Generated.Conforms.v17.slots_v17_Greater

theorem conforms_v21_GreaterOrEqual : entryOK ("v17._GreaterOrEqual", Generated.Ctors.v17.f_greater_or_equal, Generated.Schemas.v17.s_GreaterOrEqual_16) = true := Generated.Conforms.v17.conforms_v17_GreaterOrEqual

theorem slots_v21_GreaterOrEqual : slotOK ("v17._GreaterOrEqual", Generated.Ctors.v17.f_greater_or_equal, Generated.Schemas.v17.s_GreaterOrEqual_16) = true := Generated.Conforms.v17.slots_v17_GreaterOrEqual

theorem conforms_v21_GridSample : entryOK ("v20._GridSample", Generated.Ctors.v20.f_grid_sample, Generated.Schemas.v20.s_GridSample_20) = true := Generated.Conforms.v20.conforms_v20_GridSample

theorem slots_v21_GridSample : slotOK ("v20._GridSample", Generated.Ctors.v20.f_grid_sample, Generated.Schemas.v20.s_GridSample_20) = true := Generated.Conforms.v20.slots_v20_GridSample

theorem conforms_v21_GroupNormalization : entryOK ("v21._GroupNormalization", Generated.Ctors.v21.f_group_normalization, Generated.Schemas.v21.s_GroupNormalization_21) = true := by decide +kernel

theorem slots_v21_GroupNormalization : slotOK ("v21._GroupNormalization", Generated.Ctors.v21.f_group_normalization, Generated.Schemas.v21.s_GroupNormalization_21) = true := by decide +kernel

theorem conforms_v21_HammingWindow : entryOK ("v17._HammingWindow", Generated.Ctors.v17.f_hamming_window, Generated.Schemas.v17.s_HammingWindow_17) = true := Generated.Conforms.v17.conforms_v17_HammingWindow

theorem slots_v21_HammingWindow : slotOK ("v17._HammingWindow", Generated.Ctors.v17.f_hamming_window, Generated.Schemas.v17.s_HammingWindow_17) = true := Generated.Conforms.v17.slots_v17_HammingWindow

theorem conforms_v21_HannWindow : entryOK ("v17._HannWindow", Generated.Ctors.v17.f_hann_window, Generated.Schemas.v17.s_HannWindow_17) = true := Generated.Conforms.v17.conforms_v17_HannWindow

theorem slots_v21_HannWindow : slotOK ("v17._HannWindow", Generated.Ctors.v17.f_hann_window, Generated.Schemas.v17.s_HannWindow_17) = true := Generated.Conforms.v17.slots_v17_HannWindow

theorem conforms_v21_HardSigmoid : entryOK ("v17._HardSigmoid", Generated.Ctors.v17.f_hard_sigmoid, Generated.Schemas.v17.s_HardSigmoid_6) = true := Generated.Conforms.v17.conforms_v17_HardSigmoid

theorem slots_v21_HardSigmoid : slotOK ("v17._HardSigmoid", Generated.Ctors.v17.f_hard_sigmoid, Generated.Schemas.v17.s_HardSigmoid_6) = true := Generated.Conforms.v17.slots_v17_HardSigmoid

theorem conforms_v21_HardSwish : entryOK ("v17._HardSwish", Generated.Ctors.v17.f_hard_swish, Generated.Schemas.v17.s_HardSwish_14) = true := Generated.Conforms.v17.conforms_v17_HardSwish

theorem slots_v21_HardSwish : slotOK ("v17._HardSwish", Generated.Ctors.v17.f_hard_swish, Generated.Schemas.v17.s_HardSwish_14) = true := Generated.Conforms.v17.slots_v17_HardSwish

theorem conforms_v21_Hardmax : entryOK ("v17._Hardmax", Generated.Ctors.v17.f_hardmax, Generated.Schemas.v17.s_Hardmax_13) = true := Generated.Conforms.v17.conforms_v17_Hardmax

theorem slots_v21_Hardmax : slotOK ("v17._Hardmax", Generated.Ctors.v17.f_hardmax, Generated.Schemas.v17.s_Hardmax_13) = true := Generated.Conforms.v17.slots_v17_Hardmax

theorem conforms_v21_Identity : entryOK ("v21._Identity", Generated.Ctors.v21.f_identity, Generated.Schemas.v21.s_Identity_21) = true := by decide +kernel

theorem slots_v21_Identity : slotOK ("v21._Identity", Generated.Ctors.v21.f_identity, Generated.Schemas.v21.s_Identity_21) = true := by decide +kernel

theorem conforms_v21_If : entryOK ("v21._If", Generated.Ctors.v21.f_if_, Generated.Schemas.v21.s_If_21) = true := by decide +kernel

theorem slots_v21_If : slotOK ("v21._If", Generated.Ctors.v21.f_if_, Generated.Schemas.v21.s_If_21) = true := by decide +kernel

theorem conforms_v21_ImageDecoder : entryOK ("v20._ImageDecoder", Generated.Ctors.v20.f_image_decoder, Generated.Schemas.v20.s_ImageDecoder_20) = true := Generated.Conforms.v20.conforms_v20_ImageDecoder

theorem slots_v21_ImageDecoder : slotOK ("v20._ImageDecoder", Generated.Ctors.v20.f_image_decoder, Generated.Schemas.v20.s_ImageDecoder_20) = true := Generated.Conforms.v20.slots_v20_ImageDecoder

theorem conforms_v21_InstanceNormalization : entryOK ("v17._InstanceNormalization", Generated.Ctors.v17.f_instance_normalization, Generated.Schemas.v17.s_InstanceNormalization_6) = true := Generated.Conforms.v17.conforms_v17_InstanceNormalization

theorem slots_v21_InstanceNormalization : slotOK ("v17._InstanceNormalization", Generated.Ctors.v17.f_instance_normalization, Generated.Schemas.v17.s_InstanceNormalization_6) = true := Generated.Conforms.v17.slots_v17_InstanceNormalization

theorem conforms_v21_IsInf : entryOK ("v20._IsInf", Generated.Ctors.v20.f_isinf, Generated.Schemas.v20.s_IsInf_20) = true := Generated.Conforms.v20.conforms_v20_IsInf

theorem slots_v21_IsInf : slotOK ("v20._IsInf", Generated.Ctors.v20.f_isinf, Generated.Schemas.v20.s_IsInf_20) = true := Generated.Conforms.v20.slots_v20_IsInf

theorem conforms_v21_IsNaN : entryOK ("v20._IsNaN", Generated.Ctors.v20.f_isnan, Generated.Schemas.v20.s_IsNaN_20) = true := Generated.Conforms.v20.conforms_v20_IsNaN

theorem slots_v21_IsNaN : slotOK ("v20._IsNaN", Generated.Ctors.v20.f_isnan, Generated.Schemas.v20.s_IsNaN_20) = true := Generated.Conforms.v20.slots_v20_IsNaN

theorem conforms_v21_LRN : entryOK ("v17._LRN", Generated.Ctors.v17.f_lrn, Generated.Schemas.v17.s_LRN_13) = true := Generated.Conforms.v17.conforms_v17_LRN

theorem slots_v21_LRN : slotOK ("v17._LRN", Generated.Ctors.v17.f_lrn, Generated.Schemas.v17.s_LRN_13) = true := Generated.Conforms.v17.slots_v17_LRN

theorem conforms_v21_LSTM : entryOK ("v17._LSTM", Generated.Ctors.v17.f_lstm, Generated.Schemas.v17.s_LSTM_14) = true := Generated.Conforms.v17.conforms_v17_LSTM

theorem slots_v21_LSTM : slotOK ("v17._LSTM", Generated.Ctors.v17.f_lstm, Generated.Schemas.v17.s_LSTM_14) = true := Generated.Conforms.v17.slots_v17_LSTM

theorem conforms_v21_LayerNormalization : entryOK ("v17._LayerNormalization", Generated.Ctors.v17.f_layer_normalization, Generated.Schemas.v17.s_LayerNormalization_17) = true := Generated.Conforms.v17.conforms_v17_LayerNormalization

theorem slots_v21_LayerNormalization : slotOK ("v17._LayerNormalization", Generated.Ctors.v17.f_layer_normalization, Generated.Schemas.v17.s_LayerNormalization_17) = true := Generated.Conforms.v17.slots_v17_LayerNormalization

theorem conforms_v21_LeakyRelu : entryOK ("v17._LeakyRelu", Generated.Ctors.v17.f_leaky_relu, Generated.Schemas.v17.s_LeakyRelu_16) = true := Generated.Conforms.v17.conforms_v17_LeakyRelu

theorem slots_v21_LeakyRelu : slotOK ("v17._LeakyRelu", Generated.Ctors.v17.f_leaky_relu, Generated.Schemas.v17.s_LeakyRelu_16) = true := Generated.Conforms.v17.slots_v17_LeakyRelu

theorem conforms_v21_Less : entryOK ("v17._Less", Generated.Ctors.v17.f_less, Generated.Schemas.v17.s_Less_13) = true := Generated.Conforms.v17.conforms_v17_Less

theorem slots_v21_Less : slotOK ("v17._Less", Generated.Ctors.v17.f_less, Generated.Schemas.v17.s_Less_13) = true := Generated.Conforms.v17.slots_v17_Less

theorem conforms_v21_LessOrEqual : entryOK ("v17._LessOrEqual", Generated.Ctors.v17.f_less_or_equal, Generated.Schemas.v17.s_LessOrEqual_16) = true := Generated.Conforms.v17.conforms_v17_LessOrEqual

theorem slots_v21_LessOrEqual : slotOK ("v17._LessOrEqual", Generated.Ctors.v17.f_less_or_equal, Generated.Schemas.v17.s_LessOrEqual_16) = true := Generated.Conforms.v17.slots_v17_LessOrEqual

theorem conforms_v21_Log : entryOK ("v17._Log", Generated.Ctors.v17.f_log, Generated.Schemas.v17.s_Log_13) = true := Generated.Conforms.v17.conforms_v17_Log

theorem slots_v21_Log : slotOK ("v17._Log", Generated.Ctors.v17.f_log, Generated.Schemas.v17.s_Log_13) = true := Generated.Conforms.v17.slots_v17_Log

theorem conforms_v21_LogSoftmax : entryOK ("v17._LogSoftmax", Generated.Ctors.v17.f_log_softmax, Generated.Schemas.v17.s_LogSoftmax_13) = true := Generated.Conforms.v17.conforms_v17_LogSoftmax

theorem slots_v21_LogSoftmax : slotOK ("v17._LogSoftmax", Generated.Ctors.v17.f_log_softmax, Generated.Schemas.v17.s_LogSoftmax_13) = true := Generated.Conforms.v17.slots_v17_LogSoftmax

theorem conforms_v21_Loop : entryOK ("v21._Loop", Generated.Ctors.v21.f_loop, Generated.Schemas.v21.s_Loop_21) = true := by decide +kernel

theorem slots_v21_Loop : slotOK ("v21._Loop", Generated.Ctors.v21.f_loop, Generated.Schemas.v21.s_Loop_21) = true := by decide +kernel

theorem conforms_v21_LpNormalization : entryOK ("v17._LpNormalization", Generated.Ctors.v17.f_lp_normalization, Generated.Schemas.v17.s_LpNormalization_1) = true := Generated.Conforms.v17.conforms_v17_LpNormalization

theorem slots_v21_LpNormalization : slotOK ("v17._LpNormalization", Generated.Ctors.v17.f_lp_normalization, Generated.Schemas.v17.s_LpNormalization_1) = true := Generated.Conforms.v17.slots_v17_LpNormalization

theorem conforms_v21_LpPool : entryOK ("v18._LpPool", Generated.Ctors.v18.f_lp_pool, Generated.Schemas.v18.s_LpPool_18) = true := Generated.Conforms.v18.conforms_v18_LpPool

theorem slots_v21_LpPool : slotOK ("v18._LpPool", Generated.Ctors.v18.f_lp_pool, Generated.Schemas.v18.s_LpPool_18) = true := Generated.Conforms.v18.slots_v18_LpPool

theorem conforms_v21_MatMul : entryOK ("v17._MatMul", Generated.Ctors.v17.f_matmul, Generated.Schemas.v17.s_MatMul_13) = true := Generated.Conforms.v17.conforms_v17_MatMul

theorem slots_v21_MatMul : slotOK ("v17._MatMul", Generated.Ctors.v17.f_matmul, Generated.Schemas.v17.s_MatMul_13) = true := Generated.Conforms.v17.slots_v17_MatMul

theorem conforms_v21_MatMulInteger : entryOK ("v17._MatMulInteger", Generated.Ctors.v17.f_matmul_integer, Generated.Schemas.v17.s_MatMulInteger_10) = true := Generated.Conforms.v17.conforms_v17_MatMulInteger

theorem slots_v21_MatMulInteger : slotOK ("v17._MatMulInteger", Generated.Ctors.v17.f_matmul_integer, Generated.Schemas.v17.s_MatMulInteger_10) = true := Generated.Conforms.v17.slots_v17_MatMulInteger

theorem conforms_v21_Max : entryOK ("v17._Max", Generated.Ctors.v17.f_max, Generated.Schemas.v17.s_Max_13) = true := Generated.Conforms.v17.conforms_v17_Max

theorem slots_v21_Max : slotOK ("v17._Max", Generated.Ctors.v17.f_max, Generated.Schemas.v17.s_Max_13) = true := Generated.Conforms.v17.slots_v17_Max

theorem conforms_v21_MaxPool : entryOK ("v17._MaxPool", Generated.Ctors.v17.f_max_pool, Generated.Schemas.v17.s_MaxPool_12) = true := Generated.Conforms.v17.conforms_v17_MaxPool

theorem slots_v21_MaxPool : slotOK ("v17._MaxPool", Generated.Ctors.v17.f_max_pool, Generated.Schemas.v17.s_MaxPool_12) = true := Generated.Conforms.v17.slots_v17_MaxPool

theorem conforms_v21_MaxRoiPool : entryOK ("v17._MaxRoiPool", Generated.Ctors.v17.f_max_roi_pool, Generated.Schemas.v17.s_MaxRoiPool_1) = true := Generated.Conforms.v17.conforms_v17_MaxRoiPool

theorem slots_v21_MaxRoiPool : slotOK ("v17._MaxRoiPool", Generated.Ctors.v17.f_max_roi_pool, Generated.Schemas.v17.s_MaxRoiPool_1) = true := Generated.Conforms.v17.slots_v17_MaxRoiPool

theorem conforms_v21_MaxUnpool : entryOK ("v17._MaxUnpool", Generated.Ctors.v17.f_max_unpool, Generated.Schemas.v17.s_MaxUnpool_11) = true := Generated.Conforms.v17.conforms_v17_MaxUnpool

theorem slots_v21_MaxUnpool : slotOK ("v17._MaxUnpool", Generated.Ctors.v17.f_max_unpool, Generated.Schemas.v17.s_MaxUnpool_11) = true := Generated.Conforms.v17.slots_v17_MaxUnpool

theorem conforms_v21_Mean : entryOK ("v17._Mean", Generated.Ctors.v17.f_mean, Generated.Schemas.v17.s_Mean_13) = true := Generated.Conforms.v17.conforms_v17_Mean

theorem slots_v21_Mean : slotOK ("v17._Mean", Generated.Ctors.v17.f_mean, Generated.Schemas.v17.s_Mean_13) = true := Generated.Conforms.v17.slots_v17_Mean

theorem conforms_v21_MeanVarianceNormalization : entryOK ("v17._MeanVarianceNormalization", Generated.Ctors.v17.f_mean_variance_normalization, Generated.Schemas.v17.s_MeanVarianceNormalization_13) = true := Generated.Conforms.v17.conforms_v17_MeanVarianceNormalization

theorem slots_v21_MeanVarianceNormalization : slotOK ("v17._MeanVarianceNormalization", Generated.Ctors.v17.f_mean_variance_normalization, Generated.Schemas.v17.s_MeanVarianceNormalization_13) = true := Generated.Conforms.v17.slots_v17_MeanVarianceNormalization

theorem conforms_v21_MelWeightMatrix : entryOK ("v17._MelWeightMatrix", Generated.Ctors.v17.f_mel_weight_matrix, Generated.Schemas.v17.s_MelWeightMatrix_17) = true := Generated.Conforms.v17.conforms_v17_MelWeightMatrix

theorem slots_v21_MelWeightMatrix : slotOK ("v17._MelWeightMatrix", Generated.Ctors.v17.f_mel_weight_matrix, Generated.Schemas.v17.s_MelWeightMatrix_17) = true := Generated.Conforms.v17.slots_v17_MelWeightMatrix

theorem conforms_v21_Min : entryOK ("v17._Min", Generated.Ctors.v17.f_min, Generated.Schemas.v17.s_Min_13) = true := Generated.Conforms.v17.conforms_v17_Min

theorem slots_v21_Min : slotOK ("v17._Min", Generated.Ctors.v17.f_min, Generated.Schemas.v17.s_Min_13) = true := Generated.Conforms.v17.slots_v17_Min

theorem conforms_v21_Mish : entryOK ("v18._Mish", Generated.Ctors.v18.f_mish, Generated.Schemas.v18.s_Mish_18) = true := Generated.Conforms.v18.conforms_v18_Mish

theorem slots_v21_Mish : slotOK ("v18._Mish", Generated.Ctors.v18.f_mish, Generated.Schemas.v18.s_Mish_18) = true := Generated.Conforms.v18.slots_v18_Mish

theorem conforms_v21_Mod : entryOK ("v17._Mod", Generated.Ctors.v17.f_mod, Generated.Schemas.v17.s_Mod_13) = true := Generated.Conforms.v17.conforms_v17_Mod

theorem slots_v21_Mod : slotOK ("v17._Mod", Generated.Ctors.v17.f_mod, Generated.Schemas.v17.s_Mod_13) = true := Generated.Conforms.v17.slots_v17_Mod

theorem conforms_v21_Mul : entryOK ("v17._Mul", Generated.Ctors.v17.f_mul, Generated.Schemas.v17.s_Mul_14) = true := Generated.Conforms.v17.conforms_v17_Mul

theorem slots_v21_Mul : slotOK ("v17._Mul", Generated.Ctors.v17.f_mul, Generated.Schemas.v17.s_Mul_14) = true := Generated.Conforms.v17.slots_v17_Mul

theorem conforms_v21_Multinomial : entryOK ("v17._Multinomial", Generated.Ctors.v17.f_multinomial, Generated.Schemas.v17.s_Multinomial_7) = true := Generated.Conforms.v17.conforms_v17_Multinomial

theorem slots_v21_Multinomial : slotOK ("v17._Multinomial", Generated.Ctors.v17.f_multinomial, Generated.Schemas.v17.s_Multinomial_7) = true := Generated.Conforms.v17.slots_v17_Multinomial

theorem conforms_v21_Neg : entryOK ("v17._Neg", Generated.Ctors.v17.f_neg, Generated.Schemas.v17.s_Neg_13) = true := Generated.Conforms.v17.conforms_v17_Neg

theorem slots_v21_Neg : slotOK ("v17._Neg", Generated.Ctors.v17.f_neg, Generated.Schemas.v17.s_Neg_13) = true := Generated.Conforms.v17.slots_v17_Neg

theorem conforms_v21_NegativeLogLikelihoodLoss : entryOK ("v17._NegativeLogLikelihoodLoss", Generated.Ctors.v17.f_negative_log_likelihood_loss, Generated.Schemas.v17.s_NegativeLogLikelihoodLoss_13) = true := Generated.Conforms.v17.conforms_v17_NegativeLogLikelihoodLoss

theorem slots_v21_NegativeLogLikelihoodLoss : slotOK ("v17._NegativeLogLikelihoodLoss", Generated.Ctors.v17.f_negative_log_likelihood_loss, Generated.Schemas.v17.s_NegativeLogLikelihoodLoss_13) = true := Generated.Conforms.v17.slots_v17_NegativeLogLikelihoodLoss

theorem conforms_v21_NonMaxSuppression : entryOK ("v17._NonMaxSuppression", Generated.Ctors.v17.f_non_max_suppression, Generated.Schemas.v17.s_NonMaxSuppression_11) = true := Generated.Conforms.v17.conforms_v17_NonMaxSuppression

theorem slots_v21_NonMaxSuppression : slotOK ("v17._NonMaxSuppression", Generated.Ctors.v17.f_non_max_suppression, Generated.Schemas.v17.s_NonMaxSuppression_11) = true := Generated.Conforms.v17.slots_v17_NonMaxSuppression

theorem conforms_v21_NonZero : entryOK ("v17._NonZero", Generated.Ctors.v17.f_non_zero, Generated.Schemas.v17.s_NonZero_13) = true := Generated.Conforms.v17.conforms_v17_NonZero

theorem slots_v21_NonZero : slotOK ("v17._NonZero", Generated.Ctors.v17.f_non_zero, Generated.Schemas.v17.s_NonZero_13) = true := Generated.Conforms.v17.slots_v17_NonZero

theorem conforms_v21_Not : entryOK ("v17._Not", Generated.Ctors.v17.f_not_, Generated.Schemas.v17.s_Not_1) = true := Generated.Conforms.v17.conforms_v17_Not

theorem slots_v21_Not : slotOK ("v17._Not", Generated.Ctors.v17.f_not_, Generated.Schemas.v17.s_Not_1) = true := Generated.Conforms.v17.slots_v17_Not

theorem conforms_v21_OneHot : entryOK ("v17._OneHot", Generated.Ctors.v17.f_one_hot, Generated.Schemas.v17.s_OneHot_11) = true := Generated.Conforms.v17.conforms_v17_OneHot

theorem slots_v21_OneHot : slotOK ("v17._OneHot", Generated.Ctors.v17.f_one_hot, Generated.Schemas.v17.s_OneHot_11) = true := Generated.Conforms.v17.slots_v17_OneHot

theorem conforms_v21_Optional : entryOK ("v17._Optional", Generated.Ctors.v17.f_optional, Generated.Schemas.v17.s_Optional_15) = true := Generated.Conforms.v17.conforms_v17_Optional

theorem slots_v21_Optional : slotOK ("v17._Optional", Generated.Ctors.v17.f_optional, Generated.Schemas.v17.s_Optional_15) = true := Generated.Conforms.v17.slots_v17_Optional

theorem conforms_v21_OptionalGetElement : entryOK ("v18._OptionalGetElement", Generated.Ctors.v18.f_optional_get_element, Generated.Schemas.v18.s_OptionalGetElement_18) = true := Generated.Conforms.v18.conforms_v18_OptionalGetElement

theorem slots_v21_OptionalGetElement : slotOK ("v18._OptionalGetElement", Generated.Ctors.v18.f_optional_get_element, Generated.Schemas.v18.s_OptionalGetElement_18) = true := Generated.Conforms.v18.slots_v18_OptionalGetElement

theorem conforms_v21_OptionalHasElement : entryOK ("v18._OptionalHasElement", Generated.Ctors.v18.f_optional_has_element, Generated.Schemas.v18.s_OptionalHasElement_18) = true := Generated.Conforms.v18.conforms_v18_OptionalHasElement

theorem slots_v21_OptionalHasElement : slotOK ("v18._OptionalHasElement", Generated.Ctors.v18.f_optional_has_element, Generated.Schemas.v18.s_OptionalHasElement_18) = true := Generated.Conforms.v18.slots_v18_OptionalHasElement

theorem conforms_v21_Or : entryOK ("v17._Or", Generated.Ctors.v17.f_or_, Generated.Schemas.v17.s_Or_7) = true := Generated.Conforms.v17.conforms_v17_Or

theorem slots_v21_Or : slotOK ("v17._Or", Generated.Ctors.v17.f_or_, Generated.Schemas.v17.s_Or_7) = true := Generated.Conforms.v17.slots_v17_Or

theorem conforms_v21_PRelu : entryOK ("v17._PRelu", Generated.Ctors.v17.f_prelu, Generated.Schemas.v17.s_PRelu_16) = true := Generated.Conforms.v17.conforms_v17_PRelu

theorem slots_v21_PRelu : slotOK ("v17._PRelu", Generated.Ctors.v17.f_prelu, Generated.Schemas.v17.s_PRelu_16) = true := Generated.Conforms.v17.slots_v17_PRelu

theorem conforms_v21_Pad : entryOK ("v21._Pad", Generated.Ctors.v21.f_pad, Generated.Schemas.v21.s_Pad_21) = true := by decide +kernel

theorem slots_v21_Pad : slotOK ("v21._Pad", Generated.Ctors.v21.f_pad, Generated.Schemas.v21.s_Pad_21) = true := by decide +kernel

theorem conforms_v21_Pow : entryOK ("v17._Pow", Generated.Ctors.v17.f_pow, Generated.Schemas.v17.s_Pow_15) = true := Generated.Conforms.v17.conforms_v17_Pow

theorem slots_v21_Pow : slotOK ("v17._Pow", Generated.Ctors.v17.f_pow, Generated.Schemas.v17.s_Pow_15) = true := Generated.Conforms.v17.slots_v17_Pow

theorem conforms_v21_QLinearConv : entryOK ("v17._QLinearConv", Generated.Ctors.v17.f_qlinear_conv, Generated.Schemas.v17.s_QLinearConv_10) = true := Generated.Conforms.v17.conforms_v17_QLinearConv

theorem slots_v21_QLinearConv : slotOK ("v17._QLinearConv", Generated.Ctors.v17.f_qlinear_conv, Generated.Schemas.v17.s_QLinearConv_10) = true := Generated.Conforms.v17.slots_v17_QLinearConv

theorem conforms_v21_QLinearMatMul : entryOK ("v21._QLinearMatMul", Generated.Ctors.v21.f_qlinear_matmul, Generated.Schemas.v21.s_QLinearMatMul_21) = true := by decide +kernel

theorem slots_v21_QLinearMatMul : slotOK ("v21._QLinearMatMul", Generated.Ctors.v21.f_qlinear_matmul, Generated.Schemas.v21.s_QLinearMatMul_21) = true := by decide +kernel

theorem conforms_v21_QuantizeLinear : entryOK ("v21._QuantizeLinear", Generated.Ctors.v21.f_quantize_linear, Generated.Schemas.v21.s_QuantizeLinear_21) = true := by decide +kernel

theorem slots_v21_QuantizeLinear : slotOK ("v21._QuantizeLinear", Generated.Ctors.v21.f_quantize_linear, Generated.Schemas.v21.s_QuantizeLinear_21) = true := by decide +kernel

theorem conforms_v21_RNN : entryOK ("v17._RNN", Generated.Ctors.v17.f_rnn, Generated.Schemas.v17.s_RNN_14) = true := Generated.Conforms.v17.conforms_v17_RNN

theorem slots_v21_RNN : slotOK ("v17._RNN", Generated.Ctors.v17.f_rnn, Generated.Schemas.v17.s_RNN_14) = true := Generated.Conforms.v17.slots_v17_RNN

theorem conforms_v21_RandomNormal : entryOK ("v17._RandomNormal", Generated.Ctors.v17.f_random_normal, Generated.Schemas.v17.s_RandomNormal_1) = true := Generated.Conforms.v17.conforms_v17_RandomNormal

theorem slots_v21_RandomNormal : slotOK ("v17._RandomNormal", Generated.Ctors.v17.f_random_normal, Generated.Schemas.v17.s_RandomNormal_1) = true := Generated.Conforms.v17.slots_v17_RandomNormal

theorem conforms_v21_RandomNormalLike : entryOK ("v17._RandomNormalLike", Generated.Ctors.v17.f_random_normal_like, Generated.Schemas.v17.s_RandomNormalLike_1) = true := Generated.Conforms.v17.conforms_v17_RandomNormalLike

theorem slots_v21_RandomNormalLike : slotOK ("v17._RandomNormalLike", Generated.Ctors.v17.f_random_normal_like, Generated.Schemas.v17.s_RandomNormalLike_1) = true := Generated.Conforms.v17.slots_v17_RandomNormalLike

theorem conforms_v21_RandomUniform : entryOK ("v17._RandomUniform", Generated.Ctors.v17.f_random_uniform, Generated.Schemas.v17.s_RandomUniform_1) = true := Generated.Conforms.v17.conforms_v17_RandomUniform

theorem slots_v21_RandomUniform : slotOK ("v17._RandomUniform", Generated.Ctors.v17.f_random_uniform, Generated.Schemas.v17.s_RandomUniform_1) = true := Generated.Conforms.v17.slots_v17_RandomUniform

theorem conforms_v21_RandomUniformLike : entryOK ("v17._RandomUniformLike", Generated.Ctors.v17.f_random_uniform_like, Generated.Schemas.v17.s_RandomUniformLike_1) = true := Generated.Conforms.v17.conforms_v17_RandomUniformLike

theorem slots_v21_RandomUniformLike : slotOK ("v17._RandomUniformLike", Generated.Ctors.v17.f_random_uniform_like, Generated.Schemas.v17.s_RandomUniformLike_1) = true := Generated.Conforms.v17.slots_v17_RandomUniformLike

theorem conforms_v21_Range : entryOK ("v17._Range", Generated.Ctors.v17.f_range, Generated.Schemas.v17.s_Range_11) = true := Generated.Conforms.v17.conforms_v17_Range

theorem slots_v21_Range : slotOK ("v17._Range", Generated.Ctors.v17.f_range, Generated.Schemas.v17.s_Range_11) = true := Generated.Conforms.v17.slots_v17_Range

theorem conforms_v21_Reciprocal : entryOK ("v17._Reciprocal", Generated.Ctors.v17.f_reciprocal, Generated.Schemas.v17.s_Reciprocal_13) = true := Generated.Conforms.v17.conforms_v17_Reciprocal

theorem slots_v21_Reciprocal : slotOK ("v17._Reciprocal", Generated.Ctors.v17.f_reciprocal, Generated.Schemas.v17.s_Reciprocal_13) = true := Generated.Conforms.v17.slots_v17_Reciprocal

theorem conforms_v21_ReduceL1 : entryOK ("v18._ReduceL1", Generated.Ctors.v18.f_reduce_l1, Generated.Schemas.v18.s_ReduceL1_18) = true := Generated.Conforms.v18.conforms_v18_ReduceL1

theorem slots_v21_ReduceL1 : slotOK ("v18._ReduceL1", Generated.Ctors.v18.f_reduce_l1, Generated.Schemas.v18.s_ReduceL1_18) = true := Generated.Conforms.v18.slots_v18_ReduceL1

theorem conforms_v21_ReduceL2 : entryOK ("v18._ReduceL2", Generated.Ctors.v18.f_reduce_l2, Generated.Schemas.v18.s_ReduceL2_18) = true := Generated.Conforms.v18.conforms_v18_ReduceL2

theorem slots_v21_ReduceL2 : slotOK ("v18._ReduceL2", Generated.Ctors.v18.f_reduce_l2, Generated.Schemas.v18.s_ReduceL2_18) = true := Generated.Conforms.v18.slots_v18_ReduceL2

theorem conforms_v21_ReduceLogSum : entryOK ("v18._ReduceLogSum", Generated.Ctors.v18.f_reduce_log_sum, Generated.Schemas.v18.s_ReduceLogSum_18) = true := Generated.Conforms.v18.conforms_v18_ReduceLogSum

theorem slots_v21_ReduceLogSum : slotOK ("v18._ReduceLogSum", Generated.Ctors.v18.f_reduce_log_sum, Generated.Schemas.v18.s_ReduceLogSum_18) = true := Generated.Conforms.v18.slots_v18_ReduceLogSum

theorem conforms_v21_ReduceLogSumExp : entryOK ("v18._ReduceLogSumExp", Generated.Ctors.v18.f_reduce_log_sum_exp, Generated.Schemas.v18.s_ReduceLogSumExp_18) = true := Generated.Conforms.v18.conforms_v18_ReduceLogSumExp

theorem slots_v21_ReduceLogSumExp : slotOK ("v18._ReduceLogSumExp", Generated.Ctors.v18.f_reduce_log_sum_exp, Generated.Schemas.v18.s_ReduceLogSumExp_18) = true := Generated.Conforms.v18.slots_v18_ReduceLogSumExp

theorem conforms_v21_ReduceMax : entryOK ("v20._ReduceMax", Generated.Ctors.v20.f_reduce_max, Generated.Schemas.v20.s_ReduceMax_20) = true := Generated.Conforms.v20.conforms_v20_ReduceMax

theorem slots_v21_ReduceMax : slotOK ("v20._ReduceMax", Generated.Ctors.v20.f_reduce_max, Generated.Schemas.v20.s_ReduceMax_20) = true := Generated.Conforms.v20.slots_v20_ReduceMax

theorem conforms_v21_ReduceMean : entryOK ("v18._ReduceMean", Generated.Ctors.v18.f_reduce_mean, Generated.Schemas.v18.s_ReduceMean_18) = true := Generated.Conforms.v18.conforms_v18_ReduceMean

theorem slots_v21_ReduceMean : slotOK ("v18._ReduceMean", Generated.Ctors.v18.f_reduce_mean, Generated.Schemas.v18.s_ReduceMean_18) = true := Generated.Conforms.v18.slots_v18_ReduceMean

theorem conforms_v21_ReduceMin : entryOK ("v20._ReduceMin", Generated.Ctors.v20.f_reduce_min, Generated.Schemas.v20.s_ReduceMin_20) = true := Generated.Conforms.v20.conforms_v20_ReduceMin

theorem slots_v21_ReduceMin : slotOK ("v20._ReduceMin", Generated.Ctors.v20.f_reduce_min, Generated.Schemas.v20.s_ReduceMin_20) = true := Generated.Conforms.v20.slots_v20_ReduceMin

theorem conforms_v21_ReduceProd : entryOK ("v18._ReduceProd", Generated.Ctors.v18.f_reduce_prod, Generated.Schemas.v18.s_ReduceProd_18) = true := Generated.Conforms.v18.conforms_v18_ReduceProd

theorem slots_v21_ReduceProd : slotOK ("v18._ReduceProd", Generated.Ctors.v18.f_reduce_prod, Generated.Schemas.v18.s_ReduceProd_18) = true := Generated.Conforms.v18.slots_v18_ReduceProd

theorem conforms_v21_ReduceSum : entryOK ("v17._ReduceSum", Generated.Ctors.v17.f_reduce_sum, Generated.Schemas.v17.s_ReduceSum_13) = true := Generated.Conforms.v17.conforms_v17_ReduceSum

theorem slots_v21_ReduceSum : slotOK ("v17._ReduceSum", Generated.Ctors.v17.f_reduce_sum, Generated.Schemas.v17.s_ReduceSum_13) = true := Generated.Conforms.v17.slots_v17_ReduceSum

theorem conforms_v21_ReduceSumSquare : entryOK ("v18._ReduceSumSquare", Generated.Ctors.v18.f_reduce_sum_square, Generated.Schemas.v18.s_ReduceSumSquare_18) = true := Generated.Conforms.v18.conforms_v18_ReduceSumSquare

theorem slots_v21_ReduceSumSquare : slotOK ("v18._ReduceSumSquare", Generated.Ctors.v18.f_reduce_sum_square, Generated.Schemas.v18.s_ReduceSumSquare_18) = true := Generated.Conforms.v18.slots_v18_ReduceSumSquare

theorem conforms_v21_RegexFullMatch : entryOK ("v20._RegexFullMatch", Generated.Ctors.v20.f_regex_full_match, Generated.Schemas.v20.s_RegexFullMatch_20) = true := Generated.Conforms.v20.conforms_v20_RegexFullMatch

theorem slots_v21_RegexFullMatch : slotOK ("v20._RegexFullMatch", Generated.Ctors.v20.f_regex_full_match, Generated.Schemas.v20.s_RegexFullMatch_20) = true := Generated.Conforms.v20.slots_v20_RegexFullMatch

theorem conforms_v21_Relu : entryOK ("v17._Relu", Generated.Ctors.v17.f_relu, Generated.Schemas.v17.s_Relu_14) = true := Generated.Conforms.v17.conforms_v17_Relu

theorem slots_v21_Relu : slotOK ("v17._Relu", Generated.Ctors.v17.f_relu, Generated.Schemas.v17.s_Relu_14) = true := Generated.Conforms.v17.slots_v17_Relu

theorem conforms_v21_Reshape : entryOK ("v21._Reshape", Generated.Ctors.v21.f_reshape, Generated.Schemas.v21.s_Reshape_21) = true := by decide +kernel

theorem slots_v21_Reshape : slotOK ("v21._Reshape", Generated.Ctors.v21.f_reshape, Generated.Schemas.v21.s_Reshape_21) = true := by decide +kernel

theorem conforms_v21_Resize : entryOK ("v19._Resize", Generated.Ctors.v19.f_resize, Generated.Schemas.v19.s_Resize_19) = true := Generated.Conforms.v19.conforms_v19_Resize

theorem slots_v21_Resize : slotOK ("v19._Resize", Generated.Ctors.v19.f_resize, Generated.Schemas.v19.s_Resize_19) = true := Generated.Conforms.v19.slots_v19_Resize

theorem conforms_v21_ReverseSequence : entryOK ("v17._ReverseSequence", Generated.Ctors.v17.f_reverse_sequence, Generated.Schemas.v17.s_ReverseSequence_10) = true := Generated.Conforms.v17.conforms_v17_ReverseSequence

theorem slots_v21_ReverseSequence : slotOK ("v17._ReverseSequence", Generated.Ctors.v17.f_reverse_sequence, Generated.Schemas.v17.s_ReverseSequence_10) = true := Generated.Conforms.v17.slots_v17_ReverseSequence

theorem conforms_v21_RoiAlign : entryOK ("v17._RoiAlign", Generated.Ctors.v17.f_roi_align, Generated.Schemas.v17.s_RoiAlign_16) = true := Generated.Conforms.v17.conforms_v17_RoiAlign

theorem slots_v21_RoiAlign : slotOK ("v17._RoiAlign", Generated.Ctors.v17.f_roi_align, Generated.Schemas.v17.s_RoiAlign_16) = true := Generated.Conforms.v17.slots_v17_RoiAlign

theorem conforms_v21_Round : entryOK ("v17._Round", Generated.Ctors.v17.f_round, Generated.Schemas.v17.s_Round_11) = true := Generated.Conforms.v17.conforms_v17_Round

theorem slots_v21_Round : slotOK ("v17._Round", Generated.Ctors.v17.f_round, Generated.Schemas.v17.s_Round_11) = true := Generated.Conforms.v17.slots_v17_Round

theorem conforms_v21_STFT : entryOK ("v17._STFT", Generated.Ctors.v17.f_stft, Generated.Schemas.v17.s_STFT_17) = true := Generated.Conforms.v17.conforms_v17_STFT

theorem slots_v21_STFT : slotOK ("v17._STFT", Generated.Ctors.v17.f_stft, Generated.Schemas.v17.s_STFT_17) = true := Generated.Conforms.v17.slots_v17_STFT

theorem conforms_v21_Scan : entryOK ("v21._Scan", Generated.Ctors.v21.f_scan, Generated.Schemas.v21.s_Scan_21) = true := by decide +kernel

theorem slots_v21_Scan : slotOK ("v21._Scan", Generated.Ctors.v21.f_scan, Generated.Schemas.v21.s_Scan_21) = true := by decide +kernel

theorem conforms_v21_ScatterElements : entryOK ("v18._ScatterElements", Generated.Ctors.v18.f_scatter_elements, Generated.Schemas.v18.s_ScatterElements_18) = true := Generated.Conforms.v18.conforms_v18_ScatterElements

theorem slots_v21_ScatterElements : slotOK ("v18._ScatterElements", Generated.Ctors.v18.f_scatter_elements, Generated.Schemas.v18.s_ScatterElements_18) = true := Generated.Conforms.v18.slots_v18_ScatterElements

theorem conforms_v21_ScatterND : entryOK ("v18._ScatterND", Generated.Ctors.v18.f_scatter_nd, Generated.Schemas.v18.s_ScatterND_18) = true := Generated.Conforms.v18.conforms_v18_ScatterND

theorem slots_v21_ScatterND : slotOK ("v18._ScatterND", Generated.Ctors.v18.f_scatter_nd, Generated.Schemas.v18.s_ScatterND_18) = true := Generated.Conforms.v18.slots_v18_ScatterND

theorem conforms_v21_Selu : entryOK ("v17._Selu", Generated.Ctors.v17.f_selu, Generated.Schemas.v17.s_Selu_6) = true := Generated.Conforms.v17.conforms_v17_Selu

theorem slots_v21_Selu : slotOK ("v17._Selu", Generated.Ctors.v17.f_selu, Generated.Schemas.v17.s_Selu_6) = true := Generated.Conforms.v17.slots_v17_Selu

theorem conforms_v21_SequenceAt : entryOK ("v17._SequenceAt", Generated.Ctors.v17.f_sequence_at, Generated.Schemas.v17.s_SequenceAt_11) = true := Generated.Conforms.v17.conforms_v17_SequenceAt

theorem slots_v21_SequenceAt : slotOK ("v17._SequenceAt", Generated.Ctors.v17.f_sequence_at, Generated.Schemas.v17.s_SequenceAt_11) = true := Generated.Conforms.v17.slots_v17_SequenceAt

theorem conforms_v21_SequenceConstruct : entryOK ("v17._SequenceConstruct", Generated.Ctors.v17.f_sequence_construct, Generated.Schemas.v17.s_SequenceConstruct_11) = true := Generated.Conforms.v17.conforms_v17_SequenceConstruct

theorem slots_v21_SequenceConstruct : slotOK ("v17._SequenceConstruct", Generated.Ctors.v17.f_sequence_construct, Generated.Schemas.v17.s_SequenceConstruct_11) = true := Generated.Conforms.v17.slots_v17_SequenceConstruct

theorem conforms_v21_SequenceEmpty : entryOK ("v17._SequenceEmpty", Generated.Ctors.v17.f_sequence_empty, Generated.Schemas.v17.s_SequenceEmpty_11) = true := Generated.Conforms.v17.conforms_v17_SequenceEmpty

theorem slots_v21_SequenceEmpty : slotOK ("v17._SequenceEmpty", Generated.Ctors.v17.f_sequence_empty, Generated.Schemas.v17.s_SequenceEmpty_11) = true := Generated.Conforms.v17.slots_v17_SequenceEmpty

theorem conforms_v21_SequenceErase : entryOK ("v17._SequenceErase", Generated.Ctors.v17.f_sequence_erase, Generated.Schemas.v17.s_SequenceErase_11) = true := Generated.Conforms.v17.conforms_v17_SequenceErase

theorem slots_v21_SequenceErase : slotOK ("v17._SequenceErase", Generated.Ctors.v17.f_sequence_erase, Generated.Schemas.v17.s_SequenceErase_11) = true := Generated.Conforms.v17.slots_v17_SequenceErase

theorem conforms_v21_SequenceInsert : entryOK ("v17._SequenceInsert", Generated.Ctors.v17.f_sequence_insert, Generated.Schemas.v17.s_SequenceInsert_11) = true := Generated.Conforms.v17.conforms_v17_SequenceInsert

theorem slots_v21_SequenceInsert : slotOK ("v17._SequenceInsert", Generated.Ctors.v17.f_sequence_insert, Generated.Schemas.v17.s_SequenceInsert_11) = true := Generated.Conforms.v17.slots_v17_SequenceInsert

theorem conforms_v21_SequenceLength : entryOK ("v17._SequenceLength", Generated.Ctors.v17.f_sequence_length, Generated.Schemas.v17.s_SequenceLength_11) = true := Generated.Conforms.v17.conforms_v17_SequenceLength

theorem slots_v21_SequenceLength : slotOK ("v17._SequenceLength", Generated.Ctors.v17.f_sequence_length, Generated.Schemas.v17.s_SequenceLength_11) = true := Generated.Conforms.v17.slots_v17_SequenceLength

theorem conforms_v21_SequenceMap : entryOK ("v17._SequenceMap", Generated.Ctors.v17.f_sequence_map, Generated.Schemas.v17.s_SequenceMap_17) = true := Generated.Conforms.v17.conforms_v17_SequenceMap

theorem slots_v21_SequenceMap : slotOK ("v17._SequenceMap", Generated.Ctors.v17.f_sequence_map, Generated.Schemas.v17.s_SequenceMap_17) = true := Generated.Conforms.v17.slots_v17_SequenceMap

theorem conforms_v21_Shape : entryOK ("v21._Shape", Generated.Ctors.v21.f_shape, Generated.Schemas.v21.s_Shape_21) = true := by decide +kernel

theorem slots_v21_Shape : slotOK ("v21._Shape", Generated.Ctors.v21.f_shape, Generated.Schemas.v21.s_Shape_21) = true := by decide +kernel

theorem conforms_v21_Shrink : entryOK ("v17._Shrink", Generated.Ctors.v17.f_shrink, Generated.Schemas.v17.s_Shrink_9) = true := Generated.Conforms.v17.conforms_v17_Shrink

theorem slots_v21_Shrink : slotOK ("v17._Shrink", Generated.Ctors.v17.f_shrink, Generated.Schemas.v17.s_Shrink_9) = true := Generated.Conforms.v17.slots_v17_Shrink

theorem conforms_v21_Sigmoid : entryOK ("v17._Sigmoid", Generated.Ctors.v17.f_sigmoid, Generated.Schemas.v17.s_Sigmoid_13) = true := Generated.Conforms.v17.conforms_v17_Sigmoid

theorem slots_v21_Sigmoid : slotOK ("v17._Sigmoid", Generated.Ctors.v17.f_sigmoid, Generated.Schemas.v17.s_Sigmoid_13) = true := Generated.Conforms.v17.slots_v17_Sigmoid

theorem conforms_v21_Sign : entryOK ("v17._Sign", Generated.Ctors.v17.f_sign, Generated.Schemas.v17.s_Sign_13) = true := Generated.Conforms.v17.conforms_v17_Sign

theorem slots_v21_Sign : slotOK ("v17._Sign", Generated.Ctors.v17.f_sign, Generated.Schemas.v17.s_Sign_13) = true := Generated.Conforms.v17.slots_v17_Sign

theorem conforms_v21_Sin : entryOK ("v17._Sin", Generated.Ctors.v17.f_sin, Generated.Schemas.v17.s_Sin_7) = true := Generated.Conforms.v17.conforms_v17_Sin

theorem slots_v21_Sin : slotOK ("v17._Sin", Generated.Ctors.v17.f_sin, Generated.Schemas.v17.s_Sin_7) = true := Generated.Conforms.v17.slots_v17_Sin

theorem conforms_v21_Sinh : entryOK ("v17._Sinh", Generated.Ctors.v17.f_sinh, Generated.Schemas.v17.s_Sinh_9) = true := Generated.Conforms.v17.conforms_v17_Sinh

theorem slots_v21_Sinh : slotOK ("v17._Sinh", Generated.Ctors.v17.f_sinh, Generated.Schemas.v17.s_Sinh_9) = true := Generated.Conforms.v17.slots_v17_Sinh

theorem conforms_v21_Size : entryOK ("v21._Size", Generated.Ctors.v21.f_size, Generated.Schemas.v21.s_Size_21) = true := by decide +kernel

theorem slots_v21_Size : slotOK ("v21._Size", Generated.Ctors.v21.f_size, Generated.Schemas.v21.s_Size_21) = true := by decide +kernel

theorem conforms_v21_Slice : entryOK ("v17._Slice", Generated.Ctors.v17.f_slice, Generated.Schemas.v17.s_Slice_13) = true := Generated.Conforms.v17.conforms_v17_Slice

theorem slots_v21_Slice : slotOK ("v17._Slice", Generated.Ctors.v17.f_slice, Generated.Schemas.v17.s_Slice_13) = true := Generated.Conforms.v17.slots_v17_Slice

theorem conforms_v21_Softmax : entryOK ("v17._Softmax", Generated.Ctors.v17.f_softmax, Generated.Schemas.v17.s_Softmax_13) = true := Generated.Conforms.v17.conforms_v17_Softmax

theorem slots_v21_Softmax : slotOK ("v17._Softmax", Generated.Ctors.v17.f_softmax, Generated.Schemas.v17.s_Softmax_13) = true := Generated.Conforms.v17.slots_v17_Softmax

theorem conforms_v21_SoftmaxCrossEntropyLoss : entryOK ("v17._SoftmaxCrossEntropyLoss", Generated.Ctors.v17.f_softmax_cross_entropy_loss, Generated.Schemas.v17.s_SoftmaxCrossEntropyLoss_13) = true := Generated.Conforms.v17.conforms_v17_SoftmaxCrossEntropyLoss

theorem slots_v21_SoftmaxCrossEntropyLoss : slotOK ("v17._SoftmaxCrossEntropyLoss", Generated.Ctors.v17.f_softmax_cross_entropy_loss, Generated.Schemas.v17.s_SoftmaxCrossEntropyLoss_13) = true := Generated.Conforms.v17.slots_v17_SoftmaxCrossEntropyLoss

theorem conforms_v21_Softplus : entryOK ("v17._Softplus", Generated.Ctors.v17.f_softplus, Generated.Schemas.v17.s_Softplus_1) = true := Generated.Conforms.v17.conforms_v17_Softplus

theorem slots_v21_Softplus : slotOK ("v17._Softplus", Generated.Ctors.v17.f_softplus, Generated.Schemas.v17.s_Softplus_1) = true := Generated.Conforms.v17.slots_v17_Softplus

theorem conforms_v21_Softsign : entryOK ("v17._Softsign", Generated.Ctors.v17.f_softsign, Generated.Schemas.v17.s_Softsign_1) = true := Generated.Conforms.v17.conforms_v17_Softsign

theorem slots_v21_Softsign : slotOK ("v17._Softsign", Generated.Ctors.v17.f_softsign, Generated.Schemas.v17.s_Softsign_1) = true := Generated.Conforms.v17.slots_v17_Softsign

theorem conforms_v21_SpaceToDepth : entryOK ("v17._SpaceToDepth", Generated.Ctors.v17.f_space_to_depth, Generated.Schemas.v17.s_SpaceToDepth_13) = true := Generated.Conforms.v17.conforms_v17_SpaceToDepth

theorem slots_v21_SpaceToDepth : slotOK ("v17._SpaceToDepth", Generated.Ctors.v17.f_space_to_depth, Generated.Schemas.v17.s_SpaceToDepth_13) = true := Generated.Conforms.v17.slots_v17_SpaceToDepth

theorem conforms_v21_Split : entryOK ("v18._Split", Generated.Ctors.v18.f_split, Generated.Schemas.v18.s_Split_18) = true := Generated.Conforms.v18.conforms_v18_Split

theorem slots_v21_Split : slotOK ("v18._Split", Generated.Ctors.v18.f_split, Generated.Schemas.v18.s_Split_18) = true := Generated.Conforms.v18.slots_v18_Split

theorem conforms_v21_SplitToSequence : entryOK ("v17._SplitToSequence", Generated.Ctors.v17.f_split_to_sequence, Generated.Schemas.v17.s_SplitToSequence_11) = true := Generated.Conforms.v17.conforms_v17_SplitToSequence

theorem slots_v21_SplitToSequence : slotOK ("v17._SplitToSequence", Generated.Ctors.v17.f_split_to_sequence, Generated.Schemas.v17.s_SplitToSequence_11) = true := Generated.Conforms.v17.slots_v17_SplitToSequence

theorem conforms_v21_Sqrt : entryOK ("v17._Sqrt", Generated.Ctors.v17.f_sqrt, Generated.Schemas.v17.s_Sqrt_13) = true := Generated.Conforms.v17.conforms_v17_Sqrt

theorem slots_v21_Sqrt : slotOK ("v17._Sqrt", Generated.Ctors.v17.f_sqrt, Generated.Schemas.v17.s_Sqrt_13) = true := Generated.Conforms.v17.slots_v17_Sqrt

theorem conforms_v21_Squeeze : entryOK ("v21._Squeeze", Generated.Ctors.v21.f_squeeze, Generated.Schemas.v21.s_Squeeze_21) = true := by decide +kernel

theorem slots_v21_Squeeze : slotOK ("v21._Squeeze", Generated.Ctors.v21.f_squeeze, Generated.Schemas.v21.s_Squeeze_21) = true := by decide +kernel

theorem conforms_v21_StringConcat : entryOK ("v20._StringConcat", Generated.Ctors.v20.f_string_concat, Generated.Schemas.v20.s_StringConcat_20) = true := Generated.Conforms.v20.conforms_v20_StringConcat

theorem slots_v21_StringConcat : slotOK ("v20._StringConcat", Generated.Ctors.v20.f_string_concat, Generated.Schemas.v20.s_StringConcat_20) = true := Generated.Conforms.v20.slots_v20_StringConcat

theorem conforms_v21_StringNormalizer : entryOK ("v17._StringNormalizer", Generated.Ctors.v17.f_string_normalizer, Generated.Schemas.v17.s_StringNormalizer_10) = true := Generated.Conforms.v17.conforms_v17_StringNormalizer

theorem slots_v21_StringNormalizer : slotOK ("v17._StringNormalizer", Generated.Ctors.v17.f_string_normalizer, Generated.Schemas.v17.s_StringNormalizer_10) = true := Generated.Conforms.v17.slots_v17_StringNormalizer

theorem conforms_v21_StringSplit : entryOK ("v20._StringSplit", Generated.Ctors.v20.f_string_split, Generated.Schemas.v20.s_StringSplit_20) = true := Generated.Conforms.v20.conforms_v20_StringSplit

theorem slots_v21_StringSplit : slotOK ("v20._StringSplit", Generated.Ctors.v20.f_string_split, Generated.Schemas.v20.s_StringSplit_20) = true := Generated.Conforms.v20.slots_v20_StringSplit

theorem conforms_v21_Sub : entryOK ("v17._Sub", Generated.Ctors.v17.f_sub, Generated.Schemas.v17.s_Sub_14) = true := Generated.Conforms.v17.conforms_v17_Sub

theorem slots_v21_Sub : slotOK ("v17._Sub", Generated.Ctors.v17.f_sub, Generated.Schemas.v17.s_Sub_14) = true := Generated.Conforms.v17.slots_v17_Sub

theorem conforms_v21_Sum : entryOK ("v17._Sum", Generated.Ctors.v17.f_sum, Generated.Schemas.v17.s_Sum_13) = true := Generated.Conforms.v17.conforms_v17_Sum

theorem slots_v21_Sum : slotOK ("v17._Sum", Generated.Ctors.v17.f_sum, Generated.Schemas.v17.s_Sum_13) = true := Generated.Conforms.v17.slots_v17_Sum

theorem conforms_v21_Tan : entryOK ("v17._Tan", Generated.Ctors.v17.f_tan, Generated.Schemas.v17.s_Tan_7) = true := Generated.Conforms.v17.conforms_v17_Tan

theorem slots_v21_Tan : slotOK ("v17._Tan", Generated.Ctors.v17.f_tan, Generated.Schemas.v17.s_Tan_7) = true := Generated.Conforms.v17.slots_v17_Tan

theorem conforms_v21_Tanh : entryOK ("v17._Tanh", Generated.Ctors.v17.f_tanh, Generated.Schemas.v17.s_Tanh_13) = true := Generated.Conforms.v17.conforms_v17_Tanh

theorem slots_v21_Tanh : slotOK ("v17._Tanh", Generated.Ctors.v17.f_tanh, Generated.Schemas.v17.s_Tanh_13) = true := Generated.Conforms.v17.slots_v17_Tanh

theorem conforms_v21_TfIdfVectorizer : entryOK ("v17._TfIdfVectorizer", Generated.Ctors.v17.f_tf_idf_vectorizer, Generated.Schemas.v17.s_TfIdfVectorizer_9) = true := Generated.Conforms.v17.conforms_v17_TfIdfVectorizer

theorem slots_v21_TfIdfVectorizer : slotOK ("v17._TfIdfVectorizer", Generated.Ctors.v17.f_tf_idf_vectorizer, Generated.Schemas.v17.s_TfIdfVectorizer_9) = true := Generated.Conforms.v17.slots_v17_TfIdfVectorizer

theorem conforms_v21_ThresholdedRelu : entryOK ("v17._ThresholdedRelu", Generated.Ctors.v17.f_thresholded_relu, Generated.Schemas.v17.s_ThresholdedRelu_10) = true := Generated.Conforms.v17.conforms_v17_ThresholdedRelu

theorem slots_v21_ThresholdedRelu : slotOK ("v17._ThresholdedRelu", Generated.Ctors.v17.f_thresholded_relu, Generated.Schemas.v17.s_ThresholdedRelu_10) = true := Generated.Conforms.v17.slots_v17_ThresholdedRelu

theorem conforms_v21_Tile : entryOK ("v17._Tile", Generated.Ctors.v17.f_tile, Generated.Schemas.v17.s_Tile_13) = true := Generated.Conforms.v17.conforms_v17_Tile

theorem slots_v21_Tile : slotOK ("v17._Tile", Generated.Ctors.v17.f_tile, Generated.Schemas.v17.s_Tile_13) = true := Generated.Conforms.v17.slots_v17_Tile

theorem conforms_v21_TopK : entryOK ("v17._TopK", Generated.Ctors.v17.f_top_k, Generated.Schemas.v17.s_TopK_11) = true := Generated.Conforms.v17.conforms_v17_TopK

theorem slots_v21_TopK : slotOK ("v17._TopK", Generated.Ctors.v17.f_top_k, Generated.Schemas.v17.s_TopK_11) = true := Generated.Conforms.v17.slots_v17_TopK

theorem conforms_v21_Transpose : entryOK ("v21._Transpose", Generated.Ctors.v21.f_transpose, Generated.Schemas.v21.s_Transpose_21) = true := by decide +kernel

theorem slots_v21_Transpose : slotOK ("v21._Transpose", Generated.Ctors.v21.f_transpose, Generated.Schemas.v21.s_Transpose_21) = true := by decide +kernel

theorem conforms_v21_Trilu : entryOK ("v17._Trilu", Generated.Ctors.v17.f_trilu, Generated.Schemas.v17.s_Trilu_14) = true := Generated.Conforms.v17.conforms_v17_Trilu

theorem slots_v21_Trilu : slotOK ("v17._Trilu", Generated.Ctors.v17.f_trilu, Generated.Schemas.v17.s_Trilu_14) = true := Generated.Conforms.v17.slots_v17_Trilu

theorem conforms_v21_Unique : entryOK ("v17._Unique", Generated.Ctors.v17.f_unique, Generated.Schemas.v17.s_Unique_11) = true := Generated.Conforms.v17.conforms_v17_Unique

theorem slots_v21_Unique : slotOK ("v17._Unique", Generated.Ctors.v17.f_unique, Generated.Schemas.v17.s_Unique_11) = true := Generated.Conforms.v17.slots_v17_Unique

theorem conforms_v21_Unsqueeze : entryOK ("v21._Unsqueeze", Generated.Ctors.v21.f_unsqueeze, Generated.Schemas.v21.s_Unsqueeze_21) = true := by decide +kernel

theorem slots_v21_Unsqueeze : slotOK ("v21._Unsqueeze", Generated.Ctors.v21.f_unsqueeze, Generated.Schemas.v21.s_Unsqueeze_21) = true := by decide +kernel

theorem conforms_v21_Where : entryOK ("v17._Where", Generated.Ctors.v17.f_where, Generated.Schemas.v17.s_Where_16) = true := Generated.Conforms.v17.conforms_v17_Where

theorem slots_v21_Where : slotOK ("v17._Where", Generated.Ctors.v17.f_where, Generated.Schemas.v17.s_Where_16) = true := Generated.Conforms.v17.slots_v17_Where

theorem conforms_v21_Xor : entryOK ("v17._Xor", Generated.Ctors.v17.f_xor, Generated.Schemas.v17.s_Xor_7) = true := Generated.Conforms.v17.conforms_v17_Xor

theorem slots_v21_Xor : slotOK ("v17._Xor", Generated.Ctors.v17.f_xor, Generated.Schemas.v17.s_Xor_7) = true := Generated.Conforms.v17.slots_v17_Xor

/-- every operator/module pair of this module without a listed deviation -/
def table : List Entry :=
  [
   ("v17._Abs", Generated.Ctors.v17.f_abs, Generated.Schemas.v17.s_Abs_13), 
   ("v17._Acos", Generated.Ctors.v17.f_acos, Generated.Schemas.v17.s_Acos_7), 
   ("v17._Acosh", Generated.Ctors.v17.f_acosh, Generated.Schemas.v17.s_Acosh_9), 
   ("v17._Add", Generated.Ctors.v17.f_add, Generated.Schemas.v17.s_Add_14), 
   ("v20._AffineGrid", Generated.Ctors.v20.f_affine_grid, Generated.Schemas.v20.s_AffineGrid_20), 
   ("v17._And", Generated.Ctors.v17.f_and_, Generated.Schemas.v17.s_And_7), 
   ("v17._ArgMax", Generated.Ctors.v17.f_arg_max, Generated.Schemas.v17.s_ArgMax_13), 
   ("v17._ArgMin", Generated.Ctors.v17.f_arg_min, Generated.Schemas.v17.s_ArgMin_13), 
   ("v17._Asin", Generated.Ctors.v17.f_asin, Generated.Schemas.v17.s_Asin_7), 
   ("v17._Asinh", Generated.Ctors.v17.f_asinh, Generated.Schemas.v17.s_Asinh_9), 
   ("v17._Atan", Generated.Ctors.v17.f_atan, Generated.Schemas.v17.s_Atan_7), 
   ("v17._Atanh", Generated.Ctors.v17.f_atanh, Generated.Schemas.v17.s_Atanh_9), 
   ("v19._AveragePool", Generated.Ctors.v19.f_average_pool, Generated.Schemas.v19.s_AveragePool_19), 
   ("v17._BatchNormalization", Generated.Ctors.v17.f_batch_normalization, Generated.Schemas.v17.s_BatchNormalization_15), 
   ("v17._Bernoulli", Generated.Ctors.v17.f_bernoulli, Generated.Schemas.v17.s_Bernoulli_15), 
   ("v17._BitShift", Generated.Ctors.v17.f_bit_shift, Generated.Schemas.v17.s_BitShift_11), 
   ("v18._BitwiseAnd", Generated.Ctors.v18.f_bitwise_and, Generated.Schemas.v18.s_BitwiseAnd_18), 
   ("v18._BitwiseNot", Generated.Ctors.v18.f_bitwise_not, Generated.Schemas.v18.s_BitwiseNot_18), 
   ("v18._BitwiseOr", Generated.Ctors.v18.f_bitwise_or, Generated.Schemas.v18.s_BitwiseOr_18), 
   ("v18._BitwiseXor", Generated.Ctors.v18.f_bitwise_xor, Generated.Schemas.v18.s_BitwiseXor_18), 
   ("v17._BlackmanWindow", Generated.Ctors.v17.f_blackman_window, Generated.Schemas.v17.s_BlackmanWindow_17), 
   ("v21._Cast", Generated.Ctors.v21.f_cast, Generated.Schemas.v21.s_Cast_21), 
   ("v21._CastLike", Generated.Ctors.v21.f_cast_like, Generated.Schemas.v21.s_CastLike_21), 
   ("v17._Ceil", Generated.Ctors.v17.f_ceil, Generated.Schemas.v17.s_Ceil_13), 
   ("v17._Celu", Generated.Ctors.v17.f_celu, Generated.Schemas.v17.s_Celu_12), 
   ("v18._CenterCropPad", Generated.Ctors.v18.f_center_crop_pad, Generated.Schemas.v18.s_CenterCropPad_18), 
   ("v17._Clip", Generated.Ctors.v17.f_clip, Generated.Schemas.v17.s_Clip_13), 
   ("v18._Col2Im", Generated.Ctors.v18.f_col2_im, Generated.Schemas.v18.s_Col2Im_18), 
   ("v17._Compress", Generated.Ctors.v17.f_compress, Generated.Schemas.v17.s_Compress_11), 
   ("v17._Concat", Generated.Ctors.v17.f_concat, Generated.Schemas.v17.s_Concat_13), 
   ("v17._ConcatFromSequence", Generated.Ctors.v17.f_concat_from_sequence, Generated.Schemas.v17.s_ConcatFromSequence_11), 
   ("v21._ConstantOfShape", Generated.Ctors.v21.f_constant_of_shape, Generated.Schemas.v21.s_ConstantOfShape_21), 
   ("v17._Conv", Generated.Ctors.v17.f_conv, Generated.Schemas.v17.s_Conv_11), 
   ("v17._ConvInteger", Generated.Ctors.v17.f_conv_integer, Generated.Schemas.v17.s_ConvInteger_10), 
   ("v17._ConvTranspose", Generated.Ctors.v17.f_conv_transpose, Generated.Schemas.v17.s_ConvTranspose_11), 
   ("v17._Cos", Generated.Ctors.v17.f_cos, Generated.Schemas.v17.s_Cos_7), 
   ("v17._Cosh", Generated.Ctors.v17.f_cosh, Generated.Schemas.v17.s_Cosh_9), 
   ("v17._CumSum", Generated.Ctors.v17.f_cumsum, Generated.Schemas.v17.s_CumSum_14), 
   ("v20._DFT", Generated.Ctors.v20.f_dft, Generated.Schemas.v20.s_DFT_20), 
   ("v19._DeformConv", Generated.Ctors.v19.f_deform_conv, Generated.Schemas.v19.s_DeformConv_19), 
   ("v17._DepthToSpace", Generated.Ctors.v17.f_depth_to_space, Generated.Schemas.v17.s_DepthToSpace_13), 
   ("v21._DequantizeLinear", Generated.Ctors.v21.f_dequantize_linear, Generated.Schemas.v21.s_DequantizeLinear_21), 
   ("v17._Det", Generated.Ctors.v17.f_det, Generated.Schemas.v17.s_Det_11), 
   ("v17._Div", Generated.Ctors.v17.f_div, Generated.Schemas.v17.s_Div_14), 
   ("v17._Dropout", Generated.Ctors.v17.f_dropout, Generated.Schemas.v17.s_Dropout_13), 
   ("v17._DynamicQuantizeLinear", Generated.Ctors.v17.f_dynamic_quantize_linear, Generated.Schemas.v17.s_DynamicQuantizeLinear_11), 
   ("v17._Einsum", Generated.Ctors.v17.f_einsum, Generated.Schemas.v17.s_Einsum_12), 
   ("v17._Elu", Generated.Ctors.v17.f_elu, Generated.Schemas.v17.s_Elu_6), 
   ("v19._Equal", Generated.Ctors.v19.f_equal, Generated.Schemas.v19.s_Equal_19), 
   ("v17._Erf", Generated.Ctors.v17.f_erf, Generated.Schemas.v17.s_Erf_13), 
   ("v17._Exp", Generated.Ctors.v17.f_exp, Generated.Schemas.v17.s_Exp_13), 
   ("v17._Expand", Generated.Ctors.v17.f_expand, Generated.Schemas.v17.s_Expand_13), 
   ("v17._EyeLike", Generated.Ctors.v17.f_eye_like, Generated.Schemas.v17.s_EyeLike_9), 
   ("v21._Flatten", Generated.Ctors.v21.f_flatten, Generated.Schemas.v21.s_Flatten_21), 
   ("v17._Floor", Generated.Ctors.v17.f_floor, Generated.Schemas.v17.s_Floor_13), 
   ("v17._GRU", Generated.Ctors.v17.f_gru, Generated.Schemas.v17.s_GRU_14), 
   ("v17._Gather", Generated.Ctors.v17.f_gather, Generated.Schemas.v17.s_Gather_13), 
   ("v17._GatherElements", Generated.Ctors.v17.f_gather_elements, Generated.Schemas.v17.s_GatherElements_13), 
   ("v17._GatherND", Generated.Ctors.v17.f_gather_nd, Generated.Schemas.v17.s_GatherND_13), 
   ("v20._Gelu", Generated.Ctors.v20.f_gelu, Generated.Schemas.v20.s_Gelu_20), 
   ("v17._Gemm", Generated.Ctors.v17.f_gemm, Generated.Schemas.v17.s_Gemm_13), 
   ("v17._GlobalAveragePool", Generated.Ctors.v17.f_global_average_pool, Generated.Schemas.v17.s_GlobalAveragePool_1), 
   ("v17._GlobalLpPool", Generated.Ctors.v17.f_global_lp_pool, Generated.Schemas.v17.s_GlobalLpPool_2), 
   ("v17._GlobalMaxPool", Generated.Ctors.v17.f_global_max_pool, Generated.Schemas.v17.s_GlobalMaxPool_1), 
   ("v17._Greater", Generated.Ctors.v17.f_greater, Generated.Schemas.v17.s_Greater_13), 
   ("v17._GreaterOrEqual", Generated.Ctors.v17.f_greater_or_equal, Generated.Schemas.v17.s_GreaterOrEqual_16), 
   ("v20._GridSample", Generated.Ctors.v20.f_grid_sample, Generated.Schemas.v20.s_GridSample_20), 
   ("v21._GroupNormalization", Generated.Ctors.v21.f_group_normalization, Generated.Schemas.v21.s_GroupNormalization_21), 
   ("v17._HammingWindow", Generated.Ctors.v17.f_hamming_window, Generated.Schemas.v17.s_HammingWindow_17), 
   ("v17._HannWindow", Generated.Ctors.v17.f_hann_window, Generated.Schemas.v17.s_HannWindow_17), 
   ("v17._HardSigmoid", Generated.Ctors.v17.f_hard_sigmoid, Generated.Schemas.v17.s_HardSigmoid_6), 
   ("v17._HardSwish", Generated.Ctors.v17.f_hard_swish, Generated.Schemas.v17.s_HardSwish_14), 
   ("v17._Hardmax", Generated.Ctors.v17.f_hardmax, Generated.Schemas.v17.s_Hardmax_13), 
   ("v21._Identity", Generated.Ctors.v21.f_identity, Generated.Schemas.v21.s_Identity_21), 
   ("v21._If", Generated.Ctors.v21.f_if_, Generated.Schemas.v21.s_If_21), 
   ("v20._ImageDecoder", Generated.Ctors.v20.f_image_decoder, Generated.Schemas.v20.s_ImageDecoder_20), 
   ("v17._InstanceNormalization", Generated.Ctors.v17.f_instance_normalization, Generated.Schemas.v17.s_InstanceNormalization_6), 
   ("v20._IsInf", Generated.Ctors.v20.f_isinf, Generated.Schemas.v20.s_IsInf_20), 
   ("v20._IsNaN", Generated.Ctors.v20.f_isnan, Generated.Schemas.v20.s_IsNaN_20), 
   ("v17._LRN", Generated.Ctors.v17.f_lrn, Generated.Schemas.v17.s_LRN_13), 
   ("v17._LSTM", Generated.Ctors.v17.f_lstm, Generated.Schemas.v17.s_LSTM_14), 
   ("v17._LayerNormalization", Generated.Ctors.v17.f_layer_normalization, Generated.Schemas.v17.s_LayerNormalization_17), 
   ("v17._LeakyRelu", Generated.Ctors.v17.f_leaky_relu, Generated.Schemas.v17.s_LeakyRelu_16), 
   ("v17._Less", Generated.Ctors.v17.f_less, Generated.Schemas.v17.s_Less_13), 
   ("v17._LessOrEqual", Generated.Ctors.v17.f_less_or_equal, Generated.Schemas.v17.s_LessOrEqual_16), 
   ("v17._Log", Generated.Ctors.v17.f_log, Generated.Schemas.v17.s_Log_13), 
   ("v17._LogSoftmax", Generated.Ctors.v17.f_log_softmax, Generated.Schemas.v17.s_LogSoftmax_13), 
   ("v21._Loop", Generated.Ctors.v21.f_loop, Generated.Schemas.v21.s_Loop_21), 
   ("v17._LpNormalization", Generated.Ctors.v17.f_lp_normalization, Generated.Schemas.v17.s_LpNormalization_1), 
   ("v18._LpPool", Generated.Ctors.v18.f_lp_pool, Generated.Schemas.v18.s_LpPool_18), 
   ("v17._MatMul", Generated.Ctors.v17.f_matmul, Generated.Schemas.v17.s_MatMul_13), 
   ("v17._MatMulInteger", Generated.Ctors.v17.f_matmul_integer, Generated.Schemas.v17.s_MatMulInteger_10), 
   ("v17._Max", Generated.Ctors.v17.f_max, Generated.Schemas.v17.s_Max_13), 
   ("v17._MaxPool", Generated.Ctors.v17.f_max_pool, Generated.Schemas.v17.s_MaxPool_12), 
   ("v17._MaxRoiPool", Generated.Ctors.v17.f_max_roi_pool, Generated.Schemas.v17.s_MaxRoiPool_1), 
   ("v17._MaxUnpool", Generated.Ctors.v17.f_max_unpool, Generated.Schemas.v17.s_MaxUnpool_11), 
   ("v17._Mean", Generated.Ctors.v17.f_mean, Generated.Schemas.v17.s_Mean_13), 
   ("v17._MeanVarianceNormalization", Generated.Ctors.v17.f_mean_variance_normalization, Generated.Schemas.v17.s_MeanVarianceNormalization_13), 
   ("v17._MelWeightMatrix", Generated.Ctors.v17.f_mel_weight_matrix, Generated.Schemas.v17.s_MelWeightMatrix_17), 
   ("v17._Min", Generated.Ctors.v17.f_min, Generated.Schemas.v17.s_Min_13), 
   ("v18._Mish", Generated.Ctors.v18.f_mish, Generated.Schemas.v18.s_Mish_18), 
   ("v17._Mod", Generated.Ctors.v17.f_mod, Generated.Schemas.v17.s_Mod_13), 
   ("v17._Mul", Generated.Ctors.v17.f_mul, Generated.Schemas.v17.s_Mul_14), 
   ("v17._Multinomial", Generated.Ctors.v17.f_multinomial, Generated.Schemas.v17.s_Multinomial_7), 
   ("v17._Neg", Generated.Ctors.v17.f_neg, Generated.Schemas.v17.s_Neg_13), 
   ("v17._NegativeLogLikelihoodLoss", Generated.Ctors.v17.f_negative_log_likelihood_loss, Generated.Schemas.v17.s_NegativeLogLikelihoodLoss_13), 
   ("v17._NonMaxSuppression", Generated.Ctors.v17.f_non_max_suppression, Generated.Schemas.v17.s_NonMaxSuppression_11), 
   ("v17._NonZero", Generated.Ctors.v17.f_non_zero, Generated.Schemas.v17.s_NonZero_13), 
   ("v17._Not", Generated.Ctors.v17.f_not_, Generated.Schemas.v17.s_Not_1), 
   ("v17._OneHot", Generated.Ctors.v17.f_one_hot, Generated.Schemas.v17.s_OneHot_11), 
   ("v17._Optional", Generated.Ctors.v17.f_optional, Generated.Schemas.v17.s_Optional_15), 
   ("v18._OptionalGetElement", Generated.Ctors.v18.f_optional_get_element, Generated.Schemas.v18.s_OptionalGetElement_18), 
   ("v18._OptionalHasElement", Generated.Ctors.v18.f_optional_has_element, Generated.Schemas.v18.s_OptionalHasElement_18), 
   ("v17._Or", Generated.Ctors.v17.f_or_, Generated.Schemas.v17.s_Or_7), 
   ("v17._PRelu", Generated.Ctors.v17.f_prelu, Generated.Schemas.v17.s_PRelu_16), 
   ("v21._Pad", Generated.Ctors.v21.f_pad, Generated.Schemas.v21.s_Pad_21), 
   ("v17._Pow", Generated.Ctors.v17.f_pow, Generated.Schemas.v17.s_Pow_15), 
   ("v17._QLinearConv", Generated.Ctors.v17.f_qlinear_conv, Generated.Schemas.v17.s_QLinearConv_10), 
   ("v21._QLinearMatMul", Generated.Ctors.v21.f_qlinear_matmul, Generated.Schemas.v21.s_QLinearMatMul_21), 
   ("v21._QuantizeLinear", Generated.Ctors.v21.f_quantize_linear, Generated.Schemas.v21.s_QuantizeLinear_21), 
   ("v17._RNN", Generated.Ctors.v17.f_rnn, Generated.Schemas.v17.s_RNN_14), 
   ("v17._RandomNormal", Generated.Ctors.v17.f_random_normal, Generated.Schemas.v17.s_RandomNormal_1), 
   ("v17._RandomNormalLike", Generated.Ctors.v17.f_random_normal_like, Generated.Schemas.v17.s_RandomNormalLike_1), 
   ("v17._RandomUniform", Generated.Ctors.v17.f_random_uniform, Generated.Schemas.v17.s_RandomUniform_1), 
   ("v17._RandomUniformLike", Generated.Ctors.v17.f_random_uniform_like, Generated.Schemas.v17.s_RandomUniformLike_1), 
   ("v17._Range", Generated.Ctors.v17.f_range, Generated.Schemas.v17.s_Range_11), 
   ("v17._Reciprocal", Generated.Ctors.v17.f_reciprocal, Generated.Schemas.v17.s_Reciprocal_13), 
   ("v18._ReduceL1", Generated.Ctors.v18.f_reduce_l1, Generated.Schemas.v18.s_ReduceL1_18), 
   ("v18._ReduceL2", Generated.Ctors.v18.f_reduce_l2, Generated.Schemas.v18.s_ReduceL2_18), 
   ("v18._ReduceLogSum", Generated.Ctors.v18.f_reduce_log_sum, Generated.Schemas.v18.s_ReduceLogSum_18), 
   ("v18._ReduceLogSumExp", Generated.Ctors.v18.f_reduce_log_sum_exp, Generated.Schemas.v18.s_ReduceLogSumExp_18), 
   ("v20._ReduceMax", Generated.Ctors.v20.f_reduce_max, Generated.Schemas.v20.s_ReduceMax_20), 
   ("v18._ReduceMean", Generated.Ctors.v18.f_reduce_mean, Generated.Schemas.v18.s_ReduceMean_18), 
   ("v20._ReduceMin", Generated.Ctors.v20.f_reduce_min, Generated.Schemas.v20.s_ReduceMin_20), 
   ("v18._ReduceProd", Generated.Ctors.v18.f_reduce_prod, Generated.Schemas.v18.s_ReduceProd_18), 
   ("v17._ReduceSum", Generated.Ctors.v17.f_reduce_sum, Generated.Schemas.v17.s_ReduceSum_13), 
   ("v18._ReduceSumSquare", Generated.Ctors.v18.f_reduce_sum_square, Generated.Schemas.v18.s_ReduceSumSquare_18), 
   ("v20._RegexFullMatch", Generated.Ctors.v20.f_regex_full_match, Generated.Schemas.v20.s_RegexFullMatch_20), 
   ("v17._Relu", Generated.Ctors.v17.f_relu, Generated.Schemas.v17.s_Relu_14), 
   ("v21._Reshape", Generated.Ctors.v21.f_reshape, Generated.Schemas.v21.s_Reshape_21), 
   ("v19._Resize", Generated.Ctors.v19.f_resize, Generated.Schemas.v19.s_Resize_19), 
   ("v17._ReverseSequence", Generated.Ctors.v17.f_reverse_sequence, Generated.Schemas.v17.s_ReverseSequence_10), 
   ("v17._RoiAlign", Generated.Ctors.v17.f_roi_align, Generated.Schemas.v17.s_RoiAlign_16), 
   ("v17._Round", Generated.Ctors.v17.f_round, Generated.Schemas.v17.s_Round_11), 
   ("v17._STFT", Generated.Ctors.v17.f_stft, Generated.Schemas.v17.s_STFT_17), 
   ("v21._Scan", Generated.Ctors.v21.f_scan, Generated.Schemas.v21.s_Scan_21), 
   ("v18._ScatterElements", Generated.Ctors.v18.f_scatter_elements, Generated.Schemas.v18.s_ScatterElements_18), 
   ("v18._ScatterND", Generated.Ctors.v18.f_scatter_nd, Generated.Schemas.v18.s_ScatterND_18), 
   ("v17._Selu", Generated.Ctors.v17.f_selu, Generated.Schemas.v17.s_Selu_6), 
   ("v17._SequenceAt", Generated.Ctors.v17.f_sequence_at, Generated.Schemas.v17.s_SequenceAt_11), 
   ("v17._SequenceConstruct", Generated.Ctors.v17.f_sequence_construct, Generated.Schemas.v17.s_SequenceConstruct_11), 
   ("v17._SequenceEmpty", Generated.Ctors.v17.f_sequence_empty, Generated.Schemas.v17.s_SequenceEmpty_11), 
   ("v17._SequenceErase", Generated.Ctors.v17.f_sequence_erase, Generated.Schemas.v17.s_SequenceErase_11), 
   ("v17._SequenceInsert", Generated.Ctors.v17.f_sequence_insert, Generated.Schemas.v17.s_SequenceInsert_11), 
   ("v17._SequenceLength", Generated.Ctors.v17.f_sequence_length, Generated.Schemas.v17.s_SequenceLength_11), 
   ("v17._SequenceMap", Generated.Ctors.v17.f_sequence_map, Generated.Schemas.v17.s_SequenceMap_17), 
   ("v21._Shape", Generated.Ctors.v21.f_shape, Generated.Schemas.v21.s_Shape_21), 
   ("v17._Shrink", Generated.Ctors.v17.f_shrink, Generated.Schemas.v17.s_Shrink_9), 
   ("v17._Sigmoid", Generated.Ctors.v17.f_sigmoid, Generated.Schemas.v17.s_Sigmoid_13), 
   ("v17._Sign", Generated.Ctors.v17.f_sign, Generated.Schemas.v17.s_Sign_13), 
   ("v17._Sin", Generated.Ctors.v17.f_sin, Generated.Schemas.v17.s_Sin_7), 
   ("v17._Sinh", Generated.Ctors.v17.f_sinh, Generated.Schemas.v17.s_Sinh_9), 
   ("v21._Size", Generated.Ctors.v21.f_size, Generated.Schemas.v21.s_Size_21), 
   ("v17._Slice", Generated.Ctors.v17.f_slice, Generated.Schemas.v17.s_Slice_13), 
   ("v17._Softmax", Generated.Ctors.v17.f_softmax, Generated.Schemas.v17.s_Softmax_13), 
   ("v17._SoftmaxCrossEntropyLoss", Generated.Ctors.v17.f_softmax_cross_entropy_loss, Generated.Schemas.v17.s_SoftmaxCrossEntropyLoss_13), 
   ("v17._Softplus", Generated.Ctors.v17.f_softplus, Generated.Schemas.v17.s_Softplus_1), 
   ("v17._Softsign", Generated.Ctors.v17.f_softsign, Generated.Schemas.v17.s_Softsign_1), 
   ("v17._SpaceToDepth", Generated.Ctors.v17.f_space_to_depth, Generated.Schemas.v17.s_SpaceToDepth_13), 
   ("v18._Split", Generated.Ctors.v18.f_split, Generated.Schemas.v18.s_Split_18), 
   ("v17._SplitToSequence", Generated.Ctors.v17.f_split_to_sequence, Generated.Schemas.v17.s_SplitToSequence_11), 
   ("v17._Sqrt", Generated.Ctors.v17.f_sqrt, Generated.Schemas.v17.s_Sqrt_13), 
   ("v21._Squeeze", Generated.Ctors.v21.f_squeeze, Generated.Schemas.v21.s_Squeeze_21), 
   ("v20._StringConcat", Generated.Ctors.v20.f_string_concat, Generated.Schemas.v20.s_StringConcat_20), 
   ("v17._StringNormalizer", Generated.Ctors.v17.f_string_normalizer, Generated.Schemas.v17.s_StringNormalizer_10), 
   ("v20._StringSplit", Generated.Ctors.v20.f_string_split, Generated.Schemas.v20.s_StringSplit_20), 
   ("v17._Sub", Generated.Ctors.v17.f_sub, Generated.Schemas.v17.s_Sub_14), 
   ("v17._Sum", Generated.Ctors.v17.f_sum, Generated.Schemas.v17.s_Sum_13), 
   ("v17._Tan", Generated.Ctors.v17.f_tan, Generated.Schemas.v17.s_Tan_7), 
   ("v17._Tanh", Generated.Ctors.v17.f_tanh, Generated.Schemas.v17.s_Tanh_13), 
   ("v17._TfIdfVectorizer", Generated.Ctors.v17.f_tf_idf_vectorizer, Generated.Schemas.v17.s_TfIdfVectorizer_9), 
   ("v17._ThresholdedRelu", Generated.Ctors.v17.f_thresholded_relu, Generated.Schemas.v17.s_ThresholdedRelu_10), 
   ("v17._Tile", Generated.Ctors.v17.f_tile, Generated.Schemas.v17.s_Tile_13), 
   ("v17._TopK", Generated.Ctors.v17.f_top_k, Generated.Schemas.v17.s_TopK_11), 
   ("v21._Transpose", Generated.Ctors.v21.f_transpose, Generated.Schemas.v21.s_Transpose_21), 
   ("v17._Trilu", Generated.Ctors.v17.f_trilu, Generated.Schemas.v17.s_Trilu_14), 
   ("v17._Unique", Generated.Ctors.v17.f_unique, Generated.Schemas.v17.s_Unique_11), 
   ("v21._Unsqueeze", Generated.Ctors.v21.f_unsqueeze, Generated.Schemas.v21.s_Unsqueeze_21), 
   ("v17._Where", Generated.Ctors.v17.f_where, Generated.Schemas.v17.s_Where_16), 
   ("v17._Xor", Generated.Ctors.v17.f_xor, Generated.Schemas.v17.s_Xor_7)]

theorem table_all : table.all entryOK = true :=
  all_cons conforms_v21_Abs (
  all_cons conforms_v21_Acos (
  all_cons conforms_v21_Acosh (
  all_cons conforms_v21_Add (
  all_cons conforms_v21_AffineGrid (
  all_cons conforms_v21_And (
  all_cons conforms_v21_ArgMax (
  all_cons conforms_v21_ArgMin (
  all_cons conforms_v21_Asin (
  all_cons conforms_v21_Asinh (
  all_cons conforms_v21_Atan (
  all_cons conforms_v21_Atanh (
  all_cons conforms_v21_AveragePool (
  all_cons conforms_v21_BatchNormalization (
  all_cons conforms_v21_Bernoulli (
  all_cons conforms_v21_BitShift (
  all_cons conforms_v21_BitwiseAnd (
  all_cons conforms_v21_BitwiseNot (
  all_cons conforms_v21_BitwiseOr (
  all_cons conforms_v21_BitwiseXor (
  all_cons conforms_v21_BlackmanWindow (
  all_cons conforms_v21_Cast (
  all_cons conforms_v21_CastLike (
  all_cons conforms_v21_Ceil (
  all_cons conforms_v21_Celu (
  all_cons conforms_v21_CenterCropPad (
  all_cons conforms_v21_Clip (
  all_cons conforms_v21_Col2Im (
  all_cons conforms_v21_Compress (
  all_cons conforms_v21_Concat (
  all_cons conforms_v21_ConcatFromSequence (
  all_cons conforms_v21_ConstantOfShape (
  all_cons conforms_v21_Conv (
  all_cons conforms_v21_ConvInteger (
  all_cons conforms_v21_ConvTranspose (
  all_cons conforms_v21_Cos (
  all_cons conforms_v21_Cosh (
  all_cons conforms_v21_CumSum (
  all_cons conforms_v21_DFT (
  all_cons conforms_v21_DeformConv (
  all_cons conforms_v21_DepthToSpace (
  all_cons conforms_v21_DequantizeLinear (
  all_cons conforms_v21_Det (
  all_cons conforms_v21_Div (
  all_cons conforms_v21_Dropout (
  all_cons conforms_v21_DynamicQuantizeLinear (
  all_cons conforms_v21_Einsum (
  all_cons conforms_v21_Elu (
  all_cons conforms_v21_Equal (
  all_cons conforms_v21_Erf (
  all_cons conforms_v21_Exp (
  all_cons conforms_v21_Expand (
  all_cons conforms_v21_EyeLike (
  all_cons conforms_v21_Flatten (
  all_cons conforms_v21_Floor (
  all_cons conforms_v21_GRU (
  all_cons conforms_v21_Gather (
  all_cons conforms_v21_GatherElements (
  all_cons conforms_v21_GatherND (
  all_cons conforms_v21_Gelu (
  all_cons conforms_v21_Gemm (
  all_cons conforms_v21_GlobalAveragePool (
  all_cons conforms_v21_GlobalLpPool (
  all_cons conforms_v21_GlobalMaxPool (
  all_cons conforms_v21_Greater (
  all_cons conforms_v21_GreaterOrEqual (
  all_cons conforms_v21_GridSample (
  all_cons conforms_v21_GroupNormalization (
  all_cons conforms_v21_HammingWindow (
  all_cons conforms_v21_HannWindow (
  all_cons conforms_v21_HardSigmoid (
  all_cons conforms_v21_HardSwish (
  all_cons conforms_v21_Hardmax (
  all_cons conforms_v21_Identity (
  all_cons conforms_v21_If (
  all_cons conforms_v21_ImageDecoder (
  all_cons conforms_v21_InstanceNormalization (
  all_cons conforms_v21_IsInf (
  all_cons conforms_v21_IsNaN (
  all_cons conforms_v21_LRN (
  all_cons conforms_v21_LSTM (
  all_cons conforms_v21_LayerNormalization (
  all_cons conforms_v21_LeakyRelu (
  all_cons conforms_v21_Less (
  all_cons conforms_v21_LessOrEqual (
  all_cons conforms_v21_Log (
  all_cons conforms_v21_LogSoftmax (
  all_cons conforms_v21_Loop (
  all_cons conforms_v21_LpNormalization (
  all_cons conforms_v21_LpPool (
  all_cons conforms_v21_MatMul (
  all_cons conforms_v21_MatMulInteger (
  all_cons conforms_v21_Max (
  all_cons conforms_v21_MaxPool (
  all_cons conforms_v21_MaxRoiPool (
  all_cons conforms_v21_MaxUnpool (
  all_cons conforms_v21_Mean (
  all_cons conforms_v21_MeanVarianceNormalization (
  all_cons conforms_v21_MelWeightMatrix (
  all_cons conforms_v21_Min (
  all_cons conforms_v21_Mish (
  all_cons conforms_v21_Mod (
  all_cons conforms_v21_Mul (
  all_cons conforms_v21_Multinomial (
  all_cons conforms_v21_Neg (
  all_cons conforms_v21_NegativeLogLikelihoodLoss (
  all_cons conforms_v21_NonMaxSuppression (
  all_cons conforms_v21_NonZero (
  all_cons conforms_v21_Not (
  all_cons conforms_v21_OneHot (
  all_cons conforms_v21_Optional (
  all_cons conforms_v21_OptionalGetElement (
  all_cons conforms_v21_OptionalHasElement (
  all_cons conforms_v21_Or (
  all_cons conforms_v21_PRelu (
  all_cons conforms_v21_Pad (
  all_cons conforms_v21_Pow (
  all_cons conforms_v21_QLinearConv (
  all_cons conforms_v21_QLinearMatMul (
  all_cons conforms_v21_QuantizeLinear (
  all_cons conforms_v21_RNN (
  all_cons conforms_v21_RandomNormal (
  all_cons conforms_v21_RandomNormalLike (
  all_cons conforms_v21_RandomUniform (
  all_cons conforms_v21_RandomUniformLike (
  all_cons conforms_v21_Range (
  all_cons conforms_v21_Reciprocal (
  all_cons conforms_v21_ReduceL1 (
  all_cons conforms_v21_ReduceL2 (
  all_cons conforms_v21_ReduceLogSum (
  all_cons conforms_v21_ReduceLogSumExp (
  all_cons conforms_v21_ReduceMax (
  all_cons conforms_v21_ReduceMean (
  all_cons conforms_v21_ReduceMin (
  all_cons conforms_v21_ReduceProd (
  all_cons conforms_v21_ReduceSum (
  all_cons conforms_v21_ReduceSumSquare (
  all_cons conforms_v21_RegexFullMatch (
  all_cons conforms_v21_Relu (
  all_cons conforms_v21_Reshape (
  all_cons conforms_v21_Resize (
  all_cons conforms_v21_ReverseSequence (
  all_cons conforms_v21_RoiAlign (
  all_cons conforms_v21_Round (
  all_cons conforms_v21_STFT (
  all_cons conforms_v21_Scan (
  all_cons conforms_v21_ScatterElements (
  all_cons conforms_v21_ScatterND (
  all_cons conforms_v21_Selu (
  all_cons conforms_v21_SequenceAt (
  all_cons conforms_v21_SequenceConstruct (
  all_cons conforms_v21_SequenceEmpty (
  all_cons conforms_v21_SequenceErase (
  all_cons conforms_v21_SequenceInsert (
  all_cons conforms_v21_SequenceLength (
  all_cons conforms_v21_SequenceMap (
  all_cons conforms_v21_Shape (
  all_cons conforms_v21_Shrink (
  all_cons conforms_v21_Sigmoid (
  all_cons conforms_v21_Sign (
  all_cons conforms_v21_Sin (
  all_cons conforms_v21_Sinh (
  all_cons conforms_v21_Size (
  all_cons conforms_v21_Slice (
  all_cons conforms_v21_Softmax (
  all_cons conforms_v21_SoftmaxCrossEntropyLoss (
  all_cons conforms_v21_Softplus (
  all_cons conforms_v21_Softsign (
  all_cons conforms_v21_SpaceToDepth (
  all_cons conforms_v21_Split (
  all_cons conforms_v21_SplitToSequence (
  all_cons conforms_v21_Sqrt (
  all_cons conforms_v21_Squeeze (
  all_cons conforms_v21_StringConcat (
  all_cons conforms_v21_StringNormalizer (
  all_cons conforms_v21_StringSplit (
  all_cons conforms_v21_Sub (
  all_cons conforms_v21_Sum (
  all_cons conforms_v21_Tan (
  all_cons conforms_v21_Tanh (
  all_cons conforms_v21_TfIdfVectorizer (
  all_cons conforms_v21_ThresholdedRelu (
  all_cons conforms_v21_Tile (
  all_cons conforms_v21_TopK (
  all_cons conforms_v21_Transpose (
  all_cons conforms_v21_Trilu (
  all_cons conforms_v21_Unique (
  all_cons conforms_v21_Unsqueeze (
  all_cons conforms_v21_Where (
  all_cons conforms_v21_Xor (
  all_nil))))))))))))))))))))))))))))))))))))))))))))))))))))))))))))))))))))))))))))))))))))))))))))))))))))))))))))))))))))))))))))))))))))))))))))))))))))))))))))))))))))))))))))))))))))))))))))))

theorem table_conforms : ∀ e ∈ table, entryOK e = true :=
  fun e he => List.all_eq_true.mp table_all e he

/-- every operator/module pair of this module (deviating ones included: deviations concern attributes) -/
def allEntries : List Entry :=
  [
   ("v17._Abs", Generated.Ctors.v17.f_abs, Generated.Schemas.v17.s_Abs_13), 
   ("v17._Acos", Generated.Ctors.v17.f_acos, Generated.Schemas.v17.s_Acos_7), 
   ("v17._Acosh", Generated.Ctors.v17.f_acosh, Generated.Schemas.v17.s_Acosh_9), 
   ("v17._Add", Generated.Ctors.v17.f_add, Generated.Schemas.v17.s_Add_14), 
   ("v20._AffineGrid", Generated.Ctors.v20.f_affine_grid, Generated.Schemas.v20.s_AffineGrid_20), 
   ("v17._And", Generated.Ctors.v17.f_and_, Generated.Schemas.v17.s_And_7), 
   ("v17._ArgMax", Generated.Ctors.v17.f_arg_max, Generated.Schemas.v17.s_ArgMax_13), 
   ("v17._ArgMin", Generated.Ctors.v17.f_arg_min, Generated.Schemas.v17.s_ArgMin_13), 
   ("v17._Asin", Generated.Ctors.v17.f_asin, Generated.Schemas.v17.s_Asin_7), 
   ("v17._Asinh", Generated.Ctors.v17.f_asinh, Generated.Schemas.v17.s_Asinh_9), 
   ("v17._Atan", Generated.Ctors.v17.f_atan, Generated.Schemas.v17.s_Atan_7), 
   ("v17._Atanh", Generated.Ctors.v17.f_atanh, Generated.Schemas.v17.s_Atanh_9), 
   ("v19._AveragePool", Generated.Ctors.v19.f_average_pool, Generated.Schemas.v19.s_AveragePool_19), 
   ("v17._BatchNormalization", Generated.Ctors.v17.f_batch_normalization, Generated.Schemas.v17.s_BatchNormalization_15), 
   ("v17._Bernoulli", Generated.Ctors.v17.f_bernoulli, Generated.Schemas.v17.s_Bernoulli_15), 
   ("v17._BitShift", Generated.Ctors.v17.f_bit_shift, Generated.Schemas.v17.s_BitShift_11), 
   ("v18._BitwiseAnd", Generated.Ctors.v18.f_bitwise_and, Generated.Schemas.v18.s_BitwiseAnd_18), 
   ("v18._BitwiseNot", Generated.Ctors.v18.f_bitwise_not, Generated.Schemas.v18.s_BitwiseNot_18), 
   ("v18._BitwiseOr", Generated.Ctors.v18.f_bitwise_or, Generated.Schemas.v18.s_BitwiseOr_18), 
   ("v18._BitwiseXor", Generated.Ctors.v18.f_bitwise_xor, Generated.Schemas.v18.s_BitwiseXor_18), 
   ("v17._BlackmanWindow", Generated.Ctors.v17.f_blackman_window, Generated.Schemas.v17.s_BlackmanWindow_17), 
   ("v21._Cast", Generated.Ctors.v21.f_cast, Generated.Schemas.v21.s_Cast_21), 
   ("v21._CastLike", Generated.Ctors.v21.f_cast_like, Generated.Schemas.v21.s_CastLike_21), 
   ("v17._Ceil", Generated.Ctors.v17.f_ceil, Generated.Schemas.v17.s_Ceil_13), 
   ("v17._Celu", Generated.Ctors.v17.f_celu, Generated.Schemas.v17.s_Celu_12), 
   ("v18._CenterCropPad", Generated.Ctors.v18.f_center_crop_pad, Generated.Schemas.v18.s_CenterCropPad_18), 
   ("v17._Clip", Generated.Ctors.v17.f_clip, Generated.Schemas.v17.s_Clip_13), 
   ("v18._Col2Im", Generated.Ctors.v18.f_col2_im, Generated.Schemas.v18.s_Col2Im_18), 
   ("v17._Compress", Generated.Ctors.v17.f_compress, Generated.Schemas.v17.s_Compress_11), 
   ("v17._Concat", Generated.Ctors.v17.f_concat, Generated.Schemas.v17.s_Concat_13), 
   ("v17._ConcatFromSequence", Generated.Ctors.v17.f_concat_from_sequence, Generated.Schemas.v17.s_ConcatFromSequence_11), 
   ("v21._Constant", Generated.Ctors.v21.f_constant, Generated.Schemas.v21.s_Constant_21), 
   ("v21._ConstantOfShape", Generated.Ctors.v21.f_constant_of_shape, Generated.Schemas.v21.s_ConstantOfShape_21), 
   ("v17._Conv", Generated.Ctors.v17.f_conv, Generated.Schemas.v17.s_Conv_11), 
   ("v17._ConvInteger", Generated.Ctors.v17.f_conv_integer, Generated.Schemas.v17.s_ConvInteger_10), 
   ("v17._ConvTranspose", Generated.Ctors.v17.f_conv_transpose, Generated.Schemas.v17.s_ConvTranspose_11), 
   ("v17._Cos", Generated.Ctors.v17.f_cos, Generated.Schemas.v17.s_Cos_7), 
   ("v17._Cosh", Generated.Ctors.v17.f_cosh, Generated.Schemas.v17.s_Cosh_9), 
   ("v17._CumSum", Generated.Ctors.v17.f_cumsum, Generated.Schemas.v17.s_CumSum_14), 
   ("v20._DFT", Generated.Ctors.v20.f_dft, Generated.Schemas.v20.s_DFT_20), 
   ("v19._DeformConv", Generated.Ctors.v19.f_deform_conv, Generated.Schemas.v19.s_DeformConv_19), 
   ("v17._DepthToSpace", Generated.Ctors.v17.f_depth_to_space, Generated.Schemas.v17.s_DepthToSpace_13), 
   ("v21._DequantizeLinear", Generated.Ctors.v21.f_dequantize_linear, Generated.Schemas.v21.s_DequantizeLinear_21), 
   ("v17._Det", Generated.Ctors.v17.f_det, Generated.Schemas.v17.s_Det_11), 
   ("v17._Div", Generated.Ctors.v17.f_div, Generated.Schemas.v17.s_Div_14), 
   ("v17._Dropout", Generated.Ctors.v17.f_dropout, Generated.Schemas.v17.s_Dropout_13), 
   ("v17._DynamicQuantizeLinear", Generated.Ctors.v17.f_dynamic_quantize_linear, Generated.Schemas.v17.s_DynamicQuantizeLinear_11), 
   ("v17._Einsum", Generated.Ctors.v17.f_einsum, Generated.Schemas.v17.s_Einsum_12), 
   ("v17._Elu", Generated.Ctors.v17.f_elu, Generated.Schemas.v17.s_Elu_6), 
   ("v19._Equal", Generated.Ctors.v19.f_equal, Generated.Schemas.v19.s_Equal_19), 
   ("v17._Erf", Generated.Ctors.v17.f_erf, Generated.Schemas.v17.s_Erf_13), 
   ("v17._Exp", Generated.Ctors.v17.f_exp, Generated.Schemas.v17.s_Exp_13), 
   ("v17._Expand", Generated.Ctors.v17.f_expand, Generated.Schemas.v17.s_Expand_13), 
   ("v17._EyeLike", Generated.Ctors.v17.f_eye_like, Generated.Schemas.v17.s_EyeLike_9), 
   ("v21._Flatten", Generated.Ctors.v21.f_flatten, Generated.Schemas.v21.s_Flatten_21), 
   ("v17._Floor", Generated.Ctors.v17.f_floor, Generated.Schemas.v17.s_Floor_13), 
   ("v17._GRU", Generated.Ctors.v17.f_gru, Generated.Schemas.v17.s_GRU_14), 
   ("v17._Gather", Generated.Ctors.v17.f_gather, Generated.Schemas.v17.s_Gather_13), 
   ("v17._GatherElements", Generated.Ctors.v17.f_gather_elements, Generated.Schemas.v17.s_GatherElements_13), 
   ("v17._GatherND", Generated.Ctors.v17.f_gather_nd, Generated.Schemas.v17.s_GatherND_13), 
   ("v20._Gelu", Generated.Ctors.v20.f_gelu, Generated.Schemas.v20.s_Gelu_20), 
   ("v17._Gemm", Generated.Ctors.v17.f_gemm, Generated.Schemas.v17.s_Gemm_13), 
   ("v17._GlobalAveragePool", Generated.Ctors.v17.f_global_average_pool, Generated.Schemas.v17.s_GlobalAveragePool_1), 
   ("v17._GlobalLpPool", Generated.Ctors.v17.f_global_lp_pool, Generated.Schemas.v17.s_GlobalLpPool_2), 
   ("v17._GlobalMaxPool", Generated.Ctors.v17.f_global_max_pool, Generated.Schemas.v17.s_GlobalMaxPool_1), 
   ("v17._Greater", Generated.Ctors.v17.f_greater, Generated.Schemas.v17.s_Greater_13), 
   ("v17._GreaterOrEqual", Generated.Ctors.v17.f_greater_or_equal, Generated.Schemas.v17.s_GreaterOrEqual_16), 
   ("v20._GridSample", Generated.Ctors.v20.f_grid_sample, Generated.Schemas.v20.s_GridSample_20), 
   ("v21._GroupNormalization", Generated.Ctors.v21.f_group_normalization, Generated.Schemas.v21.s_GroupNormalization_21), 
   ("v17._HammingWindow", Generated.Ctors.v17.f_hamming_window, Generated.Schemas.v17.s_HammingWindow_17), 
   ("v17._HannWindow", Generated.Ctors.v17.f_hann_window, Generated.Schemas.v17.s_HannWindow_17), 
   ("v17._HardSigmoid", Generated.Ctors.v17.f_hard_sigmoid, Generated.Schemas.v17.s_HardSigmoid_6), 
   ("v17._HardSwish", Generated.Ctors.v17.f_hard_swish, Generated.Schemas.v17.s_HardSwish_14), 
   ("v17._Hardmax", Generated.Ctors.v17.f_hardmax, Generated.Schemas.v17.s_Hardmax_13), 
   ("v21._Identity", Generated.Ctors.v21.f_identity, Generated.Schemas.v21.s_Identity_21), 
   ("v21._If", Generated.Ctors.v21.f_if_, Generated.Schemas.v21.s_If_21), 
   ("v20._ImageDecoder", Generated.Ctors.v20.f_image_decoder, Generated.Schemas.v20.s_ImageDecoder_20), 
   ("v17._InstanceNormalization", Generated.Ctors.v17.f_instance_normalization, Generated.Schemas.v17.s_InstanceNormalization_6), 
   ("v20._IsInf", Generated.Ctors.v20.f_isinf, Generated.Schemas.v20.s_IsInf_20), 
   ("v20._IsNaN", Generated.Ctors.v20.f_isnan, Generated.Schemas.v20.s_IsNaN_20), 
   ("v17._LRN", Generated.Ctors.v17.f_lrn, Generated.Schemas.v17.s_LRN_13), 
   ("v17._LSTM", Generated.Ctors.v17.f_lstm, Generated.Schemas.v17.s_LSTM_14), 
   ("v17._LayerNormalization", Generated.Ctors.v17.f_layer_normalization, Generated.Schemas.v17.s_LayerNormalization_17), 
   ("v17._LeakyRelu", Generated.Ctors.v17.f_leaky_relu, Generated.Schemas.v17.s_LeakyRelu_16), 
   ("v17._Less", Generated.Ctors.v17.f_less, Generated.Schemas.v17.s_Less_13), 
   ("v17._LessOrEqual", Generated.Ctors.v17.f_less_or_equal, Generated.Schemas.v17.s_LessOrEqual_16), 
   ("v17._Log", Generated.Ctors.v17.f_log, Generated.Schemas.v17.s_Log_13), 
   ("v17._LogSoftmax", Generated.Ctors.v17.f_log_softmax, Generated.Schemas.v17.s_LogSoftmax_13), 
   ("v21._Loop", Generated.Ctors.v21.f_loop, Generated.Schemas.v21.s_Loop_21), 
   ("v17._LpNormalization", Generated.Ctors.v17.f_lp_normalization, Generated.Schemas.v17.s_LpNormalization_1), 
   ("v18._LpPool", Generated.Ctors.v18.f_lp_pool, Generated.Schemas.v18.s_LpPool_18), 
   ("v17._MatMul", Generated.Ctors.v17.f_matmul, Generated.Schemas.v17.s_MatMul_13), 
   ("v17._MatMulInteger", Generated.Ctors.v17.f_matmul_integer, Generated.Schemas.v17.s_MatMulInteger_10), 
   ("v17._Max", Generated.Ctors.v17.f_max, Generated.Schemas.v17.s_Max_13), 
   ("v17._MaxPool", Generated.Ctors.v17.f_max_pool, Generated.Schemas.v17.s_MaxPool_12), 
   ("v17._MaxRoiPool", Generated.Ctors.v17.f_max_roi_pool, Generated.Schemas.v17.s_MaxRoiPool_1), 
   ("v17._MaxUnpool", Generated.Ctors.v17.f_max_unpool, Generated.Schemas.v17.s_MaxUnpool_11), 
   ("v17._Mean", Generated.Ctors.v17.f_mean, Generated.Schemas.v17.s_Mean_13), 
   ("v17._MeanVarianceNormalization", Generated.Ctors.v17.f_mean_variance_normalization, Generated.Schemas.v17.s_MeanVarianceNormalization_13), 
   ("v17._MelWeightMatrix", Generated.Ctors.v17.f_mel_weight_matrix, Generated.Schemas.v17.s_MelWeightMatrix_17), 
   ("v17._Min", Generated.Ctors.v17.f_min, Generated.Schemas.v17.s_Min_13), 
   ("v18._Mish", Generated.Ctors.v18.f_mish, Generated.Schemas.v18.s_Mish_18), 
   ("v17._Mod", Generated.Ctors.v17.f_mod, Generated.Schemas.v17.s_Mod_13), 
   ("v17._Mul", Generated.Ctors.v17.f_mul, Generated.Schemas.v17.s_Mul_14), 
   ("v17._Multinomial", Generated.Ctors.v17.f_multinomial, Generated.Schemas.v17.s_Multinomial_7), 
   ("v17._Neg", Generated.Ctors.v17.f_neg, Generated.Schemas.v17.s_Neg_13), 
   ("v17._NegativeLogLikelihoodLoss", Generated.Ctors.v17.f_negative_log_likelihood_loss, Generated.Schemas.v17.s_NegativeLogLikelihoodLoss_13), 
   ("v17._NonMaxSuppression", Generated.Ctors.v17.f_non_max_suppression, Generated.Schemas.v17.s_NonMaxSuppression_11), 
   ("v17._NonZero", Generated.Ctors.v17.f_non_zero, Generated.Schemas.v17.s_NonZero_13), 
   ("v17._Not", Generated.Ctors.v17.f_not_, Generated.Schemas.v17.s_Not_1), 
   ("v17._OneHot", Generated.Ctors.v17.f_one_hot, Generated.Schemas.v17.s_OneHot_11), 
   ("v17._Optional", Generated.Ctors.v17.f_optional, Generated.Schemas.v17.s_Optional_15), 
   ("v18._OptionalGetElement", Generated.Ctors.v18.f_optional_get_element, Generated.Schemas.v18.s_OptionalGetElement_18), 
   ("v18._OptionalHasElement", Generated.Ctors.v18.f_optional_has_element, Generated.Schemas.v18.s_OptionalHasElement_18), 
   ("v17._Or", Generated.Ctors.v17.f_or_, Generated.Schemas.v17.s_Or_7), 
   ("v17._PRelu", Generated.Ctors.v17.f_prelu, Generated.Schemas.v17.s_PRelu_16), 
   ("v21._Pad", Generated.Ctors.v21.f_pad, Generated.Schemas.v21.s_Pad_21), 
   ("v17._Pow", Generated.Ctors.v17.f_pow, Generated.Schemas.v17.s_Pow_15), 
   ("v17._QLinearConv", Generated.Ctors.v17.f_qlinear_conv, Generated.Schemas.v17.s_QLinearConv_10), 
   ("v21._QLinearMatMul", Generated.Ctors.v21.f_qlinear_matmul, Generated.Schemas.v21.s_QLinearMatMul_21), 
   ("v21._QuantizeLinear", Generated.Ctors.v21.f_quantize_linear, Generated.Schemas.v21.s_QuantizeLinear_21), 
   ("v17._RNN", Generated.Ctors.v17.f_rnn, Generated.Schemas.v17.s_RNN_14), 
   ("v17._RandomNormal", Generated.Ctors.v17.f_random_normal, Generated.Schemas.v17.s_RandomNormal_1), 
   ("v17._RandomNormalLike", Generated.Ctors.v17.f_random_normal_like, Generated.Schemas.v17.s_RandomNormalLike_1), 
   ("v17._RandomUniform", Generated.Ctors.v17.f_random_uniform, Generated.Schemas.v17.s_RandomUniform_1), 
   ("v17._RandomUniformLike", Generated.Ctors.v17.f_random_uniform_like, Generated.Schemas.v17.s_RandomUniformLike_1), 
   ("v17._Range", Generated.Ctors.v17.f_range, Generated.Schemas.v17.s_Range_11), 
   ("v17._Reciprocal", Generated.Ctors.v17.f_reciprocal, Generated.Schemas.v17.s_Reciprocal_13), 
   ("v18._ReduceL1", Generated.Ctors.v18.f_reduce_l1, Generated.Schemas.v18.s_ReduceL1_18), 
   ("v18._ReduceL2", Generated.Ctors.v18.f_reduce_l2, Generated.Schemas.v18.s_ReduceL2_18), 
   ("v18._ReduceLogSum", Generated.Ctors.v18.f_reduce_log_sum, Generated.Schemas.v18.s_ReduceLogSum_18), 
   ("v18._ReduceLogSumExp", Generated.Ctors.v18.f_reduce_log_sum_exp, Generated.Schemas.v18.s_ReduceLogSumExp_18), 
   ("v20._ReduceMax", Generated.Ctors.v20.f_reduce_max, Generated.Schemas.v20.s_ReduceMax_20), 
   ("v18._ReduceMean", Generated.Ctors.v18.f_reduce_mean, Generated.Schemas.v18.s_ReduceMean_18), 
   ("v20._ReduceMin", Generated.Ctors.v20.f_reduce_min, Generated.Schemas.v20.s_ReduceMin_20), 
   ("v18._ReduceProd", Generated.Ctors.v18.f_reduce_prod, Generated.Schemas.v18.s_ReduceProd_18), 
   ("v17._ReduceSum", Generated.Ctors.v17.f_reduce_sum, Generated.Schemas.v17.s_ReduceSum_13), 
   ("v18._ReduceSumSquare", Generated.Ctors.v18.f_reduce_sum_square, Generated.Schemas.v18.s_ReduceSumSquare_18), 
   ("v20._RegexFullMatch", Generated.Ctors.v20.f_regex_full_match, Generated.Schemas.v20.s_RegexFullMatch_20), 
   ("v17._Relu", Generated.Ctors.v17.f_relu, Generated.Schemas.v17.s_Relu_14), 
   ("v21._Reshape", Generated.Ctors.v21.f_reshape, Generated.Schemas.v21.s_Reshape_21), 
   ("v19._Resize", Generated.Ctors.v19.f_resize, Generated.Schemas.v19.s_Resize_19), 
   ("v17._ReverseSequence", Generated.Ctors.v17.f_reverse_sequence, Generated.Schemas.v17.s_ReverseSequence_10), 
   ("v17._RoiAlign", Generated.Ctors.v17.f_roi_align, Generated.Schemas.v17.s_RoiAlign_16), 
   ("v17._Round", Generated.Ctors.v17.f_round, Generated.Schemas.v17.s_Round_11), 
   ("v17._STFT", Generated.Ctors.v17.f_stft, Generated.Schemas.v17.s_STFT_17), 
   ("v21._Scan", Generated.Ctors.v21.f_scan, Generated.Schemas.v21.s_Scan_21), 
   ("v18._ScatterElements", Generated.Ctors.v18.f_scatter_elements, Generated.Schemas.v18.s_ScatterElements_18), 
   ("v18._ScatterND", Generated.Ctors.v18.f_scatter_nd, Generated.Schemas.v18.s_ScatterND_18), 
   ("v17._Selu", Generated.Ctors.v17.f_selu, Generated.Schemas.v17.s_Selu_6), 
   ("v17._SequenceAt", Generated.Ctors.v17.f_sequence_at, Generated.Schemas.v17.s_SequenceAt_11), 
   ("v17._SequenceConstruct", Generated.Ctors.v17.f_sequence_construct, Generated.Schemas.v17.s_SequenceConstruct_11), 
   ("v17._SequenceEmpty", Generated.Ctors.v17.f_sequence_empty, Generated.Schemas.v17.s_SequenceEmpty_11), 
   ("v17._SequenceErase", Generated.Ctors.v17.f_sequence_erase, Generated.Schemas.v17.s_SequenceErase_11), 
   ("v17._SequenceInsert", Generated.Ctors.v17.f_sequence_insert, Generated.Schemas.v17.s_SequenceInsert_11), 
   ("v17._SequenceLength", Generated.Ctors.v17.f_sequence_length, Generated.Schemas.v17.s_SequenceLength_11), 
   ("v17._SequenceMap", Generated.Ctors.v17.f_sequence_map, Generated.Schemas.v17.s_SequenceMap_17), 
   ("v21._Shape", Generated.Ctors.v21.f_shape, Generated.Schemas.v21.s_Shape_21), 
   ("v17._Shrink", Generated.Ctors.v17.f_shrink, Generated.Schemas.v17.s_Shrink_9), 
   ("v17._Sigmoid", Generated.Ctors.v17.f_sigmoid, Generated.Schemas.v17.s_Sigmoid_13), 
   ("v17._Sign", Generated.Ctors.v17.f_sign, Generated.Schemas.v17.s_Sign_13), 
   ("v17._Sin", Generated.Ctors.v17.f_sin, Generated.Schemas.v17.s_Sin_7), 
   ("v17._Sinh", Generated.Ctors.v17.f_sinh, Generated.Schemas.v17.s_Sinh_9), 
   ("v21._Size", Generated.Ctors.v21.f_size, Generated.Schemas.v21.s_Size_21), 
   ("v17._Slice", Generated.Ctors.v17.f_slice, Generated.Schemas.v17.s_Slice_13), 
   ("v17._Softmax", Generated.Ctors.v17.f_softmax, Generated.Schemas.v17.s_Softmax_13), 
   ("v17._SoftmaxCrossEntropyLoss", Generated.Ctors.v17.f_softmax_cross_entropy_loss, Generated.Schemas.v17.s_SoftmaxCrossEntropyLoss_13), 
   ("v17._Softplus", Generated.Ctors.v17.f_softplus, Generated.Schemas.v17.s_Softplus_1), 
   ("v17._Softsign", Generated.Ctors.v17.f_softsign, Generated.Schemas.v17.s_Softsign_1), 
   ("v17._SpaceToDepth", Generated.Ctors.v17.f_space_to_depth, Generated.Schemas.v17.s_SpaceToDepth_13), 
   ("v18._Split", Generated.Ctors.v18.f_split, Generated.Schemas.v18.s_Split_18), 
   ("v17._SplitToSequence", Generated.Ctors.v17.f_split_to_sequence, Generated.Schemas.v17.s_SplitToSequence_11), 
   ("v17._Sqrt", Generated.Ctors.v17.f_sqrt, Generated.Schemas.v17.s_Sqrt_13), 
   ("v21._Squeeze", Generated.Ctors.v21.f_squeeze, Generated.Schemas.v21.s_Squeeze_21), 
   ("v20._StringConcat", Generated.Ctors.v20.f_string_concat, Generated.Schemas.v20.s_StringConcat_20), 
   ("v17._StringNormalizer", Generated.Ctors.v17.f_string_normalizer, Generated.Schemas.v17.s_StringNormalizer_10), 
   ("v20._StringSplit", Generated.Ctors.v20.f_string_split, Generated.Schemas.v20.s_StringSplit_20), 
   ("v17._Sub", Generated.Ctors.v17.f_sub, Generated.Schemas.v17.s_Sub_14), 
   ("v17._Sum", Generated.Ctors.v17.f_sum, Generated.Schemas.v17.s_Sum_13), 
   ("v17._Tan", Generated.Ctors.v17.f_tan, Generated.Schemas.v17.s_Tan_7), 
   ("v17._Tanh", Generated.Ctors.v17.f_tanh, Generated.Schemas.v17.s_Tanh_13), 
   ("v17._TfIdfVectorizer", Generated.Ctors.v17.f_tf_idf_vectorizer, Generated.Schemas.v17.s_TfIdfVectorizer_9), 
   ("v17._ThresholdedRelu", Generated.Ctors.v17.f_thresholded_relu, Generated.Schemas.v17.s_ThresholdedRelu_10), 
   ("v17._Tile", Generated.Ctors.v17.f_tile, Generated.Schemas.v17.s_Tile_13), 
   ("v17._TopK", Generated.Ctors.v17.f_top_k, Generated.Schemas.v17.s_TopK_11), 
   ("v21._Transpose", Generated.Ctors.v21.f_transpose, Generated.Schemas.v21.s_Transpose_21), 
   ("v17._Trilu", Generated.Ctors.v17.f_trilu, Generated.Schemas.v17.s_Trilu_14), 
   ("v17._Unique", Generated.Ctors.v17.f_unique, Generated.Schemas.v17.s_Unique_11), 
   ("v21._Unsqueeze", Generated.Ctors.v21.f_unsqueeze, Generated.Schemas.v21.s_Unsqueeze_21), 
   ("v17._Where", Generated.Ctors.v17.f_where, Generated.Schemas.v17.s_Where_16), 
   ("v17._Xor", Generated.Ctors.v17.f_xor, Generated.Schemas.v17.s_Xor_7)]

theorem slots_all : allEntries.all slotOK = true :=
  all_cons slots_v21_Abs (
  all_cons slots_v21_Acos (
  all_cons slots_v21_Acosh (
  all_cons slots_v21_Add (
  all_cons slots_v21_AffineGrid (
  all_cons slots_v21_And (
  all_cons slots_v21_ArgMax (
  all_cons slots_v21_ArgMin (
  all_cons slots_v21_Asin (
  all_cons slots_v21_Asinh (
  all_cons slots_v21_Atan (
  all_cons slots_v21_Atanh (
  all_cons slots_v21_AveragePool (
  all_cons slots_v21_BatchNormalization (
  all_cons slots_v21_Bernoulli (
  all_cons slots_v21_BitShift (
  all_cons slots_v21_BitwiseAnd (
  all_cons slots_v21_BitwiseNot (
  all_cons slots_v21_BitwiseOr (
  all_cons slots_v21_BitwiseXor (
  all_cons slots_v21_BlackmanWindow (
  all_cons slots_v21_Cast (
  all_cons slots_v21_CastLike (
  all_cons slots_v21_Ceil (
  all_cons slots_v21_Celu (
  all_cons slots_v21_CenterCropPad (
  all_cons slots_v21_Clip (
  all_cons slots_v21_Col2Im (
  all_cons slots_v21_Compress (
  all_cons slots_v21_Concat (
  all_cons slots_v21_ConcatFromSequence (
  all_cons slots_v21_Constant (
  all_cons slots_v21_ConstantOfShape (
  all_cons slots_v21_Conv (
  all_cons slots_v21_ConvInteger (
  all_cons slots_v21_ConvTranspose (
  all_cons slots_v21_Cos (
  all_cons slots_v21_Cosh (
  all_cons slots_v21_CumSum (
  all_cons slots_v21_DFT (
  all_cons slots_v21_DeformConv (
  all_cons slots_v21_DepthToSpace (
  all_cons slots_v21_DequantizeLinear (
  all_cons slots_v21_Det (
  all_cons slots_v21_Div (
  all_cons slots_v21_Dropout (
  all_cons slots_v21_DynamicQuantizeLinear (
  all_cons slots_v21_Einsum (
  all_cons slots_v21_Elu (
  all_cons slots_v21_Equal (
  all_cons slots_v21_Erf (
  all_cons slots_v21_Exp (
  all_cons slots_v21_Expand (
  all_cons slots_v21_EyeLike (
  all_cons slots_v21_Flatten (
  all_cons slots_v21_Floor (
  all_cons slots_v21_GRU (
  all_cons slots_v21_Gather (
  all_cons slots_v21_GatherElements (
  all_cons slots_v21_GatherND (
  all_cons slots_v21_Gelu (
  all_cons slots_v21_Gemm (
  all_cons slots_v21_GlobalAveragePool (
  all_cons slots_v21_GlobalLpPool (
  all_cons slots_v21_GlobalMaxPool (
  all_cons slots_v21_Greater (
  all_cons slots_v21_GreaterOrEqual (
  all_cons slots_v21_GridSample (
  all_cons slots_v21_GroupNormalization (
  all_cons slots_v21_HammingWindow (
  all_cons slots_v21_HannWindow (
  all_cons slots_v21_HardSigmoid (
  all_cons slots_v21_HardSwish (
  all_cons slots_v21_Hardmax (
  all_cons slots_v21_Identity (
  all_cons slots_v21_If (
  all_cons slots_v21_ImageDecoder (
  all_cons slots_v21_InstanceNormalization (
  all_cons slots_v21_IsInf (
  all_cons slots_v21_IsNaN (
  all_cons slots_v21_LRN (
  all_cons slots_v21_LSTM (
  all_cons slots_v21_LayerNormalization (
  all_cons slots_v21_LeakyRelu (
  all_cons slots_v21_Less (
  all_cons slots_v21_LessOrEqual (
  all_cons slots_v21_Log (
  all_cons slots_v21_LogSoftmax (
  all_cons slots_v21_Loop (
  all_cons slots_v21_LpNormalization (
  all_cons slots_v21_LpPool (
  all_cons slots_v21_MatMul (
  all_cons slots_v21_MatMulInteger (
  all_cons slots_v21_Max (
  all_cons slots_v21_MaxPool (
  all_cons slots_v21_MaxRoiPool (
  all_cons slots_v21_MaxUnpool (
  all_cons slots_v21_Mean (
  all_cons slots_v21_MeanVarianceNormalization (
  all_cons slots_v21_MelWeightMatrix (
  all_cons slots_v21_Min (
  all_cons slots_v21_Mish (
  all_cons slots_v21_Mod (
  all_cons slots_v21_Mul (
  all_cons slots_v21_Multinomial (
  all_cons slots_v21_Neg (
  all_cons slots_v21_NegativeLogLikelihoodLoss (
  all_cons slots_v21_NonMaxSuppression (
  all_cons slots_v21_NonZero (
  all_cons slots_v21_Not (
  all_cons slots_v21_OneHot (
  all_cons slots_v21_Optional (
  all_cons slots_v21_OptionalGetElement (
  all_cons slots_v21_OptionalHasElement (
  all_cons slots_v21_Or (
  all_cons slots_v21_PRelu (
  all_cons slots_v21_Pad (
  all_cons slots_v21_Pow (
  all_cons slots_v21_QLinearConv (
  all_cons slots_v21_QLinearMatMul (
  all_cons slots_v21_QuantizeLinear (
  all_cons slots_v21_RNN (
  all_cons slots_v21_RandomNormal (
  all_cons slots_v21_RandomNormalLike (
  all_cons slots_v21_RandomUniform (
  all_cons slots_v21_RandomUniformLike (
  all_cons slots_v21_Range (
  all_cons slots_v21_Reciprocal (
  all_cons slots_v21_ReduceL1 (
  all_cons slots_v21_ReduceL2 (
  all_cons slots_v21_ReduceLogSum (
  all_cons slots_v21_ReduceLogSumExp (
  all_cons slots_v21_ReduceMax (
  all_cons slots_v21_ReduceMean (
  all_cons slots_v21_ReduceMin (
  all_cons slots_v21_ReduceProd (
  all_cons slots_v21_ReduceSum (
  all_cons slots_v21_ReduceSumSquare (
  all_cons slots_v21_RegexFullMatch (
  all_cons slots_v21_Relu (
  all_cons slots_v21_Reshape (
  all_cons slots_v21_Resize (
  all_cons slots_v21_ReverseSequence (
  all_cons slots_v21_RoiAlign (
  all_cons slots_v21_Round (
  all_cons slots_v21_STFT (
  all_cons slots_v21_Scan (
  all_cons slots_v21_ScatterElements (
  all_cons slots_v21_ScatterND (
  all_cons slots_v21_Selu (
  all_cons slots_v21_SequenceAt (
  all_cons slots_v21_SequenceConstruct (
  all_cons slots_v21_SequenceEmpty (
  all_cons slots_v21_SequenceErase (
  all_cons slots_v21_SequenceInsert (
  all_cons slots_v21_SequenceLength (
  all_cons slots_v21_SequenceMap (
  all_cons slots_v21_Shape (
  all_cons slots_v21_Shrink (
  all_cons slots_v21_Sigmoid (
  all_cons slots_v21_Sign (
  all_cons slots_v21_Sin (
  all_cons slots_v21_Sinh (
  all_cons slots_v21_Size (
  all_cons slots_v21_Slice (
  all_cons slots_v21_Softmax (
  all_cons slots_v21_SoftmaxCrossEntropyLoss (
  all_cons slots_v21_Softplus (
  all_cons slots_v21_Softsign (
  all_cons slots_v21_SpaceToDepth (
  all_cons slots_v21_Split (
  all_cons slots_v21_SplitToSequence (
  all_cons slots_v21_Sqrt (
  all_cons slots_v21_Squeeze (
  all_cons slots_v21_StringConcat (
  all_cons slots_v21_StringNormalizer (
  all_cons slots_v21_StringSplit (
  all_cons slots_v21_Sub (
  all_cons slots_v21_Sum (
  all_cons slots_v21_Tan (
  all_cons slots_v21_Tanh (
  all_cons slots_v21_TfIdfVectorizer (
  all_cons slots_v21_ThresholdedRelu (
  all_cons slots_v21_Tile (
  all_cons slots_v21_TopK (
  all_cons slots_v21_Transpose (
  all_cons slots_v21_Trilu (
  all_cons slots_v21_Unique (
  all_cons slots_v21_Unsqueeze (
  all_cons slots_v21_Where (
  all_cons slots_v21_Xor (
  all_nil)))))))))))))))))))))))))))))))))))))))))))))))))))))))))))))))))))))))))))))))))))))))))))))))))))))))))))))))))))))))))))))))))))))))))))))))))))))))))))))))))))))))))))))))))))))))))))))))

theorem table_slots : ∀ e ∈ allEntries, slotOK e = true :=
  fun e he => List.all_eq_true.mp slots_all e he

/-- pairs with listed deviations (known findings), each with what is excepted -/
def deviating : List (List String × Entry) :=
  [
   (["sparse_value"], ("v21._Constant", Generated.Ctors.v21.f_constant, Generated.Schemas.v21.s_Constant_21))]

theorem deviating_conforms : ∀ d ∈ deviating, entryOKExcept d.1 d.2 = true := by decide +kernel

end Generated.Conforms.v21
