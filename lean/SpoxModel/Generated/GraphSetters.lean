-- GENERATED from src/spox/_graph.py, _build.py by translator/graph_setters.py on every run; do not edit.

import SpoxModel.Model.Memo

namespace Generated.GraphSetters
open Memo

def setters : List Setter := [⟨"with_name", ["_name"]⟩, ⟨"with_doc", ["_doc_string"]⟩, ⟨"with_arguments", ["_arguments", "_build_result"]⟩, ⟨"with_opset", ["_extra_opset_req", "_build_result"]⟩, ⟨"_with_constructor", ["_constructor"]⟩, ⟨"_inject_build_result", ["_build_result"]⟩]

def memoGuarded : Bool := true

def builderReads : List String := ["_extra_opset_req", "_get_build_result", "requested_arguments", "requested_results", "to_onnx", "with_name"]

end Generated.GraphSetters
