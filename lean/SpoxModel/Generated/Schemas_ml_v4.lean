-- GENERATED from onnx.defs (domain 'ai.onnx.ml', version 4) by translator/constructors.py on every run; do not edit.
import SpoxModel.Model.Conform
import SpoxModel.Generated.Schemas_ml_v3
namespace Generated.Schemas.ml_v4
open Conform

def s_LabelEncoder_4 : Schema :=
  { name := "LabelEncoder", domain := "ai.onnx.ml", since := 4, deprecated := false, minInput := 1, minOutput := 1,
    inputs := [("X", .single)],
    outputs := [("Y", .single)],
    attrs := [⟨"default_float", .FLOAT, false, (Val.float 2147483648)⟩, ⟨"default_int64", .INT, false, (Val.int (-1))⟩, ⟨"default_string", .STRING, false, (Val.str "_Unused")⟩, ⟨"default_tensor", .TENSOR, false, Val.none⟩, ⟨"keys_floats", .FLOATS, false, Val.none⟩, ⟨"keys_int64s", .INTS, false, Val.none⟩, ⟨"keys_strings", .STRINGS, false, Val.none⟩, ⟨"keys_tensor", .TENSOR, false, Val.none⟩, ⟨"values_floats", .FLOATS, false, Val.none⟩, ⟨"values_int64s", .INTS, false, Val.none⟩, ⟨"values_strings", .STRINGS, false, Val.none⟩, ⟨"values_tensor", .TENSOR, false, Val.none⟩] }

end Generated.Schemas.ml_v4
