-- GENERATED from src/spox/opset/ai/onnx/v17.py + onnx.defs by translator/constructors.py on every run; do not edit.
import SpoxModel.Generated.Constructors_v17
import SpoxModel.Generated.Schemas_v17
namespace Generated.Conforms.v17
open Conform

theorem conforms_v17_Abs : entryOK ("v17._Abs", Generated.Ctors.v17.f_abs, Generated.Schemas.v17.s_Abs_13) = true := by decide +kernel

theorem slots_v17_Abs : slotOK ("v17._Abs", Generated.Ctors.v17.f_abs, Generated.Schemas.v17.s_Abs_13) = true := by decide +kernel

theorem conforms_v17_Acos : entryOK ("v17._Acos", Generated.Ctors.v17.f_acos, Generated.Schemas.v17.s_Acos_7) = true := by decide +kernel

theorem slots_v17_Acos : slotOK ("v17._Acos", Generated.Ctors.v17.f_acos, Generated.Schemas.v17.s_Acos_7) = true := by decide +kernel

theorem conforms_v17_Acosh : entryOK ("v17._Acosh", Generated.Ctors.v17.f_acosh, Generated.Schemas.v17.s_Acosh_9) = true := by decide +kernel

theorem slots_v17_Acosh : slotOK ("v17._Acosh", Generated.Ctors.v17.f_acosh, Generated.Schemas.v17.s_Acosh_9) = true := by decide +kernel

theorem conforms_v17_Add : entryOK ("v17._Add", Generated.Ctors.v17.f_add, Generated.Schemas.v17.s_Add_14) = true := by decide +kernel

theorem slots_v17_Add : slotOK ("v17._Add", Generated.Ctors.v17.f_add, Generated.Schemas.v17.s_Add_14) = true := by decide +kernel

theorem conforms_v17_And : entryOK ("v17._And", Generated.Ctors.v17.f_and_, Generated.Schemas.v17.s_And_7) = true := by decide +kernel

theorem slots_v17_And : slotOK ("v17._And", Generated.Ctors.v17.f_and_, Generated.Schemas.v17.s_And_7) = true := by decide +kernel

theorem conforms_v17_ArgMax : entryOK ("v17._ArgMax", Generated.Ctors.v17.f_arg_max, Generated.Schemas.v17.s_ArgMax_13) = true := by decide +kernel

theorem slots_v17_ArgMax : slotOK ("v17._ArgMax", Generated.Ctors.v17.f_arg_max, Generated.Schemas.v17.s_ArgMax_13) = true := by decide +kernel

theorem conforms_v17_ArgMin : entryOK ("v17._ArgMin", Generated.Ctors.v17.f_arg_min, Generated.Schemas.v17.s_ArgMin_13) = true := by decide +kernel

theorem slots_v17_ArgMin : slotOK ("v17._ArgMin", Generated.Ctors.v17.f_arg_min, Generated.Schemas.v17.s_ArgMin_13) = true := by decide +kernel

theorem conforms_v17_Asin : entryOK ("v17._Asin", Generated.Ctors.v17.f_asin, Generated.Schemas.v17.s_Asin_7) = true := by decide +kernel

theorem slots_v17_Asin : slotOK ("v17._Asin", Generated.Ctors.v17.f_asin, Generated.Schemas.v17.s_Asin_7) = true := by decide +kernel

theorem conforms_v17_Asinh : entryOK ("v17._Asinh", Generated.Ctors.v17.f_asinh, Generated.Schemas.v17.s_Asinh_9) = true := by decide +kernel

theorem slots_v17_Asinh : slotOK ("v17._Asinh", Generated.Ctors.v17.f_asinh, Generated.Schemas.v17.s_Asinh_9) = true := by decide +kernel

theorem conforms_v17_Atan : entryOK ("v17._Atan", Generated.Ctors.v17.f_atan, Generated.Schemas.v17.s_Atan_7) = true := by decide +kernel

theorem slots_v17_Atan : slotOK ("v17._Atan", Generated.Ctors.v17.f_atan, Generated.Schemas.v17.s_Atan_7) = true := by decide +kernel

theorem conforms_v17_Atanh : entryOK ("v17._Atanh", Generated.Ctors.v17.f_atanh, Generated.Schemas.v17.s_Atanh_9) = true := by decide +kernel

theorem slots_v17_Atanh : slotOK ("v17._Atanh", Generated.Ctors.v17.f_atanh, Generated.Schemas.v17.s_Atanh_9) = true := by decide +kernel

theorem conforms_v17_AveragePool : entryOK ("v17._AveragePool", Generated.Ctors.v17.f_average_pool, Generated.Schemas.v17.s_AveragePool_11) = true := by decide +kernel

theorem slots_v17_AveragePool : slotOK ("v17._AveragePool", Generated.Ctors.v17.f_average_pool, Generated.Schemas.v17.s_AveragePool_11) = true := by decide +kernel

theorem conforms_v17_BatchNormalization : entryOK ("v17._BatchNormalization", Generated.Ctors.v17.f_batch_normalization, Generated.Schemas.v17.s_BatchNormalization_15) = true := by decide +kernel

theorem slots_v17_BatchNormalization : slotOK ("v17._BatchNormalization", Generated.Ctors.v17.f_batch_normalization, Generated.Schemas.v17.s_BatchNormalization_15) = true := by decide +kernel

theorem conforms_v17_Bernoulli : entryOK ("v17._Bernoulli", Generated.Ctors.v17.f_bernoulli, Generated.Schemas.v17.s_Bernoulli_15) = true := by decide +kernel

theorem slots_v17_Bernoulli : slotOK ("v17._Bernoulli", Generated.Ctors.v17.f_bernoulli, Generated.Schemas.v17.s_Bernoulli_15) = true := by decide +kernel

theorem conforms_v17_BitShift : entryOK ("v17._BitShift", Generated.Ctors.v17.f_bit_shift, Generated.Schemas.v17.s_BitShift_11) = true := by decide +kernel

theorem slots_v17_BitShift : slotOK ("v17._BitShift", Generated.Ctors.v17.f_bit_shift, Generated.Schemas.v17.s_BitShift_11) = true := by decide +kernel

theorem conforms_v17_BlackmanWindow : entryOK ("v17._BlackmanWindow", Generated.Ctors.v17.f_blackman_window, Generated.Schemas.v17.s_BlackmanWindow_17) = true := by decide +kernel

theorem slots_v17_BlackmanWindow : slotOK ("v17._BlackmanWindow", Generated.Ctors.v17.f_blackman_window, Generated.Schemas.v17.s_BlackmanWindow_17) = true := by decide +kernel

theorem conforms_v17_Cast : entryOK ("v17._Cast", Generated.Ctors.v17.f_cast, Generated.Schemas.v17.s_Cast_13) = true := by decide +kernel

theorem slots_v17_Cast : slotOK ("v17._Cast", Generated.Ctors.v17.f_cast, Generated.Schemas.v17.s_Cast_13) = true := by decide +kernel

theorem conforms_v17_CastLike : entryOK ("v17._CastLike", Generated.Ctors.v17.f_cast_like, Generated.Schemas.v17.s_CastLike_15) = true := by decide +kernel

theorem slots_v17_CastLike : slotOK ("v17._CastLike", Generated.Ctors.v17.f_cast_like, Generated.Schemas.v17.s_CastLike_15) = true := by decide +kernel

theorem conforms_v17_Ceil : entryOK ("v17._Ceil", Generated.Ctors.v17.f_ceil, Generated.Schemas.v17.s_Ceil_13) = true := by decide +kernel

theorem slots_v17_Ceil : slotOK ("v17._Ceil", Generated.Ctors.v17.f_ceil, Generated.Schemas.v17.s_Ceil_13) = true := by decide +kernel

theorem conforms_v17_Celu : entryOK ("v17._Celu", Generated.Ctors.v17.f_celu, Generated.Schemas.v17.s_Celu_12) = true := by decide +kernel

theorem slots_v17_Celu : slotOK ("v17._Celu", Generated.Ctors.v17.f_celu, Generated.Schemas.v17.s_Celu_12) = true := by decide +kernel

theorem conforms_v17_Clip : entryOK ("v17._Clip", Generated.Ctors.v17.f_clip, Generated.Schemas.v17.s_Clip_13) = true := by decide +kernel

theorem slots_v17_Clip : slotOK ("v17._Clip", Generated.Ctors.v17.f_clip, Generated.Schemas.v17.s_Clip_13) = true := by decide +kernel

theorem conforms_v17_Compress : entryOK ("v17._Compress", Generated.Ctors.v17.f_compress, Generated.Schemas.v17.s_Compress_11) = true := by decide +kernel

theorem slots_v17_Compress : slotOK ("v17._Compress", Generated.Ctors.v17.f_compress, Generated.Schemas.v17.s_Compress_11) = true := by decide +kernel

theorem conforms_v17_Concat : entryOK ("v17._Concat", Generated.Ctors.v17.f_concat, Generated.Schemas.v17.s_Concat_13) = true := by decide +kernel

theorem slots_v17_Concat : slotOK ("v17._Concat", Generated.Ctors.v17.f_concat, Generated.Schemas.v17.s_Concat_13) = true := by decide +kernel

theorem conforms_v17_ConcatFromSequence : entryOK ("v17._ConcatFromSequence", Generated.Ctors.v17.f_concat_from_sequence, Generated.Schemas.v17.s_ConcatFromSequence_11) = true := by decide +kernel

theorem slots_v17_ConcatFromSequence : slotOK ("v17._ConcatFromSequence", Generated.Ctors.v17.f_concat_from_sequence, Generated.Schemas.v17.s_ConcatFromSequence_11) = true := by decide +kernel

/-- known deviation (findings.d/C11.json): conforms in everything but the absent attribute(s) -/
theorem conforms_v17_Constant : entryOKExcept ["sparse_value"] ("v17._Constant", Generated.Ctors.v17.f_constant, Generated.Schemas.v17.s_Constant_13) = true := by decide +kernel

theorem slots_v17_Constant : slotOK ("v17._Constant", Generated.Ctors.v17.f_constant, Generated.Schemas.v17.s_Constant_13) = true := by decide +kernel

theorem conforms_v17_ConstantOfShape : entryOK ("v17._ConstantOfShape", Generated.Ctors.v17.f_constant_of_shape, Generated.Schemas.v17.s_ConstantOfShape_9) = true := by decide +kernel

theorem slots_v17_ConstantOfShape : slotOK ("v17._ConstantOfShape", Generated.Ctors.v17.f_constant_of_shape, Generated.Schemas.v17.s_ConstantOfShape_9) = true := by decide +kernel

theorem conforms_v17_Conv : entryOK ("v17._Conv", Generated.Ctors.v17.f_conv, Generated.Schemas.v17.s_Conv_11) = true := by decide +kernel

theorem slots_v17_Conv : slotOK ("v17._Conv", Generated.Ctors.v17.f_conv, Generated.Schemas.v17.s_Conv_11) = true := by decide +kernel

theorem conforms_v17_ConvInteger : entryOK ("v17._ConvInteger", Generated.Ctors.v17.f_conv_integer, Generated.Schemas.v17.s_ConvInteger_10) = true := by decide +kernel

theorem slots_v17_ConvInteger : slotOK ("v17._ConvInteger", Generated.Ctors.v17.f_conv_integer, Generated.Schemas.v17.s_ConvInteger_10) = true := by decide +kernel

theorem conforms_v17_ConvTranspose : entryOK ("v17._ConvTranspose", Generated.Ctors.v17.f_conv_transpose, Generated.Schemas.v17.s_ConvTranspose_11) = true := by decide +kernel

theorem slots_v17_ConvTranspose : slotOK ("v17._ConvTranspose", Generated.Ctors.v17.f_conv_transpose, Generated.Schemas.v17.s_ConvTranspose_11) = true := by decide +kernel

theorem conforms_v17_Cos : entryOK ("v17._Cos", Generated.Ctors.v17.f_cos, Generated.Schemas.v17.s_Cos_7) = true := by decide +kernel

theorem slots_v17_Cos : slotOK ("v17._Cos", Generated.Ctors.v17.f_cos, Generated.Schemas.v17.s_Cos_7) = true := by decide +kernel

theorem conforms_v17_Cosh : entryOK ("v17._Cosh", Generated.Ctors.v17.f_cosh, Generated.Schemas.v17.s_Cosh_9) = true := by decide +kernel

theorem slots_v17_Cosh : slotOK ("v17._Cosh", Generated.Ctors.v17.f_cosh, Generated.Schemas.v17.s_Cosh_9) = true := by decide +kernel

theorem conforms_v17_CumSum : entryOK ("v17._CumSum", Generated.Ctors.v17.f_cumsum, Generated.Schemas.v17.s_CumSum_14) = true := by decide +kernel

theorem slots_v17_CumSum : slotOK ("v17._CumSum", Generated.Ctors.v17.f_cumsum, Generated.Schemas.v17.s_CumSum_14) = true := by decide +kernel

theorem conforms_v17_DFT : entryOK ("v17._DFT", Generated.Ctors.v17.f_dft, Generated.Schemas.v17.s_DFT_17) = true := by decide +kernel

theorem slots_v17_DFT : slotOK ("v17._DFT", Generated.Ctors.v17.f_dft, Generated.Schemas.v17.s_DFT_17) = true := by decide +kernel

theorem conforms_v17_DepthToSpace : entryOK ("v17._DepthToSpace", Generated.Ctors.v17.f_depth_to_space, Generated.Schemas.v17.s_DepthToSpace_13) = true := by decide +kernel

theorem slots_v17_DepthToSpace : slotOK ("v17._DepthToSpace", Generated.Ctors.v17.f_depth_to_space, Generated.Schemas.v17.s_DepthToSpace_13) = true := by decide +kernel

theorem conforms_v17_DequantizeLinear : entryOK ("v17._DequantizeLinear", Generated.Ctors.v17.f_dequantize_linear, Generated.Schemas.v17.s_DequantizeLinear_13) = true := by decide +kernel

theorem slots_v17_DequantizeLinear : slotOK ("v17._DequantizeLinear", Generated.Ctors.v17.f_dequantize_linear, Generated.Schemas.v17.s_DequantizeLinear_13) = true := by decide +kernel

theorem conforms_v17_Det : entryOK ("v17._Det", Generated.Ctors.v17.f_det, Generated.Schemas.v17.s_Det_11) = true := by decide +kernel

theorem slots_v17_Det : slotOK ("v17._Det", Generated.Ctors.v17.f_det, Generated.Schemas.v17.s_Det_11) = true := by decide +kernel

theorem conforms_v17_Div : entryOK ("v17._Div", Generated.Ctors.v17.f_div, Generated.Schemas.v17.s_Div_14) = true := by decide +kernel

theorem slots_v17_Div : slotOK ("v17._Div", Generated.Ctors.v17.f_div, Generated.Schemas.v17.s_Div_14) = true := by decide +kernel

theorem conforms_v17_Dropout : entryOK ("v17._Dropout", Generated.Ctors.v17.f_dropout, Generated.Schemas.v17.s_Dropout_13) = true := by decide +kernel

theorem slots_v17_Dropout : slotOK ("v17._Dropout", Generated.Ctors.v17.f_dropout, Generated.Schemas.v17.s_Dropout_13) = true := by decide +kernel

theorem conforms_v17_DynamicQuantizeLinear : entryOK ("v17._DynamicQuantizeLinear", Generated.Ctors.v17.f_dynamic_quantize_linear, Generated.Schemas.v17.s_DynamicQuantizeLinear_11) = true := by decide +kernel

theorem slots_v17_DynamicQuantizeLinear : slotOK ("v17._DynamicQuantizeLinear", Generated.Ctors.v17.f_dynamic_quantize_linear, Generated.Schemas.v17.s_DynamicQuantizeLinear_11) = true := by decide +kernel

theorem conforms_v17_Einsum : entryOK ("v17._Einsum", Generated.Ctors.v17.f_einsum, Generated.Schemas.v17.s_Einsum_12) = true := by decide +kernel

theorem slots_v17_Einsum : slotOK ("v17._Einsum", Generated.Ctors.v17.f_einsum, Generated.Schemas.v17.s_Einsum_12) = true := by decide +kernel

theorem conforms_v17_Elu : entryOK ("v17._Elu", Generated.Ctors.v17.f_elu, Generated.Schemas.v17.s_Elu_6) = true := by decide +kernel

theorem slots_v17_Elu : slotOK ("v17._Elu", Generated.Ctors.v17.f_elu, Generated.Schemas.v17.s_Elu_6) = true := by decide +kernel

theorem conforms_v17_Equal : entryOK ("v17._Equal", Generated.Ctors.v17.f_equal, Generated.Schemas.v17.s_Equal_13) = true := by decide +kernel

theorem slots_v17_Equal : slotOK ("v17._Equal", Generated.Ctors.v17.f_equal, Generated.Schemas.v17.s_Equal_13) = true := by decide +kernel

theorem conforms_v17_Erf : entryOK ("v17._Erf", Generated.Ctors.v17.f_erf, Generated.Schemas.v17.s_Erf_13) = true := by decide +kernel

theorem slots_v17_Erf : slotOK ("v17._Erf", Generated.Ctors.v17.f_erf, Generated.Schemas.v17.s_Erf_13) = true := by decide +kernel

theorem conforms_v17_Exp : entryOK ("v17._Exp", Generated.Ctors.v17.f_exp, Generated.Schemas.v17.s_Exp_13) = true := by decide +kernel

theorem slots_v17_Exp : slotOK ("v17._Exp", Generated.Ctors.v17.f_exp, Generated.Schemas.v17.s_Exp_13) = true := by decide +kernel

theorem conforms_v17_Expand : entryOK ("v17._Expand", Generated.Ctors.v17.f_expand, Generated.Schemas.v17.s_Expand_13) = true := by decide +kernel

theorem slots_v17_Expand : slotOK ("v17._Expand", Generated.Ctors.v17.f_expand, Generated.Schemas.v17.s_Expand_13) = true := by decide +kernel

theorem conforms_v17_EyeLike : entryOK ("v17._EyeLike", Generated.Ctors.v17.f_eye_like, Generated.Schemas.v17.s_EyeLike_9) = true := by decide +kernel

theorem slots_v17_EyeLike : slotOK ("v17._EyeLike", Generated.Ctors.v17.f_eye_like, Generated.Schemas.v17.s_EyeLike_9) = true := by decide +kernel

theorem conforms_v17_Flatten : entryOK ("v17._Flatten", Generated.Ctors.v17.f_flatten, Generated.Schemas.v17.s_Flatten_13) = true := by decide +kernel

theorem slots_v17_Flatten : slotOK ("v17._Flatten", Generated.Ctors.v17.f_flatten, Generated.Schemas.v17.s_Flatten_13) = true := by decide +kernel

theorem conforms_v17_Floor : entryOK ("v17._Floor", Generated.Ctors.v17.f_floor, Generated.Schemas.v17.s_Floor_13) = true := by decide +kernel

theorem slots_v17_Floor : slotOK ("v17._Floor", Generated.Ctors.v17.f_floor, Generated.Schemas.v17.s_Floor_13) = true := by decide +kernel

theorem conforms_v17_GRU : entryOK ("v17._GRU", Generated.Ctors.v17.f_gru, Generated.Schemas.v17.s_GRU_14) = true := by decide +kernel

theorem slots_v17_GRU : slotOK ("v17._GRU", Generated.Ctors.v17.f_gru, Generated.Schemas.v17.s_GRU_14) = true := by decide +kernel

theorem conforms_v17_Gather : entryOK ("v17._Gather", Generated.Ctors.v17.f_gather, Generated.Schemas.v17.s_Gather_13) = true := by decide +kernel

theorem slots_v17_Gather : slotOK ("v17._Gather", Generated.Ctors.v17.f_gather, Generated.Schemas.v17.s_Gather_13) = true := by decide +kernel

theorem conforms_v17_GatherElements : entryOK ("v17._GatherElements", Generated.Ctors.v17.f_gather_elements, Generated.Schemas.v17.s_GatherElements_13) = true := by decide +kernel

theorem slots_v17_GatherElements : slotOK ("v17._GatherElements", Generated.Ctors.v17.f_gather_elements, Generated.Schemas.v17.s_GatherElements_13) = true := by decide +kernel

theorem conforms_v17_GatherND : entryOK ("v17._GatherND", Generated.Ctors.v17.f_gather_nd, Generated.Schemas.v17.s_GatherND_13) = true := by decide +kernel

theorem slots_v17_GatherND : slotOK ("v17._GatherND", Generated.Ctors.v17.f_gather_nd, Generated.Schemas.v17.s_GatherND_13) = true := by decide +kernel

theorem conforms_v17_Gemm : entryOK ("v17._Gemm", Generated.Ctors.v17.f_gemm, Generated.Schemas.v17.s_Gemm_13) = true := by decide +kernel

theorem slots_v17_Gemm : slotOK ("v17._Gemm", Generated.Ctors.v17.f_gemm, Generated.Schemas.v17.s_Gemm_13) = true := by decide +kernel

theorem conforms_v17_GlobalAveragePool : entryOK ("v17._GlobalAveragePool", Generated.Ctors.v17.f_global_average_pool, Generated.Schemas.v17.s_GlobalAveragePool_1) = true := by decide +kernel

theorem slots_v17_GlobalAveragePool : slotOK ("v17._GlobalAveragePool", Generated.Ctors.v17.f_global_average_pool, Generated.Schemas.v17.s_GlobalAveragePool_1) = true := by decide +kernel

theorem conforms_v17_GlobalLpPool : entryOK ("v17._GlobalLpPool", Generated.Ctors.v17.f_global_lp_pool, Generated.Schemas.v17.s_GlobalLpPool_2) = true := by decide +kernel

theorem slots_v17_GlobalLpPool : slotOK ("v17._GlobalLpPool", Generated.Ctors.v17.f_global_lp_pool, Generated.Schemas.v17.s_GlobalLpPool_2) = true := by decide +kernel

theorem conforms_v17_GlobalMaxPool : entryOK ("v17._GlobalMaxPool", Generated.Ctors.v17.f_global_max_pool, Generated.Schemas.v17.s_GlobalMaxPool_1) = true := by decide +kernel

theorem slots_v17_GlobalMaxPool : slotOK ("v17._GlobalMaxPool", Generated.Ctors.v17.f_global_max_pool, Generated.Schemas.v17.s_GlobalMaxPool_1) = true := by decide +kernel

theorem conforms_v17_Greater : entryOK ("v17._Greater", Generated.Ctors.v17.f_greater, Generated.Schemas.v17.s_Greater_13) = true := by decide +kernel

theorem slots_v17_Greater : slotOK ("v17._Greater", Generated.Ctors.v17.f_greater, Generated.Schemas.v17.s_Greater_13) = true := by decide +kernel

theorem conforms_v17_GreaterOrEqual : entryOK ("v17._GreaterOrEqual", Generated.Ctors.v17.f_greater_or_equal, Generated.Schemas.v17.s_GreaterOrEqual_16) = true := by decide +kernel

theorem slots_v17_GreaterOrEqual : slotOK ("v17._GreaterOrEqual", Generated.Ctors.v17.f_greater_or_equal, Generated.Schemas.v17.s_GreaterOrEqual_16) = true := by decide +kernel

theorem conforms_v17_GridSample : entryOK ("v17._GridSample", Generated.Ctors.v17.f_grid_sample, Generated.Schemas.v17.s_GridSample_16) = true := by decide +kernel

theorem slots_v17_GridSample : slotOK ("v17._GridSample", Generated.Ctors.v17.f_grid_sample, Generated.Schemas.v17.s_GridSample_16) = true := by decide +kernel

theorem conforms_v17_HammingWindow : entryOK ("v17._HammingWindow", Generated.Ctors.v17.f_hamming_window, Generated.Schemas.v17.s_HammingWindow_17) = true := by decide +kernel

theorem slots_v17_HammingWindow : slotOK ("v17._HammingWindow", Generated.Ctors.v17.f_hamming_window, Generated.Schemas.v17.s_HammingWindow_17) = true := by decide +kernel

theorem conforms_v17_HannWindow : entryOK ("v17._HannWindow", Generated.Ctors.v17.f_hann_window, Generated.Schemas.v17.s_HannWindow_17) = true := by decide +kernel

theorem slots_v17_HannWindow : slotOK ("v17._HannWindow", Generated.Ctors.v17.f_hann_window, Generated.Schemas.v17.s_HannWindow_17) = true := by decide +kernel

theorem conforms_v17_HardSigmoid : entryOK ("v17._HardSigmoid", Generated.Ctors.v17.f_hard_sigmoid, Generated.Schemas.v17.s_HardSigmoid_6) = true := by decide +kernel

theorem slots_v17_HardSigmoid : slotOK ("v17._HardSigmoid", Generated.Ctors.v17.f_hard_sigmoid, Generated.Schemas.v17.s_HardSigmoid_6) = true := by decide +kernel

theorem conforms_v17_HardSwish : entryOK ("v17._HardSwish", Generated.Ctors.v17.f_hard_swish, Generated.Schemas.v17.s_HardSwish_14) = true := by decide +kernel

theorem slots_v17_HardSwish : slotOK ("v17._HardSwish", Generated.Ctors.v17.f_hard_swish, Generated.Schemas.v17.s_HardSwish_14) = true := by decide +kernel

theorem conforms_v17_Hardmax : entryOK ("v17._Hardmax", Generated.Ctors.v17.f_hardmax, Generated.Schemas.v17.s_Hardmax_13) = true := by decide +kernel

theorem slots_v17_Hardmax : slotOK ("v17._Hardmax", Generated.Ctors.v17.f_hardmax, Generated.Schemas.v17.s_Hardmax_13) = true := by decide +kernel

theorem conforms_v17_Identity : entryOK ("v17._Identity", Generated.Ctors.v17.f_identity, Generated.Schemas.v17.s_Identity_16) = true := by decide +kernel

theorem slots_v17_Identity : slotOK ("v17._Identity", Generated.Ctors.v17.f_identity, Generated.Schemas.v17.s_Identity_16) = true := by decide +kernel

theorem conforms_v17_If : entryOK ("v17._If", Generated.Ctors.v17.f_if_, Generated.Schemas.v17.s_If_16) = true := by decide +kernel

theorem slots_v17_If : slotOK ("v17._If", Generated.Ctors.v17.f_if_, Generated.Schemas.v17.s_If_16) = true := by decide +kernel

theorem conforms_v17_InstanceNormalization : entryOK ("v17._InstanceNormalization", Generated.Ctors.v17.f_instance_normalization, Generated.Schemas.v17.s_InstanceNormalization_6) = true := by decide +kernel

theorem slots_v17_InstanceNormalization : slotOK ("v17._InstanceNormalization", Generated.Ctors.v17.f_instance_normalization, Generated.Schemas.v17.s_InstanceNormalization_6) = true := by decide +kernel

theorem conforms_v17_IsInf : entryOK ("v17._IsInf", Generated.Ctors.v17.f_isinf, Generated.Schemas.v17.s_IsInf_10) = true := by decide +kernel

theorem slots_v17_IsInf : slotOK ("v17._IsInf", Generated.Ctors.v17.f_isinf, Generated.Schemas.v17.s_IsInf_10) = true := by decide +kernel

theorem conforms_v17_IsNaN : entryOK ("v17._IsNaN", Generated.Ctors.v17.f_isnan, Generated.Schemas.v17.s_IsNaN_13) = true := by decide +kernel

theorem slots_v17_IsNaN : slotOK ("v17._IsNaN", Generated.Ctors.v17.f_isnan, Generated.Schemas.v17.s_IsNaN_13) = true := by decide +kernel

theorem conforms_v17_LRN : entryOK ("v17._LRN", Generated.Ctors.v17.f_lrn, Generated.Schemas.v17.s_LRN_13) = true := by decide +kernel

theorem slots_v17_LRN : slotOK ("v17._LRN", Generated.Ctors.v17.f_lrn, Generated.Schemas.v17.s_LRN_13) = true := by decide +kernel

theorem conforms_v17_LSTM : entryOK ("v17._LSTM", Generated.Ctors.v17.f_lstm, Generated.Schemas.v17.s_LSTM_14) = true := by decide +kernel

theorem slots_v17_LSTM : slotOK ("v17._LSTM", Generated.Ctors.v17.f_lstm, Generated.Schemas.v17.s_LSTM_14) = true := by decide +kernel

theorem conforms_v17_LayerNormalization : entryOK ("v17._LayerNormalization", Generated.Ctors.v17.f_layer_normalization, Generated.Schemas.v17.s_LayerNormalization_17) = true := by decide +kernel

theorem slots_v17_LayerNormalization : slotOK ("v17._LayerNormalization", Generated.Ctors.v17.f_layer_normalization, Generated.Schemas.v17.s_LayerNormalization_17) = true := by decide +kernel

theorem conforms_v17_LeakyRelu : entryOK ("v17._LeakyRelu", Generated.Ctors.v17.f_leaky_relu, Generated.Schemas.v17.s_LeakyRelu_16) = true := by decide +kernel

theorem slots_v17_LeakyRelu : slotOK ("v17._LeakyRelu", Generated.Ctors.v17.f_leaky_relu, Generated.Schemas.v17.s_LeakyRelu_16) = true := by decide +kernel

theorem conforms_v17_Less : entryOK ("v17._Less", Generated.Ctors.v17.f_less, Generated.Schemas.v17.s_Less_13) = true := by decide +kernel

theorem slots_v17_Less : slotOK ("v17._Less", Generated.Ctors.v17.f_less, Generated.Schemas.v17.s_Less_13) = true := by decide +kernel

theorem conforms_v17_LessOrEqual : entryOK ("v17._LessOrEqual", Generated.Ctors.v17.f_less_or_equal, Generated.Schemas.v17.s_LessOrEqual_16) = true := by decide +kernel

theorem slots_v17_LessOrEqual : slotOK ("v17._LessOrEqual", Generated.Ctors.v17.f_less_or_equal, Generated.Schemas.v17.s_LessOrEqual_16) = true := by decide +kernel

theorem conforms_v17_Log : entryOK ("v17._Log", Generated.Ctors.v17.f_log, Generated.Schemas.v17.s_Log_13) = true := by decide +kernel

theorem slots_v17_Log : slotOK ("v17._Log", Generated.Ctors.v17.f_log, Generated.Schemas.v17.s_Log_13) = true := by decide +kernel

theorem conforms_v17_LogSoftmax : entryOK ("v17._LogSoftmax", Generated.Ctors.v17.f_log_softmax, Generated.Schemas.v17.s_LogSoftmax_13) = true := by decide +kernel

theorem slots_v17_LogSoftmax : slotOK ("v17._LogSoftmax", Generated.Ctors.v17.f_log_softmax, Generated.Schemas.v17.s_LogSoftmax_13) = true := by decide +kernel

theorem conforms_v17_Loop : entryOK ("v17._Loop", Generated.Ctors.v17.f_loop, Generated.Schemas.v17.s_Loop_16) = true := by decide +kernel

theorem slots_v17_Loop : slotOK ("v17._Loop", Generated.Ctors.v17.f_loop, Generated.Schemas.v17.s_Loop_16) = true := by decide +kernel

theorem conforms_v17_LpNormalization : entryOK ("v17._LpNormalization", Generated.Ctors.v17.f_lp_normalization, Generated.Schemas.v17.s_LpNormalization_1) = true := by decide +kernel

theorem slots_v17_LpNormalization : slotOK ("v17._LpNormalization", Generated.Ctors.v17.f_lp_normalization, Generated.Schemas.v17.s_LpNormalization_1) = true := by decide +kernel

theorem conforms_v17_LpPool : entryOK ("v17._LpPool", Generated.Ctors.v17.f_lp_pool, Generated.Schemas.v17.s_LpPool_11) = true := by decide +kernel

theorem slots_v17_LpPool : slotOK ("v17._LpPool", Generated.Ctors.v17.f_lp_pool, Generated.Schemas.v17.s_LpPool_11) = true := by decide +kernel

theorem conforms_v17_MatMul : entryOK ("v17._MatMul", Generated.Ctors.v17.f_matmul, Generated.Schemas.v17.s_MatMul_13) = true := by decide +kernel

theorem slots_v17_MatMul : slotOK ("v17._MatMul", Generated.Ctors.v17.f_matmul, Generated.Schemas.v17.s_MatMul_13) = true := by decide +kernel

theorem conforms_v17_MatMulInteger : entryOK ("v17._MatMulInteger", Generated.Ctors.v17.f_matmul_integer, Generated.Schemas.v17.s_MatMulInteger_10) = true := by decide +kernel

theorem slots_v17_MatMulInteger : slotOK ("v17._MatMulInteger", Generated.Ctors.v17.f_matmul_integer, Generated.Schemas.v17.s_MatMulInteger_10) = true := by decide +kernel

theorem conforms_v17_Max : entryOK ("v17._Max", Generated.Ctors.v17.f_max, Generated.Schemas.v17.s_Max_13) = true := by decide +kernel

theorem slots_v17_Max : slotOK ("v17._Max", Generated.Ctors.v17.f_max, Generated.Schemas.v17.s_Max_13) = true := by decide +kernel

theorem conforms_v17_MaxPool : entryOK ("v17._MaxPool", Generated.Ctors.v17.f_max_pool, Generated.Schemas.v17.s_MaxPool_12) = true := by decide +kernel

theorem slots_v17_MaxPool : slotOK ("v17._MaxPool", Generated.Ctors.v17.f_max_pool, Generated.Schemas.v17.s_MaxPool_12) = true := by decide +kernel

theorem conforms_v17_MaxRoiPool : entryOK ("v17._MaxRoiPool", Generated.Ctors.v17.f_max_roi_pool, Generated.Schemas.v17.s_MaxRoiPool_1) = true := by decide +kernel

theorem slots_v17_MaxRoiPool : slotOK ("v17._MaxRoiPool", Generated.Ctors.v17.f_max_roi_pool, Generated.Schemas.v17.s_MaxRoiPool_1) = true := by decide +kernel

theorem conforms_v17_MaxUnpool : entryOK ("v17._MaxUnpool", Generated.Ctors.v17.f_max_unpool, Generated.Schemas.v17.s_MaxUnpool_11) = true := by decide +kernel

theorem slots_v17_MaxUnpool : slotOK ("v17._MaxUnpool", Generated.Ctors.v17.f_max_unpool, Generated.Schemas.v17.s_MaxUnpool_11) = true := by decide +kernel

theorem conforms_v17_Mean : entryOK ("v17._Mean", Generated.Ctors.v17.f_mean, Generated.Schemas.v17.s_Mean_13) = true := by decide +kernel

theorem slots_v17_Mean : slotOK ("v17._Mean", Generated.Ctors.v17.f_mean, Generated.Schemas.v17.s_Mean_13) = true := by decide +kernel

theorem conforms_v17_MeanVarianceNormalization : entryOK ("v17._MeanVarianceNormalization", Generated.Ctors.v17.f_mean_variance_normalization, Generated.Schemas.v17.s_MeanVarianceNormalization_13) = true := by decide +kernel

theorem slots_v17_MeanVarianceNormalization : slotOK ("v17._MeanVarianceNormalization", Generated.Ctors.v17.f_mean_variance_normalization, Generated.Schemas.v17.s_MeanVarianceNormalization_13) = true := by decide +kernel

theorem conforms_v17_MelWeightMatrix : entryOK ("v17._MelWeightMatrix", Generated.Ctors.v17.f_mel_weight_matrix, Generated.Schemas.v17.s_MelWeightMatrix_17) = true := by decide +kernel

theorem slots_v17_MelWeightMatrix : slotOK ("v17._MelWeightMatrix", Generated.Ctors.v17.f_mel_weight_matrix, Generated.Schemas.v17.s_MelWeightMatrix_17) = true := by decide +kernel

theorem conforms_v17_Min : entryOK ("v17._Min", Generated.Ctors.v17.f_min, Generated.Schemas.v17.s_Min_13) = true := by decide +kernel

theorem slots_v17_Min : slotOK ("v17._Min", Generated.Ctors.v17.f_min, Generated.Schemas.v17.s_Min_13) = true := by decide +kernel

theorem conforms_v17_Mod : entryOK ("v17._Mod", Generated.Ctors.v17.f_mod, Generated.Schemas.v17.s_Mod_13) = true := by decide +kernel

theorem slots_v17_Mod : slotOK ("v17._Mod", Generated.Ctors.v17.f_mod, Generated.Schemas.v17.s_Mod_13) = true := by decide +kernel

theorem conforms_v17_Mul : entryOK ("v17._Mul", Generated.Ctors.v17.f_mul, Generated.Schemas.v17.s_Mul_14) = true := by decide +kernel

theorem slots_v17_Mul : slotOK ("v17._Mul", Generated.Ctors.v17.f_mul, Generated.Schemas.v17.s_Mul_14) = true := by decide +kernel

theorem conforms_v17_Multinomial : entryOK ("v17._Multinomial", Generated.Ctors.v17.f_multinomial, Generated.Schemas.v17.s_Multinomial_7) = true := by decide +kernel

theorem slots_v17_Multinomial : slotOK ("v17._Multinomial", Generated.Ctors.v17.f_multinomial, Generated.Schemas.v17.s_Multinomial_7) = true := by decide +kernel

theorem conforms_v17_Neg : entryOK ("v17._Neg", Generated.Ctors.v17.f_neg, Generated.Schemas.v17.s_Neg_13) = true := by decide +kernel

theorem slots_v17_Neg : slotOK ("v17._Neg", Generated.Ctors.v17.f_neg, Generated.Schemas.v17.s_Neg_13) = true := by decide +kernel

theorem conforms_v17_NegativeLogLikelihoodLoss : entryOK ("v17._NegativeLogLikelihoodLoss", Generated.Ctors.v17.f_negative_log_likelihood_loss, Generated.Schemas.v17.s_NegativeLogLikelihoodLoss_13) = true := by decide +kernel

theorem slots_v17_NegativeLogLikelihoodLoss : slotOK ("v17._NegativeLogLikelihoodLoss", Generated.Ctors.v17.f_negative_log_likelihood_loss, Generated.Schemas.v17.s_NegativeLogLikelihoodLoss_13) = true := by decide +kernel

theorem conforms_v17_NonMaxSuppression : entryOK ("v17._NonMaxSuppression", Generated.Ctors.v17.f_non_max_suppression, Generated.Schemas.v17.s_NonMaxSuppression_11) = true := by decide +kernel

theorem slots_v17_NonMaxSuppression : slotOK ("v17._NonMaxSuppression", Generated.Ctors.v17.f_non_max_suppression, Generated.Schemas.v17.s_NonMaxSuppression_11) = true := by decide +kernel

theorem conforms_v17_NonZero : entryOK ("v17._NonZero", Generated.Ctors.v17.f_non_zero, Generated.Schemas.v17.s_NonZero_13) = true := by decide +kernel

theorem slots_v17_NonZero : slotOK ("v17._NonZero", Generated.Ctors.v17.f_non_zero, Generated.Schemas.v17.s_NonZero_13) = true := by decide +kernel

theorem conforms_v17_Not : entryOK ("v17._Not", Generated.Ctors.v17.f_not_, Generated.Schemas.v17.s_Not_1) = true := by decide +kernel

theorem slots_v17_Not : slotOK ("v17._Not", Generated.Ctors.v17.f_not_, Generated.Schemas.v17.s_Not_1) = true := by decide +kernel

theorem conforms_v17_OneHot : entryOK ("v17._OneHot", Generated.Ctors.v17.f_one_hot, Generated.Schemas.v17.s_OneHot_11) = true := by decide +kernel

theorem slots_v17_OneHot : slotOK ("v17._OneHot", Generated.Ctors.v17.f_one_hot, Generated.Schemas.v17.s_OneHot_11) = true := by decide +kernel

theorem conforms_v17_Optional : entryOK ("v17._Optional", Generated.Ctors.v17.f_optional, Generated.Schemas.v17.s_Optional_15) = true := by decide +kernel

theorem slots_v17_Optional : slotOK ("v17._Optional", Generated.Ctors.v17.f_optional, Generated.Schemas.v17.s_Optional_15) = true := by decide +kernel

theorem conforms_v17_OptionalGetElement : entryOK ("v17._OptionalGetElement", Generated.Ctors.v17.f_optional_get_element, Generated.Schemas.v17.s_OptionalGetElement_15) = true := by decide +kernel

theorem slots_v17_OptionalGetElement : slotOK ("v17._OptionalGetElement", Generated.Ctors.v17.f_optional_get_element, Generated.Schemas.v17.s_OptionalGetElement_15) = true := by decide +kernel

theorem conforms_v17_OptionalHasElement : entryOK ("v17._OptionalHasElement", Generated.Ctors.v17.f_optional_has_element, Generated.Schemas.v17.s_OptionalHasElement_15) = true := by decide +kernel

theorem slots_v17_OptionalHasElement : slotOK ("v17._OptionalHasElement", Generated.Ctors.v17.f_optional_has_element, Generated.Schemas.v17.s_OptionalHasElement_15) = true := by decide +kernel

theorem conforms_v17_Or : entryOK ("v17._Or", Generated.Ctors.v17.f_or_, Generated.Schemas.v17.s_Or_7) = true := by decide +kernel

theorem slots_v17_Or : slotOK ("v17._Or", Generated.Ctors.v17.f_or_, Generated.Schemas.v17.s_Or_7) = true := by decide +kernel

theorem conforms_v17_PRelu : entryOK ("v17._PRelu", Generated.Ctors.v17.f_prelu, Generated.Schemas.v17.s_PRelu_16) = true := by decide +kernel

theorem slots_v17_PRelu : slotOK ("v17._PRelu", Generated.Ctors.v17.f_prelu, Generated.Schemas.v17.s_PRelu_16) = true := by decide +kernel

theorem conforms_v17_Pad : entryOK ("v17._Pad", Generated.Ctors.v17.f_pad, Generated.Schemas.v17.s_Pad_13) = true := by decide +kernel

theorem slots_v17_Pad : slotOK ("v17._Pad", Generated.Ctors.v17.f_pad, Generated.Schemas.v17.s_Pad_13) = true := by decide +kernel

theorem conforms_v17_Pow : entryOK ("v17._Pow", Generated.Ctors.v17.f_pow, Generated.Schemas.v17.s_Pow_15) = true := by decide +kernel

theorem slots_v17_Pow : slotOK ("v17._Pow", Generated.Ctors.v17.f_pow, Generated.Schemas.v17.s_Pow_15) = true := by decide +kernel

theorem conforms_v17_QLinearConv : entryOK ("v17._QLinearConv", Generated.Ctors.v17.f_qlinear_conv, Generated.Schemas.v17.s_QLinearConv_10) = true := by decide +kernel

theorem slots_v17_QLinearConv : slotOK ("v17._QLinearConv", Generated.Ctors.v17.f_qlinear_conv, Generated.Schemas.v17.s_QLinearConv_10) = true := by decide +kernel

theorem conforms_v17_QLinearMatMul : entryOK ("v17._QLinearMatMul", Generated.Ctors.v17.f_qlinear_matmul, Generated.Schemas.v17.s_QLinearMatMul_10) = true := by decide +kernel

theorem slots_v17_QLinearMatMul : slotOK ("v17._QLinearMatMul", Generated.Ctors.v17.f_qlinear_matmul, Generated.Schemas.v17.s_QLinearMatMul_10) = true := by decide +kernel

theorem conforms_v17_QuantizeLinear : entryOK ("v17._QuantizeLinear", Generated.Ctors.v17.f_quantize_linear, Generated.Schemas.v17.s_QuantizeLinear_13) = true := by decide +kernel

theorem slots_v17_QuantizeLinear : slotOK ("v17._QuantizeLinear", Generated.Ctors.v17.f_quantize_linear, Generated.Schemas.v17.s_QuantizeLinear_13) = true := by decide +kernel

theorem conforms_v17_RNN : entryOK ("v17._RNN", Generated.Ctors.v17.f_rnn, Generated.Schemas.v17.s_RNN_14) = true := by decide +kernel

theorem slots_v17_RNN : slotOK ("v17._RNN", Generated.Ctors.v17.f_rnn, Generated.Schemas.v17.s_RNN_14) = true := by decide +kernel

theorem conforms_v17_RandomNormal : entryOK ("v17._RandomNormal", Generated.Ctors.v17.f_random_normal, Generated.Schemas.v17.s_RandomNormal_1) = true := by decide +kernel

theorem slots_v17_RandomNormal : slotOK ("v17._RandomNormal", Generated.Ctors.v17.f_random_normal, Generated.Schemas.v17.s_RandomNormal_1) = true := by decide +kernel

theorem conforms_v17_RandomNormalLike : entryOK ("v17._RandomNormalLike", Generated.Ctors.v17.f_random_normal_like, Generated.Schemas.v17.s_RandomNormalLike_1) = true := by decide +kernel

theorem slots_v17_RandomNormalLike : slotOK ("v17._RandomNormalLike", Generated.Ctors.v17.f_random_normal_like, Generated.Schemas.v17.s_RandomNormalLike_1) = true := by decide +kernel

theorem conforms_v17_RandomUniform : entryOK ("v17._RandomUniform", Generated.Ctors.v17.f_random_uniform, Generated.Schemas.v17.s_RandomUniform_1) = true := by decide +kernel

theorem slots_v17_RandomUniform : slotOK ("v17._RandomUniform", Generated.Ctors.v17.f_random_uniform, Generated.Schemas.v17.s_RandomUniform_1) = true := by decide +kernel

theorem conforms_v17_RandomUniformLike : entryOK ("v17._RandomUniformLike", Generated.Ctors.v17.f_random_uniform_like, Generated.Schemas.v17.s_RandomUniformLike_1) = true := by decide +kernel

theorem slots_v17_RandomUniformLike : slotOK ("v17._RandomUniformLike", Generated.Ctors.v17.f_random_uniform_like, Generated.Schemas.v17.s_RandomUniformLike_1) = true := by decide +kernel

theorem conforms_v17_Range : entryOK ("v17._Range", Generated.Ctors.v17.f_range, Generated.Schemas.v17.s_Range_11) = true := by decide +kernel

theorem slots_v17_Range : slotOK ("v17._Range", Generated.Ctors.v17.f_range, Generated.Schemas.v17.s_Range_11) = true := by decide +kernel

theorem conforms_v17_Reciprocal : entryOK ("v17._Reciprocal", Generated.Ctors.v17.f_reciprocal, Generated.Schemas.v17.s_Reciprocal_13) = true := by decide +kernel

theorem slots_v17_Reciprocal : slotOK ("v17._Reciprocal", Generated.Ctors.v17.f_reciprocal, Generated.Schemas.v17.s_Reciprocal_13) = true := by decide +kernel

theorem conforms_v17_ReduceL1 : entryOK ("v17._ReduceL1", Generated.Ctors.v17.f_reduce_l1, Generated.Schemas.v17.s_ReduceL1_13) = true := by decide +kernel

theorem slots_v17_ReduceL1 : slotOK ("v17._ReduceL1", Generated.Ctors.v17.f_reduce_l1, Generated.Schemas.v17.s_ReduceL1_13) = true := by decide +kernel

theorem conforms_v17_ReduceL2 : entryOK ("v17._ReduceL2", Generated.Ctors.v17.f_reduce_l2, Generated.Schemas.v17.s_ReduceL2_13) = true := by decide +kernel

theorem slots_v17_ReduceL2 : slotOK ("v17._ReduceL2", Generated.Ctors.v17.f_reduce_l2, Generated.Schemas.v17.s_ReduceL2_13) = true := by decide +kernel

theorem conforms_v17_ReduceLogSum : entryOK ("v17._ReduceLogSum", Generated.Ctors.v17.f_reduce_log_sum, Generated.Schemas.v17.s_ReduceLogSum_13) = true := by decide +kernel

theorem slots_v17_ReduceLogSum : slotOK ("v17._ReduceLogSum", Generated.Ctors.v17.f_reduce_log_sum, Generated.Schemas.v17.s_ReduceLogSum_13) = true := by decide +kernel

theorem conforms_v17_ReduceLogSumExp : entryOK ("v17._ReduceLogSumExp", Generated.Ctors.v17.f_reduce_log_sum_exp, Generated.Schemas.v17.s_ReduceLogSumExp_13) = true := by decide +kernel

theorem slots_v17_ReduceLogSumExp : slotOK ("v17._ReduceLogSumExp", Generated.Ctors.v17.f_reduce_log_sum_exp, Generated.Schemas.v17.s_ReduceLogSumExp_13) = true := by decide +kernel

theorem conforms_v17_ReduceMax : entryOK ("v17._ReduceMax", Generated.Ctors.v17.f_reduce_max, Generated.Schemas.v17.s_ReduceMax_13) = true := by decide +kernel

theorem slots_v17_ReduceMax : slotOK ("v17._ReduceMax", Generated.Ctors.v17.f_reduce_max, Generated.Schemas.v17.s_ReduceMax_13) = true := by decide +kernel

theorem conforms_v17_ReduceMean : entryOK ("v17._ReduceMean", Generated.Ctors.v17.f_reduce_mean, Generated.Schemas.v17.s_ReduceMean_13) = true := by decide +kernel

theorem slots_v17_ReduceMean : slotOK ("v17._ReduceMean", Generated.Ctors.v17.f_reduce_mean, Generated.Schemas.v17.s_ReduceMean_13) = true := by decide +kernel

theorem conforms_v17_ReduceMin : entryOK ("v17._ReduceMin", Generated.Ctors.v17.f_reduce_min, Generated.Schemas.v17.s_ReduceMin_13) = true := by decide +kernel

theorem slots_v17_ReduceMin : slotOK ("v17._ReduceMin", Generated.Ctors.v17.f_reduce_min, Generated.Schemas.v17.s_ReduceMin_13) = true := by decide +kernel

theorem conforms_v17_ReduceProd : entryOK ("v17._ReduceProd", Generated.Ctors.v17.f_reduce_prod, Generated.Schemas.v17.s_ReduceProd_13) = true := by decide +kernel

theorem slots_v17_ReduceProd : slotOK ("v17._ReduceProd", Generated.Ctors.v17.f_reduce_prod, Generated.Schemas.v17.s_ReduceProd_13) = true := by decide +kernel

theorem conforms_v17_ReduceSum : entryOK ("v17._ReduceSum", Generated.Ctors.v17.f_reduce_sum, Generated.Schemas.v17.s_ReduceSum_13) = true := by decide +kernel

theorem slots_v17_ReduceSum : slotOK ("v17._ReduceSum", Generated.Ctors.v17.f_reduce_sum, Generated.Schemas.v17.s_ReduceSum_13) = true := by decide +kernel

theorem conforms_v17_ReduceSumSquare : entryOK ("v17._ReduceSumSquare", Generated.Ctors.v17.f_reduce_sum_square, Generated.Schemas.v17.s_ReduceSumSquare_13) = true := by decide +kernel

theorem slots_v17_ReduceSumSquare : slotOK ("v17._ReduceSumSquare", Generated.Ctors.v17.f_reduce_sum_square, Generated.Schemas.v17.s_ReduceSumSquare_13) = true := by decide +kernel

theorem conforms_v17_Relu : entryOK ("v17._Relu", Generated.Ctors.v17.f_relu, Generated.Schemas.v17.s_Relu_14) = true := by decide +kernel

theorem slots_v17_Relu : slotOK ("v17._Relu", Generated.Ctors.v17.f_relu, Generated.Schemas.v17.s_Relu_14) = true := by decide +kernel

theorem conforms_v17_Reshape : entryOK ("v17._Reshape", Generated.Ctors.v17.f_reshape, Generated.Schemas.v17.s_Reshape_14) = true := by decide +kernel

theorem slots_v17_Reshape : slotOK ("v17._Reshape", Generated.Ctors.v17.f_reshape, Generated.Schemas.v17.s_Reshape_14) = true := by decide +kernel

theorem conforms_v17_Resize : entryOK ("v17._Resize", Generated.Ctors.v17.f_resize, Generated.Schemas.v17.s_Resize_13) = true := by decide +kernel

theorem slots_v17_Resize : slotOK ("v17._Resize", Generated.Ctors.v17.f_resize, Generated.Schemas.v17.s_Resize_13) = true := by decide +kernel

theorem conforms_v17_ReverseSequence : entryOK ("v17._ReverseSequence", Generated.Ctors.v17.f_reverse_sequence, Generated.Schemas.v17.s_ReverseSequence_10) = true := by decide +kernel

theorem slots_v17_ReverseSequence : slotOK ("v17._ReverseSequence", Generated.Ctors.v17.f_reverse_sequence, Generated.Schemas.v17.s_ReverseSequence_10) = true := by decide +kernel

theorem conforms_v17_RoiAlign : entryOK ("v17._RoiAlign", Generated.Ctors.v17.f_roi_align, Generated.Schemas.v17.s_RoiAlign_16) = true := by decide +kernel

theorem slots_v17_RoiAlign : slotOK ("v17._RoiAlign", Generated.Ctors.v17.f_roi_align, Generated.Schemas.v17.s_RoiAlign_16) = true := by decide +kernel

theorem conforms_v17_Round : entryOK ("v17._Round", Generated.Ctors.v17.f_round, Generated.Schemas.v17.s_Round_11) = true := by decide +kernel

theorem slots_v17_Round : slotOK ("v17._Round", Generated.Ctors.v17.f_round, Generated.Schemas.v17.s_Round_11) = true := by decide +kernel

theorem conforms_v17_STFT : entryOK ("v17._STFT", Generated.Ctors.v17.f_stft, Generated.Schemas.v17.s_STFT_17) = true := by decide +kernel

theorem slots_v17_STFT : slotOK ("v17._STFT", Generated.Ctors.v17.f_stft, Generated.Schemas.v17.s_STFT_17) = true := by decide +kernel

theorem conforms_v17_Scan : entryOK ("v17._Scan", Generated.Ctors.v17.f_scan, Generated.Schemas.v17.s_Scan_16) = true := by decide +kernel

theorem slots_v17_Scan : slotOK ("v17._Scan", Generated.Ctors.v17.f_scan, Generated.Schemas.v17.s_Scan_16) = true := by decide +kernel

theorem conforms_v17_ScatterElements : entryOK ("v17._ScatterElements", Generated.Ctors.v17.f_scatter_elements, Generated.Schemas.v17.s_ScatterElements_16) = true := by decide +kernel

theorem slots_v17_ScatterElements : slotOK ("v17._ScatterElements", Generated.Ctors.v17.f_scatter_elements, Generated.Schemas.v17.s_ScatterElements_16) = true := by decide +kernel

theorem conforms_v17_ScatterND : entryOK ("v17._ScatterND", Generated.Ctors.v17.f_scatter_nd, Generated.Schemas.v17.s_ScatterND_16) = true := by decide +kernel

theorem slots_v17_ScatterND : slotOK ("v17._ScatterND", Generated.Ctors.v17.f_scatter_nd, Generated.Schemas.v17.s_ScatterND_16) = true := by decide +kernel

theorem conforms_v17_Selu : entryOK ("v17._Selu", Generated.Ctors.v17.f_selu, Generated.Schemas.v17.s_Selu_6) = true := by decide +kernel

theorem slots_v17_Selu : slotOK ("v17._Selu", Generated.Ctors.v17.f_selu, Generated.Schemas.v17.s_Selu_6) = true := by decide +kernel

theorem conforms_v17_SequenceAt : entryOK ("v17._SequenceAt", Generated.Ctors.v17.f_sequence_at, Generated.Schemas.v17.s_SequenceAt_11) = true := by decide +kernel

theorem slots_v17_SequenceAt : slotOK ("v17._SequenceAt", Generated.Ctors.v17.f_sequence_at, Generated.Schemas.v17.s_SequenceAt_11) = true := by decide +kernel

theorem conforms_v17_SequenceConstruct : entryOK ("v17._SequenceConstruct", Generated.Ctors.v17.f_sequence_construct, Generated.Schemas.v17.s_SequenceConstruct_11) = true := by decide +kernel

theorem slots_v17_SequenceConstruct : slotOK ("v17._SequenceConstruct", Generated.Ctors.v17.f_sequence_construct, Generated.Schemas.v17.s_SequenceConstruct_11) = true := by decide +kernel

theorem conforms_v17_SequenceEmpty : entryOK ("v17._SequenceEmpty", Generated.Ctors.v17.f_sequence_empty, Generated.Schemas.v17.s_SequenceEmpty_11) = true := by decide +kernel

theorem slots_v17_SequenceEmpty : slotOK ("v17._SequenceEmpty", Generated.Ctors.v17.f_sequence_empty, Generated.Schemas.v17.s_SequenceEmpty_11) = true := by decide +kernel

theorem conforms_v17_SequenceErase : entryOK ("v17._SequenceErase", Generated.Ctors.v17.f_sequence_erase, Generated.Schemas.v17.s_SequenceErase_11) = true := by decide +kernel

theorem slots_v17_SequenceErase : slotOK ("v17._SequenceErase", Generated.Ctors.v17.f_sequence_erase, Generated.Schemas.v17.s_SequenceErase_11) = true := by decide +kernel

theorem conforms_v17_SequenceInsert : entryOK ("v17._SequenceInsert", Generated.Ctors.v17.f_sequence_insert, Generated.Schemas.v17.s_SequenceInsert_11) = true := by decide +kernel

theorem slots_v17_SequenceInsert : slotOK ("v17._SequenceInsert", Generated.Ctors.v17.f_sequence_insert, Generated.Schemas.v17.s_SequenceInsert_11) = true := by decide +kernel

theorem conforms_v17_SequenceLength : entryOK ("v17._SequenceLength", Generated.Ctors.v17.f_sequence_length, Generated.Schemas.v17.s_SequenceLength_11) = true := by decide +kernel

theorem slots_v17_SequenceLength : slotOK ("v17._SequenceLength", Generated.Ctors.v17.f_sequence_length, Generated.Schemas.v17.s_SequenceLength_11) = true := by decide +kernel

theorem conforms_v17_SequenceMap : entryOK ("v17._SequenceMap", Generated.Ctors.v17.f_sequence_map, Generated.Schemas.v17.s_SequenceMap_17) = true := by decide +kernel

theorem slots_v17_SequenceMap : slotOK ("v17._SequenceMap", Generated.Ctors.v17.f_sequence_map, Generated.Schemas.v17.s_SequenceMap_17) = true := by decide +kernel

theorem conforms_v17_Shape : entryOK ("v17._Shape", Generated.Ctors.v17.f_shape, Generated.Schemas.v17.s_Shape_15) = true := by decide +kernel

theorem slots_v17_Shape : slotOK ("v17._Shape", Generated.Ctors.v17.f_shape, Generated.Schemas.v17.s_Shape_15) = true := by decide +kernel

theorem conforms_v17_Shrink : entryOK ("v17._Shrink", Generated.Ctors.v17.f_shrink, Generated.Schemas.v17.s_Shrink_9) = true := by decide +kernel

theorem slots_v17_Shrink : slotOK ("v17._Shrink", Generated.Ctors.v17.f_shrink, Generated.Schemas.v17.s_Shrink_9) = true := by decide +kernel

theorem conforms_v17_Sigmoid : entryOK ("v17._Sigmoid", Generated.Ctors.v17.f_sigmoid, Generated.Schemas.v17.s_Sigmoid_13) = true := by decide +kernel

theorem slots_v17_Sigmoid : slotOK ("v17._Sigmoid", Generated.Ctors.v17.f_sigmoid, Generated.Schemas.v17.s_Sigmoid_13) = true := by decide +kernel

theorem conforms_v17_Sign : entryOK ("v17._Sign", Generated.Ctors.v17.f_sign, Generated.Schemas.v17.s_Sign_13) = true := by decide +kernel

theorem slots_v17_Sign : slotOK ("v17._Sign", Generated.Ctors.v17.f_sign, Generated.Schemas.v17.s_Sign_13) = true := by decide +kernel

theorem conforms_v17_Sin : entryOK ("v17._Sin", Generated.Ctors.v17.f_sin, Generated.Schemas.v17.s_Sin_7) = true := by decide +kernel

theorem slots_v17_Sin : slotOK ("v17._Sin", Generated.Ctors.v17.f_sin, Generated.Schemas.v17.s_Sin_7) = true := by decide +kernel

theorem conforms_v17_Sinh : entryOK ("v17._Sinh", Generated.Ctors.v17.f_sinh, Generated.Schemas.v17.s_Sinh_9) = true := by decide +kernel

theorem slots_v17_Sinh : slotOK ("v17._Sinh", Generated.Ctors.v17.f_sinh, Generated.Schemas.v17.s_Sinh_9) = true := by decide +kernel

theorem conforms_v17_Size : entryOK ("v17._Size", Generated.Ctors.v17.f_size, Generated.Schemas.v17.s_Size_13) = true := by decide +kernel

theorem slots_v17_Size : slotOK ("v17._Size", Generated.Ctors.v17.f_size, Generated.Schemas.v17.s_Size_13) = true := by decide +kernel

theorem conforms_v17_Slice : entryOK ("v17._Slice", Generated.Ctors.v17.f_slice, Generated.Schemas.v17.s_Slice_13) = true := by decide +kernel

theorem slots_v17_Slice : slotOK ("v17._Slice", Generated.Ctors.v17.f_slice, Generated.Schemas.v17.s_Slice_13) = true := by decide +kernel

theorem conforms_v17_Softmax : entryOK ("v17._Softmax", Generated.Ctors.v17.f_softmax, Generated.Schemas.v17.s_Softmax_13) = true := by decide +kernel

theorem slots_v17_Softmax : slotOK ("v17._Softmax", Generated.Ctors.v17.f_softmax, Generated.Schemas.v17.s_Softmax_13) = true := by decide +kernel

theorem conforms_v17_SoftmaxCrossEntropyLoss : entryOK ("v17._SoftmaxCrossEntropyLoss", Generated.Ctors.v17.f_softmax_cross_entropy_loss, Generated.Schemas.v17.s_SoftmaxCrossEntropyLoss_13) = true := by decide +kernel

theorem slots_v17_SoftmaxCrossEntropyLoss : slotOK ("v17._SoftmaxCrossEntropyLoss", Generated.Ctors.v17.f_softmax_cross_entropy_loss, Generated.Schemas.v17.s_SoftmaxCrossEntropyLoss_13) = true := by decide +kernel

theorem conforms_v17_Softplus : entryOK ("v17._Softplus", Generated.Ctors.v17.f_softplus, Generated.Schemas.v17.s_Softplus_1) = true := by decide +kernel

theorem slots_v17_Softplus : slotOK ("v17._Softplus", Generated.Ctors.v17.f_softplus, Generated.Schemas.v17.s_Softplus_1) = true := by decide +kernel

theorem conforms_v17_Softsign : entryOK ("v17._Softsign", Generated.Ctors.v17.f_softsign, Generated.Schemas.v17.s_Softsign_1) = true := by decide +kernel

theorem slots_v17_Softsign : slotOK ("v17._Softsign", Generated.Ctors.v17.f_softsign, Generated.Schemas.v17.s_Softsign_1) = true := by decide +kernel

theorem conforms_v17_SpaceToDepth : entryOK ("v17._SpaceToDepth", Generated.Ctors.v17.f_space_to_depth, Generated.Schemas.v17.s_SpaceToDepth_13) = true := by decide +kernel

theorem slots_v17_SpaceToDepth : slotOK ("v17._SpaceToDepth", Generated.Ctors.v17.f_space_to_depth, Generated.Schemas.v17.s_SpaceToDepth_13) = true := by decide +kernel

theorem conforms_v17_Split : entryOK ("v17._Split", Generated.Ctors.v17.f_split, Generated.Schemas.v17.s_Split_13) = true := by decide +kernel

theorem slots_v17_Split : slotOK ("v17._Split", Generated.Ctors.v17.f_split, Generated.Schemas.v17.s_Split_13) = true := by decide +kernel

theorem conforms_v17_SplitToSequence : entryOK ("v17._SplitToSequence", Generated.Ctors.v17.f_split_to_sequence, Generated.Schemas.v17.s_SplitToSequence_11) = true := by decide +kernel

theorem slots_v17_SplitToSequence : slotOK ("v17._SplitToSequence", Generated.Ctors.v17.f_split_to_sequence, Generated.Schemas.v17.s_SplitToSequence_11) = true := by decide +kernel

theorem conforms_v17_Sqrt : entryOK ("v17._Sqrt", Generated.Ctors.v17.f_sqrt, Generated.Schemas.v17.s_Sqrt_13) = true := by decide +kernel

theorem slots_v17_Sqrt : slotOK ("v17._Sqrt", Generated.Ctors.v17.f_sqrt, Generated.Schemas.v17.s_Sqrt_13) = true := by decide +kernel

theorem conforms_v17_Squeeze : entryOK ("v17._Squeeze", Generated.Ctors.v17.f_squeeze, Generated.Schemas.v17.s_Squeeze_13) = true := by decide +kernel

theorem slots_v17_Squeeze : slotOK ("v17._Squeeze", Generated.Ctors.v17.f_squeeze, Generated.Schemas.v17.s_Squeeze_13) = true := by decide +kernel

theorem conforms_v17_StringNormalizer : entryOK ("v17._StringNormalizer", Generated.Ctors.v17.f_string_normalizer, Generated.Schemas.v17.s_StringNormalizer_10) = true := by decide +kernel

theorem slots_v17_StringNormalizer : slotOK ("v17._StringNormalizer", Generated.Ctors.v17.f_string_normalizer, Generated.Schemas.v17.s_StringNormalizer_10) = true := by decide +kernel

theorem conforms_v17_Sub : entryOK ("v17._Sub", Generated.Ctors.v17.f_sub, Generated.Schemas.v17.s_Sub_14) = true := by decide +kernel

theorem slots_v17_Sub : slotOK ("v17._Sub", Generated.Ctors.v17.f_sub, Generated.Schemas.v17.s_Sub_14) = true := by decide +kernel

theorem conforms_v17_Sum : entryOK ("v17._Sum", Generated.Ctors.v17.f_sum, Generated.Schemas.v17.s_Sum_13) = true := by decide +kernel

theorem slots_v17_Sum : slotOK ("v17._Sum", Generated.Ctors.v17.f_sum, Generated.Schemas.v17.s_Sum_13) = true := by decide +kernel

theorem conforms_v17_Tan : entryOK ("v17._Tan", Generated.Ctors.v17.f_tan, Generated.Schemas.v17.s_Tan_7) = true := by decide +kernel

theorem slots_v17_Tan : slotOK ("v17._Tan", Generated.Ctors.v17.f_tan, Generated.Schemas.v17.s_Tan_7) = true := by decide +kernel

theorem conforms_v17_Tanh : entryOK ("v17._Tanh", Generated.Ctors.v17.f_tanh, Generated.Schemas.v17.s_Tanh_13) = true := by decide +kernel

theorem slots_v17_Tanh : slotOK ("v17._Tanh", Generated.Ctors.v17.f_tanh, Generated.Schemas.v17.s_Tanh_13) = true := by decide +kernel

theorem conforms_v17_TfIdfVectorizer : entryOK ("v17._TfIdfVectorizer", Generated.Ctors.v17.f_tf_idf_vectorizer, Generated.Schemas.v17.s_TfIdfVectorizer_9) = true := by decide +kernel

theorem slots_v17_TfIdfVectorizer : slotOK ("v17._TfIdfVectorizer", Generated.Ctors.v17.f_tf_idf_vectorizer, Generated.Schemas.v17.s_TfIdfVectorizer_9) = true := by decide +kernel

theorem conforms_v17_ThresholdedRelu : entryOK ("v17._ThresholdedRelu", Generated.Ctors.v17.f_thresholded_relu, Generated.Schemas.v17.s_ThresholdedRelu_10) = true := by decide +kernel

theorem slots_v17_ThresholdedRelu : slotOK ("v17._ThresholdedRelu", Generated.Ctors.v17.f_thresholded_relu, Generated.Schemas.v17.s_ThresholdedRelu_10) = true := by decide +kernel

theorem conforms_v17_Tile : entryOK ("v17._Tile", Generated.Ctors.v17.f_tile, Generated.Schemas.v17.s_Tile_13) = true := by decide +kernel

theorem slots_v17_Tile : slotOK ("v17._Tile", Generated.Ctors.v17.f_tile, Generated.Schemas.v17.s_Tile_13) = true := by decide +kernel

theorem conforms_v17_TopK : entryOK ("v17._TopK", Generated.Ctors.v17.f_top_k, Generated.Schemas.v17.s_TopK_11) = true := by decide +kernel

theorem slots_v17_TopK : slotOK ("v17._TopK", Generated.Ctors.v17.f_top_k, Generated.Schemas.v17.s_TopK_11) = true := by decide +kernel

theorem conforms_v17_Transpose : entryOK ("v17._Transpose", Generated.Ctors.v17.f_transpose, Generated.Schemas.v17.s_Transpose_13) = true := by decide +kernel

theorem slots_v17_Transpose : slotOK ("v17._Transpose", Generated.Ctors.v17.f_transpose, Generated.Schemas.v17.s_Transpose_13) = true := by decide +kernel

theorem conforms_v17_Trilu : entryOK ("v17._Trilu", Generated.Ctors.v17.f_trilu, Generated.Schemas.v17.s_Trilu_14) = true := by decide +kernel

theorem slots_v17_Trilu : slotOK ("v17._Trilu", Generated.Ctors.v17.f_trilu, Generated.Schemas.v17.s_Trilu_14) = true := by decide +kernel

theorem conforms_v17_Unique : entryOK ("v17._Unique", Generated.Ctors.v17.f_unique, Generated.Schemas.v17.s_Unique_11) = true := by decide +kernel

theorem slots_v17_Unique : slotOK ("v17._Unique", Generated.Ctors.v17.f_unique, Generated.Schemas.v17.s_Unique_11) = true := by decide +kernel

theorem conforms_v17_Unsqueeze : entryOK ("v17._Unsqueeze", Generated.Ctors.v17.f_unsqueeze, Generated.Schemas.v17.s_Unsqueeze_13) = true := by decide +kernel

theorem slots_v17_Unsqueeze : slotOK ("v17._Unsqueeze", Generated.Ctors.v17.f_unsqueeze, Generated.Schemas.v17.s_Unsqueeze_13) = true := by decide +kernel

theorem conforms_v17_Where : entryOK ("v17._Where", Generated.Ctors.v17.f_where, Generated.Schemas.v17.s_Where_16) = true := by decide +kernel

theorem slots_v17_Where : slotOK ("v17._Where", Generated.Ctors.v17.f_where, Generated.Schemas.v17.s_Where_16) = true := by decide +kernel

theorem conforms_v17_Xor : entryOK ("v17._Xor", Generated.Ctors.v17.f_xor, Generated.Schemas.v17.s_Xor_7) = true := by decide +kernel

theorem slots_v17_Xor : slotOK ("v17._Xor", Generated.Ctors.v17.f_xor, Generated.Schemas.v17.s_Xor_7) = true := by decide +kernel

/-- every operator/module pair of this module without a listed deviation -/
def table : List Entry :=
  [
   ("v17._Abs", Generated.Ctors.v17.f_abs, Generated.Schemas.v17.s_Abs_13), 
   ("v17._Acos", Generated.Ctors.v17.f_acos, Generated.Schemas.v17.s_Acos_7), 
   ("v17._Acosh", Generated.Ctors.v17.f_acosh, Generated.Schemas.v17.s_Acosh_9), 
   ("v17._Add", Generated.Ctors.v17.f_add, Generated.Schemas.v17.s_Add_14), 
   ("v17._And", Generated.Ctors.v17.f_and_, Generated.Schemas.v17.s_And_7), 
   ("v17._ArgMax", Generated.Ctors.v17.f_arg_max, Generated.Schemas.v17.s_ArgMax_13), 
   ("v17._ArgMin", Generated.Ctors.v17.f_arg_min, Generated.Schemas.v17.s_ArgMin_13), 
   ("v17._Asin", Generated.Ctors.v17.f_asin, Generated.Schemas.v17.s_Asin_7), 
   ("v17._Asinh", Generated.Ctors.v17.f_asinh, Generated.Schemas.v17.s_Asinh_9), 
   ("v17._Atan", Generated.Ctors.v17.f_atan, Generated.Schemas.v17.s_Atan_7), 
   ("v17._Atanh", Generated.Ctors.v17.f_atanh, Generated.Schemas.v17.s_Atanh_9), 
   ("v17._AveragePool", Generated.Ctors.v17.f_average_pool, Generated.Schemas.v17.s_AveragePool_11), 
   ("v17._BatchNormalization", Generated.Ctors.v17.f_batch_normalization, Generated.Schemas.v17.s_BatchNormalization_15), 
   ("v17._Bernoulli", Generated.Ctors.v17.f_bernoulli, Generated.Schemas.v17.s_Bernoulli_15), 
   ("v17._BitShift", Generated.Ctors.v17.f_bit_shift, Generated.Schemas.v17.s_BitShift_11), 
   ("v17._BlackmanWindow", Generated.Ctors.v17.f_blackman_window, Generated.Schemas.v17.s_BlackmanWindow_17), 
   ("v17._Cast", Generated.Ctors.v17.f_cast, Generated.Schemas.v17.s_Cast_13), 
   ("v17._CastLike", Generated.Ctors.v17.f_cast_like, Generated.Schemas.v17.s_CastLike_15), 
   ("v17._Ceil", Generated.Ctors.v17.f_ceil, Generated.Schemas.v17.s_Ceil_13), 
   ("v17._Celu", Generated.Ctors.v17.f_celu, Generated.Schemas.v17.s_Celu_12), 
   ("v17._Clip", Generated.Ctors.v17.f_clip, Generated.Schemas.v17.s_Clip_13), 
   ("v17._Compress", Generated.Ctors.v17.f_compress, Generated.Schemas.v17.s_Compress_11), 
   ("v17._Concat", Generated.Ctors.v17.f_concat, Generated.Schemas.v17.s_Concat_13), 
   ("v17._ConcatFromSequence", Generated.Ctors.v17.f_concat_from_sequence, Generated.Schemas.v17.s_ConcatFromSequence_11), 
   ("v17._ConstantOfShape", Generated.Ctors.v17.f_constant_of_shape, Generated.Schemas.v17.s_ConstantOfShape_9), 
   ("v17._Conv", Generated.Ctors.v17.f_conv, Generated.Schemas.v17.s_Conv_11), 
   ("v17._ConvInteger", Generated.Ctors.v17.f_conv_integer, Generated.Schemas.v17.s_ConvInteger_10), 
   ("v17._ConvTranspose", Generated.Ctors.v17.f_conv_transpose, Generated.Schemas.v17.s_ConvTranspose_11), 
   ("v17._Cos", Generated.Ctors.v17.f_cos, Generated.Schemas.v17.s_Cos_7), 
   ("v17._Cosh", Generated.Ctors.v17.f_cosh, Generated.Schemas.v17.s_Cosh_9), 
   ("v17._CumSum", Generated.Ctors.v17.f_cumsum, Generated.Schemas.v17.s_CumSum_14), 
   ("v17._DFT", Generated.Ctors.v17.f_dft, Generated.Schemas.v17.s_DFT_17), 
   ("v17._DepthToSpace", Generated.Ctors.v17.f_depth_to_space, Generated.Schemas.v17.s_DepthToSpace_13), 
   ("v17._DequantizeLinear", Generated.Ctors.v17.f_dequantize_linear, Generated.Schemas.v17.s_DequantizeLinear_13), 
   ("v17._Det", Generated.Ctors.v17.f_det, Generated.Schemas.v17.s_Det_11), 
   ("v17._Div", Generated.Ctors.v17.f_div, Generated.Schemas.v17.s_Div_14), 
   ("v17._Dropout", Generated.Ctors.v17.f_dropout, Generated.Schemas.v17.s_Dropout_13), 
   ("v17._DynamicQuantizeLinear", Generated.Ctors.v17.f_dynamic_quantize_linear, Generated.Schemas.v17.s_DynamicQuantizeLinear_11), 
   ("v17._Einsum", Generated.Ctors.v17.f_einsum, Generated.Schemas.v17.s_Einsum_12), 
   ("v17._Elu", Generated.Ctors.v17.f_elu, Generated.Schemas.v17.s_Elu_6), 
   ("v17._Equal", Generated.Ctors.v17.f_equal, Generated.Schemas.v17.s_Equal_13), 
   ("v17._Erf", Generated.Ctors.v17.f_erf, Generated.Schemas.v17.s_Erf_13), 
   ("v17._Exp", Generated.Ctors.v17.f_exp, Generated.Schemas.v17.s_Exp_13), 
   ("v17._Expand", Generated.Ctors.v17.f_expand, Generated.Schemas.v17.s_Expand_13), 
   ("v17._EyeLike", Generated.Ctors.v17.f_eye_like, Generated.Schemas.v17.s_EyeLike_9), 
   ("v17._Flatten", Generated.Ctors.v17.f_flatten, Generated.Schemas.v17.s_Flatten_13), 
   ("v17._Floor", Generated.Ctors.v17.f_floor, Generated.Schemas.v17.s_Floor_13), 
   ("v17._GRU", Generated.Ctors.v17.f_gru, Generated.Schemas.v17.s_GRU_14), 
   ("v17._Gather", Generated.Ctors.v17.f_gather, Generated.Schemas.v17.s_Gather_13), 
   ("v17._GatherElements", Generated.Ctors.v17.f_gather_elements, Generated.Schemas.v17.s_GatherElements_13), 
   ("v17._GatherND", Generated.Ctors.v17.f_gather_nd, Generated.Schemas.v17.s_GatherND_13), 
   ("v17._Gemm", Generated.Ctors.v17.f_gemm, Generated.Schemas.v17.s_Gemm_13), 
   ("v17._GlobalAveragePool", Generated.Ctors.v17.f_global_average_pool, Generated.Schemas.v17.s_GlobalAveragePool_1), 
   ("v17._GlobalLpPool", Generated.Ctors.v17.f_global_lp_pool, Generated.Schemas.v17.s_GlobalLpPool_2), 
   ("v17._GlobalMaxPool", Generated.Ctors.v17.f_global_max_pool, Generated.Schemas.v17.s_GlobalMaxPool_1), 
   ("v17._Greater", Generated.Ctors.v17.f_greater, Generated.Schemas.v17.s_Greater_13), 
   ("v17._GreaterOrEqual", Generated.Ctors.v17.f_greater_or_equal, Generated.Schemas.v17.s_GreaterOrEqual_16), 
   ("v17._GridSample", Generated.Ctors.v17.f_grid_sample, Generated.Schemas.v17.s_GridSample_16), 
   ("v17._HammingWindow", Generated.Ctors.v17.f_hamming_window, Generated.Schemas.v17.s_HammingWindow_17), 
   ("v17._HannWindow", Generated.Ctors.v17.f_hann_window, Generated.Schemas.v17.s_HannWindow_17), 
   ("v17._HardSigmoid", Generated.Ctors.v17.f_hard_sigmoid, Generated.Schemas.v17.s_HardSigmoid_6), 
   ("v17._HardSwish", Generated.Ctors.v17.f_hard_swish, Generated.Schemas.v17.s_HardSwish_14), 
   ("v17._Hardmax", Generated.Ctors.v17.f_hardmax, Generated.Schemas.v17.s_Hardmax_13), 
   ("v17._Identity", Generated.Ctors.v17.f_identity, Generated.Schemas.v17.s_Identity_16), 
   ("v17._If", Generated.Ctors.v17.f_if_, Generated.Schemas.v17.s_If_16), 
   ("v17._InstanceNormalization", Generated.Ctors.v17.f_instance_normalization, Generated.Schemas.v17.s_InstanceNormalization_6), 
   ("v17._IsInf", Generated.Ctors.v17.f_isinf, Generated.Schemas.v17.s_IsInf_10), 
   ("v17._IsNaN", Generated.Ctors.v17.f_isnan, Generated.Schemas.v17.s_IsNaN_13), 
   ("v17._LRN", Generated.Ctors.v17.f_lrn, Generated.Schemas.v17.s_LRN_13), 
   ("v17._LSTM", Generated.Ctors.v17.f_lstm, Generated.Schemas.v17.s_LSTM_14), 
   ("v17._LayerNormalization", Generated.Ctors.v17.f_layer_normalization, Generated.Schemas.v17.s_LayerNormalization_17), 
   ("v17._LeakyRelu", Generated.Ctors.v17.f_leaky_relu, Generated.Schemas.v17.s_LeakyRelu_16), 
   ("v17._Less", Generated.Ctors.v17.f_less, Generated.Schemas.v17.s_Less_13), 
   ("v17._LessOrEqual", Generated.Ctors.v17.f_less_or_equal, Generated.Schemas.v17.s_LessOrEqual_16), 
   ("v17._Log", Generated.Ctors.v17.f_log, Generated.Schemas.v17.s_Log_13), 
   ("v17._LogSoftmax", Generated.Ctors.v17.f_log_softmax, Generated.Schemas.v17.s_LogSoftmax_13), 
   ("v17._Loop", Generated.Ctors.v17.f_loop, Generated.Schemas.v17.s_Loop_16), 
   ("v17._LpNormalization", Generated.Ctors.v17.f_lp_normalization, Generated.Schemas.v17.s_LpNormalization_1), 
   ("v17._LpPool", Generated.Ctors.v17.f_lp_pool, Generated.Schemas.v17.s_LpPool_11), 
   ("v17._MatMul", Generated.Ctors.v17.f_matmul, Generated.Schemas.v17.s_MatMul_13), 
   ("v17._MatMulInteger", Generated.Ctors.v17.f_matmul_integer, Generated.Schemas.v17.s_MatMulInteger_10), 
   ("v17._Max", Generated.Ctors.v17.f_max, Generated.Schemas.v17.s_Max_13), 
   ("v17._MaxPool", Generated.Ctors.v17.f_max_pool, Generated.Schemas.v17.s_MaxPool_12), 
   ("v17._MaxRoiPool", Generated.Ctors.v17.f_max_roi_pool, Generated.Schemas.v17.s_MaxRoiPool_1), 
   ("v17._MaxUnpool", Generated.Ctors.v17.f_max_unpool, Generated.Schemas.v17.s_MaxUnpool_11), 
   ("v17._Mean", Generated.Ctors.v17.f_mean, Generated.Schemas.v17.s_Mean_13), 
   ("v17._MeanVarianceNormalization", Generated.Ctors.v17.f_mean_variance_normalization, Generated.Schemas.v17.s_MeanVarianceNormalization_13), 
   ("v17._MelWeightMatrix", Generated.Ctors.v17.f_mel_weight_matrix, Generated.Schemas.v17.s_MelWeightMatrix_17), 
   ("v17._Min", Generated.Ctors.v17.f_min, Generated.Schemas.v17.s_Min_13), 
   ("v17._Mod", Generated.Ctors.v17.f_mod, Generated.Schemas.v17.s_Mod_13), 
   ("v17._Mul", Generated.Ctors.v17.f_mul, Generated.Schemas.v17.s_Mul_14), 
   ("v17._Multinomial", Generated.Ctors.v17.f_multinomial, Generated.Schemas.v17.s_Multinomial_7), 
   ("v17._Neg", Generated.Ctors.v17.f_neg, Generated.Schemas.v17.s_Neg_13), 
   ("v17._NegativeLogLikelihoodLoss", Generated.Ctors.v17.f_negative_log_likelihood_loss, Generated.Schemas.v17.s_NegativeLogLikelihoodLoss_13), 
   ("v17._NonMaxSuppression", Generated.Ctors.v17.f_non_max_suppression, Generated.Schemas.v17.s_NonMaxSuppression_11), 
   ("v17._NonZero", Generated.Ctors.v17.f_non_zero, Generated.Schemas.v17.s_NonZero_13), 
   ("v17._Not", Generated.Ctors.v17.f_not_, Generated.Schemas.v17.s_Not_1), 
   ("v17._OneHot", Generated.Ctors.v17.f_one_hot, Generated.Schemas.v17.s_OneHot_11), 
   ("v17._Optional", Generated.Ctors.v17.f_optional, Generated.Schemas.v17.s_Optional_15), 
   ("v17._OptionalGetElement", Generated.Ctors.v17.f_optional_get_element, Generated.Schemas.v17.s_OptionalGetElement_15), 
   ("v17._OptionalHasElement", Generated.Ctors.v17.f_optional_has_element, Generated.Schemas.v17.s_OptionalHasElement_15), 
   ("v17._Or", Generated.Ctors.v17.f_or_, Generated.Schemas.v17.s_Or_7), 
   ("v17._PRelu", Generated.Ctors.v17.f_prelu, Generated.Schemas.v17.s_PRelu_16), 
   ("v17._Pad", Generated.Ctors.v17.f_pad, Generated.Schemas.v17.s_Pad_13), 
   ("v17._Pow", Generated.Ctors.v17.f_pow, Generated.Schemas.v17.s_Pow_15), 
   ("v17._QLinearConv", Generated.Ctors.v17.f_qlinear_conv, Generated.Schemas.v17.s_QLinearConv_10), 
   ("v17._QLinearMatMul", Generated.Ctors.v17.f_qlinear_matmul, Generated.Schemas.v17.s_QLinearMatMul_10), 
   ("v17._QuantizeLinear", Generated.Ctors.v17.f_quantize_linear, Generated.Schemas.v17.s_QuantizeLinear_13), 
   ("v17._RNN", Generated.Ctors.v17.f_rnn, Generated.Schemas.v17.s_RNN_14), 
   ("v17._RandomNormal", Generated.Ctors.v17.f_random_normal, Generated.Schemas.v17.s_RandomNormal_1), 
   ("v17._RandomNormalLike", Generated.Ctors.v17.f_random_normal_like, Generated.Schemas.v17.s_RandomNormalLike_1), 
   ("v17._RandomUniform", Generated.Ctors.v17.f_random_uniform, Generated.Schemas.v17.s_RandomUniform_1), 
   ("v17._RandomUniformLike", Generated.Ctors.v17.f_random_uniform_like, Generated.Schemas.v17.s_RandomUniformLike_1), 
   ("v17._Range", Generated.Ctors.v17.f_range, Generated.Schemas.v17.s_Range_11), 
   ("v17._Reciprocal", Generated.Ctors.v17.f_reciprocal, Generated.Schemas.v17.s_Reciprocal_13), 
   ("v17._ReduceL1", Generated.Ctors.v17.f_reduce_l1, Generated.Schemas.v17.s_ReduceL1_13), 
   ("v17._ReduceL2", Generated.Ctors.v17.f_reduce_l2, Generated.Schemas.v17.s_ReduceL2_13), 
   ("v17._ReduceLogSum", Generated.Ctors.v17.f_reduce_log_sum, Generated.Schemas.v17.s_ReduceLogSum_13), 
   ("v17._ReduceLogSumExp", Generated.Ctors.v17.f_reduce_log_sum_exp, Generated.Schemas.v17.s_ReduceLogSumExp_13), 
   ("v17._ReduceMax", Generated.Ctors.v17.f_reduce_max, Generated.Schemas.v17.s_ReduceMax_13), 
   ("v17._ReduceMean", Generated.Ctors.v17.f_reduce_mean, Generated.Schemas.v17.s_ReduceMean_13), 
   ("v17._ReduceMin", Generated.Ctors.v17.f_reduce_min, Generated.Schemas.v17.s_ReduceMin_13), 
   ("v17._ReduceProd", Generated.Ctors.v17.f_reduce_prod, Generated.Schemas.v17.s_ReduceProd_13), 
   ("v17._ReduceSum", Generated.Ctors.v17.f_reduce_sum, Generated.Schemas.v17.s_ReduceSum_13), 
   ("v17._ReduceSumSquare", Generated.Ctors.v17.f_reduce_sum_square, Generated.Schemas.v17.s_ReduceSumSquare_13), 
   ("v17._Relu", Generated.Ctors.v17.f_relu, Generated.Schemas.v17.s_Relu_14), 
   ("v17._Reshape", Generated.Ctors.v17.f_reshape, Generated.Schemas.v17.s_Reshape_14), 
   ("v17._Resize", Generated.Ctors.v17.f_resize, Generated.Schemas.v17.s_Resize_13), 
   ("v17._ReverseSequence", Generated.Ctors.v17.f_reverse_sequence, Generated.Schemas.v17.s_ReverseSequence_10), 
   ("v17._RoiAlign", Generated.Ctors.v17.f_roi_align, Generated.Schemas.v17.s_RoiAlign_16), 
   ("v17._Round", Generated.Ctors.v17.f_round, Generated.Schemas.v17.s_Round_11), 
   ("v17._STFT", Generated.Ctors.v17.f_stft, Generated.Schemas.v17.s_STFT_17), 
   ("v17._Scan", Generated.Ctors.v17.f_scan, Generated.Schemas.v17.s_Scan_16), 
   ("v17._ScatterElements", Generated.Ctors.v17.f_scatter_elements, Generated.Schemas.v17.s_ScatterElements_16), 
   ("v17._ScatterND", Generated.Ctors.v17.f_scatter_nd, Generated.Schemas.v17.s_ScatterND_16), 
   ("v17._Selu", Generated.Ctors.v17.f_selu, Generated.Schemas.v17.s_Selu_6), 
   ("v17._SequenceAt", Generated.Ctors.v17.f_sequence_at, Generated.Schemas.v17.s_SequenceAt_11), 
   ("v17._SequenceConstruct", Generated.Ctors.v17.f_sequence_construct, Generated.Schemas.v17.s_SequenceConstruct_11), 
   ("v17._SequenceEmpty", Generated.Ctors.v17.f_sequence_empty, Generated.Schemas.v17.s_SequenceEmpty_11), 
   ("v17._SequenceErase", Generated.Ctors.v17.f_sequence_erase, Generated.Schemas.v17.s_SequenceErase_11), 
   ("v17._SequenceInsert", Generated.Ctors.v17.f_sequence_insert, Generated.Schemas.v17.s_SequenceInsert_11), 
   ("v17._SequenceLength", Generated.Ctors.v17.f_sequence_length, Generated.Schemas.v17.s_SequenceLength_11), 
   ("v17._SequenceMap", Generated.Ctors.v17.f_sequence_map, Generated.Schemas.v17.s_SequenceMap_17), 
   ("v17._Shape", Generated.Ctors.v17.f_shape, Generated.Schemas.v17.s_Shape_15), 
   ("v17._Shrink", Generated.Ctors.v17.f_shrink, Generated.Schemas.v17.s_Shrink_9), 
   ("v17._Sigmoid", Generated.Ctors.v17.f_sigmoid, Generated.Schemas.v17.s_Sigmoid_13), 
   ("v17._Sign", Generated.Ctors.v17.f_sign, Generated.Schemas.v17.s_Sign_13), 
   ("v17._Sin", Generated.Ctors.v17.f_sin, Generated.Schemas.v17.s_Sin_7), 
   ("v17._Sinh", Generated.Ctors.v17.f_sinh, Generated.Schemas.v17.s_Sinh_9), 
   ("v17._Size", Generated.Ctors.v17.f_size, Generated.Schemas.v17.s_Size_13), 
   ("v17._Slice", Generated.Ctors.v17.f_slice, Generated.Schemas.v17.s_Slice_13), 
   ("v17._Softmax", Generated.Ctors.v17.f_softmax, Generated.Schemas.v17.s_Softmax_13), 
   ("v17._SoftmaxCrossEntropyLoss", Generated.Ctors.v17.f_softmax_cross_entropy_loss, Generated.Schemas.v17.s_SoftmaxCrossEntropyLoss_13), 
   ("v17._Softplus", Generated.Ctors.v17.f_softplus, Generated.Schemas.v17.s_Softplus_1), 
   ("v17._Softsign", Generated.Ctors.v17.f_softsign, Generated.Schemas.v17.s_Softsign_1), 
   ("v17._SpaceToDepth", Generated.Ctors.v17.f_space_to_depth, Generated.Schemas.v17.s_SpaceToDepth_13), 
   ("v17._Split", Generated.Ctors.v17.f_split, Generated.Schemas.v17.s_Split_13), 
   ("v17._SplitToSequence", Generated.Ctors.v17.f_split_to_sequence, Generated.Schemas.v17.s_SplitToSequence_11), 
   ("v17._Sqrt", Generated.Ctors.v17.f_sqrt, Generated.Schemas.v17.s_Sqrt_13), 
   ("v17._Squeeze", Generated.Ctors.v17.f_squeeze, Generated.Schemas.v17.s_Squeeze_13), 
   ("v17._StringNormalizer", Generated.Ctors.v17.f_string_normalizer, Generated.Schemas.v17.s_StringNormalizer_10), 
   ("v17._Sub", Generated.Ctors.v17.f_sub, Generated.Schemas.v17.s_Sub_14), 
   ("v17._Sum", Generated.Ctors.v17.f_sum, Generated.Schemas.v17.s_Sum_13), 
   ("v17._Tan", Generated.Ctors.v17.f_tan, Generated.Schemas.v17.s_Tan_7), 
   ("v17._Tanh", Generated.Ctors.v17.f_tanh, Generated.Schemas.v17.s_Tanh_13), 
   ("v17._TfIdfVectorizer", Generated.Ctors.v17.f_tf_idf_vectorizer, Generated.Schemas.v17.s_TfIdfVectorizer_9), 
   ("v17._ThresholdedRelu", Generated.Ctors.v17.f_thresholded_relu, Generated.Schemas.v17.s_ThresholdedRelu_10), 
   ("v17._Tile", Generated.Ctors.v17.f_tile, Generated.Schemas.v17.s_Tile_13), 
   ("v17._TopK", Generated.Ctors.v17.f_top_k, Generated.Schemas.v17.s_TopK_11), 
   ("v17._Transpose", Generated.Ctors.v17.f_transpose, Generated.Schemas.v17.s_Transpose_13), 
   ("v17._Trilu", Generated.Ctors.v17.f_trilu, Generated.Schemas.v17.s_Trilu_14), 
   ("v17._Unique", Generated.Ctors.v17.f_unique, Generated.Schemas.v17.s_Unique_11), 
   ("v17._Unsqueeze", Generated.Ctors.v17.f_unsqueeze, Generated.Schemas.v17.s_Unsqueeze_13), 
   ("v17._Where", Generated.Ctors.v17.f_where, Generated.Schemas.v17.s_Where_16), 
   ("v17._Xor", Generated.Ctors.v17.f_xor, Generated.Schemas.v17.s_Xor_7)]

theorem table_all : table.all entryOK = true :=
  all_cons conforms_v17_Abs (
  all_cons conforms_v17_Acos (
  all_cons conforms_v17_Acosh (
  all_cons conforms_v17_Add (
  all_cons conforms_v17_And (
  all_cons conforms_v17_ArgMax (
  all_cons conforms_v17_ArgMin (
  all_cons conforms_v17_Asin (
  all_cons conforms_v17_Asinh (
  all_cons conforms_v17_Atan (
  all_cons conforms_v17_Atanh (
  all_cons conforms_v17_AveragePool (
  all_cons conforms_v17_BatchNormalization (
  all_cons conforms_v17_Bernoulli (
  all_cons conforms_v17_BitShift (
  all_cons conforms_v17_BlackmanWindow (
  all_cons conforms_v17_Cast (
  all_cons conforms_v17_CastLike (
  all_cons conforms_v17_Ceil (
  all_cons conforms_v17_Celu (
  all_cons conforms_v17_Clip (
  all_cons conforms_v17_Compress (
  all_cons conforms_v17_Concat (
  all_cons conforms_v17_ConcatFromSequence (
  all_cons conforms_v17_ConstantOfShape (
  all_cons conforms_v17_Conv (
  all_cons conforms_v17_ConvInteger (
  all_cons conforms_v17_ConvTranspose (
  all_cons conforms_v17_Cos (
  all_cons conforms_v17_Cosh (
  all_cons conforms_v17_CumSum (
  all_cons conforms_v17_DFT (
  all_cons conforms_v17_DepthToSpace (
  all_cons conforms_v17_DequantizeLinear (
  all_cons conforms_v17_Det (
  all_cons conforms_v17_Div (
  all_cons conforms_v17_Dropout (
  all_cons conforms_v17_DynamicQuantizeLinear (
  all_cons conforms_v17_Einsum (
  all_cons conforms_v17_Elu (
  all_cons conforms_v17_Equal (
  all_cons conforms_v17_Erf (
  all_cons conforms_v17_Exp (
  all_cons conforms_v17_Expand (
  all_cons conforms_v17_EyeLike (
  all_cons conforms_v17_Flatten (
  all_cons conforms_v17_Floor (
  all_cons conforms_v17_GRU (
  all_cons conforms_v17_Gather (
  all_cons conforms_v17_GatherElements (
  all_cons conforms_v17_GatherND (
  all_cons conforms_v17_Gemm (
  all_cons conforms_v17_GlobalAveragePool (
  all_cons conforms_v17_GlobalLpPool (
  all_cons conforms_v17_GlobalMaxPool (
  all_cons conforms_v17_Greater (
  all_cons conforms_v17_GreaterOrEqual (
  all_cons conforms_v17_GridSample (
  all_cons conforms_v17_HammingWindow (
  all_cons conforms_v17_HannWindow (
  all_cons conforms_v17_HardSigmoid (
  all_cons conforms_v17_HardSwish (
  all_cons conforms_v17_Hardmax (
  all_cons conforms_v17_Identity (
  all_cons conforms_v17_If (
  all_cons conforms_v17_InstanceNormalization (
  all_cons conforms_v17_IsInf (
  all_cons conforms_v17_IsNaN (
  all_cons conforms_v17_LRN (
  all_cons conforms_v17_LSTM (
  all_cons conforms_v17_LayerNormalization (
  all_cons conforms_v17_LeakyRelu (
  all_cons conforms_v17_Less (
  all_cons conforms_v17_LessOrEqual (
  all_cons conforms_v17_Log (
  all_cons conforms_v17_LogSoftmax (
  all_cons conforms_v17_Loop (
  all_cons conforms_v17_LpNormalization (
  all_cons conforms_v17_LpPool (
  all_cons conforms_v17_MatMul (
  all_cons conforms_v17_MatMulInteger (
  all_cons conforms_v17_Max (
  all_cons conforms_v17_MaxPool (
  all_cons conforms_v17_MaxRoiPool (
  all_cons conforms_v17_MaxUnpool (
  all_cons conforms_v17_Mean (
  all_cons conforms_v17_MeanVarianceNormalization (
  all_cons conforms_v17_MelWeightMatrix (
  all_cons conforms_v17_Min (
  all_cons conforms_v17_Mod (
  all_cons conforms_v17_Mul (
  all_cons conforms_v17_Multinomial (
  all_cons conforms_v17_Neg (
  all_cons conforms_v17_NegativeLogLikelihoodLoss (
  all_cons conforms_v17_NonMaxSuppression (
  all_cons conforms_v17_NonZero (
  all_cons conforms_v17_Not (
  all_cons conforms_v17_OneHot (
  all_cons conforms_v17_Optional (
  all_cons conforms_v17_OptionalGetElement (
  all_cons conforms_v17_OptionalHasElement (
  all_cons conforms_v17_Or (
  all_cons conforms_v17_PRelu (
  all_cons conforms_v17_Pad (
  all_cons conforms_v17_Pow (
  all_cons conforms_v17_QLinearConv (
  all_cons conforms_v17_QLinearMatMul (
  all_cons conforms_v17_QuantizeLinear (
  all_cons conforms_v17_RNN (
  all_cons conforms_v17_RandomNormal (
  all_cons conforms_v17_RandomNormalLike (
  all_cons conforms_v17_RandomUniform (
  all_cons conforms_v17_RandomUniformLike (
  all_cons conforms_v17_Range (
  all_cons conforms_v17_Reciprocal (
  all_cons conforms_v17_ReduceL1 (
  all_cons conforms_v17_ReduceL2 (
  all_cons conforms_v17_ReduceLogSum (
  all_cons conforms_v17_ReduceLogSumExp (
  all_cons conforms_v17_ReduceMax (
  all_cons conforms_v17_ReduceMean (
  all_cons conforms_v17_ReduceMin (
  all_cons conforms_v17_ReduceProd (
  all_cons conforms_v17_ReduceSum (
  all_cons conforms_v17_ReduceSumSquare (
  all_cons conforms_v17_Relu (
  all_cons conforms_v17_Reshape (
  all_cons conforms_v17_Resize (
  all_cons conforms_v17_ReverseSequence (
  all_cons conforms_v17_RoiAlign (
  all_cons conforms_v17_Round (
  all_cons conforms_v17_STFT (
  all_cons conforms_v17_Scan (
  all_cons conforms_v17_ScatterElements (
  all_cons conforms_v17_ScatterND (
  all_cons conforms_v17_Selu (
  all_cons conforms_v17_SequenceAt (
  all_cons conforms_v17_SequenceConstruct (
  all_cons conforms_v17_SequenceEmpty (
  all_cons conforms_v17_SequenceErase (
  all_cons conforms_v17_SequenceInsert (
  all_cons conforms_v17_SequenceLength (
  all_cons conforms_v17_SequenceMap (
  all_cons conforms_v17_Shape (
  all_cons conforms_v17_Shrink (
  all_cons conforms_v17_Sigmoid (
  all_cons conforms_v17_Sign (
  all_cons conforms_v17_Sin (
  all_cons conforms_v17_Sinh (
  all_cons conforms_v17_Size (
  all_cons conforms_v17_Slice (
  all_cons conforms_v17_Softmax (
  all_cons conforms_v17_SoftmaxCrossEntropyLoss (
  all_cons conforms_v17_Softplus (
  all_cons conforms_v17_Softsign (
  all_cons conforms_v17_SpaceToDepth (
  all_cons conforms_v17_Split (
  all_cons conforms_v17_SplitToSequence (
  all_cons conforms_v17_Sqrt (
  all_cons conforms_v17_Squeeze (
  all_cons conforms_v17_StringNormalizer (
  all_cons conforms_v17_Sub (
  all_cons conforms_v17_Sum (
  all_cons conforms_v17_Tan (
  all_cons conforms_v17_Tanh (
  all_cons conforms_v17_TfIdfVectorizer (
  all_cons conforms_v17_ThresholdedRelu (
  all_cons conforms_v17_Tile (
  all_cons conforms_v17_TopK (
  all_cons conforms_v17_Transpose (
  all_cons conforms_v17_Trilu (
  all_cons conforms_v17_Unique (
  all_cons conforms_v17_Unsqueeze (
  all_cons conforms_v17_Where (
  all_cons conforms_v17_Xor (
  all_nil)))))))))))))))))))))))))))))))))))))))))))))))))))))))))))))))))))))))))))))))))))))))))))))))))))))))))))))))))))))))))))))))))))))))))))))))))))))))))))))))))))))))))))))))

theorem table_conforms : ∀ e ∈ table, entryOK e = true :=
  fun e he => List.all_eq_true.mp table_all e he

/-- every operator/module pair of this module (deviating ones included: deviations concern attributes) -/
def allEntries : List Entry :=
  [
   ("v17._Abs", Generated.Ctors.v17.f_abs, Generated.Schemas.v17.s_Abs_13), 
   ("v17._Acos", Generated.Ctors.v17.f_acos, Generated.Schemas.v17.s_Acos_7), 
   ("v17._Acosh", Generated.Ctors.v17.f_acosh, Generated.Schemas.v17.s_Acosh_9), 
   ("v17._Add", Generated.Ctors.v17.f_add, Generated.Schemas.v17.s_Add_14), 
   ("v17._And", Generated.Ctors.v17.f_and_, Generated.Schemas.v17.s_And_7), 
   ("v17._ArgMax", Generated.Ctors.v17.f_arg_max, Generated.Schemas.v17.s_ArgMax_13), 
   ("v17._ArgMin", Generated.Ctors.v17.f_arg_min, Generated.Schemas.v17.s_ArgMin_13), 
   ("v17._Asin", Generated.Ctors.v17.f_asin, Generated.Schemas.v17.s_Asin_7), 
   ("v17._Asinh", Generated.Ctors.v17.f_asinh, Generated.Schemas.v17.s_Asinh_9), 
   ("v17._Atan", Generated.Ctors.v17.f_atan, Generated.Schemas.v17.s_Atan_7), 
   ("v17._Atanh", Generated.Ctors.v17.f_atanh, Generated.Schemas.v17.s_Atanh_9), 
   ("v17._AveragePool", Generated.Ctors.v17.f_average_pool, Generated.Schemas.v17.s_AveragePool_11), 
   ("v17._BatchNormalization", Generated.Ctors.v17.f_batch_normalization, Generated.Schemas.v17.s_BatchNormalization_15), 
   ("v17._Bernoulli", Generated.Ctors.v17.f_bernoulli, Generated.Schemas.v17.s_Bernoulli_15), 
   ("v17._BitShift", Generated.Ctors.v17.f_bit_shift, Generated.Schemas.v17.s_BitShift_11), 
   ("v17._BlackmanWindow", Generated.Ctors.v17.f_blackman_window, Generated.Schemas.v17.s_BlackmanWindow_17), 
   ("v17._Cast", Generated.Ctors.v17.f_cast, Generated.Schemas.v17.s_Cast_13), 
   ("v17._CastLike", Generated.Ctors.v17.f_cast_like, Generated.Schemas.v17.s_CastLike_15), 
   ("v17._Ceil", Generated.Ctors.v17.f_ceil, Generated.Schemas.v17.s_Ceil_13), 
   ("v17._Celu", Generated.Ctors.v17.f_celu, Generated.Schemas.v17.s_Celu_12), 
   ("v17._Clip", Generated.Ctors.v17.f_clip, Generated.Schemas.v17.s_Clip_13), 
   ("v17._Compress", Generated.Ctors.v17.f_compress, Generated.Schemas.v17.s_Compress_11), 
   ("v17._Concat", Generated.Ctors.v17.f_concat, Generated.Schemas.v17.s_Concat_13), 
   ("v17._ConcatFromSequence", Generated.Ctors.v17.f_concat_from_sequence, Generated.Schemas.v17.s_ConcatFromSequence_11), 
   ("v17._Constant", Generated.Ctors.v17.f_constant, Generated.Schemas.v17.s_Constant_13), 
   ("v17._ConstantOfShape", Generated.Ctors.v17.f_constant_of_shape, Generated.Schemas.v17.s_ConstantOfShape_9), 
   ("v17._Conv", Generated.Ctors.v17.f_conv, Generated.Schemas.v17.s_Conv_11), 
   ("v17._ConvInteger", Generated.Ctors.v17.f_conv_integer, Generated.Schemas.v17.s_ConvInteger_10), 
   ("v17._ConvTranspose", Generated.Ctors.v17.f_conv_transpose, Generated.Schemas.v17.s_ConvTranspose_11), 
   ("v17._Cos", Generated.Ctors.v17.f_cos, Generated.Schemas.v17.s_Cos_7), 
   ("v17._Cosh", Generated.Ctors.v17.f_cosh, Generated.Schemas.v17.s_Cosh_9), 
   ("v17._CumSum", Generated.Ctors.v17.f_cumsum, Generated.Schemas.v17.s_CumSum_14), 
   ("v17._DFT", Generated.Ctors.v17.f_dft, Generated.Schemas.v17.s_DFT_17), 
   ("v17._DepthToSpace", Generated.Ctors.v17.f_depth_to_space, Generated.Schemas.v17.s_DepthToSpace_13), 
   ("v17._DequantizeLinear", Generated.Ctors.v17.f_dequantize_linear, Generated.Schemas.v17.s_DequantizeLinear_13), 
   ("v17._Det", Generated.Ctors.v17.f_det, Generated.Schemas.v17.s_Det_11), 
   ("v17._Div", Generated.Ctors.v17.f_div, Generated.Schemas.v17.s_Div_14), 
   ("v17._Dropout", Generated.Ctors.v17.f_dropout, Generated.Schemas.v17.s_Dropout_13), 
   ("v17._DynamicQuantizeLinear", Generated.Ctors.v17.f_dynamic_quantize_linear, Generated.Schemas.v17.s_DynamicQuantizeLinear_11), 
   ("v17._Einsum", Generated.Ctors.v17.f_einsum, Generated.Schemas.v17.s_Einsum_12), 
   ("v17._Elu", Generated.Ctors.v17.f_elu, Generated.Schemas.v17.s_Elu_6), 
   ("v17._Equal", Generated.Ctors.v17.f_equal, Generated.Schemas.v17.s_Equal_13), 
   ("v17._Erf", Generated.Ctors.v17.f_erf, Generated.Schemas.v17.s_Erf_13), 
   ("v17._Exp", Generated.Ctors.v17.f_exp, Generated.Schemas.v17.s_Exp_13), 
   ("v17._Expand", Generated.Ctors.v17.f_expand, Generated.Schemas.v17.s_Expand_13), 
   ("v17._EyeLike", Generated.Ctors.v17.f_eye_like, Generated.Schemas.v17.s_EyeLike_9), 
   ("v17._Flatten", Generated.Ctors.v17.f_flatten, Generated.Schemas.v17.s_Flatten_13), 
   ("v17._Floor", Generated.Ctors.v17.f_floor, Generated.Schemas.v17.s_Floor_13), 
   ("v17._GRU", Generated.Ctors.v17.f_gru, Generated.Schemas.v17.s_GRU_14), 
   ("v17._Gather", Generated.Ctors.v17.f_gather, Generated.Schemas.v17.s_Gather_13), 
   ("v17._GatherElements", Generated.Ctors.v17.f_gather_elements, Generated.Schemas.v17.s_GatherElements_13), 
   ("v17._GatherND", Generated.Ctors.v17.f_gather_nd, Generated.Schemas.v17.s_GatherND_13), 
   ("v17._Gemm", Generated.Ctors.v17.f_gemm, Generated.Schemas.v17.s_Gemm_13), 
   ("v17._GlobalAveragePool", Generated.Ctors.v17.f_global_average_pool, Generated.Schemas.v17.s_GlobalAveragePool_1), 
   ("v17._GlobalLpPool", Generated.Ctors.v17.f_global_lp_pool, Generated.Schemas.v17.s_GlobalLpPool_2), 
   ("v17._GlobalMaxPool", Generated.Ctors.v17.f_global_max_pool, Generated.Schemas.v17.s_GlobalMaxPool_1), 
   ("v17._Greater", Generated.Ctors.v17.f_greater, Generated.Schemas.v17.s_Greater_13), 
   ("v17._GreaterOrEqual", Generated.Ctors.v17.f_greater_or_equal, Generated.Schemas.v17.s_GreaterOrEqual_16), 
   ("v17._GridSample", Generated.Ctors.v17.f_grid_sample, Generated.Schemas.v17.s_GridSample_16), 
   ("v17._HammingWindow", Generated.Ctors.v17.f_hamming_window, Generated.Schemas.v17.s_HammingWindow_17), 
   ("v17._HannWindow", Generated.Ctors.v17.f_hann_window, Generated.Schemas.v17.s_HannWindow_17), 
   ("v17._HardSigmoid", Generated.Ctors.v17.f_hard_sigmoid, Generated.Schemas.v17.s_HardSigmoid_6), 
   ("v17._HardSwish", Generated.Ctors.v17.f_hard_swish, Generated.Schemas.v17.s_HardSwish_14), 
   ("v17._Hardmax", Generated.Ctors.v17.f_hardmax, Generated.Schemas.v17.s_Hardmax_13), 
   ("v17._Identity", Generated.Ctors.v17.f_identity, Generated.Schemas.v17.s_Identity_16), 
   ("v17._If", Generated.Ctors.v17.f_if_, Generated.Schemas.v17.s_If_16), 
   ("v17._InstanceNormalization", Generated.Ctors.v17.f_instance_normalization, Generated.Schemas.v17.s_InstanceNormalization_6), 
   ("v17._IsInf", Generated.Ctors.v17.f_isinf, Generated.Schemas.v17.s_IsInf_10), 
   ("v17._IsNaN", Generated.Ctors.v17.f_isnan, Generated.Schemas.v17.s_IsNaN_13), 
   ("v17._LRN", Generated.Ctors.v17.f_lrn, Generated.Schemas.v17.s_LRN_13), 
   ("v17._LSTM", Generated.Ctors.v17.f_lstm, Generated.Schemas.v17.s_LSTM_14), 
   ("v17._LayerNormalization", Generated.Ctors.v17.f_layer_normalization, Generated.Schemas.v17.s_LayerNormalization_17), 
   ("v17._LeakyRelu", Generated.Ctors.v17.f_leaky_relu, Generated.Schemas.v17.s_LeakyRelu_16), 
   ("v17._Less", Generated.Ctors.v17.f_less, Generated.Schemas.v17.s_Less_13), 
   ("v17._LessOrEqual", Generated.Ctors.v17.f_less_or_equal, Generated.Schemas.v17.s_LessOrEqual_16), 
   ("v17._Log", Generated.Ctors.v17.f_log, Generated.Schemas.v17.s_Log_13), 
   ("v17._LogSoftmax", Generated.Ctors.v17.f_log_softmax, Generated.Schemas.v17.s_LogSoftmax_13), 
   ("v17._Loop", Generated.Ctors.v17.f_loop, Generated.Schemas.v17.s_Loop_16), 
   ("v17._LpNormalization", Generated.Ctors.v17.f_lp_normalization, Generated.Schemas.v17.s_LpNormalization_1), 
   ("v17._LpPool", Generated.Ctors.v17.f_lp_pool, Generated.Schemas.v17.s_LpPool_11), 
   ("v17._MatMul", Generated.Ctors.v17.f_matmul, Generated.Schemas.v17.s_MatMul_13), 
   ("v17._MatMulInteger", Generated.Ctors.v17.f_matmul_integer, Generated.Schemas.v17.s_MatMulInteger_10), 
   ("v17._Max", Generated.Ctors.v17.f_max, Generated.Schemas.v17.s_Max_13), 
   ("v17._MaxPool", Generated.Ctors.v17.f_max_pool, Generated.Schemas.v17.s_MaxPool_12), 
   ("v17._MaxRoiPool", Generated.Ctors.v17.f_max_roi_pool, Generated.Schemas.v17.s_MaxRoiPool_1), 
   ("v17._MaxUnpool", Generated.Ctors.v17.f_max_unpool, Generated.Schemas.v17.s_MaxUnpool_11), 
   ("v17._Mean", Generated.Ctors.v17.f_mean, Generated.Schemas.v17.s_Mean_13), 
   ("v17._MeanVarianceNormalization", Generated.Ctors.v17.f_mean_variance_normalization, Generated.Schemas.v17.s_MeanVarianceNormalization_13), 
   ("v17._MelWeightMatrix", Generated.Ctors.v17.f_mel_weight_matrix, Generated.Schemas.v17.s_MelWeightMatrix_17), 
   ("v17._Min", Generated.Ctors.v17.f_min, Generated.Schemas.v17.s_Min_13), 
   ("v17._Mod", Generated.Ctors.v17.f_mod, Generated.Schemas.v17.s_Mod_13), 
   ("v17._Mul", Generated.Ctors.v17.f_mul, Generated.Schemas.v17.s_Mul_14), 
   ("v17._Multinomial", Generated.Ctors.v17.f_multinomial, Generated.Schemas.v17.s_Multinomial_7), 
   ("v17._Neg", Generated.Ctors.v17.f_neg, Generated.Schemas.v17.s_Neg_13), 
   ("v17._NegativeLogLikelihoodLoss", Generated.Ctors.v17.f_negative_log_likelihood_loss, Generated.Schemas.v17.s_NegativeLogLikelihoodLoss_13), 
   ("v17._NonMaxSuppression", Generated.Ctors.v17.f_non_max_suppression, Generated.Schemas.v17.s_NonMaxSuppression_11), 
   ("v17._NonZero", Generated.Ctors.v17.f_non_zero, Generated.Schemas.v17.s_NonZero_13), 
   ("v17._Not", Generated.Ctors.v17.f_not_, Generated.Schemas.v17.s_Not_1), 
   ("v17._OneHot", Generated.Ctors.v17.f_one_hot, Generated.Schemas.v17.s_OneHot_11), 
   ("v17._Optional", Generated.Ctors.v17.f_optional, Generated.Schemas.v17.s_Optional_15), 
   ("v17._OptionalGetElement", Generated.Ctors.v17.f_optional_get_element, Generated.Schemas.v17.s_OptionalGetElement_15), 
   ("v17._OptionalHasElement", Generated.Ctors.v17.f_optional_has_element, Generated.Schemas.v17.s_OptionalHasElement_15), 
   ("v17._Or", Generated.Ctors.v17.f_or_, Generated.Schemas.v17.s_Or_7), 
   ("v17._PRelu", Generated.Ctors.v17.f_prelu, Generated.Schemas.v17.s_PRelu_16), 
   ("v17._Pad", Generated.Ctors.v17.f_pad, Generated.Schemas.v17.s_Pad_13), 
   ("v17._Pow", Generated.Ctors.v17.f_pow, Generated.Schemas.v17.s_Pow_15), 
   ("v17._QLinearConv", Generated.Ctors.v17.f_qlinear_conv, Generated.Schemas.v17.s_QLinearConv_10), 
   ("v17._QLinearMatMul", Generated.Ctors.v17.f_qlinear_matmul, Generated.Schemas.v17.s_QLinearMatMul_10), 
   ("v17._QuantizeLinear", Generated.Ctors.v17.f_quantize_linear, Generated.Schemas.v17.s_QuantizeLinear_13), 
   ("v17._RNN", Generated.Ctors.v17.f_rnn, Generated.Schemas.v17.s_RNN_14), 
   ("v17._RandomNormal", Generated.Ctors.v17.f_random_normal, Generated.Schemas.v17.s_RandomNormal_1), 
   ("v17._RandomNormalLike", Generated.Ctors.v17.f_random_normal_like, Generated.Schemas.v17.s_RandomNormalLike_1), 
   ("v17._RandomUniform", Generated.Ctors.v17.f_random_uniform, Generated.Schemas.v17.s_RandomUniform_1), 
   ("v17._RandomUniformLike", Generated.Ctors.v17.f_random_uniform_like, Generated.Schemas.v17.s_RandomUniformLike_1), 
   ("v17._Range", Generated.Ctors.v17.f_range, Generated.Schemas.v17.s_Range_11), 
   ("v17._Reciprocal", Generated.Ctors.v17.f_reciprocal, Generated.Schemas.v17.s_Reciprocal_13), 
   ("v17._ReduceL1", Generated.Ctors.v17.f_reduce_l1, Generated.Schemas.v17.s_ReduceL1_13), 
   ("v17._ReduceL2", Generated.Ctors.v17.f_reduce_l2, Generated.Schemas.v17.s_ReduceL2_13), 
   ("v17._ReduceLogSum", Generated.Ctors.v17.f_reduce_log_sum, Generated.Schemas.v17.s_ReduceLogSum_13), 
   ("v17._ReduceLogSumExp", Generated.Ctors.v17.f_reduce_log_sum_exp, Generated.Schemas.v17.s_ReduceLogSumExp_13), 
   ("v17._ReduceMax", Generated.Ctors.v17.f_reduce_max, Generated.Schemas.v17.s_ReduceMax_13), 
   ("v17._ReduceMean", Generated.Ctors.v17.f_reduce_mean, Generated.Schemas.v17.s_ReduceMean_13), 
   ("v17._ReduceMin", Generated.Ctors.v17.f_reduce_min, Generated.Schemas.v17.s_ReduceMin_13), 
   ("v17._ReduceProd", Generated.Ctors.v17.f_reduce_prod, Generated.Schemas.v17.s_ReduceProd_13), 
   ("v17._ReduceSum", Generated.Ctors.v17.f_reduce_sum, Generated.Schemas.v17.s_ReduceSum_13), 
   ("v17._ReduceSumSquare", Generated.Ctors.v17.f_reduce_sum_square, Generated.Schemas.v17.s_ReduceSumSquare_13), 
   ("v17._Relu", Generated.Ctors.v17.f_relu, Generated.Schemas.v17.s_Relu_14), 
   ("v17._Reshape", Generated.Ctors.v17.f_reshape, Generated.Schemas.v17.s_Reshape_14), 
   ("v17._Resize", Generated.Ctors.v17.f_resize, Generated.Schemas.v17.s_Resize_13), 
   ("v17._ReverseSequence", Generated.Ctors.v17.f_reverse_sequence, Generated.Schemas.v17.s_ReverseSequence_10), 
   ("v17._RoiAlign", Generated.Ctors.v17.f_roi_align, Generated.Schemas.v17.s_RoiAlign_16), 
   ("v17._Round", Generated.Ctors.v17.f_round, Generated.Schemas.v17.s_Round_11), 
   ("v17._STFT", Generated.Ctors.v17.f_stft, Generated.Schemas.v17.s_STFT_17), 
   ("v17._Scan", Generated.Ctors.v17.f_scan, Generated.Schemas.v17.s_Scan_16), 
   ("v17._ScatterElements", Generated.Ctors.v17.f_scatter_elements, Generated.Schemas.v17.s_ScatterElements_16), 
   ("v17._ScatterND", Generated.Ctors.v17.f_scatter_nd, Generated.Schemas.v17.s_ScatterND_16), 
   ("v17._Selu", Generated.Ctors.v17.f_selu, Generated.Schemas.v17.s_Selu_6), 
   ("v17._SequenceAt", Generated.Ctors.v17.f_sequence_at, Generated.Schemas.v17.s_SequenceAt_11), 
   ("v17._SequenceConstruct", Generated.Ctors.v17.f_sequence_construct, Generated.Schemas.v17.s_SequenceConstruct_11), 
   ("v17._SequenceEmpty", Generated.Ctors.v17.f_sequence_empty, Generated.Schemas.v17.s_SequenceEmpty_11), 
   ("v17._SequenceErase", Generated.Ctors.v17.f_sequence_erase, Generated.Schemas.v17.s_SequenceErase_11), 
   ("v17._SequenceInsert", Generated.Ctors.v17.f_sequence_insert, Generated.Schemas.v17.s_SequenceInsert_11), 
   ("v17._SequenceLength", Generated.Ctors.v17.f_sequence_length, Generated.Schemas.v17.s_SequenceLength_11), 
   ("v17._SequenceMap", Generated.Ctors.v17.f_sequence_map, Generated.Schemas.v17.s_SequenceMap_17), 
   ("v17._Shape", Generated.Ctors.v17.f_shape, Generated.Schemas.v17.s_Shape_15), 
   ("v17._Shrink", Generated.Ctors.v17.f_shrink, Generated.Schemas.v17.s_Shrink_9), 
   ("v17._Sigmoid", Generated.Ctors.v17.f_sigmoid, Generated.Schemas.v17.s_Sigmoid_13), 
   ("v17._Sign", Generated.Ctors.v17.f_sign, Generated.Schemas.v17.s_Sign_13), 
   ("v17._Sin", Generated.Ctors.v17.f_sin, Generated.Schemas.v17.s_Sin_7), 
   ("v17._Sinh", Generated.Ctors.v17.f_sinh, Generated.Schemas.v17.s_Sinh_9), 
   ("v17._Size", Generated.Ctors.v17.f_size, Generated.Schemas.v17.s_Size_13), 
   ("v17._Slice", Generated.Ctors.v17.f_slice, Generated.Schemas.v17.s_Slice_13), 
   ("v17._Softmax", Generated.Ctors.v17.f_softmax, Generated.Schemas.v17.s_Softmax_13), 
   ("v17._SoftmaxCrossEntropyLoss", Generated.Ctors.v17.f_softmax_cross_entropy_loss, Generated.Schemas.v17.s_SoftmaxCrossEntropyLoss_13), 
   ("v17._Softplus", Generated.Ctors.v17.f_softplus, Generated.Schemas.v17.s_Softplus_1), 
   ("v17._Softsign", Generated.Ctors.v17.f_softsign, Generated.Schemas.v17.s_Softsign_1), 
   ("v17._SpaceToDepth", Generated.Ctors.v17.f_space_to_depth, Generated.Schemas.v17.s_SpaceToDepth_13), 
   ("v17._Split", Generated.Ctors.v17.f_split, Generated.Schemas.v17.s_Split_13), 
   ("v17._SplitToSequence", Generated.Ctors.v17.f_split_to_sequence, Generated.Schemas.v17.s_SplitToSequence_11), 
   ("v17._Sqrt", Generated.Ctors.v17.f_sqrt, Generated.Schemas.v17.s_Sqrt_13), 
   ("v17._Squeeze", Generated.Ctors.v17.f_squeeze, Generated.Schemas.v17.s_Squeeze_13), 
   ("v17._StringNormalizer", Generated.Ctors.v17.f_string_normalizer, Generated.Schemas.v17.s_StringNormalizer_10), 
   ("v17._Sub", Generated.Ctors.v17.f_sub, Generated.Schemas.v17.s_Sub_14), 
   ("v17._Sum", Generated.Ctors.v17.f_sum, Generated.Schemas.v17.s_Sum_13), 
   ("v17._Tan", Generated.Ctors.v17.f_tan, Generated.Schemas.v17.s_Tan_7), 
   ("v17._Tanh", Generated.Ctors.v17.f_tanh, Generated.Schemas.v17.s_Tanh_13), 
   ("v17._TfIdfVectorizer", Generated.Ctors.v17.f_tf_idf_vectorizer, Generated.Schemas.v17.s_TfIdfVectorizer_9), 
   ("v17._ThresholdedRelu", Generated.Ctors.v17.f_thresholded_relu, Generated.Schemas.v17.s_ThresholdedRelu_10), 
   ("v17._Tile", Generated.Ctors.v17.f_tile, Generated.Schemas.v17.s_Tile_13), 
   ("v17._TopK", Generated.Ctors.v17.f_top_k, Generated.Schemas.v17.s_TopK_11), 
   ("v17._Transpose", Generated.Ctors.v17.f_transpose, Generated.Schemas.v17.s_Transpose_13), 
   ("v17._Trilu", Generated.Ctors.v17.f_trilu, Generated.Schemas.v17.s_Trilu_14), 
   ("v17._Unique", Generated.Ctors.v17.f_unique, Generated.Schemas.v17.s_Unique_11), 
   ("v17._Unsqueeze", Generated.Ctors.v17.f_unsqueeze, Generated.Schemas.v17.s_Unsqueeze_13), 
   ("v17._Where", Generated.Ctors.v17.f_where, Generated.Schemas.v17.s_Where_16), 
   ("v17._Xor", Generated.Ctors.v17.f_xor, Generated.Schemas.v17.s_Xor_7)]

theorem slots_all : allEntries.all slotOK = true :=
  all_cons slots_v17_Abs (
  all_cons slots_v17_Acos (
  all_cons slots_v17_Acosh (
  all_cons slots_v17_Add (
  all_cons slots_v17_And (
  all_cons slots_v17_ArgMax (
  all_cons slots_v17_ArgMin (
  all_cons slots_v17_Asin (
  all_cons slots_v17_Asinh (
  all_cons slots_v17_Atan (
  all_cons slots_v17_Atanh (
  all_cons slots_v17_AveragePool (
  all_cons slots_v17_BatchNormalization (
  all_cons slots_v17_Bernoulli (
  all_cons slots_v17_BitShift (
  all_cons slots_v17_BlackmanWindow (
  all_cons slots_v17_Cast (
  all_cons slots_v17_CastLike (
  all_cons slots_v17_Ceil (
  all_cons slots_v17_Celu (
  all_cons slots_v17_Clip (
  all_cons slots_v17_Compress (
  all_cons slots_v17_Concat (
  all_cons slots_v17_ConcatFromSequence (
  all_cons slots_v17_Constant (
  all_cons slots_v17_ConstantOfShape (
  all_cons slots_v17_Conv (
  all_cons slots_v17_ConvInteger (
  all_cons slots_v17_ConvTranspose (
  all_cons slots_v17_Cos (
  all_cons slots_v17_Cosh (
  all_cons slots_v17_CumSum (
  all_cons slots_v17_DFT (
  all_cons slots_v17_DepthToSpace (
  all_cons slots_v17_DequantizeLinear (
  all_cons slots_v17_Det (
  all_cons slots_v17_Div (
  all_cons slots_v17_Dropout (
  all_cons slots_v17_DynamicQuantizeLinear (
  all_cons slots_v17_Einsum (
  all_cons slots_v17_Elu (
  all_cons slots_v17_Equal (
  all_cons slots_v17_Erf (
  all_cons slots_v17_Exp (
  all_cons slots_v17_Expand (
  all_cons slots_v17_EyeLike (
  all_cons slots_v17_Flatten (
  all_cons slots_v17_Floor (
  all_cons slots_v17_GRU (
  all_cons slots_v17_Gather (
  all_cons slots_v17_GatherElements (
  all_cons slots_v17_GatherND (
  all_cons slots_v17_Gemm (
  all_cons slots_v17_GlobalAveragePool (
  all_cons slots_v17_GlobalLpPool (
  all_cons slots_v17_GlobalMaxPool (
  all_cons slots_v17_Greater (
  all_cons slots_v17_GreaterOrEqual (
  all_cons slots_v17_GridSample (
  all_cons slots_v17_HammingWindow (
  all_cons slots_v17_HannWindow (
  all_cons slots_v17_HardSigmoid (
  all_cons slots_v17_HardSwish (
  all_cons slots_v17_Hardmax (
  all_cons slots_v17_Identity (
  all_cons slots_v17_If (
  all_cons slots_v17_InstanceNormalization (
  all_cons slots_v17_IsInf (
  all_cons slots_v17_IsNaN (
  all_cons slots_v17_LRN (
  all_cons slots_v17_LSTM (
  all_cons slots_v17_LayerNormalization (
  all_cons slots_v17_LeakyRelu (
  all_cons slots_v17_Less (
  all_cons slots_v17_LessOrEqual (
  all_cons slots_v17_Log (
  all_cons slots_v17_LogSoftmax (
  all_cons slots_v17_Loop (
  all_cons slots_v17_LpNormalization (
  all_cons slots_v17_LpPool (
  all_cons slots_v17_MatMul (
  all_cons slots_v17_MatMulInteger (
  all_cons slots_v17_Max (
  all_cons slots_v17_MaxPool (
  all_cons slots_v17_MaxRoiPool (
  all_cons slots_v17_MaxUnpool (
  all_cons slots_v17_Mean (
  all_cons slots_v17_MeanVarianceNormalization (
  all_cons slots_v17_MelWeightMatrix (
  all_cons slots_v17_Min (
  all_cons slots_v17_Mod (
  all_cons slots_v17_Mul (
  all_cons slots_v17_Multinomial (
  all_cons slots_v17_Neg (
  all_cons slots_v17_NegativeLogLikelihoodLoss (
  all_cons slots_v17_NonMaxSuppression (
  all_cons slots_v17_NonZero (
  all_cons slots_v17_Not (
  all_cons slots_v17_OneHot (
  all_cons slots_v17_Optional (
  all_cons slots_v17_OptionalGetElement (
  all_cons slots_v17_OptionalHasElement (
  all_cons slots_v17_Or (
  all_cons slots_v17_PRelu (
  all_cons slots_v17_Pad (
  all_cons slots_v17_Pow (
  all_cons slots_v17_QLinearConv (
  all_cons slots_v17_QLinearMatMul (
  all_cons slots_v17_QuantizeLinear (
  all_cons slots_v17_RNN (
  all_cons slots_v17_RandomNormal (
  all_cons slots_v17_RandomNormalLike (
  all_cons slots_v17_RandomUniform (
  all_cons slots_v17_RandomUniformLike (
  all_cons slots_v17_Range (
  all_cons slots_v17_Reciprocal (
  all_cons slots_v17_ReduceL1 (
  all_cons slots_v17_ReduceL2 (
  all_cons slots_v17_ReduceLogSum (
  all_cons slots_v17_ReduceLogSumExp (
  all_cons slots_v17_ReduceMax (
  all_cons slots_v17_ReduceMean (
  all_cons slots_v17_ReduceMin (
  all_cons slots_v17_ReduceProd (
  all_cons slots_v17_ReduceSum (
  all_cons slots_v17_ReduceSumSquare (
  all_cons slots_v17_Relu (
  all_cons slots_v17_Reshape (
  all_cons slots_v17_Resize (
  all_cons slots_v17_ReverseSequence (
  all_cons slots_v17_RoiAlign (
  all_cons slots_v17_Round (
  all_cons slots_v17_STFT (
  all_cons slots_v17_Scan (
  all_cons slots_v17_ScatterElements (
  all_cons slots_v17_ScatterND (
  all_cons slots_v17_Selu (
  all_cons slots_v17_SequenceAt (
  all_cons slots_v17_SequenceConstruct (
  all_cons slots_v17_SequenceEmpty (
  all_cons slots_v17_SequenceErase (
  all_cons slots_v17_SequenceInsert (
  all_cons slots_v17_SequenceLength (
  all_cons slots_v17_SequenceMap (
  all_cons slots_v17_Shape (
  all_cons slots_v17_Shrink (
  all_cons slots_v17_Sigmoid (
  all_cons slots_v17_Sign (
  all_cons slots_v17_Sin (
  all_cons slots_v17_Sinh (
  all_cons slots_v17_Size (
  all_cons slots_v17_Slice (
  all_cons slots_v17_Softmax (
  all_cons slots_v17_SoftmaxCrossEntropyLoss (
  all_cons slots_v17_Softplus (
  all_cons slots_v17_Softsign (
  all_cons slots_v17_SpaceToDepth (
  all_cons slots_v17_Split (
  all_cons slots_v17_SplitToSequence (
  all_cons slots_v17_Sqrt (
  all_cons slots_v17_Squeeze (
  all_cons slots_v17_StringNormalizer (
  all_cons slots_v17_Sub (
  all_cons slots_v17_Sum (
  all_cons slots_v17_Tan (
  all_cons slots_v17_Tanh (
  all_cons slots_v17_TfIdfVectorizer (
  all_cons slots_v17_ThresholdedRelu (
  all_cons slots_v17_Tile (
  all_cons slots_v17_TopK (
  all_cons slots_v17_Transpose (
  all_cons slots_v17_Trilu (
  all_cons slots_v17_Unique (
  all_cons slots_v17_Unsqueeze (
  all_cons slots_v17_Where (
  all_cons slots_v17_Xor (
  all_nil))))))))))))))))))))))))))))))))))))))))))))))))))))))))))))))))))))))))))))))))))))))))))))))))))))))))))))))))))))))))))))))))))))))))))))))))))))))))))))))))))))))))))))))))

theorem table_slots : ∀ e ∈ allEntries, slotOK e = true :=
  fun e he => List.all_eq_true.mp slots_all e he

/-- pairs with listed deviations (known findings), each with what is excepted -/
def deviating : List (List String × Entry) :=
  [
   (["sparse_value"], ("v17._Constant", Generated.Ctors.v17.f_constant, Generated.Schemas.v17.s_Constant_13))]

theorem deviating_conforms : ∀ d ∈ deviating, entryOKExcept d.1 d.2 = true := by decide +kernel

end Generated.Conforms.v17
