-- GENERATED from src/spox/opset/ai/onnx/v*.py and tools/generate_opset.py by translator/subgraph_specs.py on every run; do not edit.

import SpoxModel.Model.Subgraph

namespace Generated.SubgraphSpecs
open Subgraph

/-- `v17.if_` -/
def v17_if_ : CtorSpec :=
  ⟨[("else_branch", .empty), ("then_branch", .empty)], "else_branch", 0⟩

/-- `v17.loop` -/
def v17_loop : CtorSpec :=
  ⟨[("body", (.append (.lit [(.const (.tensor 7 (some [.n 1]))), (.const (.tensor 9 (some [.n 1])))]) (.comp (.unwrapType .loopVar) ⟨"v_initial", none, none⟩)))], "body", 1⟩

/-- `v17.scan` -/
def v17_scan : CtorSpec :=
  ⟨[("body", (.append (.comp (.unwrapTensor .loopVar) ⟨"initial_state_and_scan_inputs", none, (some (.sub (.len "initial_state_and_scan_inputs") (.param "num_scan_inputs")))⟩) (.comp (.tensorOf (.unwrapTensor .loopVar) (.sliceIfKnown (some 1) none)) ⟨"initial_state_and_scan_inputs", (some (.sub (.len "initial_state_and_scan_inputs") (.param "num_scan_inputs"))), none⟩)))], "body", 0⟩

/-- `v17.sequence_map` -/
def v17_sequence_map : CtorSpec :=
  ⟨[("body", (.append (.lit [(.elemType (.unwrapType (.single "input_sequence")))]) (.comp (.ifSeq (.unwrapType .loopVar) (.elemType (.unwrapType .loopVar)) (.unwrapType .loopVar)) ⟨"additional_inputs", none, none⟩)))], "body", 0⟩

/-- `v19.if_` -/
def v19_if_ : CtorSpec :=
  ⟨[("else_branch", .empty), ("then_branch", .empty)], "else_branch", 0⟩

/-- `v19.loop` -/
def v19_loop : CtorSpec :=
  ⟨[("body", (.append (.lit [(.const (.tensor 7 (some [.n 1]))), (.const (.tensor 9 (some [.n 1])))]) (.comp (.unwrapType .loopVar) ⟨"v_initial", none, none⟩)))], "body", 1⟩

/-- `v19.scan` -/
def v19_scan : CtorSpec :=
  ⟨[("body", (.append (.comp (.unwrapTensor .loopVar) ⟨"initial_state_and_scan_inputs", none, (some (.sub (.len "initial_state_and_scan_inputs") (.param "num_scan_inputs")))⟩) (.comp (.tensorOf (.unwrapTensor .loopVar) (.sliceIfKnown (some 1) none)) ⟨"initial_state_and_scan_inputs", (some (.sub (.len "initial_state_and_scan_inputs") (.param "num_scan_inputs"))), none⟩)))], "body", 0⟩

/-- `v21.if_` -/
def v21_if_ : CtorSpec :=
  ⟨[("else_branch", .empty), ("then_branch", .empty)], "else_branch", 0⟩

/-- `v21.loop` -/
def v21_loop : CtorSpec :=
  ⟨[("body", (.append (.lit [(.const (.tensor 7 (some [.n 1]))), (.const (.tensor 9 (some [.n 1])))]) (.comp (.unwrapType .loopVar) ⟨"v_initial", none, none⟩)))], "body", 1⟩

/-- `v21.scan` -/
def v21_scan : CtorSpec :=
  ⟨[("body", (.append (.comp (.unwrapTensor .loopVar) ⟨"initial_state_and_scan_inputs", none, (some (.sub (.len "initial_state_and_scan_inputs") (.param "num_scan_inputs")))⟩) (.comp (.tensorOf (.unwrapTensor .loopVar) (.sliceIfKnown (some 1) none)) ⟨"initial_state_and_scan_inputs", (some (.sub (.len "initial_state_and_scan_inputs") (.param "num_scan_inputs"))), none⟩)))], "body", 0⟩

/-- source strings for `if_` in tools/generate_opset.py -/
def gen_if_ : CtorSpec :=
  ⟨[("else_branch", .empty), ("then_branch", .empty)], "else_branch", 0⟩

/-- source strings for `loop` in tools/generate_opset.py -/
def gen_loop : CtorSpec :=
  ⟨[("body", (.append (.lit [(.const (.tensor 7 (some [.n 1]))), (.const (.tensor 9 (some [.n 1])))]) (.comp (.unwrapType .loopVar) ⟨"v_initial", none, none⟩)))], "body", 1⟩

/-- source strings for `scan` in tools/generate_opset.py -/
def gen_scan : CtorSpec :=
  ⟨[("body", (.append (.comp (.unwrapTensor .loopVar) ⟨"initial_state_and_scan_inputs", none, (some (.sub (.len "initial_state_and_scan_inputs") (.param "num_scan_inputs")))⟩) (.comp (.tensorOf (.unwrapTensor .loopVar) (.sliceIfKnown (some 1) none)) ⟨"initial_state_and_scan_inputs", (some (.sub (.len "initial_state_and_scan_inputs") (.param "num_scan_inputs"))), none⟩)))], "body", 0⟩

/-- source strings for `sequence_map` in tools/generate_opset.py -/
def gen_sequence_map : CtorSpec :=
  ⟨[("body", (.append (.lit [(.elemType (.unwrapType (.single "input_sequence")))]) (.comp (.ifSeq (.unwrapType .loopVar) (.elemType (.unwrapType .loopVar)) (.unwrapType .loopVar)) ⟨"additional_inputs", none, none⟩)))], "body", 0⟩

/-- (module, constructor, spec) for every function that calls `subgraph` -/
def table : List (String × String × CtorSpec) :=
  [("v17", "if_", v17_if_), ("v17", "loop", v17_loop), ("v17", "scan", v17_scan), ("v17", "sequence_map", v17_sequence_map), ("v19", "if_", v19_if_), ("v19", "loop", v19_loop), ("v19", "scan", v19_scan), ("v21", "if_", v21_if_), ("v21", "loop", v21_loop), ("v21", "scan", v21_scan)]

def genTable : List (String × CtorSpec) :=
  [("if_", gen_if_), ("loop", gen_loop), ("scan", gen_scan), ("sequence_map", gen_sequence_map)]

/-- (shipped module, constructor, module that defines it) — resolved by import -/
def resolves : List (String × String × String) :=
  [("v17", "if_", "v17"), ("v17", "loop", "v17"), ("v17", "scan", "v17"), ("v17", "sequence_map", "v17"), ("v18", "if_", "v17"), ("v18", "loop", "v17"), ("v18", "scan", "v17"), ("v18", "sequence_map", "v17"), ("v19", "if_", "v19"), ("v19", "loop", "v19"), ("v19", "scan", "v19"), ("v19", "sequence_map", "v17"), ("v20", "if_", "v19"), ("v20", "loop", "v19"), ("v20", "scan", "v19"), ("v20", "sequence_map", "v17"), ("v21", "if_", "v21"), ("v21", "loop", "v21"), ("v21", "scan", "v21"), ("v21", "sequence_map", "v17")]

end Generated.SubgraphSpecs
