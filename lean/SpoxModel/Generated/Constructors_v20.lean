-- GENERATED from src/spox/opset/ai/onnx/v20.py by translator/constructors.py on every run; do not edit.
import SpoxModel.Model.Conform
import SpoxModel.Generated.Constructors_v19
namespace Generated.Ctors.v20
open Conform

def cls_AffineGrid : ClassSig :=
  { pyName := "v20._AffineGrid", base := "StandardNode", opName := "AffineGrid", domain := "", version := 20,
    inputs := [("theta", .single), ("size", .single)],
    outputs := [("grid", .single)],
    attrs := [⟨"align_corners", .int, false⟩] }

def cls_ConstantOfShape : ClassSig :=
  { pyName := "v20._ConstantOfShape", base := "StandardNode", opName := "ConstantOfShape", domain := "", version := 20,
    inputs := [("input", .single)],
    outputs := [("output", .single)],
    attrs := [⟨"value", .tensor, true⟩] }

def cls_DFT : ClassSig :=
  { pyName := "v20._DFT", base := "StandardNode", opName := "DFT", domain := "", version := 20,
    inputs := [("input", .single), ("dft_length", .optional), ("axis", .optional)],
    outputs := [("output", .single)],
    attrs := [⟨"inverse", .int, false⟩, ⟨"onesided", .int, false⟩] }

def cls_Gelu : ClassSig :=
  { pyName := "v20._Gelu", base := "StandardNode", opName := "Gelu", domain := "", version := 20,
    inputs := [("X", .single)],
    outputs := [("Y", .single)],
    attrs := [⟨"approximate", .string, false⟩] }

def cls_GridSample : ClassSig :=
  { pyName := "v20._GridSample", base := "StandardNode", opName := "GridSample", domain := "", version := 20,
    inputs := [("X", .single), ("grid", .single)],
    outputs := [("Y", .single)],
    attrs := [⟨"align_corners", .int, false⟩, ⟨"mode", .string, false⟩, ⟨"padding_mode", .string, false⟩] }

def cls_ImageDecoder : ClassSig :=
  { pyName := "v20._ImageDecoder", base := "StandardNode", opName := "ImageDecoder", domain := "", version := 20,
    inputs := [("encoded_stream", .single)],
    outputs := [("image", .single)],
    attrs := [⟨"pixel_format", .string, false⟩] }

def cls_IsInf : ClassSig :=
  { pyName := "v20._IsInf", base := "StandardNode", opName := "IsInf", domain := "", version := 20,
    inputs := [("X", .single)],
    outputs := [("Y", .single)],
    attrs := [⟨"detect_negative", .int, false⟩, ⟨"detect_positive", .int, false⟩] }

def cls_IsNaN : ClassSig :=
  { pyName := "v20._IsNaN", base := "StandardNode", opName := "IsNaN", domain := "", version := 20,
    inputs := [("X", .single)],
    outputs := [("Y", .single)],
    attrs := [] }

def cls_ReduceMax : ClassSig :=
  { pyName := "v20._ReduceMax", base := "StandardNode", opName := "ReduceMax", domain := "", version := 20,
    inputs := [("data", .single), ("axes", .optional)],
    outputs := [("reduced", .single)],
    attrs := [⟨"keepdims", .int, false⟩, ⟨"noop_with_empty_axes", .int, false⟩] }

def cls_ReduceMin : ClassSig :=
  { pyName := "v20._ReduceMin", base := "StandardNode", opName := "ReduceMin", domain := "", version := 20,
    inputs := [("data", .single), ("axes", .optional)],
    outputs := [("reduced", .single)],
    attrs := [⟨"keepdims", .int, false⟩, ⟨"noop_with_empty_axes", .int, false⟩] }

def cls_RegexFullMatch : ClassSig :=
  { pyName := "v20._RegexFullMatch", base := "StandardNode", opName := "RegexFullMatch", domain := "", version := 20,
    inputs := [("X", .single)],
    outputs := [("Y", .single)],
    attrs := [⟨"pattern", .string, true⟩] }

def cls_StringConcat : ClassSig :=
  { pyName := "v20._StringConcat", base := "StandardNode", opName := "StringConcat", domain := "", version := 20,
    inputs := [("X", .single), ("Y", .single)],
    outputs := [("Z", .single)],
    attrs := [] }

def cls_StringSplit : ClassSig :=
  { pyName := "v20._StringSplit", base := "StandardNode", opName := "StringSplit", domain := "", version := 20,
    inputs := [("X", .single)],
    outputs := [("Y", .single), ("Z", .single)],
    attrs := [⟨"delimiter", .string, true⟩, ⟨"maxsplit", .int, true⟩] }

def f_affine_grid : Ctor :=
  { pyName := "v20.affine_grid", cls := Generated.Ctors.v20.cls_AffineGrid,
    params := [⟨"theta", false, .var, none⟩, ⟨"size", false, .var, none⟩, ⟨"align_corners", true, .attr, some (Val.int 0)⟩],
    attrWires := [⟨"align_corners", .int, false, "align_corners", "align_corners", false⟩],
    inputWires := [("theta", "theta"), ("size", "size")],
    outVar := .none, ret := .field "grid" }

def f_constant_of_shape : Ctor :=
  { pyName := "v20.constant_of_shape", cls := Generated.Ctors.v20.cls_ConstantOfShape,
    params := [⟨"input", false, .var, none⟩, ⟨"value", true, .attr, some Val.none⟩],
    attrWires := [⟨"value", .tensor, true, "value", "value", false⟩],
    inputWires := [("input", "input")],
    outVar := .none, ret := .field "output" }

def f_dft : Ctor :=
  { pyName := "v20.dft", cls := Generated.Ctors.v20.cls_DFT,
    params := [⟨"input", false, .var, none⟩, ⟨"dft_length", false, .optVar, some Val.none⟩, ⟨"axis", false, .optVar, some Val.none⟩, ⟨"inverse", true, .attr, some (Val.int 0)⟩, ⟨"onesided", true, .attr, some (Val.int 0)⟩],
    attrWires := [⟨"inverse", .int, false, "inverse", "inverse", false⟩, ⟨"onesided", .int, false, "onesided", "onesided", false⟩],
    inputWires := [("input", "input"), ("dft_length", "dft_length"), ("axis", "axis")],
    outVar := .none, ret := .field "output" }

def f_gelu : Ctor :=
  { pyName := "v20.gelu", cls := Generated.Ctors.v20.cls_Gelu,
    params := [⟨"X", false, .var, none⟩, ⟨"approximate", true, .attr, some (Val.str "none")⟩],
    attrWires := [⟨"approximate", .string, false, "approximate", "approximate", false⟩],
    inputWires := [("X", "X")],
    outVar := .none, ret := .field "Y" }

def f_grid_sample : Ctor :=
  { pyName := "v20.grid_sample", cls := Generated.Ctors.v20.cls_GridSample,
    params := [⟨"X", false, .var, none⟩, ⟨"grid", false, .var, none⟩, ⟨"align_corners", true, .attr, some (Val.int 0)⟩, ⟨"mode", true, .attr, some (Val.str "linear")⟩, ⟨"padding_mode", true, .attr, some (Val.str "zeros")⟩],
    attrWires := [⟨"align_corners", .int, false, "align_corners", "align_corners", false⟩, ⟨"mode", .string, false, "mode", "mode", false⟩, ⟨"padding_mode", .string, false, "padding_mode", "padding_mode", false⟩],
    inputWires := [("X", "X"), ("grid", "grid")],
    outVar := .none, ret := .field "Y" }

def f_image_decoder : Ctor :=
  { pyName := "v20.image_decoder", cls := Generated.Ctors.v20.cls_ImageDecoder,
    params := [⟨"encoded_stream", false, .var, none⟩, ⟨"pixel_format", true, .attr, some (Val.str "RGB")⟩],
    attrWires := [⟨"pixel_format", .string, false, "pixel_format", "pixel_format", false⟩],
    inputWires := [("encoded_stream", "encoded_stream")],
    outVar := .none, ret := .field "image" }

def f_isinf : Ctor :=
  { pyName := "v20.isinf", cls := Generated.Ctors.v20.cls_IsInf,
    params := [⟨"X", false, .var, none⟩, ⟨"detect_negative", true, .attr, some (Val.int 1)⟩, ⟨"detect_positive", true, .attr, some (Val.int 1)⟩],
    attrWires := [⟨"detect_negative", .int, false, "detect_negative", "detect_negative", false⟩, ⟨"detect_positive", .int, false, "detect_positive", "detect_positive", false⟩],
    inputWires := [("X", "X")],
    outVar := .none, ret := .field "Y" }

def f_isnan : Ctor :=
  { pyName := "v20.isnan", cls := Generated.Ctors.v20.cls_IsNaN,
    params := [⟨"X", false, .var, none⟩],
    attrWires := [],
    inputWires := [("X", "X")],
    outVar := .none, ret := .field "Y" }

def f_reduce_max : Ctor :=
  { pyName := "v20.reduce_max", cls := Generated.Ctors.v20.cls_ReduceMax,
    params := [⟨"data", false, .var, none⟩, ⟨"axes", false, .optVar, some Val.none⟩, ⟨"keepdims", true, .attr, some (Val.int 1)⟩, ⟨"noop_with_empty_axes", true, .attr, some (Val.int 0)⟩],
    attrWires := [⟨"keepdims", .int, false, "keepdims", "keepdims", false⟩, ⟨"noop_with_empty_axes", .int, false, "noop_with_empty_axes", "noop_with_empty_axes", false⟩],
    inputWires := [("data", "data"), ("axes", "axes")],
    outVar := .none, ret := .field "reduced" }

def f_reduce_min : Ctor :=
  { pyName := "v20.reduce_min", cls := Generated.Ctors.v20.cls_ReduceMin,
    params := [⟨"data", false, .var, none⟩, ⟨"axes", false, .optVar, some Val.none⟩, ⟨"keepdims", true, .attr, some (Val.int 1)⟩, ⟨"noop_with_empty_axes", true, .attr, some (Val.int 0)⟩],
    attrWires := [⟨"keepdims", .int, false, "keepdims", "keepdims", false⟩, ⟨"noop_with_empty_axes", .int, false, "noop_with_empty_axes", "noop_with_empty_axes", false⟩],
    inputWires := [("data", "data"), ("axes", "axes")],
    outVar := .none, ret := .field "reduced" }

def f_regex_full_match : Ctor :=
  { pyName := "v20.regex_full_match", cls := Generated.Ctors.v20.cls_RegexFullMatch,
    params := [⟨"X", false, .var, none⟩, ⟨"pattern", true, .attr, some Val.none⟩],
    attrWires := [⟨"pattern", .string, true, "pattern", "pattern", false⟩],
    inputWires := [("X", "X")],
    outVar := .none, ret := .field "Y" }

def f_string_concat : Ctor :=
  { pyName := "v20.string_concat", cls := Generated.Ctors.v20.cls_StringConcat,
    params := [⟨"X", false, .var, none⟩, ⟨"Y", false, .var, none⟩],
    attrWires := [],
    inputWires := [("X", "X"), ("Y", "Y")],
    outVar := .none, ret := .field "Z" }

def f_string_split : Ctor :=
  { pyName := "v20.string_split", cls := Generated.Ctors.v20.cls_StringSplit,
    params := [⟨"X", false, .var, none⟩, ⟨"delimiter", true, .attr, some Val.none⟩, ⟨"maxsplit", true, .attr, some Val.none⟩],
    attrWires := [⟨"delimiter", .string, true, "delimiter", "delimiter", false⟩, ⟨"maxsplit", .int, true, "maxsplit", "maxsplit", false⟩],
    inputWires := [("X", "X")],
    outVar := .none, ret := .unpack }

end Generated.Ctors.v20
