-- GENERATED from src/spox/opset/**/*.py by translator/ml_overrides.py on every run; do not edit.
/-! Operator classes that define their own `infer_output_types` (module, operator). -/
namespace Generated.MLOverrides

def overrides : List (String × String) :=
  [("ai.onnx.ml.v3", "ArrayFeatureExtractor"),
   ("ai.onnx.ml.v3", "Binarizer"),
   ("ai.onnx.ml.v3", "CategoryMapper"),
   ("ai.onnx.ml.v3", "Imputer"),
   ("ai.onnx.ml.v3", "LinearRegressor"),
   ("ai.onnx.ml.v3", "Normalizer"),
   ("ai.onnx.ml.v3", "OneHotEncoder"),
   ("ai.onnx.ml.v3", "Scaler"),
   ("ai.onnx.ml.v3", "TreeEnsembleClassifier"),
   ("ai.onnx.ml.v3", "TreeEnsembleRegressor"),
   ("ai.onnx.v17", "Compress"),
   ("ai.onnx.v17", "Loop")]

/-- Classes that define their own `propagate_values` (module under src/spox, class). -/
def valueOverrides : List (String × String) :=
  [("_inline", "_Inline"),
   ("_internal_op", "_Initializer"),
   ("_node", "Node"),
   ("_standard", "StandardNode"),
   ("opset.ai.onnx.v17", "_Constant"),
   ("opset.ai.onnx.v19", "_Constant"),
   ("opset.ai.onnx.v21", "_Constant")]

/-- Operators excluded from value propagation (`_NON_DETERMINISTIC_OPS`, consulted by
    `propagate_values_onnx`; empty when the guard is gone). -/
def samplingGuard : List String :=
  ["Bernoulli", "Dropout", "Multinomial", "RandomNormal", "RandomNormalLike", "RandomUniform", "RandomUniformLike"]

end Generated.MLOverrides
