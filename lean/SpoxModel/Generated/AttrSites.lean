-- GENERATED from src/spox/opset/ai/onnx/{v17..v21,ml/v3..v5}.py by translator/c10_attrsites.py on every run; do not edit.
import SpoxModel.Model.AttrSite
namespace Generated.AttrSites
open _root_.AttrSite

/-- distinct shapes of the attribute arguments of all shipped constructors: class, how it is called
    (`AttrX(p, name=…)` / `AttrX.maybe(p, name=…)`), whether the parameter is required, whether
    field = parameter = ONNX name, and how many constructor attributes have that shape -/
def shapes : List Shape := [
  ⟨"AttrDtype", .direct, false, true, 3⟩,
  ⟨"AttrDtype", .direct, true, true, 3⟩,
  ⟨"AttrDtype", .maybe, false, true, 5⟩,
  ⟨"AttrFloat32", .direct, false, true, 41⟩,
  ⟨"AttrFloat32", .maybe, false, true, 12⟩,
  ⟨"AttrFloat32s", .direct, true, true, 1⟩,
  ⟨"AttrFloat32s", .maybe, false, true, 38⟩,
  ⟨"AttrGraph", .direct, true, true, 13⟩,
  ⟨"AttrInt64", .direct, false, true, 159⟩,
  ⟨"AttrInt64", .direct, true, true, 13⟩,
  ⟨"AttrInt64", .maybe, false, true, 18⟩,
  ⟨"AttrInt64s", .direct, false, true, 1⟩,
  ⟨"AttrInt64s", .direct, true, true, 18⟩,
  ⟨"AttrInt64s", .maybe, false, true, 103⟩,
  ⟨"AttrString", .direct, false, true, 58⟩,
  ⟨"AttrString", .direct, true, true, 3⟩,
  ⟨"AttrString", .maybe, false, true, 6⟩,
  ⟨"AttrStrings", .direct, false, true, 1⟩,
  ⟨"AttrStrings", .maybe, false, true, 20⟩,
  ⟨"AttrTensor", .direct, true, true, 3⟩,
  ⟨"AttrTensor", .maybe, false, true, 19⟩,
  ⟨"AttrType", .maybe, false, true, 1⟩
]

/-- attribute arguments that are not of one of the two forms (wrapped, pre-iterated, computed) -/
def irregular : List String := []

/-- list-attribute parameters read more than once in a constructor body (a one-shot iterable would be
    exhausted by the first reader) -/
def multiUse : List String := []

/-- attribute rows per module (5 x ai.onnx, 3 x ai.onnx.ml; only what the module itself defines) -/
def perModule : List (String × Nat) := [("v17", 261), ("v18", 46), ("v19", 48), ("v20", 18), ("v21", 35), ("ml_v3", 103), ("ml_v4", 12), ("ml_v5", 16)]

/-- every constructor parameter typed `Sequence[Var]` (variadic input) of the 8 modules: (module.constructor.parameter,
    handed to the `Inputs` dataclass as a bare parameter) - a bare one lands in `BaseVars.__post_init__` (capture row
    `BaseVars.variadic`); anything else (wrapped, filtered, not handed on) is listed with `false` -/
def variadics : List (String × Bool) := [
  ("v17.concat.inputs", true),
  ("v17.einsum.Inputs", true),
  ("v17.loop.v_initial", true),
  ("v17.max.data_0", true),
  ("v17.mean.data_0", true),
  ("v17.min.data_0", true),
  ("v17.scan.initial_state_and_scan_inputs", true),
  ("v17.sequence_construct.inputs", true),
  ("v17.sequence_map.additional_inputs", true),
  ("v17.sum.data_0", true),
  ("v19.loop.v_initial", true),
  ("v19.scan.initial_state_and_scan_inputs", true),
  ("v21.loop.v_initial", true),
  ("v21.scan.initial_state_and_scan_inputs", true),
  ("ml_v3.feature_vectorizer.X", true)
]

/-- live cross-check (inspect.signature + dataclass fields of the imported modules) disagreements -/
def liveMismatches : List String := []

/-- observed on this run with an instrumented re-iterable caller object: the passes each list-attribute entry
    point (class, form) and the variadic input field make over the caller's iterable -/
def iterPasses : List IterRow := [
  ⟨"AttrInt64s", .direct, [.full]⟩,
  ⟨"AttrInt64s", .maybe, [.full]⟩,
  ⟨"AttrFloat32s", .direct, [.full]⟩,
  ⟨"AttrFloat32s", .maybe, [.full]⟩,
  ⟨"AttrStrings", .direct, [.full]⟩,
  ⟨"AttrStrings", .maybe, [.full]⟩,
  ⟨"AttrTensors", .direct, [.full]⟩,
  ⟨"AttrTensors", .maybe, [.full]⟩,
  ⟨"BaseVars.variadic", .direct, [.full]⟩
]

/-- from the source text: upper bound over all paths of the reads of the caller's `value` in the list-attribute
    constructors (reads after `value = …`, inside `isinstance(value, …)` and `value is None` do not count) -/
def callerLoads : List (String × Nat) := [("_AttrIterable.__init__", 1), ("_AttrIterable.maybe", 1), ("AttrTensors.__init__", 1)]

/-- observed on this run: the list classes keep a reference (`_Ref`) handed to `AttrX(...)` / `AttrX.maybe(...)` -/
def keepsRef : List (String × Form × Bool) := [("AttrInt64s", .direct, true), ("AttrInt64s", .maybe, true), ("AttrFloat32s", .direct, true), ("AttrFloat32s", .maybe, true), ("AttrStrings", .direct, true), ("AttrStrings", .maybe, true), ("AttrTensors", .direct, true), ("AttrTensors", .maybe, true)]

end Generated.AttrSites
