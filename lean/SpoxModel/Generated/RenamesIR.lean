-- GENERATED from src/spox/_public.py by translator/renames_ir.py on every run; do not edit.

import SpoxModel.Model.Renames

namespace Generated.RenamesIR
open Renames

/-- `_temporary_renames` -/
def ir : List Stmt := [.initPre, .tryFinally [.forKw [.recordFirst, .renameToKey], .yield_] [.forPre [.renameToSaved]]]

end Generated.RenamesIR
