-- GENERATED from src/spox/opset/ai/onnx/v17.py by translator/constructors.py on every run; do not edit.
import SpoxModel.Model.Conform
namespace Generated.Ctors.v17
open Conform

def cls_Abs : ClassSig :=
  { pyName := "v17._Abs", base := "StandardNode", opName := "Abs", domain := "", version := 13,
    inputs := [("X", .single)],
    outputs := [("Y", .single)],
    attrs := [] }

def cls_Acos : ClassSig :=
  { pyName := "v17._Acos", base := "StandardNode", opName := "Acos", domain := "", version := 7,
    inputs := [("input", .single)],
    outputs := [("output", .single)],
    attrs := [] }

def cls_Acosh : ClassSig :=
  { pyName := "v17._Acosh", base := "StandardNode", opName := "Acosh", domain := "", version := 9,
    inputs := [("input", .single)],
    outputs := [("output", .single)],
    attrs := [] }

def cls_Add : ClassSig :=
  { pyName := "v17._Add", base := "StandardNode", opName := "Add", domain := "", version := 14,
    inputs := [("A", .single), ("B", .single)],
    outputs := [("C", .single)],
    attrs := [] }

def cls_And : ClassSig :=
  { pyName := "v17._And", base := "StandardNode", opName := "And", domain := "", version := 7,
    inputs := [("A", .single), ("B", .single)],
    outputs := [("C", .single)],
    attrs := [] }

def cls_ArgMax : ClassSig :=
  { pyName := "v17._ArgMax", base := "StandardNode", opName := "ArgMax", domain := "", version := 13,
    inputs := [("data", .single)],
    outputs := [("reduced", .single)],
    attrs := [⟨"axis", .int, false⟩, ⟨"keepdims", .int, false⟩, ⟨"select_last_index", .int, false⟩] }

def cls_ArgMin : ClassSig :=
  { pyName := "v17._ArgMin", base := "StandardNode", opName := "ArgMin", domain := "", version := 13,
    inputs := [("data", .single)],
    outputs := [("reduced", .single)],
    attrs := [⟨"axis", .int, false⟩, ⟨"keepdims", .int, false⟩, ⟨"select_last_index", .int, false⟩] }

def cls_Asin : ClassSig :=
  { pyName := "v17._Asin", base := "StandardNode", opName := "Asin", domain := "", version := 7,
    inputs := [("input", .single)],
    outputs := [("output", .single)],
    attrs := [] }

def cls_Asinh : ClassSig :=
  { pyName := "v17._Asinh", base := "StandardNode", opName := "Asinh", domain := "", version := 9,
    inputs := [("input", .single)],
    outputs := [("output", .single)],
    attrs := [] }

def cls_Atan : ClassSig :=
  { pyName := "v17._Atan", base := "StandardNode", opName := "Atan", domain := "", version := 7,
    inputs := [("input", .single)],
    outputs := [("output", .single)],
    attrs := [] }

def cls_Atanh : ClassSig :=
  { pyName := "v17._Atanh", base := "StandardNode", opName := "Atanh", domain := "", version := 9,
    inputs := [("input", .single)],
    outputs := [("output", .single)],
    attrs := [] }

def cls_AveragePool : ClassSig :=
  { pyName := "v17._AveragePool", base := "StandardNode", opName := "AveragePool", domain := "", version := 11,
    inputs := [("X", .single)],
    outputs := [("Y", .single)],
    attrs := [⟨"auto_pad", .string, false⟩, ⟨"ceil_mode", .int, false⟩, ⟨"count_include_pad", .int, false⟩, ⟨"kernel_shape", .ints, false⟩, ⟨"pads", .ints, true⟩, ⟨"strides", .ints, true⟩] }

def cls_BatchNormalization : ClassSig :=
  { pyName := "v17._BatchNormalization", base := "StandardNode", opName := "BatchNormalization", domain := "", version := 15,
    inputs := [("X", .single), ("scale", .single), ("B", .single), ("input_mean", .single), ("input_var", .single)],
    outputs := [("Y", .single), ("running_mean", .optional), ("running_var", .optional)],
    attrs := [⟨"epsilon", .float, false⟩, ⟨"momentum", .float, false⟩, ⟨"training_mode", .int, false⟩] }

def cls_Bernoulli : ClassSig :=
  { pyName := "v17._Bernoulli", base := "StandardNode", opName := "Bernoulli", domain := "", version := 15,
    inputs := [("input", .single)],
    outputs := [("output", .single)],
    attrs := [⟨"dtype", .dtype, true⟩, ⟨"seed", .float, true⟩] }

def cls_BitShift : ClassSig :=
  { pyName := "v17._BitShift", base := "StandardNode", opName := "BitShift", domain := "", version := 11,
    inputs := [("X", .single), ("Y", .single)],
    outputs := [("Z", .single)],
    attrs := [⟨"direction", .string, false⟩] }

def cls_BlackmanWindow : ClassSig :=
  { pyName := "v17._BlackmanWindow", base := "StandardNode", opName := "BlackmanWindow", domain := "", version := 17,
    inputs := [("size", .single)],
    outputs := [("output", .single)],
    attrs := [⟨"output_datatype", .int, false⟩, ⟨"periodic", .int, false⟩] }

def cls_Cast : ClassSig :=
  { pyName := "v17._Cast", base := "StandardNode", opName := "Cast", domain := "", version := 13,
    inputs := [("input", .single)],
    outputs := [("output", .single)],
    attrs := [⟨"to", .dtype, false⟩] }

def cls_CastLike : ClassSig :=
  { pyName := "v17._CastLike", base := "StandardNode", opName := "CastLike", domain := "", version := 15,
    inputs := [("input", .single), ("target_type", .single)],
    outputs := [("output", .single)],
    attrs := [] }

def cls_Ceil : ClassSig :=
  { pyName := "v17._Ceil", base := "StandardNode", opName := "Ceil", domain := "", version := 13,
    inputs := [("X", .single)],
    outputs := [("Y", .single)],
    attrs := [] }

def cls_Celu : ClassSig :=
  { pyName := "v17._Celu", base := "StandardNode", opName := "Celu", domain := "", version := 12,
    inputs := [("X", .single)],
    outputs := [("Y", .single)],
    attrs := [⟨"alpha", .float, false⟩] }

def cls_Clip : ClassSig :=
  { pyName := "v17._Clip", base := "StandardNode", opName := "Clip", domain := "", version := 13,
    inputs := [("input", .single), ("min", .optional), ("max", .optional)],
    outputs := [("output", .single)],
    attrs := [] }

def cls_Compress : ClassSig :=
  { pyName := "v17._Compress", base := "StandardNode", opName := "Compress", domain := "", version := 11,
    inputs := [("input", .single), ("condition", .single)],
    outputs := [("output", .single)],
    attrs := [⟨"axis", .int, true⟩] }

def cls_Concat : ClassSig :=
  { pyName := "v17._Concat", base := "StandardNode", opName := "Concat", domain := "", version := 13,
    inputs := [("inputs", .variadic)],
    outputs := [("concat_result", .single)],
    attrs := [⟨"axis", .int, false⟩] }

def cls_ConcatFromSequence : ClassSig :=
  { pyName := "v17._ConcatFromSequence", base := "StandardNode", opName := "ConcatFromSequence", domain := "", version := 11,
    inputs := [("input_sequence", .single)],
    outputs := [("concat_result", .single)],
    attrs := [⟨"axis", .int, false⟩, ⟨"new_axis", .int, false⟩] }

def cls_Constant : ClassSig :=
  { pyName := "v17._Constant", base := "StandardNode", opName := "Constant", domain := "", version := 13,
    inputs := [],
    outputs := [("output", .single)],
    attrs := [⟨"value", .tensor, true⟩, ⟨"value_float", .float, true⟩, ⟨"value_floats", .floats, true⟩, ⟨"value_int", .int, true⟩, ⟨"value_ints", .ints, true⟩, ⟨"value_string", .string, true⟩, ⟨"value_strings", .strings, true⟩] }

def cls_ConstantOfShape : ClassSig :=
  { pyName := "v17._ConstantOfShape", base := "StandardNode", opName := "ConstantOfShape", domain := "", version := 9,
    inputs := [("input", .single)],
    outputs := [("output", .single)],
    attrs := [⟨"value", .tensor, true⟩] }

def cls_Conv : ClassSig :=
  { pyName := "v17._Conv", base := "StandardNode", opName := "Conv", domain := "", version := 11,
    inputs := [("X", .single), ("W", .single), ("B", .optional)],
    outputs := [("Y", .single)],
    attrs := [⟨"auto_pad", .string, false⟩, ⟨"dilations", .ints, true⟩, ⟨"group", .int, false⟩, ⟨"kernel_shape", .ints, true⟩, ⟨"pads", .ints, true⟩, ⟨"strides", .ints, true⟩] }

def cls_ConvInteger : ClassSig :=
  { pyName := "v17._ConvInteger", base := "StandardNode", opName := "ConvInteger", domain := "", version := 10,
    inputs := [("x", .single), ("w", .single), ("x_zero_point", .optional), ("w_zero_point", .optional)],
    outputs := [("y", .single)],
    attrs := [⟨"auto_pad", .string, false⟩, ⟨"dilations", .ints, true⟩, ⟨"group", .int, false⟩, ⟨"kernel_shape", .ints, true⟩, ⟨"pads", .ints, true⟩, ⟨"strides", .ints, true⟩] }

def cls_ConvTranspose : ClassSig :=
  { pyName := "v17._ConvTranspose", base := "StandardNode", opName := "ConvTranspose", domain := "", version := 11,
    inputs := [("X", .single), ("W", .single), ("B", .optional)],
    outputs := [("Y", .single)],
    attrs := [⟨"auto_pad", .string, false⟩, ⟨"dilations", .ints, true⟩, ⟨"group", .int, false⟩, ⟨"kernel_shape", .ints, true⟩, ⟨"output_padding", .ints, true⟩, ⟨"output_shape", .ints, true⟩, ⟨"pads", .ints, true⟩, ⟨"strides", .ints, true⟩] }

def cls_Cos : ClassSig :=
  { pyName := "v17._Cos", base := "StandardNode", opName := "Cos", domain := "", version := 7,
    inputs := [("input", .single)],
    outputs := [("output", .single)],
    attrs := [] }

def cls_Cosh : ClassSig :=
  { pyName := "v17._Cosh", base := "StandardNode", opName := "Cosh", domain := "", version := 9,
    inputs := [("input", .single)],
    outputs := [("output", .single)],
    attrs := [] }

def cls_CumSum : ClassSig :=
  { pyName := "v17._CumSum", base := "StandardNode", opName := "CumSum", domain := "", version := 14,
    inputs := [("x", .single), ("axis", .single)],
    outputs := [("y", .single)],
    attrs := [⟨"exclusive", .int, false⟩, ⟨"reverse", .int, false⟩] }

def cls_DFT : ClassSig :=
  { pyName := "v17._DFT", base := "StandardNode", opName := "DFT", domain := "", version := 17,
    inputs := [("input", .single), ("dft_length", .optional)],
    outputs := [("output", .single)],
    attrs := [⟨"axis", .int, false⟩, ⟨"inverse", .int, false⟩, ⟨"onesided", .int, false⟩] }

def cls_DepthToSpace : ClassSig :=
  { pyName := "v17._DepthToSpace", base := "StandardNode", opName := "DepthToSpace", domain := "", version := 13,
    inputs := [("input", .single)],
    outputs := [("output", .single)],
    attrs := [⟨"blocksize", .int, false⟩, ⟨"mode", .string, false⟩] }

def cls_DequantizeLinear : ClassSig :=
  { pyName := "v17._DequantizeLinear", base := "StandardNode", opName := "DequantizeLinear", domain := "", version := 13,
    inputs := [("x", .single), ("x_scale", .single), ("x_zero_point", .optional)],
    outputs := [("y", .single)],
    attrs := [⟨"axis", .int, false⟩] }

def cls_Det : ClassSig :=
  { pyName := "v17._Det", base := "StandardNode", opName := "Det", domain := "", version := 11,
    inputs := [("X", .single)],
    outputs := [("Y", .single)],
    attrs := [] }

def cls_Div : ClassSig :=
  { pyName := "v17._Div", base := "StandardNode", opName := "Div", domain := "", version := 14,
    inputs := [("A", .single), ("B", .single)],
    outputs := [("C", .single)],
    attrs := [] }

def cls_Dropout : ClassSig :=
  { pyName := "v17._Dropout", base := "StandardNode", opName := "Dropout", domain := "", version := 13,
    inputs := [("data", .single), ("ratio", .optional), ("training_mode", .optional)],
    outputs := [("output", .single), ("mask", .optional)],
    attrs := [⟨"seed", .int, true⟩] }

def cls_DynamicQuantizeLinear : ClassSig :=
  { pyName := "v17._DynamicQuantizeLinear", base := "StandardNode", opName := "DynamicQuantizeLinear", domain := "", version := 11,
    inputs := [("x", .single)],
    outputs := [("y", .single), ("y_scale", .single), ("y_zero_point", .single)],
    attrs := [] }

def cls_Einsum : ClassSig :=
  { pyName := "v17._Einsum", base := "StandardNode", opName := "Einsum", domain := "", version := 12,
    inputs := [("Inputs", .variadic)],
    outputs := [("Output", .single)],
    attrs := [⟨"equation", .string, false⟩] }

def cls_Elu : ClassSig :=
  { pyName := "v17._Elu", base := "StandardNode", opName := "Elu", domain := "", version := 6,
    inputs := [("X", .single)],
    outputs := [("Y", .single)],
    attrs := [⟨"alpha", .float, false⟩] }

def cls_Equal : ClassSig :=
  { pyName := "v17._Equal", base := "StandardNode", opName := "Equal", domain := "", version := 13,
    inputs := [("A", .single), ("B", .single)],
    outputs := [("C", .single)],
    attrs := [] }

def cls_Erf : ClassSig :=
  { pyName := "v17._Erf", base := "StandardNode", opName := "Erf", domain := "", version := 13,
    inputs := [("input", .single)],
    outputs := [("output", .single)],
    attrs := [] }

def cls_Exp : ClassSig :=
  { pyName := "v17._Exp", base := "StandardNode", opName := "Exp", domain := "", version := 13,
    inputs := [("input", .single)],
    outputs := [("output", .single)],
    attrs := [] }

def cls_Expand : ClassSig :=
  { pyName := "v17._Expand", base := "StandardNode", opName := "Expand", domain := "", version := 13,
    inputs := [("input", .single), ("shape", .single)],
    outputs := [("output", .single)],
    attrs := [] }

def cls_EyeLike : ClassSig :=
  { pyName := "v17._EyeLike", base := "StandardNode", opName := "EyeLike", domain := "", version := 9,
    inputs := [("input", .single)],
    outputs := [("output", .single)],
    attrs := [⟨"dtype", .dtype, true⟩, ⟨"k", .int, false⟩] }

def cls_Flatten : ClassSig :=
  { pyName := "v17._Flatten", base := "StandardNode", opName := "Flatten", domain := "", version := 13,
    inputs := [("input", .single)],
    outputs := [("output", .single)],
    attrs := [⟨"axis", .int, false⟩] }

def cls_Floor : ClassSig :=
  { pyName := "v17._Floor", base := "StandardNode", opName := "Floor", domain := "", version := 13,
    inputs := [("X", .single)],
    outputs := [("Y", .single)],
    attrs := [] }

def cls_GRU : ClassSig :=
  { pyName := "v17._GRU", base := "StandardNode", opName := "GRU", domain := "", version := 14,
    inputs := [("X", .single), ("W", .single), ("R", .single), ("B", .optional), ("sequence_lens", .optional), ("initial_h", .optional)],
    outputs := [("Y", .optional), ("Y_h", .optional)],
    attrs := [⟨"activation_alpha", .floats, true⟩, ⟨"activation_beta", .floats, true⟩, ⟨"activations", .strings, true⟩, ⟨"clip", .float, true⟩, ⟨"direction", .string, false⟩, ⟨"hidden_size", .int, true⟩, ⟨"layout", .int, false⟩, ⟨"linear_before_reset", .int, false⟩] }

def cls_Gather : ClassSig :=
  { pyName := "v17._Gather", base := "StandardNode", opName := "Gather", domain := "", version := 13,
    inputs := [("data", .single), ("indices", .single)],
    outputs := [("output", .single)],
    attrs := [⟨"axis", .int, false⟩] }

def cls_GatherElements : ClassSig :=
  { pyName := "v17._GatherElements", base := "StandardNode", opName := "GatherElements", domain := "", version := 13,
    inputs := [("data", .single), ("indices", .single)],
    outputs := [("output", .single)],
    attrs := [⟨"axis", .int, false⟩] }

def cls_GatherND : ClassSig :=
  { pyName := "v17._GatherND", base := "StandardNode", opName := "GatherND", domain := "", version := 13,
    inputs := [("data", .single), ("indices", .single)],
    outputs := [("output", .single)],
    attrs := [⟨"batch_dims", .int, false⟩] }

def cls_Gemm : ClassSig :=
  { pyName := "v17._Gemm", base := "StandardNode", opName := "Gemm", domain := "", version := 13,
    inputs := [("A", .single), ("B", .single), ("C", .optional)],
    outputs := [("Y", .single)],
    attrs := [⟨"alpha", .float, false⟩, ⟨"beta", .float, false⟩, ⟨"transA", .int, false⟩, ⟨"transB", .int, false⟩] }

def cls_GlobalAveragePool : ClassSig :=
  { pyName := "v17._GlobalAveragePool", base := "StandardNode", opName := "GlobalAveragePool", domain := "", version := 1,
    inputs := [("X", .single)],
    outputs := [("Y", .single)],
    attrs := [] }

def cls_GlobalLpPool : ClassSig :=
  { pyName := "v17._GlobalLpPool", base := "StandardNode", opName := "GlobalLpPool", domain := "", version := 2,
    inputs := [("X", .single)],
    outputs := [("Y", .single)],
    attrs := [⟨"p", .int, false⟩] }

def cls_GlobalMaxPool : ClassSig :=
  { pyName := "v17._GlobalMaxPool", base := "StandardNode", opName := "GlobalMaxPool", domain := "", version := 1,
    inputs := [("X", .single)],
    outputs := [("Y", .single)],
    attrs := [] }

def cls_Greater : ClassSig :=
  { pyName := "v17._Greater", base := "StandardNode", opName := "Greater", domain := "", version := 13,
    inputs := [("A", .single), ("B", .single)],
    outputs := [("C", .single)],
    attrs := [] }

def cls_GreaterOrEqual : ClassSig :=
  { pyName := "v17._GreaterOrEqual", base := "StandardNode", opName := "GreaterOrEqual", domain := "", version := 16,
    inputs := [("A", .single), ("B", .single)],
    outputs := [("C", .single)],
    attrs := [] }

def cls_GridSample : ClassSig :=
  { pyName := "v17._GridSample", base := "StandardNode", opName := "GridSample", domain := "", version := 16,
    inputs := [("X", .single), ("grid", .single)],
    outputs := [("Y", .single)],
    attrs := [⟨"align_corners", .int, false⟩, ⟨"mode", .string, false⟩, ⟨"padding_mode", .string, false⟩] }

def cls_HammingWindow : ClassSig :=
  { pyName := "v17._HammingWindow", base := "StandardNode", opName := "HammingWindow", domain := "", version := 17,
    inputs := [("size", .single)],
    outputs := [("output", .single)],
    attrs := [⟨"output_datatype", .int, false⟩, ⟨"periodic", .int, false⟩] }

def cls_HannWindow : ClassSig :=
  { pyName := "v17._HannWindow", base := "StandardNode", opName := "HannWindow", domain := "", version := 17,
    inputs := [("size", .single)],
    outputs := [("output", .single)],
    attrs := [⟨"output_datatype", .int, false⟩, ⟨"periodic", .int, false⟩] }

def cls_HardSigmoid : ClassSig :=
  { pyName := "v17._HardSigmoid", base := "StandardNode", opName := "HardSigmoid", domain := "", version := 6,
    inputs := [("X", .single)],
    outputs := [("Y", .single)],
    attrs := [⟨"alpha", .float, false⟩, ⟨"beta", .float, false⟩] }

def cls_HardSwish : ClassSig :=
  { pyName := "v17._HardSwish", base := "StandardNode", opName := "HardSwish", domain := "", version := 14,
    inputs := [("X", .single)],
    outputs := [("Y", .single)],
    attrs := [] }

def cls_Hardmax : ClassSig :=
  { pyName := "v17._Hardmax", base := "StandardNode", opName := "Hardmax", domain := "", version := 13,
    inputs := [("input", .single)],
    outputs := [("output", .single)],
    attrs := [⟨"axis", .int, false⟩] }

def cls_Identity : ClassSig :=
  { pyName := "v17._Identity", base := "StandardNode", opName := "Identity", domain := "", version := 16,
    inputs := [("input", .single)],
    outputs := [("output", .single)],
    attrs := [] }

def cls_If : ClassSig :=
  { pyName := "v17._If", base := "StandardNode", opName := "If", domain := "", version := 16,
    inputs := [("cond", .single)],
    outputs := [("outputs", .variadic)],
    attrs := [⟨"else_branch", .graph, false⟩, ⟨"then_branch", .graph, false⟩] }

def cls_InstanceNormalization : ClassSig :=
  { pyName := "v17._InstanceNormalization", base := "StandardNode", opName := "InstanceNormalization", domain := "", version := 6,
    inputs := [("input", .single), ("scale", .single), ("B", .single)],
    outputs := [("output", .single)],
    attrs := [⟨"epsilon", .float, false⟩] }

def cls_IsInf : ClassSig :=
  { pyName := "v17._IsInf", base := "StandardNode", opName := "IsInf", domain := "", version := 10,
    inputs := [("X", .single)],
    outputs := [("Y", .single)],
    attrs := [⟨"detect_negative", .int, false⟩, ⟨"detect_positive", .int, false⟩] }

def cls_IsNaN : ClassSig :=
  { pyName := "v17._IsNaN", base := "StandardNode", opName := "IsNaN", domain := "", version := 13,
    inputs := [("X", .single)],
    outputs := [("Y", .single)],
    attrs := [] }

def cls_LRN : ClassSig :=
  { pyName := "v17._LRN", base := "StandardNode", opName := "LRN", domain := "", version := 13,
    inputs := [("X", .single)],
    outputs := [("Y", .single)],
    attrs := [⟨"alpha", .float, false⟩, ⟨"beta", .float, false⟩, ⟨"bias", .float, false⟩, ⟨"size", .int, false⟩] }

def cls_LSTM : ClassSig :=
  { pyName := "v17._LSTM", base := "StandardNode", opName := "LSTM", domain := "", version := 14,
    inputs := [("X", .single), ("W", .single), ("R", .single), ("B", .optional), ("sequence_lens", .optional), ("initial_h", .optional), ("initial_c", .optional), ("P", .optional)],
    outputs := [("Y", .optional), ("Y_h", .optional), ("Y_c", .optional)],
    attrs := [⟨"activation_alpha", .floats, true⟩, ⟨"activation_beta", .floats, true⟩, ⟨"activations", .strings, true⟩, ⟨"clip", .float, true⟩, ⟨"direction", .string, false⟩, ⟨"hidden_size", .int, true⟩, ⟨"input_forget", .int, false⟩, ⟨"layout", .int, false⟩] }

def cls_LayerNormalization : ClassSig :=
  { pyName := "v17._LayerNormalization", base := "StandardNode", opName := "LayerNormalization", domain := "", version := 17,
    inputs := [("X", .single), ("Scale", .single), ("B", .optional)],
    outputs := [("Y", .single), ("Mean", .optional), ("InvStdDev", .optional)],
    attrs := [⟨"axis", .int, false⟩, ⟨"epsilon", .float, false⟩, ⟨"stash_type", .int, false⟩] }

def cls_LeakyRelu : ClassSig :=
  { pyName := "v17._LeakyRelu", base := "StandardNode", opName := "LeakyRelu", domain := "", version := 16,
    inputs := [("X", .single)],
    outputs := [("Y", .single)],
    attrs := [⟨"alpha", .float, false⟩] }

def cls_Less : ClassSig :=
  { pyName := "v17._Less", base := "StandardNode", opName := "Less", domain := "", version := 13,
    inputs := [("A", .single), ("B", .single)],
    outputs := [("C", .single)],
    attrs := [] }

def cls_LessOrEqual : ClassSig :=
  { pyName := "v17._LessOrEqual", base := "StandardNode", opName := "LessOrEqual", domain := "", version := 16,
    inputs := [("A", .single), ("B", .single)],
    outputs := [("C", .single)],
    attrs := [] }

def cls_Log : ClassSig :=
  { pyName := "v17._Log", base := "StandardNode", opName := "Log", domain := "", version := 13,
    inputs := [("input", .single)],
    outputs := [("output", .single)],
    attrs := [] }

def cls_LogSoftmax : ClassSig :=
  { pyName := "v17._LogSoftmax", base := "StandardNode", opName := "LogSoftmax", domain := "", version := 13,
    inputs := [("input", .single)],
    outputs := [("output", .single)],
    attrs := [⟨"axis", .int, false⟩] }

def cls_Loop : ClassSig :=
  { pyName := "v17._Loop", base := "StandardNode", opName := "Loop", domain := "", version := 16,
    inputs := [("M", .optional), ("cond", .optional), ("v_initial", .variadic)],
    outputs := [("v_final_and_scan_outputs", .variadic)],
    attrs := [⟨"body", .graph, false⟩] }

def cls_LpNormalization : ClassSig :=
  { pyName := "v17._LpNormalization", base := "StandardNode", opName := "LpNormalization", domain := "", version := 1,
    inputs := [("input", .single)],
    outputs := [("output", .single)],
    attrs := [⟨"axis", .int, false⟩, ⟨"p", .int, false⟩] }

def cls_LpPool : ClassSig :=
  { pyName := "v17._LpPool", base := "StandardNode", opName := "LpPool", domain := "", version := 11,
    inputs := [("X", .single)],
    outputs := [("Y", .single)],
    attrs := [⟨"auto_pad", .string, false⟩, ⟨"kernel_shape", .ints, false⟩, ⟨"p", .int, false⟩, ⟨"pads", .ints, true⟩, ⟨"strides", .ints, true⟩] }

def cls_MatMul : ClassSig :=
  { pyName := "v17._MatMul", base := "StandardNode", opName := "MatMul", domain := "", version := 13,
    inputs := [("A", .single), ("B", .single)],
    outputs := [("Y", .single)],
    attrs := [] }

def cls_MatMulInteger : ClassSig :=
  { pyName := "v17._MatMulInteger", base := "StandardNode", opName := "MatMulInteger", domain := "", version := 10,
    inputs := [("A", .single), ("B", .single), ("a_zero_point", .optional), ("b_zero_point", .optional)],
    outputs := [("Y", .single)],
    attrs := [] }

def cls_Max : ClassSig :=
  { pyName := "v17._Max", base := "StandardNode", opName := "Max", domain := "", version := 13,
    inputs := [("data_0", .variadic)],
    outputs := [("max", .single)],
    attrs := [] }

def cls_MaxPool : ClassSig :=
  { pyName := "v17._MaxPool", base := "StandardNode", opName := "MaxPool", domain := "", version := 12,
    inputs := [("X", .single)],
    outputs := [("Y", .single), ("Indices", .optional)],
    attrs := [⟨"auto_pad", .string, false⟩, ⟨"ceil_mode", .int, false⟩, ⟨"dilations", .ints, true⟩, ⟨"kernel_shape", .ints, false⟩, ⟨"pads", .ints, true⟩, ⟨"storage_order", .int, false⟩, ⟨"strides", .ints, true⟩] }

def cls_MaxRoiPool : ClassSig :=
  { pyName := "v17._MaxRoiPool", base := "StandardNode", opName := "MaxRoiPool", domain := "", version := 1,
    inputs := [("X", .single), ("rois", .single)],
    outputs := [("Y", .single)],
    attrs := [⟨"pooled_shape", .ints, false⟩, ⟨"spatial_scale", .float, false⟩] }

def cls_MaxUnpool : ClassSig :=
  { pyName := "v17._MaxUnpool", base := "StandardNode", opName := "MaxUnpool", domain := "", version := 11,
    inputs := [("X", .single), ("I", .single), ("output_shape", .optional)],
    outputs := [("output", .single)],
    attrs := [⟨"kernel_shape", .ints, false⟩, ⟨"pads", .ints, true⟩, ⟨"strides", .ints, true⟩] }

def cls_Mean : ClassSig :=
  { pyName := "v17._Mean", base := "StandardNode", opName := "Mean", domain := "", version := 13,
    inputs := [("data_0", .variadic)],
    outputs := [("mean", .single)],
    attrs := [] }

def cls_MeanVarianceNormalization : ClassSig :=
  { pyName := "v17._MeanVarianceNormalization", base := "StandardNode", opName := "MeanVarianceNormalization", domain := "", version := 13,
    inputs := [("X", .single)],
    outputs := [("Y", .single)],
    attrs := [⟨"axes", .ints, false⟩] }

def cls_MelWeightMatrix : ClassSig :=
  { pyName := "v17._MelWeightMatrix", base := "StandardNode", opName := "MelWeightMatrix", domain := "", version := 17,
    inputs := [("num_mel_bins", .single), ("dft_length", .single), ("sample_rate", .single), ("lower_edge_hertz", .single), ("upper_edge_hertz", .single)],
    outputs := [("output", .single)],
    attrs := [⟨"output_datatype", .int, false⟩] }

def cls_Min : ClassSig :=
  { pyName := "v17._Min", base := "StandardNode", opName := "Min", domain := "", version := 13,
    inputs := [("data_0", .variadic)],
    outputs := [("min", .single)],
    attrs := [] }

def cls_Mod : ClassSig :=
  { pyName := "v17._Mod", base := "StandardNode", opName := "Mod", domain := "", version := 13,
    inputs := [("A", .single), ("B", .single)],
    outputs := [("C", .single)],
    attrs := [⟨"fmod", .int, false⟩] }

def cls_Mul : ClassSig :=
  { pyName := "v17._Mul", base := "StandardNode", opName := "Mul", domain := "", version := 14,
    inputs := [("A", .single), ("B", .single)],
    outputs := [("C", .single)],
    attrs := [] }

def cls_Multinomial : ClassSig :=
  { pyName := "v17._Multinomial", base := "StandardNode", opName := "Multinomial", domain := "", version := 7,
    inputs := [("input", .single)],
    outputs := [("output", .single)],
    attrs := [⟨"dtype", .dtype, false⟩, ⟨"sample_size", .int, false⟩, ⟨"seed", .float, true⟩] }

def cls_Neg : ClassSig :=
  { pyName := "v17._Neg", base := "StandardNode", opName := "Neg", domain := "", version := 13,
    inputs := [("X", .single)],
    outputs := [("Y", .single)],
    attrs := [] }

def cls_NegativeLogLikelihoodLoss : ClassSig :=
  { pyName := "v17._NegativeLogLikelihoodLoss", base := "StandardNode", opName := "NegativeLogLikelihoodLoss", domain := "", version := 13,
    inputs := [("input", .single), ("target", .single), ("weight", .optional)],
    outputs := [("loss", .single)],
    attrs := [⟨"ignore_index", .int, true⟩, ⟨"reduction", .string, false⟩] }

def cls_NonMaxSuppression : ClassSig :=
  { pyName := "v17._NonMaxSuppression", base := "StandardNode", opName := "NonMaxSuppression", domain := "", version := 11,
    inputs := [("boxes", .single), ("scores", .single), ("max_output_boxes_per_class", .optional), ("iou_threshold", .optional), ("score_threshold", .optional)],
    outputs := [("selected_indices", .single)],
    attrs := [⟨"center_point_box", .int, false⟩] }

def cls_NonZero : ClassSig :=
  { pyName := "v17._NonZero", base := "StandardNode", opName := "NonZero", domain := "", version := 13,
    inputs := [("X", .single)],
    outputs := [("Y", .single)],
    attrs := [] }

def cls_Not : ClassSig :=
  { pyName := "v17._Not", base := "StandardNode", opName := "Not", domain := "", version := 1,
    inputs := [("X", .single)],
    outputs := [("Y", .single)],
    attrs := [] }

def cls_OneHot : ClassSig :=
  { pyName := "v17._OneHot", base := "StandardNode", opName := "OneHot", domain := "", version := 11,
    inputs := [("indices", .single), ("depth", .single), ("values", .single)],
    outputs := [("output", .single)],
    attrs := [⟨"axis", .int, false⟩] }

def cls_Optional : ClassSig :=
  { pyName := "v17._Optional", base := "StandardNode", opName := "Optional", domain := "", version := 15,
    inputs := [("input", .optional)],
    outputs := [("output", .single)],
    attrs := [⟨"type", .type, true⟩] }

def cls_OptionalGetElement : ClassSig :=
  { pyName := "v17._OptionalGetElement", base := "StandardNode", opName := "OptionalGetElement", domain := "", version := 15,
    inputs := [("input", .single)],
    outputs := [("output", .single)],
    attrs := [] }

def cls_OptionalHasElement : ClassSig :=
  { pyName := "v17._OptionalHasElement", base := "StandardNode", opName := "OptionalHasElement", domain := "", version := 15,
    inputs := [("input", .single)],
    outputs := [("output", .single)],
    attrs := [] }

def cls_Or : ClassSig :=
  { pyName := "v17._Or", base := "StandardNode", opName := "Or", domain := "", version := 7,
    inputs := [("A", .single), ("B", .single)],
    outputs := [("C", .single)],
    attrs := [] }

def cls_PRelu : ClassSig :=
  { pyName := "v17._PRelu", base := "StandardNode", opName := "PRelu", domain := "", version := 16,
    inputs := [("X", .single), ("slope", .single)],
    outputs := [("Y", .single)],
    attrs := [] }

def cls_Pad : ClassSig :=
  { pyName := "v17._Pad", base := "StandardNode", opName := "Pad", domain := "", version := 13,
    inputs := [("data", .single), ("pads", .single), ("constant_value", .optional)],
    outputs := [("output", .single)],
    attrs := [⟨"mode", .string, false⟩] }

def cls_Pow : ClassSig :=
  { pyName := "v17._Pow", base := "StandardNode", opName := "Pow", domain := "", version := 15,
    inputs := [("X", .single), ("Y", .single)],
    outputs := [("Z", .single)],
    attrs := [] }

def cls_QLinearConv : ClassSig :=
  { pyName := "v17._QLinearConv", base := "StandardNode", opName := "QLinearConv", domain := "", version := 10,
    inputs := [("x", .single), ("x_scale", .single), ("x_zero_point", .single), ("w", .single), ("w_scale", .single), ("w_zero_point", .single), ("y_scale", .single), ("y_zero_point", .single), ("B", .optional)],
    outputs := [("y", .single)],
    attrs := [⟨"auto_pad", .string, false⟩, ⟨"dilations", .ints, true⟩, ⟨"group", .int, false⟩, ⟨"kernel_shape", .ints, true⟩, ⟨"pads", .ints, true⟩, ⟨"strides", .ints, true⟩] }

def cls_QLinearMatMul : ClassSig :=
  { pyName := "v17._QLinearMatMul", base := "StandardNode", opName := "QLinearMatMul", domain := "", version := 10,
    inputs := [("a", .single), ("a_scale", .single), ("a_zero_point", .single), ("b", .single), ("b_scale", .single), ("b_zero_point", .single), ("y_scale", .single), ("y_zero_point", .single)],
    outputs := [("y", .single)],
    attrs := [] }

def cls_QuantizeLinear : ClassSig :=
  { pyName := "v17._QuantizeLinear", base := "StandardNode", opName := "QuantizeLinear", domain := "", version := 13,
    inputs := [("x", .single), ("y_scale", .single), ("y_zero_point", .optional)],
    outputs := [("y", .single)],
    attrs := [⟨"axis", .int, false⟩] }

def cls_RNN : ClassSig :=
  { pyName := "v17._RNN", base := "StandardNode", opName := "RNN", domain := "", version := 14,
    inputs := [("X", .single), ("W", .single), ("R", .single), ("B", .optional), ("sequence_lens", .optional), ("initial_h", .optional)],
    outputs := [("Y", .optional), ("Y_h", .optional)],
    attrs := [⟨"activation_alpha", .floats, true⟩, ⟨"activation_beta", .floats, true⟩, ⟨"activations", .strings, false⟩, ⟨"clip", .float, true⟩, ⟨"direction", .string, false⟩, ⟨"hidden_size", .int, true⟩, ⟨"layout", .int, false⟩] }

def cls_RandomNormal : ClassSig :=
  { pyName := "v17._RandomNormal", base := "StandardNode", opName := "RandomNormal", domain := "", version := 1,
    inputs := [],
    outputs := [("output", .single)],
    attrs := [⟨"dtype", .dtype, false⟩, ⟨"mean", .float, false⟩, ⟨"scale", .float, false⟩, ⟨"seed", .float, true⟩, ⟨"shape", .ints, false⟩] }

def cls_RandomNormalLike : ClassSig :=
  { pyName := "v17._RandomNormalLike", base := "StandardNode", opName := "RandomNormalLike", domain := "", version := 1,
    inputs := [("input", .single)],
    outputs := [("output", .single)],
    attrs := [⟨"dtype", .dtype, true⟩, ⟨"mean", .float, false⟩, ⟨"scale", .float, false⟩, ⟨"seed", .float, true⟩] }

def cls_RandomUniform : ClassSig :=
  { pyName := "v17._RandomUniform", base := "StandardNode", opName := "RandomUniform", domain := "", version := 1,
    inputs := [],
    outputs := [("output", .single)],
    attrs := [⟨"dtype", .dtype, false⟩, ⟨"high", .float, false⟩, ⟨"low", .float, false⟩, ⟨"seed", .float, true⟩, ⟨"shape", .ints, false⟩] }

def cls_RandomUniformLike : ClassSig :=
  { pyName := "v17._RandomUniformLike", base := "StandardNode", opName := "RandomUniformLike", domain := "", version := 1,
    inputs := [("input", .single)],
    outputs := [("output", .single)],
    attrs := [⟨"dtype", .dtype, true⟩, ⟨"high", .float, false⟩, ⟨"low", .float, false⟩, ⟨"seed", .float, true⟩] }

def cls_Range : ClassSig :=
  { pyName := "v17._Range", base := "StandardNode", opName := "Range", domain := "", version := 11,
    inputs := [("start", .single), ("limit", .single), ("delta", .single)],
    outputs := [("output", .single)],
    attrs := [] }

def cls_Reciprocal : ClassSig :=
  { pyName := "v17._Reciprocal", base := "StandardNode", opName := "Reciprocal", domain := "", version := 13,
    inputs := [("X", .single)],
    outputs := [("Y", .single)],
    attrs := [] }

def cls_ReduceL1 : ClassSig :=
  { pyName := "v17._ReduceL1", base := "StandardNode", opName := "ReduceL1", domain := "", version := 13,
    inputs := [("data", .single)],
    outputs := [("reduced", .single)],
    attrs := [⟨"axes", .ints, true⟩, ⟨"keepdims", .int, false⟩] }

def cls_ReduceL2 : ClassSig :=
  { pyName := "v17._ReduceL2", base := "StandardNode", opName := "ReduceL2", domain := "", version := 13,
    inputs := [("data", .single)],
    outputs := [("reduced", .single)],
    attrs := [⟨"axes", .ints, true⟩, ⟨"keepdims", .int, false⟩] }

def cls_ReduceLogSum : ClassSig :=
  { pyName := "v17._ReduceLogSum", base := "StandardNode", opName := "ReduceLogSum", domain := "", version := 13,
    inputs := [("data", .single)],
    outputs := [("reduced", .single)],
    attrs := [⟨"axes", .ints, true⟩, ⟨"keepdims", .int, false⟩] }

def cls_ReduceLogSumExp : ClassSig :=
  { pyName := "v17._ReduceLogSumExp", base := "StandardNode", opName := "ReduceLogSumExp", domain := "", version := 13,
    inputs := [("data", .single)],
    outputs := [("reduced", .single)],
    attrs := [⟨"axes", .ints, true⟩, ⟨"keepdims", .int, false⟩] }

def cls_ReduceMax : ClassSig :=
  { pyName := "v17._ReduceMax", base := "StandardNode", opName := "ReduceMax", domain := "", version := 13,
    inputs := [("data", .single)],
    outputs := [("reduced", .single)],
    attrs := [⟨"axes", .ints, true⟩, ⟨"keepdims", .int, false⟩] }

def cls_ReduceMean : ClassSig :=
  { pyName := "v17._ReduceMean", base := "StandardNode", opName := "ReduceMean", domain := "", version := 13,
    inputs := [("data", .single)],
    outputs := [("reduced", .single)],
    attrs := [⟨"axes", .ints, true⟩, ⟨"keepdims", .int, false⟩] }

def cls_ReduceMin : ClassSig :=
  { pyName := "v17._ReduceMin", base := "StandardNode", opName := "ReduceMin", domain := "", version := 13,
    inputs := [("data", .single)],
    outputs := [("reduced", .single)],
    attrs := [⟨"axes", .ints, true⟩, ⟨"keepdims", .int, false⟩] }

def cls_ReduceProd : ClassSig :=
  { pyName := "v17._ReduceProd", base := "StandardNode", opName := "ReduceProd", domain := "", version := 13,
    inputs := [("data", .single)],
    outputs := [("reduced", .single)],
    attrs := [⟨"axes", .ints, true⟩, ⟨"keepdims", .int, false⟩] }

def cls_ReduceSum : ClassSig :=
  { pyName := "v17._ReduceSum", base := "StandardNode", opName := "ReduceSum", domain := "", version := 13,
    inputs := [("data", .single), ("axes", .optional)],
    outputs := [("reduced", .single)],
    attrs := [⟨"keepdims", .int, false⟩, ⟨"noop_with_empty_axes", .int, false⟩] }

def cls_ReduceSumSquare : ClassSig :=
  { pyName := "v17._ReduceSumSquare", base := "StandardNode", opName := "ReduceSumSquare", domain := "", version := 13,
    inputs := [("data", .single)],
    outputs := [("reduced", .single)],
    attrs := [⟨"axes", .ints, true⟩, ⟨"keepdims", .int, false⟩] }

def cls_Relu : ClassSig :=
  { pyName := "v17._Relu", base := "StandardNode", opName := "Relu", domain := "", version := 14,
    inputs := [("X", .single)],
    outputs := [("Y", .single)],
    attrs := [] }

def cls_Reshape : ClassSig :=
  { pyName := "v17._Reshape", base := "StandardNode", opName := "Reshape", domain := "", version := 14,
    inputs := [("data", .single), ("shape", .single)],
    outputs := [("reshaped", .single)],
    attrs := [⟨"allowzero", .int, false⟩] }

def cls_Resize : ClassSig :=
  { pyName := "v17._Resize", base := "StandardNode", opName := "Resize", domain := "", version := 13,
    inputs := [("X", .single), ("roi", .optional), ("scales", .optional), ("sizes", .optional)],
    outputs := [("Y", .single)],
    attrs := [⟨"coordinate_transformation_mode", .string, false⟩, ⟨"cubic_coeff_a", .float, false⟩, ⟨"exclude_outside", .int, false⟩, ⟨"extrapolation_value", .float, false⟩, ⟨"mode", .string, false⟩, ⟨"nearest_mode", .string, false⟩] }

def cls_ReverseSequence : ClassSig :=
  { pyName := "v17._ReverseSequence", base := "StandardNode", opName := "ReverseSequence", domain := "", version := 10,
    inputs := [("input", .single), ("sequence_lens", .single)],
    outputs := [("Y", .single)],
    attrs := [⟨"batch_axis", .int, false⟩, ⟨"time_axis", .int, false⟩] }

def cls_RoiAlign : ClassSig :=
  { pyName := "v17._RoiAlign", base := "StandardNode", opName := "RoiAlign", domain := "", version := 16,
    inputs := [("X", .single), ("rois", .single), ("batch_indices", .single)],
    outputs := [("Y", .single)],
    attrs := [⟨"coordinate_transformation_mode", .string, false⟩, ⟨"mode", .string, false⟩, ⟨"output_height", .int, false⟩, ⟨"output_width", .int, false⟩, ⟨"sampling_ratio", .int, false⟩, ⟨"spatial_scale", .float, false⟩] }

def cls_Round : ClassSig :=
  { pyName := "v17._Round", base := "StandardNode", opName := "Round", domain := "", version := 11,
    inputs := [("X", .single)],
    outputs := [("Y", .single)],
    attrs := [] }

def cls_STFT : ClassSig :=
  { pyName := "v17._STFT", base := "StandardNode", opName := "STFT", domain := "", version := 17,
    inputs := [("signal", .single), ("frame_step", .single), ("window", .optional), ("frame_length", .optional)],
    outputs := [("output", .single)],
    attrs := [⟨"onesided", .int, false⟩] }

def cls_Scan : ClassSig :=
  { pyName := "v17._Scan", base := "StandardNode", opName := "Scan", domain := "", version := 16,
    inputs := [("initial_state_and_scan_inputs", .variadic)],
    outputs := [("final_state_and_scan_outputs", .variadic)],
    attrs := [⟨"body", .graph, false⟩, ⟨"num_scan_inputs", .int, false⟩, ⟨"scan_input_axes", .ints, true⟩, ⟨"scan_input_directions", .ints, true⟩, ⟨"scan_output_axes", .ints, true⟩, ⟨"scan_output_directions", .ints, true⟩] }

def cls_ScatterElements : ClassSig :=
  { pyName := "v17._ScatterElements", base := "StandardNode", opName := "ScatterElements", domain := "", version := 16,
    inputs := [("data", .single), ("indices", .single), ("updates", .single)],
    outputs := [("output", .single)],
    attrs := [⟨"axis", .int, false⟩, ⟨"reduction", .string, false⟩] }

def cls_ScatterND : ClassSig :=
  { pyName := "v17._ScatterND", base := "StandardNode", opName := "ScatterND", domain := "", version := 16,
    inputs := [("data", .single), ("indices", .single), ("updates", .single)],
    outputs := [("output", .single)],
    attrs := [⟨"reduction", .string, false⟩] }

def cls_Selu : ClassSig :=
  { pyName := "v17._Selu", base := "StandardNode", opName := "Selu", domain := "", version := 6,
    inputs := [("X", .single)],
    outputs := [("Y", .single)],
    attrs := [⟨"alpha", .float, false⟩, ⟨"gamma", .float, false⟩] }

def cls_SequenceAt : ClassSig :=
  { pyName := "v17._SequenceAt", base := "StandardNode", opName := "SequenceAt", domain := "", version := 11,
    inputs := [("input_sequence", .single), ("position", .single)],
    outputs := [("tensor", .single)],
    attrs := [] }

def cls_SequenceConstruct : ClassSig :=
  { pyName := "v17._SequenceConstruct", base := "StandardNode", opName := "SequenceConstruct", domain := "", version := 11,
    inputs := [("inputs", .variadic)],
    outputs := [("output_sequence", .single)],
    attrs := [] }

def cls_SequenceEmpty : ClassSig :=
  { pyName := "v17._SequenceEmpty", base := "StandardNode", opName := "SequenceEmpty", domain := "", version := 11,
    inputs := [],
    outputs := [("output", .single)],
    attrs := [⟨"dtype", .dtype, true⟩] }

def cls_SequenceErase : ClassSig :=
  { pyName := "v17._SequenceErase", base := "StandardNode", opName := "SequenceErase", domain := "", version := 11,
    inputs := [("input_sequence", .single), ("position", .optional)],
    outputs := [("output_sequence", .single)],
    attrs := [] }

def cls_SequenceInsert : ClassSig :=
  { pyName := "v17._SequenceInsert", base := "StandardNode", opName := "SequenceInsert", domain := "", version := 11,
    inputs := [("input_sequence", .single), ("tensor", .single), ("position", .optional)],
    outputs := [("output_sequence", .single)],
    attrs := [] }

def cls_SequenceLength : ClassSig :=
  { pyName := "v17._SequenceLength", base := "StandardNode", opName := "SequenceLength", domain := "", version := 11,
    inputs := [("input_sequence", .single)],
    outputs := [("length", .single)],
    attrs := [] }

def cls_SequenceMap : ClassSig :=
  { pyName := "v17._SequenceMap", base := "StandardNode", opName := "SequenceMap", domain := "", version := 17,
    inputs := [("input_sequence", .single), ("additional_inputs", .variadic)],
    outputs := [("out_sequence", .variadic)],
    attrs := [⟨"body", .graph, false⟩] }

def cls_Shape : ClassSig :=
  { pyName := "v17._Shape", base := "StandardNode", opName := "Shape", domain := "", version := 15,
    inputs := [("data", .single)],
    outputs := [("shape", .single)],
    attrs := [⟨"end", .int, true⟩, ⟨"start", .int, false⟩] }

def cls_Shrink : ClassSig :=
  { pyName := "v17._Shrink", base := "StandardNode", opName := "Shrink", domain := "", version := 9,
    inputs := [("input", .single)],
    outputs := [("output", .single)],
    attrs := [⟨"bias", .float, false⟩, ⟨"lambd", .float, false⟩] }

def cls_Sigmoid : ClassSig :=
  { pyName := "v17._Sigmoid", base := "StandardNode", opName := "Sigmoid", domain := "", version := 13,
    inputs := [("X", .single)],
    outputs := [("Y", .single)],
    attrs := [] }

def cls_Sign : ClassSig :=
  { pyName := "v17._Sign", base := "StandardNode", opName := "Sign", domain := "", version := 13,
    inputs := [("input", .single)],
    outputs := [("output", .single)],
    attrs := [] }

def cls_Sin : ClassSig :=
  { pyName := "v17._Sin", base := "StandardNode", opName := "Sin", domain := "", version := 7,
    inputs := [("input", .single)],
    outputs := [("output", .single)],
    attrs := [] }

def cls_Sinh : ClassSig :=
  { pyName := "v17._Sinh", base := "StandardNode", opName := "Sinh", domain := "", version := 9,
    inputs := [("input", .single)],
    outputs := [("output", .single)],
    attrs := [] }

def cls_Size : ClassSig :=
  { pyName := "v17._Size", base := "StandardNode", opName := "Size", domain := "", version := 13,
    inputs := [("data", .single)],
    outputs := [("size", .single)],
    attrs := [] }

def cls_Slice : ClassSig :=
  { pyName := "v17._Slice", base := "StandardNode", opName := "Slice", domain := "", version := 13,
    inputs := [("data", .single), ("starts", .single), ("ends", .single), ("axes", .optional), ("steps", .optional)],
    outputs := [("output", .single)],
    attrs := [] }

def cls_Softmax : ClassSig :=
  { pyName := "v17._Softmax", base := "StandardNode", opName := "Softmax", domain := "", version := 13,
    inputs := [("input", .single)],
    outputs := [("output", .single)],
    attrs := [⟨"axis", .int, false⟩] }

def cls_SoftmaxCrossEntropyLoss : ClassSig :=
  { pyName := "v17._SoftmaxCrossEntropyLoss", base := "StandardNode", opName := "SoftmaxCrossEntropyLoss", domain := "", version := 13,
    inputs := [("scores", .single), ("labels", .single), ("weights", .optional)],
    outputs := [("output", .single), ("log_prob", .optional)],
    attrs := [⟨"ignore_index", .int, true⟩, ⟨"reduction", .string, false⟩] }

def cls_Softplus : ClassSig :=
  { pyName := "v17._Softplus", base := "StandardNode", opName := "Softplus", domain := "", version := 1,
    inputs := [("X", .single)],
    outputs := [("Y", .single)],
    attrs := [] }

def cls_Softsign : ClassSig :=
  { pyName := "v17._Softsign", base := "StandardNode", opName := "Softsign", domain := "", version := 1,
    inputs := [("input", .single)],
    outputs := [("output", .single)],
    attrs := [] }

def cls_SpaceToDepth : ClassSig :=
  { pyName := "v17._SpaceToDepth", base := "StandardNode", opName := "SpaceToDepth", domain := "", version := 13,
    inputs := [("input", .single)],
    outputs := [("output", .single)],
    attrs := [⟨"blocksize", .int, false⟩] }

def cls_Split : ClassSig :=
  { pyName := "v17._Split", base := "StandardNode", opName := "Split", domain := "", version := 13,
    inputs := [("input", .single), ("split", .optional)],
    outputs := [("outputs", .variadic)],
    attrs := [⟨"axis", .int, false⟩] }

def cls_SplitToSequence : ClassSig :=
  { pyName := "v17._SplitToSequence", base := "StandardNode", opName := "SplitToSequence", domain := "", version := 11,
    inputs := [("input", .single), ("split", .optional)],
    outputs := [("output_sequence", .single)],
    attrs := [⟨"axis", .int, false⟩, ⟨"keepdims", .int, false⟩] }

def cls_Sqrt : ClassSig :=
  { pyName := "v17._Sqrt", base := "StandardNode", opName := "Sqrt", domain := "", version := 13,
    inputs := [("X", .single)],
    outputs := [("Y", .single)],
    attrs := [] }

def cls_Squeeze : ClassSig :=
  { pyName := "v17._Squeeze", base := "StandardNode", opName := "Squeeze", domain := "", version := 13,
    inputs := [("data", .single), ("axes", .optional)],
    outputs := [("squeezed", .single)],
    attrs := [] }

def cls_StringNormalizer : ClassSig :=
  { pyName := "v17._StringNormalizer", base := "StandardNode", opName := "StringNormalizer", domain := "", version := 10,
    inputs := [("X", .single)],
    outputs := [("Y", .single)],
    attrs := [⟨"case_change_action", .string, false⟩, ⟨"is_case_sensitive", .int, false⟩, ⟨"locale", .string, true⟩, ⟨"stopwords", .strings, true⟩] }

def cls_Sub : ClassSig :=
  { pyName := "v17._Sub", base := "StandardNode", opName := "Sub", domain := "", version := 14,
    inputs := [("A", .single), ("B", .single)],
    outputs := [("C", .single)],
    attrs := [] }

def cls_Sum : ClassSig :=
  { pyName := "v17._Sum", base := "StandardNode", opName := "Sum", domain := "", version := 13,
    inputs := [("data_0", .variadic)],
    outputs := [("sum", .single)],
    attrs := [] }

def cls_Tan : ClassSig :=
  { pyName := "v17._Tan", base := "StandardNode", opName := "Tan", domain := "", version := 7,
    inputs := [("input", .single)],
    outputs := [("output", .single)],
    attrs := [] }

def cls_Tanh : ClassSig :=
  { pyName := "v17._Tanh", base := "StandardNode", opName := "Tanh", domain := "", version := 13,
    inputs := [("input", .single)],
    outputs := [("output", .single)],
    attrs := [] }

def cls_TfIdfVectorizer : ClassSig :=
  { pyName := "v17._TfIdfVectorizer", base := "StandardNode", opName := "TfIdfVectorizer", domain := "", version := 9,
    inputs := [("X", .single)],
    outputs := [("Y", .single)],
    attrs := [⟨"max_gram_length", .int, false⟩, ⟨"max_skip_count", .int, false⟩, ⟨"min_gram_length", .int, false⟩, ⟨"mode", .string, false⟩, ⟨"ngram_counts", .ints, false⟩, ⟨"ngram_indexes", .ints, false⟩, ⟨"pool_int64s", .ints, true⟩, ⟨"pool_strings", .strings, true⟩, ⟨"weights", .floats, true⟩] }

def cls_ThresholdedRelu : ClassSig :=
  { pyName := "v17._ThresholdedRelu", base := "StandardNode", opName := "ThresholdedRelu", domain := "", version := 10,
    inputs := [("X", .single)],
    outputs := [("Y", .single)],
    attrs := [⟨"alpha", .float, false⟩] }

def cls_Tile : ClassSig :=
  { pyName := "v17._Tile", base := "StandardNode", opName := "Tile", domain := "", version := 13,
    inputs := [("input", .single), ("repeats", .single)],
    outputs := [("output", .single)],
    attrs := [] }

def cls_TopK : ClassSig :=
  { pyName := "v17._TopK", base := "StandardNode", opName := "TopK", domain := "", version := 11,
    inputs := [("X", .single), ("K", .single)],
    outputs := [("Values", .single), ("Indices", .single)],
    attrs := [⟨"axis", .int, false⟩, ⟨"largest", .int, false⟩, ⟨"sorted", .int, false⟩] }

def cls_Transpose : ClassSig :=
  { pyName := "v17._Transpose", base := "StandardNode", opName := "Transpose", domain := "", version := 13,
    inputs := [("data", .single)],
    outputs := [("transposed", .single)],
    attrs := [⟨"perm", .ints, true⟩] }

def cls_Trilu : ClassSig :=
  { pyName := "v17._Trilu", base := "StandardNode", opName := "Trilu", domain := "", version := 14,
    inputs := [("input", .single), ("k", .optional)],
    outputs := [("output", .single)],
    attrs := [⟨"upper", .int, false⟩] }

def cls_Unique : ClassSig :=
  { pyName := "v17._Unique", base := "StandardNode", opName := "Unique", domain := "", version := 11,
    inputs := [("X", .single)],
    outputs := [("Y", .single), ("indices", .optional), ("inverse_indices", .optional), ("counts", .optional)],
    attrs := [⟨"axis", .int, true⟩, ⟨"sorted", .int, false⟩] }

def cls_Unsqueeze : ClassSig :=
  { pyName := "v17._Unsqueeze", base := "StandardNode", opName := "Unsqueeze", domain := "", version := 13,
    inputs := [("data", .single), ("axes", .single)],
    outputs := [("expanded", .single)],
    attrs := [] }

def cls_Where : ClassSig :=
  { pyName := "v17._Where", base := "StandardNode", opName := "Where", domain := "", version := 16,
    inputs := [("condition", .single), ("X", .single), ("Y", .single)],
    outputs := [("output", .single)],
    attrs := [] }

def cls_Xor : ClassSig :=
  { pyName := "v17._Xor", base := "StandardNode", opName := "Xor", domain := "", version := 7,
    inputs := [("A", .single), ("B", .single)],
    outputs := [("C", .single)],
    attrs := [] }

def f_abs : Ctor :=
  { pyName := "v17.abs", cls := Generated.Ctors.v17.cls_Abs,
    params := [⟨"X", false, .var, none⟩],
    attrWires := [],
    inputWires := [("X", "X")],
    outVar := .none, ret := .field "Y" }

def f_acos : Ctor :=
  { pyName := "v17.acos", cls := Generated.Ctors.v17.cls_Acos,
    params := [⟨"input", false, .var, none⟩],
    attrWires := [],
    inputWires := [("input", "input")],
    outVar := .none, ret := .field "output" }

def f_acosh : Ctor :=
  { pyName := "v17.acosh", cls := Generated.Ctors.v17.cls_Acosh,
    params := [⟨"input", false, .var, none⟩],
    attrWires := [],
    inputWires := [("input", "input")],
    outVar := .none, ret := .field "output" }

def f_add : Ctor :=
  { pyName := "v17.add", cls := Generated.Ctors.v17.cls_Add,
    params := [⟨"A", false, .var, none⟩, ⟨"B", false, .var, none⟩],
    attrWires := [],
    inputWires := [("A", "A"), ("B", "B")],
    outVar := .none, ret := .field "C" }

def f_and_ : Ctor :=
  { pyName := "v17.and_", cls := Generated.Ctors.v17.cls_And,
    params := [⟨"A", false, .var, none⟩, ⟨"B", false, .var, none⟩],
    attrWires := [],
    inputWires := [("A", "A"), ("B", "B")],
    outVar := .none, ret := .field "C" }

def f_arg_max : Ctor :=
  { pyName := "v17.arg_max", cls := Generated.Ctors.v17.cls_ArgMax,
    params := [⟨"data", false, .var, none⟩, ⟨"axis", true, .attr, some (Val.int 0)⟩, ⟨"keepdims", true, .attr, some (Val.int 1)⟩, ⟨"select_last_index", true, .attr, some (Val.int 0)⟩],
    attrWires := [⟨"axis", .int, false, "axis", "axis", false⟩, ⟨"keepdims", .int, false, "keepdims", "keepdims", false⟩, ⟨"select_last_index", .int, false, "select_last_index", "select_last_index", false⟩],
    inputWires := [("data", "data")],
    outVar := .none, ret := .field "reduced" }

def f_arg_min : Ctor :=
  { pyName := "v17.arg_min", cls := Generated.Ctors.v17.cls_ArgMin,
    params := [⟨"data", false, .var, none⟩, ⟨"axis", true, .attr, some (Val.int 0)⟩, ⟨"keepdims", true, .attr, some (Val.int 1)⟩, ⟨"select_last_index", true, .attr, some (Val.int 0)⟩],
    attrWires := [⟨"axis", .int, false, "axis", "axis", false⟩, ⟨"keepdims", .int, false, "keepdims", "keepdims", false⟩, ⟨"select_last_index", .int, false, "select_last_index", "select_last_index", false⟩],
    inputWires := [("data", "data")],
    outVar := .none, ret := .field "reduced" }

def f_asin : Ctor :=
  { pyName := "v17.asin", cls := Generated.Ctors.v17.cls_Asin,
    params := [⟨"input", false, .var, none⟩],
    attrWires := [],
    inputWires := [("input", "input")],
    outVar := .none, ret := .field "output" }

def f_asinh : Ctor :=
  { pyName := "v17.asinh", cls := Generated.Ctors.v17.cls_Asinh,
    params := [⟨"input", false, .var, none⟩],
    attrWires := [],
    inputWires := [("input", "input")],
    outVar := .none, ret := .field "output" }

def f_atan : Ctor :=
  { pyName := "v17.atan", cls := Generated.Ctors.v17.cls_Atan,
    params := [⟨"input", false, .var, none⟩],
    attrWires := [],
    inputWires := [("input", "input")],
    outVar := .none, ret := .field "output" }

def f_atanh : Ctor :=
  { pyName := "v17.atanh", cls := Generated.Ctors.v17.cls_Atanh,
    params := [⟨"input", false, .var, none⟩],
    attrWires := [],
    inputWires := [("input", "input")],
    outVar := .none, ret := .field "output" }

def f_average_pool : Ctor :=
  { pyName := "v17.average_pool", cls := Generated.Ctors.v17.cls_AveragePool,
    params := [⟨"X", false, .var, none⟩, ⟨"auto_pad", true, .attr, some (Val.str "NOTSET")⟩, ⟨"ceil_mode", true, .attr, some (Val.int 0)⟩, ⟨"count_include_pad", true, .attr, some (Val.int 0)⟩, ⟨"kernel_shape", true, .attr, none⟩, ⟨"pads", true, .attr, some Val.none⟩, ⟨"strides", true, .attr, some Val.none⟩],
    attrWires := [⟨"auto_pad", .string, false, "auto_pad", "auto_pad", false⟩, ⟨"ceil_mode", .int, false, "ceil_mode", "ceil_mode", false⟩, ⟨"count_include_pad", .int, false, "count_include_pad", "count_include_pad", false⟩, ⟨"kernel_shape", .ints, false, "kernel_shape", "kernel_shape", false⟩, ⟨"pads", .ints, true, "pads", "pads", false⟩, ⟨"strides", .ints, true, "strides", "strides", false⟩],
    inputWires := [("X", "X")],
    outVar := .none, ret := .field "Y" }

def f_batch_normalization : Ctor :=
  { pyName := "v17.batch_normalization", cls := Generated.Ctors.v17.cls_BatchNormalization,
    params := [⟨"X", false, .var, none⟩, ⟨"scale", false, .var, none⟩, ⟨"B", false, .var, none⟩, ⟨"input_mean", false, .var, none⟩, ⟨"input_var", false, .var, none⟩, ⟨"epsilon", true, .attr, some (Val.float 925353388)⟩, ⟨"momentum", true, .attr, some (Val.float 1063675494)⟩, ⟨"training_mode", true, .attr, some (Val.int 0)⟩],
    attrWires := [⟨"epsilon", .float, false, "epsilon", "epsilon", false⟩, ⟨"momentum", .float, false, "momentum", "momentum", false⟩, ⟨"training_mode", .int, false, "training_mode", "training_mode", false⟩],
    inputWires := [("X", "X"), ("scale", "scale"), ("B", "B"), ("input_mean", "input_mean"), ("input_var", "input_var")],
    outVar := .none, ret := .unpack }

def f_bernoulli : Ctor :=
  { pyName := "v17.bernoulli", cls := Generated.Ctors.v17.cls_Bernoulli,
    params := [⟨"input", false, .var, none⟩, ⟨"dtype", true, .attr, some Val.none⟩, ⟨"seed", true, .attr, some Val.none⟩],
    attrWires := [⟨"dtype", .dtype, true, "dtype", "dtype", false⟩, ⟨"seed", .float, true, "seed", "seed", false⟩],
    inputWires := [("input", "input")],
    outVar := .none, ret := .field "output" }

def f_bit_shift : Ctor :=
  { pyName := "v17.bit_shift", cls := Generated.Ctors.v17.cls_BitShift,
    params := [⟨"X", false, .var, none⟩, ⟨"Y", false, .var, none⟩, ⟨"direction", true, .attr, none⟩],
    attrWires := [⟨"direction", .string, false, "direction", "direction", false⟩],
    inputWires := [("X", "X"), ("Y", "Y")],
    outVar := .none, ret := .field "Z" }

def f_blackman_window : Ctor :=
  { pyName := "v17.blackman_window", cls := Generated.Ctors.v17.cls_BlackmanWindow,
    params := [⟨"size", false, .var, none⟩, ⟨"output_datatype", true, .attr, some (Val.int 1)⟩, ⟨"periodic", true, .attr, some (Val.int 1)⟩],
    attrWires := [⟨"output_datatype", .int, false, "output_datatype", "output_datatype", false⟩, ⟨"periodic", .int, false, "periodic", "periodic", false⟩],
    inputWires := [("size", "size")],
    outVar := .none, ret := .field "output" }

def f_cast : Ctor :=
  { pyName := "v17.cast", cls := Generated.Ctors.v17.cls_Cast,
    params := [⟨"input", false, .var, none⟩, ⟨"to", true, .attr, none⟩],
    attrWires := [⟨"to", .dtype, false, "to", "to", false⟩],
    inputWires := [("input", "input")],
    outVar := .none, ret := .field "output" }

def f_cast_like : Ctor :=
  { pyName := "v17.cast_like", cls := Generated.Ctors.v17.cls_CastLike,
    params := [⟨"input", false, .var, none⟩, ⟨"target_type", false, .var, none⟩],
    attrWires := [],
    inputWires := [("input", "input"), ("target_type", "target_type")],
    outVar := .none, ret := .field "output" }

def f_ceil : Ctor :=
  { pyName := "v17.ceil", cls := Generated.Ctors.v17.cls_Ceil,
    params := [⟨"X", false, .var, none⟩],
    attrWires := [],
    inputWires := [("X", "X")],
    outVar := .none, ret := .field "Y" }

def f_celu : Ctor :=
  { pyName := "v17.celu", cls := Generated.Ctors.v17.cls_Celu,
    params := [⟨"X", false, .var, none⟩, ⟨"alpha", true, .attr, some (Val.float 1065353216)⟩],
    attrWires := [⟨"alpha", .float, false, "alpha", "alpha", false⟩],
    inputWires := [("X", "X")],
    outVar := .none, ret := .field "Y" }

def f_clip : Ctor :=
  { pyName := "v17.clip", cls := Generated.Ctors.v17.cls_Clip,
    params := [⟨"input", false, .var, none⟩, ⟨"min", false, .optVar, some Val.none⟩, ⟨"max", false, .optVar, some Val.none⟩],
    attrWires := [],
    inputWires := [("input", "input"), ("min", "min"), ("max", "max")],
    outVar := .none, ret := .field "output" }

def f_compress : Ctor :=
  { pyName := "v17.compress", cls := Generated.Ctors.v17.cls_Compress,
    params := [⟨"input", false, .var, none⟩, ⟨"condition", false, .var, none⟩, ⟨"axis", true, .attr, some Val.none⟩],
    attrWires := [⟨"axis", .int, true, "axis", "axis", false⟩],
    inputWires := [("input", "input"), ("condition", "condition")],
    outVar := .none, ret := .field "output" }

def f_concat : Ctor :=
  { pyName := "v17.concat", cls := Generated.Ctors.v17.cls_Concat,
    params := [⟨"inputs", false, .seqVar, none⟩, ⟨"axis", true, .attr, none⟩],
    attrWires := [⟨"axis", .int, false, "axis", "axis", false⟩],
    inputWires := [("inputs", "inputs")],
    outVar := .none, ret := .field "concat_result" }

def f_concat_from_sequence : Ctor :=
  { pyName := "v17.concat_from_sequence", cls := Generated.Ctors.v17.cls_ConcatFromSequence,
    params := [⟨"input_sequence", false, .var, none⟩, ⟨"axis", true, .attr, none⟩, ⟨"new_axis", true, .attr, some (Val.int 0)⟩],
    attrWires := [⟨"axis", .int, false, "axis", "axis", false⟩, ⟨"new_axis", .int, false, "new_axis", "new_axis", false⟩],
    inputWires := [("input_sequence", "input_sequence")],
    outVar := .none, ret := .field "concat_result" }

def f_constant : Ctor :=
  { pyName := "v17.constant", cls := Generated.Ctors.v17.cls_Constant,
    params := [⟨"value", true, .attr, some Val.none⟩, ⟨"value_float", true, .attr, some Val.none⟩, ⟨"value_floats", true, .attr, some Val.none⟩, ⟨"value_int", true, .attr, some Val.none⟩, ⟨"value_ints", true, .attr, some Val.none⟩, ⟨"value_string", true, .attr, some Val.none⟩, ⟨"value_strings", true, .attr, some Val.none⟩],
    attrWires := [⟨"value", .tensor, true, "value", "value", false⟩, ⟨"value_float", .float, true, "value_float", "value_float", false⟩, ⟨"value_floats", .floats, true, "value_floats", "value_floats", false⟩, ⟨"value_int", .int, true, "value_int", "value_int", false⟩, ⟨"value_ints", .ints, true, "value_ints", "value_ints", false⟩, ⟨"value_string", .string, true, "value_string", "value_string", false⟩, ⟨"value_strings", .strings, true, "value_strings", "value_strings", false⟩],
    inputWires := [],
    outVar := .none, ret := .field "output" }

def f_constant_of_shape : Ctor :=
  { pyName := "v17.constant_of_shape", cls := Generated.Ctors.v17.cls_ConstantOfShape,
    params := [⟨"input", false, .var, none⟩, ⟨"value", true, .attr, some Val.none⟩],
    attrWires := [⟨"value", .tensor, true, "value", "value", false⟩],
    inputWires := [("input", "input")],
    outVar := .none, ret := .field "output" }

def f_conv : Ctor :=
  { pyName := "v17.conv", cls := Generated.Ctors.v17.cls_Conv,
    params := [⟨"X", false, .var, none⟩, ⟨"W", false, .var, none⟩, ⟨"B", false, .optVar, some Val.none⟩, ⟨"auto_pad", true, .attr, some (Val.str "NOTSET")⟩, ⟨"dilations", true, .attr, some Val.none⟩, ⟨"group", true, .attr, some (Val.int 1)⟩, ⟨"kernel_shape", true, .attr, some Val.none⟩, ⟨"pads", true, .attr, some Val.none⟩, ⟨"strides", true, .attr, some Val.none⟩],
    attrWires := [⟨"auto_pad", .string, false, "auto_pad", "auto_pad", false⟩, ⟨"dilations", .ints, true, "dilations", "dilations", false⟩, ⟨"group", .int, false, "group", "group", false⟩, ⟨"kernel_shape", .ints, true, "kernel_shape", "kernel_shape", false⟩, ⟨"pads", .ints, true, "pads", "pads", false⟩, ⟨"strides", .ints, true, "strides", "strides", false⟩],
    inputWires := [("X", "X"), ("W", "W"), ("B", "B")],
    outVar := .none, ret := .field "Y" }

def f_conv_integer : Ctor :=
  { pyName := "v17.conv_integer", cls := Generated.Ctors.v17.cls_ConvInteger,
    params := [⟨"x", false, .var, none⟩, ⟨"w", false, .var, none⟩, ⟨"x_zero_point", false, .optVar, some Val.none⟩, ⟨"w_zero_point", false, .optVar, some Val.none⟩, ⟨"auto_pad", true, .attr, some (Val.str "NOTSET")⟩, ⟨"dilations", true, .attr, some Val.none⟩, ⟨"group", true, .attr, some (Val.int 1)⟩, ⟨"kernel_shape", true, .attr, some Val.none⟩, ⟨"pads", true, .attr, some Val.none⟩, ⟨"strides", true, .attr, some Val.none⟩],
    attrWires := [⟨"auto_pad", .string, false, "auto_pad", "auto_pad", false⟩, ⟨"dilations", .ints, true, "dilations", "dilations", false⟩, ⟨"group", .int, false, "group", "group", false⟩, ⟨"kernel_shape", .ints, true, "kernel_shape", "kernel_shape", false⟩, ⟨"pads", .ints, true, "pads", "pads", false⟩, ⟨"strides", .ints, true, "strides", "strides", false⟩],
    inputWires := [("x", "x"), ("w", "w"), ("x_zero_point", "x_zero_point"), ("w_zero_point", "w_zero_point")],
    outVar := .none, ret := .field "y" }

def f_conv_transpose : Ctor :=
  { pyName := "v17.conv_transpose", cls := Generated.Ctors.v17.cls_ConvTranspose,
    params := [⟨"X", false, .var, none⟩, ⟨"W", false, .var, none⟩, ⟨"B", false, .optVar, some Val.none⟩, ⟨"auto_pad", true, .attr, some (Val.str "NOTSET")⟩, ⟨"dilations", true, .attr, some Val.none⟩, ⟨"group", true, .attr, some (Val.int 1)⟩, ⟨"kernel_shape", true, .attr, some Val.none⟩, ⟨"output_padding", true, .attr, some Val.none⟩, ⟨"output_shape", true, .attr, some Val.none⟩, ⟨"pads", true, .attr, some Val.none⟩, ⟨"strides", true, .attr, some Val.none⟩],
    attrWires := [⟨"auto_pad", .string, false, "auto_pad", "auto_pad", false⟩, ⟨"dilations", .ints, true, "dilations", "dilations", false⟩, ⟨"group", .int, false, "group", "group", false⟩, ⟨"kernel_shape", .ints, true, "kernel_shape", "kernel_shape", false⟩, ⟨"output_padding", .ints, true, "output_padding", "output_padding", false⟩, ⟨"output_shape", .ints, true, "output_shape", "output_shape", false⟩, ⟨"pads", .ints, true, "pads", "pads", false⟩, ⟨"strides", .ints, true, "strides", "strides", false⟩],
    inputWires := [("X", "X"), ("W", "W"), ("B", "B")],
    outVar := .none, ret := .field "Y" }

def f_cos : Ctor :=
  { pyName := "v17.cos", cls := Generated.Ctors.v17.cls_Cos,
    params := [⟨"input", false, .var, none⟩],
    attrWires := [],
    inputWires := [("input", "input")],
    outVar := .none, ret := .field "output" }

def f_cosh : Ctor :=
  { pyName := "v17.cosh", cls := Generated.Ctors.v17.cls_Cosh,
    params := [⟨"input", false, .var, none⟩],
    attrWires := [],
    inputWires := [("input", "input")],
    outVar := .none, ret := .field "output" }

def f_cumsum : Ctor :=
  { pyName := "v17.cumsum", cls := Generated.Ctors.v17.cls_CumSum,
    params := [⟨"x", false, .var, none⟩, ⟨"axis", false, .var, none⟩, ⟨"exclusive", true, .attr, some (Val.int 0)⟩, ⟨"reverse", true, .attr, some (Val.int 0)⟩],
    attrWires := [⟨"exclusive", .int, false, "exclusive", "exclusive", false⟩, ⟨"reverse", .int, false, "reverse", "reverse", false⟩],
    inputWires := [("x", "x"), ("axis", "axis")],
    outVar := .none, ret := .field "y" }

def f_dft : Ctor :=
  { pyName := "v17.dft", cls := Generated.Ctors.v17.cls_DFT,
    params := [⟨"input", false, .var, none⟩, ⟨"dft_length", false, .optVar, some Val.none⟩, ⟨"axis", true, .attr, some (Val.int 1)⟩, ⟨"inverse", true, .attr, some (Val.int 0)⟩, ⟨"onesided", true, .attr, some (Val.int 0)⟩],
    attrWires := [⟨"axis", .int, false, "axis", "axis", false⟩, ⟨"inverse", .int, false, "inverse", "inverse", false⟩, ⟨"onesided", .int, false, "onesided", "onesided", false⟩],
    inputWires := [("input", "input"), ("dft_length", "dft_length")],
    outVar := .none, ret := .field "output" }

def f_depth_to_space : Ctor :=
  { pyName := "v17.depth_to_space", cls := Generated.Ctors.v17.cls_DepthToSpace,
    params := [⟨"input", false, .var, none⟩, ⟨"blocksize", true, .attr, none⟩, ⟨"mode", true, .attr, some (Val.str "DCR")⟩],
    attrWires := [⟨"blocksize", .int, false, "blocksize", "blocksize", false⟩, ⟨"mode", .string, false, "mode", "mode", false⟩],
    inputWires := [("input", "input")],
    outVar := .none, ret := .field "output" }

def f_dequantize_linear : Ctor :=
  { pyName := "v17.dequantize_linear", cls := Generated.Ctors.v17.cls_DequantizeLinear,
    params := [⟨"x", false, .var, none⟩, ⟨"x_scale", false, .var, none⟩, ⟨"x_zero_point", false, .optVar, some Val.none⟩, ⟨"axis", true, .attr, some (Val.int 1)⟩],
    attrWires := [⟨"axis", .int, false, "axis", "axis", false⟩],
    inputWires := [("x", "x"), ("x_scale", "x_scale"), ("x_zero_point", "x_zero_point")],
    outVar := .none, ret := .field "y" }

def f_det : Ctor :=
  { pyName := "v17.det", cls := Generated.Ctors.v17.cls_Det,
    params := [⟨"X", false, .var, none⟩],
    attrWires := [],
    inputWires := [("X", "X")],
    outVar := .none, ret := .field "Y" }

def f_div : Ctor :=
  { pyName := "v17.div", cls := Generated.Ctors.v17.cls_Div,
    params := [⟨"A", false, .var, none⟩, ⟨"B", false, .var, none⟩],
    attrWires := [],
    inputWires := [("A", "A"), ("B", "B")],
    outVar := .none, ret := .field "C" }

def f_dropout : Ctor :=
  { pyName := "v17.dropout", cls := Generated.Ctors.v17.cls_Dropout,
    params := [⟨"data", false, .var, none⟩, ⟨"ratio", false, .optVar, some Val.none⟩, ⟨"training_mode", false, .optVar, some Val.none⟩, ⟨"seed", true, .attr, some Val.none⟩],
    attrWires := [⟨"seed", .int, true, "seed", "seed", false⟩],
    inputWires := [("data", "data"), ("ratio", "ratio"), ("training_mode", "training_mode")],
    outVar := .none, ret := .unpack }

def f_dynamic_quantize_linear : Ctor :=
  { pyName := "v17.dynamic_quantize_linear", cls := Generated.Ctors.v17.cls_DynamicQuantizeLinear,
    params := [⟨"x", false, .var, none⟩],
    attrWires := [],
    inputWires := [("x", "x")],
    outVar := .none, ret := .unpack }

def f_einsum : Ctor :=
  { pyName := "v17.einsum", cls := Generated.Ctors.v17.cls_Einsum,
    params := [⟨"Inputs", false, .seqVar, none⟩, ⟨"equation", true, .attr, none⟩],
    attrWires := [⟨"equation", .string, false, "equation", "equation", false⟩],
    inputWires := [("Inputs", "Inputs")],
    outVar := .none, ret := .field "Output" }

def f_elu : Ctor :=
  { pyName := "v17.elu", cls := Generated.Ctors.v17.cls_Elu,
    params := [⟨"X", false, .var, none⟩, ⟨"alpha", true, .attr, some (Val.float 1065353216)⟩],
    attrWires := [⟨"alpha", .float, false, "alpha", "alpha", false⟩],
    inputWires := [("X", "X")],
    outVar := .none, ret := .field "Y" }

def f_equal : Ctor :=
  { pyName := "v17.equal", cls := Generated.Ctors.v17.cls_Equal,
    params := [⟨"A", false, .var, none⟩, ⟨"B", false, .var, none⟩],
    attrWires := [],
    inputWires := [("A", "A"), ("B", "B")],
    outVar := .none, ret := .field "C" }

def f_erf : Ctor :=
  { pyName := "v17.erf", cls := Generated.Ctors.v17.cls_Erf,
    params := [⟨"input", false, .var, none⟩],
    attrWires := [],
    inputWires := [("input", "input")],
    outVar := .none, ret := .field "output" }

def f_exp : Ctor :=
  { pyName := "v17.exp", cls := Generated.Ctors.v17.cls_Exp,
    params := [⟨"input", false, .var, none⟩],
    attrWires := [],
    inputWires := [("input", "input")],
    outVar := .none, ret := .field "output" }

def f_expand : Ctor :=
  { pyName := "v17.expand", cls := Generated.Ctors.v17.cls_Expand,
    params := [⟨"input", false, .var, none⟩, ⟨"shape", false, .var, none⟩],
    attrWires := [],
    inputWires := [("input", "input"), ("shape", "shape")],
    outVar := .none, ret := .field "output" }

def f_eye_like : Ctor :=
  { pyName := "v17.eye_like", cls := Generated.Ctors.v17.cls_EyeLike,
    params := [⟨"input", false, .var, none⟩, ⟨"dtype", true, .attr, some Val.none⟩, ⟨"k", true, .attr, some (Val.int 0)⟩],
    attrWires := [⟨"dtype", .dtype, true, "dtype", "dtype", false⟩, ⟨"k", .int, false, "k", "k", false⟩],
    inputWires := [("input", "input")],
    outVar := .none, ret := .field "output" }

def f_flatten : Ctor :=
  { pyName := "v17.flatten", cls := Generated.Ctors.v17.cls_Flatten,
    params := [⟨"input", false, .var, none⟩, ⟨"axis", true, .attr, some (Val.int 1)⟩],
    attrWires := [⟨"axis", .int, false, "axis", "axis", false⟩],
    inputWires := [("input", "input")],
    outVar := .none, ret := .field "output" }

def f_floor : Ctor :=
  { pyName := "v17.floor", cls := Generated.Ctors.v17.cls_Floor,
    params := [⟨"X", false, .var, none⟩],
    attrWires := [],
    inputWires := [("X", "X")],
    outVar := .none, ret := .field "Y" }

def f_gru : Ctor :=
  { pyName := "v17.gru", cls := Generated.Ctors.v17.cls_GRU,
    params := [⟨"X", false, .var, none⟩, ⟨"W", false, .var, none⟩, ⟨"R", false, .var, none⟩, ⟨"B", false, .optVar, some Val.none⟩, ⟨"sequence_lens", false, .optVar, some Val.none⟩, ⟨"initial_h", false, .optVar, some Val.none⟩, ⟨"activation_alpha", true, .attr, some Val.none⟩, ⟨"activation_beta", true, .attr, some Val.none⟩, ⟨"activations", true, .attr, some Val.none⟩, ⟨"clip", true, .attr, some Val.none⟩, ⟨"direction", true, .attr, some (Val.str "forward")⟩, ⟨"hidden_size", true, .attr, some Val.none⟩, ⟨"layout", true, .attr, some (Val.int 0)⟩, ⟨"linear_before_reset", true, .attr, some (Val.int 0)⟩],
    attrWires := [⟨"activation_alpha", .floats, true, "activation_alpha", "activation_alpha", false⟩, ⟨"activation_beta", .floats, true, "activation_beta", "activation_beta", false⟩, ⟨"activations", .strings, true, "activations", "activations", false⟩, ⟨"clip", .float, true, "clip", "clip", false⟩, ⟨"direction", .string, false, "direction", "direction", false⟩, ⟨"hidden_size", .int, true, "hidden_size", "hidden_size", false⟩, ⟨"layout", .int, false, "layout", "layout", false⟩, ⟨"linear_before_reset", .int, false, "linear_before_reset", "linear_before_reset", false⟩],
    inputWires := [("X", "X"), ("W", "W"), ("R", "R"), ("B", "B"), ("sequence_lens", "sequence_lens"), ("initial_h", "initial_h")],
    outVar := .none, ret := .unpack }

def f_gather : Ctor :=
  { pyName := "v17.gather", cls := Generated.Ctors.v17.cls_Gather,
    params := [⟨"data", false, .var, none⟩, ⟨"indices", false, .var, none⟩, ⟨"axis", true, .attr, some (Val.int 0)⟩],
    attrWires := [⟨"axis", .int, false, "axis", "axis", false⟩],
    inputWires := [("data", "data"), ("indices", "indices")],
    outVar := .none, ret := .field "output" }

def f_gather_elements : Ctor :=
  { pyName := "v17.gather_elements", cls := Generated.Ctors.v17.cls_GatherElements,
    params := [⟨"data", false, .var, none⟩, ⟨"indices", false, .var, none⟩, ⟨"axis", true, .attr, some (Val.int 0)⟩],
    attrWires := [⟨"axis", .int, false, "axis", "axis", false⟩],
    inputWires := [("data", "data"), ("indices", "indices")],
    outVar := .none, ret := .field "output" }

def f_gather_nd : Ctor :=
  { pyName := "v17.gather_nd", cls := Generated.Ctors.v17.cls_GatherND,
    params := [⟨"data", false, .var, none⟩, ⟨"indices", false, .var, none⟩, ⟨"batch_dims", true, .attr, some (Val.int 0)⟩],
    attrWires := [⟨"batch_dims", .int, false, "batch_dims", "batch_dims", false⟩],
    inputWires := [("data", "data"), ("indices", "indices")],
    outVar := .none, ret := .field "output" }

def f_gemm : Ctor :=
  { pyName := "v17.gemm", cls := Generated.Ctors.v17.cls_Gemm,
    params := [⟨"A", false, .var, none⟩, ⟨"B", false, .var, none⟩, ⟨"C", false, .optVar, some Val.none⟩, ⟨"alpha", true, .attr, some (Val.float 1065353216)⟩, ⟨"beta", true, .attr, some (Val.float 1065353216)⟩, ⟨"transA", true, .attr, some (Val.int 0)⟩, ⟨"transB", true, .attr, some (Val.int 0)⟩],
    attrWires := [⟨"alpha", .float, false, "alpha", "alpha", false⟩, ⟨"beta", .float, false, "beta", "beta", false⟩, ⟨"transA", .int, false, "transA", "transA", false⟩, ⟨"transB", .int, false, "transB", "transB", false⟩],
    inputWires := [("A", "A"), ("B", "B"), ("C", "C")],
    outVar := .none, ret := .field "Y" }

def f_global_average_pool : Ctor :=
  { pyName := "v17.global_average_pool", cls := Generated.Ctors.v17.cls_GlobalAveragePool,
    params := [⟨"X", false, .var, none⟩],
    attrWires := [],
    inputWires := [("X", "X")],
    outVar := .none, ret := .field "Y" }

def f_global_lp_pool : Ctor :=
  { pyName := "v17.global_lp_pool", cls := Generated.Ctors.v17.cls_GlobalLpPool,
    params := [⟨"X", false, .var, none⟩, ⟨"p", true, .attr, some (Val.int 2)⟩],
    attrWires := [⟨"p", .int, false, "p", "p", false⟩],
    inputWires := [("X", "X")],
    outVar := .none, ret := .field "Y" }

def f_global_max_pool : Ctor :=
  { pyName := "v17.global_max_pool", cls := Generated.Ctors.v17.cls_GlobalMaxPool,
    params := [⟨"X", false, .var, none⟩],
    attrWires := [],
    inputWires := [("X", "X")],
    outVar := .none, ret := .field "Y" }

def f_greater : Ctor :=
  { pyName := "v17.greater", cls := Generated.Ctors.v17.cls_Greater,
    params := [⟨"A", false, .var, none⟩, ⟨"B", false, .var, none⟩],
    attrWires := [],
    inputWires := [("A", "A"), ("B", "B")],
    outVar := .none, ret := .field "C" }

def f_greater_or_equal : Ctor :=
  { pyName := "v17.greater_or_equal", cls := Generated.Ctors.v17.cls_GreaterOrEqual,
    params := [⟨"A", false, .var, none⟩, ⟨"B", false, .var, none⟩],
    attrWires := [],
    inputWires := [("A", "A"), ("B", "B")],
    outVar := .none, ret := .field "C" }

def f_grid_sample : Ctor :=
  { pyName := "v17.grid_sample", cls := Generated.Ctors.v17.cls_GridSample,
    params := [⟨"X", false, .var, none⟩, ⟨"grid", false, .var, none⟩, ⟨"align_corners", true, .attr, some (Val.int 0)⟩, ⟨"mode", true, .attr, some (Val.str "bilinear")⟩, ⟨"padding_mode", true, .attr, some (Val.str "zeros")⟩],
    attrWires := [⟨"align_corners", .int, false, "align_corners", "align_corners", false⟩, ⟨"mode", .string, false, "mode", "mode", false⟩, ⟨"padding_mode", .string, false, "padding_mode", "padding_mode", false⟩],
    inputWires := [("X", "X"), ("grid", "grid")],
    outVar := .none, ret := .field "Y" }

def f_hamming_window : Ctor :=
  { pyName := "v17.hamming_window", cls := Generated.Ctors.v17.cls_HammingWindow,
    params := [⟨"size", false, .var, none⟩, ⟨"output_datatype", true, .attr, some (Val.int 1)⟩, ⟨"periodic", true, .attr, some (Val.int 1)⟩],
    attrWires := [⟨"output_datatype", .int, false, "output_datatype", "output_datatype", false⟩, ⟨"periodic", .int, false, "periodic", "periodic", false⟩],
    inputWires := [("size", "size")],
    outVar := .none, ret := .field "output" }

def f_hann_window : Ctor :=
  { pyName := "v17.hann_window", cls := Generated.Ctors.v17.cls_HannWindow,
    params := [⟨"size", false, .var, none⟩, ⟨"output_datatype", true, .attr, some (Val.int 1)⟩, ⟨"periodic", true, .attr, some (Val.int 1)⟩],
    attrWires := [⟨"output_datatype", .int, false, "output_datatype", "output_datatype", false⟩, ⟨"periodic", .int, false, "periodic", "periodic", false⟩],
    inputWires := [("size", "size")],
    outVar := .none, ret := .field "output" }

def f_hard_sigmoid : Ctor :=
  { pyName := "v17.hard_sigmoid", cls := Generated.Ctors.v17.cls_HardSigmoid,
    params := [⟨"X", false, .var, none⟩, ⟨"alpha", true, .attr, some (Val.float 1045220557)⟩, ⟨"beta", true, .attr, some (Val.float 1056964608)⟩],
    attrWires := [⟨"alpha", .float, false, "alpha", "alpha", false⟩, ⟨"beta", .float, false, "beta", "beta", false⟩],
    inputWires := [("X", "X")],
    outVar := .none, ret := .field "Y" }

def f_hard_swish : Ctor :=
  { pyName := "v17.hard_swish", cls := Generated.Ctors.v17.cls_HardSwish,
    params := [⟨"X", false, .var, none⟩],
    attrWires := [],
    inputWires := [("X", "X")],
    outVar := .none, ret := .field "Y" }

def f_hardmax : Ctor :=
  { pyName := "v17.hardmax", cls := Generated.Ctors.v17.cls_Hardmax,
    params := [⟨"input", false, .var, none⟩, ⟨"axis", true, .attr, some (Val.int (-1))⟩],
    attrWires := [⟨"axis", .int, false, "axis", "axis", false⟩],
    inputWires := [("input", "input")],
    outVar := .none, ret := .field "output" }

def f_identity : Ctor :=
  { pyName := "v17.identity", cls := Generated.Ctors.v17.cls_Identity,
    params := [⟨"input", false, .var, none⟩],
    attrWires := [],
    inputWires := [("input", "input")],
    outVar := .none, ret := .field "output" }

def f_if_ : Ctor :=
  { pyName := "v17.if_", cls := Generated.Ctors.v17.cls_If,
    params := [⟨"cond", false, .var, none⟩, ⟨"else_branch", true, .callback, none⟩, ⟨"then_branch", true, .callback, none⟩],
    attrWires := [⟨"else_branch", .graph, false, "else_branch", "else_branch", true⟩, ⟨"then_branch", .graph, false, "then_branch", "then_branch", true⟩],
    inputWires := [("cond", "cond")],
    outVar := .lenResults "else_branch" 0, ret := .field "outputs" }

def f_instance_normalization : Ctor :=
  { pyName := "v17.instance_normalization", cls := Generated.Ctors.v17.cls_InstanceNormalization,
    params := [⟨"input", false, .var, none⟩, ⟨"scale", false, .var, none⟩, ⟨"B", false, .var, none⟩, ⟨"epsilon", true, .attr, some (Val.float 925353388)⟩],
    attrWires := [⟨"epsilon", .float, false, "epsilon", "epsilon", false⟩],
    inputWires := [("input", "input"), ("scale", "scale"), ("B", "B")],
    outVar := .none, ret := .field "output" }

def f_isinf : Ctor :=
  { pyName := "v17.isinf", cls := Generated.Ctors.v17.cls_IsInf,
    params := [⟨"X", false, .var, none⟩, ⟨"detect_negative", true, .attr, some (Val.int 1)⟩, ⟨"detect_positive", true, .attr, some (Val.int 1)⟩],
    attrWires := [⟨"detect_negative", .int, false, "detect_negative", "detect_negative", false⟩, ⟨"detect_positive", .int, false, "detect_positive", "detect_positive", false⟩],
    inputWires := [("X", "X")],
    outVar := .none, ret := .field "Y" }

def f_isnan : Ctor :=
  { pyName := "v17.isnan", cls := Generated.Ctors.v17.cls_IsNaN,
    params := [⟨"X", false, .var, none⟩],
    attrWires := [],
    inputWires := [("X", "X")],
    outVar := .none, ret := .field "Y" }

def f_lrn : Ctor :=
  { pyName := "v17.lrn", cls := Generated.Ctors.v17.cls_LRN,
    params := [⟨"X", false, .var, none⟩, ⟨"alpha", true, .attr, some (Val.float 953267991)⟩, ⟨"beta", true, .attr, some (Val.float 1061158912)⟩, ⟨"bias", true, .attr, some (Val.float 1065353216)⟩, ⟨"size", true, .attr, none⟩],
    attrWires := [⟨"alpha", .float, false, "alpha", "alpha", false⟩, ⟨"beta", .float, false, "beta", "beta", false⟩, ⟨"bias", .float, false, "bias", "bias", false⟩, ⟨"size", .int, false, "size", "size", false⟩],
    inputWires := [("X", "X")],
    outVar := .none, ret := .field "Y" }

def f_lstm : Ctor :=
  { pyName := "v17.lstm", cls := Generated.Ctors.v17.cls_LSTM,
    params := [⟨"X", false, .var, none⟩, ⟨"W", false, .var, none⟩, ⟨"R", false, .var, none⟩, ⟨"B", false, .optVar, some Val.none⟩, ⟨"sequence_lens", false, .optVar, some Val.none⟩, ⟨"initial_h", false, .optVar, some Val.none⟩, ⟨"initial_c", false, .optVar, some Val.none⟩, ⟨"P", false, .optVar, some Val.none⟩, ⟨"activation_alpha", true, .attr, some Val.none⟩, ⟨"activation_beta", true, .attr, some Val.none⟩, ⟨"activations", true, .attr, some Val.none⟩, ⟨"clip", true, .attr, some Val.none⟩, ⟨"direction", true, .attr, some (Val.str "forward")⟩, ⟨"hidden_size", true, .attr, some Val.none⟩, ⟨"input_forget", true, .attr, some (Val.int 0)⟩, ⟨"layout", true, .attr, some (Val.int 0)⟩],
    attrWires := [⟨"activation_alpha", .floats, true, "activation_alpha", "activation_alpha", false⟩, ⟨"activation_beta", .floats, true, "activation_beta", "activation_beta", false⟩, ⟨"activations", .strings, true, "activations", "activations", false⟩, ⟨"clip", .float, true, "clip", "clip", false⟩, ⟨"direction", .string, false, "direction", "direction", false⟩, ⟨"hidden_size", .int, true, "hidden_size", "hidden_size", false⟩, ⟨"input_forget", .int, false, "input_forget", "input_forget", false⟩, ⟨"layout", .int, false, "layout", "layout", false⟩],
    inputWires := [("X", "X"), ("W", "W"), ("R", "R"), ("B", "B"), ("sequence_lens", "sequence_lens"), ("initial_h", "initial_h"), ("initial_c", "initial_c"), ("P", "P")],
    outVar := .none, ret := .unpack }

def f_layer_normalization : Ctor :=
  { pyName := "v17.layer_normalization", cls := Generated.Ctors.v17.cls_LayerNormalization,
    params := [⟨"X", false, .var, none⟩, ⟨"Scale", false, .var, none⟩, ⟨"B", false, .optVar, some Val.none⟩, ⟨"axis", true, .attr, some (Val.int (-1))⟩, ⟨"epsilon", true, .attr, some (Val.float 925353388)⟩, ⟨"stash_type", true, .attr, some (Val.int 1)⟩],
    attrWires := [⟨"axis", .int, false, "axis", "axis", false⟩, ⟨"epsilon", .float, false, "epsilon", "epsilon", false⟩, ⟨"stash_type", .int, false, "stash_type", "stash_type", false⟩],
    inputWires := [("X", "X"), ("Scale", "Scale"), ("B", "B")],
    outVar := .none, ret := .unpack }

def f_leaky_relu : Ctor :=
  { pyName := "v17.leaky_relu", cls := Generated.Ctors.v17.cls_LeakyRelu,
    params := [⟨"X", false, .var, none⟩, ⟨"alpha", true, .attr, some (Val.float 1008981770)⟩],
    attrWires := [⟨"alpha", .float, false, "alpha", "alpha", false⟩],
    inputWires := [("X", "X")],
    outVar := .none, ret := .field "Y" }

def f_less : Ctor :=
  { pyName := "v17.less", cls := Generated.Ctors.v17.cls_Less,
    params := [⟨"A", false, .var, none⟩, ⟨"B", false, .var, none⟩],
    attrWires := [],
    inputWires := [("A", "A"), ("B", "B")],
    outVar := .none, ret := .field "C" }

def f_less_or_equal : Ctor :=
  { pyName := "v17.less_or_equal", cls := Generated.Ctors.v17.cls_LessOrEqual,
    params := [⟨"A", false, .var, none⟩, ⟨"B", false, .var, none⟩],
    attrWires := [],
    inputWires := [("A", "A"), ("B", "B")],
    outVar := .none, ret := .field "C" }

def f_log : Ctor :=
  { pyName := "v17.log", cls := Generated.Ctors.v17.cls_Log,
    params := [⟨"input", false, .var, none⟩],
    attrWires := [],
    inputWires := [("input", "input")],
    outVar := .none, ret := .field "output" }

def f_log_softmax : Ctor :=
  { pyName := "v17.log_softmax", cls := Generated.Ctors.v17.cls_LogSoftmax,
    params := [⟨"input", false, .var, none⟩, ⟨"axis", true, .attr, some (Val.int (-1))⟩],
    attrWires := [⟨"axis", .int, false, "axis", "axis", false⟩],
    inputWires := [("input", "input")],
    outVar := .none, ret := .field "output" }

def f_loop : Ctor :=
  { pyName := "v17.loop", cls := Generated.Ctors.v17.cls_Loop,
    params := [⟨"M", false, .optVar, some Val.none⟩, ⟨"cond", false, .optVar, some Val.none⟩, ⟨"v_initial", false, .seqVar, some (Val.other "()")⟩, ⟨"body", true, .callback, none⟩],
    attrWires := [⟨"body", .graph, false, "body", "body", true⟩],
    inputWires := [("M", "M"), ("cond", "cond"), ("v_initial", "v_initial")],
    outVar := .lenResults "body" 1, ret := .field "v_final_and_scan_outputs" }

def f_lp_normalization : Ctor :=
  { pyName := "v17.lp_normalization", cls := Generated.Ctors.v17.cls_LpNormalization,
    params := [⟨"input", false, .var, none⟩, ⟨"axis", true, .attr, some (Val.int (-1))⟩, ⟨"p", true, .attr, some (Val.int 2)⟩],
    attrWires := [⟨"axis", .int, false, "axis", "axis", false⟩, ⟨"p", .int, false, "p", "p", false⟩],
    inputWires := [("input", "input")],
    outVar := .none, ret := .field "output" }

def f_lp_pool : Ctor :=
  { pyName := "v17.lp_pool", cls := Generated.Ctors.v17.cls_LpPool,
    params := [⟨"X", false, .var, none⟩, ⟨"auto_pad", true, .attr, some (Val.str "NOTSET")⟩, ⟨"kernel_shape", true, .attr, none⟩, ⟨"p", true, .attr, some (Val.int 2)⟩, ⟨"pads", true, .attr, some Val.none⟩, ⟨"strides", true, .attr, some Val.none⟩],
    attrWires := [⟨"auto_pad", .string, false, "auto_pad", "auto_pad", false⟩, ⟨"kernel_shape", .ints, false, "kernel_shape", "kernel_shape", false⟩, ⟨"p", .int, false, "p", "p", false⟩, ⟨"pads", .ints, true, "pads", "pads", false⟩, ⟨"strides", .ints, true, "strides", "strides", false⟩],
    inputWires := [("X", "X")],
    outVar := .none, ret := .field "Y" }

def f_matmul : Ctor :=
  { pyName := "v17.matmul", cls := Generated.Ctors.v17.cls_MatMul,
    params := [⟨"A", false, .var, none⟩, ⟨"B", false, .var, none⟩],
    attrWires := [],
    inputWires := [("A", "A"), ("B", "B")],
    outVar := .none, ret := .field "Y" }

def f_matmul_integer : Ctor :=
  { pyName := "v17.matmul_integer", cls := Generated.Ctors.v17.cls_MatMulInteger,
    params := [⟨"A", false, .var, none⟩, ⟨"B", false, .var, none⟩, ⟨"a_zero_point", false, .optVar, some Val.none⟩, ⟨"b_zero_point", false, .optVar, some Val.none⟩],
    attrWires := [],
    inputWires := [("A", "A"), ("B", "B"), ("a_zero_point", "a_zero_point"), ("b_zero_point", "b_zero_point")],
    outVar := .none, ret := .field "Y" }

def f_max : Ctor :=
  { pyName := "v17.max", cls := Generated.Ctors.v17.cls_Max,
    params := [⟨"data_0", false, .seqVar, none⟩],
    attrWires := [],
    inputWires := [("data_0", "data_0")],
    outVar := .none, ret := .field "max" }

def f_max_pool : Ctor :=
  { pyName := "v17.max_pool", cls := Generated.Ctors.v17.cls_MaxPool,
    params := [⟨"X", false, .var, none⟩, ⟨"auto_pad", true, .attr, some (Val.str "NOTSET")⟩, ⟨"ceil_mode", true, .attr, some (Val.int 0)⟩, ⟨"dilations", true, .attr, some Val.none⟩, ⟨"kernel_shape", true, .attr, none⟩, ⟨"pads", true, .attr, some Val.none⟩, ⟨"storage_order", true, .attr, some (Val.int 0)⟩, ⟨"strides", true, .attr, some Val.none⟩],
    attrWires := [⟨"auto_pad", .string, false, "auto_pad", "auto_pad", false⟩, ⟨"ceil_mode", .int, false, "ceil_mode", "ceil_mode", false⟩, ⟨"dilations", .ints, true, "dilations", "dilations", false⟩, ⟨"kernel_shape", .ints, false, "kernel_shape", "kernel_shape", false⟩, ⟨"pads", .ints, true, "pads", "pads", false⟩, ⟨"storage_order", .int, false, "storage_order", "storage_order", false⟩, ⟨"strides", .ints, true, "strides", "strides", false⟩],
    inputWires := [("X", "X")],
    outVar := .none, ret := .unpack }

def f_max_roi_pool : Ctor :=
  { pyName := "v17.max_roi_pool", cls := Generated.Ctors.v17.cls_MaxRoiPool,
    params := [⟨"X", false, .var, none⟩, ⟨"rois", false, .var, none⟩, ⟨"pooled_shape", true, .attr, none⟩, ⟨"spatial_scale", true, .attr, some (Val.float 1065353216)⟩],
    attrWires := [⟨"pooled_shape", .ints, false, "pooled_shape", "pooled_shape", false⟩, ⟨"spatial_scale", .float, false, "spatial_scale", "spatial_scale", false⟩],
    inputWires := [("X", "X"), ("rois", "rois")],
    outVar := .none, ret := .field "Y" }

def f_max_unpool : Ctor :=
  { pyName := "v17.max_unpool", cls := Generated.Ctors.v17.cls_MaxUnpool,
    params := [⟨"X", false, .var, none⟩, ⟨"I", false, .var, none⟩, ⟨"output_shape", false, .optVar, some Val.none⟩, ⟨"kernel_shape", true, .attr, none⟩, ⟨"pads", true, .attr, some Val.none⟩, ⟨"strides", true, .attr, some Val.none⟩],
    attrWires := [⟨"kernel_shape", .ints, false, "kernel_shape", "kernel_shape", false⟩, ⟨"pads", .ints, true, "pads", "pads", false⟩, ⟨"strides", .ints, true, "strides", "strides", false⟩],
    inputWires := [("X", "X"), ("I", "I"), ("output_shape", "output_shape")],
    outVar := .none, ret := .field "output" }

def f_mean : Ctor :=
  { pyName := "v17.mean", cls := Generated.Ctors.v17.cls_Mean,
    params := [⟨"data_0", false, .seqVar, none⟩],
    attrWires := [],
    inputWires := [("data_0", "data_0")],
    outVar := .none, ret := .field "mean" }

def f_mean_variance_normalization : Ctor :=
  { pyName := "v17.mean_variance_normalization", cls := Generated.Ctors.v17.cls_MeanVarianceNormalization,
    params := [⟨"X", false, .var, none⟩, ⟨"axes", true, .attr, some (Val.ints [0, 2, 3])⟩],
    attrWires := [⟨"axes", .ints, false, "axes", "axes", false⟩],
    inputWires := [("X", "X")],
    outVar := .none, ret := .field "Y" }

def f_mel_weight_matrix : Ctor :=
  { pyName := "v17.mel_weight_matrix", cls := Generated.Ctors.v17.cls_MelWeightMatrix,
    params := [⟨"num_mel_bins", false, .var, none⟩, ⟨"dft_length", false, .var, none⟩, ⟨"sample_rate", false, .var, none⟩, ⟨"lower_edge_hertz", false, .var, none⟩, ⟨"upper_edge_hertz", false, .var, none⟩, ⟨"output_datatype", true, .attr, some (Val.int 1)⟩],
    attrWires := [⟨"output_datatype", .int, false, "output_datatype", "output_datatype", false⟩],
    inputWires := [("num_mel_bins", "num_mel_bins"), ("dft_length", "dft_length"), ("sample_rate", "sample_rate"), ("lower_edge_hertz", "lower_edge_hertz"), ("upper_edge_hertz", "upper_edge_hertz")],
    outVar := .none, ret := .field "output" }

def f_min : Ctor :=
  { pyName := "v17.min", cls := Generated.Ctors.v17.cls_Min,
    params := [⟨"data_0", false, .seqVar, none⟩],
    attrWires := [],
    inputWires := [("data_0", "data_0")],
    outVar := .none, ret := .field "min" }

def f_mod : Ctor :=
  { pyName := "v17.mod", cls := Generated.Ctors.v17.cls_Mod,
    params := [⟨"A", false, .var, none⟩, ⟨"B", false, .var, none⟩, ⟨"fmod", true, .attr, some (Val.int 0)⟩],
    attrWires := [⟨"fmod", .int, false, "fmod", "fmod", false⟩],
    inputWires := [("A", "A"), ("B", "B")],
    outVar := .none, ret := .field "C" }

def f_mul : Ctor :=
  { pyName := "v17.mul", cls := Generated.Ctors.v17.cls_Mul,
    params := [⟨"A", false, .var, none⟩, ⟨"B", false, .var, none⟩],
    attrWires := [],
    inputWires := [("A", "A"), ("B", "B")],
    outVar := .none, ret := .field "C" }

def f_multinomial : Ctor :=
  { pyName := "v17.multinomial", cls := Generated.Ctors.v17.cls_Multinomial,
    params := [⟨"input", false, .var, none⟩, ⟨"dtype", true, .attr, some (Val.dtype "int32")⟩, ⟨"sample_size", true, .attr, some (Val.int 1)⟩, ⟨"seed", true, .attr, some Val.none⟩],
    attrWires := [⟨"dtype", .dtype, false, "dtype", "dtype", false⟩, ⟨"sample_size", .int, false, "sample_size", "sample_size", false⟩, ⟨"seed", .float, true, "seed", "seed", false⟩],
    inputWires := [("input", "input")],
    outVar := .none, ret := .field "output" }

def f_neg : Ctor :=
  { pyName := "v17.neg", cls := Generated.Ctors.v17.cls_Neg,
    params := [⟨"X", false, .var, none⟩],
    attrWires := [],
    inputWires := [("X", "X")],
    outVar := .none, ret := .field "Y" }

def f_negative_log_likelihood_loss : Ctor :=
  { pyName := "v17.negative_log_likelihood_loss", cls := Generated.Ctors.v17.cls_NegativeLogLikelihoodLoss,
    params := [⟨"input", false, .var, none⟩, ⟨"target", false, .var, none⟩, ⟨"weight", false, .optVar, some Val.none⟩, ⟨"ignore_index", true, .attr, some Val.none⟩, ⟨"reduction", true, .attr, some (Val.str "mean")⟩],
    attrWires := [⟨"ignore_index", .int, true, "ignore_index", "ignore_index", false⟩, ⟨"reduction", .string, false, "reduction", "reduction", false⟩],
    inputWires := [("input", "input"), ("target", "target"), ("weight", "weight")],
    outVar := .none, ret := .field "loss" }

def f_non_max_suppression : Ctor :=
  { pyName := "v17.non_max_suppression", cls := Generated.Ctors.v17.cls_NonMaxSuppression,
    params := [⟨"boxes", false, .var, none⟩, ⟨"scores", false, .var, none⟩, ⟨"max_output_boxes_per_class", false, .optVar, some Val.none⟩, ⟨"iou_threshold", false, .optVar, some Val.none⟩, ⟨"score_threshold", false, .optVar, some Val.none⟩, ⟨"center_point_box", true, .attr, some (Val.int 0)⟩],
    attrWires := [⟨"center_point_box", .int, false, "center_point_box", "center_point_box", false⟩],
    inputWires := [("boxes", "boxes"), ("scores", "scores"), ("max_output_boxes_per_class", "max_output_boxes_per_class"), ("iou_threshold", "iou_threshold"), ("score_threshold", "score_threshold")],
    outVar := .none, ret := .field "selected_indices" }

def f_non_zero : Ctor :=
  { pyName := "v17.non_zero", cls := Generated.Ctors.v17.cls_NonZero,
    params := [⟨"X", false, .var, none⟩],
    attrWires := [],
    inputWires := [("X", "X")],
    outVar := .none, ret := .field "Y" }

def f_not_ : Ctor :=
  { pyName := "v17.not_", cls := Generated.Ctors.v17.cls_Not,
    params := [⟨"X", false, .var, none⟩],
    attrWires := [],
    inputWires := [("X", "X")],
    outVar := .none, ret := .field "Y" }

def f_one_hot : Ctor :=
  { pyName := "v17.one_hot", cls := Generated.Ctors.v17.cls_OneHot,
    params := [⟨"indices", false, .var, none⟩, ⟨"depth", false, .var, none⟩, ⟨"values", false, .var, none⟩, ⟨"axis", true, .attr, some (Val.int (-1))⟩],
    attrWires := [⟨"axis", .int, false, "axis", "axis", false⟩],
    inputWires := [("indices", "indices"), ("depth", "depth"), ("values", "values")],
    outVar := .none, ret := .field "output" }

def f_optional : Ctor :=
  { pyName := "v17.optional", cls := Generated.Ctors.v17.cls_Optional,
    params := [⟨"input", false, .optVar, some Val.none⟩, ⟨"type", true, .attr, some Val.none⟩],
    attrWires := [⟨"type", .type, true, "type", "type", false⟩],
    inputWires := [("input", "input")],
    outVar := .none, ret := .field "output" }

def f_optional_get_element : Ctor :=
  { pyName := "v17.optional_get_element", cls := Generated.Ctors.v17.cls_OptionalGetElement,
    params := [⟨"input", false, .var, none⟩],
    attrWires := [],
    inputWires := [("input", "input")],
    outVar := .none, ret := .field "output" }

def f_optional_has_element : Ctor :=
  { pyName := "v17.optional_has_element", cls := Generated.Ctors.v17.cls_OptionalHasElement,
    params := [⟨"input", false, .var, none⟩],
    attrWires := [],
    inputWires := [("input", "input")],
    outVar := .none, ret := .field "output" }

def f_or_ : Ctor :=
  { pyName := "v17.or_", cls := Generated.Ctors.v17.cls_Or,
    params := [⟨"A", false, .var, none⟩, ⟨"B", false, .var, none⟩],
    attrWires := [],
    inputWires := [("A", "A"), ("B", "B")],
    outVar := .none, ret := .field "C" }

def f_prelu : Ctor :=
  { pyName := "v17.prelu", cls := Generated.Ctors.v17.cls_PRelu,
    params := [⟨"X", false, .var, none⟩, ⟨"slope", false, .var, none⟩],
    attrWires := [],
    inputWires := [("X", "X"), ("slope", "slope")],
    outVar := .none, ret := .field "Y" }

def f_pad : Ctor :=
  { pyName := "v17.pad", cls := Generated.Ctors.v17.cls_Pad,
    params := [⟨"data", false, .var, none⟩, ⟨"pads", false, .var, none⟩, ⟨"constant_value", false, .optVar, some Val.none⟩, ⟨"mode", true, .attr, some (Val.str "constant")⟩],
    attrWires := [⟨"mode", .string, false, "mode", "mode", false⟩],
    inputWires := [("data", "data"), ("pads", "pads"), ("constant_value", "constant_value")],
    outVar := .none, ret := .field "output" }

def f_pow : Ctor :=
  { pyName := "v17.pow", cls := Generated.Ctors.v17.cls_Pow,
    params := [⟨"X", false, .var, none⟩, ⟨"Y", false, .var, none⟩],
    attrWires := [],
    inputWires := [("X", "X"), ("Y", "Y")],
    outVar := .none, ret := .field "Z" }

def f_qlinear_conv : Ctor :=
  { pyName := "v17.qlinear_conv", cls := Generated.Ctors.v17.cls_QLinearConv,
    params := [⟨"x", false, .var, none⟩, ⟨"x_scale", false, .var, none⟩, ⟨"x_zero_point", false, .var, none⟩, ⟨"w", false, .var, none⟩, ⟨"w_scale", false, .var, none⟩, ⟨"w_zero_point", false, .var, none⟩, ⟨"y_scale", false, .var, none⟩, ⟨"y_zero_point", false, .var, none⟩, ⟨"B", false, .optVar, some Val.none⟩, ⟨"auto_pad", true, .attr, some (Val.str "NOTSET")⟩, ⟨"dilations", true, .attr, some Val.none⟩, ⟨"group", true, .attr, some (Val.int 1)⟩, ⟨"kernel_shape", true, .attr, some Val.none⟩, ⟨"pads", true, .attr, some Val.none⟩, ⟨"strides", true, .attr, some Val.none⟩],
    attrWires := [⟨"auto_pad", .string, false, "auto_pad", "auto_pad", false⟩, ⟨"dilations", .ints, true, "dilations", "dilations", false⟩, ⟨"group", .int, false, "group", "group", false⟩, ⟨"kernel_shape", .ints, true, "kernel_shape", "kernel_shape", false⟩, ⟨"pads", .ints, true, "pads", "pads", false⟩, ⟨"strides", .ints, true, "strides", "strides", false⟩],
    inputWires := [("x", "x"), ("x_scale", "x_scale"), ("x_zero_point", "x_zero_point"), ("w", "w"), ("w_scale", "w_scale"), ("w_zero_point", "w_zero_point"), ("y_scale", "y_scale"), ("y_zero_point", "y_zero_point"), ("B", "B")],
    outVar := .none, ret := .field "y" }

def f_qlinear_matmul : Ctor :=
  { pyName := "v17.qlinear_matmul", cls := Generated.Ctors.v17.cls_QLinearMatMul,
    params := [⟨"a", false, .var, none⟩, ⟨"a_scale", false, .var, none⟩, ⟨"a_zero_point", false, .var, none⟩, ⟨"b", false, .var, none⟩, ⟨"b_scale", false, .var, none⟩, ⟨"b_zero_point", false, .var, none⟩, ⟨"y_scale", false, .var, none⟩, ⟨"y_zero_point", false, .var, none⟩],
    attrWires := [],
    inputWires := [("a", "a"), ("a_scale", "a_scale"), ("a_zero_point", "a_zero_point"), ("b", "b"), ("b_scale", "b_scale"), ("b_zero_point", "b_zero_point"), ("y_scale", "y_scale"), ("y_zero_point", "y_zero_point")],
    outVar := .none, ret := .field "y" }

def f_quantize_linear : Ctor :=
  { pyName := "v17.quantize_linear", cls := Generated.Ctors.v17.cls_QuantizeLinear,
    params := [⟨"x", false, .var, none⟩, ⟨"y_scale", false, .var, none⟩, ⟨"y_zero_point", false, .optVar, some Val.none⟩, ⟨"axis", true, .attr, some (Val.int 1)⟩],
    attrWires := [⟨"axis", .int, false, "axis", "axis", false⟩],
    inputWires := [("x", "x"), ("y_scale", "y_scale"), ("y_zero_point", "y_zero_point")],
    outVar := .none, ret := .field "y" }

def f_rnn : Ctor :=
  { pyName := "v17.rnn", cls := Generated.Ctors.v17.cls_RNN,
    params := [⟨"X", false, .var, none⟩, ⟨"W", false, .var, none⟩, ⟨"R", false, .var, none⟩, ⟨"B", false, .optVar, some Val.none⟩, ⟨"sequence_lens", false, .optVar, some Val.none⟩, ⟨"initial_h", false, .optVar, some Val.none⟩, ⟨"activation_alpha", true, .attr, some Val.none⟩, ⟨"activation_beta", true, .attr, some Val.none⟩, ⟨"activations", true, .attr, some (Val.strs ["Tanh", "Tanh"])⟩, ⟨"clip", true, .attr, some Val.none⟩, ⟨"direction", true, .attr, some (Val.str "forward")⟩, ⟨"hidden_size", true, .attr, some Val.none⟩, ⟨"layout", true, .attr, some (Val.int 0)⟩],
    attrWires := [⟨"activation_alpha", .floats, true, "activation_alpha", "activation_alpha", false⟩, ⟨"activation_beta", .floats, true, "activation_beta", "activation_beta", false⟩, ⟨"activations", .strings, false, "activations", "activations", false⟩, ⟨"clip", .float, true, "clip", "clip", false⟩, ⟨"direction", .string, false, "direction", "direction", false⟩, ⟨"hidden_size", .int, true, "hidden_size", "hidden_size", false⟩, ⟨"layout", .int, false, "layout", "layout", false⟩],
    inputWires := [("X", "X"), ("W", "W"), ("R", "R"), ("B", "B"), ("sequence_lens", "sequence_lens"), ("initial_h", "initial_h")],
    outVar := .none, ret := .unpack }

def f_random_normal : Ctor :=
  { pyName := "v17.random_normal", cls := Generated.Ctors.v17.cls_RandomNormal,
    params := [⟨"dtype", true, .attr, some (Val.dtype "float32")⟩, ⟨"mean", true, .attr, some (Val.float 0)⟩, ⟨"scale", true, .attr, some (Val.float 1065353216)⟩, ⟨"seed", true, .attr, some Val.none⟩, ⟨"shape", true, .attr, none⟩],
    attrWires := [⟨"dtype", .dtype, false, "dtype", "dtype", false⟩, ⟨"mean", .float, false, "mean", "mean", false⟩, ⟨"scale", .float, false, "scale", "scale", false⟩, ⟨"seed", .float, true, "seed", "seed", false⟩, ⟨"shape", .ints, false, "shape", "shape", false⟩],
    inputWires := [],
    outVar := .none, ret := .field "output" }

def f_random_normal_like : Ctor :=
  { pyName := "v17.random_normal_like", cls := Generated.Ctors.v17.cls_RandomNormalLike,
    params := [⟨"input", false, .var, none⟩, ⟨"dtype", true, .attr, some Val.none⟩, ⟨"mean", true, .attr, some (Val.float 0)⟩, ⟨"scale", true, .attr, some (Val.float 1065353216)⟩, ⟨"seed", true, .attr, some Val.none⟩],
    attrWires := [⟨"dtype", .dtype, true, "dtype", "dtype", false⟩, ⟨"mean", .float, false, "mean", "mean", false⟩, ⟨"scale", .float, false, "scale", "scale", false⟩, ⟨"seed", .float, true, "seed", "seed", false⟩],
    inputWires := [("input", "input")],
    outVar := .none, ret := .field "output" }

def f_random_uniform : Ctor :=
  { pyName := "v17.random_uniform", cls := Generated.Ctors.v17.cls_RandomUniform,
    params := [⟨"dtype", true, .attr, some (Val.dtype "float32")⟩, ⟨"high", true, .attr, some (Val.float 1065353216)⟩, ⟨"low", true, .attr, some (Val.float 0)⟩, ⟨"seed", true, .attr, some Val.none⟩, ⟨"shape", true, .attr, none⟩],
    attrWires := [⟨"dtype", .dtype, false, "dtype", "dtype", false⟩, ⟨"high", .float, false, "high", "high", false⟩, ⟨"low", .float, false, "low", "low", false⟩, ⟨"seed", .float, true, "seed", "seed", false⟩, ⟨"shape", .ints, false, "shape", "shape", false⟩],
    inputWires := [],
    outVar := .none, ret := .field "output" }

def f_random_uniform_like : Ctor :=
  { pyName := "v17.random_uniform_like", cls := Generated.Ctors.v17.cls_RandomUniformLike,
    params := [⟨"input", false, .var, none⟩, ⟨"dtype", true, .attr, some Val.none⟩, ⟨"high", true, .attr, some (Val.float 1065353216)⟩, ⟨"low", true, .attr, some (Val.float 0)⟩, ⟨"seed", true, .attr, some Val.none⟩],
    attrWires := [⟨"dtype", .dtype, true, "dtype", "dtype", false⟩, ⟨"high", .float, false, "high", "high", false⟩, ⟨"low", .float, false, "low", "low", false⟩, ⟨"seed", .float, true, "seed", "seed", false⟩],
    inputWires := [("input", "input")],
    outVar := .none, ret := .field "output" }

def f_range : Ctor :=
  { pyName := "v17.range", cls := Generated.Ctors.v17.cls_Range,
    params := [⟨"start", false, .var, none⟩, ⟨"limit", false, .var, none⟩, ⟨"delta", false, .var, none⟩],
    attrWires := [],
    inputWires := [("start", "start"), ("limit", "limit"), ("delta", "delta")],
    outVar := .none, ret := .field "output" }

def f_reciprocal : Ctor :=
  { pyName := "v17.reciprocal", cls := Generated.Ctors.v17.cls_Reciprocal,
    params := [⟨"X", false, .var, none⟩],
    attrWires := [],
    inputWires := [("X", "X")],
    outVar := .none, ret := .field "Y" }

def f_reduce_l1 : Ctor :=
  { pyName := "v17.reduce_l1", cls := Generated.Ctors.v17.cls_ReduceL1,
    params := [⟨"data", false, .var, none⟩, ⟨"axes", true, .attr, some Val.none⟩, ⟨"keepdims", true, .attr, some (Val.int 1)⟩],
    attrWires := [⟨"axes", .ints, true, "axes", "axes", false⟩, ⟨"keepdims", .int, false, "keepdims", "keepdims", false⟩],
    inputWires := [("data", "data")],
    outVar := .none, ret := .field "reduced" }

def f_reduce_l2 : Ctor :=
  { pyName := "v17.reduce_l2", cls := Generated.Ctors.v17.cls_ReduceL2,
    params := [⟨"data", false, .var, none⟩, ⟨"axes", true, .attr, some Val.none⟩, ⟨"keepdims", true, .attr, some (Val.int 1)⟩],
    attrWires := [⟨"axes", .ints, true, "axes", "axes", false⟩, ⟨"keepdims", .int, false, "keepdims", "keepdims", false⟩],
    inputWires := [("data", "data")],
    outVar := .none, ret := .field "reduced" }

def f_reduce_log_sum : Ctor :=
  { pyName := "v17.reduce_log_sum", cls := Generated.Ctors.v17.cls_ReduceLogSum,
    params := [⟨"data", false, .var, none⟩, ⟨"axes", true, .attr, some Val.none⟩, ⟨"keepdims", true, .attr, some (Val.int 1)⟩],
    attrWires := [⟨"axes", .ints, true, "axes", "axes", false⟩, ⟨"keepdims", .int, false, "keepdims", "keepdims", false⟩],
    inputWires := [("data", "data")],
    outVar := .none, ret := .field "reduced" }

def f_reduce_log_sum_exp : Ctor :=
  { pyName := "v17.reduce_log_sum_exp", cls := Generated.Ctors.v17.cls_ReduceLogSumExp,
    params := [⟨"data", false, .var, none⟩, ⟨"axes", true, .attr, some Val.none⟩, ⟨"keepdims", true, .attr, some (Val.int 1)⟩],
    attrWires := [⟨"axes", .ints, true, "axes", "axes", false⟩, ⟨"keepdims", .int, false, "keepdims", "keepdims", false⟩],
    inputWires := [("data", "data")],
    outVar := .none, ret := .field "reduced" }

def f_reduce_max : Ctor :=
  { pyName := "v17.reduce_max", cls := Generated.Ctors.v17.cls_ReduceMax,
    params := [⟨"data", false, .var, none⟩, ⟨"axes", true, .attr, some Val.none⟩, ⟨"keepdims", true, .attr, some (Val.int 1)⟩],
    attrWires := [⟨"axes", .ints, true, "axes", "axes", false⟩, ⟨"keepdims", .int, false, "keepdims", "keepdims", false⟩],
    inputWires := [("data", "data")],
    outVar := .none, ret := .field "reduced" }

def f_reduce_mean : Ctor :=
  { pyName := "v17.reduce_mean", cls := Generated.Ctors.v17.cls_ReduceMean,
    params := [⟨"data", false, .var, none⟩, ⟨"axes", true, .attr, some Val.none⟩, ⟨"keepdims", true, .attr, some (Val.int 1)⟩],
    attrWires := [⟨"axes", .ints, true, "axes", "axes", false⟩, ⟨"keepdims", .int, false, "keepdims", "keepdims", false⟩],
    inputWires := [("data", "data")],
    outVar := .none, ret := .field "reduced" }

def f_reduce_min : Ctor :=
  { pyName := "v17.reduce_min", cls := Generated.Ctors.v17.cls_ReduceMin,
    params := [⟨"data", false, .var, none⟩, ⟨"axes", true, .attr, some Val.none⟩, ⟨"keepdims", true, .attr, some (Val.int 1)⟩],
    attrWires := [⟨"axes", .ints, true, "axes", "axes", false⟩, ⟨"keepdims", .int, false, "keepdims", "keepdims", false⟩],
    inputWires := [("data", "data")],
    outVar := .none, ret := .field "reduced" }

def f_reduce_prod : Ctor :=
  { pyName := "v17.reduce_prod", cls := Generated.Ctors.v17.cls_ReduceProd,
    params := [⟨"data", false, .var, none⟩, ⟨"axes", true, .attr, some Val.none⟩, ⟨"keepdims", true, .attr, some (Val.int 1)⟩],
    attrWires := [⟨"axes", .ints, true, "axes", "axes", false⟩, ⟨"keepdims", .int, false, "keepdims", "keepdims", false⟩],
    inputWires := [("data", "data")],
    outVar := .none, ret := .field "reduced" }

def f_reduce_sum : Ctor :=
  { pyName := "v17.reduce_sum", cls := Generated.Ctors.v17.cls_ReduceSum,
    params := [⟨"data", false, .var, none⟩, ⟨"axes", false, .optVar, some Val.none⟩, ⟨"keepdims", true, .attr, some (Val.int 1)⟩, ⟨"noop_with_empty_axes", true, .attr, some (Val.int 0)⟩],
    attrWires := [⟨"keepdims", .int, false, "keepdims", "keepdims", false⟩, ⟨"noop_with_empty_axes", .int, false, "noop_with_empty_axes", "noop_with_empty_axes", false⟩],
    inputWires := [("data", "data"), ("axes", "axes")],
    outVar := .none, ret := .field "reduced" }

def f_reduce_sum_square : Ctor :=
  { pyName := "v17.reduce_sum_square", cls := Generated.Ctors.v17.cls_ReduceSumSquare,
    params := [⟨"data", false, .var, none⟩, ⟨"axes", true, .attr, some Val.none⟩, ⟨"keepdims", true, .attr, some (Val.int 1)⟩],
    attrWires := [⟨"axes", .ints, true, "axes", "axes", false⟩, ⟨"keepdims", .int, false, "keepdims", "keepdims", false⟩],
    inputWires := [("data", "data")],
    outVar := .none, ret := .field "reduced" }

def f_relu : Ctor :=
  { pyName := "v17.relu", cls := Generated.Ctors.v17.cls_Relu,
    params := [⟨"X", false, .var, none⟩],
    attrWires := [],
    inputWires := [("X", "X")],
    outVar := .none, ret := .field "Y" }

def f_reshape : Ctor :=
  { pyName := "v17.reshape", cls := Generated.Ctors.v17.cls_Reshape,
    params := [⟨"data", false, .var, none⟩, ⟨"shape", false, .var, none⟩, ⟨"allowzero", true, .attr, some (Val.int 0)⟩],
    attrWires := [⟨"allowzero", .int, false, "allowzero", "allowzero", false⟩],
    inputWires := [("data", "data"), ("shape", "shape")],
    outVar := .none, ret := .field "reshaped" }

def f_resize : Ctor :=
  { pyName := "v17.resize", cls := Generated.Ctors.v17.cls_Resize,
    params := [⟨"X", false, .var, none⟩, ⟨"roi", false, .optVar, some Val.none⟩, ⟨"scales", false, .optVar, some Val.none⟩, ⟨"sizes", false, .optVar, some Val.none⟩, ⟨"coordinate_transformation_mode", true, .attr, some (Val.str "half_pixel")⟩, ⟨"cubic_coeff_a", true, .attr, some (Val.float 3208642560)⟩, ⟨"exclude_outside", true, .attr, some (Val.int 0)⟩, ⟨"extrapolation_value", true, .attr, some (Val.float 0)⟩, ⟨"mode", true, .attr, some (Val.str "nearest")⟩, ⟨"nearest_mode", true, .attr, some (Val.str "round_prefer_floor")⟩],
    attrWires := [⟨"coordinate_transformation_mode", .string, false, "coordinate_transformation_mode", "coordinate_transformation_mode", false⟩, ⟨"cubic_coeff_a", .float, false, "cubic_coeff_a", "cubic_coeff_a", false⟩, ⟨"exclude_outside", .int, false, "exclude_outside", "exclude_outside", false⟩, ⟨"extrapolation_value", .float, false, "extrapolation_value", "extrapolation_value", false⟩, ⟨"mode", .string, false, "mode", "mode", false⟩, ⟨"nearest_mode", .string, false, "nearest_mode", "nearest_mode", false⟩],
    inputWires := [("X", "X"), ("roi", "roi"), ("scales", "scales"), ("sizes", "sizes")],
    outVar := .none, ret := .field "Y" }

def f_reverse_sequence : Ctor :=
  { pyName := "v17.reverse_sequence", cls := Generated.Ctors.v17.cls_ReverseSequence,
    params := [⟨"input", false, .var, none⟩, ⟨"sequence_lens", false, .var, none⟩, ⟨"batch_axis", true, .attr, some (Val.int 1)⟩, ⟨"time_axis", true, .attr, some (Val.int 0)⟩],
    attrWires := [⟨"batch_axis", .int, false, "batch_axis", "batch_axis", false⟩, ⟨"time_axis", .int, false, "time_axis", "time_axis", false⟩],
    inputWires := [("input", "input"), ("sequence_lens", "sequence_lens")],
    outVar := .none, ret := .field "Y" }

def f_roi_align : Ctor :=
  { pyName := "v17.roi_align", cls := Generated.Ctors.v17.cls_RoiAlign,
    params := [⟨"X", false, .var, none⟩, ⟨"rois", false, .var, none⟩, ⟨"batch_indices", false, .var, none⟩, ⟨"coordinate_transformation_mode", true, .attr, some (Val.str "half_pixel")⟩, ⟨"mode", true, .attr, some (Val.str "avg")⟩, ⟨"output_height", true, .attr, some (Val.int 1)⟩, ⟨"output_width", true, .attr, some (Val.int 1)⟩, ⟨"sampling_ratio", true, .attr, some (Val.int 0)⟩, ⟨"spatial_scale", true, .attr, some (Val.float 1065353216)⟩],
    attrWires := [⟨"coordinate_transformation_mode", .string, false, "coordinate_transformation_mode", "coordinate_transformation_mode", false⟩, ⟨"mode", .string, false, "mode", "mode", false⟩, ⟨"output_height", .int, false, "output_height", "output_height", false⟩, ⟨"output_width", .int, false, "output_width", "output_width", false⟩, ⟨"sampling_ratio", .int, false, "sampling_ratio", "sampling_ratio", false⟩, ⟨"spatial_scale", .float, false, "spatial_scale", "spatial_scale", false⟩],
    inputWires := [("X", "X"), ("rois", "rois"), ("batch_indices", "batch_indices")],
    outVar := .none, ret := .field "Y" }

def f_round : Ctor :=
  { pyName := "v17.round", cls := Generated.Ctors.v17.cls_Round,
    params := [⟨"X", false, .var, none⟩],
    attrWires := [],
    inputWires := [("X", "X")],
    outVar := .none, ret := .field "Y" }

def f_stft : Ctor :=
  { pyName := "v17.stft", cls := Generated.Ctors.v17.cls_STFT,
    params := [⟨"signal", false, .var, none⟩, ⟨"frame_step", false, .var, none⟩, ⟨"window", false, .optVar, some Val.none⟩, ⟨"frame_length", false, .optVar, some Val.none⟩, ⟨"onesided", true, .attr, some (Val.int 1)⟩],
    attrWires := [⟨"onesided", .int, false, "onesided", "onesided", false⟩],
    inputWires := [("signal", "signal"), ("frame_step", "frame_step"), ("window", "window"), ("frame_length", "frame_length")],
    outVar := .none, ret := .field "output" }

def f_scan : Ctor :=
  { pyName := "v17.scan", cls := Generated.Ctors.v17.cls_Scan,
    params := [⟨"initial_state_and_scan_inputs", false, .seqVar, none⟩, ⟨"body", true, .callback, none⟩, ⟨"num_scan_inputs", true, .attr, none⟩, ⟨"scan_input_axes", true, .attr, some Val.none⟩, ⟨"scan_input_directions", true, .attr, some Val.none⟩, ⟨"scan_output_axes", true, .attr, some Val.none⟩, ⟨"scan_output_directions", true, .attr, some Val.none⟩],
    attrWires := [⟨"body", .graph, false, "body", "body", true⟩, ⟨"num_scan_inputs", .int, false, "num_scan_inputs", "num_scan_inputs", false⟩, ⟨"scan_input_axes", .ints, true, "scan_input_axes", "scan_input_axes", false⟩, ⟨"scan_input_directions", .ints, true, "scan_input_directions", "scan_input_directions", false⟩, ⟨"scan_output_axes", .ints, true, "scan_output_axes", "scan_output_axes", false⟩, ⟨"scan_output_directions", .ints, true, "scan_output_directions", "scan_output_directions", false⟩],
    inputWires := [("initial_state_and_scan_inputs", "initial_state_and_scan_inputs")],
    outVar := .lenResults "body" 0, ret := .field "final_state_and_scan_outputs" }

def f_scatter_elements : Ctor :=
  { pyName := "v17.scatter_elements", cls := Generated.Ctors.v17.cls_ScatterElements,
    params := [⟨"data", false, .var, none⟩, ⟨"indices", false, .var, none⟩, ⟨"updates", false, .var, none⟩, ⟨"axis", true, .attr, some (Val.int 0)⟩, ⟨"reduction", true, .attr, some (Val.str "none")⟩],
    attrWires := [⟨"axis", .int, false, "axis", "axis", false⟩, ⟨"reduction", .string, false, "reduction", "reduction", false⟩],
    inputWires := [("data", "data"), ("indices", "indices"), ("updates", "updates")],
    outVar := .none, ret := .field "output" }

def f_scatter_nd : Ctor :=
  { pyName := "v17.scatter_nd", cls := Generated.Ctors.v17.cls_ScatterND,
    params := [⟨"data", false, .var, none⟩, ⟨"indices", false, .var, none⟩, ⟨"updates", false, .var, none⟩, ⟨"reduction", true, .attr, some (Val.str "none")⟩],
    attrWires := [⟨"reduction", .string, false, "reduction", "reduction", false⟩],
    inputWires := [("data", "data"), ("indices", "indices"), ("updates", "updates")],
    outVar := .none, ret := .field "output" }

def f_selu : Ctor :=
  { pyName := "v17.selu", cls := Generated.Ctors.v17.cls_Selu,
    params := [⟨"X", false, .var, none⟩, ⟨"alpha", true, .attr, some (Val.float 1071000957)⟩, ⟨"gamma", true, .attr, some (Val.float 1065778527)⟩],
    attrWires := [⟨"alpha", .float, false, "alpha", "alpha", false⟩, ⟨"gamma", .float, false, "gamma", "gamma", false⟩],
    inputWires := [("X", "X")],
    outVar := .none, ret := .field "Y" }

def f_sequence_at : Ctor :=
  { pyName := "v17.sequence_at", cls := Generated.Ctors.v17.cls_SequenceAt,
    params := [⟨"input_sequence", false, .var, none⟩, ⟨"position", false, .var, none⟩],
    attrWires := [],
    inputWires := [("input_sequence", "input_sequence"), ("position", "position")],
    outVar := .none, ret := .field "tensor" }

def f_sequence_construct : Ctor :=
  { pyName := "v17.sequence_construct", cls := Generated.Ctors.v17.cls_SequenceConstruct,
    params := [⟨"inputs", false, .seqVar, none⟩],
    attrWires := [],
    inputWires := [("inputs", "inputs")],
    outVar := .none, ret := .field "output_sequence" }

def f_sequence_empty : Ctor :=
  { pyName := "v17.sequence_empty", cls := Generated.Ctors.v17.cls_SequenceEmpty,
    params := [⟨"dtype", true, .attr, some Val.none⟩],
    attrWires := [⟨"dtype", .dtype, true, "dtype", "dtype", false⟩],
    inputWires := [],
    outVar := .none, ret := .field "output" }

def f_sequence_erase : Ctor :=
  { pyName := "v17.sequence_erase", cls := Generated.Ctors.v17.cls_SequenceErase,
    params := [⟨"input_sequence", false, .var, none⟩, ⟨"position", false, .optVar, some Val.none⟩],
    attrWires := [],
    inputWires := [("input_sequence", "input_sequence"), ("position", "position")],
    outVar := .none, ret := .field "output_sequence" }

def f_sequence_insert : Ctor :=
  { pyName := "v17.sequence_insert", cls := Generated.Ctors.v17.cls_SequenceInsert,
    params := [⟨"input_sequence", false, .var, none⟩, ⟨"tensor", false, .var, none⟩, ⟨"position", false, .optVar, some Val.none⟩],
    attrWires := [],
    inputWires := [("input_sequence", "input_sequence"), ("tensor", "tensor"), ("position", "position")],
    outVar := .none, ret := .field "output_sequence" }

def f_sequence_length : Ctor :=
  { pyName := "v17.sequence_length", cls := Generated.Ctors.v17.cls_SequenceLength,
    params := [⟨"input_sequence", false, .var, none⟩],
    attrWires := [],
    inputWires := [("input_sequence", "input_sequence")],
    outVar := .none, ret := .field "length" }

def f_sequence_map : Ctor :=
  { pyName := "v17.sequence_map", cls := Generated.Ctors.v17.cls_SequenceMap,
    params := [⟨"input_sequence", false, .var, none⟩, ⟨"additional_inputs", false, .seqVar, some (Val.other "()")⟩, ⟨"body", true, .callback, none⟩],
    attrWires := [⟨"body", .graph, false, "body", "body", true⟩],
    inputWires := [("input_sequence", "input_sequence"), ("additional_inputs", "additional_inputs")],
    outVar := .lenResults "body" 0, ret := .field "out_sequence" }

def f_shape : Ctor :=
  { pyName := "v17.shape", cls := Generated.Ctors.v17.cls_Shape,
    params := [⟨"data", false, .var, none⟩, ⟨"end", true, .attr, some Val.none⟩, ⟨"start", true, .attr, some (Val.int 0)⟩],
    attrWires := [⟨"end", .int, true, "end", "end", false⟩, ⟨"start", .int, false, "start", "start", false⟩],
    inputWires := [("data", "data")],
    outVar := .none, ret := .field "shape" }

def f_shrink : Ctor :=
  { pyName := "v17.shrink", cls := Generated.Ctors.v17.cls_Shrink,
    params := [⟨"input", false, .var, none⟩, ⟨"bias", true, .attr, some (Val.float 0)⟩, ⟨"lambd", true, .attr, some (Val.float 1056964608)⟩],
    attrWires := [⟨"bias", .float, false, "bias", "bias", false⟩, ⟨"lambd", .float, false, "lambd", "lambd", false⟩],
    inputWires := [("input", "input")],
    outVar := .none, ret := .field "output" }

def f_sigmoid : Ctor :=
  { pyName := "v17.sigmoid", cls := Generated.Ctors.v17.cls_Sigmoid,
    params := [⟨"X", false, .var, none⟩],
    attrWires := [],
    inputWires := [("X", "X")],
    outVar := .none, ret := .field "Y" }

def f_sign : Ctor :=
  { pyName := "v17.sign", cls := Generated.Ctors.v17.cls_Sign,
    params := [⟨"input", false, .var, none⟩],
    attrWires := [],
    inputWires := [("input", "input")],
    outVar := .none, ret := .field "output" }

def f_sin : Ctor :=
  { pyName := "v17.sin", cls := Generated.Ctors.v17.cls_Sin,
    params := [⟨"input", false, .var, none⟩],
    attrWires := [],
    inputWires := [("input", "input")],
    outVar := .none, ret := .field "output" }

def f_sinh : Ctor :=
  { pyName := "v17.sinh", cls := Generated.Ctors.v17.cls_Sinh,
    params := [⟨"input", false, .var, none⟩],
    attrWires := [],
    inputWires := [("input", "input")],
    outVar := .none, ret := .field "output" }

def f_size : Ctor :=
  { pyName := "v17.size", cls := Generated.Ctors.v17.cls_Size,
    params := [⟨"data", false, .var, none⟩],
    attrWires := [],
    inputWires := [("data", "data")],
    outVar := .none, ret := .field "size" }

def f_slice : Ctor :=
  { pyName := "v17.slice", cls := Generated.Ctors.v17.cls_Slice,
    params := [⟨"data", false, .var, none⟩, ⟨"starts", false, .var, none⟩, ⟨"ends", false, .var, none⟩, ⟨"axes", false, .optVar, some Val.none⟩, ⟨"steps", false, .optVar, some Val.none⟩],
    attrWires := [],
    inputWires := [("data", "data"), ("starts", "starts"), ("ends", "ends"), ("axes", "axes"), ("steps", "steps")],
    outVar := .none, ret := .field "output" }

def f_softmax : Ctor :=
  { pyName := "v17.softmax", cls := Generated.Ctors.v17.cls_Softmax,
    params := [⟨"input", false, .var, none⟩, ⟨"axis", true, .attr, some (Val.int (-1))⟩],
    attrWires := [⟨"axis", .int, false, "axis", "axis", false⟩],
    inputWires := [("input", "input")],
    outVar := .none, ret := .field "output" }

def f_softmax_cross_entropy_loss : Ctor :=
  { pyName := "v17.softmax_cross_entropy_loss", cls := Generated.Ctors.v17.cls_SoftmaxCrossEntropyLoss,
    params := [⟨"scores", false, .var, none⟩, ⟨"labels", false, .var, none⟩, ⟨"weights", false, .optVar, some Val.none⟩, ⟨"ignore_index", true, .attr, some Val.none⟩, ⟨"reduction", true, .attr, some (Val.str "mean")⟩],
    attrWires := [⟨"ignore_index", .int, true, "ignore_index", "ignore_index", false⟩, ⟨"reduction", .string, false, "reduction", "reduction", false⟩],
    inputWires := [("scores", "scores"), ("labels", "labels"), ("weights", "weights")],
    outVar := .none, ret := .unpack }

def f_softplus : Ctor :=
  { pyName := "v17.softplus", cls := Generated.Ctors.v17.cls_Softplus,
    params := [⟨"X", false, .var, none⟩],
    attrWires := [],
    inputWires := [("X", "X")],
    outVar := .none, ret := .field "Y" }

def f_softsign : Ctor :=
  { pyName := "v17.softsign", cls := Generated.Ctors.v17.cls_Softsign,
    params := [⟨"input", false, .var, none⟩],
    attrWires := [],
    inputWires := [("input", "input")],
    outVar := .none, ret := .field "output" }

def f_space_to_depth : Ctor :=
  { pyName := "v17.space_to_depth", cls := Generated.Ctors.v17.cls_SpaceToDepth,
    params := [⟨"input", false, .var, none⟩, ⟨"blocksize", true, .attr, none⟩],
    attrWires := [⟨"blocksize", .int, false, "blocksize", "blocksize", false⟩],
    inputWires := [("input", "input")],
    outVar := .none, ret := .field "output" }

def f_split : Ctor :=
  { pyName := "v17.split", cls := Generated.Ctors.v17.cls_Split,
    params := [⟨"input", false, .var, none⟩, ⟨"split", false, .optVar, some Val.none⟩, ⟨"outputs_count", true, .attr, none⟩, ⟨"axis", true, .attr, some (Val.int 0)⟩],
    attrWires := [⟨"axis", .int, false, "axis", "axis", false⟩],
    inputWires := [("input", "input"), ("split", "split")],
    outVar := .param "outputs_count", ret := .field "outputs" }

def f_split_to_sequence : Ctor :=
  { pyName := "v17.split_to_sequence", cls := Generated.Ctors.v17.cls_SplitToSequence,
    params := [⟨"input", false, .var, none⟩, ⟨"split", false, .optVar, some Val.none⟩, ⟨"axis", true, .attr, some (Val.int 0)⟩, ⟨"keepdims", true, .attr, some (Val.int 1)⟩],
    attrWires := [⟨"axis", .int, false, "axis", "axis", false⟩, ⟨"keepdims", .int, false, "keepdims", "keepdims", false⟩],
    inputWires := [("input", "input"), ("split", "split")],
    outVar := .none, ret := .field "output_sequence" }

def f_sqrt : Ctor :=
  { pyName := "v17.sqrt", cls := Generated.Ctors.v17.cls_Sqrt,
    params := [⟨"X", false, .var, none⟩],
    attrWires := [],
    inputWires := [("X", "X")],
    outVar := .none, ret := .field "Y" }

def f_squeeze : Ctor :=
  { pyName := "v17.squeeze", cls := Generated.Ctors.v17.cls_Squeeze,
    params := [⟨"data", false, .var, none⟩, ⟨"axes", false, .optVar, some Val.none⟩],
    attrWires := [],
    inputWires := [("data", "data"), ("axes", "axes")],
    outVar := .none, ret := .field "squeezed" }

def f_string_normalizer : Ctor :=
  { pyName := "v17.string_normalizer", cls := Generated.Ctors.v17.cls_StringNormalizer,
    params := [⟨"X", false, .var, none⟩, ⟨"case_change_action", true, .attr, some (Val.str "NONE")⟩, ⟨"is_case_sensitive", true, .attr, some (Val.int 0)⟩, ⟨"locale", true, .attr, some Val.none⟩, ⟨"stopwords", true, .attr, some Val.none⟩],
    attrWires := [⟨"case_change_action", .string, false, "case_change_action", "case_change_action", false⟩, ⟨"is_case_sensitive", .int, false, "is_case_sensitive", "is_case_sensitive", false⟩, ⟨"locale", .string, true, "locale", "locale", false⟩, ⟨"stopwords", .strings, true, "stopwords", "stopwords", false⟩],
    inputWires := [("X", "X")],
    outVar := .none, ret := .field "Y" }

def f_sub : Ctor :=
  { pyName := "v17.sub", cls := Generated.Ctors.v17.cls_Sub,
    params := [⟨"A", false, .var, none⟩, ⟨"B", false, .var, none⟩],
    attrWires := [],
    inputWires := [("A", "A"), ("B", "B")],
    outVar := .none, ret := .field "C" }

def f_sum : Ctor :=
  { pyName := "v17.sum", cls := Generated.Ctors.v17.cls_Sum,
    params := [⟨"data_0", false, .seqVar, none⟩],
    attrWires := [],
    inputWires := [("data_0", "data_0")],
    outVar := .none, ret := .field "sum" }

def f_tan : Ctor :=
  { pyName := "v17.tan", cls := Generated.Ctors.v17.cls_Tan,
    params := [⟨"input", false, .var, none⟩],
    attrWires := [],
    inputWires := [("input", "input")],
    outVar := .none, ret := .field "output" }

def f_tanh : Ctor :=
  { pyName := "v17.tanh", cls := Generated.Ctors.v17.cls_Tanh,
    params := [⟨"input", false, .var, none⟩],
    attrWires := [],
    inputWires := [("input", "input")],
    outVar := .none, ret := .field "output" }

def f_tf_idf_vectorizer : Ctor :=
  { pyName := "v17.tf_idf_vectorizer", cls := Generated.Ctors.v17.cls_TfIdfVectorizer,
    params := [⟨"X", false, .var, none⟩, ⟨"max_gram_length", true, .attr, none⟩, ⟨"max_skip_count", true, .attr, none⟩, ⟨"min_gram_length", true, .attr, none⟩, ⟨"mode", true, .attr, none⟩, ⟨"ngram_counts", true, .attr, none⟩, ⟨"ngram_indexes", true, .attr, none⟩, ⟨"pool_int64s", true, .attr, some Val.none⟩, ⟨"pool_strings", true, .attr, some Val.none⟩, ⟨"weights", true, .attr, some Val.none⟩],
    attrWires := [⟨"max_gram_length", .int, false, "max_gram_length", "max_gram_length", false⟩, ⟨"max_skip_count", .int, false, "max_skip_count", "max_skip_count", false⟩, ⟨"min_gram_length", .int, false, "min_gram_length", "min_gram_length", false⟩, ⟨"mode", .string, false, "mode", "mode", false⟩, ⟨"ngram_counts", .ints, false, "ngram_counts", "ngram_counts", false⟩, ⟨"ngram_indexes", .ints, false, "ngram_indexes", "ngram_indexes", false⟩, ⟨"pool_int64s", .ints, true, "pool_int64s", "pool_int64s", false⟩, ⟨"pool_strings", .strings, true, "pool_strings", "pool_strings", false⟩, ⟨"weights", .floats, true, "weights", "weights", false⟩],
    inputWires := [("X", "X")],
    outVar := .none, ret := .field "Y" }

def f_thresholded_relu : Ctor :=
  { pyName := "v17.thresholded_relu", cls := Generated.Ctors.v17.cls_ThresholdedRelu,
    params := [⟨"X", false, .var, none⟩, ⟨"alpha", true, .attr, some (Val.float 1065353216)⟩],
    attrWires := [⟨"alpha", .float, false, "alpha", "alpha", false⟩],
    inputWires := [("X", "X")],
    outVar := .none, ret := .field "Y" }

def f_tile : Ctor :=
  { pyName := "v17.tile", cls := Generated.Ctors.v17.cls_Tile,
    params := [⟨"input", false, .var, none⟩, ⟨"repeats", false, .var, none⟩],
    attrWires := [],
    inputWires := [("input", "input"), ("repeats", "repeats")],
    outVar := .none, ret := .field "output" }

def f_top_k : Ctor :=
  { pyName := "v17.top_k", cls := Generated.Ctors.v17.cls_TopK,
    params := [⟨"X", false, .var, none⟩, ⟨"K", false, .var, none⟩, ⟨"axis", true, .attr, some (Val.int (-1))⟩, ⟨"largest", true, .attr, some (Val.int 1)⟩, ⟨"sorted", true, .attr, some (Val.int 1)⟩],
    attrWires := [⟨"axis", .int, false, "axis", "axis", false⟩, ⟨"largest", .int, false, "largest", "largest", false⟩, ⟨"sorted", .int, false, "sorted", "sorted", false⟩],
    inputWires := [("X", "X"), ("K", "K")],
    outVar := .none, ret := .unpack }

def f_transpose : Ctor :=
  { pyName := "v17.transpose", cls := Generated.Ctors.v17.cls_Transpose,
    params := [⟨"data", false, .var, none⟩, ⟨"perm", true, .attr, some Val.none⟩],
    attrWires := [⟨"perm", .ints, true, "perm", "perm", false⟩],
    inputWires := [("data", "data")],
    outVar := .none, ret := .field "transposed" }

def f_trilu : Ctor :=
  { pyName := "v17.trilu", cls := Generated.Ctors.v17.cls_Trilu,
    params := [⟨"input", false, .var, none⟩, ⟨"k", false, .optVar, some Val.none⟩, ⟨"upper", true, .attr, some (Val.int 1)⟩],
    attrWires := [⟨"upper", .int, false, "upper", "upper", false⟩],
    inputWires := [("input", "input"), ("k", "k")],
    outVar := .none, ret := .field "output" }

def f_unique : Ctor :=
  { pyName := "v17.unique", cls := Generated.Ctors.v17.cls_Unique,
    params := [⟨"X", false, .var, none⟩, ⟨"axis", true, .attr, some Val.none⟩, ⟨"sorted", true, .attr, some (Val.int 1)⟩],
    attrWires := [⟨"axis", .int, true, "axis", "axis", false⟩, ⟨"sorted", .int, false, "sorted", "sorted", false⟩],
    inputWires := [("X", "X")],
    outVar := .none, ret := .unpack }

def f_unsqueeze : Ctor :=
  { pyName := "v17.unsqueeze", cls := Generated.Ctors.v17.cls_Unsqueeze,
    params := [⟨"data", false, .var, none⟩, ⟨"axes", false, .var, none⟩],
    attrWires := [],
    inputWires := [("data", "data"), ("axes", "axes")],
    outVar := .none, ret := .field "expanded" }

def f_where : Ctor :=
  { pyName := "v17.where", cls := Generated.Ctors.v17.cls_Where,
    params := [⟨"condition", false, .var, none⟩, ⟨"X", false, .var, none⟩, ⟨"Y", false, .var, none⟩],
    attrWires := [],
    inputWires := [("condition", "condition"), ("X", "X"), ("Y", "Y")],
    outVar := .none, ret := .field "output" }

def f_xor : Ctor :=
  { pyName := "v17.xor", cls := Generated.Ctors.v17.cls_Xor,
    params := [⟨"A", false, .var, none⟩, ⟨"B", false, .var, none⟩],
    attrWires := [],
    inputWires := [("A", "A"), ("B", "B")],
    outVar := .none, ret := .field "C" }

end Generated.Ctors.v17
