-- GENERATED from onnx.defs (domain 'ai.onnx', version 19) by translator/constructors.py on every run; do not edit.
import SpoxModel.Model.Conform
import SpoxModel.Generated.Schemas_v18
namespace Generated.Schemas.v19
open Conform

def s_AveragePool_19 : Schema :=
  { name := "AveragePool", domain := "", since := 19, deprecated := false, minInput := 1, minOutput := 1,
    inputs := [("X", .single)],
    outputs := [("Y", .single)],
    attrs := [⟨"auto_pad", .STRING, false, (Val.str "NOTSET")⟩, ⟨"ceil_mode", .INT, false, (Val.int 0)⟩, ⟨"count_include_pad", .INT, false, (Val.int 0)⟩, ⟨"dilations", .INTS, false, Val.none⟩, ⟨"kernel_shape", .INTS, true, Val.none⟩, ⟨"pads", .INTS, false, Val.none⟩, ⟨"strides", .INTS, false, Val.none⟩] }

def s_Cast_19 : Schema :=
  { name := "Cast", domain := "", since := 19, deprecated := false, minInput := 1, minOutput := 1,
    inputs := [("input", .single)],
    outputs := [("output", .single)],
    attrs := [⟨"saturate", .INT, false, (Val.int 1)⟩, ⟨"to", .INT, true, Val.none⟩] }

def s_CastLike_19 : Schema :=
  { name := "CastLike", domain := "", since := 19, deprecated := false, minInput := 2, minOutput := 1,
    inputs := [("input", .single), ("target_type", .single)],
    outputs := [("output", .single)],
    attrs := [⟨"saturate", .INT, false, (Val.int 1)⟩] }

def s_Constant_19 : Schema :=
  { name := "Constant", domain := "", since := 19, deprecated := false, minInput := 0, minOutput := 1,
    inputs := [],
    outputs := [("output", .single)],
    attrs := [⟨"sparse_value", .SPARSE_TENSOR, false, Val.none⟩, ⟨"value", .TENSOR, false, Val.none⟩, ⟨"value_float", .FLOAT, false, Val.none⟩, ⟨"value_floats", .FLOATS, false, Val.none⟩, ⟨"value_int", .INT, false, Val.none⟩, ⟨"value_ints", .INTS, false, Val.none⟩, ⟨"value_string", .STRING, false, Val.none⟩, ⟨"value_strings", .STRINGS, false, Val.none⟩] }

def s_DeformConv_19 : Schema :=
  { name := "DeformConv", domain := "", since := 19, deprecated := false, minInput := 3, minOutput := 1,
    inputs := [("X", .single), ("W", .single), ("offset", .single), ("B", .optional), ("mask", .optional)],
    outputs := [("Y", .single)],
    attrs := [⟨"dilations", .INTS, false, Val.none⟩, ⟨"group", .INT, false, (Val.int 1)⟩, ⟨"kernel_shape", .INTS, false, Val.none⟩, ⟨"offset_group", .INT, false, (Val.int 1)⟩, ⟨"pads", .INTS, false, Val.none⟩, ⟨"strides", .INTS, false, Val.none⟩] }

def s_DequantizeLinear_19 : Schema :=
  { name := "DequantizeLinear", domain := "", since := 19, deprecated := false, minInput := 2, minOutput := 1,
    inputs := [("x", .single), ("x_scale", .single), ("x_zero_point", .optional)],
    outputs := [("y", .single)],
    attrs := [⟨"axis", .INT, false, (Val.int 1)⟩] }

def s_Equal_19 : Schema :=
  { name := "Equal", domain := "", since := 19, deprecated := false, minInput := 2, minOutput := 1,
    inputs := [("A", .single), ("B", .single)],
    outputs := [("C", .single)],
    attrs := [] }

def s_Identity_19 : Schema :=
  { name := "Identity", domain := "", since := 19, deprecated := false, minInput := 1, minOutput := 1,
    inputs := [("input", .single)],
    outputs := [("output", .single)],
    attrs := [] }

def s_If_19 : Schema :=
  { name := "If", domain := "", since := 19, deprecated := false, minInput := 1, minOutput := 1,
    inputs := [("cond", .single)],
    outputs := [("outputs", .variadic)],
    attrs := [⟨"else_branch", .GRAPH, true, Val.none⟩, ⟨"then_branch", .GRAPH, true, Val.none⟩] }

def s_Loop_19 : Schema :=
  { name := "Loop", domain := "", since := 19, deprecated := false, minInput := 2, minOutput := 1,
    inputs := [("M", .optional), ("cond", .optional), ("v_initial", .variadic)],
    outputs := [("v_final_and_scan_outputs", .variadic)],
    attrs := [⟨"body", .GRAPH, true, Val.none⟩] }

def s_Pad_19 : Schema :=
  { name := "Pad", domain := "", since := 19, deprecated := false, minInput := 2, minOutput := 1,
    inputs := [("data", .single), ("pads", .single), ("constant_value", .optional), ("axes", .optional)],
    outputs := [("output", .single)],
    attrs := [⟨"mode", .STRING, false, (Val.str "constant")⟩] }

def s_QuantizeLinear_19 : Schema :=
  { name := "QuantizeLinear", domain := "", since := 19, deprecated := false, minInput := 2, minOutput := 1,
    inputs := [("x", .single), ("y_scale", .single), ("y_zero_point", .optional)],
    outputs := [("y", .single)],
    attrs := [⟨"axis", .INT, false, (Val.int 1)⟩, ⟨"saturate", .INT, false, (Val.int 1)⟩] }

def s_Reshape_19 : Schema :=
  { name := "Reshape", domain := "", since := 19, deprecated := false, minInput := 2, minOutput := 1,
    inputs := [("data", .single), ("shape", .single)],
    outputs := [("reshaped", .single)],
    attrs := [⟨"allowzero", .INT, false, (Val.int 0)⟩] }

def s_Resize_19 : Schema :=
  { name := "Resize", domain := "", since := 19, deprecated := false, minInput := 1, minOutput := 1,
    inputs := [("X", .single), ("roi", .optional), ("scales", .optional), ("sizes", .optional)],
    outputs := [("Y", .single)],
    attrs := [⟨"antialias", .INT, false, (Val.int 0)⟩, ⟨"axes", .INTS, false, Val.none⟩, ⟨"coordinate_transformation_mode", .STRING, false, (Val.str "half_pixel")⟩, ⟨"cubic_coeff_a", .FLOAT, false, (Val.float 3208642560)⟩, ⟨"exclude_outside", .INT, false, (Val.int 0)⟩, ⟨"extrapolation_value", .FLOAT, false, (Val.float 0)⟩, ⟨"keep_aspect_ratio_policy", .STRING, false, (Val.str "stretch")⟩, ⟨"mode", .STRING, false, (Val.str "nearest")⟩, ⟨"nearest_mode", .STRING, false, (Val.str "round_prefer_floor")⟩] }

def s_Scan_19 : Schema :=
  { name := "Scan", domain := "", since := 19, deprecated := false, minInput := 1, minOutput := 1,
    inputs := [("initial_state_and_scan_inputs", .variadic)],
    outputs := [("final_state_and_scan_outputs", .variadic)],
    attrs := [⟨"body", .GRAPH, true, Val.none⟩, ⟨"num_scan_inputs", .INT, true, Val.none⟩, ⟨"scan_input_axes", .INTS, false, Val.none⟩, ⟨"scan_input_directions", .INTS, false, Val.none⟩, ⟨"scan_output_axes", .INTS, false, Val.none⟩, ⟨"scan_output_directions", .INTS, false, Val.none⟩] }

def s_Shape_19 : Schema :=
  { name := "Shape", domain := "", since := 19, deprecated := false, minInput := 1, minOutput := 1,
    inputs := [("data", .single)],
    outputs := [("shape", .single)],
    attrs := [⟨"end", .INT, false, Val.none⟩, ⟨"start", .INT, false, (Val.int 0)⟩] }

def s_Size_19 : Schema :=
  { name := "Size", domain := "", since := 19, deprecated := false, minInput := 1, minOutput := 1,
    inputs := [("data", .single)],
    outputs := [("size", .single)],
    attrs := [] }

end Generated.Schemas.v19
