-- GENERATED from onnx.defs (domain 'ai.onnx.ml', version 3) by translator/constructors.py on every run; do not edit.
import SpoxModel.Model.Conform
namespace Generated.Schemas.ml_v3
open Conform

def s_ArrayFeatureExtractor_1 : Schema :=
  { name := "ArrayFeatureExtractor", domain := "ai.onnx.ml", since := 1, deprecated := false, minInput := 2, minOutput := 1,
    inputs := [("X", .single), ("Y", .single)],
    outputs := [("Z", .single)],
    attrs := [] }

def s_Binarizer_1 : Schema :=
  { name := "Binarizer", domain := "ai.onnx.ml", since := 1, deprecated := false, minInput := 1, minOutput := 1,
    inputs := [("X", .single)],
    outputs := [("Y", .single)],
    attrs := [⟨"threshold", .FLOAT, false, (Val.float 0)⟩] }

def s_CastMap_1 : Schema :=
  { name := "CastMap", domain := "ai.onnx.ml", since := 1, deprecated := false, minInput := 1, minOutput := 1,
    inputs := [("X", .single)],
    outputs := [("Y", .single)],
    attrs := [⟨"cast_to", .STRING, false, (Val.str "TO_FLOAT")⟩, ⟨"map_form", .STRING, false, (Val.str "DENSE")⟩, ⟨"max_map", .INT, false, (Val.int 1)⟩] }

def s_CategoryMapper_1 : Schema :=
  { name := "CategoryMapper", domain := "ai.onnx.ml", since := 1, deprecated := false, minInput := 1, minOutput := 1,
    inputs := [("X", .single)],
    outputs := [("Y", .single)],
    attrs := [⟨"cats_int64s", .INTS, false, Val.none⟩, ⟨"cats_strings", .STRINGS, false, Val.none⟩, ⟨"default_int64", .INT, false, (Val.int (-1))⟩, ⟨"default_string", .STRING, false, (Val.str "_Unused")⟩] }

def s_DictVectorizer_1 : Schema :=
  { name := "DictVectorizer", domain := "ai.onnx.ml", since := 1, deprecated := false, minInput := 1, minOutput := 1,
    inputs := [("X", .single)],
    outputs := [("Y", .single)],
    attrs := [⟨"int64_vocabulary", .INTS, false, Val.none⟩, ⟨"string_vocabulary", .STRINGS, false, Val.none⟩] }

def s_FeatureVectorizer_1 : Schema :=
  { name := "FeatureVectorizer", domain := "ai.onnx.ml", since := 1, deprecated := false, minInput := 1, minOutput := 1,
    inputs := [("X", .variadic)],
    outputs := [("Y", .single)],
    attrs := [⟨"inputdimensions", .INTS, false, Val.none⟩] }

def s_Imputer_1 : Schema :=
  { name := "Imputer", domain := "ai.onnx.ml", since := 1, deprecated := false, minInput := 1, minOutput := 1,
    inputs := [("X", .single)],
    outputs := [("Y", .single)],
    attrs := [⟨"imputed_value_floats", .FLOATS, false, Val.none⟩, ⟨"imputed_value_int64s", .INTS, false, Val.none⟩, ⟨"replaced_value_float", .FLOAT, false, (Val.float 0)⟩, ⟨"replaced_value_int64", .INT, false, (Val.int 0)⟩] }

def s_LabelEncoder_2 : Schema :=
  { name := "LabelEncoder", domain := "ai.onnx.ml", since := 2, deprecated := false, minInput := 1, minOutput := 1,
    inputs := [("X", .single)],
    outputs := [("Y", .single)],
    attrs := [⟨"default_float", .FLOAT, false, (Val.float 2147483648)⟩, ⟨"default_int64", .INT, false, (Val.int (-1))⟩, ⟨"default_string", .STRING, false, (Val.str "_Unused")⟩, ⟨"keys_floats", .FLOATS, false, Val.none⟩, ⟨"keys_int64s", .INTS, false, Val.none⟩, ⟨"keys_strings", .STRINGS, false, Val.none⟩, ⟨"values_floats", .FLOATS, false, Val.none⟩, ⟨"values_int64s", .INTS, false, Val.none⟩, ⟨"values_strings", .STRINGS, false, Val.none⟩] }

def s_LinearClassifier_1 : Schema :=
  { name := "LinearClassifier", domain := "ai.onnx.ml", since := 1, deprecated := false, minInput := 1, minOutput := 2,
    inputs := [("X", .single)],
    outputs := [("Y", .single), ("Z", .single)],
    attrs := [⟨"classlabels_ints", .INTS, false, Val.none⟩, ⟨"classlabels_strings", .STRINGS, false, Val.none⟩, ⟨"coefficients", .FLOATS, true, Val.none⟩, ⟨"intercepts", .FLOATS, false, Val.none⟩, ⟨"multi_class", .INT, false, (Val.int 0)⟩, ⟨"post_transform", .STRING, false, (Val.str "NONE")⟩] }

def s_LinearRegressor_1 : Schema :=
  { name := "LinearRegressor", domain := "ai.onnx.ml", since := 1, deprecated := false, minInput := 1, minOutput := 1,
    inputs := [("X", .single)],
    outputs := [("Y", .single)],
    attrs := [⟨"coefficients", .FLOATS, false, Val.none⟩, ⟨"intercepts", .FLOATS, false, Val.none⟩, ⟨"post_transform", .STRING, false, (Val.str "NONE")⟩, ⟨"targets", .INT, false, (Val.int 1)⟩] }

def s_Normalizer_1 : Schema :=
  { name := "Normalizer", domain := "ai.onnx.ml", since := 1, deprecated := false, minInput := 1, minOutput := 1,
    inputs := [("X", .single)],
    outputs := [("Y", .single)],
    attrs := [⟨"norm", .STRING, false, (Val.str "MAX")⟩] }

def s_OneHotEncoder_1 : Schema :=
  { name := "OneHotEncoder", domain := "ai.onnx.ml", since := 1, deprecated := false, minInput := 1, minOutput := 1,
    inputs := [("X", .single)],
    outputs := [("Y", .single)],
    attrs := [⟨"cats_int64s", .INTS, false, Val.none⟩, ⟨"cats_strings", .STRINGS, false, Val.none⟩, ⟨"zeros", .INT, false, (Val.int 1)⟩] }

def s_SVMClassifier_1 : Schema :=
  { name := "SVMClassifier", domain := "ai.onnx.ml", since := 1, deprecated := false, minInput := 1, minOutput := 2,
    inputs := [("X", .single)],
    outputs := [("Y", .single), ("Z", .single)],
    attrs := [⟨"classlabels_ints", .INTS, false, Val.none⟩, ⟨"classlabels_strings", .STRINGS, false, Val.none⟩, ⟨"coefficients", .FLOATS, false, Val.none⟩, ⟨"kernel_params", .FLOATS, false, Val.none⟩, ⟨"kernel_type", .STRING, false, (Val.str "LINEAR")⟩, ⟨"post_transform", .STRING, false, (Val.str "NONE")⟩, ⟨"prob_a", .FLOATS, false, Val.none⟩, ⟨"prob_b", .FLOATS, false, Val.none⟩, ⟨"rho", .FLOATS, false, Val.none⟩, ⟨"support_vectors", .FLOATS, false, Val.none⟩, ⟨"vectors_per_class", .INTS, false, Val.none⟩] }

def s_SVMRegressor_1 : Schema :=
  { name := "SVMRegressor", domain := "ai.onnx.ml", since := 1, deprecated := false, minInput := 1, minOutput := 1,
    inputs := [("X", .single)],
    outputs := [("Y", .single)],
    attrs := [⟨"coefficients", .FLOATS, false, Val.none⟩, ⟨"kernel_params", .FLOATS, false, Val.none⟩, ⟨"kernel_type", .STRING, false, (Val.str "LINEAR")⟩, ⟨"n_supports", .INT, false, (Val.int 0)⟩, ⟨"one_class", .INT, false, (Val.int 0)⟩, ⟨"post_transform", .STRING, false, (Val.str "NONE")⟩, ⟨"rho", .FLOATS, false, Val.none⟩, ⟨"support_vectors", .FLOATS, false, Val.none⟩] }

def s_Scaler_1 : Schema :=
  { name := "Scaler", domain := "ai.onnx.ml", since := 1, deprecated := false, minInput := 1, minOutput := 1,
    inputs := [("X", .single)],
    outputs := [("Y", .single)],
    attrs := [⟨"offset", .FLOATS, false, Val.none⟩, ⟨"scale", .FLOATS, false, Val.none⟩] }

def s_TreeEnsembleClassifier_3 : Schema :=
  { name := "TreeEnsembleClassifier", domain := "ai.onnx.ml", since := 3, deprecated := false, minInput := 1, minOutput := 2,
    inputs := [("X", .single)],
    outputs := [("Y", .single), ("Z", .single)],
    attrs := [⟨"base_values", .FLOATS, false, Val.none⟩, ⟨"base_values_as_tensor", .TENSOR, false, Val.none⟩, ⟨"class_ids", .INTS, false, Val.none⟩, ⟨"class_nodeids", .INTS, false, Val.none⟩, ⟨"class_treeids", .INTS, false, Val.none⟩, ⟨"class_weights", .FLOATS, false, Val.none⟩, ⟨"class_weights_as_tensor", .TENSOR, false, Val.none⟩, ⟨"classlabels_int64s", .INTS, false, Val.none⟩, ⟨"classlabels_strings", .STRINGS, false, Val.none⟩, ⟨"nodes_falsenodeids", .INTS, false, Val.none⟩, ⟨"nodes_featureids", .INTS, false, Val.none⟩, ⟨"nodes_hitrates", .FLOATS, false, Val.none⟩, ⟨"nodes_hitrates_as_tensor", .TENSOR, false, Val.none⟩, ⟨"nodes_missing_value_tracks_true", .INTS, false, Val.none⟩, ⟨"nodes_modes", .STRINGS, false, Val.none⟩, ⟨"nodes_nodeids", .INTS, false, Val.none⟩, ⟨"nodes_treeids", .INTS, false, Val.none⟩, ⟨"nodes_truenodeids", .INTS, false, Val.none⟩, ⟨"nodes_values", .FLOATS, false, Val.none⟩, ⟨"nodes_values_as_tensor", .TENSOR, false, Val.none⟩, ⟨"post_transform", .STRING, false, (Val.str "NONE")⟩] }

def s_TreeEnsembleRegressor_3 : Schema :=
  { name := "TreeEnsembleRegressor", domain := "ai.onnx.ml", since := 3, deprecated := false, minInput := 1, minOutput := 1,
    inputs := [("X", .single)],
    outputs := [("Y", .single)],
    attrs := [⟨"aggregate_function", .STRING, false, (Val.str "SUM")⟩, ⟨"base_values", .FLOATS, false, Val.none⟩, ⟨"base_values_as_tensor", .TENSOR, false, Val.none⟩, ⟨"n_targets", .INT, false, Val.none⟩, ⟨"nodes_falsenodeids", .INTS, false, Val.none⟩, ⟨"nodes_featureids", .INTS, false, Val.none⟩, ⟨"nodes_hitrates", .FLOATS, false, Val.none⟩, ⟨"nodes_hitrates_as_tensor", .TENSOR, false, Val.none⟩, ⟨"nodes_missing_value_tracks_true", .INTS, false, Val.none⟩, ⟨"nodes_modes", .STRINGS, false, Val.none⟩, ⟨"nodes_nodeids", .INTS, false, Val.none⟩, ⟨"nodes_treeids", .INTS, false, Val.none⟩, ⟨"nodes_truenodeids", .INTS, false, Val.none⟩, ⟨"nodes_values", .FLOATS, false, Val.none⟩, ⟨"nodes_values_as_tensor", .TENSOR, false, Val.none⟩, ⟨"post_transform", .STRING, false, (Val.str "NONE")⟩, ⟨"target_ids", .INTS, false, Val.none⟩, ⟨"target_nodeids", .INTS, false, Val.none⟩, ⟨"target_treeids", .INTS, false, Val.none⟩, ⟨"target_weights", .FLOATS, false, Val.none⟩, ⟨"target_weights_as_tensor", .TENSOR, false, Val.none⟩] }

def s_ZipMap_1 : Schema :=
  { name := "ZipMap", domain := "ai.onnx.ml", since := 1, deprecated := false, minInput := 1, minOutput := 1,
    inputs := [("X", .single)],
    outputs := [("Z", .single)],
    attrs := [⟨"classlabels_int64s", .INTS, false, Val.none⟩, ⟨"classlabels_strings", .STRINGS, false, Val.none⟩] }

end Generated.Schemas.ml_v3
