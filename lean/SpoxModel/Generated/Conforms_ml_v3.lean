-- GENERATED from src/spox/opset/ai/onnx/ml/v3.py + onnx.defs by translator/constructors.py on every run; do not edit.
import SpoxModel.Generated.Constructors_ml_v3
import SpoxModel.Generated.Schemas_ml_v3
namespace Generated.Conforms.ml_v3
open Conform

theorem conforms_ml_v3_ArrayFeatureExtractor : entryOK ("ml_v3._ArrayFeatureExtractor", Generated.Ctors.ml_v3.f_array_feature_extractor, Generated.Schemas.ml_v3.s_ArrayFeatureExtractor_1) = true := by decide +kernel

theorem slots_ml_v3_ArrayFeatureExtractor : slotOK ("ml_v3._ArrayFeatureExtractor", Generated.Ctors.ml_v3.f_array_feature_extractor, Generated.Schemas.ml_v3.s_ArrayFeatureExtractor_1) = true := by decide +kernel

theorem conforms_ml_v3_Binarizer : entryOK ("ml_v3._Binarizer", Generated.Ctors.ml_v3.f_binarizer, Generated.Schemas.ml_v3.s_Binarizer_1) = true := by decide +kernel

theorem slots_ml_v3_Binarizer : slotOK ("ml_v3._Binarizer", Generated.Ctors.ml_v3.f_binarizer, Generated.Schemas.ml_v3.s_Binarizer_1) = true := by decide +kernel

theorem conforms_ml_v3_CastMap : entryOK ("ml_v3._CastMap", Generated.Ctors.ml_v3.f_cast_map, Generated.Schemas.ml_v3.s_CastMap_1) = true := by decide +kernel

theorem slots_ml_v3_CastMap : slotOK ("ml_v3._CastMap", Generated.Ctors.ml_v3.f_cast_map, Generated.Schemas.ml_v3.s_CastMap_1) = true := by decide +kernel

theorem conforms_ml_v3_CategoryMapper : entryOK ("ml_v3._CategoryMapper", Generated.Ctors.ml_v3.f_category_mapper, Generated.Schemas.ml_v3.s_CategoryMapper_1) = true := by decide +kernel

theorem slots_ml_v3_CategoryMapper : slotOK ("ml_v3._CategoryMapper", Generated.Ctors.ml_v3.f_category_mapper, Generated.Schemas.ml_v3.s_CategoryMapper_1) = true := by decide +kernel

theorem conforms_ml_v3_DictVectorizer : entryOK ("ml_v3._DictVectorizer", Generated.Ctors.ml_v3.f_dict_vectorizer, Generated.Schemas.ml_v3.s_DictVectorizer_1) = true := by decide +kernel

theorem slots_ml_v3_DictVectorizer : slotOK ("ml_v3._DictVectorizer", Generated.Ctors.ml_v3.f_dict_vectorizer, Generated.Schemas.ml_v3.s_DictVectorizer_1) = true := by decide +kernel

theorem conforms_ml_v3_FeatureVectorizer : entryOK ("ml_v3._FeatureVectorizer", Generated.Ctors.ml_v3.f_feature_vectorizer, Generated.Schemas.ml_v3.s_FeatureVectorizer_1) = true := by decide +kernel

theorem slots_ml_v3_FeatureVectorizer : slotOK ("ml_v3._FeatureVectorizer", Generated.Ctors.ml_v3.f_feature_vectorizer, Generated.Schemas.ml_v3.s_FeatureVectorizer_1) = true := by decide +kernel

theorem conforms_ml_v3_Imputer : entryOK ("ml_v3._Imputer", Generated.Ctors.ml_v3.f_imputer, Generated.Schemas.ml_v3.s_Imputer_1) = true := by decide +kernel

theorem slots_ml_v3_Imputer : slotOK ("ml_v3._Imputer", Generated.Ctors.ml_v3.f_imputer, Generated.Schemas.ml_v3.s_Imputer_1) = true := by decide +kernel

theorem conforms_ml_v3_LabelEncoder : entryOK ("ml_v3._LabelEncoder", Generated.Ctors.ml_v3.f_label_encoder, Generated.Schemas.ml_v3.s_LabelEncoder_2) = true := by decide +kernel

theorem slots_ml_v3_LabelEncoder : slotOK ("ml_v3._LabelEncoder", Generated.Ctors.ml_v3.f_label_encoder, Generated.Schemas.ml_v3.s_LabelEncoder_2) = true := by decide +kernel

theorem conforms_ml_v3_LinearClassifier : entryOK ("ml_v3._LinearClassifier", Generated.Ctors.ml_v3.f_linear_classifier, Generated.Schemas.ml_v3.s_LinearClassifier_1) = true := by decide +kernel

theorem slots_ml_v3_LinearClassifier : slotOK ("ml_v3._LinearClassifier", Generated.Ctors.ml_v3.f_linear_classifier, Generated.Schemas.ml_v3.s_LinearClassifier_1) = true := by decide +kernel

theorem conforms_ml_v3_LinearRegressor : entryOK ("ml_v3._LinearRegressor", Generated.Ctors.ml_v3.f_linear_regressor, Generated.Schemas.ml_v3.s_LinearRegressor_1) = true := by decide +kernel

theorem slots_ml_v3_LinearRegressor : slotOK ("ml_v3._LinearRegressor", Generated.Ctors.ml_v3.f_linear_regressor, Generated.Schemas.ml_v3.s_LinearRegressor_1) = true := by decide +kernel

theorem conforms_ml_v3_Normalizer : entryOK ("ml_v3._Normalizer", Generated.Ctors.ml_v3.f_normalizer, Generated.Schemas.ml_v3.s_Normalizer_1) = true := by decide +kernel

theorem slots_ml_v3_Normalizer : slotOK ("ml_v3._Normalizer", Generated.Ctors.ml_v3.f_normalizer, Generated.Schemas.ml_v3.s_Normalizer_1) = true := by decide +kernel

theorem conforms_ml_v3_OneHotEncoder : entryOK ("ml_v3._OneHotEncoder", Generated.Ctors.ml_v3.f_one_hot_encoder, Generated.Schemas.ml_v3.s_OneHotEncoder_1) = true := by decide +kernel

theorem slots_ml_v3_OneHotEncoder : slotOK ("ml_v3._OneHotEncoder", Generated.Ctors.ml_v3.f_one_hot_encoder, Generated.Schemas.ml_v3.s_OneHotEncoder_1) = true := by decide +kernel

theorem conforms_ml_v3_SVMClassifier : entryOK ("ml_v3._SVMClassifier", Generated.Ctors.ml_v3.f_svmclassifier, Generated.Schemas.ml_v3.s_SVMClassifier_1) = true := by decide +kernel

theorem slots_ml_v3_SVMClassifier : slotOK ("ml_v3._SVMClassifier", Generated.Ctors.ml_v3.f_svmclassifier, Generated.Schemas.ml_v3.s_SVMClassifier_1) = true := by decide +kernel

theorem conforms_ml_v3_SVMRegressor : entryOK ("ml_v3._SVMRegressor", Generated.Ctors.ml_v3.f_svmregressor, Generated.Schemas.ml_v3.s_SVMRegressor_1) = true := by decide +kernel

theorem slots_ml_v3_SVMRegressor : slotOK ("ml_v3._SVMRegressor", Generated.Ctors.ml_v3.f_svmregressor, Generated.Schemas.ml_v3.s_SVMRegressor_1) = true := by decide +kernel

theorem conforms_ml_v3_Scaler : entryOK ("ml_v3._Scaler", Generated.Ctors.ml_v3.f_scaler, Generated.Schemas.ml_v3.s_Scaler_1) = true := by decide +kernel

theorem slots_ml_v3_Scaler : slotOK ("ml_v3._Scaler", Generated.Ctors.ml_v3.f_scaler, Generated.Schemas.ml_v3.s_Scaler_1) = true := by decide +kernel

theorem conforms_ml_v3_TreeEnsembleClassifier : entryOK ("ml_v3._TreeEnsembleClassifier", Generated.Ctors.ml_v3.f_tree_ensemble_classifier, Generated.Schemas.ml_v3.s_TreeEnsembleClassifier_3) = true := by decide +kernel

theorem slots_ml_v3_TreeEnsembleClassifier : slotOK ("ml_v3._TreeEnsembleClassifier", Generated.Ctors.ml_v3.f_tree_ensemble_classifier, Generated.Schemas.ml_v3.s_TreeEnsembleClassifier_3) = true := by decide +kernel

theorem conforms_ml_v3_TreeEnsembleRegressor : entryOK ("ml_v3._TreeEnsembleRegressor", Generated.Ctors.ml_v3.f_tree_ensemble_regressor, Generated.Schemas.ml_v3.s_TreeEnsembleRegressor_3) = true := by decide +kernel

theorem slots_ml_v3_TreeEnsembleRegressor : slotOK ("ml_v3._TreeEnsembleRegressor", Generated.Ctors.ml_v3.f_tree_ensemble_regressor, Generated.Schemas.ml_v3.s_TreeEnsembleRegressor_3) = true := by decide +kernel

theorem conforms_ml_v3_ZipMap : entryOK ("ml_v3._ZipMap", Generated.Ctors.ml_v3.f_zip_map, Generated.Schemas.ml_v3.s_ZipMap_1) = true := by decide +kernel

theorem slots_ml_v3_ZipMap : slotOK ("ml_v3._ZipMap", Generated.Ctors.ml_v3.f_zip_map, Generated.Schemas.ml_v3.s_ZipMap_1) = true := by decide +kernel

/-- every operator/module pair of this module without a listed deviation -/
def table : List Entry :=
  [
   ("ml_v3._ArrayFeatureExtractor", Generated.Ctors.ml_v3.f_array_feature_extractor, Generated.Schemas.ml_v3.s_ArrayFeatureExtractor_1), 
   ("ml_v3._Binarizer", Generated.Ctors.ml_v3.f_binarizer, Generated.Schemas.ml_v3.s_Binarizer_1), 
   ("ml_v3._CastMap", Generated.Ctors.ml_v3.f_cast_map, Generated.Schemas.ml_v3.s_CastMap_1), 
   ("ml_v3._CategoryMapper", Generated.Ctors.ml_v3.f_category_mapper, Generated.Schemas.ml_v3.s_CategoryMapper_1), 
   ("ml_v3._DictVectorizer", Generated.Ctors.ml_v3.f_dict_vectorizer, Generated.Schemas.ml_v3.s_DictVectorizer_1), 
   ("ml_v3._FeatureVectorizer", Generated.Ctors.ml_v3.f_feature_vectorizer, Generated.Schemas.ml_v3.s_FeatureVectorizer_1), 
   ("ml_v3._Imputer", Generated.Ctors.ml_v3.f_imputer, Generated.Schemas.ml_v3.s_Imputer_1), 
   ("ml_v3._LabelEncoder", Generated.Ctors.ml_v3.f_label_encoder, Generated.Schemas.ml_v3.s_LabelEncoder_2), 
   ("ml_v3._LinearClassifier", Generated.Ctors.ml_v3.f_linear_classifier, Generated.Schemas.ml_v3.s_LinearClassifier_1), 
   ("ml_v3._LinearRegressor", Generated.Ctors.ml_v3.f_linear_regressor, Generated.Schemas.ml_v3.s_LinearRegressor_1), 
   ("ml_v3._Normalizer", Generated.Ctors.ml_v3.f_normalizer, Generated.Schemas.ml_v3.s_Normalizer_1), 
   ("ml_v3._OneHotEncoder", Generated.Ctors.ml_v3.f_one_hot_encoder, Generated.Schemas.ml_v3.s_OneHotEncoder_1), 
   ("ml_v3._SVMClassifier", Generated.Ctors.ml_v3.f_svmclassifier, Generated.Schemas.ml_v3.s_SVMClassifier_1), 
   ("ml_v3._SVMRegressor", Generated.Ctors.ml_v3.f_svmregressor, Generated.Schemas.ml_v3.s_SVMRegressor_1), 
   ("ml_v3._Scaler", Generated.Ctors.ml_v3.f_scaler, Generated.Schemas.ml_v3.s_Scaler_1), 
   ("ml_v3._TreeEnsembleClassifier", Generated.Ctors.ml_v3.f_tree_ensemble_classifier, Generated.Schemas.ml_v3.s_TreeEnsembleClassifier_3), 
   ("ml_v3._TreeEnsembleRegressor", Generated.Ctors.ml_v3.f_tree_ensemble_regressor, Generated.Schemas.ml_v3.s_TreeEnsembleRegressor_3), 
   ("ml_v3._ZipMap", Generated.Ctors.ml_v3.f_zip_map, Generated.Schemas.ml_v3.s_ZipMap_1)]

theorem table_all : table.all entryOK = true :=
  all_cons conforms_ml_v3_ArrayFeatureExtractor (
  all_cons conforms_ml_v3_Binarizer (
  all_cons conforms_ml_v3_CastMap (
  all_cons conforms_ml_v3_CategoryMapper (
  all_cons conforms_ml_v3_DictVectorizer (
  all_cons conforms_ml_v3_FeatureVectorizer (
  all_cons conforms_ml_v3_Imputer (
  all_cons conforms_ml_v3_LabelEncoder (
  all_cons conforms_ml_v3_LinearClassifier (
  all_cons conforms_ml_v3_LinearRegressor (
  all_cons conforms_ml_v3_Normalizer (
  all_cons conforms_ml_v3_OneHotEncoder (
  all_cons conforms_ml_v3_SVMClassifier (
  all_cons conforms_ml_v3_SVMRegressor (
  all_cons conforms_ml_v3_Scaler (
  all_cons conforms_ml_v3_TreeEnsembleClassifier (
  all_cons conforms_ml_v3_TreeEnsembleRegressor (
  all_cons conforms_ml_v3_ZipMap (
  all_nil))))))))))))))))))

theorem table_conforms : ∀ e ∈ table, entryOK e = true :=
  fun e he => List.all_eq_true.mp table_all e he

/-- every operator/module pair of this module (deviating ones included: deviations concern attributes) -/
def allEntries : List Entry :=
  [
   ("ml_v3._ArrayFeatureExtractor", Generated.Ctors.ml_v3.f_array_feature_extractor, Generated.Schemas.ml_v3.s_ArrayFeatureExtractor_1), 
   ("ml_v3._Binarizer", Generated.Ctors.ml_v3.f_binarizer, Generated.Schemas.ml_v3.s_Binarizer_1), 
   ("ml_v3._CastMap", Generated.Ctors.ml_v3.f_cast_map, Generated.Schemas.ml_v3.s_CastMap_1), 
   ("ml_v3._CategoryMapper", Generated.Ctors.ml_v3.f_category_mapper, Generated.Schemas.ml_v3.s_CategoryMapper_1), 
   ("ml_v3._DictVectorizer", Generated.Ctors.ml_v3.f_dict_vectorizer, Generated.Schemas.ml_v3.s_DictVectorizer_1), 
   ("ml_v3._FeatureVectorizer", Generated.Ctors.ml_v3.f_feature_vectorizer, Generated.Schemas.ml_v3.s_FeatureVectorizer_1), 
   ("ml_v3._Imputer", Generated.Ctors.ml_v3.f_imputer, Generated.Schemas.ml_v3.s_Imputer_1), 
   ("ml_v3._LabelEncoder", Generated.Ctors.ml_v3.f_label_encoder, Generated.Schemas.ml_v3.s_LabelEncoder_2), 
   ("ml_v3._LinearClassifier", Generated.Ctors.ml_v3.f_linear_classifier, Generated.Schemas.ml_v3.s_LinearClassifier_1), 
   ("ml_v3._LinearRegressor", Generated.Ctors.ml_v3.f_linear_regressor, Generated.Schemas.ml_v3.s_LinearRegressor_1), 
   ("ml_v3._Normalizer", Generated.Ctors.ml_v3.f_normalizer, Generated.Schemas.ml_v3.s_Normalizer_1), 
   ("ml_v3._OneHotEncoder", Generated.Ctors.ml_v3.f_one_hot_encoder, Generated.Schemas.ml_v3.s_OneHotEncoder_1), 
   ("ml_v3._SVMClassifier", Generated.Ctors.ml_v3.f_svmclassifier, Generated.Schemas.ml_v3.s_SVMClassifier_1), 
   ("ml_v3._SVMRegressor", Generated.Ctors.ml_v3.f_svmregressor, Generated.Schemas.ml_v3.s_SVMRegressor_1), 
   ("ml_v3._Scaler", Generated.Ctors.ml_v3.f_scaler, Generated.Schemas.ml_v3.s_Scaler_1), 
   ("ml_v3._TreeEnsembleClassifier", Generated.Ctors.ml_v3.f_tree_ensemble_classifier, Generated.Schemas.ml_v3.s_TreeEnsembleClassifier_3), 
   ("ml_v3._TreeEnsembleRegressor", Generated.Ctors.ml_v3.f_tree_ensemble_regressor, Generated.Schemas.ml_v3.s_TreeEnsembleRegressor_3), 
   ("ml_v3._ZipMap", Generated.Ctors.ml_v3.f_zip_map, Generated.Schemas.ml_v3.s_ZipMap_1)]

theorem slots_all : allEntries.all slotOK = true :=
  all_cons slots_ml_v3_ArrayFeatureExtractor (
  all_cons slots_ml_v3_Binarizer (
  all_cons slots_ml_v3_CastMap (
  all_cons slots_ml_v3_CategoryMapper (
  all_cons slots_ml_v3_DictVectorizer (
  all_cons slots_ml_v3_FeatureVectorizer (
  all_cons slots_ml_v3_Imputer (
  all_cons slots_ml_v3_LabelEncoder (
  all_cons slots_ml_v3_LinearClassifier (
  all_cons slots_ml_v3_LinearRegressor (
  all_cons slots_ml_v3_Normalizer (
  all_cons slots_ml_v3_OneHotEncoder (
  all_cons slots_ml_v3_SVMClassifier (
  all_cons slots_ml_v3_SVMRegressor (
  all_cons slots_ml_v3_Scaler (
  all_cons slots_ml_v3_TreeEnsembleClassifier (
  all_cons slots_ml_v3_TreeEnsembleRegressor (
  all_cons slots_ml_v3_ZipMap (
  all_nil))))))))))))))))))

theorem table_slots : ∀ e ∈ allEntries, slotOK e = true :=
  fun e he => List.all_eq_true.mp slots_all e he

/-- pairs with listed deviations (known findings), each with what is excepted -/
def deviating : List (List String × Entry) :=
  []

theorem deviating_conforms : ∀ d ∈ deviating, entryOKExcept d.1 d.2 = true := by decide +kernel

end Generated.Conforms.ml_v3
