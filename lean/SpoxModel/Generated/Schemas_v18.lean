-- GENERATED from onnx.defs (domain 'ai.onnx', version 18) by translator/constructors.py on every run; do not edit.
import SpoxModel.Model.Conform
import SpoxModel.Generated.Schemas_v17
namespace Generated.Schemas.v18
open Conform

def s_BitwiseAnd_18 : Schema :=
  { name := "BitwiseAnd", domain := "", since := 18, deprecated := false, minInput := 2, minOutput := 1,
    inputs := [("A", .single), ("B", .single)],
    outputs := [("C", .single)],
    attrs := [] }

def s_BitwiseNot_18 : Schema :=
  { name := "BitwiseNot", domain := "", since := 18, deprecated := false, minInput := 1, minOutput := 1,
    inputs := [("X", .single)],
    outputs := [("Y", .single)],
    attrs := [] }

def s_BitwiseOr_18 : Schema :=
  { name := "BitwiseOr", domain := "", since := 18, deprecated := false, minInput := 2, minOutput := 1,
    inputs := [("A", .single), ("B", .single)],
    outputs := [("C", .single)],
    attrs := [] }

def s_BitwiseXor_18 : Schema :=
  { name := "BitwiseXor", domain := "", since := 18, deprecated := false, minInput := 2, minOutput := 1,
    inputs := [("A", .single), ("B", .single)],
    outputs := [("C", .single)],
    attrs := [] }

def s_CenterCropPad_18 : Schema :=
  { name := "CenterCropPad", domain := "", since := 18, deprecated := false, minInput := 2, minOutput := 1,
    inputs := [("input_data", .single), ("shape", .single)],
    outputs := [("output_data", .single)],
    attrs := [⟨"axes", .INTS, false, Val.none⟩] }

def s_Col2Im_18 : Schema :=
  { name := "Col2Im", domain := "", since := 18, deprecated := false, minInput := 3, minOutput := 1,
    inputs := [("input", .single), ("image_shape", .single), ("block_shape", .single)],
    outputs := [("output", .single)],
    attrs := [⟨"dilations", .INTS, false, Val.none⟩, ⟨"pads", .INTS, false, Val.none⟩, ⟨"strides", .INTS, false, Val.none⟩] }

def s_GroupNormalization_18 : Schema :=
  { name := "GroupNormalization", domain := "", since := 18, deprecated := true, minInput := 3, minOutput := 1,
    inputs := [("X", .single), ("scale", .single), ("bias", .single)],
    outputs := [("Y", .single)],
    attrs := [⟨"epsilon", .FLOAT, false, (Val.float 925353388)⟩, ⟨"num_groups", .INT, true, Val.none⟩] }

def s_LpPool_18 : Schema :=
  { name := "LpPool", domain := "", since := 18, deprecated := false, minInput := 1, minOutput := 1,
    inputs := [("X", .single)],
    outputs := [("Y", .single)],
    attrs := [⟨"auto_pad", .STRING, false, (Val.str "NOTSET")⟩, ⟨"ceil_mode", .INT, false, (Val.int 0)⟩, ⟨"dilations", .INTS, false, Val.none⟩, ⟨"kernel_shape", .INTS, true, Val.none⟩, ⟨"p", .INT, false, (Val.int 2)⟩, ⟨"pads", .INTS, false, Val.none⟩, ⟨"strides", .INTS, false, Val.none⟩] }

def s_Mish_18 : Schema :=
  { name := "Mish", domain := "", since := 18, deprecated := false, minInput := 1, minOutput := 1,
    inputs := [("X", .single)],
    outputs := [("Y", .single)],
    attrs := [] }

def s_OptionalGetElement_18 : Schema :=
  { name := "OptionalGetElement", domain := "", since := 18, deprecated := false, minInput := 1, minOutput := 1,
    inputs := [("input", .single)],
    outputs := [("output", .single)],
    attrs := [] }

def s_OptionalHasElement_18 : Schema :=
  { name := "OptionalHasElement", domain := "", since := 18, deprecated := false, minInput := 0, minOutput := 1,
    inputs := [("input", .optional)],
    outputs := [("output", .single)],
    attrs := [] }

def s_Pad_18 : Schema :=
  { name := "Pad", domain := "", since := 18, deprecated := false, minInput := 2, minOutput := 1,
    inputs := [("data", .single), ("pads", .single), ("constant_value", .optional), ("axes", .optional)],
    outputs := [("output", .single)],
    attrs := [⟨"mode", .STRING, false, (Val.str "constant")⟩] }

def s_ReduceL1_18 : Schema :=
  { name := "ReduceL1", domain := "", since := 18, deprecated := false, minInput := 1, minOutput := 1,
    inputs := [("data", .single), ("axes", .optional)],
    outputs := [("reduced", .single)],
    attrs := [⟨"keepdims", .INT, false, (Val.int 1)⟩, ⟨"noop_with_empty_axes", .INT, false, (Val.int 0)⟩] }

def s_ReduceL2_18 : Schema :=
  { name := "ReduceL2", domain := "", since := 18, deprecated := false, minInput := 1, minOutput := 1,
    inputs := [("data", .single), ("axes", .optional)],
    outputs := [("reduced", .single)],
    attrs := [⟨"keepdims", .INT, false, (Val.int 1)⟩, ⟨"noop_with_empty_axes", .INT, false, (Val.int 0)⟩] }

def s_ReduceLogSum_18 : Schema :=
  { name := "ReduceLogSum", domain := "", since := 18, deprecated := false, minInput := 1, minOutput := 1,
    inputs := [("data", .single), ("axes", .optional)],
    outputs := [("reduced", .single)],
    attrs := [⟨"keepdims", .INT, false, (Val.int 1)⟩, ⟨"noop_with_empty_axes", .INT, false, (Val.int 0)⟩] }

def s_ReduceLogSumExp_18 : Schema :=
  { name := "ReduceLogSumExp", domain := "", since := 18, deprecated := false, minInput := 1, minOutput := 1,
    inputs := [("data", .single), ("axes", .optional)],
    outputs := [("reduced", .single)],
    attrs := [⟨"keepdims", .INT, false, (Val.int 1)⟩, ⟨"noop_with_empty_axes", .INT, false, (Val.int 0)⟩] }

def s_ReduceMax_18 : Schema :=
  { name := "ReduceMax", domain := "", since := 18, deprecated := false, minInput := 1, minOutput := 1,
    inputs := [("data", .single), ("axes", .optional)],
    outputs := [("reduced", .single)],
    attrs := [⟨"keepdims", .INT, false, (Val.int 1)⟩, ⟨"noop_with_empty_axes", .INT, false, (Val.int 0)⟩] }

def s_ReduceMean_18 : Schema :=
  { name := "ReduceMean", domain := "", since := 18, deprecated := false, minInput := 1, minOutput := 1,
    inputs := [("data", .single), ("axes", .optional)],
    outputs := [("reduced", .single)],
    attrs := [⟨"keepdims", .INT, false, (Val.int 1)⟩, ⟨"noop_with_empty_axes", .INT, false, (Val.int 0)⟩] }

def s_ReduceMin_18 : Schema :=
  { name := "ReduceMin", domain := "", since := 18, deprecated := false, minInput := 1, minOutput := 1,
    inputs := [("data", .single), ("axes", .optional)],
    outputs := [("reduced", .single)],
    attrs := [⟨"keepdims", .INT, false, (Val.int 1)⟩, ⟨"noop_with_empty_axes", .INT, false, (Val.int 0)⟩] }

def s_ReduceProd_18 : Schema :=
  { name := "ReduceProd", domain := "", since := 18, deprecated := false, minInput := 1, minOutput := 1,
    inputs := [("data", .single), ("axes", .optional)],
    outputs := [("reduced", .single)],
    attrs := [⟨"keepdims", .INT, false, (Val.int 1)⟩, ⟨"noop_with_empty_axes", .INT, false, (Val.int 0)⟩] }

def s_ReduceSumSquare_18 : Schema :=
  { name := "ReduceSumSquare", domain := "", since := 18, deprecated := false, minInput := 1, minOutput := 1,
    inputs := [("data", .single), ("axes", .optional)],
    outputs := [("reduced", .single)],
    attrs := [⟨"keepdims", .INT, false, (Val.int 1)⟩, ⟨"noop_with_empty_axes", .INT, false, (Val.int 0)⟩] }

def s_Resize_18 : Schema :=
  { name := "Resize", domain := "", since := 18, deprecated := false, minInput := 1, minOutput := 1,
    inputs := [("X", .single), ("roi", .optional), ("scales", .optional), ("sizes", .optional)],
    outputs := [("Y", .single)],
    attrs := [⟨"antialias", .INT, false, (Val.int 0)⟩, ⟨"axes", .INTS, false, Val.none⟩, ⟨"coordinate_transformation_mode", .STRING, false, (Val.str "half_pixel")⟩, ⟨"cubic_coeff_a", .FLOAT, false, (Val.float 3208642560)⟩, ⟨"exclude_outside", .INT, false, (Val.int 0)⟩, ⟨"extrapolation_value", .FLOAT, false, (Val.float 0)⟩, ⟨"keep_aspect_ratio_policy", .STRING, false, (Val.str "stretch")⟩, ⟨"mode", .STRING, false, (Val.str "nearest")⟩, ⟨"nearest_mode", .STRING, false, (Val.str "round_prefer_floor")⟩] }

def s_ScatterElements_18 : Schema :=
  { name := "ScatterElements", domain := "", since := 18, deprecated := false, minInput := 3, minOutput := 1,
    inputs := [("data", .single), ("indices", .single), ("updates", .single)],
    outputs := [("output", .single)],
    attrs := [⟨"axis", .INT, false, (Val.int 0)⟩, ⟨"reduction", .STRING, false, (Val.str "none")⟩] }

def s_ScatterND_18 : Schema :=
  { name := "ScatterND", domain := "", since := 18, deprecated := false, minInput := 3, minOutput := 1,
    inputs := [("data", .single), ("indices", .single), ("updates", .single)],
    outputs := [("output", .single)],
    attrs := [⟨"reduction", .STRING, false, (Val.str "none")⟩] }

def s_Split_18 : Schema :=
  { name := "Split", domain := "", since := 18, deprecated := false, minInput := 1, minOutput := 1,
    inputs := [("input", .single), ("split", .optional)],
    outputs := [("outputs", .variadic)],
    attrs := [⟨"axis", .INT, false, (Val.int 0)⟩, ⟨"num_outputs", .INT, false, Val.none⟩] }

end Generated.Schemas.v18
