-- GENERATED from src/spox/_public.py, src/spox/_adapt.py by translator/inline_facts.py on every run; do not edit.

import SpoxModel.Model.Inline

namespace Generated.InlineFacts
open Inline

/-- top-level statements of `spox._public.inline`, classified by what they may do to `model` -/
def stmts : List Stmt := [.other, .read, .read, .read, .other, .other, .copy, .read, .mutate, .other, .read, .mutate, .mutate, .mutate, .mutate, .mutate, .mutate, .mutate, .other, .other]

/-- `_copy_model` returns a fresh `ModelProto` filled by `CopyFrom` (or a deepcopy) -/
def copyFresh : Bool := true

/-- statements of `spox._adapt.adapt_inline` after the no-conversion early returns, as far as
    `node.model` is concerned -/
def swapIR : List SStmt := [.other, .other, .other, .other, .other, .saveBase, .tryFinally [.setTarget, .emit] [.restoreBase], .other, .other]

end Generated.InlineFacts
