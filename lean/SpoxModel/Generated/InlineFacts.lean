-- GENERATED from src/spox/_public.py, src/spox/_adapt.py by translator/inline_facts.py on every run; do not edit.

import SpoxModel.Model.Inline

namespace Generated.InlineFacts
open Inline

/-- top-level statements of `spox._public.inline`, classified by what they may do to `model` -/
def stmts : List Stmt := [.other, .read, .read, .read, .other, .other, .copy, .read, .mutate, .other, .read, .mutate, .mutate, .mutate, .mutate, .mutate, .mutate, .mutate, .other, .other]

/-- `_copy_model` returns a fresh `ModelProto` filled by `CopyFrom` (or a deepcopy) -/
def copyFresh : Bool := true

/-- statements of `spox._adapt.adapt_inline` after the no-conversion early returns, as far as
    `node.model` is concerned -/
def swapIR : List SStmt := [.other, .other, .other, .other, .other, .other, .saveBase, .tryFinally [.setTarget, .emit] [.restoreBase], .other, .other]

/-- the decision of `spox._adapt.adapt_inline` as written (normalised source text of every expression it
    is made of): where the target and source versions come from, which guards return the build's
    nodes unconverted, which guard calls the converter, how many `return protos` there are -/
def adaptShape : List (String × String) := [("params", "node, protos, target_opsets, var_names, node_name"), ("target_version", "target_opsets['']"), ("source_version", "max({imp.version for imp in node.model.opset_import if imp.domain in ('', 'ai.onnx')}, default=target_version)"), ("seen_domains", "{prot.domain for prot in protos}"), ("keep-if", "not seen_domains & {'', 'ai.onnx'}"), ("convert-if", "source_version != target_version"), ("convert-call", "onnx.version_converter.convert_version(node.model, target_version)"), ("convert-step", "_initializers_to_constants(target_model.graph)"), ("helper:_initializers_to_constants", "def _initializers_to_constants(graph: onnx.GraphProto) -> None:\n    input_names = {i.name for i in graph.input}\n    constants = [onnx.helper.make_node('Constant', [], [init.name], value=init) for init in graph.initializer if init.name not in input_names]\n    if not constants:\n        return\n    nodes = constants + list(graph.node)\n    del graph.initializer[:]\n    del graph.node[:]\n    graph.node.extend(nodes)"), ("return-unconverted", "line-order 0"), ("return-unconverted", "line-order 1"), ("returns", "3"), ("loops-or-nested-defs", "0")]

/-- inventory of class `spox._inline._Inline` (methods, properties, class-level attributes, nested classes)
    and of every attribute WRITE on the node object in `_Inline`'s methods and in `adapt_inline`
    (`<function>:<attribute>`): a new override, cache or class-level attribute shows up here -/
def inlineMembers : List String := ["attr:attrs", "attr:inputs", "attr:model", "attr:op_type=", "attr:outputs", "bases:_InternalNode", "class:Attributes", "class:Inputs", "class:Outputs", "def:graph@property", "def:infer_output_types", "def:opset_req@property", "def:pre_init", "def:propagate_values", "def:to_onnx", "write:adapt_inline:model", "write:pre_init:model"]

end Generated.InlineFacts
