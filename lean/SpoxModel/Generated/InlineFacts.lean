-- GENERATED from src/spox/_public.py by translator/inline_facts.py on every run; do not edit.

import SpoxModel.Model.Inline

namespace Generated.InlineFacts
open Inline

/-- top-level statements of `spox._public.inline`, classified by what they may do to `model` -/
def stmts : List Stmt := [.other, .read, .read, .read, .other, .other, .copy, .read, .mutate, .other, .read, .mutate, .mutate, .mutate, .mutate, .mutate, .mutate, .mutate, .other, .other]

/-- `_copy_model` returns a fresh `ModelProto` filled by `CopyFrom` (or a deepcopy) -/
def copyFresh : Bool := true

end Generated.InlineFacts
