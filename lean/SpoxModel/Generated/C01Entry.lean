-- GENERATED from src/spox/_public.py (build), src/spox/_graph.py (Graph) by translator/c01_entry.py on every run; do not edit.

namespace Generated.C01Entry

/-- positional parameters of `spox.build` -/
def buildPositional : List String := ["inputs", "outputs"]

/-- keyword options of `spox.build` with their defaults -/
def buildOptions : List (String × String) := [("drop_unused_inputs", "False")]

/-- keyword options of `Graph.to_onnx_model` with their defaults -/
def toModelOptions : List (String × String) := [("producer_name", "'spox'"), ("model_doc_string", "''"), ("infer_shapes", "False"), ("check_model", "1"), ("ir_version", "8"), ("concrete", "True")]

/-- the public `with_*` methods of `Graph` -/
def graphSetters : List String := ["with_arguments", "with_doc", "with_name", "with_opset"]

end Generated.C01Entry
