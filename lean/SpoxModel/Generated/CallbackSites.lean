-- GENERATED from src/spox/**/*.py by translator/subgraph_specs.py on every run; do not edit.

namespace Generated.CallbackSites

/-- functions that call a callback object directly (`X._constructor(…)`, or in `_graph.py` a call of
    one of their own parameters) -/
def invokers : List String := ["spox._graph.Graph._reconstruct", "spox._graph.subgraph"]

/-- functions that call `._reconstruct(…)` -/
def reconstructCallers : List String := []

/-- functions that read `._constructor` (attribute load or getattr) -/
def constructorReaders : List String := ["spox._graph.Graph._reconstruct"]

/-- (module, function) of every function that calls `subgraph(…)` -/
def subgraphCallers : List (String × String) :=
  [("spox.opset.ai.onnx.v17", "if_"), ("spox.opset.ai.onnx.v17", "loop"), ("spox.opset.ai.onnx.v17", "scan"), ("spox.opset.ai.onnx.v17", "sequence_map"), ("spox.opset.ai.onnx.v19", "if_"), ("spox.opset.ai.onnx.v19", "loop"), ("spox.opset.ai.onnx.v19", "scan"), ("spox.opset.ai.onnx.v21", "if_"), ("spox.opset.ai.onnx.v21", "loop"), ("spox.opset.ai.onnx.v21", "scan")]

/-- the generated operator-set modules -/
def opsetModules : List String := ["spox.opset.ai.onnx.ml.v3", "spox.opset.ai.onnx.ml.v4", "spox.opset.ai.onnx.ml.v5", "spox.opset.ai.onnx.v17", "spox.opset.ai.onnx.v18", "spox.opset.ai.onnx.v19", "spox.opset.ai.onnx.v20", "spox.opset.ai.onnx.v21"]

end Generated.CallbackSites
