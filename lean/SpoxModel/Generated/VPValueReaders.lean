-- GENERATED from src/spox/**/*.py by translator/vp_value_readers.py on every run; do not edit.
/-! Every (file, function, expression on the build path) that touches a Var's propagated value. -/
namespace Generated.VPValueReaders

def readers : List (String × String × String) :=
  [("_adapt.py", "adapt_node", "from_array(var._value, name)"),
   ("_adapt.py", "adapt_node", "isinstance(var._value, np.ndarray)"),
   ("_attributes.py", "_deref", ""),
   ("_graph.py", "Graph._get_build_result", "self._build_result._value is None"),
   ("_inline.py", "_Inline.propagate_values", ""),
   ("_internal_op.py", "unsafe_cast", ""),
   ("_node.py", "Node.inference", ""),
   ("_node.py", "Node.signature.fmt_input", ""),
   ("_standard.py", "StandardNode.propagate_values_onnx", ""),
   ("_standard.py", "StandardNode.to_singleton_onnx_model", ""),
   ("_var.py", "Var.__init__", ""),
   ("_var.py", "Var.__repr__", ""),
   ("_var.py", "Var._get_value", "")]

end Generated.VPValueReaders
