-- GENERATED from src/spox/opset/**/*.py by translator/subgraph_specs.py on every run; do not edit.

namespace Generated.SubgraphInventory

/-- (module, function, parameters annotated `Callable`) for every top-level function of every opset
    module that takes a callback or calls `subgraph` -/
def callableParams : List (String × String × List String) :=
  [("v17", "if_", ["else_branch", "then_branch"]), ("v17", "loop", ["body"]), ("v17", "scan", ["body"]), ("v17", "sequence_map", ["body"]), ("v19", "if_", ["else_branch", "then_branch"]), ("v19", "loop", ["body"]), ("v19", "scan", ["body"]), ("v21", "if_", ["else_branch", "then_branch"]), ("v21", "loop", ["body"]), ("v21", "scan", ["body"])]

/-- (module, function, [(attribute keyword, `name=` of the AttrGraph, callback the graph was traced from)]) -/
def attrWiring : List (String × String × List (String × String × String)) :=
  [("v17", "if_", [("else_branch", "else_branch", "else_branch"), ("then_branch", "then_branch", "then_branch")]), ("v17", "loop", [("body", "body", "body")]), ("v17", "scan", [("body", "body", "body")]), ("v17", "sequence_map", [("body", "body", "body")]), ("v19", "if_", [("else_branch", "else_branch", "else_branch"), ("then_branch", "then_branch", "then_branch")]), ("v19", "loop", [("body", "body", "body")]), ("v19", "scan", [("body", "body", "body")]), ("v21", "if_", [("else_branch", "else_branch", "else_branch"), ("then_branch", "then_branch", "then_branch")]), ("v21", "loop", [("body", "body", "body")]), ("v21", "scan", [("body", "body", "body")])]

/-- every occurrence of the callback parameter inside `spox._graph.subgraph`, classified -/
def callbackUses : List String := ["call:starred", "arg-of:_with_constructor", "arg-of:callable"]

/-- imports inside `subgraph` and module-level imports of `inspect` / `functools` / `types` in `_graph.py` -/
def introspectionImports : List String := []

end Generated.SubgraphInventory
