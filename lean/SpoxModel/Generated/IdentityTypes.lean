-- GENERATED from onnx.defs (Identity, all versions) by translator/identity_types.py on every run; do not edit.

namespace Generated.IdentityTypes

/-- smallest opset version whose `Identity` accepts a tensor / seq(...) / optional(...) input; 1000000 = none. -/
def minTensor : Nat := 1
def minSeq : Nat := 14
def minOptional : Nat := 16
def identityVersions : List Nat := [1, 13, 14, 16, 19, 21, 23, 24, 25]

end Generated.IdentityTypes
