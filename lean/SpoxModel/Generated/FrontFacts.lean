-- GENERATED from src/spox/_*.py by translator/front_facts.py on every run; do not edit.

namespace Generated.FrontFacts

def recursive : List (String × String) := [("_build.py", "Builder.discover"), ("_standard.py", "_dim_symbols"), ("_standard.py", "_strip_dim_symbol"), ("_inline.py", "rename_in_graph")]

def introFacts : List (String × Bool) := [("intros_returns_fresh_outputs", true), ("intro_results_from_intros", true), ("intro_uses_intros", true), ("unsafe_cast_writes_fresh", true)]

def converterFacts : List (String × Bool) := [("helper_called_only_on_converter_output", true), ("helper_has_a_caller", true), ("helper_writes_only_its_parameter", true)]

def processDependent : List (String × String × String) := []

def setIterations : List (String × String × String) := [("_public.py", "inline", "missing")]

end Generated.FrontFacts
