-- GENERATED from onnx.defs (domain 'ai.onnx', version 21) by translator/constructors.py on every run; do not edit.
import SpoxModel.Model.Conform
import SpoxModel.Generated.Schemas_v20
namespace Generated.Schemas.v21
open Conform

def s_Cast_21 : Schema :=
  { name := "Cast", domain := "", since := 21, deprecated := false, minInput := 1, minOutput := 1,
    inputs := [("input", .single)],
    outputs := [("output", .single)],
    attrs := [⟨"saturate", .INT, false, (Val.int 1)⟩, ⟨"to", .INT, true, Val.none⟩] }

def s_CastLike_21 : Schema :=
  { name := "CastLike", domain := "", since := 21, deprecated := false, minInput := 2, minOutput := 1,
    inputs := [("input", .single), ("target_type", .single)],
    outputs := [("output", .single)],
    attrs := [⟨"saturate", .INT, false, (Val.int 1)⟩] }

def s_Constant_21 : Schema :=
  { name := "Constant", domain := "", since := 21, deprecated := false, minInput := 0, minOutput := 1,
    inputs := [],
    outputs := [("output", .single)],
    attrs := [⟨"sparse_value", .SPARSE_TENSOR, false, Val.none⟩, ⟨"value", .TENSOR, false, Val.none⟩, ⟨"value_float", .FLOAT, false, Val.none⟩, ⟨"value_floats", .FLOATS, false, Val.none⟩, ⟨"value_int", .INT, false, Val.none⟩, ⟨"value_ints", .INTS, false, Val.none⟩, ⟨"value_string", .STRING, false, Val.none⟩, ⟨"value_strings", .STRINGS, false, Val.none⟩] }

def s_ConstantOfShape_21 : Schema :=
  { name := "ConstantOfShape", domain := "", since := 21, deprecated := false, minInput := 1, minOutput := 1,
    inputs := [("input", .single)],
    outputs := [("output", .single)],
    attrs := [⟨"value", .TENSOR, false, Val.none⟩] }

def s_DequantizeLinear_21 : Schema :=
  { name := "DequantizeLinear", domain := "", since := 21, deprecated := false, minInput := 2, minOutput := 1,
    inputs := [("x", .single), ("x_scale", .single), ("x_zero_point", .optional)],
    outputs := [("y", .single)],
    attrs := [⟨"axis", .INT, false, (Val.int 1)⟩, ⟨"block_size", .INT, false, (Val.int 0)⟩] }

def s_Flatten_21 : Schema :=
  { name := "Flatten", domain := "", since := 21, deprecated := false, minInput := 1, minOutput := 1,
    inputs := [("input", .single)],
    outputs := [("output", .single)],
    attrs := [⟨"axis", .INT, false, (Val.int 1)⟩] }

def s_GroupNormalization_21 : Schema :=
  { name := "GroupNormalization", domain := "", since := 21, deprecated := false, minInput := 3, minOutput := 1,
    inputs := [("X", .single), ("scale", .single), ("bias", .single)],
    outputs := [("Y", .single)],
    attrs := [⟨"epsilon", .FLOAT, false, (Val.float 925353388)⟩, ⟨"num_groups", .INT, true, Val.none⟩, ⟨"stash_type", .INT, false, (Val.int 1)⟩] }

def s_Identity_21 : Schema :=
  { name := "Identity", domain := "", since := 21, deprecated := false, minInput := 1, minOutput := 1,
    inputs := [("input", .single)],
    outputs := [("output", .single)],
    attrs := [] }

def s_If_21 : Schema :=
  { name := "If", domain := "", since := 21, deprecated := false, minInput := 1, minOutput := 1,
    inputs := [("cond", .single)],
    outputs := [("outputs", .variadic)],
    attrs := [⟨"else_branch", .GRAPH, true, Val.none⟩, ⟨"then_branch", .GRAPH, true, Val.none⟩] }

def s_Loop_21 : Schema :=
  { name := "Loop", domain := "", since := 21, deprecated := false, minInput := 2, minOutput := 1,
    inputs := [("M", .optional), ("cond", .optional), ("v_initial", .variadic)],
    outputs := [("v_final_and_scan_outputs", .variadic)],
    attrs := [⟨"body", .GRAPH, true, Val.none⟩] }

def s_Pad_21 : Schema :=
  { name := "Pad", domain := "", since := 21, deprecated := false, minInput := 2, minOutput := 1,
    inputs := [("data", .single), ("pads", .single), ("constant_value", .optional), ("axes", .optional)],
    outputs := [("output", .single)],
    attrs := [⟨"mode", .STRING, false, (Val.str "constant")⟩] }

def s_QLinearMatMul_21 : Schema :=
  { name := "QLinearMatMul", domain := "", since := 21, deprecated := false, minInput := 8, minOutput := 1,
    inputs := [("a", .single), ("a_scale", .single), ("a_zero_point", .single), ("b", .single), ("b_scale", .single), ("b_zero_point", .single), ("y_scale", .single), ("y_zero_point", .single)],
    outputs := [("y", .single)],
    attrs := [] }

def s_QuantizeLinear_21 : Schema :=
  { name := "QuantizeLinear", domain := "", since := 21, deprecated := false, minInput := 2, minOutput := 1,
    inputs := [("x", .single), ("y_scale", .single), ("y_zero_point", .optional)],
    outputs := [("y", .single)],
    attrs := [⟨"axis", .INT, false, (Val.int 1)⟩, ⟨"block_size", .INT, false, (Val.int 0)⟩, ⟨"output_dtype", .INT, false, (Val.int 0)⟩, ⟨"saturate", .INT, false, (Val.int 1)⟩] }

def s_Reshape_21 : Schema :=
  { name := "Reshape", domain := "", since := 21, deprecated := false, minInput := 2, minOutput := 1,
    inputs := [("data", .single), ("shape", .single)],
    outputs := [("reshaped", .single)],
    attrs := [⟨"allowzero", .INT, false, (Val.int 0)⟩] }

def s_Scan_21 : Schema :=
  { name := "Scan", domain := "", since := 21, deprecated := false, minInput := 1, minOutput := 1,
    inputs := [("initial_state_and_scan_inputs", .variadic)],
    outputs := [("final_state_and_scan_outputs", .variadic)],
    attrs := [⟨"body", .GRAPH, true, Val.none⟩, ⟨"num_scan_inputs", .INT, true, Val.none⟩, ⟨"scan_input_axes", .INTS, false, Val.none⟩, ⟨"scan_input_directions", .INTS, false, Val.none⟩, ⟨"scan_output_axes", .INTS, false, Val.none⟩, ⟨"scan_output_directions", .INTS, false, Val.none⟩] }

def s_Shape_21 : Schema :=
  { name := "Shape", domain := "", since := 21, deprecated := false, minInput := 1, minOutput := 1,
    inputs := [("data", .single)],
    outputs := [("shape", .single)],
    attrs := [⟨"end", .INT, false, Val.none⟩, ⟨"start", .INT, false, (Val.int 0)⟩] }

def s_Size_21 : Schema :=
  { name := "Size", domain := "", since := 21, deprecated := false, minInput := 1, minOutput := 1,
    inputs := [("data", .single)],
    outputs := [("size", .single)],
    attrs := [] }

def s_Squeeze_21 : Schema :=
  { name := "Squeeze", domain := "", since := 21, deprecated := false, minInput := 1, minOutput := 1,
    inputs := [("data", .single), ("axes", .optional)],
    outputs := [("squeezed", .single)],
    attrs := [] }

def s_Transpose_21 : Schema :=
  { name := "Transpose", domain := "", since := 21, deprecated := false, minInput := 1, minOutput := 1,
    inputs := [("data", .single)],
    outputs := [("transposed", .single)],
    attrs := [⟨"perm", .INTS, false, Val.none⟩] }

def s_Unsqueeze_21 : Schema :=
  { name := "Unsqueeze", domain := "", since := 21, deprecated := false, minInput := 2, minOutput := 1,
    inputs := [("data", .single), ("axes", .single)],
    outputs := [("expanded", .single)],
    attrs := [] }

end Generated.Schemas.v21
