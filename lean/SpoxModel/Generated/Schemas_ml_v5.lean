-- GENERATED from onnx.defs (domain 'ai.onnx.ml', version 5) by translator/constructors.py on every run; do not edit.
import SpoxModel.Model.Conform
import SpoxModel.Generated.Schemas_ml_v4
namespace Generated.Schemas.ml_v5
open Conform

def s_TreeEnsemble_5 : Schema :=
  { name := "TreeEnsemble", domain := "ai.onnx.ml", since := 5, deprecated := false, minInput := 1, minOutput := 1,
    inputs := [("X", .single)],
    outputs := [("Y", .single)],
    attrs := [⟨"aggregate_function", .INT, false, (Val.int 1)⟩, ⟨"leaf_targetids", .INTS, true, Val.none⟩, ⟨"leaf_weights", .TENSOR, true, Val.none⟩, ⟨"membership_values", .TENSOR, false, Val.none⟩, ⟨"n_targets", .INT, false, Val.none⟩, ⟨"nodes_falseleafs", .INTS, true, Val.none⟩, ⟨"nodes_falsenodeids", .INTS, true, Val.none⟩, ⟨"nodes_featureids", .INTS, true, Val.none⟩, ⟨"nodes_hitrates", .TENSOR, false, Val.none⟩, ⟨"nodes_missing_value_tracks_true", .INTS, false, Val.none⟩, ⟨"nodes_modes", .TENSOR, true, Val.none⟩, ⟨"nodes_splits", .TENSOR, true, Val.none⟩, ⟨"nodes_trueleafs", .INTS, true, Val.none⟩, ⟨"nodes_truenodeids", .INTS, true, Val.none⟩, ⟨"post_transform", .INT, false, (Val.int 0)⟩, ⟨"tree_roots", .INTS, true, Val.none⟩] }

end Generated.Schemas.ml_v5
