-- GENERATED from src/spox/opset/** by translator/c05_overrides.py on every run; do not edit.

/-! Classes of the shipped opset modules that override `infer_output_types` / `propagate_values`:
    (domain, operator, since_version, overrides inference, overrides value propagation, the
    inference override runs the standard ONNX routine first). -/
namespace Generated.C05Overrides

def overrides : List (String × String × Nat × Bool × Bool × Bool) := [
  ("", "Compress", 11, true, false, true),
  ("", "Constant", 13, false, true, false),
  ("", "Constant", 19, false, true, false),
  ("", "Constant", 21, false, true, false),
  ("", "Loop", 16, true, false, true),
  ("ai.onnx.ml", "ArrayFeatureExtractor", 1, true, false, false),
  ("ai.onnx.ml", "Binarizer", 1, true, false, false),
  ("ai.onnx.ml", "CategoryMapper", 1, true, false, false),
  ("ai.onnx.ml", "Imputer", 1, true, false, false),
  ("ai.onnx.ml", "LinearRegressor", 1, true, false, false),
  ("ai.onnx.ml", "Normalizer", 1, true, false, false),
  ("ai.onnx.ml", "OneHotEncoder", 1, true, false, false),
  ("ai.onnx.ml", "Scaler", 1, true, false, false),
  ("ai.onnx.ml", "TreeEnsembleClassifier", 3, true, false, false),
  ("ai.onnx.ml", "TreeEnsembleRegressor", 3, true, false, false)
]

end Generated.C05Overrides
