-- GENERATED from onnx.defs (domain 'ai.onnx', version 20) by translator/constructors.py on every run; do not edit.
import SpoxModel.Model.Conform
import SpoxModel.Generated.Schemas_v19
namespace Generated.Schemas.v20
open Conform

def s_AffineGrid_20 : Schema :=
  { name := "AffineGrid", domain := "", since := 20, deprecated := false, minInput := 2, minOutput := 1,
    inputs := [("theta", .single), ("size", .single)],
    outputs := [("grid", .single)],
    attrs := [⟨"align_corners", .INT, false, (Val.int 0)⟩] }

def s_ConstantOfShape_20 : Schema :=
  { name := "ConstantOfShape", domain := "", since := 20, deprecated := false, minInput := 1, minOutput := 1,
    inputs := [("input", .single)],
    outputs := [("output", .single)],
    attrs := [⟨"value", .TENSOR, false, Val.none⟩] }

def s_DFT_20 : Schema :=
  { name := "DFT", domain := "", since := 20, deprecated := false, minInput := 1, minOutput := 1,
    inputs := [("input", .single), ("dft_length", .optional), ("axis", .optional)],
    outputs := [("output", .single)],
    attrs := [⟨"inverse", .INT, false, (Val.int 0)⟩, ⟨"onesided", .INT, false, (Val.int 0)⟩] }

def s_Gelu_20 : Schema :=
  { name := "Gelu", domain := "", since := 20, deprecated := false, minInput := 1, minOutput := 1,
    inputs := [("X", .single)],
    outputs := [("Y", .single)],
    attrs := [⟨"approximate", .STRING, false, (Val.str "none")⟩] }

def s_GridSample_20 : Schema :=
  { name := "GridSample", domain := "", since := 20, deprecated := false, minInput := 2, minOutput := 1,
    inputs := [("X", .single), ("grid", .single)],
    outputs := [("Y", .single)],
    attrs := [⟨"align_corners", .INT, false, (Val.int 0)⟩, ⟨"mode", .STRING, false, (Val.str "linear")⟩, ⟨"padding_mode", .STRING, false, (Val.str "zeros")⟩] }

def s_ImageDecoder_20 : Schema :=
  { name := "ImageDecoder", domain := "", since := 20, deprecated := false, minInput := 1, minOutput := 1,
    inputs := [("encoded_stream", .single)],
    outputs := [("image", .single)],
    attrs := [⟨"pixel_format", .STRING, false, (Val.str "RGB")⟩] }

def s_IsInf_20 : Schema :=
  { name := "IsInf", domain := "", since := 20, deprecated := false, minInput := 1, minOutput := 1,
    inputs := [("X", .single)],
    outputs := [("Y", .single)],
    attrs := [⟨"detect_negative", .INT, false, (Val.int 1)⟩, ⟨"detect_positive", .INT, false, (Val.int 1)⟩] }

def s_IsNaN_20 : Schema :=
  { name := "IsNaN", domain := "", since := 20, deprecated := false, minInput := 1, minOutput := 1,
    inputs := [("X", .single)],
    outputs := [("Y", .single)],
    attrs := [] }

def s_ReduceMax_20 : Schema :=
  { name := "ReduceMax", domain := "", since := 20, deprecated := false, minInput := 1, minOutput := 1,
    inputs := [("data", .single), ("axes", .optional)],
    outputs := [("reduced", .single)],
    attrs := [⟨"keepdims", .INT, false, (Val.int 1)⟩, ⟨"noop_with_empty_axes", .INT, false, (Val.int 0)⟩] }

def s_ReduceMin_20 : Schema :=
  { name := "ReduceMin", domain := "", since := 20, deprecated := false, minInput := 1, minOutput := 1,
    inputs := [("data", .single), ("axes", .optional)],
    outputs := [("reduced", .single)],
    attrs := [⟨"keepdims", .INT, false, (Val.int 1)⟩, ⟨"noop_with_empty_axes", .INT, false, (Val.int 0)⟩] }

def s_RegexFullMatch_20 : Schema :=
  { name := "RegexFullMatch", domain := "", since := 20, deprecated := false, minInput := 1, minOutput := 1,
    inputs := [("X", .single)],
    outputs := [("Y", .single)],
    attrs := [⟨"pattern", .STRING, false, Val.none⟩] }

def s_StringConcat_20 : Schema :=
  { name := "StringConcat", domain := "", since := 20, deprecated := false, minInput := 2, minOutput := 1,
    inputs := [("X", .single), ("Y", .single)],
    outputs := [("Z", .single)],
    attrs := [] }

def s_StringSplit_20 : Schema :=
  { name := "StringSplit", domain := "", since := 20, deprecated := false, minInput := 1, minOutput := 2,
    inputs := [("X", .single)],
    outputs := [("Y", .single), ("Z", .single)],
    attrs := [⟨"delimiter", .STRING, false, Val.none⟩, ⟨"maxsplit", .INT, false, Val.none⟩] }

end Generated.Schemas.v20
