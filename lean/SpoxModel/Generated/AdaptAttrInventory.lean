-- GENERATED from src/spox/_adapt.py, _attributes.py, _utils.py by translator/adapt_attr_inventory.py on every run; do not edit.

/-! Inventories of the code covered by `Conform.mkAttr`/`callAttrsE` (C11) and `CustomInline.decide` (C18):
    functions of `_adapt.py` with their exits (kind, value, guarding `if` tests) and calls; classes of
    `_attributes.py` with bases, own methods, class-level assignments and raise sites. -/

namespace Generated.AdaptAttrInventory

/-- (function, parameters, exits (kind, value, guards), called names) -/
def adaptFunctions : List (String × List String × List (String × String × List String) × List String) := [
  ("adapt_node", ["node", "proto", "source_version", "target_version", "var_names"],
   [("return", "None", ["p2 == p3"]), ("return", "None", ["<except ValueError>"]), ("return", "list(onnx.version_converter.convert_version(onnx.helper.make_model(onnx.helper.make_graph([p1], 'spox__singleton_adapter_graph', list({p4[b1]: b1.unwrap_type().", [])],
   ["from_array", "input_info.values", "isinstance", "list", "node.inputs.get_vars", "node.inputs.get_vars().items", "node.outputs.get_vars", "node.outputs.get_vars().items", "onnx.checker.check_model", "onnx.helper.make_graph", "onnx.helper.make_model", "onnx.helper.make_operatorsetid", "onnx.version_converter.convert_version", "set", "var.unwrap_type", "var.unwrap_type()._to_onnx_value_info"]),
  ("_initializers_to_constants", ["graph"],
   [("return", "", ["not [onnx.helper.make_node('Constant', [], [b0.name], value=b0) for b0 in p0.initializer if b0.name not in {b1.name for b1 in p0.input}]"])],
   ["graph.node.extend", "list", "onnx.helper.make_node"]),
  ("adapt_inline", ["node", "protos", "target_opsets", "var_names", "node_name"],
   [("return", "p1", ["not {b0.domain for b0 in p1} & {'', 'ai.onnx'}"]), ("return", "p0.to_onnx(Scope.of((p0, p4), *p3.items()))", ["max({b0.version for b0 in p0.model.opset_import if b0.domain in ('', 'ai.onnx')}, default=p2['']) != p2['']"]), ("return", "p1", [])],
   ["Scope.of", "_initializers_to_constants", "max", "node.to_onnx", "onnx.version_converter.convert_version", "var_names.items"]),
  ("adapt_best_effort", ["node", "protos", "opsets", "var_names", "node_names"],
   [("return", "adapt_inline(p0, p1, p2, p3, p4[p0])", ["isinstance(p0, _Inline)"]), ("return", "None", ["isinstance(p0, _InternalNode) or len(p1) != 1"]), ("return", "None", ["any((isinstance(b0, AttrGraph) for b0 in p0.attrs.get_fields().values()))"]), ("return", "None", ["not b0"]), ("return", "None", ["b0.domain not in ('', 'ai.onnx')"]), ("return", "adapt_node(p0, b2, max({b1 for b0, b1 in p0.opset_req if b0 == (b2.domain if b2.domain != 'ai.onnx' else '')}), p2[b2.domain if b2.domain != 'ai.onnx' else ''],", [])],
   ["RuntimeWarning", "SCHEMAS.get", "SCHEMAS.get(domain, {}).get", "SCHEMAS.get(domain, {}).get(source_version, {}).get", "SCHEMAS.get(domain, {}).get(target_version, {}).get", "adapt_inline", "adapt_node", "any", "isinstance", "len", "max", "node.attrs.get_fields", "node.attrs.get_fields().values", "warnings.warn"])
]

/-- exits of `adapt_inline` alone (what `CustomInline.decide` models) -/
def adaptInlineExits : List (String × String × List String) := [("return", "p1", ["not {b0.domain for b0 in p1} & {'', 'ai.onnx'}"]), ("return", "p0.to_onnx(Scope.of((p0, p4), *p3.items()))", ["max({b0.version for b0 in p0.model.opset_import if b0.domain in ('', 'ai.onnx')}, default=p2['']) != p2['']"]), ("return", "p1", [])]

/-- (class, bases, methods defined in the class body, class-level assignments, raise sites) -/
def attrClasses : List (String × List String × List String × List (String × String) × List String) := [
  ("Attr", ["ABC", "Generic"], ["__init__", "deref", "maybe", "value", "_validate", "_to_onnx", "_attribute_proto_type", "_to_onnx_deref", "_get_pretty_type_exception"],
   [], ["_validate: self._get_pretty_type_exception", "_validate: self._get_pretty_type_exception", "_attribute_proto_type: NotImplementedError", "_to_onnx_deref: NotImplementedError"]),
  ("_Ref", ["Generic"], ["__init__", "copy", "_to_onnx"],
   [], []),
  ("AttrFloat32", ["Attr"], ["_to_onnx_deref"],
   [("_attribute_proto_type", "AttributeProto.FLOAT")], []),
  ("AttrInt64", ["Attr"], ["_to_onnx_deref"],
   [("_attribute_proto_type", "AttributeProto.INT")], []),
  ("AttrString", ["Attr"], ["_to_onnx_deref"],
   [("_attribute_proto_type", "AttributeProto.STRING")], []),
  ("AttrTensor", ["Attr"], ["__init__", "_to_onnx_deref"],
   [("_attribute_proto_type", "AttributeProto.TENSOR")], ["__init__: TypeError"]),
  ("AttrType", ["Attr"], ["_to_onnx_deref"],
   [("_attribute_proto_type", "AttributeProto.TYPE_PROTO")], ["_to_onnx_deref: NotImplementedError"]),
  ("AttrDtype", ["Attr"], ["_validate", "_to_onnx_deref"],
   [("_attribute_proto_type", "AttributeProto.INT")], []),
  ("AttrGraph", ["Attr"], ["_validate", "_to_onnx_deref"],
   [("_attribute_proto_type", "AttributeProto.GRAPH")], ["_validate: TypeError", "_to_onnx_deref: TypeError"]),
  ("_AttrIterable", ["Attr", "ABC"], ["__init__", "maybe", "_to_onnx_deref"],
   [], []),
  ("AttrFloat32s", ["_AttrIterable"], [],
   [("_attribute_proto_type", "AttributeProto.FLOATS")], []),
  ("AttrInt64s", ["_AttrIterable"], [],
   [("_attribute_proto_type", "AttributeProto.INTS")], []),
  ("AttrStrings", ["_AttrIterable"], [],
   [("_attribute_proto_type", "AttributeProto.STRINGS")], []),
  ("AttrTensors", ["_AttrIterable"], ["__init__", "_to_onnx_deref"],
   [("_attribute_proto_type", "AttributeProto.TENSORS")], []),
  ("<def _deref>", [], [],
   [], [])
]

/-- exits of `_utils.dtype_to_tensor_type` (the validation `AttrDtype._validate` delegates to) -/
def dtypeExits : List (String × String × List String) := [("raise", "TypeError(f'{p0} is not a valid ONNX tensor element type.')", ["p0 is None"]), ("raise", "TypeError(f'{p0} is not a valid ONNX tensor element type.')", ["<except ValueError>"]), ("raise", "TypeError(\"`np.dtype('object')` is not supported as a tensor", ["np.dtype(np.dtype(p0).type) == np.dtype(object)"]), ("return", "onnx.TensorProto.STRING", ["not (np.dtype(np.dtype(p0).type) == np.dtype(object))", "np.dtype(np.dtype(p0).type) == np.dtype(str)"]), ("return", "onnx.helper.np_dtype_to_tensor_dtype(np.dtype(np.dtype(p0).type))", ["<try>"]), ("raise", "TypeError(f'{p0} is not a valid ONNX tensor element type.')", ["<except (KeyError, ValueError)>"])]

/-- the sources of slotting (statements, self = v0, locals alpha-renamed): what `len(inputs)` counts
    (`BaseVars._flatten/__iter__/__len__`), the minima (`Node.min_input/min_output`,
    `StandardNode.min_input/min_output`), the popping loops of `Node.to_onnx` -/
def slotting : List (String × String × List String) := [
  ("_fields.py", "BaseVars._flatten", ["for v0, v1 in self.__dict__.items():\n    if v1 is None or isinstance(v1, Var):\n        yield (v0, v1)\n    else:\n        yield from ((f'{v0}_{v2}', v3) for v2, v3 in enumerate(v1))"]),
  ("_fields.py", "BaseVars.__iter__", ["yield from (v1 for v0, v1 in self._flatten())"]),
  ("_fields.py", "BaseVars.__len__", ["return sum((1 for v0 in self))"]),
  ("_node.py", "Node.min_input", ["return len(self.inputs)"]),
  ("_node.py", "Node.min_output", ["return len(self.outputs)"]),
  ("_standard.py", "StandardNode.min_input", ["return self.schema.min_input"]),
  ("_standard.py", "StandardNode.min_output", ["return self.schema.min_output"]),
  ("_node.py", "Node.to_onnx:<while loops>", ["while len(v3) > self.min_input and (not v3[-1]):\n    v3.pop()", "while len(v4) > self.min_output and (not v4[-1]):\n    v4.pop()"])
]

end Generated.AdaptAttrInventory
