import SpoxModel.Lemmas.Named
/-! Completeness of the structural checker (C02 `checkStructural_complete`): a well-formed tree that
    satisfies the declarative statement is accepted. -/
namespace Named

theorem val_nodup_inv {xs : List String} (h : (val xs).Nodup) : xs.Nodup := by
  unfold val at h
  exact List.Pairwise.of_map _ (fun a b hab heq => hab (by rw [heq])) h

theorem defs_nodup_of_split : (ds : List Def) → (valueNames ds).Nodup → (nodeNames ds).Nodup → ds.Nodup
  | [], _, _ => List.nodup_nil
  | (b, x) :: ds, hv, hn => by
    cases b with
    | true =>
      have hv' : x ∉ valueNames ds ∧ (valueNames ds).Nodup := by
        simpa [valueNames, List.filter_cons] using hv
      have hn' : (nodeNames ds).Nodup := by simpa [nodeNames, List.filter_cons] using hn
      rw [List.nodup_cons]
      refine ⟨?_, defs_nodup_of_split ds hv'.2 hn'⟩
      intro hm
      apply hv'.1
      unfold valueNames
      exact List.mem_map.mpr ⟨(true, x), List.mem_filter.mpr ⟨hm, rfl⟩, rfl⟩
    | false =>
      have hn' : x ∉ nodeNames ds ∧ (nodeNames ds).Nodup := by
        simpa [nodeNames, List.filter_cons] using hn
      have hv' : (valueNames ds).Nodup := by simpa [valueNames, List.filter_cons] using hv
      rw [List.nodup_cons]
      refine ⟨?_, defs_nodup_of_split ds hv' hn'.2⟩
      intro hm
      apply hn'.1
      unfold nodeNames
      exact List.mem_map.mpr ⟨(false, x), List.mem_filter.mpr ⟨hm, rfl⟩, rfl⟩

mutual
theorem checkGraph_complete : (g : NGraph) → (vis : List String) → (st : List Def) →
    (defsG g).Nodup → (∀ d ∈ defsG g, d ∉ st) → ScopedG vis g → WfG g →
    ∃ st', checkGraph vis st g = some st'
  | .mk ins inits nodes outs, vis, st, hn, hf, hs, hw => by
    simp only [defsG] at hn hf
    simp only [ScopedG] at hs
    simp only [WfG] at hw
    obtain ⟨hwi, hwe, hwn⟩ := hw
    rw [List.nodup_append] at hn
    obtain ⟨hn1, hn2, hn3⟩ := hn
    have hent : (entryNames ins inits).Nodup := val_nodup_inv hn1
    have hins : ins.Nodup := by
      unfold entryNames at hent
      exact (List.nodup_append.mp hent).1
    have hcond : ins.Nodup ∧ inits.Nodup ∧ "" ∉ entryNames ins inits ∧
        (∀ d ∈ val (entryNames ins inits), d ∉ st) :=
      ⟨hins, hwi, hwe, fun d hd => hf d (List.mem_append_left _ hd)⟩
    have ih := checkNodes_complete nodes outs (entryNames ins inits ++ vis)
      (val (entryNames ins inits) ++ st) hn2
      (by
        intro d hd hmem
        rcases List.mem_append.mp hmem with h | h
        · exact hn3 d h d hd rfl
        · exact hf d (List.mem_append_right _ hd) h) hs hwn
    obtain ⟨st', h'⟩ := ih
    refine ⟨st', ?_⟩
    simp only [checkGraph]
    rw [if_pos hcond]
    exact h'
theorem checkNodes_complete : (ns : List NNode) → (outs vis : List String) → (st : List Def) →
    (defsNs ns).Nodup → (∀ d ∈ defsNs ns, d ∉ st) → ScopedNs vis ns outs → WfNs ns →
    ∃ st', checkNodes vis st ns outs = some st'
  | [], outs, vis, st, _, _, hs, _ => by
    simp only [ScopedNs] at hs
    refine ⟨st, ?_⟩
    simp only [checkNodes]
    rw [if_pos hs]
  | (.mk name ins os subs) :: rest, outs, vis, st, hn, hf, hs, hw => by
    simp only [defsNs] at hn hf
    simp only [ScopedNs] at hs
    simp only [WfNs] at hw
    obtain ⟨hsi, hss, hsr⟩ := hs
    rw [List.nodup_append] at hn
    obtain ⟨_, hBCD, hA_BCD⟩ := hn
    rw [List.nodup_append] at hBCD
    obtain ⟨hB, hCD, hB_CD⟩ := hBCD
    rw [List.nodup_append] at hCD
    obtain ⟨hC, hD, hC_D⟩ := hCD
    have cond1 : (∀ d ∈ nodeDef name, d ∉ st) ∧ (∀ i ∈ ins, i ≠ "" → i ∈ vis) :=
      ⟨fun d hd => hf d (List.mem_append_left _ hd), hsi⟩
    obtain ⟨st2, hsub⟩ := checkSubs_complete subs vis (nodeDef name ++ st) hB
      (by
        intro d hd hmem
        rcases List.mem_append.mp hmem with h | h
        · exact hA_BCD d h d (List.mem_append_left _ hd) rfl
        · exact hf d (List.mem_append_right _ (List.mem_append_left _ hd)) h) hss hw.1
    have res2 := (checkSubs_sound subs _ _ _ hsub).1
    -- membership in st2: a definition of the bodies, the node's own name, or older
    have notin2 : ∀ d, d ∈ val (nonEmpty os) ++ defsNs rest → d ∉ st2 := by
      intro d hd hmem
      rcases (res2.mem d).mp hmem with h | h
      · exact hB_CD d h d hd rfl
      · rcases List.mem_append.mp h with h | h
        · exact hA_BCD d h d (List.mem_append_right _ hd) rfl
        · exact hf d (List.mem_append_right _ (List.mem_append_right _ hd)) h
    have cond2 : (nonEmpty os).Nodup ∧ (∀ d ∈ val (nonEmpty os), d ∉ st2) :=
      ⟨val_nodup_inv hC, fun d hd => notin2 d (List.mem_append_left _ hd)⟩
    obtain ⟨st', hrest⟩ := checkNodes_complete rest outs (nonEmpty os ++ vis)
      (val (nonEmpty os) ++ st2) hD
      (by
        intro d hd hmem
        rcases List.mem_append.mp hmem with h | h
        · exact hC_D d h d hd rfl
        · exact notin2 d (List.mem_append_right _ hd) h) hsr hw.2
    refine ⟨st', ?_⟩
    simp only [checkNodes]
    rw [if_pos cond1]
    simp only [hsub]
    rw [if_pos cond2]
    exact hrest
theorem checkSubs_complete : (gs : List NGraph) → (vis : List String) → (st : List Def) →
    (defsGs gs).Nodup → (∀ d ∈ defsGs gs, d ∉ st) → ScopedGs vis gs → WfGs gs →
    ∃ st', checkSubs vis st gs = some st'
  | [], _, st, _, _, _, _ => ⟨st, by simp only [checkSubs]⟩
  | g :: gs, vis, st, hn, hf, hs, hw => by
    simp only [defsGs] at hn hf
    simp only [ScopedGs] at hs
    simp only [WfGs] at hw
    rw [List.nodup_append] at hn
    obtain ⟨h1, h2, h12⟩ := hn
    obtain ⟨st1, hg⟩ := checkGraph_complete g vis st h1
      (fun d hd => hf d (List.mem_append_left _ hd)) hs.1 hw.1
    have res1 := (checkGraph_sound g _ _ _ hg).1
    obtain ⟨st', hrest⟩ := checkSubs_complete gs vis st1 h2
      (by
        intro d hd hmem
        rcases (res1.mem d).mp hmem with h | h
        · exact h12 d h d hd rfl
        · exact hf d (List.mem_append_right _ hd) h) hs.2 hw.2
    refine ⟨st', ?_⟩
    simp only [checkSubs, hg]
    exact hrest
end

mutual
theorem wfB_iff : (g : NGraph) → (wfB g = true ↔ WfG g)
  | .mk ins inits nodes outs => by
    simp only [wfB, WfG, Bool.and_eq_true, decide_eq_true_eq, Bool.not_eq_true', wfNsB_iff nodes]
    constructor
    · rintro ⟨⟨h1, h2⟩, h3⟩
      exact ⟨h1, by simpa using h2, h3⟩
    · rintro ⟨h1, h2, h3⟩
      exact ⟨⟨h1, by simpa using h2⟩, h3⟩
theorem wfNsB_iff : (ns : List NNode) → (wfNsB ns = true ↔ WfNs ns)
  | [] => by simp [wfNsB, WfNs]
  | (.mk _ _ _ subs) :: rest => by
    simp only [wfNsB, WfNs, Bool.and_eq_true, wfGsB_iff subs, wfNsB_iff rest]
theorem wfGsB_iff : (gs : List NGraph) → (wfGsB gs = true ↔ WfGs gs)
  | [] => by simp [wfGsB, WfGs]
  | g :: gs => by
    simp only [wfGsB, WfGs, Bool.and_eq_true, wfB_iff g, wfGsB_iff gs]
end

end Named
