import SpoxModel.Model.Subgraph
import SpoxModel.Model.SubgraphSpec
/-!
# Helper lemmas for C19

Reference IRs (the accepted shapes of the four constructors, and the shapes found on the pinned
tree), evaluation lemmas for them (unbounded: by induction over operand lists), and counting lemmas
for the callback log.
-/
namespace SubgraphLemmas
open Subgraph SubgraphSpec

/-! ## Reference IRs -/

def scanList : String := "initial_state_and_scan_inputs"
def scanSplit : Idx := .sub (.len scanList) (.param "num_scan_inputs")

def ifSpec : CtorSpec := ⟨[("else_branch", .empty), ("then_branch", .empty)], "else_branch", 0⟩

/-- the two branch subgraphs created in the other order (equally acceptable) -/
def ifSpecSwapped : CtorSpec := ⟨[("then_branch", .empty), ("else_branch", .empty)], "else_branch", 0⟩

def loopTypes (sh : Option (List Dim)) : ListExpr :=
  .append (.lit [.const (.tensor 7 sh), .const (.tensor 9 sh)])
    (.comp (.unwrapType .loopVar) ⟨"v_initial", none, none⟩)
def loopSpecWith (sh : Option (List Dim)) : CtorSpec := ⟨[("body", loopTypes sh)], "body", 1⟩

def stripFirst : TyExpr := .tensorOf (.unwrapTensor .loopVar) (.sliceIfKnown (some 1) none)

/-- states first (unchanged), then the scan inputs without their leading axis -/
def scanTypes : ListExpr :=
  .append (.comp (.unwrapTensor .loopVar) ⟨scanList, none, some scanSplit⟩)
    (.comp stripFirst ⟨scanList, some scanSplit, none⟩)
def scanSpec : CtorSpec := ⟨[("body", scanTypes)], "body", 0⟩

/-- the shape on the pinned tree: the split applied to the wrong operands -/
def scanTypesPinned : ListExpr :=
  .append (.comp stripFirst ⟨scanList, none, some (.param "num_scan_inputs")⟩)
    (.comp (.tensorOf (.unwrapTensor .loopVar) .unknown) ⟨scanList, some (.param "num_scan_inputs"), none⟩)

def seqElem : TyExpr := .elemType (.unwrapType (.single "input_sequence"))
def seqMapTypes : ListExpr :=
  .append (.lit [seqElem])
    (.comp (.ifSeq (.unwrapType .loopVar) (.elemType (.unwrapType .loopVar)) (.unwrapType .loopVar))
      ⟨"additional_inputs", none, none⟩)
def seqMapSpec : CtorSpec := ⟨[("body", seqMapTypes)], "body", 0⟩

/-- the shape on the pinned tree: `.elem_type` of every additional input -/
def seqMapTypesPinned : ListExpr :=
  .append (.lit [seqElem])
    (.comp (.elemType (.unwrapType .loopVar)) ⟨"additional_inputs", none, none⟩)

/-! ## Lists, slices -/

theorem mapE_map_ok {α β γ} (f : β → Except Err γ) (h : α → β) (g : α → γ) (xs : List α)
    (hf : ∀ x ∈ xs, f (h x) = .ok (g x)) : mapE f (xs.map h) = .ok (xs.map g) := by
  induction xs with
  | nil => rfl
  | cons x xs ih =>
    have h1 := hf x (by simp)
    have h2 := ih (fun y hy => hf y (by simp [hy]))
    simp [mapE, h1, h2]

theorem pySlice_none_none {α} (xs : List α) : pySlice xs none none = xs := by
  simp [pySlice]

theorem normIdx_sub (len m : Nat) (hm : m ≤ len) :
    normIdx len ((len : Int) - (m : Int)) = len - m := by
  have hnn : ¬ (((len : Int) - (m : Int)) < 0) := by omega
  simp only [normIdx, hnn, if_false]
  omega

theorem pySlice_upto {α} (xs : List α) (m : Nat) (hm : m ≤ xs.length) :
    pySlice xs none (some ((xs.length : Int) - (m : Int))) = xs.take (xs.length - m) := by
  simp [pySlice, normIdx_sub _ _ hm]

theorem pySlice_from {α} (xs : List α) (m : Nat) (hm : m ≤ xs.length) :
    pySlice xs (some ((xs.length : Int) - (m : Int))) none = xs.drop (xs.length - m) := by
  simp only [pySlice, normIdx_sub _ _ hm]
  apply List.take_of_length_le
  simp

theorem pySlice_tail {α} (xs : List α) : pySlice xs (some 1) none = xs.tail := by
  cases xs with
  | nil => simp [pySlice, normIdx]
  | cons x xs =>
    have h1 : normIdx (x :: xs).length 1 = 1 := by
      simp only [normIdx, List.length_cons]
      have : ¬ ((1 : Int) < 0) := by omega
      simp only [this, if_false]
      show min 1 (xs.length + 1) = 1
      omega
    simp only [pySlice, h1]
    apply List.take_of_length_le
    simp

theorem dropAxis_zero (sh : Option (List Dim)) :
    sh.map (fun x => pySlice x (some 1) none) = dropAxis 0 sh := by
  cases sh with
  | none => rfl
  | some ds => cases ds <;> simp [dropAxis, pySlice_tail]

theorem stripAxes_nil (ts : List TensorT) :
    stripAxes ts [] = ts.map (fun t => Ty.tensor t.dt (dropAxis 0 t.shape)) := by
  induction ts with
  | nil => rfl
  | cons t ts ih => simp [stripAxes, ih]

theorem stripAxes_zeros (ts : List TensorT) (as : List Int) (h : ∀ a ∈ as, a = 0) :
    stripAxes ts as = stripAxes ts [] := by
  induction ts generalizing as with
  | nil => cases as <;> rfl
  | cons t ts ih =>
    cases as with
    | nil => rfl
    | cons a as =>
      have ha : a = 0 := h a (by simp)
      have := ih as (fun b hb => h b (by simp [hb]))
      simp [stripAxes, ha, this]

/-! ## Evaluation of the reference IRs (any number of operands, any types) -/

theorem eval_if (env : Env) : evalList env .empty = .ok ifPresc := rfl

theorem eval_loop (env : Env) (sh : Option (List Dim)) (carried : List Ty)
    (hl : env.lists "v_initial" = carried.map some) :
    evalList env (loopTypes sh) = .ok (loopPrescWith sh carried) := by
  have h2 : mapE (fun o => evalTy env (some o) (.unwrapType .loopVar)) (carried.map some)
      = .ok (carried.map id) :=
    mapE_map_ok _ _ _ _ (fun t _ => by simp [evalTy, lookupVar])
  simp only [loopTypes, evalList, evalSrc, Option.map, pySlice_none_none, hl]
  rw [h2]
  simp [mapE, evalTy, appendE, loopPrescWith, dtInt64, dtBool]

theorem eval_scan (env : Env) (ops : List TensorT) (m : Nat) (hm : m ≤ ops.length)
    (hl : env.lists scanList = ops.map (fun t => some t.ty))
    (hi : env.ints "num_scan_inputs" = (m : Int)) :
    evalList env scanTypes = .ok (scanPresc ops m none) := by
  have hlen : (env.lists scanList).length = ops.length := by simp [hl]
  have hidx : evalIdx env scanSplit = ((env.lists scanList).length : Int) - (m : Int) := by
    simp [scanSplit, evalIdx, hi]
  have hm' : m ≤ (env.lists scanList).length := by omega
  have hs1 : evalSrc env ⟨scanList, none, some scanSplit⟩
      = (ops.take (ops.length - m)).map (fun t => some t.ty) := by
    simp only [evalSrc, Option.map, hidx]
    rw [pySlice_upto _ _ hm', hl]
    simp [List.map_take]
  have hs2 : evalSrc env ⟨scanList, some scanSplit, none⟩
      = (ops.drop (ops.length - m)).map (fun t => some t.ty) := by
    simp only [evalSrc, Option.map, hidx]
    rw [pySlice_from _ _ hm', hl]
    simp [List.map_drop]
  have e1 : mapE (fun o => evalTy env (some o) (.unwrapTensor .loopVar))
      ((ops.take (ops.length - m)).map (fun t => some t.ty))
      = .ok ((ops.take (ops.length - m)).map TensorT.ty) :=
    mapE_map_ok _ _ _ _ (fun t _ => by simp [evalTy, lookupVar, TensorT.ty])
  have e2 : mapE (fun o => evalTy env (some o) stripFirst)
      ((ops.drop (ops.length - m)).map (fun t => some t.ty))
      = .ok ((ops.drop (ops.length - m)).map (fun t => Ty.tensor t.dt (dropAxis 0 t.shape))) :=
    mapE_map_ok _ _ _ _ (fun t _ => by
      simp [stripFirst, evalTy, lookupVar, TensorT.ty, applyShape, dropAxis_zero])
  simp only [scanTypes, evalList]
  rw [hs1, hs2, e1, e2]
  simp [appendE, scanPresc, stripAxes_nil]

theorem eval_seqMap (env : Env) (elem : Ty) (extra : List SMOperand)
    (hs : env.singles "input_sequence" = some (.seq elem))
    (hl : env.lists "additional_inputs" = extra.map (fun o => some o.ty)) :
    evalList env seqMapTypes = .ok (seqMapPresc elem extra) := by
  have e2 : mapE (fun o => evalTy env (some o)
        (.ifSeq (.unwrapType .loopVar) (.elemType (.unwrapType .loopVar)) (.unwrapType .loopVar)))
      (extra.map (fun o => some o.ty)) = .ok (extra.map SMOperand.bodyTy) :=
    mapE_map_ok _ _ _ _ (fun o _ => by
      cases o <;> simp [evalTy, lookupVar, SMOperand.ty, SMOperand.bodyTy, TensorT.ty])
  simp only [seqMapTypes, evalList, evalSrc, Option.map, pySlice_none_none, hl]
  rw [e2]
  simp [seqElem, mapE, evalTy, lookupVar, hs, appendE, seqMapPresc]

/-! ## Counting callback invocations -/

theorem count_cons (w : World) (e : Event) (c : Nat) (f : Nat) :
    (World.count ⟨e :: w.events, f⟩ c) = w.count c + (if e.cb == c then 1 else 0) := by
  unfold World.count
  by_cases h : (e.cb == c) = true <;> simp [List.filter, h]

/-- `subgraph` invokes a callable callback exactly once, and nothing else. -/
theorem subgraphCall_count (types : List Ty) (cb : Nat) (beh : CbBehaviour) (w : World) (c : Nat) :
    (subgraphCall types cb beh w).2.count c
      = w.count c + (if beh.callable && cb == c then 1 else 0) := by
  unfold subgraphCall
  cases hcall : beh.callable
  · simp [World.count]
  · cases hres : beh.result <;> simp only [World.count] <;>
      by_cases h : cb = c <;> simp [List.filter, h]

/-- ids of the callbacks a constructor was given, in the order of its `subgraph(…)` calls -/
def cbIds (cbs : Callbacks) (subs : List (String × ListExpr)) : List Nat :=
  subs.map (fun p => (cbs p.1).1)

/-- On success every callback was invoked exactly as many times as it was passed (once per role). -/
theorem runSubgraphs_count_ok (env : Env) (cbs : Callbacks) :
    ∀ (subs : List (String × ListExpr)) (w w' : World) (gs : List (String × Graph)),
      runSubgraphs env cbs subs w = (.ok gs, w') →
      ∀ c, w'.count c = w.count c + (cbIds cbs subs).count c := by
  intro subs
  induction subs with
  | nil =>
    intro w w' gs h c
    simp [runSubgraphs] at h
    simp [cbIds, ← h.2]
  | cons p rest ih =>
    intro w w' gs h c
    obtain ⟨nm, e⟩ := p
    simp only [runSubgraphs] at h
    cases he : evalList env e with
    | error err => simp [he] at h
    | ok types =>
      simp only [he] at h
      have hc := subgraphCall_count types (cbs nm).1 (cbs nm).2 w c
      generalize hsc : subgraphCall types (cbs nm).1 (cbs nm).2 w = r at h hc
      obtain ⟨res, w1⟩ := r
      cases res with
      | error err => simp at h
      | ok g =>
        simp only at h
        generalize hrs : runSubgraphs env cbs rest w1 = r2 at h
        obtain ⟨res2, w2⟩ := r2
        cases res2 with
        | error err => simp at h
        | ok gs2 =>
          simp only [Prod.mk.injEq, Except.ok.injEq] at h
          have ih' := ih w1 w2 gs2 hrs c
          have hcallable : (cbs nm).2.callable = true := by
            unfold subgraphCall at hsc
            cases hb : (cbs nm).2.callable
            · simp [hb] at hsc
            · rfl
          simp only at hc
          rw [← h.2, ih', hc, hcallable]
          simp only [cbIds, List.map_cons, List.count_cons, Bool.true_and]
          omega

/-- Whatever happens (also when a later callback or type expression fails), no callback is invoked
    more often than it was passed. -/
theorem runSubgraphs_count_le (env : Env) (cbs : Callbacks) :
    ∀ (subs : List (String × ListExpr)) (w : World) (c : Nat),
      (runSubgraphs env cbs subs w).2.count c ≤ w.count c + (cbIds cbs subs).count c := by
  intro subs
  induction subs with
  | nil => intro w c; simp [runSubgraphs]
  | cons p rest ih =>
    intro w c
    obtain ⟨nm, e⟩ := p
    simp only [runSubgraphs]
    cases he : evalList env e with
    | error err => simp
    | ok types =>
      simp only
      have hc := subgraphCall_count types (cbs nm).1 (cbs nm).2 w c
      generalize subgraphCall types (cbs nm).1 (cbs nm).2 w = r at hc
      obtain ⟨res, w1⟩ := r
      simp only at hc
      have hstep : w1.count c ≤ w.count c + (if (cbs nm).1 == c then 1 else 0) := by
        rw [hc]; cases (cbs nm).2.callable <;> simp
      cases res with
      | error err =>
        simp only [cbIds, List.map_cons, List.count_cons]
        omega
      | ok g =>
        simp only
        have ih' := ih w1 c
        generalize runSubgraphs env cbs rest w1 = r2 at ih'
        obtain ⟨res2, w2⟩ := r2
        simp only at ih'
        simp only [cbIds, List.map_cons, List.count_cons] at ih' ⊢
        cases res2 <;> simp only <;> omega

/-- On success, each produced graph records the number of Vars its callback returned. -/
theorem runSubgraphs_results (env : Env) (cbs : Callbacks) :
    ∀ (subs : List (String × ListExpr)) (w w' : World) (gs : List (String × Graph)),
      runSubgraphs env cbs subs w = (.ok gs, w') →
      gs.map (fun p => (p.1, Except.ok (ε := Err) p.2.nResults))
        = subs.map (fun p => (p.1, (cbs p.1).2.result)) := by
  intro subs
  induction subs with
  | nil => intro w w' gs h; simp [runSubgraphs] at h; simp [← h.1]
  | cons p rest ih =>
    intro w w' gs h
    obtain ⟨nm, e⟩ := p
    simp only [runSubgraphs] at h
    cases he : evalList env e with
    | error err => simp [he] at h
    | ok types =>
      simp only [he] at h
      unfold subgraphCall at h
      cases hcall : (cbs nm).2.callable
      · simp [hcall] at h
      · simp only [hcall, if_true] at h
        cases hres : (cbs nm).2.result with
        | error err => simp [hres] at h
        | ok n =>
          simp only [hres] at h
          generalize hrs : runSubgraphs env cbs rest _ = r2 at h
          obtain ⟨res2, w2⟩ := r2
          cases res2 with
          | error err => simp at h
          | ok gs2 =>
            simp only [Prod.mk.injEq, Except.ok.injEq] at h
            have ih' := ih _ w2 gs2 hrs
            simp [← h.1, ih', hres]

/-! ## The call graph certificate -/

open CallGraph in
/-- A mask that contains the entry points and is closed under the edges contains everything reachable. -/
theorem reach_in_mask (g : CallGraph.Graph) (mask : Nat) (hs : g.safe mask = true) (es : List Nat)
    (hes : ∀ e ∈ es, e ∈ g.allEntries) : ∀ x, Reach g.edges es x → inMask mask x = true := by
  simp only [Graph.safe, Bool.and_eq_true, List.all_eq_true] at hs
  obtain ⟨⟨hE, hC⟩, _⟩ := hs
  intro x hx
  induction hx with
  | entry he => exact hE _ (hes _ he)
  | step _ hedge ih =>
    have := hC _ hedge
    simp only [Bool.or_eq_true, Bool.not_eq_true'] at this
    rcases this with h | h
    · rw [ih] at h; cases h
    · exact h

open CallGraph in
theorem expand_reach (edges : List (Nat × Nat)) (es : List Nat) :
    ∀ (l : List (Nat × Nat)) (acc : List Nat), (∀ e ∈ l, e ∈ edges) → (∀ c ∈ acc, Reach edges es c) →
      ∀ x ∈ l.foldl (fun acc e => if acc.contains e.1 && !acc.contains e.2 then e.2 :: acc else acc) acc,
        Reach edges es x := by
  intro l
  induction l with
  | nil => intro acc _ h x hx; exact h x hx
  | cons e l ih =>
    intro acc hl h x hx
    simp only [List.foldl_cons] at hx
    refine ih _ (fun e' he' => hl e' (by simp [he'])) ?_ x hx
    intro c hc
    split at hc
    · rename_i hcond
      simp only [List.mem_cons] at hc
      rcases hc with rfl | hc
      · have h1 : e.1 ∈ acc := by
          simp only [Bool.and_eq_true, List.contains_iff_mem] at hcond
          exact hcond.1
        exact Reach.step (h _ h1) (hl e (by simp))
      · exact h c hc
    · exact h c hc

open CallGraph in
theorem closure_reach (edges : List (Nat × Nat)) (es : List Nat) :
    ∀ (fuel : Nat) (cur : List Nat), (∀ c ∈ cur, Reach edges es c) →
      ∀ x ∈ closure edges fuel cur, Reach edges es x := by
  intro fuel
  induction fuel with
  | zero => intro cur h x hx; exact h x hx
  | succ fuel ih =>
    intro cur h x hx
    simp only [closure] at hx
    split at hx
    · exact h x hx
    · exact ih _ (fun c hc => expand_reach edges es edges cur (fun _ h => h) h c hc) x hx

open CallGraph in
theorem entriesOf_sub (g : CallGraph.Graph) (kind : String) : ∀ e ∈ g.entriesOf kind, e ∈ g.allEntries := by
  intro e he
  unfold Graph.entriesOf at he
  cases hf : g.entries.find? (fun p => p.1 == kind) with
  | none => simp [hf] at he
  | some p =>
    simp only [hf, Option.map_some, Option.getD_some] at he
    have hp := List.mem_of_find?_eq_some hf
    simp only [Graph.allEntries, List.mem_flatMap]
    exact ⟨p, hp, he⟩

open CallGraph in
/-- With a valid certificate, no step entering at entry points reaches a function that invokes a
    stored callback. -/
theorem reachesSink_false (g : CallGraph.Graph) (mask : Nat) (hs : g.safe mask = true) (es : List Nat)
    (hes : ∀ e ∈ es, e ∈ g.allEntries) : g.reachesSink es = false := by
  have hsink : ∀ s ∈ g.sinks, inMask mask s = false := by
    simp only [Graph.safe, Bool.and_eq_true, List.all_eq_true] at hs
    intro s hsm
    simpa using hs.2 s hsm
  simp only [Graph.reachesSink, List.any_eq_false]
  intro x hx hc
  have hr := closure_reach g.edges es g.n es (fun c hc => Reach.entry hc) x hx
  have h1 := reach_in_mask g mask hs es hes x hr
  have h2 := hsink x (by simpa using hc)
  rw [h1] at h2; cases h2

/-- With a valid certificate, later steps leave the invocation log untouched. -/
theorem runSteps_safe (g : CallGraph.Graph) (mask : Nat) (hs : g.safe mask = true) (node : Node) :
    ∀ (steps : List Step) (w : World), runSteps g node steps w = w
  | [], _ => rfl
  | s :: rest, w => by
    simp [runSteps, postStep, reachesSink_false g mask hs _ (entriesOf_sub g s.kind),
      runSteps_safe g mask hs node rest]

/-! ## What the callbacks see -/

/-- A constructor with one body: the log grows by exactly one invocation, with fresh arguments of the
    evaluated types (also when the callback's result is then rejected). -/
theorem construct_single_world (nm : String) (e : ListExpr) (outG : String) (k : Int) (env : Env)
    (cbs : Callbacks) (w : World) (types : List Ty) (he : evalList env e = .ok types)
    (hc : (cbs nm).2.callable = true) :
    (construct ⟨[(nm, e)], outG, k⟩ env cbs w).2
      = ⟨⟨(cbs nm).1, freshIds w.fresh types.length, types⟩ :: w.events, w.fresh + types.length⟩ := by
  simp only [construct, runSubgraphs, he, subgraphCall, hc, if_true]
  cases (cbs nm).2.result with
  | error err => rfl
  | ok n =>
    simp only
    cases lookupGraph _ outG <;> rfl

/-- If: both branches are called with no arguments, `else_branch` first. -/
theorem construct_if_world (env : Env) (cbs : Callbacks) (w : World) (n1 n2 : Nat)
    (h1 : (cbs "else_branch").2 = .returnsVars n1) (h2 : (cbs "then_branch").2 = .returnsVars n2) :
    (construct ifSpec env cbs w).2
      = ⟨⟨(cbs "then_branch").1, [], []⟩ :: ⟨(cbs "else_branch").1, [], []⟩ :: w.events, w.fresh⟩ := by
  simp [construct, ifSpec, runSubgraphs, evalList, subgraphCall, h1, h2, CbBehaviour.callable,
    CbBehaviour.result, freshIds, lookupGraph]

theorem construct_if_world_swapped (env : Env) (cbs : Callbacks) (w : World) (n1 n2 : Nat)
    (h1 : (cbs "else_branch").2 = .returnsVars n1) (h2 : (cbs "then_branch").2 = .returnsVars n2) :
    (construct ifSpecSwapped env cbs w).2
      = ⟨⟨(cbs "else_branch").1, [], []⟩ :: ⟨(cbs "then_branch").1, [], []⟩ :: w.events, w.fresh⟩ := by
  simp [construct, ifSpecSwapped, runSubgraphs, evalList, subgraphCall, h1, h2, CbBehaviour.callable,
    CbBehaviour.result, freshIds, lookupGraph]

theorem result_ok_iff (beh : CbBehaviour) (n : Nat) : beh.result = .ok n ↔ beh = .returnsVars n := by
  cases beh <;> simp [CbBehaviour.result]

/-- The graph looked up for `out_variadic` carries the number of Vars its callback returned. -/
theorem lookup_result (cbs : Callbacks) (nm : String) (g : Graph) :
    ∀ (gs : List (String × Graph)) (subs : List (String × ListExpr)),
      gs.map (fun p => (p.1, Except.ok (ε := Err) p.2.nResults))
        = subs.map (fun p => (p.1, (cbs p.1).2.result)) →
      lookupGraph gs nm = some g → (cbs nm).2.result = .ok g.nResults := by
  intro gs
  induction gs with
  | nil => intro subs _ h; simp [lookupGraph] at h
  | cons p gs ih =>
    intro subs hm h
    cases subs with
    | nil => simp at hm
    | cons q subs =>
      simp only [List.map_cons, List.cons.injEq, Prod.mk.injEq] at hm
      obtain ⟨⟨hn, hr⟩, hrest⟩ := hm
      simp only [lookupGraph, List.find?] at h
      by_cases hp : (p.1 == nm) = true
      · simp only [hp, Option.map_some, Option.some.injEq] at h
        have : p.1 = nm := by simpa using hp
        rw [← this, hn, ← hr, h]
      · have hp' : (p.1 == nm) = false := by simpa using hp
        simp only [hp'] at h
        exact ih subs hrest h

/-- `out_variadic` of a successfully constructed node. -/
theorem construct_out (spec : CtorSpec) (env : Env) (cbs : Callbacks) (w w1 : World) (node : Node)
    (h : construct spec env cbs w = (.ok node, w1)) :
    ∃ n, (cbs spec.outGraph).2 = .returnsVars n ∧ node.outVariadic = (n : Int) - spec.outMinus := by
  unfold construct at h
  generalize hrs : runSubgraphs env cbs spec.subgraphs w = r at h
  obtain ⟨res, w'⟩ := r
  cases res with
  | error err => simp at h
  | ok gs =>
    simp only at h
    cases hl : lookupGraph gs spec.outGraph with
    | none => simp [hl] at h
    | some g =>
      simp only [hl, Prod.mk.injEq, Except.ok.injEq] at h
      have hres := lookup_result cbs spec.outGraph g gs spec.subgraphs
        (runSubgraphs_results env cbs _ _ _ _ hrs) hl
      exact ⟨g.nResults, (result_ok_iff _ _).1 hres, by rw [← h.1]⟩

theorem subgraphCall_bad (types : List Ty) (cb : Nat) (beh : CbBehaviour) (w : World)
    (hb : beh.bad = true) : (subgraphCall types cb beh w).1 = .error .typeError := by
  cases beh <;> simp [CbBehaviour.bad] at hb <;>
    simp [subgraphCall, CbBehaviour.callable, CbBehaviour.result]

theorem subgraphCall_good (types : List Ty) (cb : Nat) (n : Nat) (w : World) :
    ∃ g w1, subgraphCall types cb (.returnsVars n) w = (.ok g, w1) := by
  simp [subgraphCall, CbBehaviour.callable, CbBehaviour.result]

/-- If every type expression evaluates, every callback is good or bad, and at least one is bad, the
    `subgraph(…)` calls end in a TypeError. -/
theorem runSubgraphs_bad (env : Env) (cbs : Callbacks) :
    ∀ (subs : List (String × ListExpr)) (w : World),
      (∀ p ∈ subs, ∃ ts, evalList env p.2 = .ok ts) →
      (∀ p ∈ subs, (cbs p.1).2.good = true ∨ (cbs p.1).2.bad = true) →
      (∃ p ∈ subs, (cbs p.1).2.bad = true) →
      (runSubgraphs env cbs subs w).1 = .error .typeError := by
  intro subs
  induction subs with
  | nil => intro w _ _ h; simp at h
  | cons p rest ih =>
    intro w hev hgb hex
    obtain ⟨nm, e⟩ := p
    obtain ⟨ts, hts⟩ := hev (nm, e) (by simp)
    simp only at hts
    simp only [runSubgraphs, hts]
    rcases hgb (nm, e) (by simp) with hg | hb
    · -- this one is good: the bad one is later
      have hbeh : ∃ n, (cbs nm).2 = .returnsVars n := by
        simp only at hg
        cases hx : (cbs nm).2 <;> simp [hx, CbBehaviour.good] at hg
        exact ⟨_, rfl⟩
      obtain ⟨n, hn⟩ := hbeh
      obtain ⟨g, w1, hsc⟩ := subgraphCall_good ts (cbs nm).1 n w
      rw [hn, hsc]
      simp only
      have hex' : ∃ p ∈ rest, (cbs p.1).2.bad = true := by
        obtain ⟨q, hq, hqb⟩ := hex
        simp only [List.mem_cons] at hq
        rcases hq with rfl | hq
        · simp only at hqb; rw [hn] at hqb; simp [CbBehaviour.bad] at hqb
        · exact ⟨q, hq, hqb⟩
      have := ih w1 (fun q hq => hev q (by simp [hq])) (fun q hq => hgb q (by simp [hq])) hex'
      generalize runSubgraphs env cbs rest w1 = r2 at this
      obtain ⟨res2, w2⟩ := r2
      simp only at this
      rw [this]
    · have := subgraphCall_bad ts (cbs nm).1 (cbs nm).2 w hb
      generalize subgraphCall ts (cbs nm).1 (cbs nm).2 w = r at this
      obtain ⟨res, w1⟩ := r
      simp only at this
      rw [this]

/-! ## Freshness of the argument Vars -/

/-- Invariant of the invocation log (newest event first): every argument of a newer invocation is
    larger than every argument of an older one, the arguments of one invocation are pairwise
    distinct, and all of them are below the fresh-id counter. -/
def Fresh (w : World) : Prop :=
  List.Pairwise (fun e e' : Event => ∀ a ∈ e.args, ∀ b ∈ e'.args, b < a) w.events
    ∧ ∀ e ∈ w.events, (∀ a ∈ e.args, a < w.fresh)
        ∧ ∀ (i j : Nat) (hi : i < e.args.length) (hj : j < e.args.length), e.args[i] = e.args[j] → i = j

theorem mem_freshIds {s n a : Nat} : a ∈ freshIds s n ↔ s ≤ a ∧ a < s + n := by
  simp only [freshIds, List.mem_map, List.mem_range]
  constructor
  · rintro ⟨i, hi, rfl⟩; omega
  · intro ⟨h1, h2⟩; exact ⟨a - s, by omega, by omega⟩

theorem freshIds_inj (s n i j : Nat) (hi : i < (freshIds s n).length) (hj : j < (freshIds s n).length)
    (h : (freshIds s n)[i] = (freshIds s n)[j]) : i = j := by
  simp [freshIds] at h
  omega

theorem fresh_init : Fresh ⟨[], 0⟩ := by simp [Fresh]

theorem subgraphCall_fresh (types : List Ty) (cb : Nat) (beh : CbBehaviour) (w : World)
    (hw : Fresh w) : Fresh (subgraphCall types cb beh w).2 := by
  obtain ⟨hp, ha⟩ := hw
  have hold : ∀ e ∈ w.events, (∀ a ∈ e.args, a < w.fresh + types.length)
      ∧ ∀ (i j : Nat) (hi : i < e.args.length) (hj : j < e.args.length), e.args[i] = e.args[j] → i = j :=
    fun e he => ⟨fun a h => by have := (ha e he).1 a h; omega, (ha e he).2⟩
  have hnew : Fresh ⟨⟨cb, freshIds w.fresh types.length, types⟩ :: w.events, w.fresh + types.length⟩ := by
    refine ⟨List.pairwise_cons.2 ⟨?_, hp⟩, ?_⟩
    · intro e' he' a haa b hb
      have h1 := (ha e' he').1 b hb
      have h2 := (mem_freshIds.1 haa).1
      omega
    · intro e he
      simp only [List.mem_cons] at he
      rcases he with rfl | he
      · exact ⟨fun a h => (mem_freshIds.1 h).2, fun i j hi hj h => freshIds_inj _ _ i j hi hj h⟩
      · exact hold e he
  unfold subgraphCall
  cases beh.callable
  · exact ⟨hp, hold⟩
  · simp only [if_true]
    cases beh.result <;> exact hnew

theorem runSubgraphs_fresh (env : Env) (cbs : Callbacks) :
    ∀ (subs : List (String × ListExpr)) (w : World), Fresh w → Fresh (runSubgraphs env cbs subs w).2 := by
  intro subs
  induction subs with
  | nil => intro w hw; exact hw
  | cons p rest ih =>
    intro w hw
    obtain ⟨nm, e⟩ := p
    simp only [runSubgraphs]
    cases he : evalList env e with
    | error err => exact hw
    | ok types =>
      simp only
      have h1 := subgraphCall_fresh types (cbs nm).1 (cbs nm).2 w hw
      generalize subgraphCall types (cbs nm).1 (cbs nm).2 w = r at h1
      obtain ⟨res, w1⟩ := r
      cases res with
      | error err => exact h1
      | ok g =>
        simp only
        have h2 := ih w1 h1
        generalize runSubgraphs env cbs rest w1 = r2 at h2
        obtain ⟨res2, w2⟩ := r2
        cases res2 <;> exact h2

theorem construct_fresh (spec : CtorSpec) (env : Env) (cbs : Callbacks) (w : World) (hw : Fresh w) :
    Fresh (construct spec env cbs w).2 := by
  have := runSubgraphs_fresh env cbs spec.subgraphs w hw
  unfold construct
  generalize runSubgraphs env cbs spec.subgraphs w = r at this
  obtain ⟨res, w'⟩ := r
  cases res with
  | error err => exact this
  | ok gs =>
    simp only at this ⊢
    cases lookupGraph gs spec.outGraph <;> exact this

end SubgraphLemmas
