import SpoxModel.Model.ScanState
import SpoxModel.Lemmas.MLShape
/-! Helper lemmas for C06 (round 10): Scan state outputs. -/
namespace C06M

theorem meetDim_sound (n : Nat) (a b d : Dim) (h : meetDim a b = some d)
    (ha : dimOk n a = true) (hb : dimOk n b = true) : dimOk n d = true := by
  cases a <;> cases b <;> simp only [meetDim] at h
  · split at h
    · simp only [Option.some.injEq] at h; subst h; exact ha
    · simp at h
  all_goals (simp only [Option.some.injEq] at h; subst h; first | exact ha | exact hb | rfl)

theorem meetDims_sound : ∀ (ns : List Nat) (as bs ds : List Dim), meetDims as bs = some ds →
    dimsOk ns as = true → dimsOk ns bs = true → dimsOk ns ds = true
  | ns, [], [], ds, h, ha, _ => by
    simp only [meetDims, Option.some.injEq] at h
    subst h; exact ha
  | _, [], _ :: _, _, h, _, _ => by simp [meetDims] at h
  | _, _ :: _, [], _, h, _, _ => by simp [meetDims] at h
  | [], _ :: _, _ :: _, _, _, ha, _ => by simp [dimsOk] at ha
  | n :: ns, a :: as, b :: bs, ds, h, ha, hb => by
    simp only [meetDims] at h
    cases hd : meetDim a b with
    | none => simp [hd] at h
    | some d =>
      cases hds : meetDims as bs with
      | none => simp [hd, hds] at h
      | some ds' =>
        simp only [hd, hds, Option.some.injEq] at h
        subst h
        simp only [dimsOk, Bool.and_eq_true] at ha hb ⊢
        exact ⟨meetDim_sound n a b d hd ha.1 hb.1, meetDims_sound ns as bs ds' hds ha.2 hb.2⟩

/-- A value that conforms to the initial state's type and whose SHAPE conforms to the body's result type
    conforms to the merged type. -/
theorem scanStateTy_sound (v : RtVal) (s0 r u : Ty) (h : scanStateTy s0 r = some u)
    (h0 : conforms v (some s0) = true) (hr : conforms v (some r) = true) : conforms v (some u) = true := by
  simp only [conforms, Bool.and_eq_true, beq_iff_eq] at h0 hr ⊢
  rcases s0 with ⟨e0, _ | a⟩ <;> rcases r with ⟨er, _ | b⟩ <;> simp only [scanStateTy] at h
  · simp only [Option.some.injEq] at h; subst h; exact ⟨h0.1, rfl⟩
  · simp only [Option.some.injEq] at h; subst h; exact ⟨h0.1, hr.2⟩
  · simp only [Option.some.injEq] at h; subst h; exact ⟨h0.1, h0.2⟩
  · simp only [Option.map_eq_some_iff] at h
    obtain ⟨ds, hds, rfl⟩ := h
    exact ⟨h0.1, meetDims_sound v.s a b ds hds h0.2 hr.2⟩

theorem scanStateTys_sound : ∀ (vs : List RtVal) (s0 r u : List Ty), scanStateTys s0 r = some u →
    conformsAll vs (s0.map some) = true → conformsAll vs (r.map some) = true →
    conformsAll vs (u.map some) = true
  | vs, [], [], u, h, h0, _ => by
    simp only [scanStateTys, Option.some.injEq] at h
    subst h; exact h0
  | _, [], _ :: _, _, h, _, _ => by simp [scanStateTys] at h
  | _, _ :: _, [], _, h, _, _ => by simp [scanStateTys] at h
  | [], _ :: _, _ :: _, _, _, h0, _ => by simp [conformsAll] at h0
  | v :: vs, a :: as, b :: bs, u, h, h0, hr => by
    simp only [scanStateTys] at h
    cases hd : scanStateTy a b with
    | none => simp [hd] at h
    | some d =>
      cases hds : scanStateTys as bs with
      | none => simp [hd, hds] at h
      | some ds' =>
        simp only [hd, hds, Option.some.injEq] at h
        subst h
        simp only [List.map_cons, conformsAll, Bool.and_eq_true] at h0 hr ⊢
        exact ⟨scanStateTy_sound v a b d hd h0.1 hr.1, scanStateTys_sound vs as bs ds' hds h0.2 hr.2⟩

/-- Under the runtime's loop-state rule the states never change: every completed run ends in its initial
    states — any number of iterations. -/
theorem scanIter_guard_states (body : ScanBody) (slices : List RtVal) : ∀ (n t : Nat) (st fin : List RtVal)
    (rows : List (List RtVal)), scanIter (guardBody body) slices n t st = some (fin, rows) → fin = st
  | 0, _, st, fin, rows, h => by
    simp only [scanIter, Option.some.injEq, Prod.mk.injEq] at h
    exact h.1.symm
  | n + 1, t, st, fin, rows, h => by
    simp only [scanIter] at h
    cases hb : guardBody body t st slices with
    | none => simp [hb] at h
    | some p =>
      obtain ⟨st', row⟩ := p
      simp only [hb] at h
      cases hi : scanIter (guardBody body) slices n (t + 1) st' with
      | none => simp [hi] at h
      | some q =>
        obtain ⟨fin', rows'⟩ := q
        simp only [hi, Option.some.injEq, Prod.mk.injEq] at h
        have := scanIter_guard_states body slices n (t + 1) st' fin' rows' hi
        have hst : st' = st := by
          unfold guardBody at hb
          cases hbb : body t st slices with
          | none => simp [hbb] at hb
          | some p2 =>
            obtain ⟨s2, r2⟩ := p2
            simp only [hbb] at hb
            split at hb
            · rename_i heq
              simp only [Option.some.injEq, Prod.mk.injEq] at hb
              rw [← hb.1]; exact heq
            · simp at hb
        rw [← h.1, this, hst]

/-- A completed run with at least one iteration: the body accepted the initial states and returned them. -/
theorem scanIter_guard_first (body : ScanBody) (slices : List RtVal) (n t : Nat) (st fin : List RtVal)
    (rows : List (List RtVal)) (h : scanIter (guardBody body) slices (n + 1) t st = some (fin, rows)) :
    ∃ row, body t st slices = some (st, row) := by
  simp only [scanIter] at h
  cases hb : guardBody body t st slices with
  | none => simp [hb] at h
  | some p =>
    obtain ⟨st', row⟩ := p
    unfold guardBody at hb
    cases hbb : body t st slices with
    | none => simp [hbb] at hb
    | some p2 =>
      obtain ⟨s2, r2⟩ := p2
      simp only [hbb] at hb
      split at hb
      · rename_i heq
        exact ⟨r2, by rw [heq]⟩
      · simp at hb

end C06M
