import SpoxModel.Lemmas.InlineBind
/-! Helper lemmas for C08: the memoised renaming (`assign`) in a name space. -/
namespace Inline

theorem lookup_mem {β : Type} (k : String) (l : List (String × β)) (v : β)
    (h : l.lookup k = some v) : (k, v) ∈ l := by
  induction l with
  | nil => simp [List.lookup] at h
  | cons p ps ih =>
    obtain ⟨a, b⟩ := p
    simp only [List.lookup] at h
    cases hk : (k == a) with
    | true =>
      simp [hk] at h
      have : k = a := by simpa using hk
      subst this; subst h; exact List.mem_cons_self ..
    | false => simp [hk] at h; exact List.mem_cons_of_mem _ (ih h)

theorem lookup_isSome_of_mem_keys {β : Type} (k : String) (l : List (String × β))
    (h : k ∈ l.map (·.1)) : ∃ v, l.lookup k = some v := by
  cases hl : l.lookup k with
  | some v => exact ⟨v, rfl⟩
  | none =>
    exfalso
    induction l with
    | nil => cases h
    | cons p ps ih =>
      obtain ⟨a, b⟩ := p
      simp only [List.lookup] at hl
      cases hk : (k == a) with
      | true => simp [hk] at hl
      | false =>
        rw [hk] at hl
        simp only [List.map_cons, List.mem_cons] at h
        rcases h with h | h
        · simp [h] at hk
        · exact ih h hl

theorem inj_of_nodup_map {α β : Type} (f : α → β) (l : List α) (h : (l.map f).Nodup) :
    ∀ x ∈ l, ∀ y ∈ l, f x = f y → x = y := by
  induction l with
  | nil => intro x hx; cases hx
  | cons a as ih =>
    simp only [List.map_cons, List.nodup_cons, List.mem_map, not_exists, not_and] at h
    intro x hx y hy hxy
    cases hx with
    | head =>
      cases hy with
      | head => rfl
      | tail _ hy' => exact absurd hxy.symm (h.1 y hy')
    | tail _ hx' =>
      cases hy with
      | head => exact absurd hxy (h.1 x hx')
      | tail _ hy' => exact ih h.2 x hx' y hy' hxy

theorem str_append_ne_empty (a b : String) (hb : b ≠ "") : a ++ b ≠ "" := by
  intro h
  have h1 : (a ++ b).length = 0 := by rw [h]; rfl
  rw [String.length_append] at h1
  have : b.length = 0 := by omega
  exact hb (String.length_eq_zero_iff.mp this)

theorem maybeEnum_used (s : Space) (b : String) : (s.maybeEnum b).2.used = s.used := by
  unfold Space.maybeEnum; split <;> rfl

/-- what `reserve_prefixed` guarantees when it does not raise -/
theorem reservePrefixed_ok (s s' : Space) (pfx n n' : String)
    (h : s.reservePrefixed pfx n = .ok (n', s')) :
    (n = "" → n' = "" ∧ s' = s) ∧
    (n ≠ "" → n' ≠ "" ∧ n' ∉ s.used ∧ s'.used = n' :: s.used) := by
  unfold Space.reservePrefixed at h
  by_cases hn : n = ""
  · simp only [hn, if_true] at h
    cases h
    exact ⟨fun _ => ⟨rfl, rfl⟩, fun hne => absurd hn hne⟩
  · simp only [hn, if_false] at h
    refine ⟨fun e => absurd e hn, fun _ => ?_⟩
    unfold Space.reserve at h
    split at h
    · rename_i s2 hres
      cases h
      split at hres
      · cases hres
      · rename_i hnot
        cases hres
        refine ⟨?_, ?_, ?_⟩
        rotate_left
        · rw [maybeEnum_used] at hnot; exact hnot
        · show _ :: (s.maybeEnum _).2.used = _
          rw [maybeEnum_used]
        · -- the generated name is not empty
          have hbase : pfx ++ "__" ++ n ≠ "" := str_append_ne_empty _ _ hn
          unfold Space.maybeEnum
          split
          · exact hbase
          · rename_i c _
            intro he
            have he' : pfx ++ "__" ++ n ++ "_" ++ toString c = "" := he
            have : (pfx ++ "__" ++ n ++ "_" ++ toString c).length = 0 := by rw [he']; rfl
            simp only [String.length_append] at this
            have hl : ("_" : String).length = 1 := rfl
            omega
    · cases h

/-- images of the non-empty keys of a memo table -/
def imgs (tbl : List (String × String)) : List String :=
  (tbl.filter fun p => p.1 != "").map (·.2)

/-- invariant of the memoised renaming started in name space `s0` -/
structure AInv (s0 : Space) (tbl : List (String × String)) (s : Space) : Prop where
  keys : (tbl.map (·.1)).Nodup
  nodup : (imgs tbl).Nodup
  fresh : ∀ x ∈ imgs tbl, x ∉ s0.used ∧ x ∈ s.used
  mono : ∀ x ∈ s0.used, x ∈ s.used
  empty : ∀ p ∈ tbl, p.1 = "" → p.2 = ""
  nonempty : ∀ p ∈ tbl, p.1 ≠ "" → p.2 ≠ ""

theorem AInv.init (s : Space) : AInv s [] s :=
  ⟨List.nodup_nil, List.nodup_nil, (by intro x hx; cases hx), fun _ h => h,
   (by intro p hp; cases hp), (by intro p hp; cases hp)⟩

theorem assign_inv (pfx : String) (reqs : List String) (s0 s s' : Space)
    (tbl tbl' : List (String × String)) (hi : AInv s0 tbl s)
    (h : assign pfx reqs s tbl = .ok (tbl', s')) :
    AInv s0 tbl' s' ∧ (∀ p ∈ tbl, p ∈ tbl') ∧ (∀ r ∈ reqs, r ∈ tbl'.map (·.1)) ∧
    (∀ x ∈ s.used, x ∈ s'.used) ∧
    (∀ x ∈ s'.used, x ∈ s.used ∨ x ∈ imgs tbl') := by
  induction reqs generalizing s tbl with
  | nil =>
    simp only [assign] at h; cases h
    exact ⟨hi, fun _ h => h, (by intro r hr; cases hr), fun _ h => h, fun _ h => Or.inl h⟩
  | cons n ns ih =>
    simp only [assign] at h
    cases hl : tbl.lookup n with
    | some v =>
      simp only [hl] at h
      obtain ⟨a, b, c, d, e⟩ := ih s tbl hi h
      refine ⟨a, b, ?_, d, e⟩
      intro r hr
      cases hr with
      | head => exact List.mem_map.mpr ⟨(n, v), b _ (lookup_mem _ _ _ hl), rfl⟩
      | tail _ hr' => exact c r hr'
    | none =>
      simp only [hl] at h
      cases hr : s.reservePrefixed pfx n with
      | error e => simp [hr] at h
      | ok res =>
        obtain ⟨n', s1⟩ := res
        simp only [hr] at h
        obtain ⟨he, hne⟩ := reservePrefixed_ok _ _ _ _ _ hr
        have hnk : n ∉ tbl.map (·.1) := by
          intro hm
          obtain ⟨v, hv⟩ := lookup_isSome_of_mem_keys _ _ hm
          rw [hl] at hv; cases hv
        have hi1 : AInv s0 ((n, n') :: tbl) s1 := by
          by_cases hn : n = ""
          · obtain ⟨e1, e2⟩ := he hn
            subst e1; subst e2; subst hn
            refine ⟨?_, ?_, ?_, hi.mono, ?_, ?_⟩
            · simp only [List.map_cons]; exact List.nodup_cons.mpr ⟨hnk, hi.keys⟩
            · simpa [imgs, List.filter] using hi.nodup
            · simpa [imgs, List.filter] using hi.fresh
            · intro p hp
              cases hp with
              | head => intro _; rfl
              | tail _ hp' => exact hi.empty p hp'
            · intro p hp
              cases hp with
              | head => intro hh; exact absurd rfl hh
              | tail _ hp' => exact hi.nonempty p hp'
          · obtain ⟨e1, e2, e3⟩ := hne hn
            have hb : (n != "") = true := by simpa using hn
            have himg : imgs ((n, n') :: tbl) = n' :: imgs tbl := by
              simp [imgs, List.filter, hb]
            refine ⟨?_, ?_, ?_, ?_, ?_, ?_⟩
            · simp only [List.map_cons]; exact List.nodup_cons.mpr ⟨hnk, hi.keys⟩
            · rw [himg]
              refine List.nodup_cons.mpr ⟨?_, hi.nodup⟩
              intro hm
              exact e2 (hi.fresh _ hm).2
            · rw [himg]
              intro x hx
              cases hx with
              | head =>
                refine ⟨fun h0 => e2 (hi.mono _ h0), ?_⟩
                rw [e3]; exact List.mem_cons_self ..
              | tail _ hx' =>
                refine ⟨(hi.fresh x hx').1, ?_⟩
                rw [e3]; exact List.mem_cons_of_mem _ (hi.fresh x hx').2
            · intro x hx; rw [e3]; exact List.mem_cons_of_mem _ (hi.mono x hx)
            · intro p hp
              cases hp with
              | head => intro hh; exact absurd hh hn
              | tail _ hp' => exact hi.empty p hp'
            · intro p hp
              cases hp with
              | head => intro _; exact e1
              | tail _ hp' => exact hi.nonempty p hp'
        obtain ⟨a, b, c, d, e⟩ := ih s1 _ hi1 h
        have hs1 : ∀ x ∈ s.used, x ∈ s1.used := by
          intro x hx
          by_cases hn : n = ""
          · rw [(he hn).2]; exact hx
          · rw [(hne hn).2.2]; exact List.mem_cons_of_mem _ hx
        refine ⟨a, fun p hp => b p (List.mem_cons_of_mem _ hp), ?_, fun x hx => d x (hs1 x hx), ?_⟩
        · intro r hr
          cases hr with
          | head => exact List.mem_map.mpr ⟨(n, n'), b _ (List.mem_cons_self ..), rfl⟩
          | tail _ hr' => exact c r hr'
        · intro x hx
          rcases e x hx with h1 | h1
          · by_cases hn : n = ""
            · rw [(he hn).2] at h1; exact Or.inl h1
            · rw [(hne hn).2.2] at h1
              cases h1 with
              | head =>
                right
                have hb : (n != "") = true := by simpa using hn
                have : (n, n') ∈ tbl' := b _ (List.mem_cons_self ..)
                exact List.mem_map.mpr ⟨(n, n'), List.mem_filter.mpr ⟨this, hb⟩, rfl⟩
              | tail _ h2 => exact Or.inl h2
          · exact Or.inr h1

/-- `tblGet` of a key of the table is the unique image paired with it -/
theorem tblGet_mem (tbl : List (String × String)) (a : String) (h : a ∈ tbl.map (·.1)) :
    (a, tblGet tbl a) ∈ tbl := by
  obtain ⟨v, hv⟩ := lookup_isSome_of_mem_keys _ _ h
  unfold tblGet
  rw [hv]
  exact lookup_mem _ _ _ hv

end Inline
