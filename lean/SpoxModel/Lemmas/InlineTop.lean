import SpoxModel.Lemmas.InlineSem
/-! Helper lemmas for C08: frame properties, the initializer preamble, the pass-through nodes. -/
namespace Inline
section
variable {V : Type}

/-- top-level output names of a node list -/
def Node.outsL : List Node → List String
  | [] => []
  | n :: ns => n.outs ++ Node.outsL ns

theorem outsL_sub_assignedL (ns : List Node) : ∀ x ∈ Node.outsL ns, x ∈ Node.assignedL ns := by
  induction ns with
  | nil => intro x hx; cases hx
  | cons n ns ih =>
    obtain ⟨name, op, ins, outs, subs⟩ := n
    intro x hx
    simp only [Node.outsL, Node.outs, List.mem_append] at hx
    simp only [Node.assignedL, Node.assigned, List.mem_append]
    rcases hx with h | h
    · exact Or.inl (Or.inl h)
    · exact Or.inr (ih x h)

theorem outsL_renameL (ρ ν : String → String) (ns : List Node) :
    Node.outsL (Node.renameL ρ ν ns) = (Node.outsL ns).map ρ := by
  induction ns with
  | nil => rfl
  | cons n ns ih =>
    obtain ⟨name, op, ins, outs, subs⟩ := n
    simp [Node.outsL, Node.renameL, Node.rename, Node.outs, ih]

theorem set_frame (env : Env V) (x n : String) (v : Option V) (h : n ≠ x) :
    (env.set x v) n = env n := by
  unfold Env.set
  split
  · rfl
  · simp [h]

theorem setMany_frame (env : Env V) (xs : List String) (vs : List (Option V)) (n : String)
    (h : n ∉ xs) : (env.setMany xs vs) n = env n := by
  induction xs generalizing vs env with
  | nil => cases vs <;> rfl
  | cons x xs ih =>
    cases vs with
    | nil => rfl
    | cons v vs =>
      simp only [List.mem_cons, not_or] at h
      simp only [Env.setMany]
      rw [ih _ _ h.2, set_frame _ _ _ _ h.1]

theorem evalNodes_frame (sem : OpSem V) (lit : Lit → V) (ns : List Node) (env env' : Env V)
    (h : evalNodes sem lit ns env = some env') : ∀ n, n ∉ Node.outsL ns → env' n = env n := by
  induction ns generalizing env with
  | nil => simp only [evalNodes] at h; cases h; intro n _; rfl
  | cons nd ns ih =>
    obtain ⟨name, op, ins, outs, subs⟩ := nd
    intro n hn
    simp only [Node.outsL, Node.outs, List.mem_append, not_or] at hn
    simp only [evalNodes, evalNode] at h
    cases hs : sem op (ins.map env.get) (evalBodies sem lit subs env) with
    | none => simp [hs] at h
    | some vs =>
      simp only [hs] at h
      rw [ih _ h n hn.2, setMany_frame _ _ _ _ hn.1]

theorem evalNodes_append (sem : OpSem V) (lit : Lit → V) (a b : List Node) (env : Env V) :
    evalNodes sem lit (a ++ b) env =
      match evalNodes sem lit a env with
      | none => none
      | some e => evalNodes sem lit b e := by
  induction a generalizing env with
  | nil => simp [evalNodes]
  | cons n ns ih =>
    simp only [List.cons_append, evalNodes]
    cases evalNode sem lit n env with
    | none => rfl
    | some e => exact ih e

theorem renameL_append (ρ ν : String → String) (a b : List Node) :
    Node.renameL ρ ν (a ++ b) = Node.renameL ρ ν a ++ Node.renameL ρ ν b := by
  induction a with
  | nil => rfl
  | cons n ns ih => simp [Node.renameL, ih]

/-- the `Constant` preamble computes exactly the constant initializers -/
theorem evalNodes_consts (sem : OpSem V) (lit : Lit → V)
    (hc : ∀ l, sem (constOp l) [] [] = some [some (lit l)])
    (ps : List (String × Lit)) (env : Env V) :
    evalNodes sem lit (ps.map fun p => Node.mk "" (constOp p.2) [] [p.1] []) env
      = some (Env.bindInits lit env ps) := by
  induction ps generalizing env with
  | nil => rfl
  | cons p ps ih =>
    simp only [List.map_cons, evalNodes, evalNode, List.map_nil, evalBodies, hc, Env.setMany,
      Env.bindInits]
    exact ih _

/-- what `m` computes, read off the normalised node list -/
theorem evalModel_normalise (sem : OpSem V) (lit : Lit → V)
    (hc : ∀ l, sem (constOp l) [] [] = some [some (lit l)]) (g : Graph) (vals : List V) :
    evalModel sem lit g vals =
      (evalNodes sem lit (normalise g).nodes
        (Env.setMany (fun _ => none) g.inputs (vals.map some))).map
        fun e => g.outputs.map e.get := by
  obtain ⟨inputs, inits, nodes, outputs, vi⟩ := g
  simp only [evalModel, evalGraph, normalise, Graph.nodes, Graph.inputs, Graph.outputs, preamble,
    Graph.inits]
  rw [evalNodes_append, evalNodes_consts sem lit hc]
  simp only
  cases evalNodes sem lit nodes _ <;> rfl

theorem setMany_get_idx (env : Env V) (xs : List String) (vs : List (Option V))
    (hnd : xs.Nodup) (hl : xs.length = vs.length) (hne : "" ∉ xs) (i : Nat) (h : i < xs.length)
    (h' : i < vs.length) : (env.setMany xs vs).get xs[i] = vs[i] := by
  induction xs generalizing vs env i with
  | nil => cases h
  | cons x xs ih =>
    cases vs with
    | nil => cases h'
    | cons v vs =>
      obtain ⟨hx, hnd'⟩ := List.nodup_cons.mp hnd
      simp only [List.mem_cons, not_or] at hne
      simp only [Env.setMany]
      cases i with
      | zero =>
        simp only [List.getElem_cons_zero]
        unfold Env.get
        have : x ≠ "" := fun e => hne.1 e.symm
        simp only [this, if_false]
        rw [setMany_frame _ _ _ _ hx]
        unfold Env.set
        simp [this]
      | succ i =>
        simp only [List.getElem_cons_succ]
        exact ih _ _ hnd' (by simpa using hl) hne.2 i (by simpa using h) (by simpa using h')

theorem getD_lt (l : List String) (i : Nat) (h : i < l.length) : l.getD i "" = l[i] := by
  simp [List.getD, h]

theorem getD_ge (l : List String) (i : Nat) (h : ¬ i < l.length) : l.getD i "" = "" := by
  have : l.length ≤ i := by omega
  simp [List.getD, this]

/-- the `Identity` nodes appended for outputs that are directly inputs -/
theorem passThrough_eval (sem : OpSem V) (lit : Lit → V)
    (hid : ∀ v : V, sem identityOp [some v] [] = some [some v])
    (ins argNames : List String) :
    ∀ (os rs : List String) (E2 : Env V), os.length = rs.length → rs.Nodup →
      (∀ r ∈ rs, r ≠ "" ∧ r ∉ argNames) →
      (∀ o ∈ os, o ∈ ins → ∃ v, E2.get (argNames.getD (ins.idxOf o) "") = some v) →
      ∃ E3, evalNodes sem lit (passThrough ins argNames os rs) E2 = some E3 ∧
        (∀ n, n ∉ rs → E3 n = E2 n) ∧
        (∀ k (h : k < os.length) (h' : k < rs.length), E3.get rs[k] =
          if os[k] ∈ ins then E2.get (argNames.getD (ins.idxOf os[k]) "") else E2.get rs[k]) := by
  intro os
  induction os with
  | nil =>
    intro rs E2 _ _ _ _
    refine ⟨E2, ?_, fun _ _ => rfl, ?_⟩
    · cases rs <;> simp [passThrough, evalNodes]
    · intro k h; cases h
  | cons o os ih =>
    intro rs E2 hl hnd hr ho
    cases rs with
    | nil => simp at hl
    | cons r rs =>
      obtain ⟨hrn, hnd'⟩ := List.nodup_cons.mp hnd
      have hr0 := hr r (List.mem_cons_self ..)
      have hr' : ∀ r' ∈ rs, r' ≠ "" ∧ r' ∉ argNames := fun r' h => hr r' (List.mem_cons_of_mem _ h)
      have hl' : os.length = rs.length := by simpa using hl
      -- reading an argument name is not disturbed by defining `r`
      have hget : ∀ (i : Nat) (v : Option V),
          (E2.set r v).get (argNames.getD i "") = E2.get (argNames.getD i "") := by
        intro i v
        by_cases hi : i < argNames.length
        · have hm : argNames.getD i "" ∈ argNames := by
            rw [getD_lt _ _ hi]; exact List.getElem_mem hi
          have har : argNames.getD i "" ≠ r := fun e => hr0.2 (e ▸ hm)
          unfold Env.get
          split
          · rfl
          · exact set_frame _ _ _ _ har
        · rw [getD_ge _ _ hi]; unfold Env.get; simp
      have hgetr : ∀ (x : String) (v : Option V), x ≠ r → (E2.set r v).get x = E2.get x := by
        intro x v hx
        unfold Env.get
        split
        · rfl
        · exact set_frame _ _ _ _ hx
      by_cases hoi : o ∈ ins
      · obtain ⟨v, hv⟩ := ho o (List.mem_cons_self ..) hoi
        obtain ⟨E3, h1, h2, h3⟩ := ih rs (E2.set r (some v)) hl' hnd' hr'
          (fun o' ho' hi' => by
            obtain ⟨w, hw⟩ := ho o' (List.mem_cons_of_mem _ ho') hi'
            exact ⟨w, by rw [hget]; exact hw⟩)
        refine ⟨E3, ?_, ?_, ?_⟩
        · simp only [passThrough, hoi, if_true, List.cons_append, List.nil_append, evalNodes,
            evalNode, List.map_cons, List.map_nil, hv, evalBodies, hid, Env.setMany]
          exact h1
        · intro n hn
          simp only [List.mem_cons, not_or] at hn
          rw [h2 n hn.2, set_frame _ _ _ _ hn.1]
        · intro k h h'
          cases k with
          | zero =>
            simp only [List.getElem_cons_zero, hoi, if_true]
            rw [hv]
            unfold Env.get
            simp only [hr0.1, if_false]
            rw [h2 r hrn]
            unfold Env.set
            simp [hr0.1]
          | succ k =>
            simp only [List.getElem_cons_succ]
            rw [h3 k (by simpa using h) (by simpa using h')]
            have hk : rs[k]'(by simpa using h') ≠ r := fun e => hrn (e ▸ List.getElem_mem _)
            split
            · rw [hget]
            · rw [hgetr _ _ hk]
      · obtain ⟨E3, h1, h2, h3⟩ := ih rs E2 hl' hnd' hr'
          (fun o' ho' hi' => ho o' (List.mem_cons_of_mem _ ho') hi')
        refine ⟨E3, ?_, ?_, ?_⟩
        · simp only [passThrough, hoi, if_false, List.nil_append]
          exact h1
        · intro n hn
          simp only [List.mem_cons, not_or] at hn
          exact h2 n hn.2
        · intro k h h'
          cases k with
          | zero =>
            simp only [List.getElem_cons_zero, hoi, if_false]
            unfold Env.get
            rw [h2 r hrn]
          | succ k =>
            simp only [List.getElem_cons_succ]
            exact h3 k (by simpa using h) (by simpa using h')

theorem assignedL_append (a b : List Node) :
    Node.assignedL (a ++ b) = Node.assignedL a ++ Node.assignedL b := by
  induction a with
  | nil => rfl
  | cons n ns ih => simp [Node.assignedL, ih]

theorem valueReqsL_append (a b : List Node) :
    Node.valueReqsL (a ++ b) = Node.valueReqsL a ++ Node.valueReqsL b := by
  induction a with
  | nil => rfl
  | cons n ns ih => simp [Node.valueReqsL, ih]

theorem assignedL_consts (ps : List (String × Lit)) :
    Node.assignedL (ps.map fun p => Node.mk "" (constOp p.2) [] [p.1] []) = ps.map (·.1) := by
  induction ps with
  | nil => rfl
  | cons p ps ih => simp [Node.assignedL, Node.assigned, Graph.assignedL, ih]

/-- the semantic core of `inline_sem`: for any renaming that is hygienic on the names of the
    normalised model and under which the outer environment reads as the model's inputs -/
theorem inline_core (sem : OpSem V) (lit : Lit → V)
    (hc : ∀ l, sem (constOp l) [] [] = some [some (lit l)])
    (hid : ∀ v : V, sem identityOp [some v] [] = some [some v])
    (g : Graph) (ρ ν : String → String) (argNames resNames : List String) (vals : List V)
    (E : Env V) (outs : List (Option V))
    (hρin : ∀ n ∈ g.inputs, ρ n = argNames.getD (g.inputs.idxOf n) "")
    (hρout : ∀ n ∈ g.outputs, n ∉ g.inputs → ρ n = resNames.getD (g.outputs.idxOf n) "")
    (hy : Hyg ρ (normalise g).valueReqs g.inputs)
    (hrel : Rel ρ (normalise g).valueReqs (Env.setMany (fun _ => none) g.inputs (vals.map some)) E)
    (hA : ∀ x ∈ Node.assignedL g.nodes, x ∉ g.inputs)
    (hin : g.inputs.Nodup) (hin0 : "" ∉ g.inputs) (hlen : g.inputs.length = vals.length)
    (hout : g.outputs.Nodup) (hrl : resNames.length = g.outputs.length) (hrn : resNames.Nodup)
    (hr : ∀ r ∈ resNames, r ≠ "" ∧ r ∉ argNames)
    (hev : evalModel sem lit g vals = some outs) :
    ∃ E', evalNodes sem lit (Node.renameL ρ ν (normalise g).nodes ++
              passThrough g.inputs argNames g.outputs resNames) E = some E' ∧
      resNames.map E'.get = outs ∧
      ∀ n, n ∉ (Node.outsL (normalise g).nodes).map ρ → n ∉ resNames → E' n = E n := by
  rw [evalModel_normalise sem lit hc] at hev
  cases hN : evalNodes sem lit (normalise g).nodes
      (Env.setMany (fun _ => none) g.inputs (vals.map some)) with
  | none => simp [hN] at hev
  | some envF =>
    simp only [hN, Option.map_some, Option.some.injEq] at hev
    obtain ⟨inputs, inits, nodes, outputs, vi⟩ := g
    simp only [Graph.inputs, Graph.outputs, Graph.nodes, normalise, preamble, Graph.inits] at *
    -- names of the node list are names of the graph; nothing assigned is an input
    have hS : ∀ x ∈ Node.valueReqsL ((List.map (fun p => Node.mk "" (constOp p.2) [] [p.1] [])
        (inits.filter fun p => !inputs.contains p.1)) ++ nodes),
        x ∈ (Graph.mk inputs [] ((List.map (fun p => Node.mk "" (constOp p.2) [] [p.1] [])
          (inits.filter fun p => !inputs.contains p.1)) ++ nodes) outputs vi).valueReqs := by
      intro x hx
      simp only [Graph.valueReqs, List.mem_append]
      exact Or.inl (Or.inl (Or.inr hx))
    have hAs : ∀ x ∈ Node.assignedL ((List.map (fun p => Node.mk "" (constOp p.2) [] [p.1] [])
        (inits.filter fun p => !inputs.contains p.1)) ++ nodes), x ∉ inputs := by
      intro x hx
      rw [assignedL_append, assignedL_consts, List.mem_append] at hx
      rcases hx with h | h
      · obtain ⟨p, hp, rfl⟩ := List.mem_map.mp h
        have := (List.mem_filter.mp hp).2
        simpa using this
      · exact hA x h
    have h := evalNodes_rename sem lit ρ ν _ _ hy _ _ E hS hAs hrel
    rw [hN] at h
    cases hE2 : evalNodes sem lit (Node.renameL ρ ν ((List.map (fun p => Node.mk "" (constOp p.2) [] [p.1] [])
        (inits.filter fun p => !inputs.contains p.1)) ++ nodes)) E with
    | none => rw [hE2] at h; simp [RelO] at h
    | some E2 =>
      rw [hE2] at h
      simp only [RelO] at h
      have houtS : ∀ o ∈ outputs, o ∈ (Graph.mk inputs [] ((List.map (fun p => Node.mk "" (constOp p.2) [] [p.1] [])
          (inits.filter fun p => !inputs.contains p.1)) ++ nodes) outputs vi).valueReqs := by
        intro o ho
        simp only [Graph.valueReqs, List.mem_append]
        exact Or.inl (Or.inr ho)
      -- an output that is an input still holds the argument value at the end
      have hpass : ∀ o ∈ outputs, o ∈ inputs →
          ∃ v, E2.get (argNames.getD (inputs.idxOf o) "") = some v := by
        intro o ho hoi
        rw [← hρin o hoi, ← h o (houtS o ho)]
        have hno : o ∉ Node.outsL ((List.map (fun p => Node.mk "" (constOp p.2) [] [p.1] [])
            (inits.filter fun p => !inputs.contains p.1)) ++ nodes) :=
          fun hm => hAs o (outsL_sub_assignedL _ o hm) hoi
        have hfr := evalNodes_frame sem lit _ _ _ hN o hno
        obtain ⟨i, hi, rfl⟩ := List.getElem_of_mem hoi
        have hi' : i < (vals.map some).length := by simp; omega
        have := setMany_get_idx (fun _ => none) inputs (vals.map some) hin (by simp; omega) hin0 i hi hi'
        refine ⟨vals[i]'(by omega), ?_⟩
        unfold Env.get at this ⊢
        rw [hfr]
        simpa using this
      obtain ⟨E3, h1, h2, h3⟩ := passThrough_eval sem lit hid inputs argNames outputs resNames E2
        hrl.symm hrn hr hpass
      refine ⟨E3, ?_, ?_, ?_⟩
      · rw [evalNodes_append, hE2]; exact h1
      · rw [← hev]
        apply List.ext_getElem
        · simp [hrl]
        · intro k hk1 hk2
          simp only [List.length_map] at hk1 hk2
          simp only [List.getElem_map]
          rw [h3 k hk2 hk1]
          have hok : outputs[k] ∈ outputs := List.getElem_mem hk2
          split
          · rename_i hoi
            rw [← hρin _ hoi, ← h _ (houtS _ hok)]
          · rename_i hoi
            have hρ := hρout _ hok hoi
            rw [hout.idxOf_getElem k hk2, getD_lt _ _ hk1] at hρ
            rw [← hρ, ← h _ (houtS _ hok)]
      · intro n hn hnr
        rw [h2 n hnr]
        exact evalNodes_frame sem lit _ _ _ hE2 n (by rw [outsL_renameL]; exact hn)

end
end Inline
