import SpoxModel.Lemmas.VPFeed
/-! Fixed-point lemmas (C07, round 10): a value produced by `unwrap_feed` and kept is left unchanged by `retype`. -/
namespace VP

theorem normalise_idem' (p : Payload) : p.normalise.normalise = p.normalise := by
  cases p with
  | arr dt sh pid => cases dt <;> simp [Payload.normalise, DT.isNumber, DT.norm]
  | list _ => rfl
  | some _ => rfl
  | none => rfl

theorem new_inv (t : Ty) (v : Payload) : (PropValue.new t v).type = t ∧
    (PropValue.new t v).value.normalise = (PropValue.new t v).value :=
  ⟨rfl, normalise_idem' v⟩

theorem mapM_ok_mem {α β ε} (f : α → Except ε β) : ∀ (xs : List α) (es : List β),
    xs.mapM f = .ok es → ∀ e ∈ es, ∃ x, f x = .ok e
  | [], es, h, e, he => by
    simp [List.mapM_nil, pure, Except.pure] at h
    subst h; simp at he
  | a :: xs, es, h, e, he => by
    rw [List.mapM_cons] at h
    cases hfa : f a with
    | error err => simp [hfa, bind, Except.bind] at h
    | ok b =>
      cases hm : xs.mapM f with
      | error err => simp [hfa, hm, bind, Except.bind] at h
      | ok bs =>
        simp [hfa, hm, bind, Except.bind, pure, Except.pure] at h
        subst h
        rcases List.mem_cons.mp he with rfl | he'
        · exact ⟨a, hfa⟩
        · exact mapM_ok_mem f xs bs hm e he'

theorem leafRef_inv (typ : Ty) (w : RefVal) (pv : PropValue) (h : leafRef typ w = .ok pv) :
    ∃ v, pv = PropValue.new typ v ∧ (v = .none ∨ ∃ dt sh pid, v = .arr dt sh pid ∧ dt ≠ .object) := by
  cases w with
  | arr dt sh pid =>
    simp only [leafRef, Except.ok.injEq] at h
    exact ⟨_, h.symm, Or.inr ⟨_, sh, pid, rfl, by cases dt <;> simp⟩⟩
  | scalar dt pid =>
    simp only [leafRef, Except.ok.injEq] at h
    exact ⟨_, h.symm, Or.inr ⟨_, [], pid, rfl, by cases dt <;> simp⟩⟩
  | «opaque» pid =>
    simp only [leafRef, Except.ok.injEq] at h
    exact ⟨_, h.symm, Or.inr ⟨_, [], pid, rfl, by simp⟩⟩
  | ragged => simp [leafRef] at h
  | none =>
    simp only [leafRef, Except.ok.injEq] at h
    exact ⟨_, h.symm, Or.inl rfl⟩
  | list xs => simp [leafRef] at h

/-- whatever `from_ref_value` returns is declared with the requested type and is already normalised -/
theorem fromRef_new (t : Ty) (r : RefVal) (pv : PropValue) (h : fromRef t r = .ok pv) :
    ∃ v, pv = PropValue.new t v := by
  cases t with
  | tensor e s =>
    simp only [fromRef] at h
    obtain ⟨v, hv, _⟩ := leafRef_inv _ _ _ h
    exact ⟨v, hv⟩
  | opt t' =>
    simp only [fromRef] at h
    split at h
    · exact ⟨_, (Except.ok.inj h).symm⟩
    · cases hf : fromRef t' (unwrap1 r) with
      | error e => simp [hf, bind, Except.bind] at h
      | ok inner =>
        simp [hf, bind, Except.bind] at h
        exact ⟨_, h.symm⟩
  | seq t' =>
    simp only [fromRef] at h
    split at h
    · rename_i xs
      cases hm : xs.mapM (fromRef t') with
      | error e => simp [hm, bind, Except.bind] at h
      | ok es =>
        simp [hm, bind, Except.bind] at h
        exact ⟨_, h.symm⟩
    · obtain ⟨v, hv, _⟩ := leafRef_inv _ _ _ h
      exact ⟨v, hv⟩

/-- **Fixed point**: a value produced by `from_ref_value` that passes `check` is left unchanged by `retype`. -/
theorem fromRef_fixed : ∀ (t : Ty) (r : RefVal) (pv : PropValue), t.refOk = true → fromRef t r = .ok pv →
    checkRec t pv.value = true → retype t pv.value = pv.value
  | .tensor e s, r, pv, hw, h, hc => by
    simp only [fromRef] at h
    obtain ⟨v, rfl, hv⟩ := leafRef_inv _ _ _ h
    rcases hv with rfl | ⟨dt, sh, pid, rfl, hobj⟩
    · simp [PropValue.new, PropValue.value, Payload.normalise, checkRec] at hc
    · simp only [PropValue.new, PropValue.value, Payload.normalise, checkRec, checkTensor_eq,
        Bool.and_eq_true] at hc
      have he : e.isElem = true := by simpa [Ty.refOk] using hw
      have h2 := hc.2
      simp only [PropValue.new, PropValue.value, Payload.normalise, retype]
      revert h2 he hobj
      cases dt <;> cases e <;> simp [DT.isNumber, DT.norm, dtMatch, DT.isElem]
  | .seq t, r, pv, hw, h, hc => by
    have hw' : t.refOk = true := by simpa [Ty.refOk] using hw
    cases r
    case list xs =>
      simp only [fromRef] at h
      cases hm : xs.mapM (fromRef t) with
      | error e => simp [hm, bind, Except.bind] at h
      | ok es =>
        simp [hm, bind, Except.bind] at h
        subst h
        have hv : (PropValue.new (.seq t) (.list es)).value = .list es := rfl
        rw [hv] at hc ⊢
        simp only [checkRec, List.all_eq_true, Bool.and_eq_true] at hc
        simp only [retype]
        congr 1
        conv => rhs; rw [← List.map_id es]
        apply List.map_congr_left
        intro x hx
        obtain ⟨ri, hri⟩ := mapM_ok_mem _ xs es hm x hx
        obtain ⟨v, rfl⟩ := fromRef_new t ri x hri
        have hcx := (hc _ hx).2
        rw [new_value_normalise, new_value_normalise, normalise_idem', ← new_value_normalise t v] at hcx
        have ih := fromRef_fixed t ri _ hw' hri hcx
        simp only [id]
        rw [ih]
        rfl
    all_goals
      simp only [fromRef] at h
      obtain ⟨v, rfl, hv⟩ := leafRef_inv _ _ _ h
      rcases hv with rfl | ⟨dt, sh, pid, rfl, _⟩ <;>
        simp [PropValue.new, PropValue.value, Payload.normalise, checkRec] at hc
  | .opt t, r, pv, hw, h, hc => by
    have hw' : t.refOk = true := by cases t <;> simp_all [Ty.refOk]
    simp only [fromRef] at h
    split at h
    · cases Except.ok.inj h
      rfl
    · cases hf : fromRef t (unwrap1 r) with
      | error e => simp [hf, bind, Except.bind] at h
      | ok inner =>
        simp [hf, bind, Except.bind] at h
        subst h
        obtain ⟨v, rfl⟩ := fromRef_new t _ inner hf
        have hv : (PropValue.new (.opt t) (.some (PropValue.new t v))).value = .some (PropValue.new t v) := rfl
        rw [hv] at hc ⊢
        simp only [checkRec] at hc
        rw [new_value_normalise, new_value_normalise, normalise_idem', ← new_value_normalise t v] at hc
        have ih := fromRef_fixed t _ _ hw' hf hc
        simp only [retype]
        rw [ih]
        rfl

theorem leafOrt_inv (typ : Ty) (w : RefVal) (pv : PropValue) (h : leafOrt typ w = .ok pv) :
    ∃ v, pv = PropValue.new typ v ∧ (v = .none ∨ ∃ dt sh pid, v = .arr dt sh pid ∧ dt ≠ .object) := by
  cases w with
  | arr dt sh pid =>
    simp only [leafOrt, Except.ok.injEq] at h
    exact ⟨_, h.symm, Or.inr ⟨_, sh, pid, rfl, by cases dt <;> simp⟩⟩
  | none =>
    simp only [leafOrt, Except.ok.injEq] at h
    exact ⟨_, h.symm, Or.inl rfl⟩
  | scalar dt pid => simp [leafOrt] at h
  | «opaque» pid => simp [leafOrt] at h
  | ragged => simp [leafOrt] at h
  | list xs => simp [leafOrt] at h

theorem fromOrt_new (t : Ty) (r : RefVal) (pv : PropValue) (h : fromOrt t r = .ok pv) :
    ∃ v, pv = PropValue.new t v := by
  cases t with
  | tensor e s =>
    simp only [fromOrt] at h
    obtain ⟨v, hv, _⟩ := leafOrt_inv _ _ _ h
    exact ⟨v, hv⟩
  | opt t' =>
    simp only [fromOrt] at h
    split at h
    · exact ⟨_, (Except.ok.inj h).symm⟩
    · cases hf : fromOrt t' r with
      | error e => simp [hf, bind, Except.bind] at h
      | ok inner =>
        simp [hf, bind, Except.bind] at h
        exact ⟨_, h.symm⟩
  | seq t' =>
    simp only [fromOrt] at h
    split at h
    · rename_i xs
      cases hm : xs.mapM (fromOrt t') with
      | error e => simp [hm, bind, Except.bind] at h
      | ok es =>
        simp [hm, bind, Except.bind] at h
        exact ⟨_, h.symm⟩
    · obtain ⟨v, hv, _⟩ := leafOrt_inv _ _ _ h
      exact ⟨v, hv⟩

theorem fromOrt_fixed_optFree : ∀ (t : Ty) (r : RefVal) (pv : PropValue), t.optFree = true →
    fromOrt t r = .ok pv → checkRec t pv.value = true → retype t pv.value = pv.value
  | .tensor e s, r, pv, hw, h, hc => by
    simp only [fromOrt] at h
    obtain ⟨v, rfl, hv⟩ := leafOrt_inv _ _ _ h
    rcases hv with rfl | ⟨dt, sh, pid, rfl, hobj⟩
    · simp [PropValue.new, PropValue.value, Payload.normalise, checkRec] at hc
    · simp only [PropValue.new, PropValue.value, Payload.normalise, checkRec, checkTensor_eq,
        Bool.and_eq_true] at hc
      have he : e.isElem = true := by simpa [Ty.optFree] using hw
      have h2 := hc.2
      simp only [PropValue.new, PropValue.value, Payload.normalise, retype]
      revert h2 he hobj
      cases dt <;> cases e <;> simp [DT.isNumber, DT.norm, dtMatch, DT.isElem]
  | .seq t, r, pv, hw, h, hc => by
    have hw' : t.optFree = true := by simpa [Ty.optFree] using hw
    cases r
    case list xs =>
      simp only [fromOrt] at h
      cases hm : xs.mapM (fromOrt t) with
      | error e => simp [hm, bind, Except.bind] at h
      | ok es =>
        simp [hm, bind, Except.bind] at h
        subst h
        have hv : (PropValue.new (.seq t) (.list es)).value = .list es := rfl
        rw [hv] at hc ⊢
        simp only [checkRec, List.all_eq_true, Bool.and_eq_true] at hc
        simp only [retype]
        congr 1
        conv => rhs; rw [← List.map_id es]
        apply List.map_congr_left
        intro x hx
        obtain ⟨ri, hri⟩ := mapM_ok_mem _ xs es hm x hx
        obtain ⟨v, rfl⟩ := fromOrt_new t ri x hri
        have hcx := (hc _ hx).2
        rw [new_value_normalise, new_value_normalise, normalise_idem', ← new_value_normalise t v] at hcx
        have ih := fromOrt_fixed_optFree t ri _ hw' hri hcx
        simp only [id]
        rw [ih]
        rfl
    all_goals
      simp only [fromOrt] at h
      obtain ⟨v, rfl, hv⟩ := leafOrt_inv _ _ _ h
      rcases hv with rfl | ⟨dt, sh, pid, rfl, _⟩ <;>
        simp [PropValue.new, PropValue.value, Payload.normalise, checkRec] at hc
  | .opt _, _, _, hw, _, _ => by simp [Ty.optFree] at hw

theorem fromOrt_fixed (t : Ty) (r : RefVal) (pv : PropValue) (hw : t.ortOk = true)
    (h : fromOrt t r = .ok pv) (hc : checkRec t pv.value = true) : retype t pv.value = pv.value := by
  cases t with
  | tensor e s => exact fromOrt_fixed_optFree _ r pv (by simpa [Ty.ortOk] using hw) h hc
  | seq t' => exact fromOrt_fixed_optFree _ r pv (by simpa [Ty.ortOk] using hw) h hc
  | opt t' =>
    have hw' : t'.optFree = true := by simpa [Ty.ortOk] using hw
    simp only [fromOrt] at h
    split at h
    · cases Except.ok.inj h
      rfl
    · cases hf : fromOrt t' r with
      | error e => simp [hf, bind, Except.bind] at h
      | ok inner =>
        simp [hf, bind, Except.bind] at h
        subst h
        obtain ⟨v, rfl⟩ := fromOrt_new t' _ inner hf
        have hv : (PropValue.new (.opt t') (.some (PropValue.new t' v))).value = .some (PropValue.new t' v) := rfl
        rw [hv] at hc ⊢
        simp only [checkRec] at hc
        rw [new_value_normalise, new_value_normalise, normalise_idem', ← new_value_normalise t' v] at hc
        have ih := fromOrt_fixed_optFree t' _ _ hw' hf hc
        simp only [retype]
        rw [ih]
        rfl

end VP
