import SpoxModel.Model.RtShape
import SpoxModel.Model.ScanRun
/-! Helper lemmas for C06: how `dimsOk` (a runtime shape conforms to a reported shape) behaves under
the list operations the inference routines perform on shapes. -/
namespace C06M

@[simp] theorem dimOk_anon (n : Nat) : dimOk n .anon = true := rfl
@[simp] theorem dimOk_named (n : Nat) (s : String) : dimOk n (.named s) = true := rfl
@[simp] theorem dimOk_const (n m : Nat) : dimOk n (.const m) = (n == m) := rfl
@[simp] theorem dimOk_optDim_none (n : Nat) : dimOk n (optDim none) = true := rfl
@[simp] theorem dimOk_optDim_some (n m : Nat) : dimOk n (optDim (some m)) = (n == m) := rfl

theorem dimsOk_length : ∀ {ns : List Nat} {ds : List Dim}, dimsOk ns ds = true → ns.length = ds.length
  | [], [], _ => rfl
  | [], _ :: _, h => by simp [dimsOk] at h
  | _ :: _, [], h => by simp [dimsOk] at h
  | _ :: ns, _ :: ds, h => by
    simp only [dimsOk, Bool.and_eq_true] at h
    simp [dimsOk_length h.2]

theorem dimsOk_append : ∀ {a : List Nat} {c : List Dim} {b : List Nat} {d : List Dim},
    dimsOk a c = true → dimsOk b d = true → dimsOk (a ++ b) (c ++ d) = true
  | [], [], _, _, _, h => by simpa using h
  | [], _ :: _, _, _, h, _ => by simp [dimsOk] at h
  | _ :: _, [], _, _, h, _ => by simp [dimsOk] at h
  | _ :: a, _ :: c, b, d, h, h' => by
    simp only [dimsOk, Bool.and_eq_true] at h
    simp only [List.cons_append, dimsOk, Bool.and_eq_true]
    exact ⟨h.1, dimsOk_append h.2 h'⟩

theorem dimsOk_dropLast : ∀ {ns : List Nat} {ds : List Dim},
    dimsOk ns ds = true → dimsOk ns.dropLast ds.dropLast = true
  | [], [], _ => rfl
  | [], _ :: _, h => by simp [dimsOk] at h
  | _ :: _, [], h => by simp [dimsOk] at h
  | [_], [_], _ => rfl
  | [_], _ :: _ :: _, h => by simp [dimsOk] at h
  | _ :: _ :: _, [_], h => by simp [dimsOk] at h
  | n :: n' :: ns, d :: d' :: ds, h => by
    simp only [dimsOk, Bool.and_eq_true] at h
    have ih := dimsOk_dropLast (ns := n' :: ns) (ds := d' :: ds) (by simp [dimsOk, h.2])
    simp only [List.dropLast_cons₂, dimsOk, Bool.and_eq_true]
    exact ⟨h.1, ih⟩

theorem dimsOk_set_anon : ∀ {ns : List Nat} {ds : List Dim} (i k : Nat),
    dimsOk ns ds = true → dimsOk (ns.set i k) (ds.set i .anon) = true
  | [], [], _, _, _ => rfl
  | [], _ :: _, _, _, h => by simp [dimsOk] at h
  | _ :: _, [], _, _, h => by simp [dimsOk] at h
  | _ :: ns, _ :: ds, 0, k, h => by
    simp only [dimsOk, Bool.and_eq_true] at h
    simp [List.set, dimsOk, dimOk, h.2]
  | _ :: ns, _ :: ds, i + 1, k, h => by
    simp only [dimsOk, Bool.and_eq_true] at h
    simp only [List.set, dimsOk, Bool.and_eq_true]
    exact ⟨h.1, dimsOk_set_anon i k h.2⟩

theorem dimsOk_snoc_const {ns : List Nat} {ds : List Dim} (n : Nat) (h : dimsOk ns ds = true) :
    dimsOk (ns ++ [n]) (ds ++ [.const n]) = true :=
  dimsOk_append h (by simp [dimsOk, dimOk])

theorem numel_singleton (k : Nat) : numel [k] = k := by simp [numel]

/-- Forgetting a dimension only weakens a type. -/
theorem dimOk_strip (pred : String → Bool) (n : Nat) (d : Dim) (h : dimOk n d = true) :
    dimOk n (stripDim pred d) = true := by
  cases d with
  | const m => simpa [stripDim] using h
  | named s => by_cases hp : pred s = true <;> simp [stripDim, hp, dimOk]
  | anon => simp [stripDim, dimOk]

theorem dimsOk_strip (pred : String → Bool) : ∀ {ns : List Nat} {ds : List Dim},
    dimsOk ns ds = true → dimsOk ns (ds.map (stripDim pred)) = true
  | [], [], _ => rfl
  | [], _ :: _, h => by simp [dimsOk] at h
  | _ :: _, [], h => by simp [dimsOk] at h
  | _ :: ns, _ :: ds, h => by
    simp only [dimsOk, Bool.and_eq_true] at h
    simp only [List.map_cons, dimsOk, Bool.and_eq_true]
    exact ⟨dimOk_strip pred _ _ h.1, dimsOk_strip pred h.2⟩

/-! ### Loop: `refines`, `common` -/

theorem refinesDim_sound (n : Nat) (a r : Dim) (h : refinesDim a r = true) (hr : dimOk n r = true) :
    dimOk n a = true := by
  cases a with
  | const m =>
    simp only [refinesDim, Bool.or_false, beq_iff_eq] at h
    subst h; exact hr
  | named s => rfl
  | anon => rfl

theorem refinesDims_sound : ∀ (ns : List Nat) (as rs : List Dim),
    (as.zip rs).all (fun p => refinesDim p.1 p.2) = true → rs.length = as.length →
    dimsOk ns rs = true → dimsOk ns as = true
  | [], [], [], _, _, _ => rfl
  | _, [], _ :: _, _, hl, _ => by simp at hl
  | _, _ :: _, [], _, hl, _ => by simp at hl
  | [], _ :: _, _ :: _, _, _, h => by simp [dimsOk] at h
  | _ :: _, [], [], _, _, h => by simp [dimsOk] at h
  | n :: ns, a :: as, r :: rs, hall, hl, h => by
    simp only [List.zip_cons_cons, List.all_cons, Bool.and_eq_true] at hall
    simp only [dimsOk, Bool.and_eq_true] at h ⊢
    exact ⟨refinesDim_sound n a r hall.1 h.1,
      refinesDims_sound ns as rs hall.2 (by simpa using hl) h.2⟩

theorem commonDims_sound : ∀ (ns : List Nat) (as rs : List Dim), rs.length = as.length →
    dimsOk ns as = true →
    dimsOk ns ((as.zip rs).map (fun p => if p.1 = p.2 then p.1 else Dim.anon)) = true
  | [], [], [], _, _ => rfl
  | _, [], _ :: _, hl, _ => by simp at hl
  | _, _ :: _, [], hl, _ => by simp at hl
  | [], _ :: _, _ :: _, _, h => by simp [dimsOk] at h
  | _ :: _, [], [], _, h => by simp [dimsOk] at h
  | n :: ns, a :: as, r :: rs, hl, h => by
    simp only [dimsOk, Bool.and_eq_true] at h
    simp only [List.zip_cons_cons, List.map_cons, dimsOk, Bool.and_eq_true]
    refine ⟨?_, commonDims_sound ns as rs (by simpa using hl) h.2⟩
    by_cases hab : a = r <;> simp [hab]
    subst hab; exact h.1

theorem refines_sound (v : RtVal) (r a : Ty) (h : refines r a = true)
    (hc : conforms v (some r) = true) : conforms v (some a) = true := by
  unfold refines at h
  split at h
  · simp at h
  · rename_i he
    simp only [ne_eq, Decidable.not_not] at he
    simp only [conforms, Bool.and_eq_true, beq_iff_eq] at hc ⊢
    refine ⟨by rw [← he]; exact hc.1, ?_⟩
    rcases a with ⟨ae, _ | as⟩
    · rfl
    · rcases r with ⟨re, _ | rs⟩
      · simp at h
      · simp only [Bool.and_eq_true, beq_iff_eq] at h
        exact refinesDims_sound v.s as rs h.2 h.1 hc.2

theorem common_sound (v : RtVal) (r a : Ty) (h : refines r a = true)
    (hc : conforms v (some a) = true) : conforms v (some (common r a)) = true := by
  simp only [conforms, Bool.and_eq_true, beq_iff_eq] at hc ⊢
  rcases a with ⟨ae, _ | as⟩
  · rcases r with ⟨re, _ | rs⟩ <;> simp [common, hc.1]
  · rcases r with ⟨re, _ | rs⟩
    · simp [common, hc.1]
    · unfold refines at h
      split at h
      · simp at h
      · simp only [Bool.and_eq_true, beq_iff_eq] at h
        exact ⟨hc.1, commonDims_sound v.s as rs h.1 hc.2⟩

theorem allTyped_map_some : ∀ (a : List Ty), allTyped (a.map some) = some a
  | [] => rfl
  | t :: ts => by simp [allTyped, allTyped_map_some ts]

theorem conformsAll_refines : ∀ (vs : List RtVal) (a r : List Ty), allRefine a r = true →
    a.length = r.length → conformsAll vs (r.map some) = true → conformsAll vs (a.map some) = true
  | [], [], [], _, _, _ => rfl
  | _, [], _ :: _, _, hl, _ => by simp at hl
  | _, _ :: _, [], _, hl, _ => by simp at hl
  | [], _ :: _, _ :: _, _, _, h => by simp [conformsAll] at h
  | _ :: _, [], [], _, _, h => by simp [conformsAll] at h
  | v :: vs, a :: as, r :: rs, hall, hl, h => by
    simp only [allRefine, Bool.and_eq_true] at hall
    simp only [List.map_cons, conformsAll, Bool.and_eq_true] at h ⊢
    exact ⟨refines_sound v r a hall.1 h.1, conformsAll_refines vs as rs hall.2 (by simpa using hl) h.2⟩

theorem conformsAll_zipCommon : ∀ (vs : List RtVal) (a r : List Ty), allRefine a r = true →
    a.length = r.length → conformsAll vs (a.map some) = true → conformsAll vs (zipCommon a r) = true
  | [], [], [], _, _, _ => rfl
  | _, [], _ :: _, _, hl, _ => by simp at hl
  | _, _ :: _, [], _, hl, _ => by simp at hl
  | [], _ :: _, _ :: _, _, _, h => by simp [conformsAll] at h
  | _ :: _, [], [], _, _, h => by simp [conformsAll] at h
  | v :: vs, a :: as, r :: rs, hall, hl, h => by
    simp only [allRefine, Bool.and_eq_true] at hall
    simp only [List.map_cons, conformsAll, Bool.and_eq_true] at h
    simp only [zipCommon, conformsAll, Bool.and_eq_true]
    exact ⟨common_sound v r a hall.1 h.1, conformsAll_zipCommon vs as rs hall.2 (by simpa using hl) h.2⟩

theorem zipCommon_length : ∀ (a r : List Ty), a.length = r.length → (zipCommon a r).length = a.length
  | [], [], _ => rfl
  | [], _ :: _, h => by simp at h
  | _ :: _, [], h => by simp at h
  | _ :: as, _ :: rs, h => by simp [zipCommon, zipCommon_length as rs (by simpa using h)]

theorem onnxCarried_length : ∀ (a : List Ty), (onnxCarried a).length = a.length
  | [] => rfl
  | _ :: as => by simp [onnxCarried, onnxCarried_length as]

/-- Element types only (what survives when nothing is known about shapes). -/
def elemsMatch : List RtVal → List Ty → Bool
  | [], [] => true
  | v :: vs, t :: ts => v.e == t.e && elemsMatch vs ts
  | _, _ => false

theorem elemsMatch_of_conformsAll : ∀ (vs : List RtVal) (a : List Ty),
    conformsAll vs (a.map some) = true → elemsMatch vs a = true
  | [], [], _ => rfl
  | [], _ :: _, h => by simp [conformsAll] at h
  | _ :: _, [], h => by simp [conformsAll] at h
  | v :: vs, t :: ts, h => by
    simp only [List.map_cons, conformsAll, conforms, Bool.and_eq_true] at h
    simp only [elemsMatch, Bool.and_eq_true]
    exact ⟨h.1.1, elemsMatch_of_conformsAll vs ts h.2⟩

theorem elemsMatch_agree : ∀ (vs : List RtVal) (a r : List Ty), elemsAgree a r = true →
    a.length = r.length → elemsMatch vs r = true → elemsMatch vs a = true
  | [], [], [], _, _, _ => rfl
  | _, [], _ :: _, _, hl, _ => by simp at hl
  | _, _ :: _, [], _, hl, _ => by simp at hl
  | [], _ :: _, _ :: _, _, _, h => by simp [elemsMatch] at h
  | _ :: _, [], [], _, _, h => by simp [elemsMatch] at h
  | v :: vs, a :: as, r :: rs, hag, hl, h => by
    simp only [elemsAgree, Bool.and_eq_true, beq_iff_eq] at hag
    simp only [elemsMatch, Bool.and_eq_true, beq_iff_eq] at h ⊢
    exact ⟨by rw [hag.1]; exact h.1, elemsMatch_agree vs as rs hag.2 (by simpa using hl) h.2⟩

theorem conformsAll_onnxCarried : ∀ (vs : List RtVal) (a : List Ty),
    elemsMatch vs a = true → conformsAll vs (onnxCarried a) = true
  | [], [], _ => rfl
  | [], _ :: _, h => by simp [elemsMatch] at h
  | _ :: _, [], h => by simp [elemsMatch] at h
  | v :: vs, t :: ts, h => by
    simp only [elemsMatch, Bool.and_eq_true] at h
    simp only [onnxCarried, conformsAll, conforms, Bool.and_eq_true]
    exact ⟨⟨h.1, trivial⟩, conformsAll_onnxCarried vs ts h.2⟩

/-- Any property preserved by one iteration of the body holds of the final carried values. -/
theorem loopRun_inv (P : List RtVal → Prop) (body : Body)
    (hstep : ∀ i vs c vs' sc, P vs → body i vs = some (c, vs', sc) → P vs') :
    ∀ (M i : Nat) (c : Bool) (vs fin : List RtVal) (scs : List (List RtVal)),
      P vs → loopRun body M i c vs = some (fin, scs) → P fin
  | 0, _, _, vs, fin, scs, hp, h => by
    simp only [loopRun, Option.some.injEq, Prod.mk.injEq] at h; rw [← h.1]; exact hp
  | M + 1, i, false, vs, fin, scs, hp, h => by
    simp only [loopRun, Option.some.injEq, Prod.mk.injEq] at h; rw [← h.1]; exact hp
  | M + 1, i, true, vs, fin, scs, hp, h => by
    simp only [loopRun] at h
    split at h
    · simp at h
    · rename_i c vs' sc hb
      split at h
      · simp at h
      · rename_i fin' scs' hrec
        simp only [Option.some.injEq, Prod.mk.injEq] at h
        rw [← h.1]
        exact loopRun_inv P body hstep M (i + 1) c vs' fin' scs' (hstep i vs c vs' sc hp hb) hrec

theorem conformsAll_get : ∀ (row : List RtVal) (s : List Ty) (j : Nat) (t : Ty),
    conformsAll row (s.map some) = true → s[j]? = some t →
    ∃ v, row[j]? = some v ∧ conforms v (some t) = true
  | [], [], _, _, _, h => by simp at h
  | [], _ :: _, _, _, h, _ => by simp [conformsAll] at h
  | _ :: _, [], _, _, h, _ => by simp [conformsAll] at h
  | v :: vs, t' :: ts, 0, t, h, hj => by
    simp only [List.map_cons, conformsAll, Bool.and_eq_true] at h
    simp only [List.getElem?_cons_zero, Option.some.injEq] at hj
    subst hj
    exact ⟨v, rfl, h.1⟩
  | v :: vs, t' :: ts, j + 1, t, h, hj => by
    simp only [List.map_cons, conformsAll, Bool.and_eq_true] at h
    simp only [List.getElem?_cons_succ] at hj
    obtain ⟨w, hw, hc⟩ := conformsAll_get vs ts j t h.2 hj
    exact ⟨w, by simpa using hw, hc⟩

/-! ### Scan: inserting / deleting an axis -/

theorem dimsOk_insAt : ∀ {ns : List Nat} {ds : List Dim} (i n : Nat) (d : Dim),
    dimsOk ns ds = true → dimOk n d = true → dimsOk (insAt i n ns) (insAt i d ds) = true
  | ns, ds, 0, n, d, h, hd => by simp [insAt, dimsOk, h, hd]
  | [], [], _ + 1, n, d, _, hd => by simp [insAt, dimsOk, hd]
  | [], _ :: _, _ + 1, _, _, h, _ => by simp [dimsOk] at h
  | _ :: _, [], _ + 1, _, _, h, _ => by simp [dimsOk] at h
  | _ :: ns, _ :: ds, i + 1, n, d, h, hd => by
    simp only [dimsOk, Bool.and_eq_true] at h
    simp [insAt, dimsOk, h.1, dimsOk_insAt i n d h.2 hd]

theorem dimsOk_delAt : ∀ {ns : List Nat} {ds : List Dim} (i : Nat),
    dimsOk ns ds = true → dimsOk (delAt i ns) (delAt i ds) = true
  | [], [], _, _ => by simp [delAt, dimsOk]
  | [], _ :: _, _, h => by simp [dimsOk] at h
  | _ :: _, [], _, h => by simp [dimsOk] at h
  | _ :: ns, _ :: ds, 0, h => by
    simp only [dimsOk, Bool.and_eq_true] at h
    simpa [delAt] using h.2
  | _ :: ns, _ :: ds, i + 1, h => by
    simp only [dimsOk, Bool.and_eq_true] at h
    simp [delAt, dimsOk, h.1, dimsOk_delAt i h.2]

theorem dimsOk_getD : ∀ {ns : List Nat} {ds : List Dim} (i : Nat),
    dimsOk ns ds = true → dimOk (ns.getD i 0) (ds.getD i .anon) = true
  | [], [], _, _ => by simp
  | [], _ :: _, _, h => by simp [dimsOk] at h
  | _ :: _, [], _, h => by simp [dimsOk] at h
  | _ :: ns, _ :: ds, 0, h => by
    simp only [dimsOk, Bool.and_eq_true] at h
    simpa using h.1
  | _ :: ns, _ :: ds, i + 1, h => by
    simp only [dimsOk, Bool.and_eq_true] at h
    simpa using dimsOk_getD i h.2

theorem delAt_zero_eq_drop {α : Type} : ∀ (l : List α), delAt 0 l = l.drop 1
  | [] => rfl
  | _ :: _ => rfl

end C06M
