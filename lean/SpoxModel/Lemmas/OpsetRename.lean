import SpoxModel.Lemmas.Opset
/-!
# Adaptation does not look at names (C09, histories of builds)

A node's `id` stands for its (unique) node name, the only thing about names the opset model carries.
Between two builds of the same operator objects the names may change (arguments named the other way
round, other requested output names, `Var._rename`): `renameG f` renames every node of a program. The
requirements, the opsets every node is adapted against and every decision are unchanged — there is
nothing name-keyed that could be remembered from an earlier build.
-/
namespace Opset

mutual
def renameN (f : Nat → Nat) : PNode → PNode
  | .mk k np c subs i => .mk k np c (renameGs f subs) (f i)
def renameGs (f : Nat → Nat) : List PGraph → List PGraph
  | [] => []
  | g :: gs => renameG f g :: renameGs f gs
def renameG (f : Nat → Nat) : PGraph → PGraph
  | .mk nodes => .mk (renameNs f nodes)
def renameNs (f : Nat → Nat) : List PNode → List PNode
  | [] => []
  | n :: ns => renameN f n :: renameNs f ns
end

theorem renameGs_isEmpty (f : Nat → Nat) : ∀ gs : List PGraph, (renameGs f gs).isEmpty = gs.isEmpty
  | [] => by simp [renameGs]
  | _ :: _ => by simp [renameGs]

mutual
theorem reqNode_rename (F : Facts) (f : Nat → Nat) : ∀ n : PNode, reqNode F (renameN f n) = reqNode F n
  | .mk k np c subs i => by
    simp only [renameN, reqNode]
    rw [reqGraphs_rename F f subs]
theorem reqGraphs_rename (F : Facts) (f : Nat → Nat) : ∀ gs : List PGraph,
    reqGraphs F (renameGs f gs) = reqGraphs F gs
  | [] => by simp [renameGs]
  | g :: gs => by
    simp only [renameGs, reqGraphs]
    rw [reqGraph_rename F f g, reqGraphs_rename F f gs]
theorem reqGraph_rename (F : Facts) (f : Nat → Nat) : ∀ g : PGraph, reqGraph F (renameG f g) = reqGraph F g
  | .mk nodes => by
    simp only [renameG, reqGraph]
    rw [reqNodes_rename F f nodes]
theorem reqNodes_rename (F : Facts) (f : Nat → Nat) : ∀ ns : List PNode,
    reqNodes F (renameNs f ns) = reqNodes F ns
  | [] => by simp [renameNs]
  | n :: ns => by
    simp only [renameNs, reqNodes]
    rw [reqNode_rename F f n, reqNodes_rename F f ns]
end

/-- The decision looks at the kind, the number of protos, rank knowledge and whether there are bodies. -/
theorem adaptBestEffort_rename (F : Facts) (f : Nat → Nat) (opsets : List Req) :
    ∀ n : PNode, adaptBestEffort F opsets (renameN f n) = adaptBestEffort F opsets n
  | .mk k np c subs i => by
    cases k <;> simp [renameN, adaptBestEffort, renameGs_isEmpty]

/-- what is observable of an entry apart from the node itself -/
def Entry.view (e : Entry) : List Req × Decision := (e.opsets, e.decision)

mutual
theorem adaptBody_rename (F : Facts) (f : Nat → Nat) (ctx : List Req) : ∀ g : PGraph,
    (adaptBody F ctx (renameG f g)).map Entry.view = (adaptBody F ctx g).map Entry.view
  | .mk nodes => by
    have h := reqGraph_rename F f (.mk nodes)
    simp only [renameG] at h
    simp only [renameG, adaptBody, h]
    exact adaptNodes_rename F f ctx _ nodes
theorem adaptNodes_rename (F : Facts) (f : Nat → Nat) (ctx opsets : List Req) : ∀ ns : List PNode,
    (adaptNodes F ctx opsets (renameNs f ns)).map Entry.view = (adaptNodes F ctx opsets ns).map Entry.view
  | [] => by simp [renameNs, adaptNodes]
  | n :: ns => by
    simp only [renameNs, adaptNodes, List.map_append]
    rw [adaptNode_rename F f ctx opsets n, adaptNodes_rename F f ctx opsets ns]
theorem adaptNode_rename (F : Facts) (f : Nat → Nat) (ctx opsets : List Req) : ∀ n : PNode,
    (adaptNode F ctx opsets (renameN f n)).map Entry.view = (adaptNode F ctx opsets n).map Entry.view
  | .mk k np c subs i => by
    have hd := adaptBestEffort_rename F f opsets (.mk k np c subs i)
    simp only [renameN] at hd
    simp only [renameN, adaptNode, List.map_cons, Entry.view, hd]
    congr 1
    cases k with
    | func d v nm => rfl
    | internal => exact adaptBodies_rename F f ctx subs
    | intro => exact adaptBodies_rename F f ctx subs
    | introOpt => exact adaptBodies_rename F f ctx subs
    | inline a b => exact adaptBodies_rename F f ctx subs
    | op d o v => exact adaptBodies_rename F f ctx subs
theorem adaptBodies_rename (F : Facts) (f : Nat → Nat) (ctx : List Req) : ∀ gs : List PGraph,
    (adaptBodies F ctx (renameGs f gs)).map Entry.view = (adaptBodies F ctx gs).map Entry.view
  | [] => by simp [renameGs, adaptBodies]
  | g :: gs => by
    simp only [renameGs, adaptBodies, List.map_append]
    rw [adaptBody_rename F f ctx g, adaptBodies_rename F f ctx gs]
end

theorem adaptGraph_rename (F : Facts) (f : Nat → Nat) (extra : List Req) : ∀ g : PGraph,
    (adaptGraph F extra (renameG f g)).map Entry.view = (adaptGraph F extra g).map Entry.view
  | .mk nodes => by
    have h := reqGraph_rename F f (.mk nodes)
    simp only [renameG] at h
    simp only [renameG, adaptGraph, h]
    exact adaptNodes_rename F f _ _ nodes

end Opset
