import SpoxModel.Lemmas.BuildAlgLeak
import SpoxModel.Lemmas.BuildAlgScope
/-!
# The discovery order gives `TopoFacts`

From the invariant `DI` of `discover` (`graph_topo` before the reverse is duplicate-free and lists
every graph after the bodies held by the nodes it reaches; owners hold their graphs and are reached
by an entered graph) follow the facts the scope relaxation needs: in the reversed order the owner
of a graph is reached only by graphs processed earlier.
-/
set_option linter.unusedSectionVars false
set_option linter.unusedVariables false
namespace BuildAlg

theorem split_order {α : Type} {l a b c d : List α} {x y : α} (hnd : l.Nodup)
    (h1 : l = a ++ x :: b) (h2 : l = c ++ y :: d) (hy : y ∈ b) : x ∈ c := by
  have hxb : x ∉ b := by
    rw [h1] at hnd
    have := (List.nodup_append.mp hnd).2.1
    exact (List.nodup_cons.mp this).1
  have hya : y ∉ a := by
    intro hc
    rw [h1] at hnd
    exact (List.nodup_append.mp hnd).2.2 y hc y (List.mem_cons_of_mem _ hy) rfl
  have heq : a ++ x :: b = c ++ y :: d := by rw [← h1, ← h2]
  rcases List.append_eq_append_iff.mp heq with ⟨m, hc, hb⟩ | ⟨m, ha, hd⟩
  · cases m with
    | nil =>
      simp only [List.nil_append] at hb
      have : x = y := (List.cons.inj hb).1
      subst this; exact absurd hy hxb
    | cons z m' =>
      have : x = z := (List.cons.inj hb).1
      subst this
      rw [hc]; simp
  · cases m with
    | nil =>
      simp only [List.nil_append] at hd
      have : y = x := (List.cons.inj hd).1
      subst this; exact absurd hy hxb
    | cons z m' =>
      have : y = z := (List.cons.inj hd).1
      subst this
      exfalso; apply hya; rw [ha]; simp

theorem topoFacts_of_discover (p : Prog) (hwf : WF p) (st : DState) (hdi : DI p st)
    (hall : ∀ h ∈ st.entered, h ∈ st.topo)
    (hho : ∀ x ∈ st.topo, x = 0 ∨ (lookupN st.owner x).isSome)
    (hlast : ∃ t, st.topo = t ++ [0]) : TopoFacts p st.owner st.topo.reverse := by
  have hndr : st.topo.reverse.Nodup := nodup_reverse' hdi.ND
  refine ⟨hndr, ?_, ?_, ?_, ?_⟩
  · obtain ⟨t, ht⟩ := hlast
    exact ⟨t.reverse, by rw [ht]; simp⟩
  · cases ho : lookupN st.owner 0 with
    | none => rfl
    | some o =>
      exfalso
      exact hwf.main_free o (hdi.OW _ (lookupN_mem ho)).1
  · intro pre g suf hgt h o hh ho hreach
    have htopo : st.topo = suf.reverse ++ g :: pre.reverse := by
      have := congrArg List.reverse hgt
      simpa using this
    have hsub : h ∈ p.subs o := (hdi.OW _ (lookupN_mem ho)).1
    have hmem : h ∈ suf.reverse :=
      hdi.CL suf.reverse g pre.reverse htopo h (mem_gadj.mpr ⟨o, hreach, hsub⟩)
    have hsuf : h ∈ suf := by simpa using hmem
    rw [hgt] at hndr
    rcases hh with hh | hh
    · exact (List.nodup_append.mp hndr).2.2 h hh h (List.mem_cons_of_mem _ hsuf) rfl
    · subst hh
      exact (List.nodup_cons.mp (List.nodup_append.mp hndr).2.1).1 hsuf
  · intro pre g suf hgt hg0
    have hg : g ∈ st.topo := by
      have : g ∈ st.topo.reverse := by rw [hgt]; simp
      simpa using this
    rcases hho g hg with h0 | h0
    · exact absurd h0 hg0
    · cases ho : lookupN st.owner g with
      | none => rw [ho] at h0; cases h0
      | some o =>
        obtain ⟨hsub, h, hent, hreach⟩ := hdi.OW _ (lookupN_mem ho)
        refine ⟨o, rfl, h, ?_, hreach⟩
        have hht : h ∈ st.topo := hall h hent
        obtain ⟨A, B, hAB⟩ := List.append_of_mem hht
        have hgA : g ∈ A := hdi.CL A h B hAB g (mem_gadj.mpr ⟨o, hreach, hsub⟩)
        have hrev : st.topo.reverse = B.reverse ++ h :: A.reverse := by rw [hAB]; simp
        exact split_order hndr hrev hgt (by simpa using hgA)

end BuildAlg
