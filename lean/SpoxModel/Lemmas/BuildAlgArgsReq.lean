import SpoxModel.Lemmas.BuildAlgDiscover
/-!
# `arguments_of[g]` is the requested argument list

`discover` records `arguments_of[graph] = list(graph.requested_arguments)` when a list was requested
(`argsFor`), for exactly the graphs it finishes (`graph_topo`). Invariant `ArgsReq` through the nested
recursion, as for `ArgsGood`.
-/
set_option linter.unusedSectionVars false
set_option linter.unusedVariables false
namespace BuildAlg

def ArgsReq (p : Prog) (st : DState) : Prop :=
  (∀ e ∈ st.argsOf, e.1 ∈ st.topo ∧
    ∃ pg, p.graphs[e.1]? = some pg ∧ ∀ l, pg.args = some l → e.2 = l) ∧
  (∀ g ∈ st.topo, ∃ e ∈ st.argsOf, e.1 = g)

theorem subStep_argsReq (p : Prog) (rec : Nat → DState → Except Err DState)
    (hrec : ∀ sub st st', ArgsReq p st → rec sub st = .ok st' → ArgsReq p st')
    (n : Nat) (x x' : DState × Acc) (sub : Nat) (hx : ArgsReq p x.1)
    (h : subStep rec n x sub = .ok x') : ArgsReq p x'.1 := by
  unfold subStep at h
  cases hr : rec sub x.1 with
  | error e => rw [hr] at h; cases h
  | ok st =>
    rw [hr] at h
    have hst := hrec sub x.1 st hx hr
    simp only at h
    split at h
    · cases h; exact hst
    · split at h
      · cases h; exact hst
      · cases h

theorem collectStep_argsReq (p : Prog) (rec : Nat → DState → Except Err DState)
    (hrec : ∀ sub st st', ArgsReq p st → rec sub st = .ok st' → ArgsReq p st')
    (x x' : DState × Acc) (v : V) (hx : ArgsReq p x.1)
    (h : collectStep p rec x v = .ok x') : ArgsReq p x'.1 := by
  unfold collectStep at h
  cases v with
  | src g => simp only at h; cases h; exact hx
  | node n =>
    simp only at h
    refine foldE_inv (fun c : DState × Acc => ArgsReq p c.1) _ _ _
      (fun s _ c c' hc hs => subStep_argsReq p rec hrec n c c' s hc hs) ?_ h
    exact hx

theorem finishDiscover_argsReq (p : Prog) (pg : PGraph) (g : Nat)
    (hpg : p.graphs[g]? = some pg) (st st' : DState) (acc : Acc) (hst : ArgsReq p st)
    (h : finishDiscover pg g st acc = .ok st') : ArgsReq p st' := by
  unfold finishDiscover at h
  split at h
  · cases h
  · split at h
    · cases h
    · cases h
      constructor
      · intro e he
        cases he with
        | head =>
          refine ⟨by simp, pg, hpg, ?_⟩
          intro l hl
          simp only [argsFor, hl]
        | tail _ h' =>
          obtain ⟨h1, h2⟩ := hst.1 e h'
          exact ⟨List.mem_append_left _ h1, h2⟩
      · intro h0 hh
        rcases List.mem_append.mp hh with h1 | h1
        · obtain ⟨e, he, hee⟩ := hst.2 h0 h1
          exact ⟨e, List.mem_cons_of_mem _ he, hee⟩
        · have : h0 = g := by simpa using h1
          subst this
          exact ⟨_, List.mem_cons_self, rfl⟩

theorem discover_argsReq (p : Prog) : ∀ (fuel g : Nat) (st st' : DState),
    ArgsReq p st → discover p fuel g st = .ok st' → ArgsReq p st' := by
  intro fuel
  induction fuel with
  | zero => intro g st st' _ h; simp [discover] at h
  | succ fuel ih =>
    intro g st st' hst h
    simp only [discover] at h
    split at h
    · cases h; exact hst
    · split at h
      · cases h
      · rename_i pg hpg
        split at h
        · cases h
        · split at h
          · cases h
          · rename_i st2 acc hfold
            have hI : ArgsReq p (st2, acc).1 := by
              refine foldE_inv (fun c : DState × Acc => ArgsReq p c.1) _ _ _
                (fun v _ c c' hc hs => collectStep_argsReq p _ (fun s a b => ih s a b) c c' v hc hs)
                ?_ hfold
              exact ⟨hst.1, hst.2⟩
            exact finishDiscover_argsReq p pg g hpg st2 st' acc hI h

/-- the look-up used everywhere: for a finished graph with a requested list, `arguments_of` is that list -/
theorem lookupL_argsOf_of_argsReq (p : Prog) (st : DState) (h : ArgsReq p st) (g : Nat)
    (hg : g ∈ st.topo) (pg : PGraph) (l : List Nat) (hpg : p.graphs[g]? = some pg)
    (hl : pg.args = some l) : lookupL st.argsOf g = l := by
  obtain ⟨e0, he0, hee0⟩ := h.2 g hg
  unfold lookupL
  cases hf : st.argsOf.find? (fun e => e.1 == g) with
  | none =>
    have := List.find?_eq_none.mp hf e0 he0
    simp [hee0] at this
  | some e =>
    simp only
    have hmem := List.mem_of_find?_eq_some hf
    have hkey : e.1 = g := by simpa using List.find?_some hf
    obtain ⟨_, pg', hpg', hall⟩ := h.1 e hmem
    rw [hkey, hpg] at hpg'
    cases hpg'
    exact hall l hl

end BuildAlg
